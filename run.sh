#!/bin/bash
# Entry point for every check:  ./run.sh <Cxx> quick|thorough     (or: ./run.sh --setup, ./run.sh <Cxx> --replay <file>)
# Rebuilds bin/vcheck (and bin/vcheck-race when needed) from /repo's current working tree with -tags verif.
set -u
cd "$(dirname "$0")"
. ./env.sh
[ -f go.sum ] || cp /repo/go.sum go.sum
mkdir -p bin work evidence replays

build() { # $1 = output, rest = extra flags
  local out=$1; shift
  go build -tags verif "$@" -o "$out" ./cmd/vcheck 2> work/build.$$.log
  local rc=$?
  if [ $rc -ne 0 ]; then cat work/build.$$.log >&2; rm -f work/build.$$.log; echo "INCONCLUSIVE reason=build-failed" ; exit 3; fi
  rm -f work/build.$$.log
}

if [ "${1:-}" = "--setup" ]; then
  build bin/vcheck
  build bin/vcheck-race -race
  echo "setup ok"; exit 0
fi

ID=${1:?usage: run.sh Cxx quick|thorough}; shift
# flock so concurrent checks do not relink the same binary at once
(
  flock 9
  build bin/vcheck
  if bin/vcheck needs-race "$ID" >/dev/null 2>&1; then build bin/vcheck-race -race; fi
) 9> work/build.lock || exit 3
exec bin/vcheck run "$ID" "$@"
