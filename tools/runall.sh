#!/bin/bash
# usage: tools/runall.sh [tier] [ids...]   -- runs the registered checks one after another and prints a table
cd /verif
TIER=${1:-quick}; shift
IDS="$@"; [ -z "$IDS" ] && IDS=$(python3 -c "import json; print(' '.join(c['property_id'] for c in json.load(open('MANIFEST.json'))['checks']))")
for id in $IDS; do
  t0=$(date +%s)
  ./run.sh $id $TIER > work/runall-$id.out 2>&1; rc=$?
  t1=$(date +%s)
  v=$(python3-vt -c "
import json,jsonschema,sys
try:
    jsonschema.validate(json.load(open('/verif/evidence/$id.json')), json.load(open('/root/.vp/EVIDENCE.schema.json'))); print('evidence-ok')
except Exception as e: print('EVIDENCE-BAD', str(e)[:80])
" 2>&1)
  echo "$id rc=$rc $((t1-t0))s $v | $(grep -c '^KNOWN-FINDING' work/runall-$id.out) known | $(tail -1 work/runall-$id.out | cut -c1-120)"
done
