#!/bin/bash
# usage: tools/seedconfirm.sh <Cxx> <dir with patch.diff + demo_test.go>   -> prints CONFIRMED / NOT-CONFIRMED <why>
# Confirms in a scratch git worktree of /repo that the seeded change compiles, passes the whole existing
# suite, and that its demonstration fails with the change and passes without it. Removes the worktree.
set -u
ID=$1; D=$(readlink -f $2); NAME=$(basename $D)
cd /verif; . ./env.sh
W=/tmp/confirm-$ID-$NAME-$$
git -C /repo worktree add -q --detach $W HEAD || { echo "NOT-CONFIRMED $ID $NAME worktree"; exit 2; }
cleanup() { git -C /repo worktree remove --force $W >/dev/null 2>&1; rm -rf $W; }
demo=$(ls $D/*_test.go 2>/dev/null | head -1)
[ -z "$demo" ] && { echo "NOT-CONFIRMED $ID $NAME no demo test"; cleanup; exit 2; }
pkg=$(grep -m1 '^package ' $demo | awk '{print $2}')
case $pkg in
  starlark_test|starlark) dir=starlark;; time|time_test) dir=lib/time;; json|json_test) dir=lib/json;; proto|proto_test) dir=lib/proto;;
  syntax|syntax_test) dir=syntax;; resolve|resolve_test) dir=resolve;; compile|compile_test) dir=internal/compile;; starlarkstruct|starlarkstruct_test) dir=starlarkstruct;;
  math|math_test) dir=lib/math;; c17demo) dir=c17demo;; *) dir=starlark;;
esac
RACE=""; [ "$ID" = "C05" ] && RACE="-race"
hint=$(grep -ohE '(starlark|lib/[a-z]+|syntax|resolve|internal/compile|starlarkstruct)/[a-z_]*_test\.go' $D/README.md 2>/dev/null | head -1)
[ -n "$hint" ] && dir=$(dirname $hint)
run_demo() { ( cd $W && mkdir -p $dir && n=0 && for f in $D/*_test.go $(dirname $D)/common/*_test.go; do [ -f "$f" ] && { case "$f" in */common/*) [ -f "$D/$(basename $f)" ] && continue;; esac; n=$((n+1)); cp $f $dir/zz_seed_${n}_test.go; }; done; go test $RACE -vet=off -count=1 ./$dir > $W/demo.out 2>&1; rc=$?; rm -f $dir/zz_seed_*_test.go; exit $rc ); }
run_demo; base=$?
[ $base -ne 0 ] && { echo "NOT-CONFIRMED $ID $NAME demo fails WITHOUT the change: $(tail -3 $W/demo.out | tr '\n' ' ' | cut -c1-200)"; cleanup; exit 1; }
( cd $W && git apply --whitespace=nowarn $D/patch.diff ) || { echo "NOT-CONFIRMED $ID $NAME patch does not apply to current HEAD"; cleanup; exit 1; }
( cd $W && go build ./... ) || { echo "NOT-CONFIRMED $ID $NAME does not compile"; cleanup; exit 1; }
( cd $W && go test -vet=off -count=1 ./... > $W/suite.out 2>&1 ) || { echo "NOT-CONFIRMED $ID $NAME existing suite FAILS with the change: $(grep -m3 FAIL $W/suite.out | tr '\n' ' ')"; cleanup; exit 1; }
run_demo; mut=$?
[ $mut -eq 0 ] && { echo "NOT-CONFIRMED $ID $NAME demo PASSES with the change"; cleanup; exit 1; }
echo "CONFIRMED $ID $NAME (suite ok with change; demo in $dir fails with change, passes without)"
cleanup
