#!/bin/bash
# usage: tools/seedbatch.sh <round> <Cxx>   -- confirm and check every /tmp/seed<round>-<Cxx>-out/m*; prints one line per step
R=$1; ID=$2
cd /verif
for d in /tmp/seed$R-$ID-out/m*; do
  [ -f $d/patch.diff ] || continue
  tools/seedconfirm.sh $ID $d 2>&1 | tail -1
  tools/seedcheck.sh $ID $d/patch.diff quick 2>&1 | tail -1
done
