#!/bin/bash
# usage: tools/seedbatch.sh <round> <Cxx>   -- confirm and check every /tmp/seed<round>-<Cxx>-out/m*; prints one line per step
R=$1; ID=$2
cd /verif
for d in /tmp/seed$R-$ID-out/m*; do
  [ -f $d/patch.diff ] || continue
  if ls $d/*_test.go >/dev/null 2>&1; then
    tools/seedconfirm.sh $ID $d 2>&1 | tail -1
  else
    md=$(dirname $(ls $d/*/main.go 2>/dev/null | head -1) 2>/dev/null)
    if [ -n "$md" ] && [ -d "$md" ]; then
      ul=$(grep -ohE 'ulimit -v [0-9]+' $d/README.md | head -1 | awk '{print $3}')
      tools/seedconfirm_main.sh $ID $d $md $ul 2>&1 | tail -1
    else
      echo "NOT-CONFIRMED $ID $(basename $d) no demonstration found"
    fi
  fi
  tools/seedcheck.sh $ID $d/patch.diff quick 2>&1 | tail -1
done
