#!/usr/bin/env python3
"""Regenerates /verif/MANIFEST.json and cmd/vcheck/main.go from the table below.
A property is claimed only when its engine has landed and is silent on the unchanged tree."""
import json, os, subprocess

ROOT = os.path.dirname(os.path.dirname(os.path.abspath(__file__)))

TRUST = "Trusted base: the Go runtime/toolchain, the monitor code in /verif itself, and the hook file starlark/verif_hooks.go reading the real fields. "

# id -> (category, technique, level text, level note, design section)
CHECKS = {
 "C01": ("exploration", "runtime monitoring: reference-model oracle (a tree-walking reference evaluator written from the spec, run side by side with the production pipeline) comparing recorded host-event sequences, final globals and failure positions; step hook for opcode coverage",
         "Generated programs (defs, lambdas, closures, comprehensions, loops, every assignment and call form, load; sub-expressions wrapped in a tracing host function so evaluation order is observable) x 32 option vectors x random layouts, plus every chunk of the repository's own test corpus, are executed by both evaluators in fresh identical environments. Held means no disagreement on the programs generated; the program space is sampled, not exhausted.",
         TRUST + "internal/refeval (the reference semantics) and the shared value library, which both sides call; cases exhausting either budget are discarded and counted.", "§5 C01"),
 "C12": ("exploration", "runtime monitoring: ordered-association-list reference model + structural invariant hook (VerifCheckTable) after operations; exhaustive enumeration of operation sequences over colliding host keys; long random histories",
         "All operation sequences up to length 5 (quick) / 7 (thorough, reduced by one for the largest prefills and cross pairings - see Engine.Rule) over 5 keys of which 3 share a hash, from 22 start tables chosen around growth points, through the Go API; Starlark-level sequences through methods and operators; random histories of 10^4 operations with adversarial hash distributions.",
         TRUST + "VerifCheckTable reads the real table; the model follows doc/spec.md for the order of derived collections.", "§5 C12"),
 "C02": ("exploration", "runtime monitoring: crash-isolated worker processes with a write-ahead log of the input in flight; Go panics recovered and fatal errors attributed by the parent; step hook as budget-overrun monitor",
         "Hostile workloads (adversarial source shapes up to 64 KiB, EOF truncations, byte/token/line mutants of the repository corpus under sampled FileOptions; direct calls of every enumerated callable with edge-pool arguments; random cyclic value graphs under str/repr/==/</hash/json.encode/sorted/in/freeze) run in child processes; any panic, fatal error or budget overrun is a violation attributed to its input. Held means no crash on the inputs generated; the space is unbounded and only sampled.",
         TRUST + "Out-of-memory fatals and makeslice panics on operands with Len >= 2^31 are excluded as the property's 'single huge allocation'; calls that exceed the wall-clock guard are counted, not judged.", "§5 C02"),
 "C03": ("exploration", "runtime monitoring: record-equality oracle over repeated executions of one program in differing conditions: two fresh processes (new hash seed, ASLR, allocation history), the same process after ~100 unrelated executions and a GC, a reused thread, 8 goroutines running the same program and 8 running different ones; records compared byte for byte",
         "Record = printed output, host events, canonical globals (iteration order of every reachable dict/set, attribute listings), error message incl. spelling hints, every backtrace frame, execution steps. Programs: generated (internal/gen) plus 15 directed families leaning on every map-backed listing and hash-dependent path (string keys around the 12-byte seeded-hash switch, growth patterns, dir(), struct/json key order, hash(), spell-check ties, fixed-clock time).",
         TRUST + "canon renders iteration order faithfully; programs whose reference execution allocates > 32 MB are excluded before any arm judges them (counted).", "§5 C03"),
 "C04": ("exploration", "runtime monitoring: invariant hook (VerifState frozen flag of every reachable container) + attack oracle (every discovered mutator - methods via AttrNames, Go API, Starlark statements in a second module, the module's own mutating functions - must fail and leave the canonical snapshot unchanged) over generated graph-building modules; identity monitor on the predeclared dict and the Universe",
         "Generated modules build shared/nested/cyclic object graphs with closures, defaults, bound methods, structs, host values and a loaded library, finishing normally or by error; reachability is computed through public accessors over 10 edge kinds (all must be traversed); unreachable host values must stay mutable.",
         TRUST + "mutator discovery finds a mutator only if one of the probed argument tuples changes a small sample collection.", "§5 C04"),
 "C05": ("exploration", "runtime monitoring: Go race detector (children from the -race build; race log parsed, reports deduplicated by innermost library frames; a self-provoked race proves the log is read) + transcript-equality oracle between 16 concurrent goroutines and solo runs + crash attribution (concurrent map writes, checkptr)",
         "16 goroutines on one frozen module's values: first-use storms (first Hash/String/Freeze/Len/Iterate/AttrNames on every shared object), shuffled and lock-step rounds of 160 operations (reads, iteration in every construct, comparison, hashing, printing, json, calls of closures, storing into own globals = re-freeze, every mutator must be rejected), plus 16 goroutines Init-ing and calling ONE *Program (source and Write/CompiledProgram forms) with failing runs that decode position tables concurrently. >= 90 % of shared objects must have been touched in overlapping windows or the run is inconclusive.",
         TRUST + "the race detector sees only accesses that happen (about four remembered accesses per word): interleavings are sampled, not exhausted.", "§5 C05"),
 "C06": ("fault_enumeration", "runtime monitoring: invariant hooks (VerifState itercount/frozen) + Iterate/Done balance counters on host iterables, over an enumerated construct x exit-path x step-limit matrix",
         "Every cell of {list,dict,set} x iterating construct x exit path (incl. host panic and step-limit cancellation at sampled/every step index) x nesting is executed on the real VM; in-iteration probes attack the collection with every discovered effective mutator; post-conditions read the lock counter through the hook. Held means: no cell of the enumerated matrix violated; it says nothing about constructs or built-ins not in the matrix (new ones are discovered automatically by probing AttrNames/Universe).",
         TRUST + "Mutator discovery finds a mutator only if one of the probed argument tuples changes a 3-element collection.", "§5 C06"),
 "C07": ("fault_enumeration", "runtime monitoring: step hook as logical clock, deterministic cancellation injection at instruction k, porcupine linearizability check of Cancel/Uncancel/exec histories, race detector on the async arm",
         "For a corpus of terminating and non-terminating programs every step limit N (sampled in quick, all in thorough), every built-in call as cancellation site, and every instruction as asynchronous cut point (hook-injected) is exercised and judged in interpreter steps (never wall time); Cancel/Uncancel/exec sequences are enumerated exhaustively up to length 6 and concurrent histories are checked against a set-if-empty register.",
         TRUST + "porcupine v1.3.0; Go race detector; the corpus programs stand for 'all programs' only in the opcodes/constructs they execute (listed in evidence).", "§5 C07"),
 "C08": ("exploration", "runtime monitoring: two reference-model oracles (an independent binder written from the spec, and CPython) judging every (signature, call) execution; exhaustive enumeration of the stated signature x call product in the thorough tier; sentinel monitors on UnpackArgs targets",
         "280 signatures x the full call product (thorough: 29.5M pairs, exhaustive in the stated bounds; quick: 150 sampled calls per signature) executed from source (CALL/CALL_VAR/CALL_KW/CALL_VAR_KW) and through starlark.Call; UnpackArgs/UnpackPositionalArgs specs x call shapes x argument types judged against an independent contract model with untouched-target sentinels.",
         TRUST + "CPython 3.11 argument binding; the independent binder.", "§5 C08"),
 "C09": ("exploration", "runtime monitoring: fault planting with a construction-time oracle (one static-rule violation planted at a random syntactic position of a generated valid program; expected accept/reject for all 64 option vectors from an independent requirement analysis; reported error must lie in the planted construct's span; host-event monitor shows no code ran) + reference-evaluator oracle for the dynamic recursion rule over enumerated call graphs",
         "45 plant kinds x placement contexts x 64 FileOptions vectors, compiled with SourceProgramOptions and (sampled) executed to show that rejected programs produce no host event; call graphs over <= 4 functions through plain calls, lambdas, two closures of one def and sorted/min/max callbacks, with Recursion on and off, compared with the reference evaluator.",
         TRUST + "the requirement analysis is written for the shapes internal/gen produces; internal/refeval for the recursion rule.", "§5 C09"),
 "C10": ("exploration", "runtime monitoring: exact-arithmetic reference oracle (math/big, IEEE-754 bit rules) + algebraic identity monitors + CPython second oracle, run in two process configurations (address-space Int and fallback Int via ulimit -v) whose result digests must agree",
         "Operators, conversions, formatting, literals, range/enumerate/len/repetition and math.floor/ceil/round over boundary and random operands (to 2^200), through the Go API and through source text, in both Int representations.",
         TRUST + "math/big; CPython on a sample; the third Int representation (int_generic.go, 32-bit) cannot be executed in this VM.", "§5 C10"),
 "C11": ("exploration", "runtime monitoring: law monitors (reflexive/symmetric/transitive ==, != negation, equal => equal hash and interchangeable as key, trichotomy, transitivity of <, sort/min/max laws) over all pairs and triples of a value pool, with an independent expected order",
         "All pairs of a 480/900-value pool and all triples of a 72/180-value sub-pool, plus random sort inputs; both Int representations in thorough.",
         TRUST + "the independent order model (big.Rat for numbers, bytewise strings, lexicographic sequences).", "§5 C11"),
 "C13": ("exploration", "runtime monitoring: CPython as reference oracle behind a spec-deviation adapter, plus an independent Go slice/index oracle written from the spec; exhaustive (start, stop, step) enumeration for short receivers",
         "Index/slice triples exhaustively for lengths <= 5 (quick) / <= 8 (thorough) over five sequence types; dense enumeration of string/bytes/list methods and sequence built-ins over 3-letter alphabets; random receivers to length 40; each case evaluated through the Go API and through source text.",
         TRUST + "CPython 3.11 string/list semantics; the adapter encodes only deviations stated in doc/spec.md or fixed by the repository's own test corpus (listed in DESIGN).", "§5 C13"),
 "C14": ("exploration", "runtime monitoring: generated-tree oracle (a syntax tree is rendered with randomised layout and minimal parentheses from the spec's operator table while the renderer records every token position; the parser's tree and positions must equal the generated ones), value-before-spelling oracle for literals, and a token-sequence monitor for near-miss texts",
         "Syntactic trees to depth 6 over all expression and statement forms x 3-5 layouts; all 312 (operand position, child precedence level) pairs required; literal spellings (ints to 300 bits in four bases, float forms, every escape, raw/bytes/triple-quoted) decoded by an independent decoder written from the spec; single-token deletions/duplications/swaps must be rejected or keep the token sequence; the repository's annotated error corpora as self-validation.",
         TRUST + "internal/gen renderer (validated by round-tripping the repository corpus); where the spec is silent the oracle does not judge (listed in DESIGN).", "§5 C14"),
 "C15": ("exploration", "runtime monitoring: inverse-law oracle (Eval(repr(v)) == v with same types, str(s) == s, Quote/unquote inverse) over enumerated code points / byte pairs and generated values; watchdogged printing of cyclic values",
         "Thorough is exhaustive over all 1 112 064 scalar code points and all 65 536 byte pairs; plus ints to 2^300, finite floats by bit pattern, containers to depth 6 with sharing, nine cyclic graph shapes.",
         TRUST + "structural comparison in the monitor; a cyclic print that does not return within the watchdog is inconclusive, never a violation.", "§5 C15"),
 "C16": ("exploration", "runtime monitoring: construction-time oracle (programs are built as trees with one planted failing operation; the renderer records where every token lands; the expected call stack - names, files, lines, columns - is read from the tree and compared frame by frame with EvalError.CallStack and Backtrace), also after a Write/CompiledProgram round trip; evidence decodes the real line tables to show which delta classes were hit",
         "Call chains of depth 1-8 through defs, closures, lambdas, loaded modules, built-in and host callbacks x 27 failing kinds x placements with line gaps to 10^5, columns to 10^4, thousands of preceding instructions, out-of-order blocks (negative deltas), multi-byte runes; coverage gate requires every saturation/sign class and boundary delta of the line-table encoding.",
         TRUST + "internal/gen renderer; for arity/recursion failures the callee frame's position is not demanded; slices, duplicate keys, augmented targets and load are judged by span (DESIGN §9).", "§5 C16"),
 "C17": ("exploration", "runtime monitoring: round-trip equality oracle (source program P1 -> Write -> CompiledProgram P2 -> Write -> P3): byte identity of the encodings and equality of execution Records (host events with call-stack positions, globals, errors with full backtraces, steps) and of all program/function metadata; step hook used only as a memory guard",
         "Generated programs x 64 option vectors, directed constant/size families (int64 extremes, big ints, floats, bytes, non-UTF-8 strings, 70 000 constants, 20 000 globals, 1 MiB literals, 300 loads, deep nesting), position-table stress with failing runs, and the repository corpus; an independent reader of the documented encoding names the section in which two encodings differ (evidence only).",
         TRUST + "canon records; cases in which one execution grows the heap by > 96 MB are excluded from behavioural comparison (counted).", "§5 C17"),
 "C18": ("exploration", "runtime monitoring: reference oracles (encoding/json, an independent RFC 8259 recogniser, CPython json) judging every encode output and every decoded document; grammar-driven document generator with single-token corruptions",
         "Generated values (depth <= 6, ints to 2^200, arbitrary Unicode) round-tripped through encode/decode; generated valid documents compared with the reference data model; 39 corruption classes must be rejected; default= semantics; indent.",
         TRUST + "encoding/json, CPython json and the in-tree recogniser must agree among themselves on a document before it is judged.", "§5 C18"),
 "C19": ("exploration", "runtime monitoring: reference-model oracle (exact int64-ns arithmetic in math/big keyed by ordered operand kinds) + algebraic law monitors over generated operand pairs, five evaluation paths",
         "All 16x12 ordered (kind, op, kind) cells with a time/duration operand are evaluated through API, compiled function, augmented assignment, source expression and constructor-built operands and compared with an independent operator table; round-trip/order/hash/zone laws are checked on random and boundary instants.",
         TRUST + "math/big; Go's time package for zone rules; undocumented roundings are accepted either way (see DESIGN §5 C19).", "§5 C19"),
 "C20": ("exploration", "runtime monitoring: boundary-matrix oracle (per-kind range table), reflective type/range invariant walk of the underlying protoreflect message after every operation, and an offline shadow model of storage aliasing over recorded histories (frozen-snapshot comparison)",
         "Full matrix kinds x positions x routes x 78 boundary values on dynamically built proto2/proto3 descriptors; random histories of construct/assign/alias/copy/freeze/mutate; corrupted-bytes decoding; extension fields.",
         TRUST + "protobuf-go's protoreflect/proto.Equal; dynamicpb messages only (no generated types).", "§5 C20"),
}

PENDING_REASON = "engine not yet landed in this commit (work in progress; it will be claimed once its monitor is silent on the unchanged tree)"

def main():
    props = [json.loads(l) for l in open(os.path.join(ROOT, "properties.jsonl"))]
    hooks_commit = "e5ddaec"
    checks, na, engines = [], [], []
    for p in props:
        pid = p["id"]
        if pid in CHECKS and os.path.isdir(os.path.join(ROOT, "internal", pid.lower())):
            cat, tech, text, note, ref = CHECKS[pid]
            checks.append({
                "property_id": pid,
                "quick_cmd": f"./run.sh {pid} quick",
                "thorough_cmd": f"./run.sh {pid} thorough",
                "evidence_file": f"/verif/evidence/{pid}.json",
                "replay_cmd_template": f"./run.sh {pid} --replay {{path}}",
                "engine": pid.lower(),
                "level_claimed": {"category": cat, "text": text, "design_ref": "DESIGN.md " + ref},
                "level_note": note,
                "technique": tech,
            })
            engines.append({"name": pid.lower(), "path": f"internal/{pid.lower()}", "serves_properties": [pid],
                            "kind_free_text": "runtime monitor (Go), driven by cmd/vcheck"})
        else:
            na.append({"property_id": pid, "reason": PENDING_REASON})
    m = {
        "version": 1,
        "setup_cmd": "./run.sh --setup",
        "hooks": {
            "guard": "verif",
            "enable": "go build -tags verif (run.sh builds cmd/vcheck with it; module verif replaces go.starlark.net by /repo)",
            "baseline_off_cmd": "cd /repo && go test -vet=off -count=1 -timeout 25m ./...",
            "source_commits": [hooks_commit],
            "add_only": True,
        },
        "engines": engines,
        "checks": checks,
        "notes": "All checks are runtime monitors (see DESIGN.md). Exit 0 held / 1 violation / 2 inconclusive / 3 harness error. known_findings.txt lists recorded and repaired defects.",
        "not_applicable": na,
    }
    json.dump(m, open(os.path.join(ROOT, "MANIFEST.json"), "w"), indent=1)
    imports = "\n".join(f'\t_ "verif/internal/{c["engine"]}"' for c in checks)
    open(os.path.join(ROOT, "cmd", "vcheck", "main.go"), "w").write(
        "// Command vcheck runs the property monitors for google/starlark-go (see ../../DESIGN.md).\n"
        "// Code generated by tools/mkmanifest.py; DO NOT EDIT.\npackage main\n\nimport (\n"
        + imports + "\n\n\t\"verif/internal/driver\"\n)\n\nfunc main() { driver.Main() }\n")
    print("claimed:", [c["property_id"] for c in checks])

main()
