#!/usr/bin/env python3
"""Regenerates /verif/MANIFEST.json and cmd/vcheck/main.go from the table below.
A property is claimed only when its engine has landed and is silent on the unchanged tree."""
import json, os, subprocess

ROOT = os.path.dirname(os.path.dirname(os.path.abspath(__file__)))

TRUST = "Trusted base: the Go runtime/toolchain, the monitor code in /verif itself, and the hook file starlark/verif_hooks.go reading the real fields. "

# id -> (category, technique, level text, level note, design section)
CHECKS = {
 "C06": ("fault_enumeration", "runtime monitoring: invariant hooks (VerifState itercount/frozen) + Iterate/Done balance counters on host iterables, over an enumerated construct x exit-path x step-limit matrix",
         "Every cell of {list,dict,set} x iterating construct x exit path (incl. host panic and step-limit cancellation at sampled/every step index) x nesting is executed on the real VM; in-iteration probes attack the collection with every discovered effective mutator; post-conditions read the lock counter through the hook. Held means: no cell of the enumerated matrix violated; it says nothing about constructs or built-ins not in the matrix (new ones are discovered automatically by probing AttrNames/Universe).",
         TRUST + "Mutator discovery finds a mutator only if one of the probed argument tuples changes a 3-element collection.", "§5 C06"),
 "C07": ("fault_enumeration", "runtime monitoring: step hook as logical clock, deterministic cancellation injection at instruction k, porcupine linearizability check of Cancel/Uncancel/exec histories, race detector on the async arm",
         "For a corpus of terminating and non-terminating programs every step limit N (sampled in quick, all in thorough), every built-in call as cancellation site, and every instruction as asynchronous cut point (hook-injected) is exercised and judged in interpreter steps (never wall time); Cancel/Uncancel/exec sequences are enumerated exhaustively up to length 6 and concurrent histories are checked against a set-if-empty register.",
         TRUST + "porcupine v1.3.0; Go race detector; the corpus programs stand for 'all programs' only in the opcodes/constructs they execute (listed in evidence).", "§5 C07"),
 "C19": ("exploration", "runtime monitoring: reference-model oracle (exact int64-ns arithmetic in math/big keyed by ordered operand kinds) + algebraic law monitors over generated operand pairs, five evaluation paths",
         "All 16x12 ordered (kind, op, kind) cells with a time/duration operand are evaluated through API, compiled function, augmented assignment, source expression and constructor-built operands and compared with an independent operator table; round-trip/order/hash/zone laws are checked on random and boundary instants.",
         TRUST + "math/big; Go's time package for zone rules; undocumented roundings are accepted either way (see DESIGN §5 C19).", "§5 C19"),
}

PENDING_REASON = "engine not yet landed in this commit (work in progress; it will be claimed once its monitor is silent on the unchanged tree)"

def main():
    props = [json.loads(l) for l in open(os.path.join(ROOT, "properties.jsonl"))]
    hooks_commit = "e5ddaec"
    checks, na, engines = [], [], []
    for p in props:
        pid = p["id"]
        if pid in CHECKS and os.path.isdir(os.path.join(ROOT, "internal", pid.lower())):
            cat, tech, text, note, ref = CHECKS[pid]
            checks.append({
                "property_id": pid,
                "quick_cmd": f"./run.sh {pid} quick",
                "thorough_cmd": f"./run.sh {pid} thorough",
                "evidence_file": f"/verif/evidence/{pid}.json",
                "replay_cmd_template": f"./run.sh {pid} --replay {{path}}",
                "engine": pid.lower(),
                "level_claimed": {"category": cat, "text": text, "design_ref": "DESIGN.md " + ref},
                "level_note": note,
                "technique": tech,
            })
            engines.append({"name": pid.lower(), "path": f"internal/{pid.lower()}", "serves_properties": [pid],
                            "kind_free_text": "runtime monitor (Go), driven by cmd/vcheck"})
        else:
            na.append({"property_id": pid, "reason": PENDING_REASON})
    m = {
        "version": 1,
        "setup_cmd": "./run.sh --setup",
        "hooks": {
            "guard": "verif",
            "enable": "go build -tags verif (run.sh builds cmd/vcheck with it; module verif replaces go.starlark.net by /repo)",
            "baseline_off_cmd": "cd /repo && go test -vet=off -count=1 -timeout 25m ./...",
            "source_commits": [hooks_commit],
            "add_only": True,
        },
        "engines": engines,
        "checks": checks,
        "notes": "All checks are runtime monitors (see DESIGN.md). Exit 0 held / 1 violation / 2 inconclusive / 3 harness error. known_findings.txt lists recorded and repaired defects.",
        "not_applicable": na,
    }
    json.dump(m, open(os.path.join(ROOT, "MANIFEST.json"), "w"), indent=1)
    imports = "\n".join(f'\t_ "verif/internal/{c["engine"]}"' for c in checks)
    open(os.path.join(ROOT, "cmd", "vcheck", "main.go"), "w").write(
        "// Command vcheck runs the property monitors for google/starlark-go (see ../../DESIGN.md).\n"
        "// Code generated by tools/mkmanifest.py; DO NOT EDIT.\npackage main\n\nimport (\n"
        + imports + "\n\n\t\"verif/internal/driver\"\n)\n\nfunc main() { driver.Main() }\n")
    print("claimed:", [c["property_id"] for c in checks])

main()
