#!/bin/bash
# usage: tools/seedcheck.sh <Cxx> <patch.diff> [tier]
# Applies a seeded-mutant patch to a scratch copy of /repo, builds vcheck against it and runs the check.
# Prints CAUGHT / MISSED. (Equivalent to `git -C /repo apply`, run, `git -C /repo checkout -- .`, but safe
# while other builds read /repo.) The scratch copy is removed afterwards.
set -u
ID=$1; PATCH=$(readlink -f $2); TIER=${3:-quick}
cd /verif; . ./env.sh
S=/tmp/seedchk-$ID-$$
mkdir -p $S/root/bin && rsync -a --exclude .git /repo/ $S/repo/
( cd $S/repo && git init -q . >/dev/null 2>&1; git apply --whitespace=nowarn $PATCH ) || ( cd $S/repo && patch -p1 -s < $PATCH ) || { echo "PATCH-FAILED $ID $PATCH"; rm -rf $S; exit 2; }
rm -rf $S/repo/.git
sed "s#=> /repo#=> $S/repo#" go.mod > $S/go.mod; cp go.sum $S/go.sum
( cd $S/repo && go build ./... ) || { echo "MUTANT-DOES-NOT-COMPILE $ID"; rm -rf $S; exit 2; }
go build -modfile=$S/go.mod -tags verif -o $S/root/bin/vcheck ./cmd/vcheck || { echo "BUILD-FAILED"; rm -rf $S; exit 2; }
if $S/root/bin/vcheck needs-race $ID >/dev/null 2>&1; then
  go build -race -modfile=$S/go.mod -tags verif -o $S/root/bin/vcheck-race ./cmd/vcheck || { echo "BUILD-FAILED"; rm -rf $S; exit 2; }
fi
cp properties.jsonl known_findings.txt $S/root/ 2>/dev/null
VERIF_ROOT=$S/root timeout 7000 $S/root/bin/vcheck run $ID $TIER > $S/out.txt 2>&1; rc=$?
if [ $rc -eq 1 ]; then echo "CAUGHT $ID $(basename $(dirname $PATCH)) [$TIER]: $(grep -a -c "^VIOLATION" $S/out.txt) keys; first: $(grep -a -A1 "^VIOLATION" $S/out.txt | sed -n 2p | cut -c1-160)";
elif [ $rc -eq 0 ]; then echo "MISSED $ID $(basename $(dirname $PATCH)) [$TIER] ($(tail -1 $S/out.txt))";
else echo "RC=$rc $ID $(basename $(dirname $PATCH)) [$TIER]: $(tail -3 $S/out.txt | tr '\n' ' ' | cut -c1-300)"; fi
rm -rf $S
