#!/bin/bash
# usage: tools/seedconfirm_main.sh <Cxx> <dir with patch.diff> <demo main dir> [ulimit-v-KB]
# Like seedconfirm.sh for demonstrations that are main programs (exit 0 = property holds, non-zero = broken).
set -u
ID=$1; D=$(readlink -f $2); DEMO=$(readlink -f $3); UL=${4:-}
cd /verif; . ./env.sh
W=/tmp/confirm-$ID-$(basename $D)-$$
git -C /repo worktree add -q --detach $W HEAD || { echo "NOT-CONFIRMED worktree"; exit 2; }
cleanup() { git -C /repo worktree remove --force $W >/dev/null 2>&1; rm -rf $W /tmp/seeddemo-$$; }
run_demo() { ( cd $W && rm -rf cmd/zzseeddemo && cp -r $DEMO cmd/zzseeddemo && go build -o /tmp/seeddemo-$$ ./cmd/zzseeddemo || exit 99
  if [ -n "$UL" ]; then sh -c "ulimit -v $UL && /tmp/seeddemo-$$" > $W/demo.out 2>&1; else /tmp/seeddemo-$$ > $W/demo.out 2>&1; fi; rc=$?; rm -rf cmd/zzseeddemo; exit $rc ); }
run_demo; base=$?
[ $base -ne 0 ] && { echo "NOT-CONFIRMED $ID demo fails WITHOUT the change rc=$base: $(tail -3 $W/demo.out | tr '\n' ' ' | cut -c1-200)"; cleanup; exit 1; }
( cd $W && git apply --whitespace=nowarn $D/patch.diff ) || { echo "NOT-CONFIRMED patch does not apply"; cleanup; exit 1; }
( cd $W && go build ./... ) || { echo "NOT-CONFIRMED does not compile"; cleanup; exit 1; }
( cd $W && go test -vet=off -count=1 ./... > $W/suite.out 2>&1 ) || { echo "NOT-CONFIRMED suite FAILS: $(grep -m3 FAIL $W/suite.out | tr '\n' ' ')"; cleanup; exit 1; }
run_demo; mut=$?
[ $mut -eq 0 ] && { echo "NOT-CONFIRMED $ID demo PASSES with the change"; cleanup; exit 1; }
echo "CONFIRMED $ID $(basename $D) (suite ok with change; main-program demo exits $mut with change: $(grep -m1 -i 'fail\|fatal\|panic' $W/demo.out | cut -c1-120); exits 0 without)"
cleanup
