#!/usr/bin/env python3
"""usage: [SEED_ROUND=3] tools/seedstore.py <Cxx> <mN> <caught-by text> [<first-missed note>]
Copies a confirmed seeded change from /tmp/seed-<Cxx>-out/<mN>/ to /verif/seeded/<Cxx>-<mN>/ with meta.json."""
import json, os, shutil, sys, re
pid, m, caught = sys.argv[1], sys.argv[2], sys.argv[3]
note = sys.argv[4] if len(sys.argv) > 4 else ""
rnd = os.environ.get("SEED_ROUND", "")          # "" = round 1, "2", "3", ...
src = f"/tmp/seed{rnd}-{pid}-out/{m}"
tag = (f"r{rnd}" if rnd else "") + m
dst = f"/verif/seeded/{pid}-{tag}"
os.makedirs(dst, exist_ok=True)
for f in os.listdir(src):
    if f == "patch.diff" or f.endswith("_test.go") or f == "README.md" or f.endswith(".go"):
        shutil.copy(os.path.join(src, f), os.path.join(dst, f))
main_demo = False
for sub in os.listdir(src):
    sp = os.path.join(src, sub)
    if os.path.isdir(sp) and os.path.exists(os.path.join(sp, "main.go")):   # demonstration is a main program
        os.makedirs(os.path.join(dst, "demo_main"), exist_ok=True)
        shutil.copy(os.path.join(sp, "main.go"), os.path.join(dst, "demo_main", "main.go"))
        main_demo = True
common = f"/tmp/seed{rnd}-{pid}-out/common"
if os.path.isdir(common):
    for f in os.listdir(common):
        shutil.copy(os.path.join(common, f), os.path.join(dst, f))
readme = open(os.path.join(src, "README.md")).read() if os.path.exists(os.path.join(src, "README.md")) else ""
files = re.findall(r"^\+\+\+ b/(\S+)", open(os.path.join(src, "patch.diff")).read(), re.M)
meta = {
    "property": pid,
    "files_changed": files,
    "what_it_breaks_and_needs": readme[:3000],
    "confirmed_by_lead": "tools/seedconfirm.sh: scratch git worktree of /repo; `go build ./...`; `go test -vet=off -count=1 ./...` passes with the change; the demonstration test fails with the change and passes without it",
    "check_result": caught,
    "how_run": f"tools/seedcheck.sh {pid} seeded/{pid}-{tag}/patch.diff quick   (scratch copy of /repo with the patch applied; equivalent to git -C /repo apply; ./run.sh {pid} quick; git -C /repo checkout -- .)",
}
if main_demo:
    meta["confirmed_by_lead"] = "tools/seedconfirm_main.sh: scratch git worktree of /repo; `go build ./...`; `go test -vet=off -count=1 ./...` passes with the change; the demonstration (a main program, demo_main/main.go, copied to cmd/) exits non-zero with the change and 0 without it"
if note:
    meta["history"] = note
json.dump(meta, open(os.path.join(dst, "meta.json"), "w"), indent=1)
print("stored", dst)
