#!/usr/bin/env python3
"""Prints the markdown table of seeded changes (from seeded/*/meta.json) for DESIGN.md §16(b)."""
import json, os, re
rows=[]
for d in sorted(os.listdir('/verif/seeded')):
    mp=os.path.join('/verif/seeded',d,'meta.json')
    if not os.path.exists(mp): continue
    m=json.load(open(mp))
    files=", ".join(sorted(set(os.path.basename(f) for f in m.get('files_changed',[]))))
    res=m['check_result']
    hist=m.get('history','')
    first = "missed at first → check extended" if hist.startswith("MISSED") else "caught as built"
    key=re.search(r"key '([^']*)'", res)
    rows.append((d, m['property'], files, first, (key.group(1) if key else res)[:70]))
print("| seeded change | property | files changed | outcome | first key raised (quick tier) |")
print("|---|---|---|---|---|")
for r in rows: print("| %s | %s | %s | %s | `%s` |" % r)
n=len(rows); missed=sum(1 for r in rows if r[3].startswith("missed"))
print(f"\n{n} confirmed seeded changes; {n-missed} caught by the checks as they were when the change arrived, {missed} missed at first and caught after the extension recorded in the entry's meta.json (`history`).")
