#!/bin/bash
# usage: tools/muttest.sh <Cxx> <name> <file-relative-to-repo> <python-expr-old> <python-expr-new> [tier]
# Applies a textual mutation (exactly one occurrence must match) to a scratch copy of /repo, builds vcheck
# against it and runs the check; prints CAUGHT / MISSED. The scratch copy is removed afterwards.
set -u
ID=$1; NAME=$2; FILE=$3; OLD=$4; NEW=$5; TIER=${6:-quick}
cd /verif; . ./env.sh
S=/tmp/mut-$ID-$NAME-$$
mkdir -p $S/root && rsync -a --exclude .git /repo/ $S/repo/
python3 - "$S/repo/$FILE" "$OLD" "$NEW" <<'PY' || { echo "MUTATION-FAILED $ID $NAME"; rm -rf $S; exit 2; }
import sys
p,old,new=sys.argv[1:4]
s=open(p).read()
n=s.count(old)
if n!=1:
    print("occurrences:",n); sys.exit(1)
open(p,'w').write(s.replace(old,new))
PY
sed "s#=> /repo#=> $S/repo#" go.mod > $S/go.mod; cp go.sum $S/go.sum
( cd $S/repo && go build ./... ) || { echo "MUTANT-DOES-NOT-COMPILE $ID $NAME"; rm -rf $S; exit 2; }
lc=$(echo $ID | tr A-Z a-z)
PKG=./cmd/vcheck; [ -d cmd/dev-$lc ] && PKG=./cmd/dev-$lc
mkdir -p $S/root/bin
go build -modfile=$S/go.mod -tags verif -o $S/root/bin/vcheck $PKG || { echo "BUILD-FAILED"; rm -rf $S; exit 2; }
if $S/root/bin/vcheck needs-race $ID >/dev/null 2>&1; then
  go build -race -modfile=$S/go.mod -tags verif -o $S/root/bin/vcheck-race $PKG || { echo "BUILD-FAILED"; rm -rf $S; exit 2; }
fi
cp properties.jsonl known_findings.txt $S/root/ 2>/dev/null
VERIF_ROOT=$S/root timeout 3000 $S/root/bin/vcheck run $ID $TIER > $S/out.txt 2>&1; rc=$?
if [ $rc -eq 1 ]; then echo "CAUGHT $ID $NAME: $(grep -c '^VIOLATION' $S/out.txt) keys; first: $(grep -A1 '^VIOLATION' $S/out.txt | sed -n 2p | cut -c1-150)";
elif [ $rc -eq 0 ]; then echo "MISSED $ID $NAME ($(tail -1 $S/out.txt))";
else echo "RC=$rc $ID $NAME: $(tail -3 $S/out.txt | tr '\n' ' ' | cut -c1-300)"; fi
rm -rf $S
