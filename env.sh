# source this: Go environment that works offline in this sandbox
TC=/root/go/pkg/mod/golang.org/toolchain@v0.0.1-go1.25.0.linux-amd64/bin
if [ -x "$TC/go" ]; then export PATH="$TC:$PATH" GOTOOLCHAIN=local; fi
export GOFLAGS=-mod=mod GOPROXY=off GONOSUMDB='*' GOPRIVATE='*' GONOSUMCHECK=1
unset GOSUMDB 2>/dev/null || true
