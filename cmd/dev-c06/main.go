package main

import (
	_ "verif/internal/c06"
	"verif/internal/driver"
)

func main() { driver.Main() }
