package main

import (
	_ "verif/internal/c17"
	"verif/internal/driver"
)

func main() { driver.Main() }
