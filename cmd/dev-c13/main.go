package main

import (
	_ "verif/internal/c13"
	"verif/internal/driver"
)

func main() { driver.Main() }
