package main

import (
	_ "verif/internal/c20"
	"verif/internal/driver"
)

func main() { driver.Main() }
