package main

import (
	_ "verif/internal/c19"
	"verif/internal/driver"
)

func main() { driver.Main() }
