package main

import (
	_ "verif/internal/c12"
	"verif/internal/driver"
)

func main() { driver.Main() }
