// Command vcheck runs the property monitors for google/starlark-go (see ../../DESIGN.md).
package main

import "verif/internal/driver"

func main() { driver.Main() }
