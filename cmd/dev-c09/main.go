package main

import (
	_ "verif/internal/c09"
	"verif/internal/driver"
)

func main() { driver.Main() }
