package main

import (
	_ "verif/internal/c01"
	"verif/internal/driver"
)

func main() { driver.Main() }
