package main

import (
	_ "verif/internal/c05"
	"verif/internal/driver"
)

func main() { driver.Main() }
