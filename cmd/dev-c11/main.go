package main

import (
	_ "verif/internal/c11"
	"verif/internal/driver"
)

func main() { driver.Main() }
