package main

import (
	_ "verif/internal/c08"
	"verif/internal/driver"
)

func main() { driver.Main() }
