package main

import (
	_ "verif/internal/c14"
	"verif/internal/driver"
)

func main() { driver.Main() }
