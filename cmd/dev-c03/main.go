package main

import (
	_ "verif/internal/c03"
	"verif/internal/driver"
)

func main() { driver.Main() }
