package main

import (
	_ "verif/internal/c04"
	"verif/internal/driver"
)

func main() { driver.Main() }
