package main

import (
	_ "verif/internal/c16"
	"verif/internal/driver"
)

func main() { driver.Main() }
