package main

import (
	"verif/internal/driver"
	_ "verif/internal/x00"
)

func main() { driver.Main() }
