package main

import (
	_ "verif/internal/c07"
	"verif/internal/driver"
)

func main() { driver.Main() }
