package main

import (
	_ "verif/internal/c18"
	"verif/internal/driver"
)

func main() { driver.Main() }
