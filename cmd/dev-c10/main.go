package main

import (
	_ "verif/internal/c10"
	"verif/internal/driver"
)

func main() { driver.Main() }
