package main

import (
	_ "verif/internal/c02"
	"verif/internal/driver"
)

func main() { driver.Main() }
