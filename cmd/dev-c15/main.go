package main

import (
	_ "verif/internal/c15"
	"verif/internal/driver"
)

func main() { driver.Main() }
