// Package canon renders Starlark values, globals and errors canonically: cycle-safe,
// identity-aware (shared mutable objects are numbered by first visit, so aliasing is visible),
// collections in iteration order, floats by bit pattern.
package canon

import (
	"fmt"
	"math"
	"sort"
	"strings"

	"go.starlark.net/starlark"
	"go.starlark.net/starlarkstruct"
	"go.starlark.net/syntax"
)

type Opts struct {
	Funcs     bool // descend into function defaults and free variables
	MaxNodes  int  // 0 = 100000
	FuncBrief bool // render any function (of any implementation) as <func name@line:col>
}

// funcLike is implemented by *starlark.Function and by functions of other evaluators.
type funcLike interface {
	starlark.Callable
	Position() syntax.Position
}

type printer struct {
	b     strings.Builder
	ids   map[any]int
	o     Opts
	nodes int
}

// Value renders one value.
func Value(v starlark.Value) string { return ValueOpts(v, Opts{Funcs: true}) }

func ValueOpts(v starlark.Value, o Opts) string {
	p := &printer{ids: map[any]int{}, o: o}
	if p.o.MaxNodes == 0 {
		p.o.MaxNodes = 100000
	}
	p.val(v)
	return p.b.String()
}

// Globals renders a StringDict with names sorted; identities are shared across entries.
func Globals(g starlark.StringDict) string {
	p := &printer{ids: map[any]int{}, o: Opts{Funcs: true, MaxNodes: 200000}}
	names := make([]string, 0, len(g))
	for n := range g {
		names = append(names, n)
	}
	sort.Strings(names)
	for _, n := range names {
		p.b.WriteString(n)
		p.b.WriteString(" = ")
		p.val(g[n])
		p.b.WriteString("\n")
	}
	return p.b.String()
}

func (p *printer) ref(kind string, key any) bool {
	if id, ok := p.ids[key]; ok {
		fmt.Fprintf(&p.b, "%s#%d", kind, id)
		return true
	}
	id := len(p.ids) + 1
	p.ids[key] = id
	fmt.Fprintf(&p.b, "%s#%d", kind, id)
	return false
}

func (p *printer) val(v starlark.Value) {
	p.nodes++
	if p.nodes > p.o.MaxNodes {
		p.b.WriteString("<…>")
		return
	}
	switch v := v.(type) {
	case nil:
		p.b.WriteString("<nil>")
	case starlark.NoneType:
		p.b.WriteString("None")
	case starlark.Bool:
		if v {
			p.b.WriteString("True")
		} else {
			p.b.WriteString("False")
		}
	case starlark.Int:
		p.b.WriteString("int:" + v.String())
	case starlark.Float:
		fmt.Fprintf(&p.b, "float:%016x", math.Float64bits(float64(v)))
	case starlark.String:
		fmt.Fprintf(&p.b, "%q", string(v))
	case starlark.Bytes:
		fmt.Fprintf(&p.b, "b%q", string(v))
	case starlark.Tuple:
		p.b.WriteString("(")
		for i, e := range v {
			if i > 0 {
				p.b.WriteString(", ")
			}
			p.val(e)
		}
		p.b.WriteString(")")
	case *starlark.List:
		if p.ref("list", v) {
			return
		}
		p.b.WriteString("[")
		for i := 0; i < v.Len(); i++ {
			if i > 0 {
				p.b.WriteString(", ")
			}
			p.val(v.Index(i))
		}
		p.b.WriteString("]")
	case *starlark.Dict:
		if p.ref("dict", v) {
			return
		}
		p.b.WriteString("{")
		for i, it := range v.Items() {
			if i > 0 {
				p.b.WriteString(", ")
			}
			p.val(it[0])
			p.b.WriteString(": ")
			p.val(it[1])
		}
		p.b.WriteString("}")
	case *starlark.Set:
		if p.ref("set", v) {
			return
		}
		p.b.WriteString("{")
		it := v.Iterate()
		var e starlark.Value
		for i := 0; it.Next(&e); i++ {
			if i > 0 {
				p.b.WriteString(", ")
			}
			p.val(e)
		}
		it.Done()
		p.b.WriteString("}")
	case *starlark.Function:
		if p.o.FuncBrief {
			fmt.Fprintf(&p.b, "<func %s@%d:%d>", v.Name(), v.Position().Line, v.Position().Col)
			return
		}
		if p.ref("func", v) {
			return
		}
		fmt.Fprintf(&p.b, "<%s@%s params=%d kwonly=%d varargs=%v kwargs=%v", v.Name(), v.Position(), v.NumParams(), v.NumKwonlyParams(), v.HasVarargs(), v.HasKwargs())
		if p.o.Funcs {
			for i := 0; i < v.NumParams(); i++ {
				name, _ := v.Param(i)
				if d := v.ParamDefault(i); d != nil {
					fmt.Fprintf(&p.b, " %s=", name)
					p.val(d)
				} else {
					fmt.Fprintf(&p.b, " %s", name)
				}
			}
			for i := 0; i < v.NumFreeVars(); i++ {
				b, val := v.FreeVar(i)
				fmt.Fprintf(&p.b, " free:%s=", b.Name)
				p.val(val)
			}
		}
		p.b.WriteString(">")
	case *starlark.Builtin:
		fmt.Fprintf(&p.b, "<builtin %s", v.Name())
		if r := v.Receiver(); r != nil {
			p.b.WriteString(" of ")
			p.val(r)
		}
		p.b.WriteString(">")
	case *starlarkstruct.Struct:
		if p.ref("struct", v) {
			return
		}
		p.b.WriteString("(" + v.Constructor().String() + "){")
		for i, n := range v.AttrNames() {
			if i > 0 {
				p.b.WriteString(", ")
			}
			a, err := v.Attr(n)
			p.b.WriteString(n + "=")
			if err != nil {
				p.b.WriteString("<err " + err.Error() + ">")
			} else {
				p.val(a)
			}
		}
		p.b.WriteString("}")
	case *starlarkstruct.Module:
		if p.ref("module", v) {
			return
		}
		p.b.WriteString(v.Name)
	default:
		if f, ok := v.(funcLike); ok && p.o.FuncBrief {
			fmt.Fprintf(&p.b, "<func %s@%d:%d>", f.Name(), f.Position().Line, f.Position().Col)
			return
		}
		p.b.WriteString(v.Type() + ":" + v.String())
	}
}

// GlobalsOpts is Globals with explicit options.
func GlobalsOpts(g starlark.StringDict, o Opts) string {
	if o.MaxNodes == 0 {
		o.MaxNodes = 200000
	}
	p := &printer{ids: map[any]int{}, o: o}
	names := make([]string, 0, len(g))
	for n := range g {
		names = append(names, n)
	}
	sort.Strings(names)
	for _, n := range names {
		p.b.WriteString(n)
		p.b.WriteString(" = ")
		p.val(g[n])
		p.b.WriteString("\n")
	}
	return p.b.String()
}

// Error renders an error with message, every frame and the backtrace text.
func Error(err error) string {
	if err == nil {
		return "ok"
	}
	ee, ok := err.(*starlark.EvalError)
	if !ok {
		return fmt.Sprintf("error[%T]: %s", err, err.Error())
	}
	var b strings.Builder
	fmt.Fprintf(&b, "evalerror: %s\n", ee.Msg)
	for _, fr := range ee.CallStack {
		fmt.Fprintf(&b, "  frame %s @ %s:%d:%d\n", fr.Name, fr.Pos.Filename(), fr.Pos.Line, fr.Pos.Col)
	}
	b.WriteString(ee.Backtrace())
	return b.String()
}
