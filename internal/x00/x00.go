// Package x00 is a self-test of the driver (not a property): VERIF_X00=crash|violate|known|oom selects a behaviour.
package x00

import (
	"fmt"
	"os"

	"verif/internal/driver"
)

func init() {
	driver.Register(&driver.Engine{ID: "X00", Level: "exploration", Rule: "driver self-test", Run: run})
}

func run(c *driver.Ctx) {
	mode := os.Getenv("VERIF_X00")
	for i := 0; i < 1000; i++ {
		if !c.Take() {
			continue
		}
		r := c.Rand()
		x := r.Intn(1000)
		c.Eval(1)
		c.Distinct(fmt.Sprint(x))
		c.Cover("mod7", fmt.Sprint(x%7))
		if c.WantSample() {
			c.Sample(map[string]any{"case": c.Case(), "x": x})
		}
		switch {
		case mode == "crash" && i == 500:
			c.Note("key=x00 crash at 500\ninput 500")
			var p *int
			_ = *p
		case mode == "violate" && i%300 == 7:
			c.Violation("x00 bad", fmt.Sprintf("case %d bad", i), map[string]any{"i": i})
		case mode == "known" && i%300 == 7:
			c.Violation("x00 known", fmt.Sprintf("case %d bad", i), map[string]any{"i": i})
		}
	}
}
