//go:build race

package c05

const raceEnabled = true
