// Package c05 monitors property C05: frozen values and compiled programs are safe to share
// between threads. Oracles: the Go race detector (reports read back from the child's own race
// log), transcript equality with a solo run, and process death (reported by the driver).
package c05

import (
	"fmt"
	"math/rand"
	"sort"
	"strings"
	"sync"
	"time"

	"go.starlark.net/starlark"

	"verif/internal/canon"
	"verif/internal/driver"
)

const nGoroutines = 16
const focusSize = 8

// Each of the 16 children (one per core) runs its 16 goroutines on 4 Ps: still truly parallel, but
// 64 instead of 256 OS threads compete for the 16 cores (measured: ~30 % less CPU, same overlap).
const childProcs = "4"

func init() {
	driver.Register(&driver.Engine{
		ID: "C05", Level: "exploration", Race: true,
		Rule: "world arm: 16 generated modules (lists, dicts with string keys shorter/longer than 12 bytes, sets, tuples, nested/shared containers, structs, closures with captured state and mutable-looking defaults, bound methods, lambdas, big ints) are executed and thereby frozen; a case = (world, round). Per case three fresh copies of the world are built: (1) first-use storm: 16 goroutines released together make the first Go API uses (Hash/String/Freeze/Len/Iterate/AttrNames) of every shared object in the same order; (2) main run: one base list of 160 random operations aimed at 8 randomly chosen shared objects (Starlark programs that read/index/slice/iterate/compare/hash/print/json-encode/call/store-and-refreeze/attempt mutation - 3 of 4 compiled once and the one *Program initialised by all goroutines, the rest compiled by every goroutine - and Go API calls: Freeze, Iterate, Elements/Entries push iterators, Equal/Compare/Binary, Get/Index/Slice, Call, Append/SetKey/Clear...) is run by 16 goroutines on ONE shared copy, each on its own starlark.Thread, released together, without harness synchronisation while running; even rounds: every goroutine runs its own shuffle, free-running; odd rounds: all run the same order, time-slotted, so that the same operation hits the same object at the same moment; (3) afterwards every goroutine's list is run solo on the private copy (with separately compiled programs) and all transcripts are compared; the shared copy must render identically before and after. program arm: 16 goroutines Init one shared *Program (from source, and decoded by CompiledProgram) with predeclared values that make half of the executions fail at various depths, then call its functions 48 times each, rendering EvalError.Backtrace/CallStack positions (lazy line-table decoding); the solo reference uses its own program instance. ownership arm: a fixed module (compiled with and without the Recursion option) x rounds; all 16 goroutines run the same enumerated list in the same order (time-slotted or free-running from a common start), each with a value of its own (TAG, replaced in the transcript): storage family - slice/+/*/list()/tuple()/dict views/*args of frozen tuples, lists, dicts and sets, including frozen globals that are themselves slices of other globals, then extend the result (a result must own its storage: the module must render identically after every solo operation and after the concurrent run); bound family - every mutating method of list/dict/set through a bound method that holds the ONLY reference to its receiver, exported as a global, in a tuple returned by a factory, as list element/dict value/struct field, captured by a closure, as a parameter default, or one level behind a getter (all must be rejected); call family - all goroutines inside the same frozen function/closure at once with their own arguments (locals, cells, defaults, *args/**kwargs, comprehension and nested calls), via Starlark programs and starlark.Call. distinct = distinct (operation template, target objects) / (program, variant, failure) combinations whose results were produced by 16 goroutines concurrently and agreed with the solo run",
		Assumptions: []string{
			"Go race detector (-race build, GORACE halt_on_error=0 log_path=...; reports are read back from the log of each child; a self-provoked race per child proves the channel works)",
			"happens-before race detection does not need the racing accesses to be simultaneous, only unordered; the harness therefore adds no synchronisation between worker goroutines while they run (overlap is measured from monotonic timestamps recorded locally)",
			"solo reference run of the same operation list on an identically built private copy of the module",
			"verif/internal/canon renders values without addresses",
		},
		Run: run,
		Variants: func(tier string) []driver.Variant {
			return []driver.Variant{{Name: "race", Race: true, Env: []string{"GORACE=" + goraceValue(), "GOMAXPROCS=" + childProcs}}}
		},
		MinDistinct: 400,
		Finish:      finish,
	})
}

func finish(ev map[string]any) (string, bool) {
	cnt, _ := ev["counters"].(map[string]int64)
	var reasons []string
	if cnt["race_log_checked"] == 0 {
		reasons = append(reasons, "the race log was never inspected")
	}
	if cnt["race_selftest_runs"] == 0 || cnt["race_selftest_detected"] != cnt["race_selftest_runs"] {
		reasons = append(reasons, fmt.Sprintf("race detector self-test seen in the log in %d of %d children", cnt["race_selftest_detected"], cnt["race_selftest_runs"]))
	}
	if tot := cnt["shared_objects"]; tot == 0 || cnt["shared_objects_overlapped"]*10 < tot*9 {
		reasons = append(reasons, fmt.Sprintf("only %d of %d shared objects were touched by >= 2 goroutines in overlapping time windows (need 90%%)", cnt["shared_objects_overlapped"], tot))
	}
	if cnt["transcripts_compared"] == 0 {
		reasons = append(reasons, "no transcript compared")
	}
	if cnt["program_backtraces_compared"] == 0 {
		reasons = append(reasons, "no concurrent backtrace compared")
	}
	return strings.Join(reasons, "; "), len(reasons) > 0
}

func run(c *driver.Ctx) {
	if !raceEnabled {
		c.Inconclusive("C05 child is not a -race build")
		return
	}
	rl, err := openRaceLog()
	if err != nil {
		c.Inconclusive("race log unavailable: %v", err)
		return
	}
	defer rl.remove()
	if !rl.selfTest(c) {
		c.Inconclusive("the self-provoked data race did not appear in %s: race reports cannot be observed", rl.path)
		return
	}
	armWorld(c, rl)
	armProgram(c, rl)
	armOwn(c, rl)
	rl.check(c, map[string]any{"at": "end of child"})
}

// ---------------------------------------------------------------------------------------------
// Running operation lists

type interval struct {
	obj        int32
	start, end int64
}

type listResult struct {
	out []string   // transcript, in list order
	iv  []interval // when each op was inside which shared object (local clock readings only)
}

// runList executes one operation list on e. It touches nothing shared with other goroutines
// except the world itself (and the immutable ops).
//
// With slot > 0 the list is time-slotted: op i is not started before t0 + i*slot (the goroutine
// sleeps; sleeping creates no happens-before edge). Goroutines running the same list therefore
// reach the same op at about the same moment, which matters for state the library writes only
// once (lazily cached values): the detector remembers just the last few accesses to a word.
func runList(e *env, ops []*op, t0 time.Time, slot time.Duration, res *listResult) {
	res.out = make([]string, len(ops))
	res.iv = make([]interval, 0, len(ops)*2)
	for i, o := range ops {
		if slot > 0 {
			if d := time.Duration(i)*slot - time.Since(t0); d > 0 {
				time.Sleep(d)
			}
		}
		s := int64(time.Since(t0))
		res.out[i] = o.exec(e)
		en := int64(time.Since(t0))
		for _, t := range o.targets {
			res.iv = append(res.iv, interval{int32(t), s, en})
		}
	}
}

// runConcurrently runs lists[g] on goroutine g, all on the same world. The goroutines are
// released together and do not synchronise with each other or with the caller until they end.
func runConcurrently(w *world, lists [][]*op, slot time.Duration) []listResult {
	res := make([]listResult, len(lists))
	envs := make([]*env, len(lists))
	for g := range lists {
		envs[g] = newEnv(w, 1, fmt.Sprintf("g%d", g))
	}
	var ready, done sync.WaitGroup
	start := make(chan struct{})
	t0 := time.Now()
	for g := range lists {
		ready.Add(1)
		done.Add(1)
		go func(g int) {
			defer done.Done()
			ready.Done()
			<-start
			runList(envs[g], lists[g], t0, slot, &res[g])
		}(g)
	}
	ready.Wait()
	close(start)
	done.Wait()
	return res
}

// overlap computes, for every shared object, whether two different goroutines were inside it
// at the same time, and how many op windows began while another goroutine's window was open.
func overlap(res []listResult, nobj int) (touched, overlapped []bool, overlappingOps int) {
	type iv struct {
		g          int
		start, end int64
	}
	per := make([][]iv, nobj)
	for g := range res {
		for _, x := range res[g].iv {
			per[x.obj] = append(per[x.obj], iv{g, x.start, x.end})
		}
	}
	touched = make([]bool, nobj)
	overlapped = make([]bool, nobj)
	for o, l := range per {
		if len(l) == 0 {
			continue
		}
		touched[o] = true
		sort.Slice(l, func(i, j int) bool { return l[i].start < l[j].start })
		// the two latest window ends seen so far, of two different goroutines
		var e1, e2 int64 = -1, -1
		g1 := -1
		for _, x := range l {
			open := (g1 != x.g && e1 > x.start) || (g1 == x.g && e2 > x.start)
			if open {
				overlapped[o] = true
				overlappingOps++
			}
			switch {
			case x.g == g1:
				if x.end > e1 {
					e1 = x.end
				}
			case x.end > e1:
				e2, e1, g1 = e1, x.end, x.g
			case x.end > e2:
				e2 = x.end
			}
		}
	}
	return
}

// ---------------------------------------------------------------------------------------------
// World arm

func armWorld(c *driver.Ctx, rl *raceLog) {
	nWorlds := 16
	rounds := c.Pick(5, 200)
	opsPerList := 160
	for wi := 0; wi < nWorlds; wi++ {
		var sp *worldSpec
		for round := 0; round < rounds; round++ {
			if !c.Take() {
				continue
			}
			if sp == nil {
				sp = newWorldSpec(wi, c.GlobalRand(fmt.Sprint("world/", wi)))
			}
			worldCase(c, rl, sp, round, opsPerList)
		}
	}
}

func worldCase(c *driver.Ctx, rl *raceLog, sp *worldSpec, round, opsPerList int) {
	r := c.Rand()
	c.Note("key=C05 crash world-arm\nworld=%d round=%d case=%d\n%s", sp.id, round, c.Case(), driver.Truncate(sp.src, 1500))
	solo, err := sp.build()
	if err != nil {
		c.Inconclusive("%v", err)
		return
	}
	shared, err := sp.build()
	if err != nil {
		c.Inconclusive("%v", err)
		return
	}
	// The shared copy is not touched (not even rendered) before the goroutines start: whatever
	// the library computes lazily on first use must be computed under concurrency.
	before := canon.Globals(solo.globals)

	// one base list, shuffled differently for every goroutine
	// each round aims at a random subset of the shared objects, so that every one of them is
	// visited many times by every goroutine within the round
	focus := make([]string, 0, focusSize)
	for _, i := range r.Perm(len(sp.names))[:focusSize] {
		focus = append(focus, sp.names[i])
	}
	mk := sp.view(focus).makers()
	base := make([]*op, 0, opsPerList)
	for len(base) < opsPerList {
		if o := pickMaker(r, mk).make(r); o != nil {
			base = append(base, o)
		}
	}
	// Even rounds: every goroutine runs its own shuffle of the base list, free-running.
	// Odd rounds ("lockstep"): all goroutines run the base list in the same order, time-slotted,
	// so that all 16 perform the same operation on the same object at about the same moment.
	lockstep := round%2 == 1
	var slot time.Duration
	if lockstep {
		slot = 400 * time.Microsecond
		c.Count("rounds_lockstep", 1)
	} else {
		c.Count("rounds_shuffled", 1)
	}
	lists := make([][]*op, nGoroutines)
	perm := make([][]int, nGoroutines)
	for g := range lists {
		perm[g] = r.Perm(len(base))
		if lockstep {
			for i := range perm[g] {
				perm[g][i] = i
			}
		}
		lists[g] = make([]*op, len(base))
		for i, p := range perm[g] {
			lists[g][i] = base[p]
		}
	}

	firstUseStorm(c, sp, solo)

	// The concurrent run comes FIRST and the solo runs (private world copy, separately compiled
	// programs) afterwards: process-wide state that the library initialises lazily is then
	// first touched by 16 goroutines at once instead of being warmed up by the reference run.
	got := runConcurrently(shared, lists, slot)

	// solo runs: one list after the other, one goroutine, fresh thread, private world
	t0 := time.Now()
	want := make([]listResult, nGoroutines)
	for g := range lists {
		if lockstep && g > 0 {
			want[g] = want[0] // the very same list: its solo run is the one just made
			continue
		}
		runList(newEnv(solo, 0, fmt.Sprintf("solo%d", g)), lists[g], t0, 0, &want[g])
		c.Count("solo_ops", len(lists[g]))
	}
	// sanity of the harness itself: ops are self-contained, so solo results must not depend on order
	first := make([]string, len(base))
	for i, p := range perm[0] {
		first[p] = want[0].out[i]
	}
	for g := 1; g < nGoroutines; g++ {
		for i, p := range perm[g] {
			if want[g].out[i] != first[p] {
				c.Count("solo_order_dependent_ops", 1)
				c.Inconclusive("solo result of %s depends on the position in the list (harness defect): %q vs %q", base[p].kind, driver.Truncate(first[p], 200), driver.Truncate(want[g].out[i], 200))
				rl.check(c, map[string]any{"arm": "world", "world_id": sp.id, "round": round, "world": sp.src})
				return
			}
		}
	}

	// ---- judge
	c.Eval(nGoroutines * len(base))
	c.Count("shared_ops", nGoroutines*len(base))
	c.Count("goroutines_started", nGoroutines)
	mismatch := map[int]bool{}
	for g := range lists {
		c.Count("transcripts_compared", 1)
		for i, o := range lists[g] {
			c.Count("transcript_entries_compared", 1)
			if got[g].out[i] == want[g].out[i] {
				continue
			}
			mismatch[perm[g][i]] = true
			key := "C05 transcript-differs " + o.kind
			if strings.HasPrefix(got[g].out[i], panicMark) {
				key = "C05 panic-when-shared " + o.kind
			}
			c.Violation(key, fmt.Sprintf("goroutine %d, op %d (%s on %s): result on the shared world differs from the solo run", g, i, o.kind, targetNames(sp, o)),
				map[string]any{"op": o.text(), "solo": driver.Truncate(want[g].out[i], 3000), "shared": driver.Truncate(got[g].out[i], 3000), "world": sp.src, "world_id": sp.id, "round": round})
		}
	}
	for p, o := range base {
		out := first[p]
		c.Count("ops_"+o.cat, nGoroutines)
		if o.progs[1] != nil {
			c.Count("ops_on_one_shared_compiled_program", nGoroutines)
		} else if o.src != "" {
			c.Count("ops_compiled_by_each_goroutine", nGoroutines)
		}
		c.Cover("op_kinds", o.kind)
		switch {
		case strings.HasPrefix(out, panicMark):
			c.Violation("C05 panic-solo "+o.kind, "operation panics even when run alone: "+driver.Truncate(out, 300), map[string]any{"op": o.text(), "world": sp.src})
		case strings.HasPrefix(out, staticMark):
			c.Count("op_static_errors", 1)
			c.Inconclusive("operation template %s is not a valid program (harness defect): %s", o.kind, driver.Truncate(out, 300))
		}
		if o.mustFail {
			c.Count("mutator_attempts", nGoroutines)
			acc := strings.HasPrefix(out, acceptedMark)
			for g := range lists {
				for i, pp := range perm[g] {
					if pp == p && strings.HasPrefix(got[g].out[i], acceptedMark) {
						acc = true
					}
				}
			}
			if acc {
				c.Violation("C05 mutator-accepted "+o.kind, fmt.Sprintf("%s on frozen %s returned no error", o.kind, targetNames(sp, o)), map[string]any{"op": o.text(), "result": driver.Truncate(out, 2000), "world": sp.src})
			} else {
				c.Count("mutator_rejected", nGoroutines)
				if strings.Contains(out, "frozen") {
					c.Count("mutator_rejected_as_frozen", nGoroutines)
				}
				c.Cover("rejection_messages", rejectionClass(out))
			}
		}
		if !mismatch[p] {
			c.Distinct("op|" + o.kind + "|" + targetNames(sp, o))
		}
	}
	// nothing may have changed
	c.Count("world_unchanged_checks", 1)
	if after := canon.Globals(shared.globals); after != before {
		c.Violation("C05 shared-world-changed", fmt.Sprintf("world %d differs after the concurrent round", sp.id), map[string]any{"before": driver.Truncate(before, 6000), "after": driver.Truncate(after, 6000), "world": sp.src})
	}
	if after := canon.Globals(solo.globals); after != before {
		c.Violation("C05 solo-world-changed", fmt.Sprintf("world %d differs after the solo runs (a rejected mutation changed state)", sp.id), map[string]any{"before": driver.Truncate(before, 6000), "after": driver.Truncate(after, 6000), "world": sp.src})
	}

	// concurrency actually achieved
	touched, over, nover := overlap(got, len(sp.names))
	for i := range touched {
		if touched[i] {
			c.Count("shared_objects", 1)
			if over[i] {
				c.Count("shared_objects_overlapped", 1)
			} else {
				c.Cover("objects_without_overlap_in_some_round", sp.names[i])
			}
		}
	}
	c.Count("op_windows_overlapping_another_goroutine", nover)

	nrep := rl.check(c, map[string]any{"arm": "world", "world_id": sp.id, "round": round, "world": sp.src})
	if c.WantSample() && len(base) > 0 {
		p := r.Intn(len(base))
		o := base[p]
		c.Sample(map[string]any{"arm": "world", "world": sp.id, "round": round, "goroutines": nGoroutines, "ops_per_goroutine": len(base),
			"example_op": o.text(), "example_result": driver.Truncate(first[p], 300), "race_reports_this_case": nrep,
			"objects_touched": countTrue(touched), "objects_overlapped": countTrue(over)})
	}
}

// catWeight is the relative frequency of each operation category.
var catWeight = map[string]int{
	"iterate": 6, "goiter": 4, "hash": 4, "freeze": 3, "store": 4, "compare": 4, "print": 3, "json": 2,
	"read": 4, "index": 2, "slice": 2, "call": 4, "mutate": 6, "mutate-noop": 1,
}

// pickMaker chooses a category by weight, then a template of that category uniformly.
func pickMaker(r *rand.Rand, mk []maker) maker {
	total := 0
	for _, m := range mk {
		if m.first {
			total += catWeight[m.cat]
		}
	}
	n := r.Intn(total)
	cat := ""
	for _, m := range mk {
		if m.first {
			if n -= catWeight[m.cat]; n < 0 {
				cat = m.cat
				break
			}
		}
	}
	var in []int
	for i, m := range mk {
		if m.cat == cat {
			in = append(in, i)
		}
	}
	return mk[in[r.Intn(len(in))]]
}

// firstUseStorm: on one more fresh copy of the world, 16 goroutines released together each make
// the first direct Go API uses (Hash, String, Freeze, Len, Truth, iteration, attribute listing)
// of every shared object, all in the same order and without any interpreter work in between.
// All first uses of an object thus fall within microseconds of each other, which is what it takes
// for the detector to see an unsynchronised write-once (a lazily cached hash or string) next to
// another goroutine's read. Results are compared with the same calls made alone.
func firstUseStorm(c *driver.Ctx, sp *worldSpec, solo *world) {
	w, err := sp.build()
	if err != nil {
		c.Inconclusive("%v", err)
		return
	}
	ops := make([]*op, len(sp.names))
	for x := range sp.names {
		ops[x] = &op{kind: "go:first-use", cat: "storm", targets: []int{x}, desc: sp.names[x], run: func(e *env) string {
			v := e.w.vals[x]
			var b strings.Builder
			h, herr := v.Hash()
			fmt.Fprintf(&b, "%d %v|%s|%s %v %d|", h, herr, v.String(), v.Type(), v.Truth(), starlark.Len(v))
			v.Freeze()
			if it := starlark.Iterate(v); it != nil {
				var e starlark.Value
				for i := 0; i < 3 && it.Next(&e); i++ {
					eh, eerr := e.Hash()
					fmt.Fprintf(&b, "%s %d %v;", e.String(), eh, eerr)
				}
				it.Done()
			}
			if a, ok := v.(starlark.HasAttrs); ok {
				fmt.Fprintf(&b, "|%v", a.AttrNames())
			}
			h2, _ := v.Hash()
			fmt.Fprintf(&b, "|%d", h2)
			return b.String()
		}}
	}
	lists := make([][]*op, nGoroutines)
	for g := range lists {
		lists[g] = ops
	}
	got := runConcurrently(w, lists, 0)
	var want listResult
	runList(newEnv(solo, 0, "storm-solo"), ops, time.Now(), 0, &want)
	c.Count("first_use_storms", 1)
	c.Count("first_use_storm_ops", nGoroutines*len(ops))
	c.Count("shared_ops", nGoroutines*len(ops))
	c.Eval(nGoroutines * len(ops))
	for g := range got {
		c.Count("transcripts_compared", 1)
		for i := range ops {
			c.Count("transcript_entries_compared", 1)
			if got[g].out[i] != want.out[i] {
				key := "C05 transcript-differs go:first-use"
				if strings.HasPrefix(got[g].out[i], panicMark) {
					key = "C05 panic-when-shared go:first-use"
				}
				c.Violation(key, fmt.Sprintf("goroutine %d: first Go API use of %s on the shared world differs from the same calls made alone", g, sp.names[i]),
					map[string]any{"object": sp.names[i], "solo": driver.Truncate(want.out[i], 3000), "shared": driver.Truncate(got[g].out[i], 3000), "world": sp.src})
			}
		}
	}
	c.Cover("op_kinds", "go:first-use")
}

func countTrue(b []bool) int {
	n := 0
	for _, x := range b {
		if x {
			n++
		}
	}
	return n
}

func targetNames(sp *worldSpec, o *op) string {
	var n []string
	for _, t := range o.targets {
		n = append(n, sp.names[t])
	}
	return strings.Join(n, ",")
}

// rejectionClass reduces an error transcript to its message class for the evidence file.
func rejectionClass(out string) string {
	i := strings.Index(out, "evalerror: ")
	msg := out
	if i >= 0 {
		msg = out[i+len("evalerror: "):]
	} else if j := strings.Index(out, "rejected: "); j >= 0 {
		msg = out[j+len("rejected: "):]
	}
	if k := strings.IndexByte(msg, '\n'); k >= 0 {
		msg = msg[:k]
	}
	if k := strings.Index(msg, "frozen"); k >= 0 {
		return msg
	}
	// other errors carry operands: keep only the leading words
	f := strings.Fields(msg)
	if len(f) > 1 {
		f = f[:1]
	}
	return "other error: " + strings.Join(f, " ") + "…"
}
