package c05

import (
	"fmt"
	"math/rand"
	"strings"

	"go.starlark.net/starlark"
	"go.starlark.net/syntax"

	"verif/internal/canon"
	"verif/internal/sl"
)

// fileOpts is shared read-only by all goroutines (as a host application would).
var fileOpts = sl.AllOptions()

const acceptedMark = "MUTATOR-ACCEPTED "
const staticMark = "STATIC-ERROR "
const panicMark = "PANIC "

// An op is one operation on the shared world. It is immutable once built and is shared by
// the solo run and by all goroutines; everything it produces goes into the returned string.
type op struct {
	kind     string // stable template name (no random operands)
	cat      string // evidence category
	targets  []int  // shared objects it is aimed at (for overlap accounting)
	src      string // Starlark program (Starlark-level ops)
	desc     string // operands (Go-level ops)
	run      func(e *env) string
	mustFail bool // a state-changing mutation attempt: must be rejected with an error

	// Three out of four Starlark-level ops are compiled once per case and the one *Program is
	// then initialised by all 16 goroutines (progs[1]); the solo runs use a separately compiled
	// instance (progs[0]) so that nothing lazily computed in the shared one exists beforehand.
	// The remaining ops are parsed, resolved and compiled by every goroutine on its own.
	progs   [2]*starlark.Program
	progErr error
}

// env is the private state of one goroutine (or of the solo run).
type env struct {
	w       *world
	shared  int // 0: solo run, 1: concurrent run on the shared world
	th      *starlark.Thread
	printed strings.Builder // output of print() during the current op (thread-local)

	// ownership arm: a value private to this goroutine (ops pass it to shared code and replace
	// it by "<TAG>" in their transcript, so that a foreign goroutine's tag stands out)
	tag string
	pre starlark.StringDict // predeclared environment of own-arm programs: w.env + TAG
}

func newEnv(w *world, shared int, name string) *env {
	e := &env{w: w, shared: shared, tag: "tag<" + name + ">"}
	e.th = &starlark.Thread{Name: name, Print: func(_ *starlark.Thread, msg string) { e.printed.WriteString(msg + "\n") }}
	return e
}

func (o *op) text() string {
	if o.src != "" {
		return o.src
	}
	return "go: " + o.kind + " " + o.desc
}

func (o *op) exec(e *env) (out string) {
	if p := sl.Safe(func() {
		if o.run != nil {
			out = o.run(e)
		} else {
			out = o.execSrc(e)
		}
	}); p != nil {
		out = panicMark + fmt.Sprint(p.Value) + " @ " + p.TopFrame()
	}
	return out
}

func (o *op) execSrc(e *env) string {
	e.printed.Reset()
	var g starlark.StringDict
	var err error
	switch {
	case o.progErr != nil:
		err = o.progErr
	case o.progs[e.shared] != nil:
		g, err = o.progs[e.shared].Init(e.th, e.w.env)
		g.Freeze()
	default:
		g, err = starlark.ExecFileOptions(fileOpts, e.th, "op.star", o.src, e.w.env)
	}
	var b strings.Builder
	if err != nil {
		if _, ok := err.(*starlark.EvalError); !ok {
			b.WriteString(staticMark)
		}
	} else if o.mustFail {
		b.WriteString(acceptedMark)
	}
	b.WriteString(canon.Globals(g))
	if e.printed.Len() > 0 {
		b.WriteString("printed: " + e.printed.String())
	}
	b.WriteString("-- ")
	b.WriteString(canon.Error(err))
	return b.String()
}

// ---------------------------------------------------------------------------------------------
// Starlark-level templates. $X target, $Y second target of the same class, $Z any shared object,
// $E element/key literal, $I $J small ints, $K slice step, $C call arguments of $X.

type tmpl struct {
	kind, cat string
	classes   string // space separated classes of $X: list dict set tuple struct func bound scalar iter index any
	src       string
	mustFail  bool
}

var tmpls = []tmpl{
	// read / print / encode
	{"print-str", "print", "any", "r = str($X)", false},
	{"print-repr", "print", "any", "r = repr($X)", false},
	{"print-percent", "print", "any", `r = "%s|%r" % ($X, $X)`, false},
	{"print-format", "print", "any", `r = "{}:{!r}:{v}".format($X, $X, v = $Z)`, false},
	{"print-toplevel-print", "print", "any", "print($X)", false},
	{"type-truth", "read", "any", "r = (type($X), bool($X), not $X, $X or 1, $X and 1)", false},
	{"len", "read", "any", "r = len($X)", false},
	{"json-encode", "json", "any", "r = json.encode($X)", false},
	{"json-encode-indent", "json", "any", `r = json.encode_indent($X, indent = " ")`, false},
	{"json-roundtrip", "json", "any", "r = json.decode(json.encode($X))", false},
	{"dir-getattr", "read", "any", "r = [(n, getattr($X, n)) for n in dir($X)]", false},
	{"hasattr", "read", "any", `r = (hasattr($X, "index"), hasattr($X, "nope"), getattr($X, "nope", 5))`, false},
	// compare
	{"eq-self", "compare", "any", "r = ($X == $X, $X != $X)", false},
	{"eq-other", "compare", "any", "r = ($X == $Z, $X != $Z, $Z == $X)", false},
	{"eq-copy", "compare", "list tuple", "r = ($X == list($X), $X == tuple($X), $X[:] == $X)", false},
	{"eq-copy-dict", "compare", "dict", "r = ($X == dict($X), dict($X) == $X, $X == $Y)", false},
	{"eq-copy-set", "compare", "set", "r = ($X == set($X), set(list($X)) == $X, $X == $Y)", false},
	{"lt-same", "compare", "any", "r = $X < $Y", false},
	{"order-same", "compare", "list tuple scalar", "r = ($X <= $Y, $X > $Y, $X >= $X)", false},
	{"sorted-pair", "compare", "any", "r = sorted([$X, $Y, $X])", false},
	// hash
	{"hash-dict-key", "hash", "any", "d = {}\nd[$X] = 1\nr = ($X in d, len(d), d.get($X))", false},
	{"hash-dict-literal", "hash", "any", "r = {$X: 1, \"k\": 2}", false},
	{"hash-set-elem", "hash", "any", "r = set([$X, $X, $Z])", false},
	{"hash-builtin", "hash", "any", "r = hash($X)", false},
	{"hash-lookup-in-shared", "hash", "any", "r = ($X in D_MIX, $X in S_TUP, D_BIG.get($X))", false},
	// store (module completion freezes the globals again: Freeze on already frozen values)
	{"store-globals", "store", "any", "a = $X\nb = [$X, $Z]\nc = {\"k\": $X, \"a_key_longer_than_12\": ($X, $Z)}\nd = struct(v = $X)", false},
	{"store-closure", "store", "any", "def mk(v):\n    def get():\n        return v\n    return get\ng = mk($X)\nr = g()", false},
	{"store-default", "store", "any", "def h(v = $X, w = [$Z]):\n    return (v, w)\nr = h()", false},
	{"store-local-containers", "store", "any", "l = []\nl.append($X)\nd = {}\nd[\"k\"] = $X\ns = [l, d]\nr = (l, d, s)", false},
	// iterate
	{"iter-comprehension", "iterate", "iter", "r = [e for e in $X]", false},
	{"iter-comp-cond", "iterate", "iter", "r = [e for e in $X if e != $E]", false},
	{"iter-dictcomp", "iterate", "iter", "r = {str(e): e for e in $X}", false},
	{"iter-for-func-break", "iterate", "iter", "def f(v):\n    out = []\n    for e in v:\n        out.append(type(e))\n        if len(out) > $J + 3:\n            break\n    return out\nr = f($X)", false},
	{"iter-for-toplevel", "iterate", "iter", "out = []\nfor e in $X:\n    out.append(e)\n", false},
	{"iter-for-return-inside", "iterate", "iter", "def f(v):\n    for e in v:\n        for e2 in v:\n            if e2 == $E:\n                return (e, e2)\n    return None\nr = f($X)", false},
	{"iter-for-error-inside", "iterate", "iter", "def f(v):\n    n = 0\n    for e in v:\n        n += 1\n        if n == $J:\n            fail(\"stop\", n)\n    return n\nr = f($X)", false},
	{"iter-nested-two", "iterate", "iter", "r = [(a, b) for a in $X for b in $Y][:30]", false},
	{"iter-nested-same", "iterate", "iter", "r = [[y for y in $X] for x in $X][:4]", false},
	{"iter-while", "iterate", "list tuple", "i = 0\nout = []\nwhile i < len($X):\n    out.append($X[i])\n    i += 1\n", false},
	{"iter-starargs", "iterate", "iter", "r = f_args(*$X)", false},
	{"iter-starstar", "iterate", "dict", "r = f_args(**$X)", false},
	{"iter-star-both", "iterate", "iter", "r = f_args(1, k = 2, *$X, **D_STR)", false},
	{"iter-unpack1", "iterate", "iter", "def u(v):\n    [a] = v\n    return a\nr = u($X)", false},
	{"iter-unpack2", "iterate", "iter", "def u(v):\n    a, b = v\n    return (b, a)\nr = u($X)", false},
	{"iter-unpack3", "iterate", "iter", "def u(v):\n    a, (b, c) = v[0], v[1:3]\n    x, y, z = v\n    return (c, b, a, x, y, z)\nr = u($X)", false},
	{"iter-unpack-loop", "iterate", "iter", "r = [(k, v) for k, v in $X]", false},
	{"iter-unpack-items", "iterate", "dict", "r = [(v, k) for k, v in $X.items()]", false},
	{"iter-sorted", "iterate", "iter", "r = sorted($X)", false},
	{"iter-sorted-key", "iterate", "iter", "r = sorted($X, key = LAMK, reverse = True)", false},
	{"iter-list-tuple", "iterate", "iter", "r = (list($X), tuple($X))", false},
	{"iter-enumerate", "iterate", "iter", "r = list(enumerate($X, $J))", false},
	{"iter-zip", "iterate", "iter", "r = zip($X, $Y, $X)", false},
	{"iter-min-max", "iterate", "iter", "r = (min($X), max($X))", false},
	{"iter-max-key", "iterate", "iter", "r = (max($X, key = LAMK), min($X, key = str))", false},
	{"iter-any-all", "iterate", "iter", "r = (any($X), all($X))", false},
	{"iter-reversed", "iterate", "iter", "r = reversed($X)", false},
	{"iter-join", "iterate", "iter", "r = \"$\".join([str(e) for e in $X])", false},
	{"iter-join-direct", "iterate", "iter", "r = BM_JOIN($X)", false},
	{"iter-dict-zip", "iterate", "iter", "r = dict(zip($X, $X))", false},
	{"iter-set", "iterate", "iter", "r = set($X)", false},
	{"iter-dict-ctor", "iterate", "dict", "r = (dict($X), dict($X, extra = 1))", false},
	{"iter-extend-local", "iterate", "iter", "l = [0]\nl.extend($X)\nl += $X\nr = l", false},
	{"iter-update-local", "iterate", "iter", "s = set([1])\ns.update($X)\nd = {}\nd.update([(e, 1) for e in $X])\nr = (s, d)", false},
	{"iter-dict-update-local", "iterate", "dict", "d = {\"own\": 1}\nd.update($X)\nd |= $Y\nr = d", false},
	{"contains", "read", "iter", "r = ($E in $X, $E not in $X)", false},
	{"iter-user-func", "iterate", "iter", "r = (f_iter($X), f_walk($X))", false},
	// index / slice
	{"index", "index", "index", "r = $X[$I]", false},
	{"index-ends", "index", "index", "r = ($X[-1], $X[0])", false},
	{"slice", "slice", "index", "r = $X[$I:$J]", false},
	{"slice-step", "slice", "index", "r = $X[$I:$J:$K]", false},
	{"slice-rev", "slice", "index", "r = ($X[::-1], $X[:], $X[1:])", false},
	{"slice-concat", "slice", "index", "r = ($X[:$I] + $X[$J:], $X[$I:$J] + $X[:1], $X[:2] * 2, $X)", false},
	{"concat-repeat", "read", "index", "r = ($X + $X, $X * 2, 2 * $X)", false},
	// dict
	{"dict-index", "index", "dict", "r = $X[$E]", false},
	{"dict-get", "index", "dict", "r = ($X.get($E), $X.get($E, 7))", false},
	{"dict-views", "read", "dict", "r = ($X.items(), $X.keys(), $X.values())", false},
	{"dict-union", "read", "dict", "r = ($X | $Y, $Y | {\"own\": $X})", false},
	// set
	{"set-algebra", "read", "set", "r = ($X | $Y, $X & $Y, $X - $Y, $X ^ $Y)", false},
	{"set-methods", "read", "set", "r = ($X.union($Y), $X.intersection($Y), $X.difference($Y), $X.symmetric_difference($Y), $X.issubset($Y), $X.issuperset($Y))", false},
	{"set-compare", "compare", "set", "r = ($X <= $Y, $X < $Y, $X >= $Y, $X > $X)", false},
	{"set-with-iterables", "read", "set", "r = ($X.union(L_BIG, T_FLAT), $X.intersection(L_INT), $X.issubset(L_BIG))", false},
	// list
	{"list-index-method", "read", "list", "r = $X.index($E)", false},
	{"list-concat", "read", "list", "r = ($X + $Y, $X + [$Z])", false},
	// struct
	{"struct-concat", "read", "struct", "r = $X + struct(zz = 1)", false},
	{"struct-eq", "compare", "struct", "r = ($X == $Y, $X == struct(a = 1), $X != $Y)", false},
	{"struct-field-chain", "read", "struct", "r = (ST.l[0], ST.d, ST_NEST.inner.s, ST_NEST.add(1), ST_NEST.m(L_INT[0]), $X)", false},
	// calls
	{"call", "call", "func bound", "r = $X$C", false},
	{"call-twice-nested", "call", "func bound", "r = [$X$C for _ in range(2)]", false},
	{"call-as-sort-key", "call", "list", "r = (sorted($X, key = LAMK), sorted(L_INT, key = ADD), max(L_BIG, key = f_plain))", false},
	{"call-funcs-list", "call", "any", "r = [(f, type(f)) for f in FUNCS] + [FUNCS[0](2), FUNCS[1](3), FUNCS[2]($X), FUNCS[3](\"k0\")]", false},
	{"func-eq-hash", "compare", "func bound", "r = ($X == $X, $X == $Y, {$X: 1}[$X])", false},
	// mutators: every one must be rejected
	{"mut-list-append", "mutate", "list", "$X.append(1)", true},
	{"mut-list-clear", "mutate", "list", "$X.clear()", true},
	{"mut-list-extend", "mutate", "list", "$X.extend([1, 2])", true},
	{"mut-list-insert", "mutate", "list", "$X.insert(0, $E)", true},
	{"mut-list-pop", "mutate", "list", "$X.pop()", true},
	{"mut-list-remove", "mutate", "list", "$X.remove($E)", true},
	{"mut-list-setindex", "mutate", "list", "$X[0] = $E", true},
	{"mut-list-augindex", "mutate", "list", "$X[0] += 1", true},
	{"mut-list-aug-in-func", "mutate", "list", "def m(v):\n    v += [1]\n    return v\nr = m($X)", true},
	{"mut-list-nested-elem", "mutate", "list tuple", "$X[0].append(1)", true},
	{"mut-dict-clear", "mutate", "dict", "$X.clear()", true},
	{"mut-dict-pop", "mutate", "dict", "$X.pop($E)", true},
	{"mut-dict-popitem", "mutate", "dict", "$X.popitem()", true},
	{"mut-dict-setdefault", "mutate", "dict", "$X.setdefault(\"a_new_key_not_present_$I\", 1)", true},
	{"mut-dict-update-kw", "mutate", "dict", "$X.update(a_new_key_not_present = 1)", true},
	{"mut-dict-update-pairs", "mutate", "dict", "$X.update([(\"nk$I\", 1)], zzz = 2)", true},
	{"mut-dict-setkey", "mutate", "dict", "$X[\"a_new_key_not_present\"] = $Z", true},
	{"mut-dict-setkey-existing", "mutate", "dict", "$X[$E] = 2", true},
	{"mut-dict-augkey", "mutate", "dict", "$X[$E] += 1", true},
	{"mut-dict-aug-in-func", "mutate", "dict", "def m(v):\n    v |= {\"nk\": 1}\n    return v\nr = m($X)", true},
	{"mut-dict-value-elem", "mutate", "dict", "[v for v in $X.values()][0].append(1)", true},
	{"mut-set-add", "mutate", "set", "$X.add(123456)", true},
	{"mut-set-clear", "mutate", "set1", "$X.clear()", true},
	{"noop-set-clear-empty", "mutate-noop", "setempty", "$X.clear()", false},
	{"mut-set-discard", "mutate", "set", "$X.discard($E)", true},
	{"mut-set-pop", "mutate", "set", "$X.pop()", true},
	{"mut-set-remove", "mutate", "set", "$X.remove($E)", true},
	{"mut-set-update", "mutate", "set", "$X.update([123456], [$E])", true},
	{"mut-struct-setfield", "mutate", "struct", "$X.a = 1", true},
	{"mut-struct-inner", "mutate", "struct", "ST.l.append(1)", true},
	{"mut-closure-state", "mutate", "any", "r = INC()", true},
	{"mut-closure-dict", "mutate", "any", "r = NOTE($E)", true},
	{"mut-default-arg", "mutate", "any", "r = f_mut_default($E)", true},
	{"mut-default-arg-direct", "mutate", "any", "r = f_defaults(1)\nr[1].append(4)", true},
	{"mut-bound-append", "mutate", "any", "BM_APPEND($E)", true},
	{"mut-bound-update", "mutate", "any", "BM_UPDATE(zz = 1)", true},
	{"mut-bound-add", "mutate", "any", "BM_ADD(123456)", true},
	{"mut-bound-sole-append", "mutate", "any", "BM_SOLE_APPEND($E)", true},
	{"mut-via-getattr", "mutate", "list", "getattr($X, \"append\")($E)", true},
	{"mut-in-loop", "mutate", "list", "def m(v):\n    for e in v:\n        v.append(e)\n    v.append(0)\nm($X)", true},
	// mutator-shaped calls that change nothing (legitimately succeed or fail; transcript only)
	{"noop-dict-update-empty", "mutate-noop", "dict set", "r = $X.update()", false},
	{"noop-set-aug-new", "mutate-noop", "set", "def m(v):\n    v |= set([5])\n    v &= set([5, 1])\n    return v\nr = m($X)", false},
	{"noop-list-mul-new", "mutate-noop", "list tuple", "def m(v):\n    v *= 2\n    return v\nr = m($X)", false},
	{"noop-tuple-aug", "mutate-noop", "tuple", "def m(v):\n    v += (1,)\n    return v\nr = m($X)", false},
}

// classMembers returns the names a class word denotes, restricted to the focus set of the
// current case (nil focus = all).
func (sp *worldSpec) classMembers(class string) []string {
	var l []string
	switch class {
	case "list":
		l = sp.lists
	case "dict":
		l = sp.dicts
	case "set":
		l = sp.sets
	case "set1": // non-empty sets
		for _, n := range sp.sets {
			if n != "S_EMPTY" {
				l = append(l, n)
			}
		}
	case "setempty":
		l = []string{"S_EMPTY"}
	case "tuple":
		l = sp.tuples
	case "struct":
		l = sp.structs
	case "func":
		l = sp.funcs
	case "bound":
		l = sp.bounds
	case "scalar":
		l = sp.scalars
	case "container":
		l = sp.iterables
	case "iter":
		l = append(append([]string{}, sp.iterables...), "RNG", "STR")
	case "index":
		l = append(append([]string{}, sp.indexables...), "STR", "LSTR", "BYT", "RNG")
	case "any":
		l = sp.names
	default:
		panic("class " + class)
	}
	if sp.focus == nil {
		return l
	}
	var out []string
	for _, n := range l {
		if sp.focus[n] {
			out = append(out, n)
		}
	}
	return out
}

// view returns a copy of the spec whose operations aim only at the given shared objects.
func (sp *worldSpec) view(focus []string) *worldSpec {
	c := *sp
	c.focus = map[string]bool{}
	for _, n := range focus {
		c.focus[n] = true
	}
	return &c
}

func pick(r *rand.Rand, l []string) string { return l[r.Intn(len(l))] }

// instantiate builds one Starlark-level op from a template.
func (sp *worldSpec) instantiate(t *tmpl, r *rand.Rand) *op {
	classes := strings.Fields(t.classes)
	class := classes[r.Intn(len(classes))]
	xs := sp.classMembers(class)
	if len(xs) == 0 {
		return nil // nothing of that class in focus
	}
	x := pick(r, xs)
	// $Y: same concrete class as x
	y := pick(r, sp.classMembers(sp.class[x]))
	z := pick(r, sp.classMembers("any"))
	e := sp.elems[r.Intn(len(sp.elems))].src
	src := t.src
	targets := []int{sp.index[x]}
	if strings.Contains(src, "$Y") {
		targets = append(targets, sp.index[y])
	}
	if strings.Contains(src, "$Z") {
		targets = append(targets, sp.index[z])
	}
	if strings.Contains(src, "$C") {
		cs := sp.calls[x]
		c := "()"
		if len(cs) > 0 {
			c = cs[r.Intn(len(cs))]
		}
		src = strings.ReplaceAll(src, "$C", c)
	}
	steps := []string{"-2", "-1", "1", "2", "3"}
	src = strings.NewReplacer("$X", x, "$Y", y, "$Z", z, "$E", e,
		"$I", fmt.Sprint(r.Intn(16)-3), "$J", fmt.Sprint(r.Intn(16)-3), "$K", steps[r.Intn(len(steps))]).Replace(src)
	// every program also stores its target: re-freeze at module completion
	src = "keep = " + x + "\n" + src + "\n"
	o := &op{kind: "sl:" + t.kind, cat: t.cat, targets: targets, src: src, mustFail: t.mustFail}
	if r.Intn(4) != 0 {
		for i := range o.progs {
			_, o.progs[i], o.progErr = starlark.SourceProgramOptions(fileOpts, "op.star", src, sp.isPredeclared)
		}
	}
	return o
}

func (sp *worldSpec) isPredeclared(name string) bool {
	if _, ok := sp.index[name]; ok {
		return true
	}
	switch name {
	case "json", "math", "time", "struct", "mk_adder", "mk_counter", "sum_":
		return true
	}
	return false
}

// ---------------------------------------------------------------------------------------------
// Go-level operations.

type gotmpl struct {
	kind, cat string
	classes   string
	mk        func(sp *worldSpec, r *rand.Rand, x int) *op // nil result => not applicable, pick again
}

func cv(v starlark.Value) string { return canon.Value(v) }

func res(v starlark.Value, err error) string {
	if err != nil {
		return canon.Error(err)
	}
	return cv(v)
}

// second picks another shared object of the same class as names[x].
func (sp *worldSpec) second(r *rand.Rand, x int) int {
	return sp.index[pick(r, sp.classMembers(sp.class[sp.names[x]]))]
}

func (sp *worldSpec) litVal(r *rand.Rand) lit {
	for {
		l := sp.elems[r.Intn(len(sp.elems))]
		if l.val != nil {
			return l
		}
	}
}

func mustReject(err error) string {
	if err == nil {
		return acceptedMark
	}
	return "rejected: " + err.Error()
}

var gotmpls = []gotmpl{
	{"freeze", "freeze", "any", func(sp *worldSpec, r *rand.Rand, x int) *op {
		return &op{run: func(e *env) string { e.w.vals[x].Freeze(); return "ok" }}
	}},
	{"freeze-globals", "freeze", "any", func(sp *worldSpec, r *rand.Rand, x int) *op {
		return &op{run: func(e *env) string { e.w.globals.Freeze(); e.w.vals[x].Freeze(); return "ok" }}
	}},
	{"string", "print", "any", func(sp *worldSpec, r *rand.Rand, x int) *op {
		return &op{run: func(e *env) string { return e.w.vals[x].String() }}
	}},
	{"hash", "hash", "any", func(sp *worldSpec, r *rand.Rand, x int) *op {
		return &op{run: func(e *env) string { h, err := e.w.vals[x].Hash(); return fmt.Sprintf("%d %v", h, err) }}
	}},
	{"truth-type-len", "read", "any", func(sp *worldSpec, r *rand.Rand, x int) *op {
		return &op{run: func(e *env) string {
			v := e.w.vals[x]
			return fmt.Sprintf("%s %v %d", v.Type(), v.Truth(), starlark.Len(v))
		}}
	}},
	{"canon", "read", "any", func(sp *worldSpec, r *rand.Rand, x int) *op {
		return &op{run: func(e *env) string { return cv(e.w.vals[x]) }}
	}},
	{"iterate", "goiter", "iter", func(sp *worldSpec, r *rand.Rand, x int) *op {
		return &op{run: func(e *env) string {
			it := starlark.Iterate(e.w.vals[x])
			if it == nil {
				return "not iterable"
			}
			defer it.Done()
			var b strings.Builder
			var v starlark.Value
			for it.Next(&v) {
				b.WriteString(cv(v))
				b.WriteByte(';')
			}
			return b.String()
		}}
	}},
	{"iterate-two-partial", "goiter", "iter", func(sp *worldSpec, r *rand.Rand, x int) *op {
		n := r.Intn(4)
		return &op{desc: fmt.Sprint("n=", n), run: func(e *env) string {
			it1 := starlark.Iterate(e.w.vals[x])
			if it1 == nil {
				return "not iterable"
			}
			it2 := starlark.Iterate(e.w.vals[x])
			var b strings.Builder
			var v starlark.Value
			for i := 0; i < n && it1.Next(&v); i++ {
				b.WriteString(cv(v))
				if it2.Next(&v) && it2.Next(&v) {
					b.WriteString("/" + cv(v))
				}
				b.WriteByte(';')
			}
			it2.Done()
			it1.Done()
			return b.String()
		}}
	}},
	{"elements", "goiter", "iter", func(sp *worldSpec, r *rand.Rand, x int) *op {
		stop := r.Intn(8)
		return &op{desc: fmt.Sprint("stop=", stop), run: func(e *env) string {
			itb, ok := e.w.vals[x].(starlark.Iterable)
			if !ok {
				return "not iterable"
			}
			var b strings.Builder
			i := 0
			for v := range starlark.Elements(itb) {
				b.WriteString(cv(v))
				b.WriteByte(';')
				if i++; i == stop {
					break
				}
			}
			return b.String()
		}}
	}},
	{"elements-method", "goiter", "list set tuple", func(sp *worldSpec, r *rand.Rand, x int) *op {
		stop := r.Intn(8)
		return &op{desc: fmt.Sprint("stop=", stop), run: func(e *env) string {
			var b strings.Builder
			i := 0
			yield := func(v starlark.Value) bool {
				b.WriteString(cv(v))
				b.WriteByte(';')
				i++
				return i != stop
			}
			switch v := e.w.vals[x].(type) {
			case *starlark.List:
				v.Elements()(yield)
			case *starlark.Set:
				v.Elements()(yield)
			case starlark.Tuple:
				v.Elements()(yield)
			}
			return b.String()
		}}
	}},
	{"elements-seq-taken-before-freeze", "goiter", "list", func(sp *worldSpec, r *rand.Rand, x int) *op {
		stop := r.Intn(8)
		return &op{desc: fmt.Sprint("stop=", stop), run: func(e *env) string {
			seq := e.w.preSeqs[x]
			if seq == nil {
				return "no-seq"
			}
			var b strings.Builder
			i := 0
			seq(func(v starlark.Value) bool {
				b.WriteString(cv(v))
				b.WriteByte(';')
				i++
				return i != stop
			})
			return b.String()
		}}
	}},
	{"entries", "goiter", "dict", func(sp *worldSpec, r *rand.Rand, x int) *op {
		stop := r.Intn(8)
		return &op{desc: fmt.Sprint("stop=", stop), run: func(e *env) string {
			d := e.w.vals[x].(*starlark.Dict)
			var b strings.Builder
			i := 0
			for k, v := range starlark.Entries(d) {
				b.WriteString(cv(k) + "=" + cv(v) + ";")
				if i++; i == stop {
					break
				}
			}
			for k, v := range d.Entries() {
				b.WriteString(cv(k) + "=" + cv(v) + ";")
			}
			return b.String()
		}}
	}},
	{"index-slice", "index", "list tuple", func(sp *worldSpec, r *rand.Rand, x int) *op {
		a, b2 := r.Intn(40), r.Intn(40)
		step := 1 + r.Intn(3)
		return &op{desc: fmt.Sprintf("%d %d %d", a, b2, step), run: func(e *env) string {
			v := e.w.vals[x]
			n := starlark.Len(v)
			if n == 0 {
				return "empty " + cv(v.(starlark.Sliceable).Slice(0, 0, 1))
			}
			i, j := a%n, b2%n
			if i > j {
				i, j = j, i
			}
			return cv(v.(starlark.Indexable).Index(i)) + " " + cv(v.(starlark.Sliceable).Slice(i, j, step)) + " " + cv(v.(starlark.Sliceable).Slice(j, i, -step))
		}}
	}},
	{"mapping-get", "index", "dict set", func(sp *worldSpec, r *rand.Rand, x int) *op {
		k := sp.litVal(r)
		return &op{desc: k.src, run: func(e *env) string {
			switch v := e.w.vals[x].(type) {
			case *starlark.Dict:
				val, found, err := v.Get(k.val)
				return fmt.Sprintf("%s %v %v", res(val, err), found, err)
			case *starlark.Set:
				found, err := v.Has(k.val)
				return fmt.Sprintf("%v %v", found, err)
			}
			return "?"
		}}
	}},
	{"dict-views", "read", "dict", func(sp *worldSpec, r *rand.Rand, x int) *op {
		return &op{run: func(e *env) string {
			d := e.w.vals[x].(*starlark.Dict)
			var b strings.Builder
			for _, k := range d.Keys() {
				b.WriteString(cv(k) + ";")
			}
			for _, it := range d.Items() {
				b.WriteString(cv(it) + ";")
			}
			fmt.Fprint(&b, d.Len())
			return b.String()
		}}
	}},
	{"equal", "compare", "any", func(sp *worldSpec, r *rand.Rand, x int) *op {
		y := sp.index[pick(r, sp.classMembers("any"))]
		if r.Intn(2) == 0 {
			y = sp.second(r, x)
		}
		return &op{targets: []int{x, y}, desc: sp.names[y], run: func(e *env) string {
			eq, err := starlark.Equal(e.w.vals[x], e.w.vals[y])
			eq2, err2 := starlark.Equal(e.w.vals[x], e.w.vals[x])
			return fmt.Sprintf("%v %v %v %v", eq, err, eq2, err2)
		}}
	}},
	{"compare", "compare", "any", func(sp *worldSpec, r *rand.Rand, x int) *op {
		y := sp.second(r, x)
		tok := []syntax.Token{syntax.LT, syntax.LE, syntax.GT, syntax.GE, syntax.EQL, syntax.NEQ}[r.Intn(6)]
		return &op{targets: []int{x, y}, desc: tok.String() + " " + sp.names[y], run: func(e *env) string {
			ok, err := starlark.Compare(tok, e.w.vals[x], e.w.vals[y])
			return fmt.Sprintf("%v %v", ok, err)
		}}
	}},
	{"binary", "read", "any", func(sp *worldSpec, r *rand.Rand, x int) *op {
		y := sp.second(r, x)
		tok := []syntax.Token{syntax.PLUS, syntax.PIPE, syntax.AMP, syntax.MINUS, syntax.CIRCUMFLEX, syntax.IN, syntax.NOT_IN, syntax.STAR, syntax.PERCENT}[r.Intn(9)]
		k := sp.litVal(r)
		return &op{targets: []int{x, y}, desc: tok.String() + " " + sp.names[y] + " " + k.src, run: func(e *env) string {
			switch tok {
			case syntax.IN, syntax.NOT_IN:
				return res(starlark.Binary(tok, k.val, e.w.vals[x]))
			case syntax.STAR:
				return res(starlark.Binary(tok, e.w.vals[x], starlark.MakeInt(2)))
			}
			return res(starlark.Binary(tok, e.w.vals[x], e.w.vals[y]))
		}}
	}},
	{"attrs", "read", "any", func(sp *worldSpec, r *rand.Rand, x int) *op {
		return &op{run: func(e *env) string {
			h, ok := e.w.vals[x].(starlark.HasAttrs)
			if !ok {
				return "no attrs"
			}
			var b strings.Builder
			for _, n := range h.AttrNames() {
				a, err := h.Attr(n)
				b.WriteString(n + "=" + res(a, err) + ";")
			}
			return b.String()
		}}
	}},
	{"call", "call", "func bound", func(sp *worldSpec, r *rand.Rand, x int) *op {
		cs := sp.gocalls[sp.names[x]]
		if len(cs) == 0 {
			return nil
		}
		c := cs[r.Intn(len(cs))]
		return &op{desc: c.desc, run: func(e *env) string {
			return res(starlark.Call(e.th, e.w.vals[x], c.args, c.kwargs))
		}}
	}},
	{"call-with-shared-arg", "call", "any", func(sp *worldSpec, r *rand.Rand, x int) *op {
		f := sp.index[[]string{"f_iter", "f_walk", "LAMK", "LAM", "f_args"}[r.Intn(5)]]
		return &op{desc: sp.names[f], run: func(e *env) string {
			return res(starlark.Call(e.th, e.w.vals[f], starlark.Tuple{e.w.vals[x]}, nil))
		}}
	}},
	{"json-encode", "json", "any", func(sp *worldSpec, r *rand.Rand, x int) *op {
		return &op{run: func(e *env) string {
			enc, _ := e.w.env["json"].(starlark.HasAttrs).Attr("encode")
			return res(starlark.Call(e.th, enc, starlark.Tuple{e.w.vals[x]}, nil))
		}}
	}},
	{"set-api", "read", "set", func(sp *worldSpec, r *rand.Rand, x int) *op {
		y := x
		if ys := sp.classMembers("container"); len(ys) > 0 {
			y = sp.index[pick(r, ys)]
		}
		which := r.Intn(6)
		return &op{targets: []int{x, y}, desc: fmt.Sprint(which, " ", sp.names[y]), run: func(e *env) string {
			s := e.w.vals[x].(*starlark.Set)
			it := starlark.Iterate(e.w.vals[y])
			defer it.Done()
			switch which {
			case 0:
				return res(s.Union(it))
			case 1:
				return res(s.Difference(it))
			case 2:
				return res(s.Intersection(it))
			case 3:
				return res(s.SymmetricDifference(it))
			case 4:
				ok, err := s.IsSubset(it)
				return fmt.Sprint(ok, err)
			}
			ok, err := s.IsSuperset(it)
			return fmt.Sprint(ok, err)
		}}
	}},
	{"func-introspect", "read", "func", func(sp *worldSpec, r *rand.Rand, x int) *op {
		return &op{run: func(e *env) string {
			fn, ok := e.w.vals[x].(*starlark.Function)
			if !ok {
				return "not a function"
			}
			var b strings.Builder
			fmt.Fprintf(&b, "%s %s %d %s ", fn.Name(), fn.Position(), fn.NumParams(), fn.Doc())
			for i := 0; i < fn.NumFreeVars(); i++ {
				bind, v := fn.FreeVar(i)
				b.WriteString(bind.Name + "=" + cv(v) + ";")
			}
			b.WriteString(canon.Globals(fn.Globals()))
			return b.String()
		}}
	}},
	// Go API mutators: must all be rejected
	{"mut-list-api", "mutate", "list", func(sp *worldSpec, r *rand.Rand, x int) *op {
		which := r.Intn(3)
		return &op{mustFail: true, desc: []string{"Append", "SetIndex", "Clear"}[which], run: func(e *env) string {
			l := e.w.vals[x].(*starlark.List)
			switch which {
			case 0:
				return mustReject(l.Append(starlark.MakeInt(1)))
			case 1:
				return mustReject(l.SetIndex(0, starlark.MakeInt(1)))
			}
			return mustReject(l.Clear())
		}}
	}},
	{"mut-dict-api", "mutate", "dict", func(sp *worldSpec, r *rand.Rand, x int) *op {
		which := r.Intn(3)
		k := sp.litVal(r)
		return &op{mustFail: true, desc: []string{"SetKey", "Delete", "Clear"}[which] + " " + k.src, run: func(e *env) string {
			d := e.w.vals[x].(*starlark.Dict)
			switch which {
			case 0:
				return mustReject(d.SetKey(k.val, starlark.None))
			case 1:
				_, _, err := d.Delete(k.val)
				return mustReject(err)
			}
			return mustReject(d.Clear())
		}}
	}},
	{"mut-set-api", "mutate", "set", func(sp *worldSpec, r *rand.Rand, x int) *op {
		which := r.Intn(4)
		k := sp.litVal(r)
		y := sp.index[pick(r, sp.lists)]
		return &op{mustFail: true, desc: []string{"Insert", "Delete", "Clear", "InsertAll"}[which] + " " + k.src, run: func(e *env) string {
			s := e.w.vals[x].(*starlark.Set)
			switch which {
			case 0:
				return mustReject(s.Insert(k.val))
			case 1:
				_, err := s.Delete(k.val)
				return mustReject(err)
			case 2:
				return mustReject(s.Clear())
			}
			it := starlark.Iterate(starlark.Tuple{k.val, e.w.vals[y]})
			defer it.Done()
			return mustReject(s.InsertAll(it))
		}}
	}},
	{"mut-setfield-api", "mutate", "struct list dict", func(sp *worldSpec, r *rand.Rand, x int) *op {
		return &op{mustFail: true, run: func(e *env) string {
			v := e.w.vals[x]
			if h, ok := v.(starlark.HasSetField); ok {
				return mustReject(h.SetField("a", starlark.None))
			}
			if h, ok := v.(starlark.HasSetKey); ok {
				return mustReject(h.SetKey(starlark.String("zz"), starlark.None))
			}
			if h, ok := v.(starlark.HasSetIndex); ok {
				return mustReject(h.SetIndex(0, starlark.None))
			}
			return "rejected: no mutation interface"
		}}
	}},
}

// A maker produces one random op.
type maker struct {
	kind  string
	cat   string
	first bool // first maker of its category in the list
	make  func(r *rand.Rand) *op
}

func (sp *worldSpec) makers() []maker {
	var out []maker
	for i := range tmpls {
		t := &tmpls[i]
		out = append(out, maker{kind: "sl:" + t.kind, cat: t.cat, make: func(r *rand.Rand) *op { return sp.instantiate(t, r) }})
	}
	for i := range gotmpls {
		t := &gotmpls[i]
		out = append(out, maker{kind: "go:" + t.kind, cat: t.cat, make: func(r *rand.Rand) *op {
			classes := strings.Fields(t.classes)
			for try := 0; ; try++ {
				xs := sp.classMembers(classes[r.Intn(len(classes))])
				if len(xs) == 0 {
					return nil
				}
				x := sp.index[pick(r, xs)]
				o := t.mk(sp, r, x)
				if o == nil {
					if try > 20 {
						return nil
					}
					continue
				}
				o.kind, o.cat = "go:"+t.kind, t.cat
				if o.targets == nil {
					o.targets = []int{x}
				}
				o.desc = strings.TrimSpace(sp.names[x] + " " + o.desc)
				return o
			}
		}})
	}
	seen := map[string]bool{}
	for i := range out {
		if _, ok := catWeight[out[i].cat]; !ok {
			panic("no weight for category " + out[i].cat)
		}
		out[i].first = !seen[out[i].cat]
		seen[out[i].cat] = true
	}
	return out
}
