package c05

import (
	"fmt"
	"os"
	"path/filepath"
	"reflect"
	"regexp"
	"runtime"
	"sort"
	"strings"
	"sync"
	"time"

	"go.starlark.net/starlark"

	"verif/internal/driver"
)

// The race detector of a child writes its reports to <log_path>.<pid> (GORACE log_path,
// halt_on_error=0, exitcode=0). raceLog reads that file incrementally.

type raceLog struct {
	path string
	off  int64
}

type raceFrame struct {
	fn   string // function name as printed by the detector
	file string // source file (line number stripped)
}

// inStarlark reports whether the frame's code belongs to go.starlark.net. A closure of the
// library that the compiler inlined into a harness function carries the harness function's
// name, so the source file decides as well.
func (f raceFrame) inStarlark() bool {
	return strings.HasPrefix(f.fn, "go.starlark.net/") || (starlarkRoot != "" && strings.HasPrefix(f.file, starlarkRoot+"/"))
}

func (f raceFrame) name() string {
	if strings.HasPrefix(f.fn, "go.starlark.net/") {
		return strings.TrimPrefix(f.fn, "go.starlark.net/")
	}
	if f.inStarlark() {
		return "(inlined code of " + strings.TrimPrefix(f.file, starlarkRoot+"/") + ")"
	}
	return f.fn
}

// starlarkRoot is the directory of the go.starlark.net module this binary was built from.
var starlarkRoot = func() string {
	f := runtime.FuncForPC(reflect.ValueOf(starlark.Call).Pointer())
	if f == nil {
		return ""
	}
	file, _ := f.FileLine(f.Entry())
	return filepath.Dir(filepath.Dir(file))
}()

type raceSite struct {
	kind   string      // "read", "write", ...
	frames []raceFrame // innermost first
}

type raceReport struct {
	text     string
	sites    []raceSite
	selftest bool
}

const blockSep = "=================="

var reAccess = regexp.MustCompile(`^(?:Previous )?([A-Za-z ]+?) at 0x[0-9a-f]+ by `)

func gorace() (logPath string, ok bool) {
	for _, f := range strings.Fields(os.Getenv("GORACE")) {
		if v, found := strings.CutPrefix(f, "log_path="); found {
			return v, true
		}
	}
	return "", false
}

// goraceValue is the GORACE setting of the children (computed in the parent).
func goraceValue() string {
	return "halt_on_error=0 exitcode=0 atexit_sleep_ms=0 history_size=3 log_path=" + filepath.Join(driver.Root(), "work", "c05-race", "race")
}

func openRaceLog() (*raceLog, error) {
	lp, ok := gorace()
	if !ok {
		return nil, fmt.Errorf("GORACE has no log_path (GORACE=%q)", os.Getenv("GORACE"))
	}
	dir := filepath.Dir(lp)
	if err := os.MkdirAll(dir, 0o755); err != nil {
		return nil, err
	}
	// logs left behind by children that crashed long ago
	if ents, err := os.ReadDir(dir); err == nil {
		for _, e := range ents {
			if info, err := e.Info(); err == nil && time.Since(info.ModTime()) > 6*time.Hour {
				os.Remove(filepath.Join(dir, e.Name()))
			}
		}
	}
	rl := &raceLog{path: fmt.Sprintf("%s.%d", lp, os.Getpid())}
	os.Remove(rl.path) // a recycled pid
	return rl, nil
}

func (rl *raceLog) remove() { os.Remove(rl.path) }

// read returns the complete reports appended since the last call.
func (rl *raceLog) read() []raceReport {
	b, err := os.ReadFile(rl.path)
	if err != nil || int64(len(b)) <= rl.off {
		return nil
	}
	text := string(b[rl.off:])
	var out []raceReport
	consumed := 0
	for {
		rest := text[consumed:]
		i := strings.Index(rest, blockSep+"\n")
		if i < 0 {
			break
		}
		body := rest[i+len(blockSep)+1:]
		j := strings.Index(body, blockSep+"\n")
		if j < 0 {
			break // still being written
		}
		out = append(out, parseReport(body[:j]))
		consumed += i + len(blockSep) + 1 + j + len(blockSep) + 1
	}
	rl.off += int64(consumed)
	return out
}

func parseReport(text string) raceReport {
	rep := raceReport{text: text, selftest: strings.Contains(text, "c05.selfTestWrite")}
	var cur *raceSite
	for _, line := range strings.Split(text, "\n") {
		if m := reAccess.FindStringSubmatch(line); m != nil && len(rep.sites) < 2 {
			rep.sites = append(rep.sites, raceSite{kind: strings.ToLower(m[1])})
			cur = &rep.sites[len(rep.sites)-1]
			continue
		}
		if strings.TrimSpace(line) == "" {
			cur = nil
			continue
		}
		if cur == nil {
			continue
		}
		if strings.HasPrefix(line, "      ") { // "      /path/file.go:123 +0x44" belongs to the frame above
			if n := len(cur.frames); n > 0 {
				file := strings.TrimSpace(line)
				if k := strings.LastIndex(file, ":"); k > 0 {
					file = file[:k]
				}
				cur.frames[n-1].file = file
			}
		} else if strings.HasPrefix(line, "  ") {
			fn := strings.TrimSpace(line)
			if k := strings.LastIndex(fn, "("); k > 0 {
				fn = fn[:k]
			}
			cur.frames = append(cur.frames, raceFrame{fn: fn})
		}
	}
	return rep
}

// starlarkFrames returns up to n innermost frames inside go.starlark.net.
func (s raceSite) starlarkFrames(n int) []string {
	var out []string
	for _, f := range s.frames {
		if f.inStarlark() && len(out) < n {
			out = append(out, f.name())
		}
	}
	return out
}

func (s raceSite) label() (string, bool) {
	if fr := s.starlarkFrames(1); len(fr) > 0 {
		return s.kind + " " + fr[0], true
	}
	if len(s.frames) > 0 {
		return s.kind + " (outside starlark) " + s.frames[0].fn, false
	}
	return s.kind + " (stack not restored)", false
}

// key is the stable identity of a report: the unordered pair of access sites (kind + innermost
// function inside go.starlark.net), without addresses, line numbers or goroutine ids.
func (r raceReport) key() (key string, inStarlark bool) {
	var labels []string
	for _, s := range r.sites {
		l, ok := s.label()
		labels = append(labels, l)
		inStarlark = inStarlark || ok
	}
	sort.Strings(labels)
	return "C05 race " + strings.Join(labels, " | "), inStarlark
}

// check reads the new reports, turns each into a violation and returns how many there were.
func (rl *raceLog) check(c *driver.Ctx, context map[string]any) int {
	c.Count("race_log_checked", 1)
	n := 0
	for _, rep := range rl.read() {
		if rep.selftest {
			c.Count("race_selftest_reports_seen_later", 1)
			continue
		}
		n++
		c.Count("race_reports", 1)
		key, inStarlark := rep.key()
		detail := map[string]any{"report": rep.text, "context": context}
		var chains []string
		for _, s := range rep.sites {
			chains = append(chains, s.kind+": "+strings.Join(s.starlarkFrames(3), " < "))
		}
		detail["starlark_frames"] = chains
		if !inStarlark {
			// Both stacks lie outside go.starlark.net: that is a defect of the harness, not of
			// the code under test. It must not pass silently and must not be blamed on starlark.
			c.Count("race_reports_outside_starlark", 1)
			c.Inconclusive("data race reported outside go.starlark.net (harness defect?): %s", key)
			continue
		}
		c.Violation(key, "data race between goroutines sharing frozen values / a compiled program: "+strings.Join(chains, " || "), detail)
	}
	return n
}

var selfTestVar int

//go:noinline
func selfTestWrite() { selfTestVar++ }

// selfTest provokes one real data race in harness code and checks that it arrives in the log
// file: proof that this child's detector is on and that its reports are being read.
func (rl *raceLog) selfTest(c *driver.Ctx) bool {
	var wg sync.WaitGroup
	for i := 0; i < 2; i++ {
		wg.Add(1)
		go func() { defer wg.Done(); selfTestWrite() }()
	}
	wg.Wait()
	c.Count("race_selftest_runs", 1)
	for _, rep := range rl.read() {
		if rep.selftest {
			c.Count("race_selftest_detected", 1)
			return true
		}
	}
	return false
}
