package c05

import (
	"fmt"
	"math/rand"
	"strings"
	"time"

	"go.starlark.net/starlark"
	"go.starlark.net/syntax"

	"verif/internal/canon"
	"verif/internal/driver"
	"verif/internal/sl"
)

// ---------------------------------------------------------------------------------------------
// Ownership arm. The world arm aims random operations at a random module; this arm enumerates
// three families in which a frozen value is shared in a way the library could get wrong without
// any sequential test noticing, and in which every goroutine works with a value of its own (TAG):
//
//   storage: results of read-only operators (slice, +, *, list(), tuple(), dict views, *args)
//            on frozen tuples/lists/dicts/sets must own their storage: extending such a result,
//            or computing it again with another operand, must not write into the frozen operand
//            nor into another goroutine's result. The operands include frozen globals that are
//            themselves slices of other globals.
//   bound:   a mutable receiver reachable ONLY through a bound method exported by the completed
//            module (directly, in a tuple/list/dict/struct, captured by a closure, as a parameter
//            default, or one level further down through a getter) is frozen like everything else:
//            every mutating method must be rejected.
//   call:    all goroutines are inside the same frozen *Function / closure at the same moment,
//            each with its own arguments (module compiled with and without the Recursion option);
//            parameters, locals, cells, *args/**kwargs and the operand stack must be per call.
//
// Oracles: transcript (with the own TAG replaced) equal to the solo run on a private copy of the
// module; mutation attempts rejected; the module renders identically after every solo operation
// and after the concurrent run; race detector.

type ownVariant struct {
	name string
	opts *syntax.FileOptions
}

var ownVariants = []ownVariant{
	{"norec", &syntax.FileOptions{Set: true, While: true, TopLevelControl: true, GlobalReassign: true}},
	{"rec", sl.AllOptions()},
}

// mutating methods of the built-in mutable types, with a receiver and arguments for which the
// call changes the receiver when it is not frozen
type mutRow struct{ typ, recv, method, args string }

var mutRows = []mutRow{
	{"list", "[1, 2, 3]", "append", "(TAG)"},
	{"list", "[1, 2, 3]", "clear", "()"},
	{"list", "[1, 2, 3]", "extend", "([TAG])"},
	{"list", "[1, 2, 3]", "insert", "(0, TAG)"},
	{"list", "[1, 2, 3]", "pop", "()"},
	{"list", "[1, 2, 3]", "remove", "(2)"},
	{"dict", `{"k": 1, "a_key_longer_than_12_bytes": 2}`, "clear", "()"},
	{"dict", `{"k": 1, "a_key_longer_than_12_bytes": 2}`, "pop", `("k")`},
	{"dict", `{"k": 1, "a_key_longer_than_12_bytes": 2}`, "popitem", "()"},
	{"dict", `{"k": 1, "a_key_longer_than_12_bytes": 2}`, "setdefault", "(TAG, 1)"},
	{"dict", `{"k": 1, "a_key_longer_than_12_bytes": 2}`, "update", "([(TAG, 1)])"},
	{"dict", `{"k": 1, "a_key_longer_than_12_bytes": 2}`, "update", "(zz = 1)"},
	{"dict", "{}", "setdefault", "(TAG)"},
	{"set", `set([1, 2, "k"])`, "add", "(TAG)"},
	{"set", `set([1, 2, "k"])`, "clear", "()"},
	{"set", `set([1, 2, "k"])`, "discard", "(1)"},
	{"set", `set([1, 2, "k"])`, "pop", "()"},
	{"set", `set([1, 2, "k"])`, "remove", "(2)"},
	{"set", `set([1, 2, "k"])`, "update", "([TAG])"},
	{"set", "set()", "add", "(TAG)"},
}

// a read-only method of the same type and a call of it (for the second half of PAIR_i)
var readerOf = map[string][2]string{
	"list": {"index", "(1)"},
	"dict": {"get", `("k")`},
	"set":  {"union", "([])"},
}

// routes by which the module exports the bound method that holds the only reference to its receiver
var ownRoutes = []struct {
	name   string
	callee func(i int, m mutRow) string // expression that calls the method; args are appended
}{
	{"global", func(i int, m mutRow) string { return fmt.Sprintf("BM_%d", i) }},
	{"tuple-from-factory", func(i int, m mutRow) string { return fmt.Sprintf("PAIR_%d[0]", i) }},
	{"list-element", func(i int, m mutRow) string { return fmt.Sprintf("BMS_LIST[%d]", i) }},
	{"dict-value", func(i int, m mutRow) string { return fmt.Sprintf("BMS_DICT[\"m%d\"]", i) }},
	{"struct-field", func(i int, m mutRow) string { return fmt.Sprintf("BMS_ST.m%d", i) }},
	{"closure-capture", func(i int, m mutRow) string { return fmt.Sprintf("USE_%d", i) }},
	{"parameter-default", func(i int, m mutRow) string { return fmt.Sprintf("DFLT_%d", i) }},
	{"value-behind-getter", func(i int, m mutRow) string { return fmt.Sprintf("GET_%d(\"k\").%s", i, m.method) }},
	{"value-behind-values", func(i int, m mutRow) string { return fmt.Sprintf("VALS_%d()[0].%s", i, m.method) }},
}

type ownSpec struct {
	variant ownVariant
	src     string
	names   []string
	index   map[string]int
	n       int // length of T8 / L8
}

// functions of the call family: name, Starlark argument lists, Go argument builders
type ownCall struct {
	fn   string
	args []string // Starlark source, TAG free
	goa  []func(tag starlark.Value) (starlark.Tuple, []starlark.Tuple)
}

func mi(n int) starlark.Value { return starlark.MakeInt(n) }

var ownCalls = []ownCall{
	{"fill", []string{"(TAG, 60)", "(TAG, 25)"}, []func(starlark.Value) (starlark.Tuple, []starlark.Tuple){
		func(t starlark.Value) (starlark.Tuple, []starlark.Tuple) { return starlark.Tuple{t, mi(60)}, nil },
		func(t starlark.Value) (starlark.Tuple, []starlark.Tuple) { return starlark.Tuple{t, mi(25)}, nil }}},
	{"ident", []string{"(TAG)"}, []func(starlark.Value) (starlark.Tuple, []starlark.Tuple){
		func(t starlark.Value) (starlark.Tuple, []starlark.Tuple) { return starlark.Tuple{t}, nil }}},
	{"many_locals", []string{"(TAG, 40)", "(TAG, n = 15)"}, []func(starlark.Value) (starlark.Tuple, []starlark.Tuple){
		func(t starlark.Value) (starlark.Tuple, []starlark.Tuple) { return starlark.Tuple{t, mi(40)}, nil },
		func(t starlark.Value) (starlark.Tuple, []starlark.Tuple) {
			return starlark.Tuple{t}, []starlark.Tuple{{starlark.String("n"), mi(15)}}
		}}},
	{"star", []string{"(TAG, 1, TAG, k = TAG)", "(*[TAG, 2], **{\"z\": TAG})"}, []func(starlark.Value) (starlark.Tuple, []starlark.Tuple){
		func(t starlark.Value) (starlark.Tuple, []starlark.Tuple) {
			return starlark.Tuple{t, mi(1), t}, []starlark.Tuple{{starlark.String("k"), t}}
		},
		func(t starlark.Value) (starlark.Tuple, []starlark.Tuple) {
			return starlark.Tuple{t, mi(2)}, []starlark.Tuple{{starlark.String("z"), t}}
		}}},
	{"with_defaults", []string{"(TAG)", "(TAG, 20, box = [TAG])"}, []func(starlark.Value) (starlark.Tuple, []starlark.Tuple){
		func(t starlark.Value) (starlark.Tuple, []starlark.Tuple) { return starlark.Tuple{t}, nil },
		func(t starlark.Value) (starlark.Tuple, []starlark.Tuple) {
			return starlark.Tuple{t, mi(20)}, []starlark.Tuple{{starlark.String("box"), starlark.NewList([]starlark.Value{t})}}
		}}},
	{"cells", []string{"(TAG, 40)", "(TAG, 12)"}, []func(starlark.Value) (starlark.Tuple, []starlark.Tuple){
		func(t starlark.Value) (starlark.Tuple, []starlark.Tuple) { return starlark.Tuple{t, mi(40)}, nil },
		func(t starlark.Value) (starlark.Tuple, []starlark.Tuple) { return starlark.Tuple{t, mi(12)}, nil }}},
	{"LAM", []string{"(TAG, 50)"}, []func(starlark.Value) (starlark.Tuple, []starlark.Tuple){
		func(t starlark.Value) (starlark.Tuple, []starlark.Tuple) { return starlark.Tuple{t, mi(50)}, nil }}},
	{"keyfn_sort", []string{"(TAG, 30)"}, []func(starlark.Value) (starlark.Tuple, []starlark.Tuple){
		func(t starlark.Value) (starlark.Tuple, []starlark.Tuple) { return starlark.Tuple{t, mi(30)}, nil }}},
	{"deep", []string{"(TAG, 10)", "(TAG, 4)"}, []func(starlark.Value) (starlark.Tuple, []starlark.Tuple){
		func(t starlark.Value) (starlark.Tuple, []starlark.Tuple) { return starlark.Tuple{t, mi(10)}, nil },
		func(t starlark.Value) (starlark.Tuple, []starlark.Tuple) { return starlark.Tuple{t, mi(4)}, nil }}},
	{"COUNT", []string{"(TAG, 30)"}, []func(starlark.Value) (starlark.Tuple, []starlark.Tuple){
		func(t starlark.Value) (starlark.Tuple, []starlark.Tuple) { return starlark.Tuple{t, mi(30)}, nil }}},
}

const ownCallSrc = `
def mk_adder(k):
    def add(x):
        y = x + k
        return y[:len(y) - len(k)]
    return add

ident = mk_adder("-sfx")

def fill(tag, n):
    acc = []
    for i in range(n):
        v = ident(tag)
        acc.append(v)
    return acc

def many_locals(tag, n):
    a = tag
    b = [tag]
    c = (tag, n)
    d = {tag: n}
    out = []
    for i in range(n):
        e = a + str(i % 3)
        f = [b[0], c[0]]
        g = (e, f[0], d[tag])
        out.append(g[1])
    return (a, b, c, d, out)

def star(*args, **kwargs):
    acc = []
    for i in range(40):
        acc.append(args[i % len(args)])
    return (acc, sorted(kwargs.items()), args, kwargs)

def with_defaults(tag, n = 40, box = [1, 2]):
    return [(tag, box[0], i % 2) for i in range(n)]

def cells(tag, n):
    state = [tag]
    def get(i):
        return state[0] + ":" + str(i % 2)
    return [get(i) for i in range(n)]

LAM = lambda tag, n: [tag for _ in range(n)]

def keyfn_sort(tag, n):
    return sorted([tag + str(i % 5) for i in range(n)], key = lambda s: s[::-1])

def deep(tag, n):
    out = []
    for i in range(n):
        out.append((fill(tag, 3), many_locals(tag, 2)[0], cells(tag, 2), LAM(tag, 1)))
    return out

def mk_count(prefix):
    sep = [":"]
    def count(tag, n):
        s = prefix
        for i in range(n):
            s = prefix + sep[0] + tag
        return (s, tag)
    return count

COUNT = mk_count("p")
`

func newOwnSpec(v ownVariant, r *rand.Rand) *ownSpec {
	sp := &ownSpec{variant: v, index: map[string]int{}, n: 7 + r.Intn(5)}
	var b strings.Builder
	def := func(name, expr string) {
		fmt.Fprintf(&b, "%s = %s\n", name, expr)
		sp.add(name)
	}
	nums := make([]string, sp.n)
	for i := range nums {
		nums[i] = fmt.Sprint(i + 1)
	}
	fmt.Fprintf(&b, "# ownership world (%s)\n", v.name)
	// --- storage family
	def("T8", "("+strings.Join(nums, ", ")+")")
	def("T_STR", `("a", "bb", "a_string_longer_than_12_bytes", "d", "e")`)
	def("T_SL", "T8[:5]")
	def("T_MID", "T8[2:6]")
	def("T_TAIL", "T8[3:]")
	def("T_SLSL", "T_SL[1:3]")
	def("T_ONE", "T8[:1]")
	def("T_NEST", `(T8, T_SL, [1, 2, 3], {"k": (1, 2, 3)[:2]}, T_STR[1:4])`)
	def("L8", "["+strings.Join(nums, ", ")+"]")
	def("L_SL", "L8[:5]")
	def("L_TUPS", "[T8[:2], T8[2:4], T_STR[:1]]")
	def("D8", `{"k%d" % i: (i, i + 1, i + 2)[:2] for i in range(8)}`)
	def("D_ITEMS", "D8.items()")
	def("S8", `set([1, 2, 3, "a", "b"])`)
	b.WriteString("def f_args(*args, **kwargs):\n    return (args, kwargs)\n")
	sp.add("f_args")
	def("ARGS", "f_args(*L8)[0]")
	def("ARGS_SL", "ARGS[:3]")
	def("ST", "struct(t = T8[:4], l = L8[:4], sl = T_SL)")
	b.WriteString("def f_slice_cat(t, i, j, x):\n    u = t[i:j]\n    return u + (x,)\n")
	b.WriteString("def f_aug(t, x):\n    u = t[:2]\n    u += (x,)\n    return u\n")
	b.WriteString("def f_star_cat(x, *a):\n    return (a[:1] + (x,), a + (x,))\n")
	sp.add("f_slice_cat")
	sp.add("f_aug")
	sp.add("f_star_cat")
	// --- bound family: every receiver literal below is referenced by bound methods only
	var inList, inDict, inStruct []string
	for i, m := range mutRows {
		bm := m.recv + "." + m.method
		def(fmt.Sprintf("BM_%d", i), bm)
		rd := readerOf[m.typ]
		fmt.Fprintf(&b, "def mk_pair_%d():\n    v = %s\n    return (v.%s, v.%s)\n", i, m.recv, m.method, rd[0])
		def(fmt.Sprintf("PAIR_%d", i), fmt.Sprintf("mk_pair_%d()", i))
		fmt.Fprintf(&b, "def mk_use_%d():\n    m = %s\n    def use(*a, **k):\n        return m(*a, **k)\n    return use\n", i, bm)
		def(fmt.Sprintf("USE_%d", i), fmt.Sprintf("mk_use_%d()", i))
		fmt.Fprintf(&b, "def DFLT_%d(*a, m = %s, **k):\n    return m(*a, **k)\n", i, bm)
		sp.add(fmt.Sprintf("DFLT_%d", i))
		def(fmt.Sprintf("GET_%d", i), fmt.Sprintf(`{"k": %s}.get`, m.recv))
		def(fmt.Sprintf("VALS_%d", i), fmt.Sprintf(`{"k": %s}.values`, m.recv))
		inList = append(inList, bm)
		inDict = append(inDict, fmt.Sprintf(`"m%d": %s`, i, bm))
		inStruct = append(inStruct, fmt.Sprintf("m%d = %s", i, bm))
	}
	def("BMS_LIST", "["+strings.Join(inList, ", ")+"]")
	def("BMS_DICT", "{"+strings.Join(inDict, ", ")+"}")
	def("BMS_ST", "struct("+strings.Join(inStruct, ", ")+")")
	// --- call family
	b.WriteString(ownCallSrc)
	for _, n := range []string{"ident", "fill", "many_locals", "star", "with_defaults", "cells", "LAM", "keyfn_sort", "deep", "COUNT"} {
		sp.add(n)
	}
	sp.src = b.String()
	return sp
}

func (sp *ownSpec) add(name string) {
	sp.index[name] = len(sp.names)
	sp.names = append(sp.names, name)
}

func (sp *ownSpec) build() (*world, error) {
	th := &starlark.Thread{Name: "own-world"}
	pre := sl.StdModules()
	g, err := starlark.ExecFileOptions(sp.variant.opts, th, "own-"+sp.variant.name+".star", sp.src, pre)
	if err != nil {
		return nil, fmt.Errorf("ownership world (%s) does not execute: %s", sp.variant.name, sl.ErrText(err))
	}
	w := &world{globals: g, env: starlark.StringDict{}}
	for k, v := range pre {
		w.env[k] = v
	}
	for k, v := range g {
		w.env[k] = v
	}
	for _, n := range sp.names {
		v, ok := g[n]
		if !ok {
			return nil, fmt.Errorf("ownership world lacks global %s", n)
		}
		w.vals = append(w.vals, v)
	}
	return w, nil
}

func (sp *ownSpec) isPredeclared(name string) bool {
	if _, ok := sp.index[name]; ok {
		return true
	}
	switch name {
	case "TAG", "json", "math", "time", "struct":
		return true
	}
	return strings.HasPrefix(name, "mk_")
}

// ownExecSrc runs a TAG-parameterised program (compiled once per case; the one shared *Program
// is initialised by all goroutines) and renders its globals with the own tag replaced.
func ownExecSrc(e *env, o *op) string {
	if e.pre == nil {
		e.pre = make(starlark.StringDict, len(e.w.env)+1)
		for k, v := range e.w.env {
			e.pre[k] = v
		}
		e.pre["TAG"] = starlark.String(e.tag)
	}
	e.printed.Reset()
	var g starlark.StringDict
	err := o.progErr
	if err == nil {
		g, err = o.progs[e.shared].Init(e.th, e.pre)
		g.Freeze()
	}
	var b strings.Builder
	if err != nil {
		if _, ok := err.(*starlark.EvalError); !ok {
			b.WriteString(staticMark)
		}
	} else if o.mustFail {
		b.WriteString(acceptedMark)
	}
	b.WriteString(canon.Globals(g))
	b.WriteString("-- ")
	b.WriteString(canon.Error(err))
	return strings.ReplaceAll(b.String(), e.tag, "<TAG>")
}

func (sp *ownSpec) srcOp(kind, cat, target, what, src string, mustFail bool) *op {
	o := &op{kind: kind, cat: cat, targets: []int{sp.index[target]}, src: src, desc: what, mustFail: mustFail}
	for i := range o.progs {
		_, o.progs[i], o.progErr = starlark.SourceProgramOptions(fileOpts, "own-op.star", src, sp.isPredeclared)
	}
	o.run = func(e *env) string { return ownExecSrc(e, o) }
	return o
}

func goOp(sp *ownSpec, kind, cat, target, what string, f func(e *env, tag starlark.Value) string) *op {
	return &op{kind: kind, cat: cat, targets: []int{sp.index[target]}, desc: what, run: func(e *env) string {
		return strings.ReplaceAll(f(e, starlark.String(e.tag)), e.tag, "<TAG>")
	}}
}

// tuple-valued expressions of the ownership world: plain literals, slices of other globals
// (len < cap), elements of containers, dict item pairs, argument tuples
var ownTupleExprs = []struct{ target, expr string }{
	{"T8", "T8"}, {"T_STR", "T_STR"}, {"T_SL", "T_SL"}, {"T_MID", "T_MID"}, {"T_TAIL", "T_TAIL"}, {"T_SLSL", "T_SLSL"},
	{"T_ONE", "T_ONE"}, {"T_NEST", "T_NEST"}, {"T_NEST", "T_NEST[0]"}, {"T_NEST", "T_NEST[4]"}, {"T_NEST", `T_NEST[3]["k"]`},
	{"ARGS", "ARGS"}, {"ARGS_SL", "ARGS_SL"}, {"ST", "ST.t"}, {"ST", "ST.sl"}, {"D_ITEMS", "D_ITEMS[0]"}, {"D8", `D8["k3"]`},
	{"L_TUPS", "L_TUPS[0]"}, {"L_TUPS", "L_TUPS[1]"}, {"D8", "D8.items()[1]"}, {"L8", "tuple(L8)"},
	{"f_args", "f_args(*T8)[0]"}, {"f_args", "f_args(*T8[:3])[0]"},
}

var ownListExprs = []struct{ target, expr string }{
	{"L8", "L8"}, {"L_SL", "L_SL"}, {"T_NEST", "T_NEST[2]"}, {"ST", "ST.l"}, {"D_ITEMS", "D_ITEMS"}, {"L_TUPS", "L_TUPS"},
}

const ownTupleProg = `t = %s
s0 = t[:2] + (TAG,)
s1 = t[1:3] + (TAG, 1)
s2 = t[:0] + (TAG,)
s3 = t[2:2] + (TAG,)
s4 = t[:-1] + (TAG,)
s5 = t[:] + (TAG,)
s6 = t[3:] + (TAG,)
s7 = t + (TAG,)
s8 = (TAG,) + t[:2]
s9 = t[:2] * 2
s10 = t[:1] + t[:1]
again = t[:2] + ("other",)
r = (f_slice_cat(t, 0, 2, TAG), f_slice_cat(t, 1, 3, TAG), f_slice_cat(t, 0, 0, TAG), f_aug(t, TAG), f_star_cat(TAG, *t[:3]), f_args(*t[:2])[0] + (TAG,))
again2 = f_slice_cat(t, 0, 2, "other")
seen = (s0, r[0], t)
`

const ownListProg = `l = %s
a = l[:3]
a.append(TAG)
b = l[1:4]
b.insert(0, TAG)
c = l + []
c.append(TAG)
c2 = l[:2] + [TAG]
d = l * 1
d.append(TAG)
e = list(l)
e.append(TAG)
f = reversed(l)
f.append(TAG)
g = [x for x in l]
g[0] = TAG
h = tuple(l[:3]) + (TAG,)
h2 = tuple(l)[:2] + (TAG,)
again = tuple(l)[:2] + ("other",)
seen = (h2, l)
`

const ownMiscProg = `k = D8.keys()
k.append(TAG)
v = D8.values()
v.append(TAG)
it = D8.items()
it.append(TAG)
it0 = D8.items()[0] + (TAG,)
z = zip(T8, L8)[0] + (TAG,)
en = list(enumerate(T8))[0] + (TAG,)
dd = dict(D8)
dd[TAG] = 1
du = D8 | {}
du[TAG] = 1
ss = set(S8)
ss.add(TAG)
su = S8 | set()
su.add(TAG)
s3 = S8.union([])
s3.add(TAG)
lt = list(T8[:3])
lt.append(TAG)
lt2 = list(T_SL)
lt2.append(TAG)
srt = sorted(T8[:4])
srt.append(TAG)
st2 = ST + struct(z = TAG)
seen = (D8, S8, T8, ST)
`

// the frozen values all storage operands are made of
var ownStorageRoots = []string{"T8", "T_STR", "T_NEST", "L8", "L_TUPS", "D8", "D_ITEMS", "S8", "ARGS", "ST"}

// makeOps enumerates the operation list of one case (the same for every goroutine).
func (sp *ownSpec) makeOps(round int) []*op {
	var ops []*op
	// --- storage
	for _, x := range ownTupleExprs {
		ops = append(ops, sp.srcOp("own:storage-tuple-slice-concat", "own-storage", x.target, x.expr, fmt.Sprintf(ownTupleProg, x.expr), false))
	}
	for _, x := range ownListExprs {
		ops = append(ops, sp.srcOp("own:storage-list-private-copy", "own-storage", x.target, x.expr, fmt.Sprintf(ownListProg, x.expr), false))
	}
	ops = append(ops, sp.srcOp("own:storage-misc-private-copy", "own-storage", "D8", "views, copies, unions", ownMiscProg, false))
	for _, name := range []string{"T8", "T_STR", "T_SL", "T_MID", "T_TAIL", "T_SLSL", "T_ONE", "T_NEST", "ARGS", "ARGS_SL"} {
		x := sp.index[name]
		ops = append(ops, goOp(sp, "own:storage-go-slice-binary", "own-storage", name, name, func(e *env, tag starlark.Value) string {
			t := e.w.vals[x].(starlark.Tuple)
			var b strings.Builder
			n := len(t)
			for _, ij := range [][2]int{{0, 2}, {1, 3}, {0, 0}, {2, 2}, {0, n - 1}, {0, n}, {n, n}} {
				i, j := min(ij[0], n), min(max(ij[1], 0), n)
				if i > j {
					i = j
				}
				s := t.Slice(i, j, 1)
				b.WriteString(res(starlark.Binary(syntax.PLUS, s, starlark.Tuple{tag})) + " ")
				b.WriteString(res(starlark.Binary(syntax.PLUS, starlark.Tuple{tag}, s)) + " ")
				b.WriteString(res(starlark.Binary(syntax.STAR, s, starlark.MakeInt(2))) + " ")
				z, err := starlark.Binary(syntax.PLUS, s, starlark.Tuple{tag, tag})
				starlark.Binary(syntax.PLUS, s, starlark.Tuple{starlark.String("other"), starlark.None})
				b.WriteString(res(z, err) + ";")
			}
			b.WriteString(cv(t))
			return b.String()
		}))
	}
	for _, name := range []string{"L8", "L_SL"} {
		x := sp.index[name]
		ops = append(ops, goOp(sp, "own:storage-go-list-slice-append", "own-storage", name, name, func(e *env, tag starlark.Value) string {
			l := e.w.vals[x].(*starlark.List)
			var b strings.Builder
			for _, ij := range [][2]int{{0, 2}, {1, 3}, {0, 0}} {
				s := l.Slice(ij[0], ij[1], 1).(*starlark.List)
				err := s.Append(tag)
				z, err2 := starlark.Binary(syntax.PLUS, l.Slice(ij[0], ij[1], 1), starlark.NewList([]starlark.Value{tag}))
				fmt.Fprintf(&b, "%s %v %s;", cv(s), err, res(z, err2))
			}
			b.WriteString(cv(l))
			return b.String()
		}))
	}
	// --- bound: route global for every row; the other routes take a quarter of the rows each,
	// rotating with the round
	for ri, rt := range ownRoutes {
		for i, m := range mutRows {
			if ri >= 1 && (i+ri+round)%4 != 0 {
				continue
			}
			target := strings.SplitN(strings.SplitN(rt.callee(i, m), "[", 2)[0], "(", 2)[0]
			target = strings.SplitN(target, ".", 2)[0]
			src := rt.callee(i, m) + m.args + "\n"
			ops = append(ops, sp.srcOp("own:bound-only-receiver "+rt.name, "own-bound", target, m.typ+"."+m.method+m.args, src, true))
		}
	}
	var rd []string
	for i, m := range mutRows {
		rd = append(rd, fmt.Sprintf("PAIR_%d[1]%s", i, readerOf[m.typ][1]))
	}
	ops = append(ops, sp.srcOp("own:bound-readers", "own-bound", "PAIR_0", "read-only halves of the pairs", "r = ["+strings.Join(rd, ", ")+"]\nkeep = (BMS_LIST, BMS_DICT, BMS_ST)\n", false))
	// --- call
	for _, cl := range ownCalls {
		x := sp.index[cl.fn]
		for k, a := range cl.args {
			ops = append(ops, sp.srcOp("own:call-same-function", "own-call", cl.fn, cl.fn+a, "r = "+cl.fn+a+"\n", false))
			mk := cl.goa[k]
			ops = append(ops, goOp(sp, "own:call-same-function-go", "own-call", cl.fn, cl.fn+" "+a, func(e *env, tag starlark.Value) string {
				args, kwargs := mk(tag)
				return res(starlark.Call(e.th, e.w.vals[x], args, kwargs))
			}))
		}
	}
	return ops
}

func armOwn(c *driver.Ctx, rl *raceLog) {
	rounds := c.Pick(2, 40)
	for _, v := range ownVariants {
		for round := 0; round < rounds; round++ {
			if !c.Take() {
				continue
			}
			ownCase(c, rl, v, round)
		}
	}
}

func ownCase(c *driver.Ctx, rl *raceLog, v ownVariant, round int) {
	tStart := time.Now()
	r := c.Rand()
	sp := newOwnSpec(v, c.GlobalRand("own-world"))
	c.Note("key=C05 crash ownership-arm\nvariant=%s round=%d case=%d\n%s", v.name, round, c.Case(), driver.Truncate(sp.src, 1500))
	solo, err := sp.build()
	if err != nil {
		c.Inconclusive("%v", err)
		return
	}
	shared, err := sp.build()
	if err != nil {
		c.Inconclusive("%v", err)
		return
	}
	before := canon.Globals(solo.globals)
	ops := sp.makeOps(round)
	// every goroutine runs the same list in the same order (a different order in every round):
	// even rounds time-slotted, odd rounds free-running from a common start, so that all 16 are
	// inside the same function / touch the same storage at about the same moment
	r.Shuffle(len(ops), func(i, j int) { ops[i], ops[j] = ops[j], ops[i] })
	var slot time.Duration
	if round%2 == 0 {
		slot = 300 * time.Microsecond
	}
	ctx := map[string]any{"arm": "ownership", "variant": v.name, "round": round, "world": sp.src}
	// Probe: every mutation attempt is first made alone on a third copy of the module. If one is
	// accepted, the receivers are not frozen and 16 goroutines mutating them at once proves nothing
	// more (and may never terminate): the violation is reported here and the mutation attempts are
	// withheld from the concurrent run of this case.
	withheld := false
	if probe, err := sp.build(); err != nil {
		c.Inconclusive("%v", err)
		return
	} else {
		ep := newEnv(probe, 0, "probe")
		probed := map[string]bool{}
		for _, o := range ops {
			if !o.mustFail {
				continue
			}
			c.Count("own_bound_method_mutations_probed_alone", 1)
			if out := o.exec(ep); strings.HasPrefix(out, acceptedMark) {
				withheld = true
				if !probed[o.kind] {
					probed[o.kind] = true
					c.Violation("C05 mutator-accepted "+o.kind, fmt.Sprintf("%s through a bound method that holds the only reference to its frozen receiver (%s) returned no error", o.desc, strings.TrimSpace(o.src)),
						map[string]any{"op": o.text(), "result": driver.Truncate(out, 2000), "context": ctx})
				}
			}
		}
	}
	conc := ops
	if withheld {
		conc = make([]*op, len(ops))
		for i, o := range ops {
			conc[i] = o
			if o.mustFail {
				c.Count("own_ops_withheld_from_concurrent_run", 1)
				conc[i] = &op{kind: o.kind, cat: o.cat, targets: o.targets, desc: o.desc, run: func(*env) string { return "withheld" }}
			}
		}
	}
	lists := make([][]*op, nGoroutines)
	for g := range lists {
		lists[g] = conc
	}
	got := runConcurrently(shared, lists, slot)

	// solo reference: the list run alone (own thread, own tag, private world, separately compiled
	// programs); after every operation the private world must still render as it did at the start
	want := make([]string, len(ops))
	e0 := newEnv(solo, 0, "solo0")
	changed := false
	reported := map[string]bool{} // one report per operation kind and case
	// (after each operation only its target and the storage roots are rendered, the whole module at the end)
	watch := func(o *op) string {
		t := starlark.Tuple{solo.vals[o.targets[0]]}
		for _, n := range ownStorageRoots {
			t = append(t, solo.vals[sp.index[n]])
		}
		return canon.Value(t)
	}
	for i, o := range ops {
		pre := watch(o)
		want[i] = o.exec(e0)
		c.Count("own_world_unchanged_checks", 1)
		if post := watch(o); post != pre {
			changed = true
			if !reported[o.kind] {
				reported[o.kind] = true
				c.Violation("C05 frozen-value-changed "+o.kind, fmt.Sprintf("a frozen value of the module differs after %s on %s was run alone (%s)", o.kind, sp.names[o.targets[0]], o.desc),
					map[string]any{"op": o.text(), "result": driver.Truncate(want[i], 3000), "before": driver.Truncate(pre, 6000), "after": driver.Truncate(post, 6000), "context": ctx})
			}
		}
	}
	c.Count("solo_ops", len(ops))
	if after := canon.Globals(solo.globals); !changed && after != before {
		changed = true
		c.Violation("C05 solo-world-changed ownership-arm", fmt.Sprintf("the ownership world (%s) differs after the solo run although no operation changed its own target", v.name),
			map[string]any{"before": driver.Truncate(before, 6000), "after": driver.Truncate(after, 6000), "context": ctx})
	}
	// harness sanity: the transcript must not depend on the tag
	var again listResult
	runList(newEnv(solo, 0, "solo-other-tag"), ops, time.Now(), 0, &again)
	if !changed {
		for i := range ops {
			if again.out[i] != want[i] {
				c.Count("own_tag_dependent_ops", 1)
				c.Inconclusive("solo result of %s depends on the goroutine's tag or on earlier operations (harness defect): %q vs %q", ops[i].kind, driver.Truncate(want[i], 300), driver.Truncate(again.out[i], 300))
				rl.check(c, ctx)
				return
			}
		}
	}

	c.Eval(nGoroutines * len(ops))
	c.Count("shared_ops", nGoroutines*len(ops))
	c.Count("own_cases_"+v.name, 1)
	c.Count("goroutines_started", nGoroutines)
	mismatch := make([]bool, len(ops))
	for g := range got {
		c.Count("transcripts_compared", 1)
		for i, o := range ops {
			if withheld && o.mustFail {
				continue
			}
			c.Count("transcript_entries_compared", 1)
			if got[g].out[i] == want[i] {
				continue
			}
			mismatch[i] = true
			key := "C05 transcript-differs " + o.kind
			if strings.HasPrefix(got[g].out[i], panicMark) {
				key = "C05 panic-when-shared " + o.kind
			}
			c.Violation(key, fmt.Sprintf("goroutine %d, op %d (%s on %s: %s): result on the shared world differs from the solo run", g, i, o.kind, sp.names[o.targets[0]], o.desc),
				map[string]any{"op": o.text(), "solo": driver.Truncate(want[i], 3000), "shared": driver.Truncate(got[g].out[i], 3000), "context": ctx})
		}
	}
	for i, o := range ops {
		out := want[i]
		c.Count("ops_"+o.cat, nGoroutines)
		c.Cover("op_kinds", o.kind)
		c.Cover("own_families", o.cat+" ("+v.name+")")
		switch {
		case strings.HasPrefix(out, panicMark):
			c.Violation("C05 panic-solo "+o.kind, "operation panics even when run alone: "+driver.Truncate(out, 300), map[string]any{"op": o.text(), "context": ctx})
		case strings.HasPrefix(out, staticMark):
			c.Count("op_static_errors", 1)
			c.Inconclusive("operation %s is not a valid program (harness defect): %s", o.kind, driver.Truncate(out, 300))
		}
		switch o.cat {
		case "own-storage":
			c.Cover("own_storage_operands", o.desc)
		case "own-call":
			c.Cover("own_functions_entered_by_all_goroutines", sp.names[o.targets[0]]+" ("+v.name+")")
		}
		if o.mustFail {
			c.Count("mutator_attempts", nGoroutines)
			c.Count("own_bound_method_mutations_attempted", nGoroutines)
			c.Cover("own_bound_routes", strings.TrimPrefix(o.kind, "own:bound-only-receiver "))
			c.Cover("own_bound_methods", strings.SplitN(o.desc, "(", 2)[0])
			acc := strings.HasPrefix(out, acceptedMark)
			for g := range got {
				acc = acc || strings.HasPrefix(got[g].out[i], acceptedMark)
			}
			if acc && withheld {
				// reported by the probe
			} else if acc {
				c.Violation("C05 mutator-accepted "+o.kind, fmt.Sprintf("%s through a bound method that holds the only reference to its frozen receiver (%s) returned no error", o.desc, strings.TrimSpace(o.src)),
					map[string]any{"op": o.text(), "result": driver.Truncate(out, 2000), "context": ctx})
			} else {
				c.Count("mutator_rejected", nGoroutines)
				if strings.Contains(out, "frozen") {
					c.Count("mutator_rejected_as_frozen", nGoroutines)
					c.Count("own_bound_method_mutations_rejected_as_frozen", nGoroutines)
				}
				c.Cover("rejection_messages", rejectionClass(out))
			}
		} else if strings.Contains(out, "evalerror: ") {
			// storage, reader and call operations are all meant to succeed
			c.Count("own_ops_failing_solo", 1)
			c.Inconclusive("operation %s (%s) fails when run alone (harness defect): %s", o.kind, o.desc, driver.Truncate(out, 300))
		}
		if !mismatch[i] {
			c.Distinct("own|" + v.name + "|" + o.kind + "|" + o.desc)
		}
	}
	c.Count("world_unchanged_checks", 1)
	if after := canon.Globals(shared.globals); after != before {
		c.Violation("C05 shared-world-changed ownership-arm", fmt.Sprintf("the ownership world (%s) differs after the concurrent round", v.name),
			map[string]any{"before": driver.Truncate(before, 6000), "after": driver.Truncate(after, 6000), "context": ctx})
	}
	touched, over, nover := overlap(got, len(sp.names))
	isCallee := map[int]bool{}
	for _, cl := range ownCalls {
		isCallee[sp.index[cl.fn]] = true
	}
	for i := range touched {
		if touched[i] {
			c.Count("own_objects", 1)
			if over[i] {
				c.Count("own_objects_overlapped", 1)
			}
			if isCallee[i] {
				c.Count("own_call_functions", 1)
				if over[i] {
					c.Count("own_call_functions_entered_by_two_goroutines_at_once", 1)
				}
			}
		}
	}
	c.Count("own_case_wall_ms", int(time.Since(tStart)/time.Millisecond))
	c.Count("own_op_windows_overlapping_another_goroutine", nover)
	nrep := rl.check(c, ctx)
	if c.WantSample() {
		i := r.Intn(len(ops))
		c.Sample(map[string]any{"arm": "ownership", "variant": v.name, "round": round, "goroutines": nGoroutines, "ops_per_goroutine": len(ops),
			"example_op": ops[i].text(), "example_result": driver.Truncate(want[i], 300), "race_reports_this_case": nrep})
	}
}
