package c05

import (
	"bytes"
	"fmt"
	"math/rand"
	"strings"
	"sync"
	"time"

	"go.starlark.net/starlark"

	"verif/internal/canon"
	"verif/internal/driver"
	"verif/internal/sl"
)

// ---------------------------------------------------------------------------------------------
// Shared program arm: one *starlark.Program, 16 goroutines calling Init on it (half of them
// failing at various depths) and then calling the functions it defines, so that position tables
// of the shared Funcodes are decoded lazily and concurrently.

const nFailKinds = 8

type progSpec struct {
	id     int
	src    string
	nfuncs int
}

var fillers = []string{
	"t%d = x + %d",
	"t%d = [x, %d]",
	"t%d = {\"k\": x, \"a_key_longer_than_12_bytes\": %d}",
	"# comment %d %d",
	"",
	"t%d = (x, %d) if x else None",
	"t%d = \"%d\" + \"                                                                                          \".strip()",
	"t%d = [i for i in range(%d %% 5)]",
}

func newProgSpec(id int, r *rand.Rand) *progSpec {
	n := 6 + r.Intn(7)
	var b strings.Builder
	fmt.Fprintf(&b, "# shared program %d\nx = 5\n", id)
	fmt.Fprintf(&b, "CONST_BIG = %d * %d * 1000000007 * 998244353 * 1000000009\n", 1+r.Intn(1<<30), 1+r.Intn(1<<30))
	b.WriteString("TABLE = {(\"k%d\" % i if i % 2 else \"a_table_key_longer_than_12_%d\" % i): i for i in range(6)}\n")
	fill := func(indent string) {
		for i, k := 0, r.Intn(6); i < k; i++ {
			f := fillers[r.Intn(len(fillers))]
			if f == "" {
				// a run of blank lines makes a line delta that does not fit one table row
				b.WriteString(strings.Repeat("\n", 1+r.Intn(20)))
				continue
			}
			b.WriteString(indent + fmt.Sprintf(f, r.Intn(1000), r.Intn(1000)) + "\n")
		}
	}
	for i := 0; i < n; i++ {
		fill("")
		fmt.Fprintf(&b, "def f%d(depth, kind, x):\n", i)
		fill("    ")
		fmt.Fprintf(&b, "    if depth == %d:\n", i)
		fmt.Fprintf(&b, "        if kind == 0:\n            return [1, 2][x]\n")
		fmt.Fprintf(&b, "        elif kind == 1:\n            return (x, %d // (x - x))\n", i)
		fmt.Fprintf(&b, "        elif kind == 2:\n            return x.nope\n")
		fmt.Fprintf(&b, "        elif kind == 3:\n            return [boom(x, %d)]\n", i)
		fmt.Fprintf(&b, "        elif kind == 4:\n            a, b = (x, x, x)\n")
		fmt.Fprintf(&b, "        elif kind == 5:\n            return TABLE[\"missing\"]\n")
		fmt.Fprintf(&b, "        elif kind == 6:\n            return                                 int(\"zz\")\n")
		fmt.Fprintf(&b, "        elif kind == 7:\n            return shared[x] + shared[x + 100]\n")
		fmt.Fprintf(&b, "        return -x\n")
		fill("    ")
		if i == n-1 {
			b.WriteString("    return x + len(shared) + CONST_BIG % 1000\n")
			continue
		}
		switch r.Intn(5) {
		case 0:
			fmt.Fprintf(&b, "    return f%d(depth, kind, x) + 1\n", i+1)
		case 1:
			fmt.Fprintf(&b, "    return (lambda v: f%d(depth, kind, v))(x) + 1\n", i+1)
		case 2:
			fmt.Fprintf(&b, "    def inner(v):\n")
			fill("        ")
			fmt.Fprintf(&b, "        return f%d(depth, kind, v)\n    return inner(x) + 1\n", i+1)
		case 3:
			fmt.Fprintf(&b, "    return sorted([x], key = lambda v: f%d(depth, kind, v))[0] + 1\n", i+1)
		case 4:
			fmt.Fprintf(&b, "    return [f%d(depth, kind, v) for v in [x]][0] + 1\n", i+1)
		}
	}
	fill("")
	b.WriteString("if fail_depth == -2:\n    RESULT0 = [CONST_BIG][fail_kind + 1]\n")
	b.WriteString("RESULT = f0(fail_depth, fail_kind, 7)\n")
	b.WriteString("AFTER = [RESULT, shared, TABLE]\n")
	return &progSpec{id: id, src: b.String(), nfuncs: n}
}

type progCall struct{ fn, depth, kind int }

type progScript struct {
	depth, kind int // for Init (depth -1: no failure; -2: failure at top level)
	calls       []progCall
}

var boom = starlark.NewBuiltin("boom", func(_ *starlark.Thread, b *starlark.Builtin, args starlark.Tuple, _ []starlark.Tuple) (starlark.Value, error) {
	return nil, fmt.Errorf("boom%v", args)
})

func progPredeclared(s progScript, shared *starlark.List) starlark.StringDict {
	return starlark.StringDict{
		"fail_depth": starlark.MakeInt(s.depth), "fail_kind": starlark.MakeInt(s.kind),
		"boom": boom, "shared": shared,
	}
}

func isProgPredeclared(name string) bool {
	switch name {
	case "fail_depth", "fail_kind", "boom", "shared":
		return true
	}
	return false
}

// runScript performs one goroutine's part: Init on prog, then the calls. Transcript per step.
func runScript(prog *starlark.Program, s progScript, shared *starlark.List, name string, t0 time.Time, res *listResult) {
	th := &starlark.Thread{Name: name, Print: func(*starlark.Thread, string) {}}
	res.out = make([]string, 0, 1+len(s.calls))
	var g starlark.StringDict
	var err error
	st := int64(time.Since(t0))
	if p := sl.Safe(func() { g, err = prog.Init(th, progPredeclared(s, shared)) }); p != nil {
		res.out = append(res.out, panicMark+fmt.Sprint(p.Value)+" @ "+p.TopFrame())
	} else {
		g.Freeze()
		res.out = append(res.out, canon.Globals(g)+"-- "+canon.Error(err))
	}
	res.iv = append(res.iv, interval{0, st, int64(time.Since(t0))})
	for _, c := range s.calls {
		fn := g[fmt.Sprintf("f%d", c.fn)]
		if fn == nil {
			res.out = append(res.out, "undefined")
			continue
		}
		st := int64(time.Since(t0))
		var v starlark.Value
		if p := sl.Safe(func() {
			v, err = starlark.Call(th, fn, starlark.Tuple{starlark.MakeInt(c.depth), starlark.MakeInt(c.kind), starlark.MakeInt(7)}, nil)
		}); p != nil {
			res.out = append(res.out, panicMark+fmt.Sprint(p.Value)+" @ "+p.TopFrame())
		} else {
			res.out = append(res.out, res2(v, err))
		}
		res.iv = append(res.iv, interval{int32(1 + c.fn), st, int64(time.Since(t0))})
	}
}

func res2(v starlark.Value, err error) string {
	if err != nil {
		return canon.Error(err)
	}
	return canon.Value(v)
}

func compile(sp *progSpec, compiled bool) (*starlark.Program, error) {
	_, prog, err := starlark.SourceProgramOptions(fileOpts, fmt.Sprintf("prog%d.star", sp.id), sp.src, isProgPredeclared)
	if err != nil || !compiled {
		return prog, err
	}
	var buf bytes.Buffer
	if err := prog.Write(&buf); err != nil {
		return nil, err
	}
	return starlark.CompiledProgram(&buf)
}

func armProgram(c *driver.Ctx, rl *raceLog) {
	nprogs := c.Pick(24, 24*40)
	callsPer := 48
	for pi := 0; pi < nprogs; pi++ {
		for _, compiled := range []bool{false, true} {
			if !c.Take() {
				continue
			}
			programCase(c, rl, pi, compiled, callsPer)
		}
	}
}

func programCase(c *driver.Ctx, rl *raceLog, pi int, compiled bool, callsPer int) {
	variant := "source"
	if compiled {
		variant = "compiled"
	}
	sp := newProgSpec(pi, c.GlobalRand(fmt.Sprint("prog/", pi)))
	r := c.Rand()
	c.Note("key=C05 crash program-arm\nprogram=%d variant=%s case=%d\n%s", pi, variant, c.Case(), driver.Truncate(sp.src, 1500))
	// the program under test has never been run or asked for a position before the goroutines start
	soloProg, err := compile(sp, compiled)
	if err != nil {
		c.Inconclusive("program %d does not compile (harness defect): %v", pi, err)
		return
	}
	sharedProg, err := compile(sp, compiled)
	if err != nil {
		c.Inconclusive("program %d does not compile (harness defect): %v", pi, err)
		return
	}
	mkShared := func() *starlark.List {
		l := starlark.NewList([]starlark.Value{starlark.MakeInt(1), starlark.String("two"), starlark.NewList([]starlark.Value{starlark.MakeInt(3)})})
		l.Freeze()
		return l
	}
	scripts := make([]progScript, nGoroutines)
	for g := range scripts {
		s := progScript{depth: -1, kind: r.Intn(nFailKinds)}
		if g%2 == 1 { // half of the executions fail
			s.depth = r.Intn(sp.nfuncs)
			if r.Intn(8) == 0 {
				s.depth = -2
			}
		}
		for i := 0; i < callsPer; i++ {
			fn := r.Intn(sp.nfuncs)
			d := fn + r.Intn(sp.nfuncs-fn)
			if r.Intn(5) == 0 {
				d = -1
			}
			s.calls = append(s.calls, progCall{fn, d, r.Intn(nFailKinds + 1)})
		}
		scripts[g] = s
	}
	// concurrent run first (see worldCase), solo reference afterwards on its own program instance
	t0 := time.Now()
	got := make([]listResult, nGoroutines)
	shared := mkShared()
	var ready, done sync.WaitGroup
	start := make(chan struct{})
	for g := range scripts {
		ready.Add(1)
		done.Add(1)
		go func(g int) {
			defer done.Done()
			ready.Done()
			<-start
			runScript(sharedProg, scripts[g], shared, fmt.Sprintf("g%d", g), t0, &got[g])
		}(g)
	}
	ready.Wait()
	close(start)
	done.Wait()

	want := make([]listResult, nGoroutines)
	soloShared := mkShared()
	for g := range scripts {
		runScript(soloProg, scripts[g], soloShared, fmt.Sprintf("solo%d", g), t0, &want[g])
	}

	c.Count("program_cases_"+variant, 1)
	for g := range scripts {
		c.Count("transcripts_compared", 1)
		c.Count("program_inits_concurrent", 1)
		if scripts[g].depth != -1 {
			c.Count("program_inits_meant_to_fail", 1)
		}
		c.Count("program_calls_concurrent", len(scripts[g].calls))
		c.Eval(1 + len(scripts[g].calls))
		c.Count("shared_ops", 1+len(scripts[g].calls))
		ok := len(got[g].out) == len(want[g].out)
		for i := 0; ok && i < len(want[g].out); i++ {
			c.Count("transcript_entries_compared", 1)
			w, o := want[g].out[i], got[g].out[i]
			if strings.Contains(w, "evalerror: ") {
				c.Count("program_backtraces_compared", 1)
				if i == 0 {
					c.Count("program_inits_failed", 1)
				}
			}
			if w == o {
				continue
			}
			ok = false
			what := "Init"
			if i > 0 {
				what = fmt.Sprintf("call f%d(%d, %d, 7)", scripts[g].calls[i-1].fn, scripts[g].calls[i-1].depth, scripts[g].calls[i-1].kind)
			}
			key := "C05 program-transcript-differs " + variant
			if strings.HasPrefix(o, panicMark) {
				key = "C05 program-panic-when-shared " + variant
			}
			c.Violation(key, fmt.Sprintf("goroutine %d, %s on the shared %s program: result/backtrace differs from the solo run", g, what, variant),
				map[string]any{"program": sp.src, "fail_depth": scripts[g].depth, "fail_kind": scripts[g].kind, "step": what, "solo": driver.Truncate(w, 4000), "shared": driver.Truncate(o, 4000)})
		}
		if ok && len(want[g].out) > 0 && !strings.HasPrefix(want[g].out[0], panicMark) {
			c.Distinct(fmt.Sprintf("prog|%s|%d|%d|%d", variant, pi, scripts[g].depth, scripts[g].kind))
		}
		if len(want[g].out) > 0 && strings.HasPrefix(want[g].out[0], panicMark) {
			c.Violation("C05 program-panic-solo "+variant, "Init panics even when run alone: "+driver.Truncate(want[g].out[0], 300), map[string]any{"program": sp.src})
		}
	}
	touched, over, nover := overlap(got, 1+sp.nfuncs)
	for i := range touched {
		if touched[i] {
			c.Count("shared_objects", 1)
			c.Count("shared_program_objects", 1)
			if over[i] {
				c.Count("shared_objects_overlapped", 1)
				c.Count("shared_program_objects_overlapped", 1)
			}
		}
	}
	c.Count("op_windows_overlapping_another_goroutine", nover)
	nrep := rl.check(c, map[string]any{"arm": "program", "variant": variant, "program": sp.src})
	if c.WantSample() {
		g := 1
		c.Sample(map[string]any{"arm": "program", "variant": variant, "program_id": pi, "functions": sp.nfuncs, "goroutines": nGoroutines,
			"fail_depth": scripts[g].depth, "fail_kind": scripts[g].kind, "init_result_goroutine_1": driver.Truncate(got[g].out[0], 600), "race_reports_this_case": nrep})
	}
}
