package c05

import (
	"fmt"
	"math/big"
	"math/rand"
	"strings"

	"go.starlark.net/starlark"

	"verif/internal/sl"
)

// A lit is a literal usable both in Starlark source and through the Go API.
type lit struct {
	src string
	val starlark.Value
}

// A worldSpec is the deterministic description of one shared module: its source text and
// what the operation generator needs to know about it (names by class, literal pools).
type worldSpec struct {
	id    int
	src   string
	names []string       // all shared objects (module globals), fixed order
	index map[string]int // name -> position in names
	class map[string]string
	focus map[string]bool // nil: all; otherwise the objects the current case aims at

	lists, dicts, sets, tuples, structs, funcs, bounds, scalars, iterables, indexables []string

	elems   []lit               // literals likely (and unlikely) to be elements / keys of the containers
	calls   map[string][]string // callable name -> argument lists (source)
	gocalls map[string][]goArgs
}

type goArgs struct {
	desc   string
	args   starlark.Tuple
	kwargs []starlark.Tuple
}

// A world is one executed (and therefore frozen) instance of a worldSpec.
type world struct {
	spec    *worldSpec
	globals starlark.StringDict // the frozen module globals
	env     starlark.StringDict // predeclared environment of operations: globals + json + struct
	vals    []starlark.Value    // by spec.names index
	// preSeqs (round-5 extension): for every list value, a host-built list with the same elements whose
	// Go push iterator was obtained BEFORE the list was frozen; the iterator is then used by all goroutines
	preSeqs map[int]func(func(starlark.Value) bool)
}

var shortWords = []string{"a", "k", "zz", "key", "spam", "x1", "eleven_char"}
var longWords = []string{"a_key_longer_than_12_bytes", "another_rather_long_string_value", "twelve_bytes", "thirteen_bytes", "the quick brown fox jumps over the lazy dog", "långsträng_med_åäö_och_mer"}

func quote(s string) string { return fmt.Sprintf("%q", s) }

type wgen struct {
	r   *rand.Rand
	b   strings.Builder
	sp  *worldSpec
	big *big.Int
}

func (g *wgen) def(class, name, expr string) {
	fmt.Fprintf(&g.b, "%s = %s\n", name, expr)
	g.add(class, name)
}

func (g *wgen) add(class, name string) {
	sp := g.sp
	sp.index[name] = len(sp.names)
	sp.names = append(sp.names, name)
	sp.class[name] = class
	switch class {
	case "list":
		sp.lists = append(sp.lists, name)
	case "dict":
		sp.dicts = append(sp.dicts, name)
	case "set":
		sp.sets = append(sp.sets, name)
	case "tuple":
		sp.tuples = append(sp.tuples, name)
	case "struct":
		sp.structs = append(sp.structs, name)
	case "func":
		sp.funcs = append(sp.funcs, name)
	case "bound":
		sp.bounds = append(sp.bounds, name)
	default:
		sp.scalars = append(sp.scalars, name)
	}
	switch class {
	case "list", "dict", "set", "tuple":
		sp.iterables = append(sp.iterables, name)
	}
	switch class {
	case "list", "tuple":
		sp.indexables = append(sp.indexables, name)
	}
}

func (g *wgen) word(long bool) string {
	if long {
		return longWords[g.r.Intn(len(longWords))] + fmt.Sprint(g.r.Intn(4))
	}
	return shortWords[g.r.Intn(len(shortWords))] + fmt.Sprint(g.r.Intn(4))
}

func (g *wgen) ints(n int) []string {
	out := make([]string, n)
	for i := range out {
		out[i] = fmt.Sprint(g.r.Intn(24) - 4)
	}
	return out
}

func (g *wgen) strs(n int) []string {
	out := make([]string, n)
	for i := range out {
		out[i] = quote(g.word(g.r.Intn(2) == 0))
	}
	return out
}

func brack(open string, items []string, close string) string {
	return open + strings.Join(items, ", ") + close
}

// newWorldSpec generates the module for world number id. Names and classes are fixed by the
// template; lengths, contents, key sets, nesting shape and table sizes are random.
func newWorldSpec(id int, r *rand.Rand) *worldSpec {
	sp := &worldSpec{id: id, index: map[string]int{}, class: map[string]string{}, calls: map[string][]string{}, gocalls: map[string][]goArgs{}}
	g := &wgen{r: r, sp: sp}
	g.big = new(big.Int).Lsh(big.NewInt(int64(3+r.Intn(1000))), uint(70+r.Intn(60)))
	g.big.Add(g.big, big.NewInt(int64(r.Intn(1000))))

	fmt.Fprintf(&g.b, "# shared world %d\n", id)
	g.def("scalar", "BIG", g.big.String())
	g.def("scalar", "NEG", "-(BIG * 3 + 1)")
	g.def("scalar", "STR", quote(g.word(false)+" "+g.word(false)))
	g.def("scalar", "LSTR", quote(g.word(true)+"/"+g.word(true)))
	g.def("scalar", "BYT", "b"+quote(g.word(true)))
	g.def("scalar", "FLT", fmt.Sprintf("%d.%d", r.Intn(100), r.Intn(1000)))
	g.def("scalar", "RNG", fmt.Sprintf("range(%d, %d, %d)", r.Intn(5), 10+r.Intn(30), 1+r.Intn(3)))

	// lists
	g.def("list", "L_INT", brack("[", g.ints(1+r.Intn(12)), "]"))
	g.def("list", "L_STR", brack("[", g.strs(1+r.Intn(10)), "]"))
	g.def("list", "L_MIX", brack("[", []string{fmt.Sprint(r.Intn(9)), quote(g.word(false)), "2.5", "None", "True", "(1, 2)", "BIG", quote(g.word(true))}[:3+r.Intn(6)], "]"))
	g.def("list", "L_EMPTY", "[]")
	g.def("list", "L_BIG", fmt.Sprintf("[i * %d %% 17 for i in range(%d)]", 1+r.Intn(9), 17+r.Intn(12)))
	nest := []string{"L_INT", "L_STR", "[L_INT, [L_MIX]]", "L_INT", "[]", "(L_EMPTY, L_BIG)"}
	r.Shuffle(len(nest), func(i, j int) { nest[i], nest[j] = nest[j], nest[i] })
	g.def("list", "L_NEST", brack("[", nest[:3+r.Intn(4)], "]"))

	// dicts: string keys shorter and longer than 12 bytes (two different hash functions), int keys,
	// mixed keys with shared containers as values, a table big enough for several buckets
	var kv []string
	var strKeys []string
	seen := map[string]bool{}
	for i, n := 0, 2+r.Intn(7); i < n; i++ {
		k := g.word(i%2 == 1)
		if seen[k] {
			continue
		}
		seen[k] = true
		strKeys = append(strKeys, k)
		kv = append(kv, fmt.Sprintf("%s: %d", quote(k), r.Intn(100)))
	}
	g.def("dict", "D_STR", brack("{", kv, "}"))
	kv = nil
	seenI := map[int]bool{}
	for i, n := 0, 1+r.Intn(8); i < n; i++ {
		k := r.Intn(24) - 4
		if seenI[k] {
			continue
		}
		seenI[k] = true
		kv = append(kv, fmt.Sprintf("%d: %s", k, quote(g.word(r.Intn(2) == 0))))
	}
	g.def("dict", "D_INT", brack("{", kv, "}"))
	mix := []string{"1: L_INT", `"s": D_STR`, `(1, "t"): L_NEST`, `BIG: "big"`, `2.5: D_INT`, `"a_key_longer_than_12_bytes0": (L_MIX, D_STR)`, "None: None", "True: L_EMPTY"}
	r.Shuffle(len(mix), func(i, j int) { mix[i], mix[j] = mix[j], mix[i] })
	mix = mix[:3+r.Intn(5)]
	// True == 1 as dict keys? No: Bool and Int are distinct types and unequal in Starlark.
	g.def("dict", "D_MIX", brack("{", mix, "}"))
	g.def("dict", "D_EMPTY", "{}")
	g.def("dict", "D_BIG", fmt.Sprintf(`{("k%%d" %% i if i %% 3 else "a_long_key_number_%%d_padding" %% i): i * i for i in range(%d)}`, 12+r.Intn(24)))

	// sets
	g.def("set", "S_INT", "set("+brack("[", g.ints(1+r.Intn(10)), "]")+")")
	g.def("set", "S_STR", "set("+brack("[", g.strs(1+r.Intn(8)), "]")+")")
	g.def("set", "S_TUP", `set([(1, 2), ("a", BIG), (), (STR, LSTR, (FLT,))])`)
	g.def("set", "S_EMPTY", "set()")
	g.def("set", "S_BIG", fmt.Sprintf(`set([i * %d %% 31 for i in range(%d)] + ["s%%d" %% i for i in range(%d)])`, 1+r.Intn(9), 10+r.Intn(20), 3+r.Intn(10)))

	// tuples
	g.def("tuple", "T_FLAT", brack("(", append(g.ints(1+r.Intn(4)), quote(g.word(true)), "2.5"), ")"))
	g.def("tuple", "T_NEST", "(L_INT, D_STR, S_INT, (L_NEST, T_FLAT), D_MIX)")
	g.def("tuple", "T_EMPTY", "()")
	g.def("tuple", "T_HASH", brack("(", []string{"T_FLAT", "BIG", quote(g.word(true)), "(T_FLAT, (NEG,))", "FLT"}[:2+r.Intn(4)], ")"))

	// functions, closures with captured state, mutable-looking defaults
	g.b.WriteString(`
def f_plain(x, y = 3):
    return x * y + len(L_INT)

def f_defaults(x, l = [1, 2, 3], d = {"a": 1, "a_long_default_key_": 2}, s = set([1, 2])):
    return (x, l, d, s, len(l) + len(d) + len(s))

def f_mut_default(x, acc = []):
    acc.append(x)
    return acc

def mk_adder(k, box = [10, 20]):
    captured = [k, k + 1]
    cd = {"k": k, "a_very_long_captured_key": captured}
    def add(x):
        return x + k + captured[0] + len(cd) + box[0]
    return add

def mk_counter():
    state = [0]
    seen = {}
    def inc():
        state[0] += 1
        return state[0]
    def peek():
        return (state[0], [k for k in seen], state)
    def note(k):
        seen[k] = True
        return len(seen)
    return inc, peek, note

def f_args(*args, **kwargs):
    return (args, sorted(kwargs.items()))

def f_kw(a, b = L_INT, *, c, d = D_STR):
    return [a, b, c, d]

def f_iter(seq):
    n = 0
    for e in seq:
        n += 1
        if n > 1000:
            break
    return n

def f_rec(n):
    return 1 if n <= 0 else n * f_rec(n - 1)

def f_walk(v, depth = 0):
    t = type(v)
    if depth > 6:
        return 1
    if t == "list" or t == "tuple" or t == "set":
        return 1 + sum_([f_walk(e, depth + 1) for e in v])
    if t == "dict":
        return 1 + sum_([f_walk(k, depth + 1) + f_walk(e, depth + 1) for k, e in v.items()])
    return 1

def sum_(xs):
    s = 0
    for x in xs:
        s += x
    return s

def f_globals():
    return (L_INT, D_STR, S_INT, ST_H, BIG)

`)
	for _, n := range []string{"f_plain", "f_defaults", "f_mut_default", "f_args", "f_kw", "f_iter", "f_rec", "f_walk", "f_globals"} {
		g.add("func", n)
	}
	g.def("func", "ADD", fmt.Sprintf("mk_adder(%d)", 1+r.Intn(9)))
	g.b.WriteString("INC, PEEK, NOTE = mk_counter()\n")
	g.add("func", "INC")
	g.add("func", "PEEK")
	g.add("func", "NOTE")
	g.def("func", "LAM", "lambda x, y = L_INT: [x] + y")
	g.def("func", "LAM2", "lambda: (L_NEST, D_MIX, ADD)")
	g.def("func", "LAMK", "lambda e: (type(e), str(e))")

	// structs
	g.def("struct", "ST", "struct(a = 1, b = "+quote(g.word(true))+", l = L_INT, d = D_STR, s = S_INT, t = T_FLAT)")
	g.def("struct", "ST_H", "struct(x = "+fmt.Sprint(r.Intn(50))+", y = "+quote(g.word(true))+", z = (1, 2), big = BIG, t = T_HASH)")
	g.def("struct", "ST_H2", "struct(p = ST_H, q = (1, "+quote(g.word(true))+"), r = struct(deep = T_HASH))")
	g.def("struct", "ST_NEST", "struct(inner = ST, h = ST_H, f = f_plain, add = ADD, m = L_INT.index)")

	// bound methods (each holds a reference to its shared receiver)
	g.def("bound", "BM_INDEX", "L_INT.index")
	g.def("bound", "BM_GET", "D_STR.get")
	g.def("bound", "BM_ITEMS", "D_STR.items")
	g.def("bound", "BM_KEYS", "D_MIX.keys")
	g.def("bound", "BM_VALUES", "D_INT.values")
	g.def("bound", "BM_UNION", "S_INT.union")
	g.def("bound", "BM_JOIN", "STR.join")
	g.def("bound", "BM_APPEND", "L_INT.append")
	g.def("bound", "BM_UPDATE", "D_STR.update")
	g.def("bound", "BM_ADD", "S_INT.add")
	// bound methods that hold the only reference to their receiver
	g.def("bound", "BM_SOLE_APPEND", brack("[", g.ints(1+r.Intn(4)), "]")+".append")
	g.def("list", "FUNCS", "[f_plain, ADD, LAMK, BM_GET, len, str]")
	sp.src = g.b.String()

	// literal pool for elements / keys
	addLit := func(src string, v starlark.Value) { sp.elems = append(sp.elems, lit{src, v}) }
	for i := -4; i < 20; i += 1 + r.Intn(3) {
		addLit(fmt.Sprint(i), starlark.MakeInt(i))
	}
	for i := 0; i < 6; i++ {
		w := g.word(i%2 == 0)
		addLit(quote(w), starlark.String(w))
	}
	for _, k := range strKeys { // real keys of D_STR
		addLit(quote(k), starlark.String(k))
	}
	addLit("(1, 2)", starlark.Tuple{starlark.MakeInt(1), starlark.MakeInt(2)})
	addLit(`(1, "t")`, starlark.Tuple{starlark.MakeInt(1), starlark.String("t")})
	addLit(g.big.String(), starlark.MakeBigInt(g.big))
	addLit("None", starlark.None)
	addLit("2.5", starlark.Float(2.5))
	addLit(`"k4"`, starlark.String("k4"))
	addLit(`"a_long_key_number_6_padding"`, starlark.String("a_long_key_number_6_padding"))
	addLit(`"s2"`, starlark.String("s2"))
	addLit("[1]", nil) // unhashable key (Starlark source only)

	// calls
	i := func(n int) starlark.Value { return starlark.MakeInt(n) }
	s := func(x string) starlark.Value { return starlark.String(x) }
	kw := func(k string, v starlark.Value) starlark.Tuple { return starlark.Tuple{s(k), v} }
	call := func(name, src, desc string, args starlark.Tuple, kwargs ...starlark.Tuple) {
		sp.calls[name] = append(sp.calls[name], src)
		sp.gocalls[name] = append(sp.gocalls[name], goArgs{desc, args, kwargs})
	}
	a, b := 1+r.Intn(9), 1+r.Intn(9)
	call("f_plain", fmt.Sprintf("(%d)", a), "1pos", starlark.Tuple{i(a)})
	call("f_plain", fmt.Sprintf("(%d, y = %d)", a, b), "1pos1kw", starlark.Tuple{i(a)}, kw("y", i(b)))
	call("f_plain", "()", "missing", nil)
	call("f_defaults", fmt.Sprintf("(%d)", a), "defaults", starlark.Tuple{i(a)})
	call("f_defaults", "(L_INT, l = L_NEST)", "1pos", starlark.Tuple{i(b)})
	call("f_mut_default", fmt.Sprintf("(%d)", a), "mutates-default", starlark.Tuple{i(a)})
	call("f_args", fmt.Sprintf("(%d, %d, k = 3)", a, b), "varargs", starlark.Tuple{i(a), i(b)}, kw("k", i(3)))
	call("f_args", "(*L_INT, **D_STR)", "empty", nil)
	call("f_args", "(*T_NEST)", "kwonly", nil, kw("zz", i(1)), kw("aa", i(2)))
	call("f_kw", "(1, c = 2)", "kw", starlark.Tuple{i(1)}, kw("c", i(2)))
	call("f_kw", "(1, 2, 3)", "toomany", starlark.Tuple{i(1), i(2), i(3)})
	call("f_kw", "(1, c = L_MIX, d = T_NEST)", "kw2", starlark.Tuple{i(1)}, kw("c", i(2)), kw("d", s("d")))
	call("f_iter", "(L_NEST)", "tuple", starlark.Tuple{starlark.Tuple{i(1), i(2)}})
	call("f_iter", "(D_BIG)", "int", starlark.Tuple{i(3)})
	call("f_iter", "(S_BIG)", "str", starlark.Tuple{s("abc")})
	call("f_rec", fmt.Sprintf("(%d)", 3+r.Intn(20)), "rec", starlark.Tuple{i(3 + r.Intn(20))})
	call("f_walk", "(T_NEST)", "scalar", starlark.Tuple{i(1)})
	call("f_walk", "(D_MIX)", "tuple", starlark.Tuple{starlark.Tuple{i(1), starlark.Tuple{i(2)}}})
	call("f_walk", "(ST_NEST)", "str", starlark.Tuple{s("x")})
	call("f_globals", "()", "noargs", nil)
	call("ADD", fmt.Sprintf("(%d)", a), "int", starlark.Tuple{i(a)})
	call("ADD", "(BIG)", "str", starlark.Tuple{s("x")})
	call("INC", "()", "mutates-captured", nil)
	call("PEEK", "()", "noargs", nil)
	call("NOTE", "(1)", "mutates-captured-dict", starlark.Tuple{i(1)})
	call("LAM", "(1)", "int", starlark.Tuple{i(1)})
	call("LAM", "(1, y = L_STR)", "kw", starlark.Tuple{i(1)}, kw("y", starlark.Tuple{}))
	call("LAM2", "()", "noargs", nil)
	call("LAMK", "(L_MIX)", "int", starlark.Tuple{i(a)})
	call("BM_INDEX", fmt.Sprintf("(%d)", r.Intn(20)-4), "int", starlark.Tuple{i(r.Intn(20) - 4)})
	call("BM_GET", "("+quote(strKeys[0])+")", "present", starlark.Tuple{s(strKeys[0])})
	call("BM_GET", `("absent", 5)`, "absent", starlark.Tuple{s("absent"), i(5)})
	call("BM_GET", "([])", "absent1", starlark.Tuple{s("absent_but_rather_long")})
	call("BM_ITEMS", "()", "noargs", nil)
	call("BM_KEYS", "()", "noargs", nil)
	call("BM_VALUES", "()", "noargs", nil)
	call("BM_UNION", "([99, 100])", "tuple", starlark.Tuple{starlark.Tuple{i(99)}})
	call("BM_UNION", "(S_STR)", "empty", starlark.Tuple{starlark.Tuple{}})
	call("BM_JOIN", "(L_STR)", "tuple", starlark.Tuple{starlark.Tuple{s("p"), s("q")}})
	call("BM_APPEND", "(1)", "mutator", starlark.Tuple{i(1)})
	call("BM_UPDATE", "(zz = 1)", "mutator", nil, kw("zz", i(1)))
	call("BM_ADD", "(12345)", "mutator", starlark.Tuple{i(12345)})
	call("BM_SOLE_APPEND", "(1)", "mutator", starlark.Tuple{i(1)})
	return sp
}

// build executes the module on a fresh thread; afterwards every value reachable from its
// globals is frozen (ExecFileOptions freezes the globals).
func (sp *worldSpec) build() (*world, error) {
	th := &starlark.Thread{Name: "world"}
	pre := sl.StdModules()
	g, err := starlark.ExecFileOptions(sl.AllOptions(), th, fmt.Sprintf("world%d.star", sp.id), sp.src, pre)
	if err != nil {
		return nil, fmt.Errorf("world %d does not execute: %s", sp.id, sl.ErrText(err))
	}
	w := &world{spec: sp, globals: g, env: starlark.StringDict{}}
	for k, v := range pre {
		w.env[k] = v
	}
	for k, v := range g {
		w.env[k] = v
	}
	for _, n := range sp.names {
		v, ok := g[n]
		if !ok {
			return nil, fmt.Errorf("world %d lacks global %s", sp.id, n)
		}
		w.vals = append(w.vals, v)
		if l, ok := v.(*starlark.List); ok {
			elems := make([]starlark.Value, l.Len())
			for i := range elems {
				elems[i] = l.Index(i)
			}
			hl := starlark.NewList(elems)
			seq := hl.Elements()
			hl.Freeze()
			if w.preSeqs == nil {
				w.preSeqs = map[int]func(func(starlark.Value) bool){}
			}
			w.preSeqs[len(w.vals)-1] = seq
		}
	}
	return w, nil
}
