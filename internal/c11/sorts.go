package c11

import (
	"fmt"
	"math/rand"
	"sort"
	"strings"

	"go.starlark.net/starlark"

	"verif/internal/driver"
	"verif/internal/sl"
)

var sortClasses = []string{"num", "num", "num", "string", "string", "bytes", "bool", "tuple", "tuple", "list"}

// genSortInput draws a sequence of mutually ordered values of one class.
func (r *runner) genSortInput(rng *rand.Rand, byKind map[kind][]*ent) (class string, seq []vm) {
	class = sortClasses[rng.Intn(len(sortClasses))]
	n := rng.Intn(31)
	if rng.Intn(8) == 0 {
		n = rng.Intn(3)
	}
	fromPool := func(k kind) vm {
		l := byKind[k]
		e := l[rng.Intn(len(l))]
		return vm{e.v, e.m, e.name}
	}
	gen := func() vm {
		switch class {
		case "num":
			switch rng.Intn(10) {
			case 0:
				return randInt(rng)
			case 1:
				return randFloat(rng)
			}
			return fromPool(kNum)
		case "string":
			if rng.Intn(3) == 0 {
				return randStr(rng)
			}
			return fromPool(kStr)
		case "bytes":
			if rng.Intn(3) == 0 {
				x := randStr(rng)
				return vBytes(x.m.s, "random")
			}
			return fromPool(kBytes)
		case "bool":
			return fromPool(kBool)
		case "tuple":
			return randSeq(rng, 2, false)
		default:
			return randSeq(rng, 2, true)
		}
	}
	// a palette smaller than the sequence produces ties
	psize := 1 + rng.Intn(max(n, 1))
	if rng.Intn(2) == 0 {
		psize = 1 + rng.Intn(6)
	}
	palette := make([]vm, psize)
	for i := range palette {
		palette[i] = gen()
	}
	seq = make([]vm, n)
	for i := range seq {
		seq[i] = palette[rng.Intn(psize)]
	}
	return
}

// refStableOrder returns the indices of keys in stable sorted order (descending if reverse, ties in input order).
func refStableOrder(keys []*model, reverse bool) ([]int, bool) {
	idx := make([]int, len(keys))
	for i := range idx {
		idx[i] = i
	}
	okAll := true
	sort.SliceStable(idx, func(i, j int) bool { // std stable sort; trusted
		c, ok := refCmp(keys[idx[i]], keys[idx[j]])
		if !ok {
			okAll = false
		}
		if reverse {
			return c > 0
		}
		return c < 0
	})
	return idx, okAll
}

func (r *runner) sorts(n int) {
	c := r.c
	byKind := map[kind][]*ent{}
	for _, e := range r.p.ents {
		byKind[e.m.k] = append(byKind[e.m.k], e)
	}
	for k := 0; k < n; k++ {
		if !c.Take() {
			continue
		}
		rng := c.Rand()
		class, seq := r.genSortInput(rng, byKind)
		c.Note("sort case class=%s len=%d", class, len(seq))
		if p := sl.Safe(func() { r.sortCase(class, seq) }); p != nil {
			r.violate("C11 panic in sorted/min/max "+class, fmt.Sprintf("panic %v, input %s", p.Value, seqStr(seq)), map[string]any{"input": seqStr(seq), "stack": p.Stack})
		}
	}
}

func seqStr(seq []vm) string {
	var b strings.Builder
	b.WriteByte('[')
	for i, x := range seq {
		if i > 0 {
			b.WriteString(", ")
		}
		b.WriteString(safeStr(x.v))
	}
	b.WriteByte(']')
	return driver.Truncate(b.String(), 1200)
}

func (r *runner) sortCase(class string, seq []vm) {
	c := r.c
	n := len(seq)
	models := make([]*model, n)
	plain := make([]starlark.Value, n)
	decorated := make([]starlark.Value, n)
	deep := false
	for i, x := range seq {
		models[i] = x.m
		plain[i] = x.v
		decorated[i] = starlark.Tuple{x.v, starlark.MakeInt(i)}
		if x.m.nest >= starlark.CompareLimit-1 {
			deep = true
		}
	}
	if deep {
		return // generator never makes these; guard so that "must succeed" below is justified
	}
	ties, observable := false, false
	for i := 0; i < n && !observable; i++ {
		for j := i + 1; j < n; j++ {
			if refEq(models[i], models[j]) {
				ties = true
				if ident(plain[i]) != ident(plain[j]) {
					observable = true
					break
				}
			}
		}
	}
	if n >= 2 {
		var b strings.Builder
		b.WriteString(class)
		for _, v := range plain {
			b.WriteString(ident(v))
			b.WriteByte(';')
		}
		c.Distinct(b.String())
		c.Cover("sort_classes", class)
		c.Cover("sort_lengths", fmt.Sprint(n))
	}
	if ties {
		c.Count("sort_inputs_with_ties", 1)
	}
	keyFn := r.env.fns["key0"]
	for variant := 0; variant < 4; variant++ {
		withKey, reverse := variant&1 != 0, variant&2 != 0
		in := plain
		if withKey {
			in = decorated
		}
		var kwargs []starlark.Tuple
		if withKey {
			kwargs = append(kwargs, starlark.Tuple{starlark.String("key"), keyFn})
		}
		if reverse {
			kwargs = append(kwargs, starlark.Tuple{starlark.String("reverse"), starlark.True})
		}
		vname := fmt.Sprintf("sorted(xs%s%s)", map[bool]string{true: ", key=lambda e: e[0]"}[withKey], map[bool]string{true: ", reverse=True"}[reverse])
		inList := starlark.NewList(append([]starlark.Value(nil), in...))
		out, err := r.env.callKw("sorted", starlark.Tuple{inList}, kwargs)
		c.Eval(1)
		c.Count("sort_calls", 1)
		c.Cover("sort_variants", vname)
		if ties && (withKey || observable) {
			c.Count("sort_stability_observable", 1)
		}
		detail := map[string]any{"call": vname, "class": class, "input": seqStr(seq)}
		if err != nil {
			r.violate("C11 sorted failed on ordered elements "+class, fmt.Sprintf("%s failed: %v; xs=%s", vname, err, seqStr(seq)), detail)
			continue
		}
		ol, ok := out.(*starlark.List)
		if !ok || ol.Len() != n {
			r.violate("C11 sorted is not a permutation "+class, fmt.Sprintf("%s returned %s for xs=%s", vname, driver.Truncate(safeStr(out), 600), seqStr(seq)), detail)
			continue
		}
		want, _ := refStableOrder(models, reverse)
		// classify
		inIdents := make([]string, n)
		byIdent := map[string][]int{}
		for i, v := range in {
			inIdents[i] = ident(v)
			byIdent[inIdents[i]] = append(byIdent[inIdents[i]], i)
		}
		exact := true
		outIdx := make([]int, n) // an input index for every output element (-1: not an input element)
		counts := map[string]int{}
		for k := 0; k < n; k++ {
			id := ident(ol.Index(k))
			if id != inIdents[want[k]] {
				exact = false
			}
			if l := byIdent[id]; len(l) > counts[id] {
				outIdx[k] = l[counts[id]]
			} else {
				outIdx[k] = -1
			}
			counts[id]++
		}
		detail["output"] = driver.Truncate(safeStr(out), 1200)
		if n >= 3 && n <= 8 && ties && r.wantSample("sort") {
			c.Sample(map[string]any{"phase": "sort", "call": vname, "xs": seqStr(seq), "result": driver.Truncate(safeStr(out), 400)})
		}
		if exact {
			continue
		}
		perm := true
		for _, i := range outIdx {
			if i < 0 {
				perm = false
			}
		}
		if !perm {
			r.violate("C11 sorted is not a permutation "+class, fmt.Sprintf("%s = %s is not a permutation of xs=%s", vname, detail["output"], seqStr(seq)), detail)
			continue
		}
		ordered := true
		for k := 0; k+1 < n; k++ {
			cmp, _ := refCmp(models[outIdx[k]], models[outIdx[k+1]])
			if (!reverse && cmp > 0) || (reverse && cmp < 0) {
				ordered = false
			}
		}
		if !ordered {
			r.violate("C11 sorted output not in order "+class, fmt.Sprintf("%s = %s is not ordered; xs=%s", vname, detail["output"], seqStr(seq)), detail)
			continue
		}
		r.violate("C11 sorted is not stable "+class, fmt.Sprintf("%s = %s reorders equal keys; xs=%s", vname, detail["output"], seqStr(seq)), detail)
	}

	// the output of sorted must also be ordered according to the implementation's own <=
	if n >= 2 {
		if out, err := r.env.callKw("sorted", starlark.Tuple{starlark.NewList(append([]starlark.Value(nil), plain...))}, nil); err == nil {
			if ol, ok := out.(*starlark.List); ok {
				for k := 0; k+1 < ol.Len(); k++ {
					le := triOf(starlark.Compare(opToks[oLE], ol.Index(k), ol.Index(k+1)))
					if le == tF {
						r.violate("C11 sorted output not ordered by <= "+class,
							fmt.Sprintf("sorted(xs)[%d] <= sorted(xs)[%d] is False: %s, %s; xs=%s", k, k+1, safeStr(ol.Index(k)), safeStr(ol.Index(k+1)), seqStr(seq)),
							map[string]any{"input": seqStr(seq), "output": driver.Truncate(safeStr(out), 1200)})
						break
					}
				}
				c.Count("sorted_le_chain_checked", 1)
			}
		}
	}

	// --- min / max
	if n == 0 {
		return
	}
	for variant := 0; variant < 6; variant++ {
		fn := []string{"min", "max"}[variant&1]
		form := variant >> 1 // 0: f(list), 1: f(*xs), 2: f(decorated, key=)
		if form == 1 && n < 2 {
			continue
		}
		var args starlark.Tuple
		var kwargs []starlark.Tuple
		in := plain
		vname := fn + "(xs)"
		switch form {
		case 0:
			args = starlark.Tuple{starlark.NewList(append([]starlark.Value(nil), plain...))}
		case 1:
			args = append(starlark.Tuple(nil), plain...)
			vname = fn + "(*xs)"
		case 2:
			in = decorated
			args = starlark.Tuple{starlark.NewList(append([]starlark.Value(nil), decorated...))}
			kwargs = []starlark.Tuple{{starlark.String("key"), keyFn}}
			vname = fn + "(xs, key=lambda e: e[0])"
		}
		got, err := r.env.callKw(fn, args, kwargs)
		c.Eval(1)
		c.Count("minmax_calls", 1)
		c.Cover("minmax_variants", vname)
		detail := map[string]any{"call": vname, "class": class, "input": seqStr(seq)}
		if err != nil {
			r.violate("C11 min/max failed on ordered elements "+class, fmt.Sprintf("%s failed: %v; xs=%s", vname, err, seqStr(seq)), detail)
			continue
		}
		detail["result"] = safeStr(got)
		gi := -1
		gid := ident(got)
		for i, v := range in {
			if ident(v) == gid {
				gi = i
				break
			}
		}
		if gi < 0 {
			r.violate("C11 min/max result is not an element "+class, fmt.Sprintf("%s = %s is not an element of xs=%s", vname, safeStr(got), seqStr(seq)), detail)
			continue
		}
		first := -1 // first extremal element by the expected order
		bad := false
		for i := range models {
			cmp, _ := refCmp(models[i], models[gi])
			if (fn == "min" && cmp < 0) || (fn == "max" && cmp > 0) {
				bad = true
			}
			if first < 0 && cmp == 0 {
				first = i
			}
			// and by the implementation's own order
			op := oLT
			if fn == "max" {
				op = oGT
			}
			if triOf(starlark.Compare(opToks[op], plain[i], plain[gi])) == tT {
				bad = true
			}
		}
		if bad {
			r.violate("C11 min/max disagrees with the order "+class, fmt.Sprintf("%s = %s but another element is more extreme; xs=%s", vname, safeStr(got), seqStr(seq)), detail)
			continue
		}
		// ties: the spec does not say which of several extremal elements is returned; record only
		if first == gi {
			c.Count("minmax_tie_first_returned", 1)
		} else {
			c.Count("minmax_tie_later_returned", 1)
		}
	}
}
