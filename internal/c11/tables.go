package c11

import (
	"fmt"

	"go.starlark.net/starlark"

	"verif/internal/sl"
)

// tables inserts all hashable pool values, in a random order, into one dict and one set and then
// looks every value up: y must be found exactly when an equal value was inserted, and must then
// map to the first inserted value of its equality class.
func (r *runner) tables(n int) {
	c := r.c
	var hashable []*ent
	for _, e := range r.p.ents {
		if e.m.hashable && e.m.nest < starlark.CompareLimit {
			hashable = append(hashable, e)
		}
	}
	for k := 0; k < n; k++ {
		if !c.Take() {
			continue
		}
		rng := c.Rand()
		perm := rng.Perm(len(hashable))
		// insert a random subset (so that some lookups must miss), look up everything
		nin := len(perm) / 2
		if k%3 == 0 {
			nin = len(perm)
		}
		ins := make([]*ent, nin)
		vals := make([]starlark.Value, nin)
		for i := 0; i < nin; i++ {
			ins[i] = hashable[perm[i]]
			vals[i] = ins[i].v
		}
		c.Note("table case %d: %d of %d hashable pool values inserted", k, nin, len(hashable))
		if p := sl.Safe(func() { r.tableCase(ins, vals, hashable) }); p != nil {
			r.violate("C11 panic in dict/set table", fmt.Sprintf("panic %v", p.Value), map[string]any{"stack": p.Stack})
		}
		c.Eval(1)
	}
}

func (r *runner) tableCase(ins []*ent, vals []starlark.Value, all []*ent) {
	c := r.c
	d, err := r.env.call("build", starlark.NewList(append([]starlark.Value(nil), vals...)))
	if err != nil {
		r.violate("C11 dict build failed", fmt.Sprintf("inserting %d hashable values failed: %v", len(vals), err), nil)
		return
	}
	s, err := r.env.call("mkset", starlark.NewList(append([]starlark.Value(nil), vals...)))
	if err != nil {
		r.violate("C11 set build failed", fmt.Sprintf("set() of %d hashable values failed: %v", len(vals), err), nil)
		return
	}
	// expected: first inserted index of each equality class
	classes := 0
	for i := range ins {
		first := true
		for j := 0; j < i; j++ {
			if refEq(ins[i].m, ins[j].m) {
				first = false
				break
			}
		}
		if first {
			classes++
		}
	}
	if dl := d.(*starlark.Dict).Len(); dl != classes {
		r.violate("C11 dict size differs from number of equality classes",
			fmt.Sprintf("dict built from %d values has %d keys, but they form %d equality classes", len(ins), dl, classes), map[string]any{"inserted": names(ins)})
	}
	if n := s.(*starlark.Set).Len(); n != classes {
		r.violate("C11 set size differs from number of equality classes",
			fmt.Sprintf("set built from %d values has %d members, but they form %d equality classes", len(ins), n, classes), map[string]any{"inserted": names(ins)})
	}
	ys := make([]starlark.Value, len(all))
	for i, e := range all {
		ys[i] = e.v
	}
	got, err1 := r.env.call("lookup", d, starlark.NewList(ys))
	mem, err2 := r.env.call("members", s, starlark.NewList(append([]starlark.Value(nil), ys...)))
	if err1 != nil || err2 != nil {
		r.violate("C11 table lookup failed", fmt.Sprintf("lookup: %v / %v", err1, err2), nil)
		return
	}
	gl, ml := got.(*starlark.List), mem.(*starlark.List)
	for i, Y := range all {
		want := -1
		for j, X := range ins {
			if refEq(X.m, Y.m) {
				want = j
				break
			}
		}
		c.Count("table_lookups", 1)
		if want >= 0 {
			c.Count("table_lookups_hit", 1)
		}
		g := -1
		if iv, ok := gl.Index(i).(starlark.Int); ok {
			n, _ := iv.Int64()
			g = int(n)
		}
		if g != want {
			key := "C11 table: equal key not found "
			switch {
			case want < 0:
				key = "C11 table: unequal key found "
			case g >= 0:
				key = "C11 table: key resolves to the wrong entry "
			}
			wd := "nothing"
			if want >= 0 {
				wd = desc(ins[want])
			}
			gd := "nothing"
			if g >= 0 && g < len(ins) {
				gd = desc(ins[g])
			}
			r.violate(key+Y.m.k.String(),
				fmt.Sprintf("dict of %d inserted values: d.get(%s) resolved to %s, expected %s", len(ins), desc(Y), gd, wd),
				map[string]any{"y": desc(Y), "got": gd, "want": wd, "inserted": names(ins)})
		}
		if m := bool(ml.Index(i).(starlark.Bool)); m != (want >= 0) {
			r.violate("C11 table: set membership wrong "+Y.m.k.String(),
				fmt.Sprintf("set of %d inserted values: (%s in s) = %v, expected %v", len(ins), desc(Y), m, want >= 0),
				map[string]any{"y": desc(Y), "inserted": names(ins)})
		}
		// subscript form for hits
		if want >= 0 {
			if v, err := r.env.call("subscript", d, Y.v); err != nil {
				r.violate("C11 table: equal key not found "+Y.m.k.String(),
					fmt.Sprintf("d[%s] failed: %v although %s was inserted", desc(Y), err, desc(ins[want])), map[string]any{"y": desc(Y)})
			} else if iv, ok := v.(starlark.Int); !ok || iv.String() != fmt.Sprint(want) {
				r.violate("C11 table: key resolves to the wrong entry "+Y.m.k.String(),
					fmt.Sprintf("d[%s] = %v, expected %d", desc(Y), v, want), map[string]any{"y": desc(Y)})
			}
		}
	}
}

func names(es []*ent) []string {
	out := make([]string, len(es))
	for i, e := range es {
		out[i] = e.String()
	}
	return out
}
