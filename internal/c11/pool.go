package c11

import (
	"fmt"
	"math"
	"math/big"
	"math/rand"
	"strings"
	"time"

	stime "go.starlark.net/lib/time"
	"go.starlark.net/starlark"
	"go.starlark.net/starlarkstruct"
)

// ent is one pool value together with its model.
type ent struct {
	v    starlark.Value
	m    *model
	name string // how it was built
	idx  int
}

func (e *ent) String() string {
	return fmt.Sprintf("#%d %s", e.idx, e.name)
}

type pool struct {
	env  *env
	ents []*ent
	nid  int // identity counter for functions / builtins
}

func (p *pool) add(name string, v starlark.Value, m *model) *ent {
	e := &ent{v: v, m: m, name: name, idx: len(p.ents)}
	p.ents = append(p.ents, e)
	return e
}

func pow2(k uint) *big.Int { return new(big.Int).Lsh(big.NewInt(1), k) }
func bigAdd(a *big.Int, d int64) *big.Int {
	return new(big.Int).Add(a, big.NewInt(d))
}
func bigNeg(a *big.Int) *big.Int { return new(big.Int).Neg(a) }

// ---- scalar constructors (value + model)

type vm struct {
	v starlark.Value
	m *model
	n string
}

func vInt(b *big.Int) vm {
	return vm{starlark.MakeBigInt(b), mInt(b), "int " + shortBig(b)}
}

// vIntArith builds the same integer through big arithmetic inside the implementation: (b + 2^70) - 2^70.
func vIntArith(b *big.Int) vm {
	k := starlark.MakeBigInt(pow2(70))
	x := starlark.MakeBigInt(b).Add(k).Sub(k)
	return vm{x, mInt(b), "int " + shortBig(b) + " via (x+2^70)-2^70"}
}

func vFloat(f float64) vm {
	return vm{starlark.Float(f), mFloat(f), fmt.Sprintf("float %s bits=%016x", starlark.Float(f).String(), math.Float64bits(f))}
}

func shortBig(b *big.Int) string {
	s := b.String()
	if len(s) > 40 {
		return fmt.Sprintf("%s…(%d digits)", s[:12], len(s))
	}
	return s
}

func vStr(s, route string) vm {
	return vm{starlark.String(s), mStr(s), fmt.Sprintf("string %q len=%d via %s", s, len(s), route)}
}
func vBytes(s, route string) vm {
	return vm{starlark.Bytes(s), mBytes(s), fmt.Sprintf("bytes %q len=%d via %s", s, len(s), route)}
}

func vTuple(es ...vm) vm {
	t := make(starlark.Tuple, len(es))
	ms := make([]*model, len(es))
	ns := make([]string, len(es))
	for i, e := range es {
		t[i], ms[i], ns[i] = e.v, e.m, e.n
	}
	return vm{t, mTuple(ms), "tuple(" + strings.Join(ns, ", ") + ")"}
}

func vList(es ...vm) vm {
	l := make([]starlark.Value, len(es))
	ms := make([]*model, len(es))
	ns := make([]string, len(es))
	for i, e := range es {
		l[i], ms[i], ns[i] = e.v, e.m, e.n
	}
	return vm{starlark.NewList(l), mList(ms), "list[" + strings.Join(ns, ", ") + "]"}
}

func vSet(es ...vm) vm {
	s := starlark.NewSet(len(es))
	var ms []*model
	ns := make([]string, len(es))
	for i, e := range es {
		if err := s.Insert(e.v); err != nil {
			panic(err)
		}
		ns[i] = e.n
		dup := false
		for _, m := range ms {
			if refEq(m, e.m) {
				dup = true
			}
		}
		if !dup {
			ms = append(ms, e.m)
		}
	}
	return vm{s, mSet(ms), "set(" + strings.Join(ns, ", ") + ")"}
}

func vDict(kvs ...vm) vm { // alternating key, value; keys must be pairwise unequal
	d := starlark.NewDict(len(kvs) / 2)
	var ks, vs []*model
	var ns []string
	for i := 0; i+1 < len(kvs); i += 2 {
		if err := d.SetKey(kvs[i].v, kvs[i+1].v); err != nil {
			panic(err)
		}
		ks = append(ks, kvs[i].m)
		vs = append(vs, kvs[i+1].m)
		ns = append(ns, kvs[i].n+": "+kvs[i+1].n)
	}
	return vm{d, mDict(ks, vs), "dict{" + strings.Join(ns, ", ") + "}"}
}

func vStruct(ctor vm, fields ...any) vm { // name, vm, name, vm ... in sorted name order
	sd := starlark.StringDict{}
	var names []string
	var ms []*model
	var ns []string
	for i := 0; i+1 < len(fields); i += 2 {
		n := fields[i].(string)
		f := fields[i+1].(vm)
		sd[n] = f.v
		names = append(names, n)
		ms = append(ms, f.m)
		ns = append(ns, n+"="+f.n)
	}
	for i := 1; i < len(names); i++ {
		if names[i-1] >= names[i] {
			panic("vStruct: field names must be given sorted")
		}
	}
	return vm{starlarkstruct.FromStringDict(ctor.v, sd), mStruct(ctor.m, names, ms), "struct<" + ctor.n + ">(" + strings.Join(ns, ", ") + ")"}
}

func nestTuple(depth int, leaf vm) vm {
	x := leaf
	for i := 0; i < depth; i++ {
		x = vTuple(x)
	}
	x.n = fmt.Sprintf("tuple nested %d deep around %s", depth, leaf.n)
	return x
}
func nestList(depth int, leaf vm) vm {
	x := leaf
	for i := 0; i < depth; i++ {
		x = vList(x)
	}
	x.n = fmt.Sprintf("list nested %d deep around %s", depth, leaf.n)
	return x
}

func i64(n int64) vm { return vInt(big.NewInt(n)) }

// differently built but equal Go strings (distinct backing arrays / offsets)
func strRoutes(s string) []vm {
	var out []vm
	out = append(out, vStr(s, "literal"))
	var b strings.Builder
	for i := 0; i < len(s); i++ {
		b.WriteByte(s[i])
	}
	out = append(out, vStr(b.String(), "byte-by-byte builder"))
	padded := "x" + s + "yz"
	out = append(out, vStr(padded[1:1+len(s)], "slice of a longer string at offset 1"))
	k := len(s) / 2
	out = append(out, vStr(fmt.Sprintf("%s%s", s[:k], s[k:]), "fmt.Sprintf of two halves"))
	return out
}

// buildPool builds the pool; target is the desired total size (random extras fill up to it).
func buildPool(ev *env, r *rand.Rand, target int) *pool {
	p := &pool{env: ev}
	put := func(x vm) *ent { return p.add(x.n, x.v, x.m) }

	// --- None, bools
	put(vm{starlark.None, mNone(), "None"})
	put(vm{starlark.True, mBool(true), "True"})
	put(vm{starlark.False, mBool(false), "False"})

	// --- numbers: the same magnitudes across representations
	e300 := new(big.Int)
	new(big.Float).SetFloat64(1e300).Int(e300) // exact integer value of the float 1e300
	ints := []*big.Int{
		big.NewInt(0), big.NewInt(1), big.NewInt(-1), big.NewInt(2), big.NewInt(3), big.NewInt(-2),
		bigAdd(pow2(31), -1), pow2(31), bigNeg(pow2(31)), bigAdd(bigNeg(pow2(31)), -1), pow2(32), bigAdd(pow2(32), 1),
		bigAdd(pow2(53), -1), pow2(53), bigAdd(pow2(53), 1), bigAdd(pow2(53), 2), bigNeg(bigAdd(pow2(53), 1)), bigNeg(pow2(53)),
		bigAdd(pow2(63), -1), pow2(63), bigAdd(pow2(63), 1), bigNeg(pow2(63)), bigAdd(bigNeg(pow2(63)), -1),
		bigAdd(pow2(64), -1), pow2(64), bigAdd(pow2(64), 1), bigNeg(pow2(64)),
		e300, bigAdd(e300, 1), bigNeg(e300),
		new(big.Int).Exp(big.NewInt(10), big.NewInt(22), nil),
		pow2(1023), new(big.Int).Sub(pow2(1024), pow2(970)), pow2(1024), // around MaxFloat64
	}
	for _, b := range ints {
		put(vInt(b))
	}
	for _, b := range []*big.Int{big.NewInt(1), big.NewInt(-1), pow2(31), pow2(53), bigAdd(pow2(53), 1), pow2(63), pow2(64), e300} {
		put(vIntArith(b))
	}
	put(vm{starlark.MakeInt64(1), mInt(big.NewInt(1)), "int 1 via MakeInt64"})
	put(vm{starlark.MakeUint64(1 << 63), mInt(pow2(63)), "int 2^63 via MakeUint64"})
	put(vm{starlark.MakeInt64(math.MinInt64), mInt(bigNeg(pow2(63))), "int -2^63 via MakeInt64"})
	if v, err := ev.call("mkint", starlark.Float(1e300)); err == nil {
		put(vm{v, mInt(e300), "int(1e300) via the int built-in"})
	}
	if v, err := ev.call("mkint", starlark.String("18446744073709551616")); err == nil {
		put(vm{v, mInt(pow2(64)), "int(\"18446744073709551616\") via the int built-in"})
	}
	f53 := float64(1 << 53)
	floats := []float64{
		0.0, math.Copysign(0, -1), 1.0, -1.0, 2.0, 3.0, -2.0, 0.5, 1.5, -0.5, 0.1,
		float64(1<<31 - 1), float64(1 << 31), -float64(1 << 31), float64(1 << 32),
		f53 - 1, f53, f53 + 2, -f53, math.Nextafter(f53, 0),
		float64(1 << 63), math.Nextafter(float64(1<<63), 0), -float64(1 << 63), math.Nextafter(-float64(1<<63), math.Inf(-1)),
		math.Ldexp(1, 64), math.Nextafter(math.Ldexp(1, 64), 0), math.Nextafter(math.Ldexp(1, 64), math.Inf(1)), -math.Ldexp(1, 64),
		1e300, -1e300, math.Nextafter(1e300, math.Inf(1)), 1e22, math.Ldexp(1, 1023),
		math.MaxFloat64, -math.MaxFloat64, math.SmallestNonzeroFloat64, -math.SmallestNonzeroFloat64, 1e-300,
		math.NaN(), math.Float64frombits(0x7ff8000000000001), math.Float64frombits(0xfff8000000000000), math.Float64frombits(0x7ff0000000000001),
		math.Inf(1), math.Inf(-1),
	}
	for _, f := range floats {
		put(vFloat(f))
	}
	// floats obtained by converting integers inside the implementation (float(2^53+1) rounds)
	for _, b := range []*big.Int{big.NewInt(1), bigAdd(pow2(53), 1), pow2(64), bigAdd(pow2(64), 1), e300} {
		if v, err := ev.call("mkfloat", starlark.MakeBigInt(b)); err == nil {
			f := float64(v.(starlark.Float))
			x := vFloat(f)
			x.n = fmt.Sprintf("float(%s) via the float built-in = %s", shortBig(b), x.n)
			put(x)
		}
	}

	// --- strings around the 12-byte hashing switch, each built by several routes
	const alpha = "abcdefghijklmnopqrstuvwxyz"
	for n := 0; n <= 14; n++ {
		s := alpha[:n]
		rs := strRoutes(s)
		lim := 2
		if n >= 10 {
			lim = 4
		}
		for _, x := range rs[:lim] {
			put(x)
		}
		if n > 0 {
			put(vStr(s[:n-1]+"{", "last byte changed"))
		}
		if v, err := ev.call("concat", starlark.String(s[:n/2]), starlark.String(s[n/2:])); err == nil && n >= 10 {
			put(vm{v, mStr(s), fmt.Sprintf("string %q len=%d via Starlark +", s, n)})
		}
	}
	for _, s := range []string{"\x00", "a\x00", "a\x00b", "\xff", "\xfe\xff", "é", "e", "z", "Z", "aa", "b", "A",
		"\U0001F600", "\uffff", "\xed\xa0\x80", "abcdefghijk\x00", "abcdefghijk\xff", "abcdefghijkm", "abcdefghijklm\x00",
		strings.Repeat("ab", 50), strings.Repeat("ab", 50) + "a", strings.Repeat("ab", 49) + "ac"} {
		put(vStr(s, "literal"))
	}
	for _, x := range strRoutes(strings.Repeat("ab", 50)) {
		put(x)
	}

	// --- bytes
	for _, n := range []int{0, 1, 3, 11, 12, 13} {
		s := alpha[:n]
		put(vBytes(s, "literal"))
		put(vBytes(string(append([]byte(nil), s...)), "copied"))
		if n > 0 {
			put(vBytes(s[:n-1]+"{", "last byte changed"))
		}
	}
	for _, s := range []string{"\x00", "\xff", "a\x00", "é", "abcdefghijk\xff"} {
		put(vBytes(s, "literal"))
	}

	// --- tuples and lists
	one, onef, two, zero, zerof, negzf := i64(1), vFloat(1), i64(2), i64(0), vFloat(0), vFloat(math.Copysign(0, -1))
	nanv := vFloat(math.NaN())
	strA, strB := vStr("a", "literal"), vStr("b", "literal")
	none := vm{starlark.None, mNone(), "None"}
	flat := [][]vm{
		{}, {one}, {onef}, {two}, {zero}, {zerof}, {negzf}, {one, two}, {onef, two}, {one, i64(3)}, {one, two, i64(3)}, {two, one},
		{strA}, {strB}, {strA, one}, {strA, two}, {one, strA}, {nanv}, {one, nanv}, {nanv, one}, {vFloat(math.Inf(1))},
		{vInt(pow2(64))}, {vFloat(math.Ldexp(1, 64))}, {vInt(bigAdd(pow2(53), 1))}, {vFloat(f53)}, {vInt(pow2(53))},
		{none}, {none, one}, {one, none}, {vm{starlark.True, mBool(true), "True"}},
		{vStr(alpha[:13], "literal")}, {strRoutes(alpha[:13])[1]},
	}
	for _, f := range flat {
		put(vTuple(f...))
		put(vList(f...))
	}
	put(vTuple(vTuple(one), two))
	put(vTuple(vTuple(onef), two))
	put(vTuple(vTuple(one, two)))
	put(vTuple(vList(one)))  // unhashable tuple
	put(vTuple(vList(onef))) // equal to it, also unhashable
	put(vList(vTuple(one)))
	put(vList(vList(one), vList(two)))
	put(vList(vList(onef), vList(two)))
	put(vList(vList(one)))
	lim := starlark.CompareLimit
	for d := 2; d <= lim+1; d++ {
		if d > 3 && d < lim-2 && d%3 != 0 {
			continue
		}
		put(nestTuple(d, one))
		put(nestTuple(d, onef))
		put(nestTuple(d, two))
		put(nestList(d, one))
		put(nestList(d, onef))
		if d >= lim-1 {
			put(nestList(d, two))
			// mixed nesting and a second element after the deep one
			put(vTuple(nestList(d-1, one), two))
			put(vTuple(nestList(d-1, onef), i64(3)))
			put(vList(nestTuple(d-1, one)))
		}
	}

	// --- ranges denoting equal sequences
	rng := func(args ...int64) vm {
		a := make([]starlark.Value, len(args))
		ss := make([]string, len(args))
		for i, x := range args {
			a[i] = starlark.MakeInt64(x)
			ss[i] = fmt.Sprint(x)
		}
		v, err := ev.call("range", a...)
		if err != nil {
			panic(err)
		}
		start, stop, step := int64(0), int64(0), int64(1)
		switch len(args) {
		case 1:
			stop = args[0]
		case 2:
			start, stop = args[0], args[1]
		case 3:
			start, stop, step = args[0], args[1], args[2]
		}
		var seq []int64
		for x := start; (step > 0 && x < stop) || (step < 0 && x > stop); x += step {
			seq = append(seq, x)
		}
		return vm{v, mRange(seq), "range(" + strings.Join(ss, ", ") + ")"}
	}
	for _, a := range [][]int64{{0, 3, 2}, {0, 4, 2}, {0}, {5, 5}, {3, 0}, {0, 10, -1}, {1}, {0, 1, 5}, {0, 100, 1000}, {3}, {0, 3}, {1, 3},
		{0, 10, 3}, {0, 12, 3}, {0, 13, 3}, {10, 0, -3}, {10, -1, -3}, {2, 3}, {2, 100, 1 << 20}} {
		put(rng(a...))
	}

	// --- structs
	def := vm{starlarkstruct.Default, mStr("struct"), "\"struct\""}
	point := vStr("point", "literal")
	put(vStruct(def))
	put(vStruct(point))
	put(vStruct(def, "a", one, "b", strA))
	put(vStruct(def, "a", one, "b", strA))
	put(vStruct(def, "a", onef, "b", strA))
	put(vStruct(def, "a", two, "b", strA))
	put(vStruct(point, "a", one, "b", strA))
	put(vStruct(def, "a", one, "c", strA))
	put(vStruct(def, "a", one))
	put(vStruct(def, "b", one)) // differs in the (first) field name only
	put(vStruct(def, "a", one, "b", two))
	put(vStruct(def, "b", one, "c", two)) // same values, both names differ
	put(vm{starlarkstruct.FromKeywords(starlarkstruct.Default, []starlark.Tuple{{starlark.String("b"), strA.v}, {starlark.String("a"), onef.v}}),
		mStruct(def.m, []string{"a", "b"}, []*model{onef.m, strA.m}), "struct(b=\"a\", a=1.0) via FromKeywords in reverse order"})
	put(vStruct(def, "a", vList(one)))
	put(vStruct(def, "a", vList(onef)))
	put(vStruct(def, "a", vStruct(def, "a", one)))
	put(vStruct(def, "a", vStruct(def, "a", onef)))
	put(vStruct(def, "a", nestList(lim-1, one)))
	put(vStruct(def, "a", nestList(lim-1, onef)))
	put(vStruct(def, "a", nanv))
	put(vStruct(vStruct(def, "k", one), "a", one))  // struct as constructor
	put(vStruct(vStruct(def, "k", onef), "a", one)) // equal constructor

	// --- functions and builtins (identity)
	for _, n := range []string{"f", "g", "lam1", "lam2", "f2"} { // f and f2 share the name "f"
		p.nid++
		put(vm{ev.fns[n], mFunc(p.nid), "function " + n + " (" + ev.fns[n].(*starlark.Function).Name() + ")"})
	}
	p.nid++
	put(vm{starlark.Universe["len"], mBuiltin(p.nid), "builtin len"})
	p.nid++
	put(vm{starlark.NewBuiltin("len", nopBuiltin), mBuiltin(p.nid), "another builtin named len"})
	for i := 0; i < 2; i++ {
		if v, err := starlark.String("abc").Attr("upper"); err == nil {
			p.nid++
			put(vm{v, mBuiltin(p.nid), fmt.Sprintf("bound method \"abc\".upper (object %d)", i)})
		}
	}
	if v, err := starlark.String("abd").Attr("upper"); err == nil {
		p.nid++
		put(vm{v, mBuiltin(p.nid), "bound method \"abd\".upper"})
	}

	// --- times (same instant in different zones) and durations
	tm := func(t time.Time, how string) vm {
		u := t.Unix()
		return vm{stime.Time(t), mTime(u, int64(t.Nanosecond())), "time " + t.Format(time.RFC3339Nano) + " " + how}
	}
	base := time.Date(2024, 1, 1, 12, 0, 0, 0, time.UTC)
	east := time.FixedZone("east", 5*3600+1800)
	west := time.FixedZone("west", -8*3600)
	put(tm(base, "UTC"))
	put(tm(base.In(east), "zone +05:30"))
	put(tm(time.Date(2024, 1, 1, 4, 0, 0, 0, west), "built in zone -08:00"))
	put(tm(base.Add(1), "+1ns"))
	put(tm(base.Add(-1).In(east), "-1ns, zone +05:30"))
	put(tm(time.Unix(0, 0).UTC(), "epoch"))
	put(tm(time.Unix(0, 0).In(west), "epoch, zone -08:00"))
	put(tm(time.Date(1, 1, 1, 0, 0, 0, 0, time.UTC), "year 1 (UnixNano out of range)"))
	put(tm(time.Date(1, 1, 1, 5, 30, 0, 0, east), "year 1 built in zone +05:30"))
	put(tm(time.Date(9999, 12, 31, 23, 59, 59, 999999999, time.UTC), "year 9999"))
	put(tm(time.Date(9999, 12, 31, 15, 59, 59, 999999999, west), "year 9999 built in zone -08:00"))
	now := time.Now()
	nowm := now.Add(time.Date(2025, 6, 1, 0, 0, 0, 0, time.UTC).Sub(now)) // fixed wall time, carries a monotonic reading
	put(tm(nowm, "time.Now() with monotonic reading"))
	put(tm(nowm.Round(0), "same, monotonic reading stripped"))
	put(tm(nowm.Round(0).In(east), "same, zone +05:30"))
	for _, d := range []int64{0, 1, -1, 1 << 32, 1<<32 + 1, -(1 << 32), math.MaxInt64, math.MinInt64, int64(time.Hour)} {
		put(vm{stime.Duration(d), mDur(d), fmt.Sprintf("duration %dns", d)})
	}
	put(vm{stime.Duration(3600e9), mDur(int64(time.Hour)), "duration 1h via float constant"})

	// --- dicts and sets
	put(vDict())
	put(vDict(one, strA))
	put(vDict(onef, strA))
	put(vDict(one, strB))
	put(vDict(one, one))
	put(vDict(onef, onef))
	put(vDict(one, vm{starlark.True, mBool(true), "True"}))
	put(vDict(one, vList(one)))
	put(vDict(one, vTuple(one)))
	put(vDict(one, strA, two, strB))
	put(vDict(two, strB, one, strA)) // other insertion order
	put(vDict(two, strB, onef, strA))
	put(vDict(strA, vList(one)))
	put(vDict(strA, vList(onef)))
	put(vDict(strA, nestList(lim-1, one), strB, one))
	put(vDict(strB, two, strA, nestList(lim-1, one))) // differs in the shallow entry; deep entry in other position
	put(vDict(strA, nestList(lim, one), strB, one))
	put(vDict(strB, two, strA, nestList(lim, one)))
	put(vDict(nanv, one))
	put(vDict(vFloat(math.Float64frombits(0x7ff8000000000001)), one))
	put(vDict(vInt(pow2(64)), one))
	put(vDict(vFloat(math.Ldexp(1, 64)), onef))
	put(vSet())
	put(vSet(one, two))
	put(vSet(vFloat(2), onef))
	put(vSet(one))
	put(vSet(one, two, i64(3)))
	put(vSet(strA))
	put(vSet(vTuple(one), vTuple(two)))
	put(vSet(vTuple(two), vTuple(onef)))
	put(vSet(vInt(pow2(64)), zero))
	put(vSet(negzf, vFloat(math.Ldexp(1, 64))))

	// --- random extras up to the target size: integers and floats around powers of two,
	// short strings over a tiny alphabet (many prefixes and ties), shallow tuples and lists.
	for guard := 0; len(p.ents) < target && guard < 100000; guard++ {
		switch r.Intn(10) {
		case 0, 1:
			put(randInt(r))
		case 2, 3:
			put(randFloat(r))
		case 4, 5:
			put(randStr(r))
		case 6:
			x := randStr(r)
			put(vBytes(x.m.s, "random"))
		case 7, 8:
			put(randSeq(r, 2, false))
		case 9:
			put(randSeq(r, 2, true))
		}
	}
	return p
}

func nopBuiltin(*starlark.Thread, *starlark.Builtin, starlark.Tuple, []starlark.Tuple) (starlark.Value, error) {
	return starlark.None, nil
}

var hotExps = []uint{0, 1, 31, 32, 53, 63, 64, 100}

func randBig(r *rand.Rand) *big.Int {
	b := new(big.Int)
	if r.Intn(4) == 0 {
		b.SetInt64(int64(r.Intn(7) - 3))
	} else {
		b = bigAdd(pow2(hotExps[r.Intn(len(hotExps))]), int64(r.Intn(5)-2))
	}
	if r.Intn(3) == 0 {
		b.Neg(b)
	}
	return b
}

func randInt(r *rand.Rand) vm {
	b := randBig(r)
	if r.Intn(3) == 0 {
		return vIntArith(b)
	}
	return vInt(b)
}

func randFloat(r *rand.Rand) vm {
	switch r.Intn(12) {
	case 0:
		return vFloat(math.NaN())
	case 1:
		return vFloat(math.Inf(1 - 2*r.Intn(2)))
	case 2:
		return vFloat(math.Copysign(0, float64(1-2*r.Intn(2))))
	case 3:
		return vFloat(float64(r.Intn(9)-4) / 2)
	}
	f, _ := new(big.Float).SetInt(randBig(r)).Float64()
	switch r.Intn(4) {
	case 0:
		f = math.Nextafter(f, math.Inf(1))
	case 1:
		f = math.Nextafter(f, math.Inf(-1))
	}
	return vFloat(f)
}

func randStr(r *rand.Rand) vm {
	const a = "ab\x00\xff"
	n := r.Intn(15)
	if r.Intn(3) == 0 {
		n = 10 + r.Intn(5)
	}
	var b strings.Builder
	for i := 0; i < n; i++ {
		if i < n-2 && r.Intn(4) != 0 {
			b.WriteByte('a') // long common prefixes
		} else {
			b.WriteByte(a[r.Intn(len(a))])
		}
	}
	return vStr(b.String(), "random")
}

func randScalar(r *rand.Rand, kindSel int) vm {
	switch kindSel {
	case 0:
		if r.Intn(2) == 0 {
			return randInt(r)
		}
		return randFloat(r)
	default:
		return randStr(r)
	}
}

// randSeq builds a tuple or list whose positions are type-homogeneous across the whole
// generator (position i is numeric if i is even, string if odd, and nested sequences hold numbers), so
// that any two generated sequences have an order.
func randSeq(r *rand.Rand, depth int, list bool) vm {
	n := r.Intn(4)
	es := make([]vm, n)
	for i := range es {
		if depth > 1 && i == 2 {
			es[i] = randNumSeq(r, list)
		} else {
			es[i] = randScalar(r, i%2)
		}
	}
	if list {
		return vList(es...)
	}
	return vTuple(es...)
}

func randNumSeq(r *rand.Rand, list bool) vm {
	n := r.Intn(3)
	es := make([]vm, n)
	for i := range es {
		es[i] = randScalar(r, 0)
	}
	if list {
		return vList(es...)
	}
	return vTuple(es...)
}
