package c11

import (
	"fmt"

	"go.starlark.net/starlark"
	"go.starlark.net/syntax"
)

// The observations of operators, dict/set behaviour and hash() go through the interpreter: these
// functions are compiled once per child and called with pool values as arguments.
const helperSrc = `
def eq(x, y): return x == y
def ne(x, y): return x != y
def lt(x, y): return x < y
def le(x, y): return x <= y
def gt(x, y): return x > y
def ge(x, y): return x >= y

def probe(x, y):
    d = {x: 1}
    a = y in d
    g = d.get(y)
    d[y] = 2
    s = set([x])
    b = y in s
    s.add(y)
    return (a, g, len(d), d[x], b, len(s))

def inseq(x, y): return (y in [x], y in (x,))
def h(x): return hash(x)
def key0(e): return e[0]
def concat(a, b): return a + b
def mkint(x): return int(x)
def mkfloat(x): return float(x)

def build(xs):
    d = {}
    for i, x in enumerate(xs):
        if x not in d:
            d[x] = i
    return d

def lookup(d, ys): return [d.get(y) for y in ys]
def subscript(d, y): return d[y]
def mkset(xs): return set(xs)
def members(s, ys): return [y in s for y in ys]

def op_or(x, y): return x | y
def op_and(x, y): return x & y
def op_xor(x, y): return x ^ y
def op_add(x, y): return x + y
def op_sub(x, y): return x - y
def op_mul(x, y): return x * y
def op_floordiv(x, y): return x // y
def op_mod(x, y): return x % y
def op_lsh(x, y): return x << y
def op_rsh(x, y): return x >> y
def op_not(x): return ~x
def op_neg(x): return -x
def op_pos(x): return +x

def f(): pass
def g(): pass
lam1 = lambda: 1
lam2 = lambda: 1
`

const helperSrc2 = `
def f(): pass
f2 = f
`

type env struct {
	thread *starlark.Thread
	fns    starlark.StringDict
}

func newEnv() (*env, error) {
	opts := &syntax.FileOptions{Set: true, TopLevelControl: true, GlobalReassign: true}
	th := &starlark.Thread{Name: "c11"}
	g, err := starlark.ExecFileOptions(opts, th, "c11_helpers.star", helperSrc, nil)
	if err != nil {
		return nil, fmt.Errorf("helpers: %v", err)
	}
	g2, err := starlark.ExecFileOptions(opts, th, "c11_helpers2.star", helperSrc2, nil)
	if err != nil {
		return nil, fmt.Errorf("helpers2: %v", err)
	}
	fns := starlark.StringDict{}
	for k, v := range g {
		fns[k] = v
	}
	fns["f2"] = g2["f2"] // a second function named "f"
	for _, n := range []string{"sorted", "min", "max", "range"} {
		fns[n] = starlark.Universe[n]
	}
	return &env{thread: th, fns: fns}, nil
}

func (e *env) call(name string, args ...starlark.Value) (starlark.Value, error) {
	return starlark.Call(e.thread, e.fns[name], starlark.Tuple(args), nil)
}

func (e *env) callKw(name string, args starlark.Tuple, kwargs []starlark.Tuple) (starlark.Value, error) {
	return starlark.Call(e.thread, e.fns[name], args, kwargs)
}

// tri is an observed boolean result: tF, tT, or tE (the operation failed).
type tri int8

const (
	tF tri = iota
	tT
	tE
)

func (t tri) String() string { return [...]string{"False", "True", "error"}[t] }

func toTri(v starlark.Value, err error) tri {
	if err != nil {
		return tE
	}
	if b, ok := v.(starlark.Bool); ok {
		if b {
			return tT
		}
		return tF
	}
	return tE
}

func triOf(b bool, err error) tri {
	if err != nil {
		return tE
	}
	if b {
		return tT
	}
	return tF
}

var opNames = [6]string{"eq", "ne", "lt", "le", "gt", "ge"}
var opSyms = [6]string{"==", "!=", "<", "<=", ">", ">="}
var opToks = [6]syntax.Token{syntax.EQL, syntax.NEQ, syntax.LT, syntax.LE, syntax.GT, syntax.GE}

const (
	oEQ = iota
	oNE
	oLT
	oLE
	oGT
	oGE
)

// ops evaluates the six operators on (x, y) through the interpreter.
func (e *env) ops(x, y starlark.Value) (r [6]tri, errs [6]error) {
	for i, n := range opNames {
		v, err := e.call(n, x, y)
		r[i] = toTri(v, err)
		errs[i] = err
	}
	return
}
