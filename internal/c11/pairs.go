package c11

import (
	"fmt"
	"unsafe"

	"go.starlark.net/starlark"

	"verif/internal/sl"
)

const pairChunk = 64

// pairs runs every unordered pair {i, j}, i <= j, of the pool.
func (r *runner) pairs() {
	c := r.c
	n := len(r.p.ents)
	for i := 0; i < n; i++ {
		for j0 := i; j0 < n; j0 += pairChunk {
			if !c.Take() {
				continue
			}
			j1 := min(j0+pairChunk, n)
			c.Note("pairs row %d (%s) columns %d..%d", i, r.p.ents[i].name, j0, j1-1)
			for j := j0; j < j1; j++ {
				if p := sl.Safe(func() { r.pair(r.p.ents[i], r.p.ents[j]) }); p != nil {
					r.violate("C11 panic during comparison "+kindPair(r.p.ents[i].m, r.p.ents[j].m),
						fmt.Sprintf("panic %v while comparing/hashing %s and %s", p.Value, desc(r.p.ents[i]), desc(r.p.ents[j])),
						map[string]any{"x": desc(r.p.ents[i]), "y": desc(r.p.ents[j]), "stack": p.Stack})
				}
				c.Eval(1)
			}
		}
	}
}

func (r *runner) pair(X, Y *ent) {
	c := r.c
	x, y := X.v, Y.v
	kp := kindPair(X.m, Y.m)
	c.Count("pairs", 1)
	same := X.m.k == Y.m.k
	if same {
		c.DistinctH(uint64(X.idx)<<20 | uint64(Y.idx))
		c.Cover("pair_kinds", kp)
	}
	det := func(extra map[string]any) map[string]any {
		m := map[string]any{"x": desc(X), "y": desc(Y), "kinds": kp}
		for k, v := range extra {
			m[k] = v
		}
		return m
	}

	// --- observations
	fw, fwErr := r.env.ops(x, y) // x op y
	bw, _ := r.env.ops(y, x)     // y op x
	apiEq := [2]tri{triOf(starlark.Compare(opToks[oEQ], x, y)), triOf(starlark.Compare(opToks[oEQ], y, x))}
	apiEqual := [2]tri{triOf(starlark.Equal(x, y)), triOf(starlark.Equal(y, x))}
	hx, hxok := r.checkHashStable(X.idx, X, "on a later call")
	hy, hyok := r.checkHashStable(Y.idx, Y, "on a later call")

	wantEq := refEq(X.m, Y.m)
	mustOK := shallow(X.m, Y.m)
	isNumMix := X.m.k == kNum && Y.m.k == kNum && X.m.isFloat != Y.m.isFloat

	if same && X.idx != Y.idx && (X.idx+Y.idx)%7 == 0 && fw[oEQ] == tT && r.wantSample("pair") {
		c.Sample(map[string]any{"phase": "pair", "x": desc(X), "y": desc(Y),
			"x==y": fw[oEQ].String(), "x<y": fw[oLT].String(), "x>y": fw[oGT].String(), "expected_equal": wantEq,
			"hash_x": hx, "hash_y": hy, "hashable": []bool{hxok, hyok}})
	}

	// --- the interpreter, Compare and Equal are the same relation
	for d := 0; d < 2; d++ {
		obs := fw[oEQ]
		if d == 1 {
			obs = bw[oEQ]
		}
		if obs != apiEq[d] {
			r.violate("C11 interpreter == differs from Compare(EQL) "+kp,
				fmt.Sprintf("x == y in the interpreter gave %v, starlark.Compare(EQL) gave %v for x=%s y=%s (dir %d)", obs, apiEq[d], desc(X), desc(Y), d), det(nil))
		}
		if apiEqual[d] != apiEq[d] && apiEqual[d] != tE && apiEq[d] != tE {
			r.violate("C11 Equal differs from Compare(EQL) "+kp,
				fmt.Sprintf("starlark.Equal gave %v, starlark.Compare(EQL) gave %v for x=%s y=%s (dir %d)", apiEqual[d], apiEq[d], desc(X), desc(Y), d), det(nil))
		}
	}
	// list/tuple membership uses Equal
	if v, err := r.env.call("inseq", x, y); err == nil {
		t := v.(starlark.Tuple)
		for k, what := range []string{"y in [x]", "y in (x,)"} {
			got := toTri(t[k], nil)
			if fw[oEQ] != tE && got != fw[oEQ] {
				r.violate("C11 sequence membership differs from == "+kp,
					fmt.Sprintf("%s gave %v but x == y gave %v for x=%s y=%s", what, got, fw[oEQ], desc(X), desc(Y)), det(nil))
			}
		}
	}

	// --- != is the negation of ==
	for d, o := range [2][6]tri{fw, bw} {
		eq, ne := o[oEQ], o[oNE]
		switch {
		case eq != tE && ne != tE:
			if (eq == tT) == (ne == tT) {
				r.violate("C11 != is not the negation of == "+kp,
					fmt.Sprintf("x == y gave %v and x != y gave %v for x=%s y=%s (dir %d)", eq, ne, desc(X), desc(Y), d), det(nil))
			}
		case eq != ne: // exactly one failed
			r.violate("C11 exactly one of == and != failed "+kp,
				fmt.Sprintf("x == y gave %v but x != y gave %v for x=%s y=%s (dir %d)", eq, ne, desc(X), desc(Y), d), det(nil))
		}
	}

	// --- reflexive
	if X.idx == Y.idx {
		switch fw[oEQ] {
		case tF:
			r.violate("C11 == not reflexive "+kp, fmt.Sprintf("x == x gave False for x=%s", desc(X)), det(nil))
		case tE:
			if mustOK {
				r.violate("C11 == failed within the depth limit "+kp, fmt.Sprintf("x == x failed (%v) for x=%s", fwErr[oEQ], desc(X)), det(nil))
			} else {
				c.Count("deep_errors_allowed", 1)
			}
		default:
			c.Count("reflexive_checked", 1)
		}
	}

	// --- symmetric
	switch {
	case fw[oEQ] != tE && bw[oEQ] != tE:
		if fw[oEQ] != bw[oEQ] {
			r.violate("C11 == not symmetric "+kp,
				fmt.Sprintf("x == y gave %v but y == x gave %v for x=%s y=%s", fw[oEQ], bw[oEQ], desc(X), desc(Y)), det(nil))
		}
		c.Count("symmetric_checked", 1)
	case fw[oEQ] != bw[oEQ]:
		// one direction produced a result, the other failed (possible only beyond the depth limit,
		// e.g. dicts that meet a shallow differing entry first in one iteration order): not a
		// violation of the law, which relates results; the depth rule below judges the error itself.
		c.Count("symmetry_result_vs_error", 1)
		c.Cover("symmetry_result_vs_error_kinds", kp)
	}

	// --- agreement with the model; errors only beyond the depth limit
	for d, got := range [2]tri{fw[oEQ], bw[oEQ]} {
		if got == tE {
			if mustOK {
				r.violate("C11 == failed within the depth limit "+kp,
					fmt.Sprintf("x == y failed (%v) although both operands are nested less than CompareLimit deep: x=%s y=%s (dir %d)", fwErr[oEQ], desc(X), desc(Y), d), det(nil))
			} else if X.idx != Y.idx {
				c.Count("deep_errors_allowed", 1)
			}
			continue
		}
		if (got == tT) != wantEq {
			r.violate("C11 == differs from expected equality "+kp,
				fmt.Sprintf("x == y gave %v, expected %v for x=%s y=%s (dir %d)", got, wantEq, desc(X), desc(Y), d), det(nil))
		}
	}
	if fw[oEQ] == tT {
		c.Count("pairs_eq_true", 1)
		if X.idx != Y.idx {
			c.Count("pairs_eq_true_distinct_objects", 1)
		}
		if isNumMix {
			c.Count("pairs_eq_true_int_float", 1)
		}
		if X.m.k == kStr && X.idx != Y.idx && len(X.m.s) > 0 {
			sx, sy := string(x.(starlark.String)), string(y.(starlark.String))
			if unsafe.StringData(sx) != unsafe.StringData(sy) {
				c.Count("strings_equal_distinct_backing", 1)
				c.Cover("equal_string_lengths", fmt.Sprint(len(sx)))
			}
		}
	}

	// --- equal values: equal hashes, same hashability, interchangeable as keys / members
	if fw[oEQ] == tT {
		if hxok != hyok {
			r.violate("C11 equal values differ in hashability "+kp,
				fmt.Sprintf("x == y but hashable(x)=%v hashable(y)=%v for x=%s y=%s", hxok, hyok, desc(X), desc(Y)), det(nil))
		}
		if hxok && hyok {
			c.Count("hash_eq_checked", 1)
			if isNumMix {
				c.Count("hash_eq_checked_int_float", 1)
			}
			if hx != hy {
				r.violate("C11 equal values have different hashes "+kp,
					fmt.Sprintf("x == y but Hash(x)=%d Hash(y)=%d for x=%s y=%s", hx, hy, desc(X), desc(Y)), det(map[string]any{"hx": hx, "hy": hy}))
			}
		}
	}
	if hxok && hyok && fw[oEQ] != tE && !mustOK {
		c.Count("probe_skipped_deep", 1) // the probe compares x with itself; beyond the depth limit that may fail
	}
	if hxok && hyok && fw[oEQ] != tE && mustOK {
		equal := fw[oEQ] == tT
		for d := 0; d < 2; d++ {
			a, b := x, y
			if d == 1 {
				a, b = y, x
			}
			v, err := r.env.call("probe", a, b)
			if err != nil {
				r.violate("C11 dict/set probe failed "+kp,
					fmt.Sprintf("d={x:1}; y in d; d.get(y); d[y]=2; s=set([x]); y in s; s.add(y) failed: %v for x=%s y=%s (dir %d)", err, desc(X), desc(Y), d), det(nil))
				continue
			}
			got := v.String()
			want := "(False, None, 2, 1, False, 2)"
			if equal {
				want = "(True, 1, 1, 2, True, 1)"
				c.Count("probe_equal_checked", 1)
			} else {
				c.Count("probe_unequal_checked", 1)
			}
			if got != want {
				key := "C11 unequal values collide as dict/set keys "
				if equal {
					key = "C11 equal values are not interchangeable as dict/set keys "
				}
				r.violate(key+kp,
					fmt.Sprintf("x == y is %v but (y in {x:1}, {x:1}.get(y), len after d[y]=2, d[x], y in set([x]), len after s.add(y)) = %s, want %s for x=%s y=%s (dir %d)",
						equal, got, want, desc(X), desc(Y), d), det(map[string]any{"got": got, "want": want}))
			}
		}
	}

	// --- hash() built-in on strings and bytes
	if (X.m.k == kStr || X.m.k == kBytes) && same {
		a, erra := r.env.call("h", x)
		b, errb := r.env.call("h", y)
		if erra == nil && errb == nil {
			heq := triOf(starlark.Equal(a, b))
			c.Count("hash_builtin_checked", 1)
			if fw[oEQ] == tT && heq != tT {
				r.violate("C11 hash() differs for equal "+kp,
					fmt.Sprintf("x == y but hash(x)=%v hash(y)=%v for x=%s y=%s", a, b, desc(X), desc(Y)), det(nil))
			}
		}
	}

	// --- order
	r.orderLaws(X, Y, fw, bw, fwErr, kp, mustOK, isNumMix, det)
}

func (r *runner) orderLaws(X, Y *ent, fw, bw [6]tri, fwErr [6]error, kp string, mustOK, isNumMix bool, det func(map[string]any) map[string]any) {
	c := r.c
	if X.m.k != Y.m.k || !orderedKind(X.m.k) {
		// no order demanded; note whether the implementation gives one
		if fw[oLT] != tE {
			c.Count("unordered_pair_lt_result", 1)
			c.Cover("unordered_kinds_with_lt_result", kp)
		} else if X.m.k == kNone && Y.m.k == kNone {
			c.Count("none_lt_none_error", 1) // spec table lists NoneType as ordered; the property does not
		}
		return
	}
	wantC, ordered := refCmp(X.m, Y.m)
	if !ordered {
		c.Count("lexicographic_pairs_without_order", 1)
		return
	}
	allOK := true
	for _, o := range [2][6]tri{fw, bw} {
		for _, t := range o {
			if t == tE {
				allOK = false
			}
		}
	}
	if !allOK {
		if mustOK {
			var failing []string
			for k := range fw {
				if fw[k] == tE {
					failing = append(failing, fmt.Sprintf("x %s y: %v", opSyms[k], fwErr[k]))
				}
				if bw[k] == tE {
					failing = append(failing, fmt.Sprintf("y %s x: error", opSyms[k]))
				}
			}
			r.violate("C11 ordered comparison failed on ordered type "+kp,
				fmt.Sprintf("%v for x=%s y=%s", failing, desc(X), desc(Y)), det(map[string]any{"failing": failing}))
		} else {
			c.Count("deep_errors_allowed", 1)
		}
	}
	c.Count("order_pairs_checked", 1)
	if isNumMix {
		c.Count("order_pairs_int_float", 1)
	}
	t := func(v tri) bool { return v == tT }
	ok := func(vs ...tri) bool {
		for _, v := range vs {
			if v == tE {
				return false
			}
		}
		return true
	}
	show := func(o [6]tri) string {
		return fmt.Sprintf("[== %v, != %v, < %v, <= %v, > %v, >= %v]", o[0], o[1], o[2], o[3], o[4], o[5])
	}
	for d, o := range [2][6]tri{fw, bw} {
		// the laws, as relations between the observed results of one direction
		if ok(o[oLT], o[oEQ], o[oGT]) {
			if b2i(t(o[oLT]))+b2i(t(o[oEQ]))+b2i(t(o[oGT])) != 1 {
				r.violate("C11 not exactly one of < == > "+kp,
					fmt.Sprintf("%s for x=%s y=%s (dir %d)", show(o), desc(X), desc(Y), d), det(map[string]any{"results": show(o)}))
			}
			c.Count("trichotomy_checked", 1)
		}
		if ok(o[oLE], o[oLT], o[oEQ]) && t(o[oLE]) != (t(o[oLT]) || t(o[oEQ])) {
			r.violate("C11 <= inconsistent with < and == "+kp,
				fmt.Sprintf("%s for x=%s y=%s (dir %d)", show(o), desc(X), desc(Y), d), det(map[string]any{"results": show(o)}))
		}
		if ok(o[oGE], o[oGT], o[oEQ]) && t(o[oGE]) != (t(o[oGT]) || t(o[oEQ])) {
			r.violate("C11 >= inconsistent with > and == "+kp,
				fmt.Sprintf("%s for x=%s y=%s (dir %d)", show(o), desc(X), desc(Y), d), det(map[string]any{"results": show(o)}))
		}
		// the expected order
		c0 := wantC
		if d == 1 {
			c0 = -wantC
		}
		want := [6]bool{c0 == 0, c0 != 0, c0 < 0, c0 <= 0, c0 > 0, c0 >= 0}
		for k := range o {
			if o[k] != tE && t(o[k]) != want[k] {
				r.violate("C11 order differs from expected order "+kp,
					fmt.Sprintf("x %s y gave %v, expected %v (expected three-way %d) for x=%s y=%s (dir %d)", opSyms[k], o[k], want[k], c0, desc(X), desc(Y), d),
					det(map[string]any{"op": opSyms[k], "results": show(o)}))
				break
			}
		}
	}
	// converse: x < y iff y > x, x <= y iff y >= x
	for _, pr := range [][2]int{{oLT, oGT}, {oLE, oGE}, {oGT, oLT}, {oGE, oLE}} {
		if ok(fw[pr[0]], bw[pr[1]]) && fw[pr[0]] != bw[pr[1]] {
			r.violate("C11 converse comparison inconsistent "+kp,
				fmt.Sprintf("x %s y gave %v but y %s x gave %v for x=%s y=%s", opSyms[pr[0]], fw[pr[0]], opSyms[pr[1]], bw[pr[1]], desc(X), desc(Y)), det(nil))
		}
	}
}
