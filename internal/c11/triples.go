package c11

import (
	"fmt"
	"math/big"

	"go.starlark.net/starlark"

	"verif/internal/sl"
)

// subPool selects n pool values for the triple laws: every representation of the hot magnitudes
// (0, 1, 2^53, 2^53+1, 2^64, 1e300, NaN, +Inf), then seed-determined picks per kind.
func (r *runner) subPool(n int) []*ent {
	rng := r.c.GlobalRand("triples")
	e300 := new(big.Int)
	new(big.Float).SetFloat64(1e300).Int(e300)
	hot := []*model{mInt(big.NewInt(0)), mInt(big.NewInt(1)), mInt(pow2(53)), mInt(bigAdd(pow2(53), 1)), mInt(pow2(64)), mInt(e300)}
	chosen := map[int]bool{}
	var out []*ent
	take := func(e *ent) {
		if !chosen[e.idx] && len(out) < n {
			chosen[e.idx] = true
			out = append(out, e)
		}
	}
	for _, e := range r.p.ents {
		if e.m.k != kNum || len(out) >= n*45/100 {
			continue
		}
		if e.m.special == nan || e.m.special == posInf {
			take(e)
			continue
		}
		for _, h := range hot {
			if e.m.special == finite && numCmp(e.m, h) == 0 {
				take(e)
			}
		}
	}
	byKind := map[kind][]*ent{}
	for _, e := range r.p.ents {
		byKind[e.m.k] = append(byKind[e.m.k], e)
	}
	quota := []struct {
		k   kind
		pct int
	}{{kNum, 52}, {kStr, 14}, {kTuple, 12}, {kList, 7}, {kBytes, 4}, {kBool, 2}, {kRange, 2}, {kStruct, 2}, {kTime, 2}, {kDur, 1}, {kDict, 2}, {kSet, 2}, {kFunc, 1}, {kBuiltin, 1}, {kNone, 1}}
	for _, q := range quota {
		l := byKind[q.k]
		have := 0
		for _, e := range out {
			if e.m.k == q.k {
				have++
			}
		}
		want := max(n*q.pct/100, 1)
		for tries := 0; have < want && tries < 20*len(l) && len(l) > 0; tries++ {
			e := l[rng.Intn(len(l))]
			if !chosen[e.idx] {
				take(e)
				have++
			}
		}
	}
	for tries := 0; len(out) < n && tries < 100*n; tries++ {
		take(r.p.ents[rng.Intn(len(r.p.ents))])
	}
	return out
}

type rel struct{ eq, lt, le tri }

func observe(x, y starlark.Value, ordered bool) rel {
	o := rel{eq: triOf(starlark.Compare(opToks[oEQ], x, y)), lt: tE, le: tE}
	if ordered {
		o.lt = triOf(starlark.Compare(opToks[oLT], x, y))
		o.le = triOf(starlark.Compare(opToks[oLE], x, y))
	}
	return o
}

// triples checks transitivity on every ordered triple (a, b, c) of the sub-pool, through the Go API.
func (r *runner) triples(n int) {
	c := r.c
	T := r.subPool(n)
	c.Cover("triple_subpool_size", fmt.Sprint(len(T)))
	for ai, A := range T {
		if !c.Take() {
			continue
		}
		c.Note("triples with a = %s", A.name)
		if p := sl.Safe(func() { r.tripleRow(T, ai, A) }); p != nil {
			r.violate("C11 panic during comparison "+A.m.k.String(), fmt.Sprintf("panic %v in triples with a=%s", p.Value, desc(A)), map[string]any{"a": desc(A), "stack": p.Stack})
		}
	}
}

func (r *runner) tripleRow(T []*ent, ai int, A *ent) {
	c := r.c
	ordClass := func(x, y *ent) bool { return x.m.k == y.m.k && orderedKind(x.m.k) }
	rowA := make([]rel, len(T))
	for i, B := range T {
		rowA[i] = observe(A.v, B.v, ordClass(A, B))
	}
	for bi, B := range T {
		ab := rowA[bi]
		for ci, C := range T {
			ac := rowA[ci]
			bc := observe(B.v, C.v, ordClass(B, C))
			c.Eval(1)
			c.Count("triples", 1)
			nontrivial := false
			det := func() map[string]any {
				return map[string]any{"a": desc(A), "b": desc(B), "c": desc(C)}
			}
			if ab.eq == tT && bc.eq == tT {
				nontrivial = true
				c.Count("triples_eq_antecedent", 1)
				if ai != bi && bi != ci && ai != ci {
					c.Count("triples_eq_antecedent_distinct", 1)
				}
				switch ac.eq {
				case tF:
					r.violate("C11 == not transitive "+kindPair(A.m, C.m),
						fmt.Sprintf("a == b and b == c but a == c is False: a=%s b=%s c=%s", desc(A), desc(B), desc(C)), det())
				case tE:
					c.Count("triples_eq_conclusion_error", 1)
				}
			}
			// congruence of == with the order, and transitivity of < and <=
			if ordClass(A, B) && ordClass(B, C) {
				type law struct {
					p1, p2, concl tri
					name          string
				}
				laws := []law{
					{ab.le, bc.le, ac.le, "a <= b and b <= c but not a <= c"},
					{ab.lt, bc.lt, ac.lt, "a < b and b < c but not a < c"},
					{ab.lt, bc.le, ac.lt, "a < b and b <= c but not a < c"},
					{ab.le, bc.lt, ac.lt, "a <= b and b < c but not a < c"},
					{ab.eq, bc.lt, ac.lt, "a == b and b < c but not a < c"},
					{ab.lt, bc.eq, ac.lt, "a < b and b == c but not a < c"},
				}
				for _, l := range laws {
					if l.p1 == tT && l.p2 == tT {
						nontrivial = true
						c.Count("triples_order_antecedent", 1)
						switch l.concl {
						case tF:
							r.violate("C11 order not transitive "+A.m.k.String(),
								fmt.Sprintf("%s: a=%s b=%s c=%s", l.name, desc(A), desc(B), desc(C)), det())
						case tE:
							c.Count("triples_order_conclusion_error", 1)
						}
					}
				}
			}
			if nontrivial {
				c.DistinctH(1<<62 | uint64(A.idx)<<40 | uint64(B.idx)<<20 | uint64(C.idx))
				if ai != bi && bi != ci && ai != ci && (ai+bi+ci)%11 == 0 && r.wantSample("triple") {
					c.Sample(map[string]any{"phase": "triple", "a": desc(A), "b": desc(B), "c": desc(C),
						"a==b": ab.eq.String(), "b==c": bc.eq.String(), "a==c": ac.eq.String(), "a<b": ab.lt.String(), "b<c": bc.lt.String(), "a<c": ac.lt.String()})
				}
			}
		}
	}
}
