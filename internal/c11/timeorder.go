package c11

import (
	"fmt"
	"math"
	"math/rand"
	"time"

	stime "go.starlark.net/lib/time"
	"go.starlark.net/starlark"
	"go.starlark.net/syntax"

	"verif/internal/sl"
)

// Time values over their whole range.
//
// time.duration is an int64 count of nanoseconds and time.time an instant between the years 1 and
// 9999; both types are starlark.TotallyOrdered.  The main pool holds a handful of each.  This family
// builds a second pool that spreads them over the whole representable range - durations at 0, +-1,
// the 2^31/2^32/2^53/2^62 boundaries, +-2000000h, MinInt64 and MaxInt64 and seed-determined
// values drawn uniformly from all of int64 (so that many pairs have opposite sign and lie further
// apart than 2^63 ns, where a difference no longer fits); instants on both sides of the range in which
// UnixNano fits in int64 (1677..2262), the years 1, 1000, 3000 and 9999, equal instants in several
// zones - each value also built by a second route (nanosecond * n, parse_duration, from_timestamp).
// On it run: the complete pair oracle (r.pair: == and hash coherence, dict/set probe, the six
// operators both ways against the laws and against the expected order), transitivity on every
// triple of each type, and sorted/min/max on random sequences with ties.

func (r *runner) buildTimePool(rng *rand.Rand, base int) (durs, times []*ent) {
	idx := base
	mk := func(x vm) *ent {
		e := &ent{v: x.v, m: x.m, name: x.n, idx: idx}
		idx++
		return e
	}
	th := r.env.thread
	member := func(name string) starlark.Value { return stime.Module.Members[name] }

	// ---- durations
	h := int64(time.Hour)
	ds := []int64{0, 1, -1, 2, -2, 1e9, -1e9, h, -h, 1 << 31, -(1 << 31), 1 << 32, -(1 << 32), 1<<32 + 1,
		1 << 53, -(1 << 53), 1<<62 - 1, 1 << 62, 1<<62 + 1, -(1 << 62) + 1, -(1 << 62), -(1 << 62) - 1, 3 << 61, -(3 << 61),
		2000000 * h, -2000000 * h, 2000000*h + 1, math.MaxInt64, math.MaxInt64 - 1, math.MinInt64, math.MinInt64 + 1, math.MinInt64 + 2}
	for i := 0; i < 10; i++ {
		ds = append(ds, int64(rng.Uint64()))
	}
	for i, d := range ds {
		durs = append(durs, mk(vm{stime.Duration(d), mDur(d), fmt.Sprintf("duration %dns", d)}))
		switch i % 3 {
		case 0: // nanosecond * n through Duration.Binary
			if v, err := starlark.Binary(syntax.STAR, member("nanosecond"), starlark.MakeInt64(d)); err == nil {
				if dv, ok := v.(stime.Duration); ok && int64(dv) == d {
					durs = append(durs, mk(vm{v, mDur(d), fmt.Sprintf("duration %dns via time.nanosecond * %d", d, d)}))
				}
			}
		case 1: // time.parse_duration("<n>ns")
			if v, err := starlark.Call(th, member("parse_duration"), starlark.Tuple{starlark.String(fmt.Sprintf("%dns", d))}, nil); err == nil {
				if dv, ok := v.(stime.Duration); ok && int64(dv) == d {
					durs = append(durs, mk(vm{v, mDur(d), fmt.Sprintf("duration %dns via time.parse_duration", d)}))
				}
			}
		}
	}

	// ---- instants (seconds since the epoch, nanoseconds within the second)
	type inst struct{ sec, nsec int64 }
	const year1, year9999end = -62135596800, 253402300799
	is := []inst{{year1, 0}, {year1, 1}, {-30610224000, 0}, // years 1 and 1000
		{-9223372037, 145224191}, {-9223372037, 145224192}, {-9223372036, 0}, // around the least UnixNano
		{-(1 << 32), 0}, {-1, 999999999}, {0, 0}, {0, 1}, {1, 0}, {1704110400, 0}, {1 << 31, 0}, {1 << 32, 5},
		{9223372036, 854775807}, {9223372036, 854775808}, {9223372037, 0}, // around the greatest UnixNano
		{32503680000, 0}, {year9999end, 999999999}, {year9999end, 0}}
	for i := 0; i < 8; i++ {
		is = append(is, inst{year1 + rng.Int63n(year9999end-year1), rng.Int63n(1e9)})
	}
	east := time.FixedZone("east", 5*3600+1800)
	west := time.FixedZone("west", -8*3600)
	tm := func(t time.Time, how string) vm {
		return vm{stime.Time(t), mTime(t.Unix(), int64(t.Nanosecond())), "time " + t.Format(time.RFC3339Nano) + " " + how}
	}
	for i, x := range is {
		t := time.Unix(x.sec, x.nsec).UTC()
		times = append(times, mk(tm(t, "UTC")))
		switch i % 3 {
		case 0:
			times = append(times, mk(tm(t.In(east), "zone +05:30")))
		case 1:
			if v, err := starlark.Call(th, member("from_timestamp"), starlark.Tuple{starlark.MakeInt64(x.sec), starlark.MakeInt64(x.nsec)}, nil); err == nil {
				if tv, ok := v.(stime.Time); ok {
					tt := time.Time(tv)
					times = append(times, mk(vm{v, mTime(tt.Unix(), int64(tt.Nanosecond())), fmt.Sprintf("time.from_timestamp(%d, %d)", x.sec, x.nsec)}))
				}
			}
		case 2:
			if i%2 == 0 {
				times = append(times, mk(tm(t.In(west), "zone -08:00")))
			}
		}
	}
	return
}

func (r *runner) timeOrder(nsort int) {
	c := r.c
	all := append(append([]*ent(nil), r.tdurs...), r.ttimes...)
	c.Cover("time_pool_size", fmt.Sprintf("%d durations, %d times", len(r.tdurs), len(r.ttimes)))

	// --- every unordered pair, complete pair oracle
	for i, X := range all {
		if !c.Take() {
			continue
		}
		c.Note("time-order pairs row %d (%s)", i, X.name)
		for _, Y := range all[i:] {
			if p := sl.Safe(func() { r.pair(X, Y) }); p != nil {
				r.violate("C11 panic during comparison "+kindPair(X.m, Y.m),
					fmt.Sprintf("panic %v while comparing/hashing %s and %s", p.Value, desc(X), desc(Y)),
					map[string]any{"x": desc(X), "y": desc(Y), "stack": p.Stack})
			}
			c.Eval(1)
			if X.m.k == Y.m.k {
				c.Count("time_order_pairs", 1)
				if X.m.k == kDur {
					// further apart than 2^63 ns: the int64 difference of the two overflows
					lo, hi := min(X.m.nsec, Y.m.nsec), max(X.m.nsec, Y.m.nsec)
					if uint64(hi)-uint64(lo) > math.MaxInt64 {
						c.Count("duration_pairs_further_apart_than_2^63ns", 1)
					}
				}
				if X.m.k == kTime {
					if a, b := time.Time(X.v.(stime.Time)), time.Time(Y.v.(stime.Time)); a.Year() < 1678 || a.Year() > 2261 || b.Year() < 1678 || b.Year() > 2261 {
						c.Count("time_pairs_outside_unixnano_range", 1)
					}
				}
			}
		}
	}

	// --- transitivity on every triple of each type
	for _, T := range [][]*ent{r.tdurs, r.ttimes} {
		for ai, A := range T {
			if !c.Take() {
				continue
			}
			c.Note("time-order triples with a = %s", A.name)
			if p := sl.Safe(func() { r.tripleRow(T, ai, A) }); p != nil {
				r.violate("C11 panic during comparison "+A.m.k.String(), fmt.Sprintf("panic %v in triples with a=%s", p.Value, desc(A)), map[string]any{"a": desc(A), "stack": p.Stack})
			}
			c.Count("time_order_triple_rows", 1)
		}
	}

	// --- sorted / min / max
	for k := 0; k < nsort; k++ {
		if !c.Take() {
			continue
		}
		rng := c.Rand()
		class, from := "duration", r.tdurs
		if rng.Intn(3) == 0 {
			class, from = "time", r.ttimes
		}
		n := rng.Intn(31)
		if rng.Intn(6) == 0 {
			n = 2 + rng.Intn(2)
		}
		psize := 1 + rng.Intn(max(n, 1))
		if rng.Intn(2) == 0 {
			psize = 1 + rng.Intn(6)
		}
		palette := make([]vm, psize)
		for i := range palette {
			e := from[rng.Intn(len(from))]
			palette[i] = vm{e.v, e.m, e.name}
		}
		seq := make([]vm, n)
		for i := range seq {
			seq[i] = palette[rng.Intn(psize)]
		}
		c.Note("time-order sort case class=%s len=%d", class, n)
		if p := sl.Safe(func() { r.sortCase(class, seq) }); p != nil {
			r.violate("C11 panic in sorted/min/max "+class, fmt.Sprintf("panic %v, input %s", p.Value, seqStr(seq)), map[string]any{"input": seqStr(seq), "stack": p.Stack})
		}
		c.Count("time_order_sort_cases", 1)
	}
}
