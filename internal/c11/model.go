package c11

import (
	"fmt"
	"math"
	"math/big"
	"strings"

	"go.starlark.net/starlark"
)

// The model is an independent description of what each pool value denotes. It is built
// side by side with the Starlark value from the construction parameters (never by asking the
// implementation to compare or hash anything), and gives the expected equality and the
// expected order demanded by the specification:
//
//   numbers   mathematical value as a big.Rat; NaN equal to itself and greater than +Inf
//   string    bytewise;  bytes  bytewise;  bool  False < True
//   tuple/list  lexicographic, elementwise
//   range     the denoted sequence of integers
//   dict/set  equal contents;  struct  equal constructor, names and values
//   function / builtin  identity;  time  the instant;  duration  the number of nanoseconds
//   values of different types are unequal (int and float are one numeric type).

type kind int

const (
	kNone kind = iota
	kBool
	kNum
	kStr
	kBytes
	kTuple
	kList
	kRange
	kStruct
	kFunc
	kBuiltin
	kTime
	kDur
	kDict
	kSet
)

var kindNames = [...]string{"none", "bool", "num", "string", "bytes", "tuple", "list", "range", "struct", "function", "builtin", "time", "duration", "dict", "set"}

func (k kind) String() string { return kindNames[k] }

const (
	finite = iota
	negInf
	posInf
	nan // greatest
)

type model struct {
	k        kind
	b        bool
	rat      *big.Rat // kNum, finite
	special  int      // kNum: finite / negInf / posInf / nan
	isFloat  bool
	s        string   // kStr, kBytes
	elems    []*model // kTuple, kList, kSet (members), kDict (values, parallel to keys)
	keys     []*model // kDict keys, kStruct: unused
	names    []string // kStruct field names (sorted), parallel to elems
	ctor     *model   // kStruct
	seq      []int64  // kRange
	id       int      // kFunc, kBuiltin: identity
	sec      int64    // kTime
	nsec     int64    // kTime / kDur (nanoseconds)
	nest     int      // container nesting depth (atoms 0)
	hashable bool
}

func maxNest(ms ...[]*model) int {
	n := -1
	for _, l := range ms {
		for _, m := range l {
			if m.nest > n {
				n = m.nest
			}
		}
	}
	return n
}

func allHashable(l []*model) bool {
	for _, m := range l {
		if !m.hashable {
			return false
		}
	}
	return true
}

func mNone() *model          { return &model{k: kNone, hashable: true} }
func mBool(b bool) *model    { return &model{k: kBool, b: b, hashable: true} }
func mStr(s string) *model   { return &model{k: kStr, s: s, hashable: true} }
func mBytes(s string) *model { return &model{k: kBytes, s: s, hashable: true} }
func mInt(b *big.Int) *model {
	return &model{k: kNum, rat: new(big.Rat).SetInt(b), hashable: true}
}
func mFloat(f float64) *model {
	m := &model{k: kNum, isFloat: true, hashable: true}
	switch {
	case f != f:
		m.special = nan
	case math.IsInf(f, 1):
		m.special = posInf
	case math.IsInf(f, -1):
		m.special = negInf
	default:
		m.rat = new(big.Rat).SetFloat64(f)
	}
	return m
}
func mTuple(e []*model) *model {
	return &model{k: kTuple, elems: e, nest: 1 + max(maxNest(e), 0), hashable: allHashable(e)}
}
func mList(e []*model) *model {
	return &model{k: kList, elems: e, nest: 1 + max(maxNest(e), 0)}
}
func mSet(e []*model) *model { return &model{k: kSet, elems: e, nest: 1 + max(maxNest(e), 0)} }
func mDict(k, v []*model) *model {
	return &model{k: kDict, keys: k, elems: v, nest: 1 + max(maxNest(k, v), 0)}
}
func mStruct(ctor *model, names []string, vals []*model) *model {
	return &model{k: kStruct, ctor: ctor, names: names, elems: vals, nest: 1 + max(maxNest(vals), 0), hashable: allHashable(vals)}
}
func mRange(seq []int64) *model { return &model{k: kRange, seq: seq} }
func mFunc(id int) *model       { return &model{k: kFunc, id: id, hashable: true} }
func mBuiltin(id int) *model    { return &model{k: kBuiltin, id: id, hashable: true} }
func mTime(sec, nsec int64) *model {
	return &model{k: kTime, sec: sec, nsec: nsec, hashable: true}
}
func mDur(n int64) *model { return &model{k: kDur, nsec: n, hashable: true} }

// numCmp orders numbers: -Inf < finite (mathematical) < +Inf < NaN, NaN == NaN.
func numCmp(a, b *model) int {
	if a.special != finite || b.special != finite {
		ra, rb := rank(a), rank(b)
		switch {
		case ra < rb:
			return -1
		case ra > rb:
			return 1
		}
		return 0
	}
	return a.rat.Cmp(b.rat)
}

func rank(m *model) int {
	switch m.special {
	case negInf:
		return 0
	case finite:
		return 1
	case posInf:
		return 2
	}
	return 3
}

// refEq is the expected result of a == b.
func refEq(a, b *model) bool {
	if a.k != b.k {
		return false
	}
	switch a.k {
	case kNone:
		return true
	case kBool:
		return a.b == b.b
	case kNum:
		return numCmp(a, b) == 0
	case kStr, kBytes:
		return a.s == b.s
	case kTuple, kList:
		if len(a.elems) != len(b.elems) {
			return false
		}
		for i := range a.elems {
			if !refEq(a.elems[i], b.elems[i]) {
				return false
			}
		}
		return true
	case kRange:
		if len(a.seq) != len(b.seq) {
			return false
		}
		for i := range a.seq {
			if a.seq[i] != b.seq[i] {
				return false
			}
		}
		return true
	case kStruct:
		if !refEq(a.ctor, b.ctor) || len(a.names) != len(b.names) {
			return false
		}
		for i := range a.names {
			if a.names[i] != b.names[i] || !refEq(a.elems[i], b.elems[i]) {
				return false
			}
		}
		return true
	case kFunc, kBuiltin:
		return a.id == b.id
	case kTime:
		return a.sec == b.sec && a.nsec == b.nsec
	case kDur:
		return a.nsec == b.nsec
	case kSet:
		if len(a.elems) != len(b.elems) {
			return false
		}
		for _, x := range a.elems {
			found := false
			for _, y := range b.elems {
				if refEq(x, y) {
					found = true
					break
				}
			}
			if !found {
				return false
			}
		}
		return true
	case kDict:
		if len(a.keys) != len(b.keys) {
			return false
		}
		for i, x := range a.keys {
			found := false
			for j, y := range b.keys {
				if refEq(x, y) {
					found = refEq(a.elems[i], b.elems[j])
					break
				}
			}
			if !found {
				return false
			}
		}
		return true
	}
	panic("refEq: kind")
}

// orderedKind reports whether the kind is an ordered type: the six the property lists, and the
// two time types of its quantifier, which declare themselves starlark.TotallyOrdered (lib/time:
// "Cmp implements comparison of two Duration values. required by starlark.TotallyOrdered interface";
// value.go: the values of a TotallyOrdered type "form a total order").
func orderedKind(k kind) bool {
	switch k {
	case kBool, kNum, kStr, kBytes, kTuple, kList, kTime, kDur:
		return true
	}
	return false
}

func cmp64(a, b int64) int {
	switch {
	case a < b:
		return -1
	case a > b:
		return 1
	}
	return 0
}

// refCmp is the expected three-way order of a and b. ok is false when the specification gives
// the pair no order (different types, unordered type, or a lexicographic comparison whose
// deciding elements have no order).
func refCmp(a, b *model) (c int, ok bool) {
	if a.k != b.k || !orderedKind(a.k) {
		return 0, false
	}
	switch a.k {
	case kBool:
		return b2i(a.b) - b2i(b.b), true
	case kNum:
		return numCmp(a, b), true
	case kStr, kBytes:
		return strings.Compare(a.s, b.s), true // bytewise
	case kDur: // the signed number of nanoseconds
		return cmp64(a.nsec, b.nsec), true
	case kTime: // the instant: whole seconds since the epoch (floor), then nanoseconds within the second
		if c := cmp64(a.sec, b.sec); c != 0 {
			return c, true
		}
		return cmp64(a.nsec, b.nsec), true
	case kTuple, kList:
		for i := 0; i < len(a.elems) && i < len(b.elems); i++ {
			if !refEq(a.elems[i], b.elems[i]) {
				return refCmp(a.elems[i], b.elems[i])
			}
		}
		return sign(len(a.elems) - len(b.elems)), true
	}
	panic("refCmp: kind")
}

// totallyOrdered reports whether every comparison among values of this shape has an order:
// the value is an ordered scalar, or a tuple/list all of whose elements are.  (Used to select
// elements for the sort workload, where every pair that the algorithm may compare must have one.)
func shape(m *model) string {
	switch m.k {
	case kTuple, kList:
		var b strings.Builder
		b.WriteString(m.k.String())
		b.WriteByte('(')
		for i, e := range m.elems {
			if i > 0 {
				b.WriteByte(',')
			}
			b.WriteString(shape(e))
		}
		b.WriteByte(')')
		return b.String()
	}
	return m.k.String()
}

func b2i(b bool) int {
	if b {
		return 1
	}
	return 0
}

func sign(x int) int {
	switch {
	case x < 0:
		return -1
	case x > 0:
		return 1
	}
	return 0
}

// ident is a fingerprint of the observable identity of a value: two values with the same ident are
// indistinguishable to a Starlark program (same type, same contents down to float bit patterns;
// same object for reference types).  Used to recognise which input element an output element is.
func ident(v starlark.Value) string {
	switch v := v.(type) {
	case starlark.NoneType:
		return "N"
	case starlark.Bool:
		if v {
			return "b1"
		}
		return "b0"
	case starlark.Int:
		return "i" + v.String()
	case starlark.Float:
		return fmt.Sprintf("f%016x", math.Float64bits(float64(v)))
	case starlark.String:
		return fmt.Sprintf("s%q", string(v))
	case starlark.Bytes:
		return fmt.Sprintf("y%q", string(v))
	case starlark.Tuple:
		var b strings.Builder
		b.WriteString("t(")
		for _, e := range v {
			b.WriteString(ident(e))
			b.WriteByte(',')
		}
		b.WriteByte(')')
		return b.String()
	case *starlark.List, *starlark.Dict, *starlark.Set, *starlark.Function, *starlark.Builtin:
		return fmt.Sprintf("%T@%p", v, v)
	}
	return fmt.Sprintf("%T:%s", v, v.String())
}
