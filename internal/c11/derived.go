package c11

import (
	"fmt"
	"math"
	"math/big"
	"math/rand"

	"go.starlark.net/starlark"
	"go.starlark.net/syntax"

	"verif/internal/sl"
)

// Operator-result ints.
//
// Every int of the main pool is constructed directly (MakeBigInt, MakeInt64, int()).  A program
// mostly meets ints that are the *result* of an operator, and the implementation has two
// representations (small / big.Int-backed) between which every operator result must be
// re-normalised: an int that lands back in the small range after a big-operand operation and is
// left in the big representation still prints and compares like the small one but hashes differently.
//
// This family evaluates | & ^ + - * // % << >> ~ - + on a grid of operands on both sides of the
// int32, int64 and uint64 boundaries (and on seed-determined operands chosen so that the result
// lands in the small range), through the interpreter and through the exported Int methods, and applies
// the coherence laws between each result r and the int c constructed directly from the mathematical
// result (math/big): if r == c then Hash(r) == Hash(c), r and c are interchangeable as dict keys and
// set members, none of r < c, r > c holds, r is ordered like c against c+1, and r hashes like the
// equal float.  Whether r has the expected value at all is arithmetic, not C11: an r that is not
// == c is only counted.

type derivedOp struct {
	sym   string
	fn    string // helper function in env
	tok   syntax.Token
	unary bool
	shift bool
}

var derivedOps = []derivedOp{
	{sym: "|", fn: "op_or", tok: syntax.PIPE},
	{sym: "&", fn: "op_and", tok: syntax.AMP},
	{sym: "^", fn: "op_xor", tok: syntax.CIRCUMFLEX},
	{sym: "+", fn: "op_add", tok: syntax.PLUS},
	{sym: "-", fn: "op_sub", tok: syntax.MINUS},
	{sym: "*", fn: "op_mul", tok: syntax.STAR},
	{sym: "//", fn: "op_floordiv", tok: syntax.SLASHSLASH},
	{sym: "%", fn: "op_mod", tok: syntax.PERCENT},
	{sym: "<<", fn: "op_lsh", tok: syntax.LTLT, shift: true},
	{sym: ">>", fn: "op_rsh", tok: syntax.GTGT, shift: true},
	{sym: "~x", fn: "op_not", tok: syntax.TILDE, unary: true},
	{sym: "-x", fn: "op_neg", tok: syntax.MINUS, unary: true},
	{sym: "+x", fn: "op_pos", tok: syntax.PLUS, unary: true},
}

func derivedOpBySym(sym string) derivedOp {
	for _, o := range derivedOps {
		if o.sym == sym {
			return o
		}
	}
	panic("derivedOpBySym " + sym)
}

// bigOp is the mathematical result of the operator (Python semantics: two's complement bitwise
// operations on negative numbers, floored division, remainder with the sign of the divisor,
// arithmetic right shift).  ok is false where the operation is undefined.
func bigOp(sym string, x, y *big.Int) (*big.Int, bool) {
	z := new(big.Int)
	switch sym {
	case "|":
		return z.Or(x, y), true
	case "&":
		return z.And(x, y), true
	case "^":
		return z.Xor(x, y), true
	case "+":
		return z.Add(x, y), true
	case "-":
		return z.Sub(x, y), true
	case "*":
		return z.Mul(x, y), true
	case "//", "%":
		if y.Sign() == 0 {
			return nil, false
		}
		q, m := new(big.Int), new(big.Int)
		q.QuoRem(x, y, m) // truncated
		if m.Sign() != 0 && (m.Sign() < 0) != (y.Sign() < 0) {
			q.Sub(q, big.NewInt(1))
			m.Add(m, y)
		}
		if sym == "//" {
			return q, true
		}
		return m, true
	case "<<", ">>":
		if y.Sign() < 0 || !y.IsInt64() || y.Int64() > 200 {
			return nil, false
		}
		if sym == "<<" {
			return z.Lsh(x, uint(y.Int64())), true
		}
		return z.Rsh(x, uint(y.Int64())), true // arithmetic (floor) for negative x
	case "~x":
		return z.Not(x), true
	case "-x":
		return z.Neg(x), true
	case "+x":
		return z.Set(x), true
	}
	panic("bigOp " + sym)
}

// methodOp applies the operator through the exported Int methods / starlark.Unary.
func methodOp(o derivedOp, x, y starlark.Int, yb *big.Int) (starlark.Value, error) {
	switch o.sym {
	case "|":
		return x.Or(y), nil
	case "&":
		return x.And(y), nil
	case "^":
		return x.Xor(y), nil
	case "+":
		return x.Add(y), nil
	case "-":
		return x.Sub(y), nil
	case "*":
		return x.Mul(y), nil
	case "//":
		return x.Div(y), nil // precondition y != 0: bigOp has rejected 0
	case "%":
		return x.Mod(y), nil
	case "<<":
		return x.Lsh(uint(yb.Int64())), nil
	case ">>":
		return x.Rsh(uint(yb.Int64())), nil
	case "~x":
		return x.Not(), nil
	default:
		return starlark.Unary(o.tok, x)
	}
}

func fitsInt32(b *big.Int) bool {
	return b.IsInt64() && b.Int64() >= math.MinInt32 && b.Int64() <= math.MaxInt32
}

func derivedGrid() (ops []*big.Int, shifts []*big.Int) {
	add := func(b *big.Int) {
		for _, o := range ops {
			if o.Cmp(b) == 0 {
				return
			}
		}
		ops = append(ops, b)
	}
	for _, s := range []int64{0, 1, -1, 2, -2, 5, -5, 7, -8, 255, -256, 65535, -65536, 0x55555555, -0x55555556,
		math.MaxInt32, math.MaxInt32 - 1, math.MinInt32, math.MinInt32 + 1} {
		add(big.NewInt(s))
	}
	for _, k := range []uint{31, 32, 63, 64, 70, 100} {
		p := pow2(k)
		for _, d := range []int64{-1, 0, 1} {
			add(bigAdd(p, d))
			add(bigNeg(bigAdd(p, d)))
		}
	}
	add(bigAdd(pow2(70), 5))
	add(bigNeg(bigAdd(pow2(70), 5)))
	add(bigAdd(pow2(33), 0x55555555))
	add(new(big.Int).Or(pow2(70), big.NewInt(0x2aaaaaaa)))
	add(bigNeg(new(big.Int).Or(pow2(64), big.NewInt(0x7fffffff))))
	for _, k := range []int64{0, 1, 2, 31, 32, 33, 38, 39, 40, 62, 63, 64, 69, 70, 71} {
		shifts = append(shifts, big.NewInt(k))
	}
	return
}

func (r *runner) derived(nrand int) {
	c := r.c
	ops, shifts := derivedGrid()
	c.Cover("derived_grid", fmt.Sprintf("%d operands, %d shift counts", len(ops), len(shifts)))
	// --- the grid: one case per left operand
	for _, x := range ops {
		if !c.Take() {
			continue
		}
		c.Note("operator-result ints, left operand %s", shortBig(x))
		for _, o := range derivedOps {
			switch {
			case o.unary:
				r.derivedEval(o, x, nil)
			case o.shift:
				for _, y := range shifts {
					r.derivedEval(o, x, y)
				}
			default:
				for _, y := range ops {
					r.derivedEval(o, x, y)
				}
			}
		}
	}
	// --- seed-determined operands whose result lands in (or next to) the small range
	for k := 0; k < nrand; k++ {
		if !c.Take() {
			continue
		}
		rng := c.Rand()
		c.Note("operator-result ints, random landing operands, case %d", k)
		for i := 0; i < 24; i++ {
			for _, t := range landingOperands(rng) {
				r.derivedEval(derivedOpBySym(t.sym), t.x, t.y)
			}
		}
	}
}

type opnd struct {
	sym  string
	x, y *big.Int
}

// landingOperands draws a big a and a small s and returns, for every operator, operands (at least
// one of them big) whose result is s.
func landingOperands(rng *rand.Rand) []opnd {
	a := pow2(uint(31 + rng.Intn(70)))
	switch rng.Intn(3) {
	case 0:
		a = bigAdd(a, int64(rng.Intn(7)-3))
	case 1:
		a.Add(a, big.NewInt(rng.Int63n(1<<31)))
	}
	if a.Cmp(pow2(31)) < 0 {
		a = pow2(31)
	}
	var s int64
	switch rng.Intn(6) {
	case 0:
		s = int64(rng.Intn(17) - 8)
	case 1:
		s = math.MinInt32 + int64(rng.Intn(3))
	case 2:
		s = math.MaxInt32 - int64(rng.Intn(3))
	default:
		s = rng.Int63n(1<<32) + math.MinInt32
	}
	sb := big.NewInt(s)
	na := bigNeg(a)
	out := []opnd{
		{"-", a, new(big.Int).Sub(a, sb)},
		{"-", na, new(big.Int).Sub(na, sb)},
		{"+", a, new(big.Int).Sub(sb, a)},
		{"^", a, new(big.Int).Xor(a, sb)},
		{"^", na, new(big.Int).Xor(na, sb)},
		{"|", a, sb}, {"|", sb, na}, {"&", a, sb}, {"&", sb, na},
		{"*", a, sb},
	}
	// x >> k == s for x = s << k
	kk := uint(32 + rng.Intn(60))
	out = append(out, opnd{">>", new(big.Int).Lsh(sb, kk), big.NewInt(int64(kk))})
	// (a*s + rem) // a == s for 0 <= rem < a
	rem := big.NewInt(rng.Int63n(1 << 31))
	x := new(big.Int).Mul(a, sb)
	x.Add(x, rem)
	out = append(out, opnd{"//", x, a})
	// x % d == s where d has the sign of s and |d| > |s|
	d := a
	if s < 0 {
		d = na
	}
	x2 := new(big.Int).Mul(d, big.NewInt(int64(rng.Intn(5))))
	x2.Add(x2, sb)
	out = append(out, opnd{"%", x2, d})
	out = append(out, opnd{"~x", new(big.Int).Not(sb), nil}, opnd{"-x", new(big.Int).Neg(sb), nil})
	return out
}

func (r *runner) derivedEval(o derivedOp, xb, yb *big.Int) {
	var yq *big.Int
	if !o.unary {
		yq = yb
	}
	want, ok := bigOp(o.sym, xb, yq)
	if !ok {
		return
	}
	x := starlark.MakeBigInt(xb)
	var y starlark.Int
	if !o.unary {
		y = starlark.MakeBigInt(yb)
	}
	expr := func() string {
		if o.unary {
			return o.sym + " with x=" + shortBig(xb)
		}
		return fmt.Sprintf("%s %s %s", shortBig(xb), o.sym, shortBig(yb))
	}
	fp := uint64(fnv32(o.sym + string(xb.Append(nil, 36))))
	if !o.unary {
		fp = fp<<28 ^ uint64(fnv32(string(yb.Append(nil, 36))))
	}
	fromBig := !fitsInt32(xb) || (!o.unary && !fitsInt32(yb))
	for route := 0; route < 2; route++ {
		var got starlark.Value
		var err error
		rname := "interpreter"
		p := sl.Safe(func() {
			if route == 0 {
				if o.unary {
					got, err = r.env.call(o.fn, x)
				} else {
					got, err = r.env.call(o.fn, x, y)
				}
			} else {
				rname = "Int method"
				got, err = methodOp(o, x, y, yb)
			}
		})
		if p != nil || err != nil {
			r.c.Count("derived_op_failed", 1) // not C11's concern
			continue
		}
		if pn := sl.Safe(func() { r.derivedCheck(o.sym, rname, expr, got, want, fromBig, fp<<1|uint64(route)) }); pn != nil {
			r.violate("C11 panic during comparison operator-result int",
				fmt.Sprintf("panic %v while comparing/hashing the result of %s (%s)", pn.Value, expr(), rname),
				map[string]any{"expr": expr(), "route": rname, "stack": pn.Stack})
		}
		r.c.Eval(1)
	}
}

func (r *runner) derivedCheck(sym, route string, expr func() string, got starlark.Value, want *big.Int, fromBig bool, fp uint64) {
	c := r.c
	if _, ok := got.(starlark.Int); !ok {
		c.Count("derived_not_int", 1)
		return
	}
	canon := starlark.MakeBigInt(want)
	c.Count("derived_results", 1)
	c.Cover("derived_ops", sym)
	c.Cover("derived_routes", route)
	small := fitsInt32(want)
	det := func(extra map[string]any) map[string]any {
		m := map[string]any{"expr": expr(), "route": route, "result": safeStr(got), "expected_value": shortBig(want), "op": sym}
		for k, v := range extra {
			m[k] = v
		}
		return m
	}
	what := func() string {
		return fmt.Sprintf("r = %s (%s) prints %s; c = the int %s constructed directly", expr(), route, safeStr(got), shortBig(want))
	}

	ev := func(fn string, a, b starlark.Value) tri { return toTri(r.env.call(fn, a, b)) }
	eqF, eqB := ev("eq", got, canon), ev("eq", canon, got)
	if eqF != eqB {
		r.violate("C11 == not symmetric operator-result int ("+sym+")", fmt.Sprintf("r == c gave %v but c == r gave %v: %s", eqF, eqB, what()), det(nil))
		return
	}
	if ev("eq", got, got) != tT {
		r.violate("C11 == not reflexive operator-result int ("+sym+")", fmt.Sprintf("r == r is not True: %s", what()), det(nil))
	}
	if eqF != tT {
		// the operator produced another value than the model: arithmetic, outside this property
		c.Count("derived_unequal_to_expected", 1)
		c.Cover("derived_unequal_to_expected_ops", sym)
		return
	}
	if ne := ev("ne", got, canon); ne != tF {
		r.violate("C11 != is not the negation of == operator-result int ("+sym+")", fmt.Sprintf("r == c is True and r != c gave %v: %s", ne, what()), det(nil))
	}
	if small && fromBig {
		c.Count("derived_small_from_big", 1)
		c.Cover("derived_small_from_big_ops", sym)
		if want.Sign() < 0 {
			c.Count("derived_small_negative_from_big", 1)
		}
		c.DistinctH(3<<61 | fp&(1<<60-1))
	}
	// --- equal hashes, stable
	hg, err1 := got.Hash()
	hg2, _ := got.Hash()
	hc, err2 := canon.Hash()
	if err1 != nil || err2 != nil {
		r.violate("C11 hashability unexpected operator-result int", fmt.Sprintf("Hash failed (%v, %v): %s", err1, err2, what()), det(nil))
		return
	}
	if hg != hg2 {
		r.violate("C11 hash changed operator-result int ("+sym+")", fmt.Sprintf("two Hash() calls gave %d and %d: %s", hg, hg2, what()), det(nil))
	}
	c.Count("derived_hash_eq_checked", 1)
	if hg != hc {
		r.violate("C11 operator-result int: equal ints have different hashes ("+sym+")",
			fmt.Sprintf("r == c but Hash(r)=%d Hash(c)=%d: %s", hg, hc, what()), det(map[string]any{"hash_r": hg, "hash_c": hc}))
	}
	// --- interchangeable as keys and members
	for d := 0; d < 2; d++ {
		a, b := got, starlark.Value(canon)
		if d == 1 {
			a, b = b, a
		}
		v, err := r.env.call("probe", a, b)
		c.Count("derived_probe_checked", 1)
		if err != nil {
			r.violate("C11 dict/set probe failed operator-result int ("+sym+")", fmt.Sprintf("probe failed: %v: %s (dir %d)", err, what(), d), det(nil))
			continue
		}
		if s := v.String(); s != "(True, 1, 1, 2, True, 1)" {
			r.violate("C11 operator-result int: equal ints are not interchangeable as dict/set keys ("+sym+")",
				fmt.Sprintf("r == c but (y in {x:1}, {x:1}.get(y), len after d[y]=2, d[x], y in set([x]), len after s.add(y)) = %s, want (True, 1, 1, 2, True, 1) with (x, y) = %s: %s",
					s, [2]string{"(r, c)", "(c, r)"}[d], what()), det(map[string]any{"got": s}))
		}
	}
	// --- one order with ==: none of <, > between equal values; congruent against the successor
	lt, gt, le, ge := ev("lt", got, canon), ev("gt", got, canon), ev("le", got, canon), ev("ge", got, canon)
	if lt != tF || gt != tF || le != tT || ge != tT {
		r.violate("C11 not exactly one of < == > operator-result int ("+sym+")",
			fmt.Sprintf("r == c is True but r<c %v, r>c %v, r<=c %v, r>=c %v: %s", lt, gt, le, ge, what()), det(nil))
	}
	next := starlark.MakeBigInt(bigAdd(want, 1))
	if ev("lt", canon, next) == tT {
		c.Count("derived_order_congruence_checked", 1)
		if a, b, e := ev("lt", got, next), ev("gt", next, got), ev("eq", got, next); a != tT || b != tT || e != tF {
			r.violate("C11 order not transitive operator-result int ("+sym+")",
				fmt.Sprintf("r == c and c < c+1 but r < c+1 gave %v, c+1 > r gave %v, r == c+1 gave %v: %s", a, b, e, what()), det(nil))
		}
	}
	// --- the equal float
	if f, acc := new(big.Float).SetInt(want).Float64(); acc == big.Exact && !math.IsInf(f, 0) {
		fv := starlark.Float(f)
		if ev("eq", got, fv) == tT && ev("eq", fv, got) == tT {
			c.Count("derived_hash_eq_checked_int_float", 1)
			if hf, err := fv.Hash(); err == nil && hf != hg {
				r.violate("C11 operator-result int: equal int and float have different hashes ("+sym+")",
					fmt.Sprintf("r == %v but Hash(r)=%d Hash(float)=%d: %s", fv, hg, hf, what()), det(nil))
			}
		}
	}
}

func fnv32(s string) uint32 {
	h := uint32(2166136261)
	for i := 0; i < len(s); i++ {
		h ^= uint32(s[i])
		h *= 16777619
	}
	return h
}
