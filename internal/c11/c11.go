// Package c11 monitors property C11: equality, hashing and ordering are mutually coherent.
//
// Real comparisons, hashes, dict/set operations and sorted/min/max calls are executed on a pool of
// values and every result is judged (a) against the algebraic laws as relations between observed
// results and (b) against an independent model of what each value denotes (model.go).
package c11

import (
	"fmt"
	"runtime"
	"strings"

	"go.starlark.net/starlark"

	"verif/internal/driver"
	"verif/internal/sl"
)

func init() {
	driver.Register(&driver.Engine{
		ID: "C11", Level: "exploration",
		Rule: "pool of bools, ints/floats of equal magnitude in every representation, strings/bytes around the 12-byte hash switch built by several routes, " +
			"tuples/lists nested to CompareLimit+1, ranges, structs, functions, times, durations, dicts, sets (plus seed-determined random extras). " +
			"Cases: every unordered pair of the pool (6 operators both ways through the interpreter, Equal/Compare/Hash through the Go API, dict/set probe), " +
			"every ordered triple of a sub-pool, random sequences of length <= 30 under sorted/min/max with and without key/reverse, dict/set tables holding the whole pool, " +
			"re-hashing after runtime.GC(). Distinct and non-trivial: a pair whose two values have the same type family (int/float together), so the outcome is not decided by " +
			"the type-mismatch shortcut; a triple in which the antecedent of a transitivity law held; a sort input of length >= 2; counted by pool indices / input fingerprint",
		Assumptions: []string{
			"time.duration and time.time are ordered types (they implement starlark.TotallyOrdered, whose values 'form a total order'): durations by signed nanosecond count, times by instant",
			"math/big two's-complement Or/And/Xor/Not, floored division and arithmetic Rsh give the mathematical value of an int operator result",
			"Go math/big (big.Rat order of ints and floats) and strings.Compare (bytewise order) are correct",
			"NaN is equal to itself and greater than +Inf (property statement, value.go floatCmp, testdata/float.star) although doc/spec.md still describes IEEE-754 NaN comparisons",
			"values of different types are unequal, int and float being one numeric type (spec: Comparisons)",
			"sorted(reverse=True) keeps equal keys in input order ('The sort algorithm is stable', spec: sorted)",
			"comparisons of structures nested less than CompareLimit deep must succeed; deeper ones may fail (value.go CompareLimit comment)",
		},
		Run: run,
		Variants: func(tier string) []driver.Variant {
			if tier == "thorough" {
				return []driver.Variant{{Name: "default"}, {Name: "fallback", VLimitKB: 3000000}}
			}
			return []driver.Variant{{Name: "default"}}
		},
		MinDistinct: 1000,
		Finish:      finish,
	})
}

// counters that must be non-zero for the run to have observed what the property talks about
var needCounters = []string{
	"pairs", "pairs_eq_true", "pairs_eq_true_int_float", "hash_eq_checked", "probe_equal_checked", "probe_unequal_checked",
	"order_pairs_checked", "order_pairs_int_float", "deep_errors_allowed", "triples", "triples_eq_antecedent", "triples_order_antecedent",
	"sort_calls", "sort_inputs_with_ties", "sort_stability_observable", "minmax_calls", "gc_rehash_values", "table_lookups", "hash_stable_checked",
	"strings_equal_distinct_backing",
}

func finish(ev map[string]any) (string, bool) {
	counters, _ := ev["counters"].(map[string]int64)
	var missing []string
	for _, n := range needCounters {
		if counters[n] == 0 {
			missing = append(missing, n)
		}
	}
	if len(missing) > 0 {
		return "nothing observed for: " + strings.Join(missing, ", "), true
	}
	cover, _ := ev["cover"].(map[string]map[string]struct{})
	if ev["tier"] == "thorough" {
		for _, want := range []string{"smallptr", "fallback"} {
			if _, ok := cover["int_repr"][want]; !ok {
				return "Int representation " + want + " was not exercised", true
			}
		}
	}
	return "", false
}

type runner struct {
	c    *driver.Ctx
	env  *env
	p    *pool
	h0   []uint32 // first observed Hash() of every pool value
	h0ok []bool
	ns   map[string]int // samples taken per phase in this shard

	tdurs, ttimes []*ent // the time-order family's own pool (timeorder.go); idx continues after the main pool
}

// wantSample allows at most two samples per shard, of one phase, so that the evidence shows every phase.
func (r *runner) wantSample(phase string) bool {
	// the parent keeps the first sample of the first few shards: let the shard number choose the phase
	if []string{"pair", "triple", "sort"}[r.c.Shard%3] != phase || r.ns[phase] >= 2 || !r.c.WantSample() {
		return false
	}
	r.ns[phase]++
	return true
}

func run(c *driver.Ctx) {
	runtime.GOMAXPROCS(2) // one worker thread per child plus the collector; the parent runs one child per core
	ev, err := newEnv()
	if err != nil {
		c.Inconclusive("cannot compile helper module: %v", err)
		return
	}
	// which Int representation is live: with the mmap'ed small-int arena two small ints are the same pointer
	if starlark.MakeInt(1) == starlark.MakeInt(1) {
		c.Cover("int_repr", "smallptr")
	} else {
		c.Cover("int_repr", "fallback")
	}
	if c.Variant == "fallback" && starlark.MakeInt(1) == starlark.MakeInt(1) {
		c.Inconclusive("variant fallback: the 4GB reservation succeeded, fallback Int representation not active")
	}
	target := c.Pick(480, 900)
	var p *pool
	if pn := sl.Safe(func() { p = buildPool(ev, c.GlobalRand("pool"), target) }); pn != nil {
		c.Inconclusive("pool construction panicked: %v", pn.Value)
		return
	}
	r := &runner{c: c, env: ev, p: p, ns: map[string]int{}}
	if pn := sl.Safe(func() { r.tdurs, r.ttimes = r.buildTimePool(c.GlobalRand("timeorder"), len(p.ents)) }); pn != nil {
		c.Inconclusive("time pool construction panicked: %v", pn.Value)
		return
	}
	nall := len(p.ents) + len(r.tdurs) + len(r.ttimes)
	r.h0 = make([]uint32, nall)
	r.h0ok = make([]bool, nall)
	for _, l := range [][]*ent{p.ents, r.tdurs, r.ttimes} {
		for _, e := range l {
			h, err := e.v.Hash()
			r.h0[e.idx], r.h0ok[e.idx] = h, err == nil
			c.Cover("kinds", e.m.k.String())
		}
	}
	c.Cover("pool_size", fmt.Sprint(len(p.ents)))

	r.pairs()
	r.triples(c.Pick(72, 180))
	r.sorts(c.Pick(2000, 200000))
	r.tables(c.Pick(24, 400))
	r.gcStability(c.Pick(8, 48))
	r.derived(c.Pick(48, 3000))
	r.timeOrder(c.Pick(400, 30000))
	r.freezeStability()
}

// ---------------------------------------------------------------------------------------------

func desc(e *ent) string {
	return fmt.Sprintf("%s = %s", e.String(), driver.Truncate(safeStr(e.v), 160))
}

func safeStr(v starlark.Value) (s string) {
	if p := sl.Safe(func() { s = v.String() }); p != nil {
		return fmt.Sprintf("<String() panicked: %v>", p.Value)
	}
	return
}

func kindPair(a, b *model) string {
	if a.k == b.k {
		return a.k.String()
	}
	x, y := a.k.String(), b.k.String()
	if x > y {
		x, y = y, x
	}
	return x + "/" + y
}

// mustSucceed: both values are nested less than CompareLimit deep, so no comparison of them may
// fail for depth reasons.
func shallow(ms ...*model) bool {
	for _, m := range ms {
		if m.nest >= starlark.CompareLimit {
			return false
		}
	}
	return true
}

func (r *runner) violate(key, what string, detail map[string]any) {
	r.c.Violation(key, what, detail)
}

// gcStability re-hashes every pool value after forced garbage collections.
func (r *runner) gcStability(n int) {
	c := r.c
	for k := 0; k < n; k++ {
		if !c.Take() {
			continue
		}
		c.Note("runtime.GC then re-hash pool, round %d", k)
		garbage := make([][]byte, 0, 64)
		rr := c.Rand()
		for i := 0; i < 64; i++ {
			garbage = append(garbage, make([]byte, 1+rr.Intn(1<<16)))
		}
		_ = garbage
		garbage = nil
		runtime.GC()
		runtime.GC()
		for i, e := range r.p.ents {
			r.checkHashStable(i, e, "after runtime.GC()")
			c.Count("gc_rehash_values", 1)
		}
		c.Eval(1)
	}
}

// freezeStability is the last case: freezing is part of a value's life, and its hash (and its
// equality with itself) must survive it.
func (r *runner) freezeStability() {
	c := r.c
	if !c.Take() {
		return
	}
	c.Note("freeze every pool value, then re-hash")
	for i, e := range r.p.ents {
		if p := sl.Safe(func() { e.v.Freeze() }); p != nil {
			c.Count("freeze_panics_ignored", 1) // C02/C04 territory
			continue
		}
		r.checkHashStable(i, e, "after Freeze()")
		c.Count("freeze_rehash_values", 1)
		if eq, err := starlark.Equal(e.v, e.v); err == nil && !eq {
			r.violate("C11 == not reflexive "+e.m.k.String(), fmt.Sprintf("x == x gave False after Freeze() for x=%s", desc(e)), map[string]any{"x": desc(e)})
		}
	}
	c.Eval(1)
}

func (r *runner) checkHashStable(i int, e *ent, when string) (uint32, bool) {
	var h uint32
	var err error
	if p := sl.Safe(func() { h, err = e.v.Hash() }); p != nil {
		r.violate("C11 Hash panicked "+e.m.k.String(), fmt.Sprintf("Hash() of %s panicked: %v", desc(e), p.Value), map[string]any{"value": desc(e), "stack": p.Stack})
		return 0, false
	}
	ok := err == nil
	if ok != r.h0ok[i] || (ok && h != r.h0[i]) {
		r.violate("C11 hash changed "+e.m.k.String(),
			fmt.Sprintf("Hash() of %s was (%d, ok=%v) at start and is (%d, ok=%v) %s", desc(e), r.h0[i], r.h0ok[i], h, ok, when),
			map[string]any{"value": desc(e), "first": r.h0[i], "now": h, "when": when})
	}
	if ok {
		r.c.Count("hash_stable_checked", 1)
	}
	if ok != e.m.hashable {
		// hashability itself is stated by the spec (Hashing); it is part of "interchangeable as keys"
		r.violate("C11 hashability unexpected "+e.m.k.String(),
			fmt.Sprintf("Hash() of %s: ok=%v but the spec makes it hashable=%v (err=%v)", desc(e), ok, e.m.hashable, err),
			map[string]any{"value": desc(e)})
	}
	return h, ok
}
