// Package refeval is a reference evaluator for Starlark: a direct interpreter of the syntax tree
// (never resolved or compiled) written from doc/spec.md. It re-implements block structure and name
// binding, closures, evaluation order, short-circuiting, control flow, assignment forms, argument
// binding and the recursion rule. It shares only the value library with the production VM
// (starlark.Binary/Unary/Compare/Iterate/Call for built-ins and the value interfaces).
package refeval

import (
	"go.starlark.net/syntax"
)

// boundNames returns the names bound by the statements of one block (function body or module),
// in first-binding order: assignment and augmented-assignment targets, for-loop variables, def
// names and load bindings. Nested function bodies and comprehensions are separate blocks.
func boundNames(stmts []syntax.Stmt) []string {
	var names []string
	seen := map[string]bool{}
	add := func(n string) {
		if !seen[n] {
			seen[n] = true
			names = append(names, n)
		}
	}
	var target func(e syntax.Expr)
	target = func(e syntax.Expr) {
		switch e := e.(type) {
		case *syntax.Ident:
			add(e.Name)
		case *syntax.TupleExpr:
			for _, x := range e.List {
				target(x)
			}
		case *syntax.ListExpr:
			for _, x := range e.List {
				target(x)
			}
		case *syntax.ParenExpr:
			target(e.X)
		}
	}
	var walk func(stmts []syntax.Stmt)
	walk = func(stmts []syntax.Stmt) {
		for _, s := range stmts {
			switch s := s.(type) {
			case *syntax.AssignStmt:
				target(s.LHS)
			case *syntax.DefStmt:
				add(s.Name.Name)
			case *syntax.ForStmt:
				target(s.Vars)
				walk(s.Body)
			case *syntax.WhileStmt:
				walk(s.Body)
			case *syntax.IfStmt:
				walk(s.True)
				walk(s.False)
			case *syntax.LoadStmt:
				for _, to := range s.To {
					add(to.Name)
				}
			}
		}
	}
	walk(stmts)
	return names
}

// loadNames returns the names bound by load statements at the top level of a module.
func loadNames(stmts []syntax.Stmt) map[string]bool {
	m := map[string]bool{}
	for _, s := range stmts {
		if l, ok := s.(*syntax.LoadStmt); ok {
			for _, to := range l.To {
				m[to.Name] = true
			}
		}
	}
	return m
}

// targetNames returns the identifiers bound by a target expression.
func targetNames(e syntax.Expr) []string {
	var out []string
	var f func(e syntax.Expr)
	f = func(e syntax.Expr) {
		switch e := e.(type) {
		case *syntax.Ident:
			out = append(out, e.Name)
		case *syntax.TupleExpr:
			for _, x := range e.List {
				f(x)
			}
		case *syntax.ListExpr:
			for _, x := range e.List {
				f(x)
			}
		case *syntax.ParenExpr:
			f(e.X)
		}
	}
	f(e)
	return out
}

// earlyUses implements the legacy GlobalReassign rule for module-level code: a use of a global
// that textually precedes every binding of that name does not refer to the global but to the
// predeclared or universal name. It returns the set of such identifier occurrences.
// (Function bodies are resolved after the whole module, so every global is visible in them.)
func earlyUses(stmts []syntax.Stmt, globals map[string]bool) map[*syntax.Ident]bool {
	early := map[*syntax.Ident]bool{}
	bound := map[string]bool{}
	var use func(e syntax.Expr, shadow map[string]bool)
	var bindTarget func(e syntax.Expr)
	bindTarget = func(e syntax.Expr) {
		for _, n := range targetNames(e) {
			bound[n] = true
		}
	}
	useTargetSubexprs := func(e syntax.Expr, shadow map[string]bool) {
		// index and attribute targets evaluate sub-expressions
		var f func(e syntax.Expr)
		f = func(e syntax.Expr) {
			switch e := e.(type) {
			case *syntax.TupleExpr:
				for _, x := range e.List {
					f(x)
				}
			case *syntax.ListExpr:
				for _, x := range e.List {
					f(x)
				}
			case *syntax.ParenExpr:
				f(e.X)
			case *syntax.IndexExpr:
				use(e.X, shadow)
				use(e.Y, shadow)
			case *syntax.DotExpr:
				use(e.X, shadow)
			}
		}
		f(e)
	}
	use = func(e syntax.Expr, shadow map[string]bool) {
		if e == nil {
			return
		}
		switch e := e.(type) {
		case *syntax.Ident:
			if globals[e.Name] && !bound[e.Name] && !shadow[e.Name] {
				early[e] = true
			}
		case *syntax.Literal:
		case *syntax.ParenExpr:
			use(e.X, shadow)
		case *syntax.UnaryExpr:
			use(e.X, shadow)
		case *syntax.BinaryExpr:
			if e.Op == syntax.EQ { // named argument
				use(e.Y, shadow)
				return
			}
			use(e.X, shadow)
			use(e.Y, shadow)
		case *syntax.CondExpr:
			use(e.Cond, shadow)
			use(e.True, shadow)
			use(e.False, shadow)
		case *syntax.CallExpr:
			use(e.Fn, shadow)
			for _, a := range e.Args {
				use(a, shadow)
			}
		case *syntax.IndexExpr:
			use(e.X, shadow)
			use(e.Y, shadow)
		case *syntax.SliceExpr:
			use(e.X, shadow)
			use(e.Lo, shadow)
			use(e.Hi, shadow)
			use(e.Step, shadow)
		case *syntax.DotExpr:
			use(e.X, shadow)
		case *syntax.ListExpr:
			for _, x := range e.List {
				use(x, shadow)
			}
		case *syntax.TupleExpr:
			for _, x := range e.List {
				use(x, shadow)
			}
		case *syntax.DictExpr:
			for _, x := range e.List {
				use(x, shadow)
			}
		case *syntax.DictEntry:
			use(e.Key, shadow)
			use(e.Value, shadow)
		case *syntax.LambdaExpr:
			// defaults are evaluated now; the body is resolved after the module
			for _, p := range e.Params {
				if b, ok := p.(*syntax.BinaryExpr); ok {
					use(b.Y, shadow)
				}
			}
		case *syntax.Comprehension:
			sh := map[string]bool{}
			for k := range shadow {
				sh[k] = true
			}
			for i, c := range e.Clauses {
				switch c := c.(type) {
				case *syntax.ForClause:
					if i == 0 {
						use(c.X, shadow)
					} else {
						use(c.X, sh)
					}
					for _, n := range targetNames(c.Vars) {
						sh[n] = true
					}
				case *syntax.IfClause:
					use(c.Cond, sh)
				}
			}
			use(e.Body, sh)
		}
	}
	var walk func(stmts []syntax.Stmt)
	walk = func(stmts []syntax.Stmt) {
		for _, s := range stmts {
			switch s := s.(type) {
			case *syntax.AssignStmt:
				use(s.RHS, nil)
				useTargetSubexprs(s.LHS, nil)
				if s.Op != syntax.EQ {
					use(s.LHS, nil) // augmented assignment reads the target first
				}
				bindTarget(s.LHS)
			case *syntax.ExprStmt:
				use(s.X, nil)
			case *syntax.DefStmt:
				for _, p := range s.Params {
					if b, ok := p.(*syntax.BinaryExpr); ok {
						use(b.Y, nil)
					}
				}
				bound[s.Name.Name] = true
			case *syntax.ForStmt:
				use(s.X, nil)
				useTargetSubexprs(s.Vars, nil)
				bindTarget(s.Vars)
				walk(s.Body)
			case *syntax.WhileStmt:
				use(s.Cond, nil)
				walk(s.Body)
			case *syntax.IfStmt:
				use(s.Cond, nil)
				walk(s.True)
				walk(s.False)
			case *syntax.ReturnStmt:
				use(s.Result, nil)
			case *syntax.LoadStmt:
				for _, to := range s.To {
					bound[to.Name] = true
				}
			}
		}
	}
	walk(stmts)
	return early
}
