package refeval

import (
	"fmt"

	"go.starlark.net/starlark"
	"go.starlark.net/syntax"
)

type param struct {
	name     string
	def      starlark.Value // nil = required
	kwonly   bool
}

// Func is a function value of the reference evaluator. It is a starlark.Callable, so built-ins
// (sorted(key=…), min, host callbacks) can call back into the reference evaluator.
type Func struct {
	in      *Interp
	name    string
	node    syntax.Node // *syntax.DefStmt or *syntax.LambdaExpr: the definition (identity for the recursion rule)
	params  []param
	varargs string // "" = none
	kwargs  string
	body    []syntax.Stmt // def
	expr    syntax.Expr   // lambda
	locals  []string
	closure *env
	pos     syntax.Position
}

var _ starlark.Callable = (*Func)(nil)

func (f *Func) Name() string          { return f.name }
func (f *Func) String() string        { return fmt.Sprintf("<function %s>", f.name) }
func (f *Func) Type() string          { return "function" }
func (f *Func) Truth() starlark.Bool  { return true }
func (f *Func) Hash() (uint32, error) { return starlark.String(f.name).Hash() }
func (f *Func) Freeze() {
	for _, p := range f.params {
		if p.def != nil {
			p.def.Freeze()
		}
	}
}

// Position returns the position of the def or lambda keyword.
func (f *Func) Position() syntax.Position { return f.pos }

// NumParams etc. mirror the accessors of *starlark.Function for canonical rendering.
func (f *Func) Params() []string {
	var out []string
	for _, p := range f.params {
		out = append(out, p.name)
	}
	return out
}

func (in *Interp) makeFunc(name string, node syntax.Node, params []syntax.Expr, e *env, pos syntax.Position) (starlark.Value, error) {
	f := &Func{in: in, name: name, node: node, closure: e, pos: pos}
	seenStar := false
	// default values are evaluated, left to right, when the function is defined
	for _, p := range params {
		switch p := p.(type) {
		case *syntax.Ident:
			f.params = append(f.params, param{name: p.Name, kwonly: seenStar})
		case *syntax.BinaryExpr: // name = default
			v, err := in.expr(p.Y, e)
			if err != nil {
				return nil, err
			}
			f.params = append(f.params, param{name: p.X.(*syntax.Ident).Name, def: v, kwonly: seenStar})
		case *syntax.UnaryExpr:
			if p.Op == syntax.STAR {
				seenStar = true
				if p.X != nil {
					f.varargs = p.X.(*syntax.Ident).Name
				}
			} else {
				f.kwargs = p.X.(*syntax.Ident).Name
			}
		}
	}
	names := map[string]bool{}
	add := func(n string) {
		if n != "" && !names[n] {
			names[n] = true
			f.locals = append(f.locals, n)
		}
	}
	for _, p := range f.params {
		add(p.name)
	}
	add(f.varargs)
	add(f.kwargs)
	switch n := node.(type) {
	case *syntax.DefStmt:
		f.body = n.Body
		for _, b := range boundNames(n.Body) {
			add(b)
		}
	case *syntax.LambdaExpr:
		f.expr = n.Body
	}
	return f, nil
}

// bindArgs binds arguments to parameters as specified in "Functions" / "Function and method calls".
func (f *Func) bindArgs(e *env, args starlark.Tuple, kwargs []starlark.Tuple) error {
	fail := func(format string, a ...any) error {
		return &Error{Msg: fmt.Sprintf("function %s %s", f.name, fmt.Sprintf(format, a...)), Kind: "binding", Entering: true}
	}
	var positional []int // indices of parameters that may be passed positionally
	for i, p := range f.params {
		if !p.kwonly {
			positional = append(positional, i)
		}
	}
	bound := make([]starlark.Value, len(f.params))
	// 1. positional arguments, in order; the surplus goes to *args
	n := len(args)
	if n > len(positional) {
		if f.varargs == "" {
			return fail("accepts at most %d positional arguments (%d given)", len(positional), len(args))
		}
		n = len(positional)
	}
	for i := 0; i < n; i++ {
		bound[positional[i]] = args[i]
	}
	if f.varargs != "" {
		rest := starlark.Tuple{}
		if len(args) > n {
			rest = append(rest, args[n:]...)
		}
		e.vars[f.varargs].v = rest
	}
	// 2. named arguments, in order
	var kw *starlark.Dict
	if f.kwargs != "" {
		kw = new(starlark.Dict)
		e.vars[f.kwargs].v = kw
	}
	for _, pair := range kwargs {
		k := string(pair[0].(starlark.String))
		found := false
		for i, p := range f.params {
			if p.name == k {
				if bound[i] != nil {
					return fail("got multiple values for parameter %q", k)
				}
				bound[i] = pair[1]
				found = true
				break
			}
		}
		if found {
			continue
		}
		if kw == nil {
			return fail("got an unexpected keyword argument %q", k)
		}
		if _, dup, _ := kw.Get(pair[0]); dup {
			return fail("got multiple values for parameter %q", k)
		}
		kw.SetKey(pair[0], pair[1])
	}
	// 3. defaults for the rest; a parameter without one is missing
	for i, p := range f.params {
		if bound[i] == nil {
			if p.def == nil {
				return fail("missing argument for %s", p.name)
			}
			bound[i] = p.def
		}
		e.vars[p.name].v = bound[i]
	}
	return nil
}

// CallInternal runs the function body in a fresh block whose enclosing block is the closure.
func (f *Func) CallInternal(thread *starlark.Thread, args starlark.Tuple, kwargs []starlark.Tuple) (starlark.Value, error) {
	in := f.in
	if err := in.burn(); err != nil {
		return nil, err
	}
	// A function may not be re-entered while an activation of the same definition is in progress,
	// unless recursion is enabled.
	if !in.Opts.Recursion && in.active[f.node] > 0 {
		return nil, &Error{Msg: fmt.Sprintf("function %s called recursively", f.name), Kind: "recursion", Entering: true}
	}
	if in.Opts.Recursion && thread.CallStackDepth() > 100_000 {
		return nil, &Error{Msg: "Starlark stack overflow", Kind: "recursion", Entering: true}
	}
	e := &env{vars: make(map[string]*box, len(f.locals)), parent: f.closure}
	for _, n := range f.locals {
		e.vars[n] = &box{}
	}
	if err := f.bindArgs(e, args, kwargs); err != nil {
		return nil, err
	}
	in.active[f.node]++
	defer func() { in.active[f.node]-- }()
	if f.expr != nil {
		return in.expr(f.expr, e)
	}
	ctl, v, err := in.stmts(f.body, e)
	if err != nil {
		return nil, err
	}
	if ctl == ctlReturn {
		return v, nil
	}
	return starlark.None, nil
}
