package refeval

import (
	"errors"
	"fmt"
	"math"
	"math/big"

	"go.starlark.net/starlark"
	"go.starlark.net/syntax"
)

func (in *Interp) ident(id *syntax.Ident, e *env) (starlark.Value, error) {
	b, owner := e.lookup(id.Name)
	if b != nil && owner.module && in.early[id] {
		b = nil // legacy GlobalReassign rule: use precedes every binding in the text
	}
	if b != nil {
		if b.v == nil {
			scope := "local"
			if owner.module {
				scope = "global"
			}
			return nil, in.errAt(id.NamePos, "unbound", "%s variable %s referenced before assignment", scope, id.Name)
		}
		return b.v, nil
	}
	if v, ok := in.Predeclared[id.Name]; ok {
		return v, nil
	}
	if v, ok := starlark.Universe[id.Name]; ok {
		return v, nil
	}
	return nil, in.errAt(id.NamePos, "undefined", "undefined: %s", id.Name)
}

func literalValue(l *syntax.Literal) starlark.Value {
	switch v := l.Value.(type) {
	case string:
		if l.Token == syntax.BYTES {
			return starlark.Bytes(v)
		}
		return starlark.String(v)
	case int64:
		return starlark.MakeInt64(v)
	case *big.Int:
		return starlark.MakeBigInt(v)
	case float64:
		return starlark.Float(v)
	}
	panic(fmt.Sprintf("refeval: literal %T", l.Value))
}

func (in *Interp) expr(x syntax.Expr, e *env) (starlark.Value, error) {
	if err := in.burn(); err != nil {
		return nil, err
	}
	switch x := x.(type) {
	case *syntax.Ident:
		return in.ident(x, e)
	case *syntax.Literal:
		return literalValue(x), nil
	case *syntax.ParenExpr:
		return in.expr(x.X, e)
	case *syntax.ListExpr:
		elems := make([]starlark.Value, 0, len(x.List))
		for _, el := range x.List {
			v, err := in.expr(el, e)
			if err != nil {
				return nil, err
			}
			elems = append(elems, v)
		}
		return starlark.NewList(elems), nil
	case *syntax.TupleExpr:
		elems := make(starlark.Tuple, 0, len(x.List))
		for _, el := range x.List {
			v, err := in.expr(el, e)
			if err != nil {
				return nil, err
			}
			elems = append(elems, v)
		}
		return elems, nil
	case *syntax.DictExpr:
		d := starlark.NewDict(len(x.List))
		for _, ent := range x.List {
			ent := ent.(*syntax.DictEntry)
			k, err := in.expr(ent.Key, e)
			if err != nil {
				return nil, err
			}
			v, err := in.expr(ent.Value, e)
			if err != nil {
				return nil, err
			}
			n := d.Len()
			if err := d.SetKey(k, v); err != nil {
				return nil, shared(ent.Colon, err)
			}
			if d.Len() == n {
				return nil, in.errAt(ent.Colon, "duplicate-key", "duplicate key: %v", k)
			}
		}
		return d, nil
	case *syntax.UnaryExpr:
		v, err := in.expr(x.X, e)
		if err != nil {
			return nil, err
		}
		if x.Op == syntax.NOT {
			return !v.Truth(), nil
		}
		z, err := starlark.Unary(x.Op, v)
		if err != nil {
			return nil, shared(x.OpPos, err)
		}
		return z, nil
	case *syntax.BinaryExpr:
		l, err := in.expr(x.X, e)
		if err != nil {
			return nil, err
		}
		switch x.Op {
		case syntax.AND:
			if !l.Truth() {
				return l, nil
			}
			return in.expr(x.Y, e)
		case syntax.OR:
			if l.Truth() {
				return l, nil
			}
			return in.expr(x.Y, e)
		}
		r, err := in.expr(x.Y, e)
		if err != nil {
			return nil, err
		}
		switch x.Op {
		case syntax.EQL, syntax.NEQ, syntax.LT, syntax.GT, syntax.LE, syntax.GE:
			ok, err := starlark.Compare(x.Op, l, r)
			if err != nil {
				return nil, shared(x.OpPos, err)
			}
			return starlark.Bool(ok), nil
		case syntax.NOT_IN:
			z, err := starlark.Binary(syntax.IN, l, r)
			if err != nil {
				return nil, shared(x.OpPos, err)
			}
			return !z.Truth(), nil
		}
		z, err := starlark.Binary(x.Op, l, r)
		if err != nil {
			return nil, shared(x.OpPos, err)
		}
		return z, nil
	case *syntax.CondExpr:
		c, err := in.expr(x.Cond, e)
		if err != nil {
			return nil, err
		}
		if c.Truth() {
			return in.expr(x.True, e)
		}
		return in.expr(x.False, e)
	case *syntax.IndexExpr:
		a, err := in.expr(x.X, e)
		if err != nil {
			return nil, err
		}
		i, err := in.expr(x.Y, e)
		if err != nil {
			return nil, err
		}
		return in.getIndex(a, i, x.Lbrack)
	case *syntax.SliceExpr:
		a, err := in.expr(x.X, e)
		if err != nil {
			return nil, err
		}
		var parts [3]starlark.Value
		for k, p := range []syntax.Expr{x.Lo, x.Hi, x.Step} {
			parts[k] = starlark.None
			if p != nil {
				v, err := in.expr(p, e)
				if err != nil {
					return nil, err
				}
				parts[k] = v
			}
		}
		v, err := in.slice(a, parts[0], parts[1], parts[2], x.Lbrack)
		if err != nil {
			var re *Error
			if errors.As(err, &re) && re.Kind == "slice" {
				re.Start, re.End = x.Span()
			}
		}
		return v, err
	case *syntax.DotExpr:
		a, err := in.expr(x.X, e)
		if err != nil {
			return nil, err
		}
		return in.getAttr(a, x.Name.Name, x.Dot)
	case *syntax.LambdaExpr:
		return in.makeFunc("lambda", x, x.Params, e, x.Lambda)
	case *syntax.Comprehension:
		return in.comprehension(x, e)
	case *syntax.CallExpr:
		return in.call(x, e)
	}
	return nil, fmt.Errorf("refeval: unexpected expression %T", x)
}

// ---- primitive operations re-implemented from the spec over the public value interfaces ----

func (in *Interp) getIndex(x, y starlark.Value, pos syntax.Position) (starlark.Value, error) {
	switch x := x.(type) {
	case starlark.Mapping: // dict and other mappings: lookup by key
		v, found, err := x.Get(y)
		if err != nil {
			return nil, in.errAt(pos, "index", "%v", err)
		}
		if !found {
			return nil, in.errAt(pos, "index", "key %v not in %s", y, x.Type())
		}
		return v, nil
	case starlark.Indexable:
		n := x.Len()
		i, err := starlark.AsInt32(y)
		if err != nil {
			return nil, in.errAt(pos, "index", "%s index: %s", x.Type(), err)
		}
		if i < 0 {
			i += n // negative indices count from the end
		}
		if i < 0 || i >= n {
			return nil, in.errAt(pos, "index", "%s index %d out of range", x.Type(), i)
		}
		return x.Index(i), nil
	}
	return nil, in.errAt(pos, "index", "unhandled index operation %s[%s]", x.Type(), y.Type())
}

func (in *Interp) setIndex(x, y, z starlark.Value, pos syntax.Position) error {
	switch x := x.(type) {
	case starlark.HasSetKey:
		if err := x.SetKey(y, z); err != nil {
			return in.errAt(pos, "setindex", "%v", err)
		}
		return nil
	case starlark.HasSetIndex:
		n := x.Len()
		i, err := starlark.AsInt32(y)
		if err != nil {
			return in.errAt(pos, "setindex", "%v", err)
		}
		if i < 0 {
			i += n
		}
		if i < 0 || i >= n {
			return in.errAt(pos, "setindex", "%s index %d out of range", x.Type(), i)
		}
		if err := x.SetIndex(i, z); err != nil {
			return in.errAt(pos, "setindex", "%v", err)
		}
		return nil
	}
	return in.errAt(pos, "setindex", "%s value does not support item assignment", x.Type())
}

func (in *Interp) getAttr(x starlark.Value, name string, pos syntax.Position) (starlark.Value, error) {
	if ha, ok := x.(starlark.HasAttrs); ok {
		v, err := ha.Attr(name)
		if err != nil {
			return nil, in.errAt(pos, "attr", "%v", err)
		}
		if v != nil {
			return v, nil
		}
	}
	return nil, in.errAt(pos, "attr", "%s has no .%s field or method", x.Type(), name)
}

func (in *Interp) setField(x starlark.Value, name string, v starlark.Value, pos syntax.Position) error {
	if sf, ok := x.(starlark.HasSetField); ok {
		if err := sf.SetField(name, v); err != nil {
			return in.errAt(pos, "setfield", "%v", err)
		}
		return nil
	}
	return in.errAt(pos, "setfield", "can't assign to .%s field of %s", name, x.Type())
}

// slice implements x[lo:hi:step] as specified in "Slice expressions".
func (in *Interp) slice(x, lo, hi, step starlark.Value, pos syntax.Position) (starlark.Value, error) {
	s, ok := x.(starlark.Sliceable)
	if !ok {
		return nil, in.errAt(pos, "slice", "invalid slice operand %s", x.Type())
	}
	n := s.Len()
	st := 1
	if step != starlark.None {
		v, err := satInt(step)
		if err != nil {
			return nil, in.errAt(pos, "slice", "invalid slice step: %v", err)
		}
		if v == 0 {
			return nil, in.errAt(pos, "slice", "zero is not a valid slice step")
		}
		st = v
		if m := max(n, 1); st > m {
			st = m
		} else if st < -m {
			st = -m
		}
	}
	norm := func(v starlark.Value, def int) (int, error) {
		if v == starlark.None {
			return def, nil
		}
		i, err := satInt(v)
		if err != nil {
			return 0, err
		}
		if i < 0 {
			i += n
		}
		return i, nil
	}
	var start, end int
	if st > 0 {
		a, err := norm(lo, 0)
		if err != nil {
			return nil, in.errAt(pos, "slice", "invalid start index: %v", err)
		}
		b, err := norm(hi, n)
		if err != nil {
			return nil, in.errAt(pos, "slice", "invalid end index: %v", err)
		}
		start, end = clamp(a, 0, n), clamp(b, 0, n)
		if end < start {
			end = start
		}
	} else {
		a, err := norm(lo, n-1)
		if err != nil {
			return nil, in.errAt(pos, "slice", "invalid start index: %v", err)
		}
		b := -1
		if hi != starlark.None {
			b, err = norm(hi, 0)
			if err != nil {
				return nil, in.errAt(pos, "slice", "invalid end index: %v", err)
			}
			b = clamp(b, -1, n-1)
		}
		start, end = clamp(a, -1, n-1), b
		if start < end {
			start = end
		}
	}
	return s.Slice(start, end, st), nil
}

func clamp(i, lo, hi int) int {
	if i < lo {
		return lo
	}
	if i > hi {
		return hi
	}
	return i
}

// satInt converts an int index or stride; a value too large for the arithmetic below is replaced
// by a huge one of the same sign (indices are clamped to the sequence length anyway).
func satInt(v starlark.Value) (int, error) {
	i, ok := v.(starlark.Int)
	if !ok {
		return 0, fmt.Errorf("got %s, want int", v.Type())
	}
	if n, ok := i.Int64(); ok && int64(int(n)) == n && int(n) != math.MinInt {
		return int(n), nil
	}
	if i.Sign() < 0 {
		return -math.MaxInt, nil
	}
	return math.MaxInt, nil
}

// ---- comprehensions ----

func (in *Interp) comprehension(c *syntax.Comprehension, outer *env) (starlark.Value, error) {
	// The comprehension is its own block; only the first iterable is evaluated in the enclosing block.
	ce := &env{vars: map[string]*box{}, parent: outer}
	for _, cl := range c.Clauses {
		if f, ok := cl.(*syntax.ForClause); ok {
			for _, n := range targetNames(f.Vars) {
				ce.vars[n] = &box{}
			}
		}
	}
	var list []starlark.Value
	var dict *starlark.Dict
	_, isDict := c.Body.(*syntax.DictEntry)
	if isDict {
		dict = new(starlark.Dict)
	}
	var loop func(i int) error
	loop = func(i int) error {
		if i == len(c.Clauses) {
			if isDict {
				ent := c.Body.(*syntax.DictEntry)
				k, err := in.expr(ent.Key, ce)
				if err != nil {
					return err
				}
				v, err := in.expr(ent.Value, ce)
				if err != nil {
					return err
				}
				if err := dict.SetKey(k, v); err != nil { // later entries overwrite earlier ones
					return shared(ent.Colon, err)
				}
				return nil
			}
			v, err := in.expr(c.Body, ce)
			if err != nil {
				return err
			}
			list = append(list, v)
			return nil
		}
		switch cl := c.Clauses[i].(type) {
		case *syntax.IfClause:
			cond, err := in.expr(cl.Cond, ce)
			if err != nil {
				return err
			}
			if cond.Truth() {
				return loop(i + 1)
			}
			return nil
		case *syntax.ForClause:
			scope := ce
			if i == 0 {
				scope = outer
			}
			x, err := in.expr(cl.X, scope)
			if err != nil {
				return err
			}
			it := starlark.Iterate(x)
			if it == nil {
				return in.errAt(cl.For, "not-iterable", "%s value is not iterable", x.Type())
			}
			defer it.Done()
			var elem starlark.Value
			for it.Next(&elem) {
				if err := in.burn(); err != nil {
					return err
				}
				if err := in.assign(cl.Vars, elem, ce, cl.For); err != nil {
					return err
				}
				if err := loop(i + 1); err != nil {
					return err
				}
			}
			return nil
		}
		return fmt.Errorf("refeval: unexpected clause %T", c.Clauses[i])
	}
	if err := loop(0); err != nil {
		return nil, err
	}
	if isDict {
		return dict, nil
	}
	return starlark.NewList(list), nil
}

// ---- calls ----

func (in *Interp) call(c *syntax.CallExpr, e *env) (starlark.Value, error) {
	fn, err := in.expr(c.Fn, e)
	if err != nil {
		return nil, err
	}
	var pos starlark.Tuple
	var named []starlark.Tuple
	var star, starstar starlark.Value
	for _, a := range c.Args {
		switch a := a.(type) {
		case *syntax.BinaryExpr:
			if a.Op == syntax.EQ {
				v, err := in.expr(a.Y, e)
				if err != nil {
					return nil, err
				}
				named = append(named, starlark.Tuple{starlark.String(a.X.(*syntax.Ident).Name), v})
				continue
			}
		case *syntax.UnaryExpr:
			if a.Op == syntax.STAR {
				v, err := in.expr(a.X, e)
				if err != nil {
					return nil, err
				}
				star = v
				continue
			}
			if a.Op == syntax.STARSTAR {
				v, err := in.expr(a.X, e)
				if err != nil {
					return nil, err
				}
				starstar = v
				continue
			}
		}
		v, err := in.expr(a, e)
		if err != nil {
			return nil, err
		}
		pos = append(pos, v)
	}
	// **mapping entries become named arguments (after the explicit ones)
	if starstar != nil {
		m, ok := starstar.(starlark.IterableMapping)
		if !ok {
			return nil, in.errAt(c.Lparen, "call", "argument after ** must be a mapping, not %s", starstar.Type())
		}
		items := m.Items()
		for _, kv := range items {
			if _, ok := kv[0].(starlark.String); !ok {
				return nil, in.errAt(c.Lparen, "call", "keywords must be strings, not %s", kv[0].Type())
			}
		}
		named = append(named, items...)
	}
	// *sequence elements extend the positional arguments
	if star != nil {
		it := starlark.Iterate(star)
		if it == nil {
			return nil, in.errAt(c.Lparen, "call", "argument after * must be iterable, not %s", star.Type())
		}
		var v starlark.Value
		for it.Next(&v) {
			pos = append(pos, v)
		}
		it.Done()
	}
	if _, ok := fn.(starlark.Callable); !ok {
		return nil, in.errAt(c.Lparen, "call", "invalid call of non-function (%s)", fn.Type())
	}
	if err := in.burn(); err != nil {
		return nil, err
	}
	v, err := starlark.Call(in.Thread, fn, pos, named)
	if err != nil {
		var re *Error
		if errors.As(err, &re) {
			if re.Entering {
				// failed while entering a function defined in this module: blamed on this call
				return nil, &Error{Msg: re.Msg, Pos: c.Lparen, Kind: re.Kind}
			}
			// Propagate the (already wrapped) error unchanged: re-wrapping at every level of a
			// deep recursion would copy the call stack each time.
			return nil, err
		}
		if errors.Is(err, ErrFuel) {
			return nil, ErrFuel
		}
		return nil, shared(c.Lparen, err)
	}
	return v, nil
}
