package refeval

import (
	"errors"
	"fmt"

	"go.starlark.net/starlark"
	"go.starlark.net/syntax"
)

// Error is a failure of the reference evaluation, positioned at the failing operation using the
// same convention as the compiler (identifier: its position; unary/binary: operator; index: '[';
// attribute: '.'; call: '('; unpack: '=' or 'for').
type Error struct {
	Msg    string
	Pos    syntax.Position
	Shared bool // the message was produced by the shared value library (comparable verbatim)
	Kind   string
	// CallSite is set for failures raised while entering a function (argument binding, recursion
	// check): the VM reports those in the callee's frame, whose caller frame is at CallSite.
	Entering bool
	// End, if valid, makes [Pos, End] a span: the failure is only known to lie inside it (used for
	// operations whose exact position the property does not fix, e.g. slices).
	Start, End syntax.Position
}

func (e *Error) Error() string { return e.Msg }

// ErrFuel is returned when the evaluation budget is exhausted (the case is then discarded).
var ErrFuel = errors.New("refeval: out of fuel")

type box struct{ v starlark.Value }

type env struct {
	vars   map[string]*box
	parent *env
	module bool
}

func (e *env) lookup(name string) (*box, *env) {
	for s := e; s != nil; s = s.parent {
		if b, ok := s.vars[name]; ok {
			return b, s
		}
	}
	return nil, nil
}

// Interp evaluates one module.
type Interp struct {
	Opts        *syntax.FileOptions
	Predeclared starlark.StringDict
	Thread      *starlark.Thread
	Fuel        int64

	globals   *env            // module block
	fileLocal map[string]bool // names bound by load (not exported unless LoadBindsGlobally)
	early     map[*syntax.Ident]bool
	active    map[syntax.Node]int // function definitions currently executing (recursion rule)
}

type control int

const (
	ctlNone control = iota
	ctlBreak
	ctlContinue
	ctlReturn
)

func (in *Interp) errAt(pos syntax.Position, kind, format string, args ...any) *Error {
	return &Error{Msg: fmt.Sprintf(format, args...), Pos: pos, Kind: kind}
}

func shared(pos syntax.Position, err error) error {
	var re *Error
	if errors.As(err, &re) {
		return err // keep the innermost positioned failure
	}
	if errors.Is(err, ErrFuel) {
		return err
	}
	msg := err.Error()
	var ee *starlark.EvalError
	if errors.As(err, &ee) {
		msg = ee.Msg
	}
	return &Error{Msg: msg, Pos: pos, Shared: true, Kind: "library"}
}

func (in *Interp) burn() error {
	in.Fuel--
	if in.Fuel < 0 {
		return ErrFuel
	}
	return nil
}

// ExecFile evaluates the statements of a parsed (unresolved) file and returns the module's globals.
func (in *Interp) ExecFile(f *syntax.File) (starlark.StringDict, error) {
	in.globals = &env{vars: map[string]*box{}, module: true}
	in.active = map[syntax.Node]int{}
	in.fileLocal = map[string]bool{}
	if !in.Opts.LoadBindsGlobally {
		in.fileLocal = loadNames(f.Stmts)
	}
	gl := map[string]bool{}
	for _, n := range boundNames(f.Stmts) {
		in.globals.vars[n] = &box{}
		gl[n] = true
	}
	if in.Opts.GlobalReassign {
		in.early = earlyUses(f.Stmts, gl)
	}
	_, _, err := in.stmts(f.Stmts, in.globals)
	out := starlark.StringDict{}
	for n, b := range in.globals.vars {
		if b.v != nil && !in.fileLocal[n] {
			out[n] = b.v
		}
	}
	return out, err
}

// ---- statements ----

func (in *Interp) stmts(list []syntax.Stmt, e *env) (control, starlark.Value, error) {
	for _, s := range list {
		c, v, err := in.stmt(s, e)
		if err != nil || c != ctlNone {
			return c, v, err
		}
	}
	return ctlNone, nil, nil
}

func (in *Interp) stmt(s syntax.Stmt, e *env) (control, starlark.Value, error) {
	if err := in.burn(); err != nil {
		return 0, nil, err
	}
	switch s := s.(type) {
	case *syntax.ExprStmt:
		_, err := in.expr(s.X, e)
		return ctlNone, nil, err
	case *syntax.AssignStmt:
		return ctlNone, nil, in.assignStmt(s, e)
	case *syntax.BranchStmt:
		switch s.Token {
		case syntax.BREAK:
			return ctlBreak, nil, nil
		case syntax.CONTINUE:
			return ctlContinue, nil, nil
		}
		return ctlNone, nil, nil
	case *syntax.ReturnStmt:
		var v starlark.Value = starlark.None
		if s.Result != nil {
			var err error
			v, err = in.expr(s.Result, e)
			if err != nil {
				return 0, nil, err
			}
		}
		return ctlReturn, v, nil
	case *syntax.IfStmt:
		c, err := in.expr(s.Cond, e)
		if err != nil {
			return 0, nil, err
		}
		if c.Truth() {
			return in.stmts(s.True, e)
		}
		return in.stmts(s.False, e)
	case *syntax.WhileStmt:
		for {
			c, err := in.expr(s.Cond, e)
			if err != nil {
				return 0, nil, err
			}
			if !c.Truth() {
				return ctlNone, nil, nil
			}
			ctl, v, err := in.stmts(s.Body, e)
			if err != nil {
				return 0, nil, err
			}
			if ctl == ctlBreak {
				return ctlNone, nil, nil
			}
			if ctl == ctlReturn {
				return ctl, v, nil
			}
			if err := in.burn(); err != nil {
				return 0, nil, err
			}
		}
	case *syntax.ForStmt:
		x, err := in.expr(s.X, e)
		if err != nil {
			return 0, nil, err
		}
		it := starlark.Iterate(x)
		if it == nil {
			return 0, nil, in.errAt(s.For, "not-iterable", "%s value is not iterable", x.Type())
		}
		defer it.Done()
		var elem starlark.Value
		for it.Next(&elem) {
			if err := in.assign(s.Vars, elem, e, s.For); err != nil {
				return 0, nil, err
			}
			ctl, v, err := in.stmts(s.Body, e)
			if err != nil {
				return 0, nil, err
			}
			if ctl == ctlBreak {
				break
			}
			if ctl == ctlReturn {
				return ctl, v, nil
			}
			if err := in.burn(); err != nil {
				return 0, nil, err
			}
		}
		return ctlNone, nil, nil
	case *syntax.DefStmt:
		fn, err := in.makeFunc(s.Name.Name, s, s.Params, e, s.Def)
		if err != nil {
			return 0, nil, err
		}
		return ctlNone, nil, in.bind(s.Name, fn, e)
	case *syntax.LoadStmt:
		return ctlNone, nil, in.load(s, e)
	}
	return 0, nil, fmt.Errorf("refeval: unexpected statement %T", s)
}

func (in *Interp) load(s *syntax.LoadStmt, e *env) error {
	module := s.Module.Value.(string)
	if in.Thread.Load == nil {
		return in.errAt(s.Load, "load", "load not implemented by this application")
	}
	dict, err := in.Thread.Load(in.Thread, module)
	if err != nil {
		return in.errAt(s.Load, "load", "cannot load %s: %v", module, err)
	}
	// all names are looked up before any is bound
	vals := make([]starlark.Value, len(s.From))
	for i, from := range s.From {
		v, ok := dict[from.Name]
		if !ok {
			return in.errAt(s.Load, "load", "load: name %s not found in module %s", from.Name, module)
		}
		vals[i] = v
	}
	for i, to := range s.To {
		if err := in.bind(to, vals[i], e); err != nil {
			return err
		}
	}
	return nil
}

// bind stores v in the variable named by id, in the block where that name is bound.
func (in *Interp) bind(id *syntax.Ident, v starlark.Value, e *env) error {
	if b, ok := e.vars[id.Name]; ok {
		b.v = v
		return nil
	}
	// comprehension variables and function locals are always declared in their own env; a name
	// assigned in a nested control-flow block belongs to the enclosing function/module env.
	for s := e; s != nil; s = s.parent {
		if b, ok := s.vars[id.Name]; ok {
			b.v = v
			return nil
		}
	}
	return fmt.Errorf("refeval: internal error: no binding for %s", id.Name)
}

// assign implements assignment of v to a target; unpackPos is the position blamed for
// sequence-assignment failures ('=' or 'for').
func (in *Interp) assign(target syntax.Expr, v starlark.Value, e *env, unpackPos syntax.Position) error {
	switch t := target.(type) {
	case *syntax.Ident:
		return in.bind(t, v, e)
	case *syntax.ParenExpr:
		return in.assign(t.X, v, e, unpackPos)
	case *syntax.TupleExpr:
		return in.unpack(t.List, v, e, unpackPos)
	case *syntax.ListExpr:
		return in.unpack(t.List, v, e, unpackPos)
	case *syntax.IndexExpr:
		x, err := in.expr(t.X, e)
		if err != nil {
			return err
		}
		y, err := in.expr(t.Y, e)
		if err != nil {
			return err
		}
		return in.setIndex(x, y, v, t.Lbrack)
	case *syntax.DotExpr:
		x, err := in.expr(t.X, e)
		if err != nil {
			return err
		}
		return in.setField(x, t.Name.Name, v, t.Dot)
	}
	return fmt.Errorf("refeval: unexpected target %T", target)
}

func (in *Interp) unpack(targets []syntax.Expr, v starlark.Value, e *env, pos syntax.Position) error {
	it := starlark.Iterate(v)
	if it == nil {
		return in.errAt(pos, "unpack", "got %s in sequence assignment", v.Type())
	}
	var elems []starlark.Value
	var x starlark.Value
	for len(elems) <= len(targets) && it.Next(&x) {
		elems = append(elems, x)
	}
	it.Done()
	// the element count is checked before any target is assigned
	if len(elems) > len(targets) {
		return in.errAt(pos, "unpack", "too many values to unpack (got %d, want %d)", starlark.Len(v), len(targets))
	}
	if len(elems) < len(targets) {
		return in.errAt(pos, "unpack", "too few values to unpack (got %d, want %d)", len(elems), len(targets))
	}
	for i, t := range targets {
		if err := in.assign(t, elems[i], e, pos); err != nil {
			return err
		}
	}
	return nil
}

func (in *Interp) assignStmt(s *syntax.AssignStmt, e *env) error {
	if s.Op == syntax.EQ {
		// the right operand is evaluated first, then the targets from left to right
		v, err := in.expr(s.RHS, e)
		if err != nil {
			return err
		}
		return in.assign(s.LHS, v, e, s.OpPos)
	}
	// augmented assignment: the target's sub-expressions are evaluated once, then the old value is
	// read, then the right operand is evaluated, the operator applied, and the result stored.
	op := s.Op - syntax.PLUS_EQ + syntax.PLUS
	lhs := s.LHS
	for {
		p, ok := lhs.(*syntax.ParenExpr)
		if !ok {
			break
		}
		lhs = p.X
	}
	switch t := lhs.(type) {
	case *syntax.Ident:
		old, err := in.ident(t, e)
		if err != nil {
			return err
		}
		y, err := in.expr(s.RHS, e)
		if err != nil {
			return err
		}
		z, err := in.inplace(op, old, y, s.OpPos)
		if err != nil {
			return err
		}
		return in.bind(t, z, e)
	case *syntax.IndexExpr:
		x, err := in.expr(t.X, e)
		if err != nil {
			return err
		}
		i, err := in.expr(t.Y, e)
		if err != nil {
			return err
		}
		old, err := in.getIndex(x, i, t.Lbrack)
		if err != nil {
			return err
		}
		y, err := in.expr(s.RHS, e)
		if err != nil {
			return err
		}
		z, err := in.inplace(op, old, y, s.OpPos)
		if err != nil {
			return err
		}
		return in.setIndex(x, i, z, t.Lbrack)
	case *syntax.DotExpr:
		x, err := in.expr(t.X, e)
		if err != nil {
			return err
		}
		old, err := in.getAttr(x, t.Name.Name, t.Dot)
		if err != nil {
			return err
		}
		y, err := in.expr(s.RHS, e)
		if err != nil {
			return err
		}
		z, err := in.inplace(op, old, y, s.OpPos)
		if err != nil {
			return err
		}
		return in.setField(x, t.Name.Name, z, t.Dot)
	}
	return fmt.Errorf("refeval: unexpected augmented target %T", lhs)
}

// inplace applies x op= y: lists are extended and dicts updated in place, everything else is x op y.
// unshared positions a failure of an operation that the reference performs through a different
// library call than the VM does (in-place += and |= are Append/SetKey here, a dedicated
// mutability check plus extend/update there): the failure and where it happens are comparable, the
// wording is not.
func unshared(pos syntax.Position, err error) error {
	e := shared(pos, err)
	var re *Error
	if errors.As(e, &re) && re.Pos == pos && re.Kind == "library" {
		c := *re
		c.Shared = false
		c.Kind = "inplace"
		return &c
	}
	return e
}

func (in *Interp) inplace(op syntax.Token, x, y starlark.Value, pos syntax.Position) (starlark.Value, error) {
	switch op {
	case syntax.PLUS:
		if xl, ok := x.(*starlark.List); ok {
			if yi, ok := y.(starlark.Iterable); ok {
				// extend in place; fails if the list is frozen or being iterated
				var elems []starlark.Value
				it := yi.Iterate()
				var v starlark.Value
				for it.Next(&v) {
					elems = append(elems, v)
				}
				it.Done()
				if err := appendAll(xl, elems); err != nil {
					return nil, unshared(pos, err)
				}
				return xl, nil
			}
		}
	case syntax.PIPE:
		if xd, ok := x.(*starlark.Dict); ok {
			if yd, ok := y.(*starlark.Dict); ok {
				items := yd.Items()
				if len(items) == 0 {
					// even an empty update requires a mutable dict
					if err := checkMutableDict(xd); err != nil {
						return nil, unshared(pos, err)
					}
				}
				for _, kv := range items {
					if err := xd.SetKey(kv[0], kv[1]); err != nil {
						return nil, unshared(pos, err)
					}
				}
				return xd, nil
			}
		}
	}
	z, err := starlark.Binary(op, x, y)
	if err != nil {
		return nil, shared(pos, err)
	}
	return z, nil
}

func appendAll(l *starlark.List, elems []starlark.Value) error {
	if len(elems) == 0 {
		// the mutability check applies even when nothing is appended: probe with append+undo is not
		// possible through the public API, so use a no-op SetIndex when non-empty or Clear when empty
		if l.Len() > 0 {
			return l.SetIndex(0, l.Index(0))
		}
		return l.Clear()
	}
	for _, v := range elems {
		if err := l.Append(v); err != nil {
			return err
		}
	}
	return nil
}

func checkMutableDict(d *starlark.Dict) error {
	items := d.Items()
	if len(items) > 0 {
		return d.SetKey(items[0][0], items[0][1])
	}
	return d.Clear()
}
