package c19

import (
	"fmt"
	"math"
	"math/big"
	"sort"
	"time"

	stime "go.starlark.net/lib/time"
	"go.starlark.net/starlark"
	"verif/internal/sl"
)

var lawNames = []string{
	"(t+d)-d==t", "(t2-t1)+t1==t2", "order time", "order duration", "sorted", "eq-hash time", "eq-hash duration",
	"zone-invariance", "time attributes", "from_timestamp(unix,nanosecond)", "from_timestamp(0,unix_nano)",
	"from_timestamp(sec,nsec)", "time(components)", "parse_duration(str(d))", "duration attributes", "now",
}

func fits(n *big.Int) bool { return n.IsInt64() }

// lawEval evaluates src (one judged evaluation); a panic or an error is itself a violation of the law.
func (e *eng) lawEval(law, src string, env starlark.StringDict, ctx string) (starlark.Value, bool) {
	c := e.c
	c.Eval(1)
	c.Count("evals_law", 1)
	c.Cover("laws", law)
	env["time"] = stime.Module
	v, err, p := e.evalSrc(src, env)
	if p != nil {
		c.Violation("C19 panic law "+law, fmt.Sprintf("%s with %s: PANIC %s at %s", src, ctx, p, p.TopFrame()),
			map[string]any{"law": law, "source": src, "operands": ctx, "panic": p.String(), "stack": p.Stack})
		return nil, false
	}
	if err != nil {
		c.Violation("C19 law "+law, fmt.Sprintf("%s with %s: error %s", src, ctx, firstLine(err.Error())),
			map[string]any{"law": law, "source": src, "operands": ctx, "error": err.Error()})
		return nil, false
	}
	return v, true
}

func (e *eng) lawFail(law, src, ctx string, got any, want any) {
	e.c.Violation("C19 law "+law, fmt.Sprintf("%s with %s => %v; want %v", src, ctx, got, want),
		map[string]any{"law": law, "source": src, "operands": ctx, "got": fmt.Sprint(got), "want": fmt.Sprint(want)})
}

// lawTrue requires src to evaluate to True.
func (e *eng) lawTrue(law, src string, env starlark.StringDict, ctx string) {
	v, ok := e.lawEval(law, src, env, ctx)
	if !ok {
		return
	}
	if v != starlark.True {
		e.lawFail(law, src, ctx, outcome(v, nil, nil), "True")
	}
}

func boolsOf(v starlark.Value, n int) ([]bool, bool) {
	l, ok := v.(*starlark.List)
	if !ok || l.Len() != n {
		return nil, false
	}
	out := make([]bool, n)
	for i := 0; i < n; i++ {
		b, ok := l.Index(i).(starlark.Bool)
		if !ok {
			return nil, false
		}
		out[i] = bool(b)
	}
	return out, true
}

func intsOf(v starlark.Value, n int) ([]*big.Int, bool) {
	l, ok := v.(*starlark.List)
	if !ok || l.Len() != n {
		return nil, false
	}
	out := make([]*big.Int, n)
	for i := 0; i < n; i++ {
		b, ok := l.Index(i).(starlark.Int)
		if !ok {
			return nil, false
		}
		out[i] = b.BigInt()
	}
	return out, true
}

func (e *eng) namedZone(r interface{ Intn(int) int }) *zoneInfo {
	var named []*zoneInfo
	for _, z := range e.p.zones {
		if z.named {
			named = append(named, z)
		}
	}
	return named[r.Intn(len(named))]
}

func (e *eng) lawCase() {
	c := e.c
	r := c.Rand()
	pickT := func() *operand {
		if r.Intn(3) == 0 {
			return e.p.special(kT, r.Intn(len(timeSpecials)), r.Intn(5))
		}
		return e.p.random(kT, r)
	}
	pickD := func() *operand {
		if r.Intn(3) == 0 {
			return e.p.special(kD, r.Intn(len(durSpecials)), 0)
		}
		return e.p.random(kD, r)
	}
	t1, t2, t3 := pickT(), pickT(), pickT()
	d1, d2, d3 := pickD(), pickD(), pickD()
	// make ties and near-ties frequent
	switch r.Intn(4) {
	case 0:
		t2 = mkTime(t1.n.Int64(), e.p.zones[r.Intn(5)])
		d2 = mkDur(d1.n.Int64())
	case 1:
		if n := t1.n.Int64(); n < maxI64 {
			t3 = mkTime(n+1, e.p.zones[r.Intn(5)])
		}
		if n := d1.n.Int64(); n > minI64 {
			d3 = mkDur(n - 1)
		}
	}
	z, z2 := e.namedZone(r), e.namedZone(r)
	c.Note("key=C19 crash in law case\n%s %s %s %s %s %s %s", t1.desc, t2.desc, t3.desc, d1.desc, d2.desc, d3.desc, z.name)
	c.Distinct("law|" + t1.desc + t2.desc + t3.desc + d1.desc + d2.desc + d3.desc + z.name + z2.name)
	c.Count("law_cases", 1)
	for _, o := range []*operand{t1, t2, t3, d1, d2, d3} {
		for _, cl := range valueClasses(o) {
			c.Cover("value_classes", cl)
		}
	}
	skip := func() { c.Count("law_instances_skipped_out_of_range", 1) }

	// --- (t + d) - d == t and friends
	for _, pr := range [][2]*operand{{t1, d1}, {t2, d2}} {
		t, d := leaf("t", pr[0]), leaf("d", pr[1])
		const law = "(t+d)-d==t"
		if fits(new(big.Int).Add(pr[0].n, pr[1].n)) {
			e.lawTree(law, bin("==", bin("-", bin("+", t, d), d), t))
			e.lawTree(law, bin("==", bin("-", bin("+", d, t), d), t))
			e.lawTree(law, bin("==", bin("-", bin("+", t, d), t), d))
		} else {
			skip()
		}
		if fits(new(big.Int).Sub(pr[0].n, pr[1].n)) {
			e.lawTree(law, bin("==", bin("+", bin("-", t, d), d), t))
			e.lawTree(law, bin("==", bin("-", t, bin("-", t, d)), d))
		} else {
			skip()
		}
	}
	// --- (t2 - t1) + t1 == t2
	for _, pr := range [][2]*operand{{t1, t2}, {t3, t1}} {
		a, b, d0 := leaf("t1", pr[0]), leaf("t2", pr[1]), leaf("d0", mkDur(0))
		const law = "(t2-t1)+t1==t2"
		diff := new(big.Int).Sub(pr[1].n, pr[0].n)
		if fits(diff) {
			e.lawTree(law, bin("==", bin("+", bin("-", b, a), a), b))
			e.lawTree(law, bin("==", bin("-", b, bin("-", b, a)), a))
			if fits(new(big.Int).Neg(diff)) {
				e.lawTree(law, bin("==", bin("-", a, b), bin("-", d0, bin("-", b, a))))
			}
		} else {
			skip()
		}
	}
	// --- total order
	e.orderLaw("order time", []*operand{t1, t2, t3})
	e.orderLaw("order duration", []*operand{d1, d2, d3})
	e.sortedLaw([]*operand{t1, t2, t3})
	e.sortedLaw([]*operand{d3, d1, d2})

	// --- == implies equal hash, irrespective of zone
	e.hashLawTime(t1, t3, e.p.zones[r.Intn(5)], z)
	e.hashLawDur(d1, d3)

	// --- zone change preserves ==, <, attributes of the instant
	{
		env := starlark.StringDict{"t": t1.v, "t1": t2.v, "t2": t3.v, "z": starlark.String(z.name), "z2": starlark.String(z2.name), "d0": stime.Duration(0)}
		ctx := fmt.Sprintf("t=%s t1=%s t2=%s z=%s z2=%s", t1.desc, t2.desc, t3.desc, z.name, z2.name)
		src := "[t.in_location(z) == t, not (t.in_location(z) < t), not (t.in_location(z) > t), t.in_location(z) != t," +
			" t.in_location(z).unix_nano == t.unix_nano, t.in_location(z).unix == t.unix, t.in_location(z).nanosecond == t.nanosecond," +
			" t.in_location(z) - t == d0, t - t.in_location(z) == d0," +
			" (t1 < t2) == (t1.in_location(z) < t2.in_location(z2)), (t1 == t2) == (t1.in_location(z2) == t2.in_location(z))," +
			" (t1 >= t2) == (t1.in_location(z) >= t2)]"
		want := []bool{true, true, true, false, true, true, true, true, true, true, true, true}
		if v, ok := e.lawEval("zone-invariance", src, env, ctx); ok {
			got, ok := boolsOf(v, len(want))
			if !ok {
				e.lawFail("zone-invariance", src, ctx, v, want)
			} else {
				for i := range want {
					if got[i] != want[i] {
						e.lawFail("zone-invariance", src, ctx, fmt.Sprintf("element %d of %v", i, got), want)
						break
					}
				}
			}
		}
		// the converted value really is presented in zone z (Go-level observation)
		if v, ok := e.lawEval("zone-invariance", "t.in_location(z)", env, ctx); ok {
			u, isT := v.(stime.Time)
			if !isT || timeNS(u).Cmp(t1.n) != 0 || time.Time(u).Location().String() != z.loc.String() {
				e.lawFail("zone-invariance", "t.in_location(z)", ctx, outcome(v, nil, nil), "same instant in "+z.name)
			}
		}
	}

	// --- attributes and from_timestamp
	for _, t := range []*operand{t1, t2} {
		env := starlark.StringDict{"t": t.v}
		ctx := "t=" + t.desc
		_, fl := truncFloor(t.n, bigE9)
		nsec := new(big.Int).Sub(t.n, new(big.Int).Mul(fl, bigE9))
		want := []*big.Int{fl, nsec, t.n}
		if v, ok := e.lawEval("time attributes", "[t.unix, t.nanosecond, t.unix_nano]", env, ctx); ok {
			got, ok := intsOf(v, 3)
			if !ok || got[0].Cmp(want[0]) != 0 || got[1].Cmp(want[1]) != 0 || got[2].Cmp(want[2]) != 0 {
				e.lawFail("time attributes", "[t.unix, t.nanosecond, t.unix_nano]", ctx, v, want)
			}
		}
		e.lawTrue("from_timestamp(unix,nanosecond)", "time.from_timestamp(t.unix, t.nanosecond) == t", env, ctx)
		e.lawTrue("from_timestamp(0,unix_nano)", "time.from_timestamp(0, t.unix_nano) == t", env, ctx)
	}
	{
		// from_timestamp(sec, nsec) with unnormalised nsec, and the one-argument form
		sec := r.Int63n(18_000_000_000) - 9_000_000_000
		nsec := randNS(r, durSpecials)
		exact := new(big.Int).Mul(big.NewInt(sec), bigE9)
		exact.Add(exact, big.NewInt(nsec))
		env := starlark.StringDict{"s": starlark.MakeInt64(sec), "n": starlark.MakeInt64(nsec)}
		ctx := fmt.Sprintf("s=%d n=%d", sec, nsec)
		if fits(exact) {
			if v, ok := e.lawEval("from_timestamp(sec,nsec)", "time.from_timestamp(s, n)", env, ctx); ok {
				if u, isT := v.(stime.Time); !isT || timeNS(u).Cmp(exact) != 0 {
					e.lawFail("from_timestamp(sec,nsec)", "time.from_timestamp(s, n)", ctx, outcome(v, nil, nil), "unix_nano="+exact.String())
				}
			}
		} else {
			skip()
		}
		if v, ok := e.lawEval("from_timestamp(sec,nsec)", "time.from_timestamp(s)", env, ctx); ok {
			w := new(big.Int).Mul(big.NewInt(sec), bigE9)
			if u, isT := v.(stime.Time); !isT || timeNS(u).Cmp(w) != 0 {
				e.lawFail("from_timestamp(sec,nsec)", "time.from_timestamp(s)", ctx, outcome(v, nil, nil), "unix_nano="+w.String())
			}
		}
	}

	// --- time(year=..., ..., location=...) from the components of t in that location
	for _, pr := range []struct {
		t *operand
		z *zoneInfo
	}{{t1, z}, {t3, z2}} {
		e.componentsLaw(pr.t, pr.z)
	}

	// --- parse_duration(str(d)) == d, duration attributes
	for _, d := range []*operand{d1, d2, d3} {
		env := starlark.StringDict{"d": d.v}
		e.lawTrue("parse_duration(str(d))", "time.parse_duration(str(d)) == d", env, "d="+d.desc)
		e.durAttrLaw(d)
	}

	// --- now() through the injectable per-thread clock
	e.nowLaw(t2)

	if c.WantSample() {
		c.Sample(map[string]any{"kind": "law case", "t1": t1.desc, "t2": t2.desc, "t3": t3.desc,
			"d1": d1.desc, "d2": d2.desc, "d3": d3.desc, "zones": []string{z.name, z2.name}, "laws": lawNames})
	}
}

// orderLaw checks trichotomy, consistency of the six comparison operators, antisymmetry and
// transitivity on the module's own answers, and agreement with the order of the exact values.
func (e *eng) orderLaw(law string, vs []*operand) {
	n := len(vs)
	le := make([][]bool, n) // le[i][j]: module says vs[i] <= vs[j]
	eq := make([][]bool, n)
	for i := range le {
		le[i] = make([]bool, n)
		eq[i] = make([]bool, n)
		le[i][i], eq[i][i] = true, true
	}
	const src = "[a < b, a == b, a > b, a <= b, a >= b, a != b]"
	for i := 0; i < n; i++ {
		for j := i + 1; j < n; j++ {
			a, b := vs[i], vs[j]
			env := starlark.StringDict{"a": a.v, "b": b.v}
			ctx := "a=" + a.desc + " b=" + b.desc
			v, ok := e.lawEval(law, src, env, ctx)
			if !ok {
				return
			}
			g, ok := boolsOf(v, 6)
			if !ok {
				e.lawFail(law, src, ctx, v, "six bools")
				return
			}
			cnt := 0
			for _, x := range g[:3] {
				if x {
					cnt++
				}
			}
			c := a.n.Cmp(b.n)
			want := []bool{c < 0, c == 0, c > 0, c <= 0, c >= 0, c != 0}
			if cnt != 1 || g[3] != (g[0] || g[1]) || g[4] != (g[2] || g[1]) || g[5] == g[1] {
				e.lawFail(law, src, ctx, fmt.Sprint(g)+" (not a trichotomy / operators inconsistent)", want)
				return
			}
			for k := range want {
				if g[k] != want[k] {
					e.lawFail(law, src, ctx, g, want)
					return
				}
			}
			le[i][j], le[j][i], eq[i][j], eq[j][i] = g[3], g[4], g[1], g[1]
		}
	}
	for i := 0; i < n; i++ {
		for j := 0; j < n; j++ {
			if le[i][j] && le[j][i] && !eq[i][j] {
				e.lawFail(law, "antisymmetry", vs[i].desc+" "+vs[j].desc, "a<=b and b<=a but a!=b", "a==b")
			}
			for k := 0; k < n; k++ {
				if le[i][j] && le[j][k] && !le[i][k] {
					e.lawFail(law, "transitivity", vs[i].desc+" "+vs[j].desc+" "+vs[k].desc, "a<=b and b<=c but not a<=c", "a<=c")
				}
			}
		}
	}
}

func (e *eng) sortedLaw(vs []*operand) {
	env := starlark.StringDict{"a": vs[0].v, "b": vs[1].v, "c": vs[2].v}
	ctx := "a=" + vs[0].desc + " b=" + vs[1].desc + " c=" + vs[2].desc
	const src = "sorted([a, b, c])"
	v, ok := e.lawEval("sorted", src, env, ctx)
	if !ok {
		return
	}
	want := []*big.Int{vs[0].n, vs[1].n, vs[2].n}
	sort.Slice(want, func(i, j int) bool { return want[i].Cmp(want[j]) < 0 })
	l, isL := v.(*starlark.List)
	good := isL && l.Len() == 3
	for i := 0; good && i < 3; i++ {
		var n *big.Int
		switch r := l.Index(i).(type) {
		case stime.Time:
			n = timeNS(r)
		case stime.Duration:
			n = big.NewInt(int64(r))
		}
		good = n != nil && n.Cmp(want[i]) == 0
	}
	if !good {
		e.lawFail("sorted", src, ctx, v, want)
	}
}

func (e *eng) hashLawTime(t, other *operand, goZone, modZone *zoneInfo) {
	c := e.c
	law := "eq-hash time"
	same := mkTime(t.n.Int64(), goZone) // same instant presented in another zone (also unnamed zones)
	ctx := "a=" + t.desc + " b=" + same.desc
	c.Eval(1)
	c.Count("evals_law", 1)
	var eqv bool
	var h1, h2 uint32
	var err, err1, err2 error
	if p := sl.Safe(func() {
		eqv, err = starlark.Equal(t.v, same.v)
		h1, err1 = t.v.Hash()
		h2, err2 = same.v.Hash()
	}); p != nil {
		c.Violation("C19 panic law "+law, "Equal/Hash on "+ctx+": "+p.String(), map[string]any{"operands": ctx, "stack": p.Stack})
		return
	}
	if err != nil || err1 != nil || err2 != nil || !eqv || h1 != h2 {
		e.lawFail(law, "starlark.Equal(a, b), a.Hash() == b.Hash()", ctx,
			fmt.Sprintf("equal=%v hashes=%d,%d errors=%v,%v,%v", eqv, h1, h2, err, err1, err2), "equal and equal hashes")
	}
	env := starlark.StringDict{"a": t.v, "b": same.v, "z": starlark.String(modZone.name), "c": other.v}
	e.lawTrue(law, "{a: 1}.get(b) == 1 and len(dict([(a, 1), (b, 2)])) == 1 and (b in {a: 1})", env, ctx)
	e.lawTrue(law, "{a: 1}.get(a.in_location(z)) == 1 and len(dict([(a.in_location(z), 1), (a, 2), (b, 3)])) == 1", env, ctx+" z="+modZone.name)
	if other.n.Cmp(t.n) != 0 {
		e.lawTrue(law, "{a: 1}.get(c) == None and len({a: 1, c: 2}) == 2", env, "a="+t.desc+" c="+other.desc)
	}
}

func (e *eng) hashLawDur(d, other *operand) {
	law := "eq-hash duration"
	env := starlark.StringDict{"a": d.v, "c": other.v}
	ctx := "a=" + d.desc + " c=" + other.desc
	e.lawTrue(law, "{a: 1}.get(time.parse_duration(str(a))) == 1 and len(dict([(a, 1), (time.parse_duration(str(a)), 2)])) == 1", env, ctx)
	if other.n.Cmp(d.n) != 0 {
		e.lawTrue(law, "{a: 1}.get(c) == None and len({a: 1, c: 2}) == 2", env, ctx)
	}
	var h1, h2 uint32
	e.c.Eval(1)
	e.c.Count("evals_law", 1)
	dup := mkDur(d.n.Int64())
	h1, _ = d.v.Hash()
	h2, _ = dup.v.Hash()
	if h1 != h2 {
		e.lawFail(law, "a.Hash() == copy.Hash()", ctx, fmt.Sprint(h1, h2), "equal")
	}
}

// componentsLaw: time.time(year=..., ..., location=z) built from the components of t in z is t again.
// A wall-clock reading that occurs twice in z (the repeated hour at the end of DST) does not determine
// the instant; then only "the result shows the requested components" can be demanded.
func (e *eng) componentsLaw(t *operand, z *zoneInfo) {
	c := e.c
	law := "time(components)"
	u := time.Unix(0, t.n.Int64()).In(z.loc)
	env := starlark.StringDict{"u": stime.Time(u), "z": starlark.String(z.name)}
	ctx := "u=" + mkTime(t.n.Int64(), z).desc
	// the component attributes agree with Go's calendar computation
	const asrc = "[u.year, u.month, u.day, u.hour, u.minute, u.second, u.nanosecond]"
	comps := func(x time.Time) [7]int {
		return [7]int{x.Year(), int(x.Month()), x.Day(), x.Hour(), x.Minute(), x.Second(), x.Nanosecond()}
	}
	wantC := comps(u)
	if v, ok := e.lawEval("time attributes", asrc, env, ctx); ok {
		got, ok := intsOf(v, 7)
		good := ok
		for i := 0; good && i < 7; i++ {
			good = got[i].IsInt64() && got[i].Int64() == int64(wantC[i])
		}
		if !good {
			e.lawFail("time attributes", asrc, ctx, v, wantC)
		}
	}
	const src = "time.time(year=u.year, month=u.month, day=u.day, hour=u.hour, minute=u.minute, second=u.second, nanosecond=u.nanosecond, location=z)"
	v, ok := e.lawEval(law, src, env, ctx)
	if !ok {
		return
	}
	rt, isT := v.(stime.Time)
	if !isT {
		e.lawFail(law, src, ctx, outcome(v, nil, nil), "a time.time")
		return
	}
	if timeNS(rt).Cmp(t.n) == 0 {
		c.Count("components_roundtrip_exact", 1)
		return
	}
	if comps(time.Time(rt).In(z.loc)) == wantC {
		// two different instants with identical components in z: the reading is ambiguous
		c.Count("components_roundtrip_ambiguous_wall_time", 1)
		return
	}
	e.lawFail(law, src, ctx, outcome(v, nil, nil), "unix_nano="+t.n.String())
}

func (e *eng) durAttrLaw(d *operand) {
	law := "duration attributes"
	env := starlark.StringDict{"d": d.v}
	ctx := "d=" + d.desc
	const src = "[d.nanoseconds, d.microseconds, d.milliseconds, d.seconds, d.minutes, d.hours]"
	v, ok := e.lawEval(law, src, env, ctx)
	if !ok {
		return
	}
	l, isL := v.(*starlark.List)
	if !isL || l.Len() != 6 {
		e.lawFail(law, src, ctx, v, "six numbers")
		return
	}
	for i, div := range []int64{1, 1e3, 1e6} {
		tr, fl := truncFloor(d.n, big.NewInt(div))
		g, isI := l.Index(i).(starlark.Int)
		if !isI || !inVals([]*big.Int{tr, fl}, g.BigInt()) {
			e.lawFail(law, src, ctx, fmt.Sprintf("element %d of %v", i, v), fmt.Sprintf("%v (or %v)", tr, fl))
			return
		}
	}
	for i, div := range []int64{1e9, 60e9, 3600e9} {
		g, isF := l.Index(3 + i).(starlark.Float)
		exact := new(big.Rat).SetFrac(d.n, big.NewInt(div))
		if !isF || math.IsNaN(float64(g)) || !floatNear(float64(g), exact) {
			e.lawFail(law, src, ctx, fmt.Sprintf("element %d of %v", 3+i, v), "~"+exact.FloatString(12))
			return
		}
	}
}

func (e *eng) nowLaw(t *operand) {
	c := e.c
	law := "now"
	c.Eval(1)
	c.Count("evals_law", 1)
	c.Cover("laws", law)
	th := &starlark.Thread{Name: "c19now"}
	calls := 0
	stime.SetNow(th, func() (time.Time, error) { calls++; return time.Time(t.v.(stime.Time)), nil })
	env := starlark.StringDict{"time": stime.Module, "t": t.v, "d0": stime.Duration(0)}
	var v starlark.Value
	var err error
	p := sl.Safe(func() {
		v, err = starlark.EvalOptions(sl.AllOptions(), th, "c19now.star", "[time.now() == t, time.now() - t == d0, time.now().unix_nano == t.unix_nano]", env)
	})
	if p != nil {
		c.Violation("C19 panic law now", "time.now() with injected clock: "+p.String(), map[string]any{"stack": p.Stack})
		return
	}
	g, ok := boolsOf(v, 3)
	if err != nil || !ok || !g[0] || !g[1] || !g[2] || calls != 3 {
		e.lawFail(law, "time.now() with SetNow clock", "t="+t.desc, fmt.Sprintf("%v err=%v clock calls=%d", v, err, calls), "[True, True, True] with 3 clock calls")
	}
	// a failing clock must surface as an error, not as a value
	th2 := &starlark.Thread{Name: "c19now2"}
	stime.SetNow(th2, func() (time.Time, error) { return time.Time{}, fmt.Errorf("clock unavailable") })
	p = sl.Safe(func() { v, err = starlark.EvalOptions(sl.AllOptions(), th2, "c19now.star", "time.now()", env) })
	if p != nil || err == nil {
		e.lawFail(law, "time.now() with failing clock", "", outcome(v, err, p), "an error")
	}
}

// ---------------------------------------------------------------------------------------------
// arithmetic laws as expression trees: evaluated as one source expression; when the law fails the
// tree is re-evaluated step by step against the operator oracle so that the failure is reported under
// the key of the operator that went wrong (same root cause, same key) and only otherwise under the law.

type node struct {
	op   *opInfo
	l, r *node
	name string
	o    *operand
}

func leaf(name string, o *operand) *node { return &node{name: name, o: o} }

func bin(sym string, l, r *node) *node {
	for _, op := range ops {
		if op.sym == sym {
			return &node{op: op, l: l, r: r}
		}
	}
	panic("c19: unknown operator " + sym)
}

func (n *node) render(top bool) string {
	if n.op == nil {
		return n.name
	}
	s := n.l.render(false) + " " + n.op.sym + " " + n.r.render(false)
	if top {
		return s
	}
	return "(" + s + ")"
}

func (n *node) bind(env starlark.StringDict, ctx map[string]string) {
	if n.op == nil {
		env[n.name] = n.o.v
		ctx[n.name] = n.o.desc
		return
	}
	n.l.bind(env, ctx)
	n.r.bind(env, ctx)
}

func (e *eng) lawTree(law string, n *node) {
	env := starlark.StringDict{}
	names := map[string]string{}
	n.bind(env, names)
	keys := make([]string, 0, len(names))
	for k := range names {
		keys = append(keys, k)
	}
	sort.Strings(keys)
	ctx := ""
	for _, k := range keys {
		ctx += k + "=" + names[k] + " "
	}
	src := n.render(true)
	c := e.c
	c.Eval(1)
	c.Count("evals_law", 1)
	c.Cover("laws", law)
	env["time"] = stime.Module
	v, err, p := e.evalSrc(src, env)
	if p == nil && err == nil && v == starlark.True {
		return
	}
	if _, reported := e.evalTree(n); reported {
		return
	}
	c.Violation("C19 law "+law, fmt.Sprintf("%s with %s => %s; want True", src, ctx, outcome(v, err, p)),
		map[string]any{"law": law, "source": src, "operands": ctx, "got": outcome(v, err, p), "want": "True"})
}

// evalTree evaluates n bottom-up through starlark.Binary/Compare and judges every step.
func (e *eng) evalTree(n *node) (res *operand, reported bool) {
	if n.op == nil {
		return n.o, false
	}
	x, rep := e.evalTree(n.l)
	if rep || x == nil {
		return nil, rep
	}
	y, rep := e.evalTree(n.r)
	if rep || y == nil {
		return nil, rep
	}
	var v starlark.Value
	var err error
	p := sl.Safe(func() {
		if n.op.cmp {
			var b bool
			b, err = starlark.Compare(n.op.tok, x.v, y.v)
			if err == nil {
				v = starlark.Bool(b)
			}
		} else {
			v, err = starlark.Binary(n.op.tok, x.v, y.v)
		}
	})
	if e.judge("lawstep", n.op, x, y, oracle(n.op, x, y), v, err, p, n.render(true)) {
		return nil, true
	}
	switch r := v.(type) {
	case stime.Time:
		if ns := timeNS(r); ns.IsInt64() {
			return &operand{kind: kT, v: r, n: ns, zone: time.Time(r).Location().String(), desc: "time(unix_nano=" + ns.String() + ")"}, false
		}
	case stime.Duration:
		return mkDur(int64(r)), false
	}
	return nil, false
}
