package c19

import (
	"fmt"
	"math"
	"math/big"
	"math/rand"
	"time"

	stime "go.starlark.net/lib/time"
	"go.starlark.net/starlark"
)

type zoneInfo struct {
	name  string
	loc   *time.Location
	named bool // usable as in_location(name) / time(location=name)
}

const (
	year100 = int64(3155760000) * 1e9 // 100 Julian years in ns
	maxI64  = math.MaxInt64
	minI64  = math.MinInt64
)

// Special durations (ns).
var durSpecials = []int64{
	0, 1, -1, 2, -2, 3, -3, 7, -7, 1000, 1e6,
	999999999, -999999999, 1e9, -1e9, 1000000001, -1000000001, 1500000000,
	16 * 60e9, 3600e9, -3600e9, 36000e9, 86400e9, -86400e9,
	year100, -year100,
	1 << 53, 1<<53 + 1, -(1<<53 + 1), 1 << 62, -(1 << 62),
	maxI64, maxI64 - 1, minI64, minI64 + 1,
}

// Special instants (Unix ns).
var timeSpecials = func() []int64 {
	l := []int64{
		0, 1, -1, 999999999, -999999999, 1e9, -1e9, 3600e9, -3600e9, -500000000,
		year100, -year100,
		maxI64, maxI64 - 1, minI64, minI64 + 1,
		946782245123456789,         // 2000-01-02T03:04:05.123456789Z
		1582977600e9,               // 2020-02-29T12:00:00Z
		1577836799999999999,        // 2019-12-31T23:59:59.999999999Z
		2147483647e9, 2147483648e9, // 2038
		-2208988800e9,                  // 1900-01-01
		-869443200e9 + 250,             // 1942-06-15 (Kolkata war time)
		-5364662400e9 + 999999999,      // 1800-01-01 (local mean time everywhere)
		-764145000e9, -764145000e9 - 1, // 1945-10-14T17:30Z Kolkata +6:30 -> +5:30
	}
	// America/New_York: 2021-03-14T07:00Z spring forward, 2021-11-07T06:00Z fall back,
	// 1883-11-18T17:00Z local mean time -> EST.
	for _, base := range []int64{1615705200, 1636264800, -2717650800} {
		for _, d := range []int64{0, 1, -1, 1e9, -1e9, 1800e9, -1800e9, 3600e9, -3600e9, -3600e9 - 1} {
			l = append(l, base*1e9+d)
		}
	}
	return l
}()

var intSpecials = func() []*big.Int {
	var l []*big.Int
	for _, v := range []int64{0, 1, -1, 2, -2, 3, 7, 20, -20, 1000, 1e9, -1e9, 1 << 31, maxI64, minI64, minI64 + 1} {
		l = append(l, big.NewInt(v))
	}
	p63 := new(big.Int).Lsh(bigOne, 63)
	p70 := new(big.Int).Lsh(bigOne, 70)
	l = append(l, p63, p70, new(big.Int).Neg(p70))
	return l
}()

var floatSpecials = []float64{
	0, math.Copysign(0, -1), 1, -1, 2, -2, 0.5, -2.5, 3, 37.5, 1e9, 1e-9, 0.1, 1e18, -1e18, 1e-30, 1e300,
	1 << 53, math.Inf(1), math.Inf(-1), math.NaN(), math.SmallestNonzeroFloat64,
}

type pools struct {
	zones  []*zoneInfo // UTC, America/New_York, Asia/Kolkata, Local, fixed +01:02:03
	others []*operand
}

func mkTime(ns int64, z *zoneInfo) *operand {
	t := time.Unix(0, ns).In(z.loc)
	o := &operand{kind: kT, v: stime.Time(t), n: big.NewInt(ns), zone: z.name,
		desc: fmt.Sprintf("time(unix_nano=%d, zone=%s: %s)", ns, z.name, t.Format("2006-01-02T15:04:05.999999999Z07:00"))}
	if z.named {
		if z.name == "Local" {
			o.src = fmt.Sprintf("time.from_timestamp(0, %d)", ns)
		} else {
			o.src = fmt.Sprintf("time.from_timestamp(0, %d).in_location(%q)", ns, z.name)
		}
	}
	return o
}

func mkDur(ns int64) *operand {
	return &operand{kind: kD, v: stime.Duration(ns), n: big.NewInt(ns),
		src:  fmt.Sprintf("time.parse_duration(\"%dns\")", ns),
		desc: fmt.Sprintf("duration(%dns: %s)", ns, time.Duration(ns))}
}

func mkInt(b *big.Int) *operand {
	return &operand{kind: kI, v: starlark.MakeBigInt(b), n: b, src: "(" + b.String() + ")", desc: "int(" + b.String() + ")"}
}

func mkFloat(f float64) *operand {
	return &operand{kind: kF, v: starlark.Float(f), f: f, src: fmt.Sprintf("float(%q)", fmtFloat(f)), desc: "float(" + fmtFloat(f) + ")"}
}

func mkOthers() []*operand {
	l := starlark.NewList([]starlark.Value{starlark.MakeInt(1), starlark.MakeInt(2)})
	l.Freeze()
	return []*operand{
		{kind: kO, v: starlark.String("abc"), src: `"abc"`, desc: `string("abc")`},
		{kind: kO, v: starlark.String("a%sb"), src: `"a%sb"`, desc: `string("a%sb")`},
		{kind: kO, v: starlark.None, src: "None", desc: "None"},
		{kind: kO, v: l, src: "[1, 2]", desc: "list([1, 2])"},
	}
}

func (p *pools) nSpecial(kind int) int {
	switch kind {
	case kT:
		return len(timeSpecials)
	case kD:
		return len(durSpecials)
	case kI:
		return len(intSpecials)
	case kF:
		return len(floatSpecials)
	}
	return len(p.others)
}

// special returns the i-th special value of a kind; rot selects the zone of a time.
func (p *pools) special(kind, i, rot int) *operand {
	switch kind {
	case kT:
		return mkTime(timeSpecials[i], p.zones[rot%len(p.zones)])
	case kD:
		return mkDur(durSpecials[i])
	case kI:
		return mkInt(intSpecials[i])
	case kF:
		return mkFloat(floatSpecials[i])
	}
	return p.others[i]
}

// randNS draws an int64 whose magnitude is log-uniform over 0..63 bits, sometimes next to a special value.
func randNS(r *rand.Rand, specials []int64) int64 {
	switch r.Intn(10) {
	case 0:
		return specials[r.Intn(len(specials))]
	case 1, 2: // neighbourhood of a special value
		s := specials[r.Intn(len(specials))]
		d := int64(r.Intn(2001) - 1000)
		if r.Intn(2) == 0 {
			d *= 1e9
		}
		if (d > 0 && s > maxI64-d) || (d < 0 && s < minI64-d) {
			return s
		}
		return s + d
	}
	bits := uint(r.Intn(64))
	var v int64
	if bits > 0 {
		v = r.Int63() >> (63 - bits)
	}
	if r.Intn(4) == 0 { // whole seconds
		v -= v % 1e9
	}
	if r.Intn(2) == 0 {
		v = -v
	}
	return v
}

func randInstant(r *rand.Rand) int64 {
	if r.Intn(3) == 0 { // civil era 1900..2100 with sub-second part
		sec := int64(-2208988800) + r.Int63n(6311520000)
		ns := int64(0)
		if r.Intn(3) != 0 {
			ns = r.Int63n(1e9)
		}
		return sec*1e9 + ns
	}
	return randNS(r, timeSpecials)
}

func (p *pools) random(kind int, r *rand.Rand) *operand {
	switch kind {
	case kT:
		return mkTime(randInstant(r), p.zones[r.Intn(len(p.zones))])
	case kD:
		return mkDur(randNS(r, durSpecials))
	case kI:
		switch r.Intn(6) {
		case 0:
			return mkInt(intSpecials[r.Intn(len(intSpecials))])
		case 1, 2:
			return mkInt(big.NewInt(int64(r.Intn(41) - 20)))
		case 3:
			b := new(big.Int).Lsh(big.NewInt(r.Int63()), uint(r.Intn(40)))
			if r.Intn(2) == 0 {
				b.Neg(b)
			}
			return mkInt(b)
		}
		return mkInt(big.NewInt(randNS(r, durSpecials)))
	case kF:
		switch r.Intn(6) {
		case 0:
			return mkFloat(floatSpecials[r.Intn(len(floatSpecials))])
		case 1:
			return mkFloat(float64(r.Intn(41) - 20))
		case 2:
			return mkFloat(float64(r.Intn(801)-400) / 8)
		case 3:
			return mkFloat(float64(randNS(r, durSpecials)))
		}
		f := math.Exp((r.Float64()*2 - 1) * 28) // 1e-12 .. 1e12
		if r.Intn(2) == 0 {
			f = -f
		}
		return mkFloat(f)
	}
	return p.others[r.Intn(len(p.others))]
}

// valueClasses names the coverage classes an operand belongs to.
func valueClasses(o *operand) []string {
	var cl []string
	switch o.kind {
	case kT:
		cl = append(cl, "time:zone="+o.zone)
		n := o.n.Int64()
		if n < 0 {
			cl = append(cl, "time:before-1970")
		}
		if n%1e9 != 0 {
			cl = append(cl, "time:sub-second")
		}
		if n > maxI64-3600e9 || n < minI64+3600e9 {
			cl = append(cl, "time:near-int64-limit")
		}
		for _, base := range []int64{1615705200, 1636264800} {
			if d := n/1e9 - base; d >= -3700 && d <= 3700 {
				cl = append(cl, "time:dst-change-window")
			}
		}
		if n/1e9 < -2717650800 {
			cl = append(cl, "time:local-mean-time-era")
		}
	case kD:
		n := o.n.Int64()
		switch {
		case n == 0:
			cl = append(cl, "duration:zero")
		case n < 0:
			cl = append(cl, "duration:negative")
		default:
			cl = append(cl, "duration:positive")
		}
		if n%1e9 != 0 {
			cl = append(cl, "duration:sub-second")
		}
		if n == minI64 || n == maxI64 {
			cl = append(cl, "duration:int64-limit")
		}
		if n > year100 || n < -year100 {
			cl = append(cl, "duration:over-100y")
		}
		if n > 1<<53 || n < -(1<<53) {
			cl = append(cl, "duration:beyond-2^53")
		}
	case kI:
		if !o.n.IsInt64() {
			cl = append(cl, "int:beyond-int64")
		} else if o.n.Sign() == 0 {
			cl = append(cl, "int:zero")
		} else if o.n.Sign() < 0 {
			cl = append(cl, "int:negative")
		} else {
			cl = append(cl, "int:positive")
		}
	case kF:
		switch {
		case math.IsNaN(o.f):
			cl = append(cl, "float:nan")
		case math.IsInf(o.f, 0):
			cl = append(cl, "float:inf")
		case o.f == 0:
			cl = append(cl, "float:zero")
		case o.f != math.Trunc(o.f):
			cl = append(cl, "float:fractional")
		default:
			cl = append(cl, "float:integral")
		}
	case kO:
		cl = append(cl, "other:"+o.v.Type())
	}
	return cl
}
