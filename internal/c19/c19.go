// Package c19 is the runtime monitor for property C19 "Time and duration arithmetic is consistent".
//
// Every ordered operand pair with at least one time.time / time.duration operand is combined with the
// twelve binary operators and evaluated through five paths of the real interpreter (Go API, compiled
// function, augmented assignment, source expression with predeclared operands, source expression that
// constructs the operands through the module). The oracle is the module's own operator table keyed by
// ordered (left type, op, right type) with exact math/big nanosecond arithmetic; round-trip and ordering
// laws are evaluated as Starlark expressions over the same value pools.
package c19

import (
	"errors"
	"fmt"
	"math/big"
	"strings"
	"time"
	_ "time/tzdata" // zone database of last resort, so that named zones exist offline

	stime "go.starlark.net/lib/time"
	"go.starlark.net/starlark"
	"verif/internal/driver"
	"verif/internal/sl"
)

func init() {
	driver.Register(&driver.Engine{
		ID: "C19", Level: "exploration",
		Rule: "operator cases: an ordered operand pair (left, right) with at least one time.time or time.duration operand, drawn " +
			"(a) by a seed-shifted stride walk over the cross product of the special values of the two kinds (0, +-1ns, +-(1s-1ns), +-1h, " +
			"+-100y, int64 limits, 2^53 neighbours; instants around New York DST changes, the 1883 and 1945 zone changes, before 1970, " +
			"sub-second; zones UTC, America/New_York, Asia/Kolkata, Local, a fixed +01:02:03 zone; ints up to 2^70; floats incl. 0, inf, nan) and " +
			"(b) at random (log-uniform magnitudes, neighbours of specials); each pair is evaluated with all 12 operators " +
			"(+ - * / // % == != < <= > >=) through 5 paths. Law cases: three instants, three durations and two zones put through the " +
			"round-trip, ordering, hashing, zone-invariance, attribute and constructor laws. A case is distinct by its operand values " +
			"(including the zone a time is presented in); all cases are non-trivial (they contain a time or duration). " +
			"The 9 kind pairs without any time/duration operand (int x float etc.) are core-language arithmetic and are left to C10.",
		Assumptions: []string{
			"Go's time package (time.Unix, In, Date, zone database, ParseDuration, Duration.String) and math/big are correct",
			"the operator table is the doc comments of Duration.Binary/Time.Binary in lib/time/time.go plus 'int * duration' from starlark/testdata/time.star",
			"core language: values of different types compare unequal and are unordered; string % x is interpolation",
		},
		Run:         run,
		MinDistinct: 500,
		Finish:      finish,
	})
}

type eng struct {
	c      *driver.Ctx
	p      *pools
	thread *starlark.Thread
	fns    starlark.StringDict // f_<op>, a_<op>
}

// kind pairs with at least one time/duration operand, in a fixed order.
var kindPairs = func() [][2]int {
	var l [][2]int
	for a := kT; a <= kO; a++ {
		for b := kT; b <= kO; b++ {
			if a <= kD || b <= kD {
				l = append(l, [2]int{a, b})
			}
		}
	}
	return l
}()

var paths = []string{"api", "fn", "aug", "src", "ctor"}

func fnSource() string {
	var b strings.Builder
	for _, op := range ops {
		fmt.Fprintf(&b, "def f_%s(x, y): return x %s y\n", op.name, op.sym)
		if !op.cmp {
			fmt.Fprintf(&b, "def a_%s(x, y):\n    x %s= y\n    return x\n", op.name, op.sym)
		}
	}
	return b.String()
}

func loadZones(c *driver.Ctx) []*zoneInfo {
	var zs []*zoneInfo
	for _, z := range []struct {
		name string
		off  int
	}{{"UTC", 0}, {"America/New_York", -5 * 3600}, {"Asia/Kolkata", 5*3600 + 1800}} {
		loc, err := time.LoadLocation(z.name)
		if err != nil {
			c.Count("zone_fallback_fixed", 1)
			c.Cover("zones", "fixed-fallback:"+z.name)
			zs = append(zs, &zoneInfo{name: z.name, loc: time.FixedZone(z.name, z.off), named: false})
			continue
		}
		c.Cover("zones", z.name)
		zs = append(zs, &zoneInfo{name: z.name, loc: loc, named: true})
	}
	c.Cover("zones", "Local")
	c.Cover("zones", "fixed+01:02:03")
	zs = append(zs, &zoneInfo{name: "Local", loc: time.Local, named: true})
	zs = append(zs, &zoneInfo{name: "fixed+01:02:03", loc: time.FixedZone("F", 3723), named: false})
	return zs
}

func newEng(c *driver.Ctx) *eng {
	e := &eng{c: c, thread: &starlark.Thread{Name: "c19"}}
	e.p = &pools{zones: loadZones(c), others: mkOthers()}
	var err error
	p := sl.Safe(func() {
		e.fns, err = starlark.ExecFileOptions(sl.AllOptions(), e.thread, "c19fn.star", fnSource(), nil)
	})
	if p != nil || err != nil {
		c.Inconclusive("cannot compile the operator functions: %v %v", err, p)
		return nil
	}
	return e
}

func gcd(a, b int) int {
	for b != 0 {
		a, b = b, a%b
	}
	return a
}

func run(c *driver.Ctx) {
	e := newEng(c)
	if e == nil {
		return
	}
	off := c.GlobalRand("walk").Intn(1 << 20)
	nOps := c.Pick(2560, 128000)
	nLaw := c.Pick(500, 25000)
	for i := 0; i < nOps; i++ {
		if !c.Take() {
			continue
		}
		e.opCase(i, off)
	}
	for i := 0; i < nLaw; i++ {
		if !c.Take() {
			continue
		}
		e.lawCase()
	}
	// Fixed edge grid (same in every tier and seed): the extreme values of each kind against each other.
	for _, pr := range edgePairs(e.p) {
		if !c.Take() {
			continue
		}
		e.runOps(pr[0], pr[1], "edge")
	}
}

func edgePairs(p *pools) [][2]*operand {
	var ts, ds, is, fs []*operand
	for i, n := range []int64{minI64, minI64 + 1, -1, 0, 1, maxI64 - 1, maxI64} {
		ts = append(ts, mkTime(n, p.zones[i%len(p.zones)]))
		ds = append(ds, mkDur(n))
		is = append(is, mkInt(big.NewInt(n)))
	}
	for _, f := range []float64{-1, 0, 0.5, 1, 2} {
		fs = append(fs, mkFloat(f))
	}
	var out [][2]*operand
	cross := func(a, b []*operand) {
		for _, x := range a {
			for _, y := range b {
				out = append(out, [2]*operand{x, y})
			}
		}
	}
	cross(ts, ts)
	cross(ts, ds)
	cross(ds, ts)
	cross(ds, ds)
	cross(ds, is)
	cross(is, ds)
	cross(ds, fs)
	cross(fs, ds)
	return out
}

func finish(ev map[string]any) (string, bool) {
	cover, _ := ev["cover"].(map[string]map[string]struct{})
	var miss []string
	for _, kp := range kindPairs {
		for _, op := range ops {
			cell := kindName[kp[0]] + " " + op.sym + " " + kindName[kp[1]]
			if _, ok := cover["cells"][cell]; !ok {
				miss = append(miss, cell)
			}
		}
	}
	for _, p := range paths {
		if _, ok := cover["paths"][p]; !ok {
			miss = append(miss, "path "+p)
		}
	}
	for _, l := range lawNames {
		if _, ok := cover["laws"][l]; !ok {
			miss = append(miss, "law "+l)
		}
	}
	if len(cover["zones"]) < 5 {
		miss = append(miss, "zones")
	}
	if len(miss) > 0 {
		return "not observed: " + strings.Join(miss, "; "), true
	}
	return "", false
}

// ---------------------------------------------------------------------------------------------
// operator cases

func (e *eng) pickPair(i, off int, r interface{ Intn(int) int }) (x, y *operand, mode string) {
	kp := kindPairs[i%len(kindPairs)]
	k := i / len(kindPairs)
	if k%2 == 0 {
		nl, nr := e.p.nSpecial(kp[0]), e.p.nSpecial(kp[1])
		prod := nl * nr
		step := 1000003
		for gcd(step, prod) != 1 {
			step++
		}
		w := k/2 + off
		idx := int((int64(w) * int64(step)) % int64(prod))
		return e.p.special(kp[0], idx/nr, w), e.p.special(kp[1], idx%nr, w/5+1), "special"
	}
	return nil, nil, "random"
}

func (e *eng) opCase(i, off int) {
	c := e.c
	r := c.Rand()
	x, y, mode := e.pickPair(i, off, r)
	if mode == "random" {
		kp := kindPairs[i%len(kindPairs)]
		x, y = e.p.random(kp[0], r), e.p.random(kp[1], r)
		switch r.Intn(4) { // mixed: one special operand
		case 0:
			x = e.p.special(kp[0], r.Intn(e.p.nSpecial(kp[0])), r.Intn(5))
		case 1:
			y = e.p.special(kp[1], r.Intn(e.p.nSpecial(kp[1])), r.Intn(5))
		}
	}
	e.runOps(x, y, mode)
}

// runOps evaluates one ordered operand pair with all operators through all paths.
func (e *eng) runOps(x, y *operand, mode string) {
	c := e.c
	c.Note("key=C19 crash in operator case\n%s OP %s", x.desc, y.desc)
	c.Distinct("op|" + x.desc + "|" + y.desc)
	c.Count("operator_cases_"+mode, 1)
	for _, o := range []*operand{x, y} {
		for _, cl := range valueClasses(o) {
			c.Cover("value_classes", cl)
		}
	}
	env := starlark.StringDict{"time": stime.Module, "x": x.v, "y": y.v}
	var sample []string
	for oi, op := range ops {
		exp := oracle(op, x, y)
		cell := kindName[x.kind] + " " + op.sym + " " + kindName[y.kind]
		c.Cover("cells", cell)

		// path 1: Go API
		var v starlark.Value
		var err error
		p := sl.Safe(func() {
			if op.cmp {
				var b bool
				b, err = starlark.Compare(op.tok, x.v, y.v)
				if err == nil {
					v = starlark.Bool(b)
				}
			} else {
				v, err = starlark.Binary(op.tok, x.v, y.v)
			}
		})
		e.judge("api", op, x, y, exp, v, err, p, "")
		if oi == int(c.Case())%len(ops) {
			sample = append(sample, fmt.Sprintf("%s %s %s => %s", x.desc, op.sym, y.desc, outcome(v, err, p)))
		}
		e.coverOutcome(cell, v, err, exp)

		// path 2: compiled function
		v, err, p = e.call("f_"+op.name, x.v, y.v)
		e.judge("fn", op, x, y, exp, v, err, p, "")

		// path 3: augmented assignment
		if !op.cmp {
			v, err, p = e.call("a_"+op.name, x.v, y.v)
			e.judge("aug", op, x, y, exp, v, err, p, "")
		}

		// path 4: source expression, operands predeclared
		src := "x " + op.sym + " y"
		v, err, p = e.evalSrc(src, env)
		e.judge("src", op, x, y, exp, v, err, p, src)
	}

	// path 5: operands constructed through the module inside the source expression (one operator per case)
	if x.src != "" && y.src != "" {
		ok := true
		for _, o := range []*operand{x, y} {
			if o.kind == kT || o.kind == kD {
				ok = e.checkCtor(o) && ok
			}
		}
		if ok {
			op := ops[int(c.Case()/int64(len(kindPairs)))%len(ops)]
			src := x.src + " " + op.sym + " " + y.src
			v, err, p := e.evalSrc(src, starlark.StringDict{"time": stime.Module})
			e.judge("ctor", op, x, y, oracle(op, x, y), v, err, p, src)
		}
	}
	if c.WantSample() {
		c.Sample(map[string]any{"kind": "operator case", "left": x.desc, "right": y.desc, "one_of_12_ops": sample})
	}
}

func outcome(v starlark.Value, err error, p *sl.Panic) string {
	switch {
	case p != nil:
		return "PANIC " + p.String()
	case err != nil:
		return "error: " + driver.Truncate(firstLine(err.Error()), 200)
	case v == nil:
		return "nil"
	}
	s := v.Type() + " " + v.String()
	if d, ok := v.(stime.Duration); ok {
		s += fmt.Sprintf(" (%dns)", int64(d))
	}
	if t, ok := v.(stime.Time); ok {
		s += fmt.Sprintf(" (unix_nano=%s)", timeNS(t))
	}
	return s
}

func firstLine(s string) string {
	if i := strings.IndexByte(s, '\n'); i >= 0 {
		return s[:i]
	}
	return s
}

func (e *eng) coverOutcome(cell string, v starlark.Value, err error, exp *expect) {
	c := e.c
	switch {
	case err != nil:
		c.Cover("outcomes", cell+" => rejected")
	case v != nil:
		c.Cover("outcomes", cell+" => "+v.Type())
	}
	switch {
	case exp.k == eAny:
		c.Count("out_of_range_only_no_panic", 1)
	case exp.k == eReject:
		c.Count("expected_rejection", 1)
	default:
		c.Count("expected_exact_value", 1)
		if exp.k == eDur && len(exp.near) > 0 {
			c.Count("float_divisor_cases", 1)
		}
		if len(exp.vals) == 2 && v != nil {
			var n *big.Int
			switch r := v.(type) {
			case starlark.Int:
				n = r.BigInt()
			case stime.Duration:
				n = big.NewInt(int64(r))
			}
			if n != nil && n.Cmp(exp.vals[0]) == 0 {
				c.Count("floor_trunc_differ_observed_trunc", 1)
			} else if n != nil && n.Cmp(exp.vals[1]) == 0 {
				c.Count("floor_trunc_differ_observed_floor", 1)
			}
		}
	}
}

func (e *eng) call(fn string, x, y starlark.Value) (v starlark.Value, err error, p *sl.Panic) {
	p = sl.Safe(func() { v, err = starlark.Call(e.thread, e.fns[fn], starlark.Tuple{x, y}, nil) })
	return
}

func (e *eng) evalSrc(src string, env starlark.StringDict) (v starlark.Value, err error, p *sl.Panic) {
	p = sl.Safe(func() { v, err = starlark.EvalOptions(sl.AllOptions(), e.thread, "c19.star", src, env) })
	if err != nil {
		var ee *starlark.EvalError
		if !errors.As(err, &ee) {
			e.c.Inconclusive("harness: expression %q does not compile: %v", src, err)
		}
	}
	return
}

// checkCtor verifies that the module expression constructing o yields exactly o.
func (e *eng) checkCtor(o *operand) bool {
	c := e.c
	v, err, p := e.evalSrc(o.src, starlark.StringDict{"time": stime.Module})
	c.Eval(1)
	c.Count("evals_ctor_operand", 1)
	good := false
	if p == nil && err == nil {
		switch r := v.(type) {
		case stime.Time:
			good = o.kind == kT && timeNS(r).Cmp(o.n) == 0
		case stime.Duration:
			good = o.kind == kD && big.NewInt(int64(r)).Cmp(o.n) == 0
		}
	}
	if !good {
		which := "from_timestamp/in_location"
		if o.kind == kD {
			which = "parse_duration"
		}
		c.Violation("C19 constructor "+which, fmt.Sprintf("%s => %s, want %s", o.src, outcome(v, err, p), o.desc),
			map[string]any{"expr": o.src, "got": outcome(v, err, p), "want": o.desc})
	}
	return good
}

// judge compares one evaluation with the expectation and reports a violation under a stable key.
func (e *eng) judge(path string, op *opInfo, x, y *operand, exp *expect, v starlark.Value, err error, p *sl.Panic, src string) (reported bool) {
	c := e.c
	c.Eval(1)
	c.Count("evals_"+path, 1)
	if path != "lawstep" {
		c.Cover("paths", path)
	}
	cell := kindName[x.kind] + " " + op.sym + " " + kindName[y.kind]
	detail := func() map[string]any {
		return map[string]any{"path": path, "left": x.desc, "op": op.sym, "right": y.desc, "source": src,
			"got": outcome(v, err, p), "want": exp.String()}
	}
	what := func() string {
		return fmt.Sprintf("[%s] %s %s %s => %s; want %s", path, x.desc, op.sym, y.desc, outcome(v, err, p), exp.String())
	}
	if p != nil {
		c.Violation("C19 panic "+cell, what()+"\n"+p.TopFrame(), detail())
		return true
	}
	ok, why := exp.matches(v, err)
	if ok {
		return false
	}
	key := "C19 wrong " + cell
	switch {
	case exp.k == eReject && err == nil:
		key = "C19 accepted " + cell
		if exp.note == "division by zero" {
			key = "C19 division by zero accepted " + cell
		} else if rexp := oracle(op, y, x); rexp.documented && rexp.k != eReject {
			// The mirrored ordered triple is a documented operation: the operands were swapped.
			// (One key per cell even when the swapped operation itself overflows.)
			key = "C19 reversed " + cell
			if m, _ := rexp.matches(v, nil); m {
				why = "equals the documented result of <right> " + op.sym + " <left>"
			}
		}
	case why == "rejected":
		key = "C19 rejected " + cell
	case exp.overflow:
		key = "C19 overflow " + cell
	}
	d := detail()
	d["why"] = why
	c.Violation(key, what(), d)
	return true
}
