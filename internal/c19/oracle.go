package c19

import (
	"fmt"
	"math"
	"math/big"
	"strconv"
	"time"

	stime "go.starlark.net/lib/time"
	"go.starlark.net/starlark"
	"go.starlark.net/syntax"
)

// Operand kinds of the property's quantifier.
const (
	kT = iota // time.time
	kD        // time.duration
	kI        // int
	kF        // float
	kO        // other: string, None, list
)

var kindName = [...]string{"time", "duration", "int", "float", "other"}

// operand is a Starlark value together with the exact mathematical value the oracle computes on.
type operand struct {
	kind int
	v    starlark.Value
	n    *big.Int // time: Unix nanoseconds; duration: nanoseconds; int: the value
	f    float64  // float
	zone string   // time: name of the zone the value is presented in
	src  string   // Starlark expression that constructs the value through the module (ctor path)
	desc string
}

type opInfo struct {
	tok  syntax.Token
	sym  string
	name string
	cmp  bool
}

var ops = []*opInfo{
	{syntax.PLUS, "+", "add", false},
	{syntax.MINUS, "-", "sub", false},
	{syntax.STAR, "*", "mul", false},
	{syntax.SLASH, "/", "div", false},
	{syntax.SLASHSLASH, "//", "fdiv", false},
	{syntax.PERCENT, "%", "mod", false},
	{syntax.EQL, "==", "eq", true},
	{syntax.NEQ, "!=", "ne", true},
	{syntax.LT, "<", "lt", true},
	{syntax.LE, "<=", "le", true},
	{syntax.GT, ">", "gt", true},
	{syntax.GE, ">=", "ge", true},
}

type expKind int

const (
	eReject expKind = iota // the ordered triple is absent from the module's operator table: must fail
	eTime                  // time.time with Unix nanoseconds in vals
	eDur                   // time.duration with nanoseconds in vals, or within 1 ns of one of near
	eInt                   // int in vals
	eFloat                 // float approximating rat
	eBool
	eStr
	eAny // exact result outside the stated value range: only "no panic" is required
)

type expect struct {
	k          expKind
	vals       []*big.Int
	near       []*big.Rat
	rat        *big.Rat
	b          bool
	s          string
	orReject   bool // rejection is acceptable as well
	documented bool // the ordered (left type, op, right type) is in the module's operator table
	overflow   bool // eInt whose exact value does not fit int64 (duration // duration = 2^63)
	note       string
}

func (x *expect) String() string {
	s := ""
	switch x.k {
	case eReject:
		return "an error (ordered operand types not in the module's operator table)"
	case eAny:
		return "anything but a panic (" + x.note + ")"
	case eTime:
		s = fmt.Sprintf("time.time with unix_nano in %v", x.vals)
	case eDur:
		if len(x.near) > 0 {
			s = "time.duration within 1 ns of"
			for _, r := range x.near {
				s += " " + r.FloatString(3)
			}
		} else {
			s = fmt.Sprintf("time.duration with nanoseconds in %v", x.vals)
		}
	case eInt:
		s = fmt.Sprintf("int in %v", x.vals)
	case eFloat:
		s = "float ~ " + x.rat.FloatString(12)
	case eBool:
		s = fmt.Sprintf("bool %v", x.b)
	case eStr:
		s = fmt.Sprintf("string %q", x.s)
	}
	if x.orReject {
		s += " (or an error)"
	}
	if x.note != "" {
		s += " [" + x.note + "]"
	}
	return s
}

var (
	bigOne  = big.NewInt(1)
	ratOne  = big.NewRat(1, 1)
	relTol  = new(big.Rat).SetFrac(big.NewInt(1), new(big.Int).Lsh(bigOne, 50)) // 2^-50
	bigE9   = big.NewInt(1_000_000_000)
	float63 = math.Ldexp(1, 63)
)

func reject() *expect { return &expect{k: eReject} }

func outOfRange(note string) *expect { return &expect{k: eAny, documented: true, note: note} }

func timeRes(n *big.Int) *expect {
	if !n.IsInt64() {
		return outOfRange("exact instant is outside int64 Unix nanoseconds")
	}
	return &expect{k: eTime, vals: []*big.Int{n}, documented: true}
}

func durRes(n *big.Int) *expect {
	if !n.IsInt64() {
		return outOfRange("exact duration is outside int64 nanoseconds")
	}
	return &expect{k: eDur, vals: []*big.Int{n}, documented: true}
}

// truncFloor returns the quotient a/b rounded toward zero and toward minus infinity (b != 0).
func truncFloor(a, b *big.Int) (tr, fl *big.Int) {
	tr, rem := new(big.Int).QuoRem(a, b, new(big.Int))
	fl = new(big.Int).Set(tr)
	if rem.Sign() != 0 && (rem.Sign() < 0) != (b.Sign() < 0) {
		fl.Sub(fl, bigOne)
	}
	return tr, fl
}

func distinctInts(a, b *big.Int) []*big.Int {
	if a.Cmp(b) == 0 {
		return []*big.Int{a}
	}
	return []*big.Int{a, b}
}

// oracle is the module's documented operator table keyed by ORDERED (left kind, op, right kind),
// evaluated with exact integer arithmetic on nanoseconds.
//
//	duration + duration = duration      time + duration = time
//	duration + time = time              time - duration = time
//	duration - duration = duration      time - time = duration
//	duration / duration = float         duration * int = duration
//	duration / int = duration           int * duration = duration   (time.star; commutative mirror)
//	duration / float = duration
//	duration // duration = int
//
// plus the core language: values of different types are unequal and unordered; time and duration
// are totally ordered among themselves; string % x is string interpolation.
func oracle(op *opInfo, x, y *operand) *expect {
	if op.cmp {
		if x.kind == y.kind && (x.kind == kT || x.kind == kD) {
			c := x.n.Cmp(y.n)
			var b bool
			switch op.sym {
			case "==":
				b = c == 0
			case "!=":
				b = c != 0
			case "<":
				b = c < 0
			case "<=":
				b = c <= 0
			case ">":
				b = c > 0
			case ">=":
				b = c >= 0
			}
			return &expect{k: eBool, b: b, documented: true}
		}
		switch op.sym {
		case "==":
			return &expect{k: eBool, b: false, documented: true}
		case "!=":
			return &expect{k: eBool, b: true, documented: true}
		}
		return reject()
	}
	// core language: string interpolation with a single non-tuple operand.
	if op.sym == "%" && x.kind == kO {
		if s, ok := x.v.(starlark.String); ok {
			switch string(s) {
			case "a%sb":
				return &expect{k: eStr, s: "a" + y.v.String() + "b", documented: true, note: "string interpolation, not a time operator"}
			default: // no conversion: too many arguments for format string
				return reject()
			}
		}
	}
	switch {
	case x.kind == kT && y.kind == kD && op.sym == "+", x.kind == kD && y.kind == kT && op.sym == "+":
		return timeRes(new(big.Int).Add(x.n, y.n))
	case x.kind == kT && y.kind == kD && op.sym == "-":
		return timeRes(new(big.Int).Sub(x.n, y.n))
	case x.kind == kT && y.kind == kT && op.sym == "-":
		return durRes(new(big.Int).Sub(x.n, y.n))
	case x.kind == kD && y.kind == kD && op.sym == "+":
		return durRes(new(big.Int).Add(x.n, y.n))
	case x.kind == kD && y.kind == kD && op.sym == "-":
		return durRes(new(big.Int).Sub(x.n, y.n))
	case x.kind == kD && y.kind == kI && op.sym == "*", x.kind == kI && y.kind == kD && op.sym == "*":
		e := durRes(new(big.Int).Mul(x.n, y.n))
		if x.kind == kI {
			// Only the module's test file lists int * duration; multiplication commutes, so the exact
			// product is the only acceptable value, but rejecting the undocumented order is fine too.
			e.orReject = true
			if !x.n.IsInt64() {
				e.note = "int operand outside int64"
			}
		} else if !y.n.IsInt64() {
			e.orReject = true
			e.note = "int operand outside int64"
		}
		return e
	case x.kind == kD && y.kind == kD && op.sym == "/":
		if y.n.Sign() == 0 {
			e := reject()
			e.documented = true
			e.note = "division by zero"
			return e
		}
		return &expect{k: eFloat, rat: new(big.Rat).SetFrac(x.n, y.n), documented: true}
	case x.kind == kD && y.kind == kD && op.sym == "//":
		if y.n.Sign() == 0 {
			e := reject()
			e.documented = true
			e.note = "division by zero"
			return e
		}
		tr, fl := truncFloor(x.n, y.n)
		return &expect{k: eInt, vals: distinctInts(tr, fl), documented: true, overflow: !tr.IsInt64()}
	case x.kind == kD && y.kind == kI && op.sym == "/":
		if y.n.Sign() == 0 {
			e := reject()
			e.documented = true
			e.note = "division by zero"
			return e
		}
		tr, fl := truncFloor(x.n, y.n)
		if !tr.IsInt64() || !fl.IsInt64() {
			return outOfRange("exact duration is outside int64 nanoseconds")
		}
		e := &expect{k: eDur, vals: distinctInts(tr, fl), documented: true}
		if !y.n.IsInt64() {
			e.orReject = true
			e.note = "int operand outside int64"
		}
		return e
	case x.kind == kD && y.kind == kF && op.sym == "/":
		f := y.f
		switch {
		case f == 0:
			e := reject()
			e.documented = true
			e.note = "division by zero"
			return e
		case math.IsNaN(f):
			return outOfRange("NaN divisor")
		case math.IsInf(f, 0):
			return &expect{k: eDur, vals: []*big.Int{new(big.Int)}, orReject: true, documented: true, note: "infinite divisor"}
		}
		q := float64(x.n.Int64()) / f // the documented float formula
		if math.IsInf(q, 0) || math.IsNaN(q) || math.Abs(q) >= float63-2048 {
			return outOfRange("quotient is outside int64 nanoseconds")
		}
		exact := new(big.Rat).Quo(new(big.Rat).SetInt(x.n), new(big.Rat).SetFloat64(f))
		return &expect{k: eDur, near: []*big.Rat{new(big.Rat).SetFloat64(q), exact}, documented: true,
			note: "rounding of the float quotient is not documented: +-1 ns accepted"}
	}
	return reject()
}

func inVals(vals []*big.Int, n *big.Int) bool {
	for _, v := range vals {
		if v.Cmp(n) == 0 {
			return true
		}
	}
	return false
}

// timeNS returns the exact Unix time of t in nanoseconds (also outside the int64 range).
func timeNS(t stime.Time) *big.Int {
	tt := time.Time(t)
	n := big.NewInt(tt.Unix())
	n.Mul(n, bigE9)
	return n.Add(n, big.NewInt(int64(tt.Nanosecond())))
}

// matches reports whether the outcome (val, err) satisfies the expectation.
func (x *expect) matches(val starlark.Value, err error) (bool, string) {
	if x.k == eAny {
		return true, ""
	}
	if err != nil {
		if x.k == eReject || x.orReject {
			return true, ""
		}
		return false, "rejected"
	}
	if val == nil {
		return false, "nil result without error"
	}
	switch x.k {
	case eReject:
		return false, "accepted"
	case eTime:
		t, ok := val.(stime.Time)
		if !ok {
			return false, "result type " + val.Type()
		}
		return inVals(x.vals, timeNS(t)), "wrong instant"
	case eDur:
		d, ok := val.(stime.Duration)
		if !ok {
			return false, "result type " + val.Type()
		}
		n := big.NewInt(int64(d))
		if inVals(x.vals, n) {
			return true, ""
		}
		r := new(big.Rat).SetInt(n)
		for _, c := range x.near {
			diff := new(big.Rat).Sub(r, c)
			if diff.Abs(diff).Cmp(ratOne) <= 0 {
				return true, ""
			}
		}
		return false, "wrong duration"
	case eInt:
		i, ok := val.(starlark.Int)
		if !ok {
			return false, "result type " + val.Type()
		}
		return inVals(x.vals, i.BigInt()), "wrong int"
	case eFloat:
		f, ok := val.(starlark.Float)
		if !ok {
			return false, "result type " + val.Type()
		}
		return floatNear(float64(f), x.rat), "wrong float"
	case eBool:
		b, ok := val.(starlark.Bool)
		if !ok {
			return false, "result type " + val.Type()
		}
		return bool(b) == x.b, "wrong truth value"
	case eStr:
		s, ok := val.(starlark.String)
		if !ok {
			return false, "result type " + val.Type()
		}
		return string(s) == x.s, "wrong string"
	}
	return false, "?"
}

// floatNear reports whether g approximates the exact rational r to within 2^-50 relative error.
func floatNear(g float64, r *big.Rat) bool {
	if math.IsNaN(g) || math.IsInf(g, 0) {
		return false
	}
	if r.Sign() == 0 {
		return g == 0
	}
	diff := new(big.Rat).SetFloat64(g)
	diff.Sub(diff, r)
	diff.Abs(diff)
	tol := new(big.Rat).Abs(r)
	tol.Mul(tol, relTol)
	return diff.Cmp(tol) <= 0
}

func fmtFloat(f float64) string { return strconv.FormatFloat(f, 'g', -1, 64) }
