package c06

import (
	"fmt"
	"math"
	"sort"
	"strings"

	sjson "go.starlark.net/lib/json"
	"go.starlark.net/starlark"
	"go.starlark.net/syntax"

	"verif/internal/canon"
	"verif/internal/driver"
	"verif/internal/sl"
)

// ---- counting iterables: host values whose iterators count Iterate / Done calls ----

type counter struct{ opened, closed, nexts, nextAfterDone int }

type citer struct {
	elems []starlark.Value
	ctr   *counter
}

func (ci *citer) String() string        { return "citer" }
func (ci *citer) Type() string          { return "citer" }
func (ci *citer) Freeze()               {}
func (ci *citer) Truth() starlark.Bool  { return true }
func (ci *citer) Hash() (uint32, error) { return 0, fmt.Errorf("unhashable: citer") }
func (ci *citer) Iterate() starlark.Iterator {
	ci.ctr.opened++
	return &cit{ci: ci}
}

type cit struct {
	ci   *citer
	i    int
	done bool
}

func (it *cit) Next(p *starlark.Value) bool {
	if it.done {
		it.ci.ctr.nextAfterDone++
	}
	it.ci.ctr.nexts++
	if it.i < len(it.ci.elems) {
		*p = it.ci.elems[it.i]
		it.i++
		return true
	}
	return false
}
func (it *cit) Done() {
	it.done = true
	it.ci.ctr.closed++
}

// cseq additionally implements Sequence (Len), which selects other code paths in many built-ins.
type cseq struct{ citer }

func (cs *cseq) Type() string { return "cseq" }
func (cs *cseq) Len() int     { return len(cs.elems) }

var (
	_ starlark.Iterable = (*citer)(nil)
	_ starlark.Sequence = (*cseq)(nil)
)

// ---- element profiles ----

type profile struct {
	name  string
	elems []starlark.Value
}

func profiles() []profile {
	I := func(n int) starlark.Value { return starlark.MakeInt(n) }
	S := func(s string) starlark.Value { return starlark.String(s) }
	pair := func(k string, v int) starlark.Value { return starlark.Tuple{S(k), I(v)} }
	unhashable := func() starlark.Value { return starlark.NewList([]starlark.Value{I(1)}) }
	ps := []profile{
		{"empty", nil},
		{"ints", []starlark.Value{I(3), I(1), I(2)}},
		{"strings", []starlark.Value{S("b"), S("a"), S("c")}},
		{"pairs", []starlark.Value{pair("k1", 1), pair("k2", 2), pair("k3", 3)}},
		{"byteints", []starlark.Value{I(65), I(66), I(67)}},
		{"one", []starlark.Value{I(5)}},
	}
	// elements that are themselves mutable collections or counting iterables: built-ins that iterate
	// the ELEMENTS of their argument (dict(seq), d.update(seq): each element is a pair) must release them too
	listOf := func(n int) starlark.Value {
		var e []starlark.Value
		for i := 0; i < n; i++ {
			e = append(e, S(string(rune('p'+i))))
		}
		return starlark.NewList(e)
	}
	ps = append(ps, profile{"pairs-as-lists", []starlark.Value{listOf(2), listOf(2)}})
	for k := 0; k < 2; k++ {
		for _, n := range []int{0, 1, 3} {
			e := []starlark.Value{listOf(2), listOf(2)}
			e[k] = listOf(n)
			ps = append(ps, profile{fmt.Sprintf("pairs-list-len%d@%d", n, k), e})
		}
		e := []starlark.Value{listOf(2), listOf(2)}
		st := starlark.NewSet(3)
		st.Insert(I(1))
		st.Insert(I(2))
		st.Insert(I(3))
		e[k] = st
		ps = append(ps, profile{fmt.Sprintf("pairs-set-len3@%d", k), e})
		e = []starlark.Value{listOf(2), listOf(2)}
		e[k] = &cseq{citer{elems: []starlark.Value{S("a"), S("b"), S("c")}, ctr: &counter{}}}
		ps = append(ps, profile{fmt.Sprintf("pairs-cseq-len3@%d", k), e})
		e = []starlark.Value{listOf(2), listOf(2)}
		e[k] = &citer{elems: []starlark.Value{S("a")}, ctr: &counter{}}
		ps = append(ps, profile{fmt.Sprintf("pairs-citer-len1@%d", k), e})
	}
	for k := 0; k < 3; k++ {
		e := []starlark.Value{I(3), I(1), I(2)}
		e[k] = unhashable()
		ps = append(ps, profile{fmt.Sprintf("ints-unhashable@%d", k), e})
		e = []starlark.Value{I(3), I(1), I(2)}
		e[k] = S("x")
		ps = append(ps, profile{fmt.Sprintf("ints-string@%d", k), e})
		e = []starlark.Value{pair("k1", 1), pair("k2", 2), pair("k3", 3)}
		e[k] = I(7)
		ps = append(ps, profile{fmt.Sprintf("pairs-nonpair@%d", k), e})
		e = []starlark.Value{pair("k1", 1), pair("k2", 2), pair("k3", 3)}
		e[k] = starlark.Tuple{unhashable(), I(1)}
		ps = append(ps, profile{fmt.Sprintf("pairs-unhashablekey@%d", k), e})
		e = []starlark.Value{S("b"), S("a"), S("c")}
		e[k] = I(9)
		ps = append(ps, profile{fmt.Sprintf("strings-int@%d", k), e})
		e = []starlark.Value{I(65), I(66), I(67)}
		e[k] = I(300)
		ps = append(ps, profile{fmt.Sprintf("byteints-range@%d", k), e})
		// elements no encoder, comparison or conversion accepts, alone and inside a nested mutable list
		// (a built-in that recurses into its argument, such as json.encode, must release every level)
		e = []starlark.Value{I(3), I(1), I(2)}
		e[k] = starlark.Universe["len"]
		ps = append(ps, profile{fmt.Sprintf("ints-function@%d", k), e})
		e = []starlark.Value{I(3), I(1), I(2)}
		e[k] = starlark.Float(math.NaN())
		ps = append(ps, profile{fmt.Sprintf("ints-nan@%d", k), e})
		e = []starlark.Value{I(3), I(1), I(2)}
		e[k] = starlark.NewList([]starlark.Value{I(1), starlark.NewList([]starlark.Value{starlark.Universe["len"]})})
		ps = append(ps, profile{fmt.Sprintf("ints-nested-list-function@%d", k), e})
		e = []starlark.Value{S("b"), S("a"), S("c")}
		nd := starlark.NewDict(1)
		nd.SetKey(I(1), I(2)) // a dict with a non-string key: not a JSON object
		e[k] = starlark.NewList([]starlark.Value{nd})
		ps = append(ps, profile{fmt.Sprintf("strings-nested-dict-intkey@%d", k), e})
	}
	return ps
}

// ---- callables ----

type callable struct {
	name string
	mk   func() starlark.Value // fresh callable (methods are bound to a fresh receiver)
}

func discoverCallables() []callable {
	var out []callable
	var names []string
	for n, v := range starlark.Universe {
		if _, ok := v.(*starlark.Builtin); ok {
			names = append(names, n)
		}
	}
	sort.Strings(names)
	for _, n := range names {
		v := starlark.Universe[n]
		out = append(out, callable{name: n, mk: func() starlark.Value { return v }})
	}
	recvs := []struct {
		typ string
		mk  func() starlark.Value
	}{
		{"string", func() starlark.Value { return starlark.String("a,b") }},
		{"bytes", func() starlark.Value { return starlark.Bytes("a,b") }},
		{"list", func() starlark.Value { return freshColl("list") }},
		{"dict", func() starlark.Value { return freshColl("dict") }},
		{"set", func() starlark.Value { return freshColl("set") }},
	}
	for _, r := range recvs {
		attrs := r.mk().(starlark.HasAttrs).AttrNames()
		sort.Strings(attrs)
		for _, a := range attrs {
			a, r := a, r
			out = append(out, callable{name: r.typ + "." + a, mk: func() starlark.Value {
				m, _ := r.mk().(starlark.HasAttrs).Attr(a)
				return m
			}})
		}
	}
	for _, n := range []string{"encode", "encode_indent"} {
		if v, ok := sjson.Module.Members[n]; ok {
			out = append(out, callable{name: "json." + n, mk: func() starlark.Value { return v }})
		}
	}
	return out
}

// shapes: positions of the iterable(s) in the positional argument tuple; nil entries are fillers.
type shape struct {
	name string
	mk   func(it func() starlark.Value) starlark.Tuple
}

var shapes = []shape{
	{"(I)", func(it func() starlark.Value) starlark.Tuple { return starlark.Tuple{it()} }},
	{"(I,I)", func(it func() starlark.Value) starlark.Tuple { return starlark.Tuple{it(), it()} }},
	{"(I,1)", func(it func() starlark.Value) starlark.Tuple { return starlark.Tuple{it(), starlark.MakeInt(1)} }},
	{"(1,I)", func(it func() starlark.Value) starlark.Tuple { return starlark.Tuple{starlark.MakeInt(1), it()} }},
	{"(I,I,I)", func(it func() starlark.Value) starlark.Tuple { return starlark.Tuple{it(), it(), it()} }},
}

type iterKind struct {
	name string
	mk   func(p profile, ctr *counter, reals *[]starlark.Value) starlark.Value
}

var iterKinds = []iterKind{
	{"citer", func(p profile, ctr *counter, _ *[]starlark.Value) starlark.Value {
		return &citer{elems: p.elems, ctr: ctr}
	}},
	{"cseq", func(p profile, ctr *counter, _ *[]starlark.Value) starlark.Value {
		return &cseq{citer{elems: p.elems, ctr: ctr}}
	}},
	{"list", func(p profile, _ *counter, reals *[]starlark.Value) starlark.Value {
		l := starlark.NewList(append([]starlark.Value(nil), p.elems...))
		*reals = append(*reals, l)
		return l
	}},
	{"set", func(p profile, _ *counter, reals *[]starlark.Value) starlark.Value {
		s := starlark.NewSet(len(p.elems))
		for _, e := range p.elems {
			if err := s.Insert(e); err != nil {
				return nil // profile not representable as a set
			}
		}
		*reals = append(*reals, s)
		return s
	}},
	{"dict", func(p profile, _ *counter, reals *[]starlark.Value) starlark.Value {
		d := starlark.NewDict(len(p.elems))
		for _, e := range p.elems {
			if err := d.SetKey(e, starlark.None); err != nil {
				return nil
			}
		}
		*reals = append(*reals, d)
		return d
	}},
}

type keyMode struct {
	name string
	at   int // call index at which the callback misbehaves (-1 never)
	how  string
}

func armBuiltins(c *driver.Ctx, kinds map[string]*kindInfo) {
	calls := discoverCallables()
	profs := profiles()
	keyModes := []keyMode{{"none", -1, ""}, {"key-ok", -1, "ok"}, {"key-err@0", 0, "err"}, {"key-err@1", 1, "err"}, {"key-panic@0", 0, "panic"}, {"key-panic@2", 2, "panic"}}
	th := &starlark.Thread{Name: "c06b"}
	for _, cl := range calls {
		for _, sh := range shapes {
			if !c.Take() {
				continue
			}
			c.Note("key=C06 crash builtin %s %s\n", cl.name, sh.name)
			iterating := 0
			for _, p := range profs {
				for _, ik := range iterKinds {
					for _, km := range keyModes {
						ctr := &counter{}
						var reals []starlark.Value
						unrepresentable := false
						args := sh.mk(func() starlark.Value {
							v := ik.mk(p, ctr, &reals)
							if v == nil {
								unrepresentable = true
								return starlark.None
							}
							return v
						})
						if unrepresentable {
							continue
						}
						var kwargs []starlark.Tuple
						ncalls := 0
						var lockFails []string
						if km.how != "" {
							keyfn := starlark.NewBuiltin("keyfn", func(th *starlark.Thread, _ *starlark.Builtin, a starlark.Tuple, _ []starlark.Tuple) (starlark.Value, error) {
								i := ncalls
								ncalls++
								// lock consistency: while a real collection is locked, a mutator must fail
								for _, rv := range reals {
									if fr, ic, ok := starlark.VerifState(rv); ok && !fr && ic > 0 {
										before := canon.Value(rv)
										var err error
										switch x := rv.(type) {
										case *starlark.List:
											err = x.Append(starlark.MakeInt(1))
										case *starlark.Dict:
											err = x.SetKey(starlark.String("new"), starlark.None)
										case *starlark.Set:
											err = x.Insert(starlark.String("new"))
										}
										if err == nil || canon.Value(rv) != before {
											lockFails = append(lockFails, rv.Type())
										}
										c.Count("callback_lock_observed", 1)
									}
								}
								if i == km.at {
									if km.how == "err" {
										return nil, fmt.Errorf("key failed")
									}
									if km.how == "panic" {
										panic(hostPanic{})
									}
								}
								if len(a) > 0 {
									if _, ok := a[0].(starlark.Int); ok {
										return a[0], nil
									}
								}
								return starlark.MakeInt(0), nil
							})
							kwargs = []starlark.Tuple{{starlark.String("key"), keyfn}}
						}
						fn := cl.mk()
						var err error
						depth0 := th.CallStackDepth()
						pn := sl.Safe(func() { _, err = starlark.Call(th, fn, args, kwargs) })
						if km.how != "" && ncalls == 0 {
							continue // callable does not take key= (or never called it): nothing new observed
						}
						c.Eval(1)
						cell := fmt.Sprintf("%s%s", cl.name, sh.name)
						if pn != nil {
							if _, ok := pn.Value.(hostPanic); !ok {
								c.Count("builtin_panics_seen(C02 domain)", 1)
							}
						}
						if th.CallStackDepth() != depth0 {
							c.Violation("C06 thread-depth builtin "+cl.name, fmt.Sprintf("call stack depth %d -> %d after %s profile=%s", depth0, th.CallStackDepth(), cell, p.name), nil)
							th = &starlark.Thread{Name: "c06b"}
						}
						if ctr.opened > 0 {
							iterating++
							c.Cover("iterating_callables", cl.name)
							c.Distinct(fmt.Sprintf("B/%s/%s/%s/%s/%s", cl.name, sh.name, p.name, ik.name, km.name))
							if ctr.opened != ctr.closed {
								c.Violation("C06 unbalanced-iter "+cl.name+" "+exitClass(err, pn, km),
									fmt.Sprintf("%s with %s of %s (%s): Iterate called %d times, Done %d times (result err=%v panic=%v)", cell, ik.name, p.name, km.name, ctr.opened, ctr.closed, err, pn != nil),
									map[string]any{"callable": cl.name, "shape": sh.name, "profile": p.name, "iterable": ik.name, "key_mode": km.name})
							}
							if ctr.nextAfterDone > 0 {
								c.Count("next_after_done_observed", 1)
							}
						}
						for ei, el := range p.elems {
							switch el := el.(type) {
							case *starlark.List, *starlark.Dict, *starlark.Set:
								if _, ic, _ := starlark.VerifState(el); ic != 0 {
									c.Violation("C06 leak element-of-argument "+cl.name+" "+exitClass(err, pn, km),
										fmt.Sprintf("%s with %s of %s: element #%d (%s) still has itercount=%d after return (err=%v)", cell, ik.name, p.name, ei, el.Type(), ic, err),
										map[string]any{"callable": cl.name, "shape": sh.name, "profile": p.name, "iterable": ik.name})
									// the profile's elements are shared between calls: unlock for the next ones is impossible; rebuild profiles
									profs = profiles()
								}
							case *cseq:
								if el.ctr.opened != el.ctr.closed {
									c.Violation("C06 unbalanced-iter element-of-argument "+cl.name+" "+exitClass(err, pn, km),
										fmt.Sprintf("%s with %s of %s: element #%d: Iterate %d, Done %d (err=%v)", cell, ik.name, p.name, ei, el.ctr.opened, el.ctr.closed, err), nil)
									el.ctr.opened, el.ctr.closed = 0, 0
								}
								if el.ctr.opened > 0 {
									c.Cover("callables_iterating_elements", cl.name)
								}
							case *citer:
								if el.ctr.opened != el.ctr.closed {
									c.Violation("C06 unbalanced-iter element-of-argument "+cl.name+" "+exitClass(err, pn, km),
										fmt.Sprintf("%s with %s of %s: element #%d: Iterate %d, Done %d (err=%v)", cell, ik.name, p.name, ei, el.ctr.opened, el.ctr.closed, err), nil)
									el.ctr.opened, el.ctr.closed = 0, 0
								}
								if el.ctr.opened > 0 {
									c.Cover("callables_iterating_elements", cl.name)
								}
							}
						}
						for _, rv := range reals {
							if _, ic, _ := starlark.VerifState(rv); ic != 0 {
								c.Distinct(fmt.Sprintf("B/%s/%s/%s/%s/%s", cl.name, sh.name, p.name, ik.name, km.name))
								c.Violation("C06 leak builtin "+cl.name+" "+exitClass(err, pn, km),
									fmt.Sprintf("%s with %s of %s (%s): itercount=%d after return (err=%v)", cell, ik.name, p.name, km.name, ic, err),
									map[string]any{"callable": cl.name, "shape": sh.name, "profile": p.name, "iterable": ik.name, "key_mode": km.name})
							}
						}
						if ik.name != "citer" && ik.name != "cseq" && len(reals) > 0 {
							c.Count("real_collection_calls", 1)
						}
						for _, t := range lockFails {
							c.Violation("C06 mutation-allowed in-callback "+t, fmt.Sprintf("mutation of locked %s succeeded inside key callback of %s", t, cell), nil)
						}
						if c.WantSample() && ctr.opened > 0 && err != nil {
							c.Sample(map[string]any{"arm": "builtin", "call": cell, "iterable": ik.name, "profile": p.name, "key_mode": km.name, "iterate_calls": ctr.opened, "done_calls": ctr.closed, "error": driver.Truncate(err.Error(), 120)})
						}
					}
				}
			}
			if iterating > 0 {
				c.Count("callable_shapes_that_iterate", 1)
			}
		}
	}
}

func exitClass(err error, p *sl.Panic, km keyMode) string {
	switch {
	case p != nil:
		return "panic"
	case err == nil:
		return "ok"
	case km.how == "err" && strings.Contains(err.Error(), "key failed"):
		return "callback-error"
	default:
		return "error"
	}
}

// ---- Arm C: Go push iterators ----

func armPush(c *driver.Ctx, kinds map[string]*kindInfo) {
	type pushAPI struct {
		name string
		kind string
		loop func(x starlark.Value, body func(i int) bool)
	}
	apis := []pushAPI{
		{"List.Elements", "list", func(x starlark.Value, body func(int) bool) {
			i := 0
			for range x.(*starlark.List).Elements() {
				if !body(i) {
					break
				}
				i++
			}
		}},
		{"Set.Elements", "set", func(x starlark.Value, body func(int) bool) {
			i := 0
			for range x.(*starlark.Set).Elements() {
				if !body(i) {
					break
				}
				i++
			}
		}},
		{"Dict.Entries", "dict", func(x starlark.Value, body func(int) bool) {
			i := 0
			for range x.(*starlark.Dict).Entries() {
				if !body(i) {
					break
				}
				i++
			}
		}},
	}
	for _, k := range []string{"list", "dict", "set"} {
		k := k
		apis = append(apis, pushAPI{"starlark.Elements(" + k + ")", k, func(x starlark.Value, body func(int) bool) {
			i := 0
			for range starlark.Elements(x.(starlark.Iterable)) {
				if !body(i) {
					break
				}
				i++
			}
		}})
	}
	apis = append(apis, pushAPI{"starlark.Entries(dict)", "dict", func(x starlark.Value, body func(int) bool) {
		i := 0
		for range starlark.Entries(x.(starlark.IterableMapping)) {
			if !body(i) {
				break
			}
			i++
		}
	}})
	th := &starlark.Thread{Name: "push"}
	for _, api := range apis {
		ki := kinds[api.kind]
		for _, exit := range []string{"exhaustion", "break", "panic", "nested"} {
			for k := 0; k < 3; k++ {
				if !c.Take() {
					continue
				}
				x := freshColl(api.kind)
				rs := &runState{c: c, ki: ki, x: x, cell: "push " + api.name, K: k, mustLock: true}
				before := canon.Value(x)
				body := func(i int) bool {
					rs.ticks = i
					rs.probe(th)
					if i == k {
						switch exit {
						case "break":
							return false
						case "panic":
							panic(hostPanic{})
						case "nested":
							api.loop(x, func(j int) bool { rs.probe(th); return j < 1 })
							if _, ic, _ := starlark.VerifState(x); ic != 1 {
								rs.failf("C06 leak push-nested "+api.name, "after nested push loop itercount=%d, want 1", ic)
							}
						}
					}
					return true
				}
				sl.Safe(func() { api.loop(x, body) })
				rs.post(th, before, exit)
				c.Eval(1)
				c.Cover("constructs", "push:"+api.name)
				c.Cover("exit_paths", "push-"+exit)
				if rs.lockObs > 0 {
					c.Distinct(fmt.Sprintf("P/%s/%s/%d", api.name, exit, k))
				}
				rs.report("(Go push iterator "+api.name+")", map[string]any{"exit": exit})
			}
		}
	}
	// push iterators over counting iterables: Done must be called on every exit
	for _, exit := range []string{"exhaustion", "break", "panic"} {
		for _, seq := range []bool{false, true} {
			if !c.Take() {
				continue
			}
			ctr := &counter{}
			var it starlark.Iterable = &citer{elems: []starlark.Value{starlark.MakeInt(1), starlark.MakeInt(2), starlark.MakeInt(3)}, ctr: ctr}
			if seq {
				it = &cseq{citer{elems: []starlark.Value{starlark.MakeInt(1), starlark.MakeInt(2), starlark.MakeInt(3)}, ctr: ctr}}
			}
			sl.Safe(func() {
				i := 0
				for range starlark.Elements(it) {
					if i == 1 && exit == "break" {
						break
					}
					if i == 1 && exit == "panic" {
						panic(hostPanic{})
					}
					i++
				}
			})
			c.Eval(1)
			c.Distinct(fmt.Sprintf("P/citer/%s/%v", exit, seq))
			if ctr.opened != ctr.closed || ctr.opened != 1 {
				c.Violation("C06 unbalanced-iter starlark.Elements "+exit, fmt.Sprintf("Elements over host iterable exit=%s: Iterate %d, Done %d", exit, ctr.opened, ctr.closed), nil)
			}
		}
	}
}

// ---- Arm D: operators whose implementation iterates an operand ----

func armOperators(c *driver.Ctx) {
	type binop struct {
		name string
		tok  syntax.Token
		cmp  bool
	}
	ops := []binop{
		{"+", syntax.PLUS, false}, {"|", syntax.PIPE, false}, {"&", syntax.AMP, false}, {"-", syntax.MINUS, false}, {"^", syntax.CIRCUMFLEX, false},
		{"in", syntax.IN, false}, {"not in", syntax.NOT_IN, false}, {"*", syntax.STAR, false}, {"%", syntax.PERCENT, false},
		{"==", syntax.EQL, true}, {"!=", syntax.NEQ, true}, {"<", syntax.LT, true}, {"<=", syntax.LE, true}, {">", syntax.GT, true}, {">=", syntax.GE, true},
	}
	profs := profiles()
	lefts := []func() starlark.Value{
		func() starlark.Value { return freshColl("list") }, func() starlark.Value { return freshColl("dict") }, func() starlark.Value { return freshColl("set") },
		func() starlark.Value { return starlark.Tuple{starlark.MakeInt(10)} }, func() starlark.Value { return starlark.String("%s %s %s") }, func() starlark.Value { return starlark.MakeInt(10) },
	}
	inplaceSrc := "def run(l, y):\n    l += y\n    return l\ndef run2(l, y):\n    l |= y\n    return l\n"
	g, err := starlark.ExecFileOptions(sl.AllOptions(), &starlark.Thread{}, "ip.star", inplaceSrc, nil)
	if err != nil {
		panic(err)
	}
	th := &starlark.Thread{Name: "c06d"}
	for _, op := range ops {
		for li, mkL := range lefts {
			if !c.Take() {
				continue
			}
			for _, p := range profs {
				for _, ik := range iterKinds {
					for _, swap := range []bool{false, true} {
						ctr := &counter{}
						var reals []starlark.Value
						r := ik.mk(p, ctr, &reals)
						if r == nil {
							continue
						}
						l := mkL()
						reals = append(reals, l)
						a, b := l, r
						if swap {
							a, b = r, l
						}
						var err error
						pn := sl.Safe(func() {
							if op.cmp {
								_, err = starlark.Compare(op.tok, a, b)
							} else {
								_, err = starlark.Binary(op.tok, a, b)
							}
						})
						c.Eval(1)
						if pn != nil {
							c.Count("builtin_panics_seen(C02 domain)", 1)
						}
						checkAfterOp(c, fmt.Sprintf("operator %s", op.name), fmt.Sprintf("left#%d %s %s(%s) swap=%v", li, op.name, ik.name, p.name, swap), ctr, reals, err)
						if ctr.opened > 0 || (ik.name == "set" || ik.name == "list" || ik.name == "dict") && err == nil {
							c.Distinct(fmt.Sprintf("D/%s/%d/%s/%s/%v", op.name, li, p.name, ik.name, swap))
						}
					}
					// in-place forms from source: l += iterable ; d |= d2 ; s |= s2
					if op.name == "+" || op.name == "|" {
						ctr := &counter{}
						var reals []starlark.Value
						r := ik.mk(p, ctr, &reals)
						if r == nil {
							continue
						}
						l := mkL()
						reals = append(reals, l)
						fn := g["run"]
						if op.name == "|" {
							fn = g["run2"]
						}
						var err error
						pn := sl.Safe(func() { _, err = starlark.Call(th, fn, starlark.Tuple{l, r}, nil) })
						c.Eval(1)
						_ = pn
						checkAfterOp(c, "operator "+op.name+"=", fmt.Sprintf("left#%d %s= %s(%s)", li, op.name, ik.name, p.name), ctr, reals, err)
						if ctr.opened > 0 {
							c.Cover("iterating_callables", "operator "+op.name+"=")
							c.Distinct(fmt.Sprintf("D/%s=/%d/%s/%s", op.name, li, p.name, ik.name))
						}
					}
				}
			}
		}
	}
}

func checkAfterOp(c *driver.Ctx, site, what string, ctr *counter, reals []starlark.Value, err error) {
	ex := "ok"
	if err != nil {
		ex = "error"
	}
	if ctr.opened > 0 {
		c.Cover("iterating_callables", site)
	}
	if ctr.opened != ctr.closed {
		c.Violation("C06 unbalanced-iter "+site+" "+ex, fmt.Sprintf("%s: Iterate called %d times, Done %d times (err=%v)", what, ctr.opened, ctr.closed, err), nil)
	}
	for _, rv := range reals {
		if _, ic, ok := starlark.VerifState(rv); ok && ic != 0 {
			c.Violation("C06 leak "+site+" "+ex, fmt.Sprintf("%s: %s operand has itercount=%d afterwards (err=%v)", what, rv.Type(), ic, err), nil)
		}
	}
}
