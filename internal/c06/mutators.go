// Package c06 monitors property C06: mutation during iteration fails, and iterator locks and
// thread state are restored on every exit path.
package c06

import (
	"fmt"
	"sort"

	"go.starlark.net/starlark"
	"go.starlark.net/syntax"

	"verif/internal/canon"
	"verif/internal/sl"
)

// A mutator is one concrete operation that changes a collection of the given content when it
// is applied outside any iteration. Mutators are discovered, not listed: see discover.
type mutator struct {
	name  string // stable name: "method append(99)", "goapi Append", "stmt x[0]=99"
	apply func(th *starlark.Thread, x starlark.Value) error
}

func freshColl(kind string) starlark.Value {
	switch kind {
	case "list":
		return starlark.NewList([]starlark.Value{starlark.MakeInt(10), starlark.MakeInt(20), starlark.MakeInt(30)})
	case "dict":
		d := starlark.NewDict(3)
		d.SetKey(starlark.String("a"), starlark.MakeInt(1))
		d.SetKey(starlark.String("b"), starlark.MakeInt(2))
		d.SetKey(starlark.String("c"), starlark.MakeInt(3))
		return d
	case "set":
		s := starlark.NewSet(3)
		s.Insert(starlark.MakeInt(10))
		s.Insert(starlark.MakeInt(20))
		s.Insert(starlark.MakeInt(30))
		return s
	}
	panic("kind " + kind)
}

// Starlark-level statement forms, compiled once per process.
const stmtSrc = `
def m_setindex_list(x): x[0] = 99
def m_augindex_list(x): x[0] += 1
def m_iadd_list(x): x += [99]
def m_setindex_dict(x): x["zz"] = 99
def m_setindex_dict_existing(x): x["a"] = 99
def m_augindex_dict(x): x["a"] += 1
def m_ior_dict(x): x |= {"zz": 1}
def m_ior_dict_existing(x): x |= {"a": 77}
def m_extend_self(x): x.extend(x)
def m_update_self(x): x.update(x)
`

var stmtFuncs starlark.StringDict

func stmtMutators(kind string) []mutator {
	if stmtFuncs == nil {
		g, err := starlark.ExecFileOptions(sl.AllOptions(), &starlark.Thread{Name: "stmt"}, "stmt.star", stmtSrc, nil)
		if err != nil {
			panic(err)
		}
		stmtFuncs = g
	}
	var names []string
	switch kind {
	case "list":
		names = []string{"m_setindex_list", "m_augindex_list", "m_iadd_list", "m_extend_self"}
	case "dict":
		names = []string{"m_setindex_dict", "m_setindex_dict_existing", "m_augindex_dict", "m_ior_dict", "m_ior_dict_existing", "m_update_self"}
	}
	var out []mutator
	for _, n := range names {
		f := stmtFuncs[n]
		out = append(out, mutator{name: "stmt " + n, apply: func(th *starlark.Thread, x starlark.Value) error {
			_, err := starlark.Call(th, f, starlark.Tuple{x}, nil)
			return err
		}})
	}
	return out
}

func goapiMutators(kind string) []mutator {
	v99 := starlark.MakeInt(99)
	switch kind {
	case "list":
		return []mutator{
			{"goapi List.Append", func(_ *starlark.Thread, x starlark.Value) error { return x.(*starlark.List).Append(v99) }},
			{"goapi List.SetIndex", func(_ *starlark.Thread, x starlark.Value) error { return x.(*starlark.List).SetIndex(0, v99) }},
			{"goapi List.Clear", func(_ *starlark.Thread, x starlark.Value) error { return x.(*starlark.List).Clear() }},
		}
	case "dict":
		return []mutator{
			{"goapi Dict.SetKey new", func(_ *starlark.Thread, x starlark.Value) error {
				return x.(*starlark.Dict).SetKey(starlark.String("zz"), v99)
			}},
			{"goapi Dict.SetKey existing", func(_ *starlark.Thread, x starlark.Value) error {
				return x.(*starlark.Dict).SetKey(starlark.String("a"), v99)
			}},
			{"goapi Dict.Delete", func(_ *starlark.Thread, x starlark.Value) error {
				_, _, err := x.(*starlark.Dict).Delete(starlark.String("a"))
				return err
			}},
			{"goapi Dict.Clear", func(_ *starlark.Thread, x starlark.Value) error { return x.(*starlark.Dict).Clear() }},
		}
	case "set":
		return []mutator{
			{"goapi Set.Insert", func(_ *starlark.Thread, x starlark.Value) error { return x.(*starlark.Set).Insert(v99) }},
			{"goapi Set.Delete", func(_ *starlark.Thread, x starlark.Value) error {
				_, err := x.(*starlark.Set).Delete(starlark.MakeInt(10))
				return err
			}},
			{"goapi Set.Clear", func(_ *starlark.Thread, x starlark.Value) error { return x.(*starlark.Set).Clear() }},
			{"goapi Binary |= via InsertAll", func(_ *starlark.Thread, x starlark.Value) error {
				it := starlark.Tuple{v99}.Iterate()
				defer it.Done()
				return x.(*starlark.Set).InsertAll(it)
			}},
		}
	}
	return nil
}

// argument pool used to probe every method of the collection types
func methodArgPool() []starlark.Value {
	return []starlark.Value{
		starlark.MakeInt(10), starlark.MakeInt(99), starlark.String("a"), starlark.String("zz"), starlark.MakeInt(0),
		starlark.NewList([]starlark.Value{starlark.MakeInt(99)}),
		func() starlark.Value {
			d := starlark.NewDict(1)
			d.SetKey(starlark.String("zz"), starlark.MakeInt(1))
			return d
		}(),
		starlark.Tuple{starlark.Tuple{starlark.String("zz"), starlark.MakeInt(1)}},
		func() starlark.Value { s := starlark.NewSet(1); s.Insert(starlark.MakeInt(10)); return s }(),
	}
}

func methodCandidates(kind string) []mutator {
	x := freshColl(kind)
	names := x.(starlark.HasAttrs).AttrNames()
	sort.Strings(names)
	pool := methodArgPool()
	var tuples []starlark.Tuple
	tuples = append(tuples, starlark.Tuple{})
	for _, a := range pool {
		tuples = append(tuples, starlark.Tuple{a})
	}
	for _, a := range pool {
		for _, b := range pool {
			tuples = append(tuples, starlark.Tuple{a, b})
		}
	}
	var out []mutator
	for _, n := range names {
		for _, args := range tuples {
			n, args := n, args
			out = append(out, mutator{name: fmt.Sprintf("method %s.%s%s", kind, n, args.String()), apply: func(th *starlark.Thread, x starlark.Value) error {
				m, err := x.(starlark.HasAttrs).Attr(n)
				if err != nil || m == nil {
					return fmt.Errorf("no attr")
				}
				_, err = starlark.Call(th, m, args, nil)
				return err
			}})
		}
	}
	return out
}

// discover returns the candidates that change a fresh collection of this kind (effective mutators),
// and the set of method names that were found to mutate.
func discover(kind string) (eff []mutator, methods map[string]bool) {
	methods = map[string]bool{}
	var cands []mutator
	cands = append(cands, methodCandidates(kind)...)
	cands = append(cands, goapiMutators(kind)...)
	cands = append(cands, stmtMutators(kind)...)
	th := &starlark.Thread{Name: "discover"}
	for _, m := range cands {
		x := freshColl(kind)
		before := canon.Value(x)
		var err error
		p := sl.Safe(func() { err = m.apply(th, x) })
		_ = err
		if p != nil {
			continue
		}
		if canon.Value(x) != before {
			eff = append(eff, m)
			var k, n string
			if _, e := fmt.Sscanf(m.name, "method %s", &n); e == nil {
				_ = k
				// n is like "list.append(99)"; cut at '('
				for i := 0; i < len(n); i++ {
					if n[i] == '(' {
						n = n[:i]
						break
					}
				}
				methods[n] = true
			}
		}
	}
	return eff, methods
}

var _ = syntax.PLUS
