package c06

import (
	"fmt"
	"math"
	"sort"
	"strings"

	"go.starlark.net/starlark"

	"verif/internal/canon"
	"verif/internal/driver"
	"verif/internal/sl"
)

func init() {
	driver.Register(&driver.Engine{
		ID: "C06", Level: "fault_enumeration",
		Rule:        "matrix {list,dict,set} x iterating construct (for, list/dict comprehension, nested clauses over the same collection, *args, sequence assignment, every discovered iterable-accepting built-in/method incl. key= callbacks, Go push iterators) x exit path (exhaustion, break, continue, return, fail at iteration k, nested-call error, unpack error, host panic, step-limit cancellation at step N) x nesting depth; each cell is one execution with in-iteration probes (every discovered effective mutator must fail and leave the snapshot unchanged) and post-conditions (itercount==0 via VerifState, Go-API mutation succeeds, call stack depth restored, thread reusable). distinct = distinct (arm, kind, construct, exit, k/depth/step) cells in which the monitor actually observed the lock (or the Iterate/Done pair)",
		Assumptions: []string{"VerifState reads the real frozen/itercount fields (hook)", "canon snapshot distinguishes every observable state of list/dict/set"},
		Run:         run,
		MinDistinct: 200,
	})
}

type kindInfo struct {
	kind string
	muts []mutator
}

// runState is the host side of one execution.
type runState struct {
	c        *driver.Ctx
	ki       *kindInfo
	x        starlark.Value
	cell     string
	ticks    int
	probes   int
	lockObs  int // probes that observed itercount >= 1
	mustLock bool
	fails    []string // "key|what"
	K        int
}

func (rs *runState) failf(key, format string, args ...any) {
	if len(rs.fails) < 8 {
		rs.fails = append(rs.fails, key+"|"+fmt.Sprintf(format, args...))
	}
}

// probe is called (through the host built-in of the same name) while an iteration is believed active.
func (rs *runState) probe(th *starlark.Thread) {
	rs.probes++
	frozen, ic, ok := starlark.VerifState(rs.x)
	if !ok || frozen {
		return
	}
	if ic == 0 {
		if rs.mustLock {
			rs.failf("C06 not-locked "+rs.cell, "inside %s the %s has itercount 0", rs.cell, rs.ki.kind)
		}
		return
	}
	rs.lockObs++
	if rs.probes > 2 && rs.ticks != rs.K {
		return // full mutator sweep on the first two probes and at the exit iteration
	}
	before := canon.Value(rs.x)
	for _, m := range rs.ki.muts {
		var err error
		p := sl.Safe(func() { err = m.apply(th, rs.x) })
		if p != nil {
			rs.failf("C06 mutator-panic "+m.name, "mutator %s panicked during iteration: %v", m.name, p.Value)
			continue
		}
		after := canon.Value(rs.x)
		if err == nil {
			rs.failf("C06 mutation-allowed "+mutKey(m.name), "%s succeeded during iteration in %s (before %s after %s)", m.name, rs.cell, before, after)
		}
		if after != before {
			rs.failf("C06 changed-during-iteration "+mutKey(m.name), "%s changed the collection during iteration in %s: %s -> %s (err=%v)", m.name, rs.cell, before, after, err)
			before = after
		}
		rs.c.Count("locked_mutation_attempts", 1)
	}
}

// mutKey strips the arguments from a mutator name so the key names the call site only.
func mutKey(name string) string {
	if i := strings.IndexByte(name, '('); i > 0 {
		return name[:i]
	}
	return name
}

type hostPanic struct{}

func (rs *runState) env() starlark.StringDict {
	return starlark.StringDict{
		"x": rs.x,
		"probe": starlark.NewBuiltin("probe", func(th *starlark.Thread, _ *starlark.Builtin, args starlark.Tuple, _ []starlark.Tuple) (starlark.Value, error) {
			rs.probe(th)
			return starlark.True, nil
		}),
		"tick": starlark.NewBuiltin("tick", func(th *starlark.Thread, _ *starlark.Builtin, args starlark.Tuple, _ []starlark.Tuple) (starlark.Value, error) {
			n := rs.ticks
			rs.ticks++
			return starlark.MakeInt(n), nil
		}),
		"hostpanic": starlark.NewBuiltin("hostpanic", func(th *starlark.Thread, _ *starlark.Builtin, args starlark.Tuple, _ []starlark.Tuple) (starlark.Value, error) {
			panic(hostPanic{})
		}),
	}
}

// post checks the state after the outermost call returned (by any path).
func (rs *runState) post(th *starlark.Thread, before string, exit string) {
	_, ic, _ := starlark.VerifState(rs.x)
	if ic != 0 {
		rs.failf("C06 leak "+rs.cell+" "+exit, "after %s exit=%s the %s still has itercount=%d", rs.cell, exit, rs.ki.kind, ic)
	}
	if after := canon.Value(rs.x); after != before {
		rs.failf("C06 changed "+rs.cell+" "+exit, "collection changed by %s: %s -> %s", rs.cell, before, after)
	}
	if d := th.CallStackDepth(); d != 0 {
		rs.failf("C06 thread-depth "+rs.cell+" "+exit, "call stack depth %d after return", d)
	}
	// The value must be mutable again through the Go API.
	var err error
	switch x := rs.x.(type) {
	case *starlark.List:
		err = x.Append(starlark.MakeInt(12345))
	case *starlark.Dict:
		err = x.SetKey(starlark.String("post"), starlark.MakeInt(12345))
	case *starlark.Set:
		err = x.Insert(starlark.MakeInt(12345))
	}
	if err != nil {
		rs.failf("C06 leak "+rs.cell+" "+exit, "after %s exit=%s Go-API mutation refused: %v", rs.cell, exit, err)
	}
	// The thread must be reusable.
	th.Uncancel()
	th.SetMaxExecutionSteps(math.MaxUint64)
	v, err2 := starlark.EvalOptions(sl.AllOptions(), th, "reuse.star", "[e for e in x] and len(x)", starlark.StringDict{"x": rs.x})
	if err2 != nil {
		rs.failf("C06 thread-unusable "+rs.cell+" "+exit, "thread not reusable after %s exit=%s: %v", rs.cell, exit, err2)
	} else if n, _ := starlark.AsInt32(v); n != starlark.Len(rs.x) {
		rs.failf("C06 thread-unusable "+rs.cell+" "+exit, "reuse gave %v", v)
	}
	if d := th.CallStackDepth(); d != 0 {
		rs.failf("C06 thread-depth "+rs.cell+" "+exit, "call stack depth %d after reuse", d)
	}
}

func (rs *runState) report(src string, extra map[string]any) {
	seen := map[string]bool{}
	for _, f := range rs.fails {
		key, what, _ := strings.Cut(f, "|")
		if seen[key] {
			continue
		}
		seen[key] = true
		d := map[string]any{"program": src, "kind": rs.ki.kind, "cell": rs.cell, "K": rs.K}
		for k, v := range extra {
			d[k] = v
		}
		rs.c.Violation(key, what, d)
	}
}

// ---------------------------------------------------------------------------------------------
// Arm A: program templates

type exitKind struct {
	name string
	stmt string // statement form (for-loops)
	expr string // expression form usable inside a def called from comprehensions ("" = not available)
}

var exits = []exitKind{
	{"exhaustion", "pass", "None"},
	{"break", "break", ""},
	{"continue", "continue", ""},
	{"return", "return 7", ""},
	{"fail", "fail('boom')", "fail('boom')"},
	{"nested-error", "err_nested()", "err_nested()"},
	{"unpack-few", "u1, u2 = (1,)", ""},
	{"unpack-many", "u1, u2 = (1, 2, 3)", ""},
	{"hostpanic", "hostpanic()", "hostpanic()"},
	{"mutate-error", "MUTATE", "MUTATE_EXPR"},
}

const prelude = `
def err_nested():
    return 1 // 0
`

type construct struct {
	name     string
	mustLock bool
	// build returns the program for exit e and loop depth d; ok=false if the combination does not exist.
	build func(kind string, e exitKind, d int) (string, bool)
}

func mutateStmt(kind string) (string, string) {
	switch kind {
	case "list":
		return "x.append(1)", "x.append(1)"
	case "dict":
		return "x['new'] = 1", "x.setdefault('new', 1)"
	default:
		return "x.add(77)", "x.add(77)"
	}
}

func subst(s, kind string, e exitKind, stmtForm bool) string {
	ms, me := mutateStmt(kind)
	if stmtForm {
		return strings.ReplaceAll(s, "MUTATE", ms)
	}
	return strings.ReplaceAll(s, "MUTATE_EXPR", me)
}

func indent(n int) string { return strings.Repeat("    ", n) }

var constructs = []construct{
	{"for", true, func(kind string, e exitKind, d int) (string, bool) {
		var b strings.Builder
		b.WriteString(prelude + "def run(x):\n")
		for i := 0; i < d; i++ {
			fmt.Fprintf(&b, "%sfor e%d in x:\n", indent(1+i), i)
		}
		fmt.Fprintf(&b, "%sprobe()\n%sif tick() == K:\n%s%s\n", indent(1+d), indent(1+d), indent(2+d), subst(e.stmt, kind, e, true))
		b.WriteString("    return 'done'\nr = run(x)\n")
		return b.String(), true
	}},
	{"for-inner-literal", true, func(kind string, e exitKind, d int) (string, bool) {
		// loop variable unpacking in the for clause itself: for (a, b) in zip-like rows is not over x; use enumerate-free form
		if d != 1 {
			return "", false
		}
		var b strings.Builder
		b.WriteString(prelude + "def run(x):\n    for e0 in x:\n        for e1 in [1, 2]:\n            probe()\n            if tick() == K:\n                " + subst(e.stmt, kind, e, true) + "\n    return 'done'\nr = run(x)\n")
		return b.String(), true
	}},
	{"listcomp", true, func(kind string, e exitKind, d int) (string, bool) {
		if e.expr == "" {
			return "", false
		}
		var b strings.Builder
		b.WriteString(prelude + "def act():\n    probe()\n    if tick() == K:\n        " + subst(e.expr, kind, e, false) + "\n    return 1\n")
		b.WriteString("def run(x):\n    return [act()")
		for i := 0; i < d; i++ {
			fmt.Fprintf(&b, " for e%d in x", i)
		}
		b.WriteString("]\nr = len(run(x))\n")
		return b.String(), true
	}},
	{"listcomp-cond", true, func(kind string, e exitKind, d int) (string, bool) {
		if e.expr == "" || d > 2 {
			return "", false
		}
		var b strings.Builder
		b.WriteString(prelude + "def act():\n    probe()\n    if tick() == K:\n        " + subst(e.expr, kind, e, false) + "\n    return True\n")
		b.WriteString("def run(x):\n    return [1")
		for i := 0; i < d; i++ {
			fmt.Fprintf(&b, " for e%d in x if act()", i)
		}
		b.WriteString("]\nr = len(run(x))\n")
		return b.String(), true
	}},
	{"dictcomp", true, func(kind string, e exitKind, d int) (string, bool) {
		if e.expr == "" {
			return "", false
		}
		var b strings.Builder
		b.WriteString(prelude + "def act():\n    probe()\n    if tick() == K:\n        " + subst(e.expr, kind, e, false) + "\n    return 1\n")
		b.WriteString("def run(x):\n    return {tick(): act()")
		for i := 0; i < d; i++ {
			fmt.Fprintf(&b, " for e%d in x", i)
		}
		b.WriteString("}\nr = len(run(x))\n")
		return b.String(), true
	}},
	{"toplevel-for", true, func(kind string, e exitKind, d int) (string, bool) {
		if e.name == "return" || d > 2 {
			return "", false
		}
		var b strings.Builder
		b.WriteString(prelude)
		for i := 0; i < d; i++ {
			fmt.Fprintf(&b, "%sfor e%d in x:\n", indent(i), i)
		}
		fmt.Fprintf(&b, "%sprobe()\n%sif tick() == K:\n%s%s\n", indent(d), indent(d), indent(1+d), subst(e.stmt, kind, e, true))
		return b.String(), true
	}},
	{"toplevel-comp", true, func(kind string, e exitKind, d int) (string, bool) {
		if e.expr == "" || d > 2 {
			return "", false
		}
		var b strings.Builder
		b.WriteString(prelude + "def act():\n    probe()\n    if tick() == K:\n        " + subst(e.expr, kind, e, false) + "\n    return 1\n")
		b.WriteString("r = len([act()")
		for i := 0; i < d; i++ {
			fmt.Fprintf(&b, " for e%d in x", i)
		}
		b.WriteString("])\n")
		return b.String(), true
	}},
	{"for-in-callback", true, func(kind string, e exitKind, d int) (string, bool) {
		// iteration active in an outer frame while a built-in calls back into Starlark
		if e.expr == "" || d != 1 {
			return "", false
		}
		var b strings.Builder
		b.WriteString(prelude + "def act(v):\n    probe()\n    if tick() == K:\n        " + subst(e.expr, kind, e, false) + "\n    return 1\n")
		b.WriteString("def run(x):\n    for e0 in x:\n        sorted([3, 1, 2], key=act)\n    return 'done'\nr = run(x)\n")
		return b.String(), true
	}},
}

// unpack / argument-expansion programs: the iteration happens inside one instruction.
type unpackProg struct {
	name string
	src  string
}

var unpackProgs = []unpackProg{
	{"unpack-assign", "def run(x):\n    a, b = x\n    return a\nr = run(x)\n"},
	{"unpack-assign-list", "def run(x):\n    [a, b] = x\n    return a\nr = run(x)\n"},
	{"unpack-assign-paren", "def run(x):\n    (a, b) = x\n    return a\nr = run(x)\n"},
	{"unpack-nested", "def run(x):\n    (a, b), c = x, 1\n    return a\nr = run(x)\n"},
	{"unpack-for", "def run(x):\n    for a, b in [x]:\n        pass\n    return 1\nr = run(x)\n"},
	{"unpack-comp", "def run(x):\n    return [a for a, b in [x]]\nr = len(run(x))\n"},
	{"unpack-toplevel", "a, b = x\n"},
	{"star-args", "def f(a, b):\n    return a\ndef run(x):\n    return f(*x)\nr = run(x)\n"},
	{"star-args-lambda", "def run(x):\n    return (lambda a, b: a)(*x)\nr = run(x)\n"},
	{"star-args-builtin", "def run(x):\n    return max(*x)\nr = run(x)\n"},
	{"star-args-mixed", "def f(a, b, c=0, **kw):\n    return a\ndef run(x):\n    return f(*x, k=1)\nr = run(x)\n"},
	{"star-args-fail", "def f(*args):\n    fail('boom')\ndef run(x):\n    return f(*x)\nr = run(x)\n"},
	{"star-args-panic", "def run(x):\n    return hostpanic(*x)\nr = run(x)\n"},
	{"star-args-nonfunc", "def run(x):\n    return 1(*x)\nr = run(x)\n"},
	// argument expansion that ends in an error raised at the call site itself, after *x was (or could have been) expanded
	{"star-args-kwargs-nonmapping", "def f(*a, **k):\n    return 1\ndef run(x):\n    return f(*x, **5)\nr = run(x)\n"},
	{"star-args-kwargs-nonstring-key", "def f(*a, **k):\n    return 1\ndef run(x):\n    return f(*x, **{1: 2})\nr = run(x)\n"},
	{"star-args-kwargs-duplicate", "def f(*a, **k):\n    return 1\ndef run(x):\n    return f(*x, k=1, **{'k': 2})\nr = run(x)\n"},
	{"star-args-kwargs-unexpected", "def f(*a):\n    return 1\ndef run(x):\n    return f(*x, **{'zz': 2})\nr = run(x)\n"},
	{"star-args-kwargs-ok", "def f(*a, **k):\n    return 1\ndef run(x):\n    return f(0, *x, j=1, **{'k': 2})\nr = run(x)\n"},
	{"star-args-kwargs-builtin-bad", "def run(x):\n    return max(*x, **{1: 2})\nr = run(x)\n"},
	{"star-args-kwargs-method-bad", "def run(x):\n    return ''.join(*x, **5)\nr = run(x)\n"},
	{"star-args-kwargs-nonfunc", "def run(x):\n    return None(*x, **{'k': 1})\nr = run(x)\n"},
	{"star-args-kwargs-failing-operand", "def run(x):\n    return len(*x, **fail('kw'))\nr = run(x)\n"},
	{"kwargs-same-collection", "def f(*a, **k):\n    return 1\ndef run(x):\n    return f(*x, **(x if type(x) == 'dict' else {}))\nr = run(x)\n"},
	{"star-args-twice-nested", "def f(*a, **k):\n    return 1\ndef run(x):\n    return f(*x, **{'k': f(*x, **5)})\nr = run(x)\n"},
}

func collOfLen(kind string, n int) starlark.Value {
	switch kind {
	case "list":
		var e []starlark.Value
		for i := 0; i < n; i++ {
			e = append(e, starlark.MakeInt(10*(i+1)))
		}
		return starlark.NewList(e)
	case "dict":
		d := starlark.NewDict(n)
		for i := 0; i < n; i++ {
			d.SetKey(starlark.String(string(rune('a'+i))), starlark.MakeInt(i+1))
		}
		return d
	default:
		s := starlark.NewSet(n)
		for i := 0; i < n; i++ {
			s.Insert(starlark.MakeInt(10 * (i + 1)))
		}
		return s
	}
}

func classify(err error, p *sl.Panic) string {
	switch {
	case p != nil:
		if _, ok := p.Value.(hostPanic); ok {
			return "hostpanic"
		}
		return "panic"
	case err == nil:
		return "ok"
	case strings.Contains(err.Error(), "cancelled"):
		return "cancelled"
	default:
		return "error"
	}
}

// execute runs one program with a fresh collection and thread and checks all post-conditions.
func execute(c *driver.Ctx, ki *kindInfo, x starlark.Value, cellName, exitName, src string, K int, mustLock bool, maxSteps uint64) (rs *runState, outcome string, steps uint64) {
	rs = &runState{c: c, ki: ki, x: x, cell: cellName, K: K, mustLock: mustLock}
	env := rs.env()
	env["K"] = starlark.MakeInt(K)
	before := canon.Value(x)
	th := &starlark.Thread{Name: "c06"}
	if maxSteps > 0 {
		th.SetMaxExecutionSteps(maxSteps)
	}
	var err error
	p := sl.Safe(func() {
		_, err = starlark.ExecFileOptions(sl.AllOptions(), th, "c06.star", src, env)
	})
	outcome = classify(err, p)
	if outcome == "panic" {
		rs.failf("C06 vm-panic "+cellName+" "+exitName, "unexpected Go panic: %v at %s", p.Value, p.TopFrame())
	}
	steps = th.ExecutionSteps()
	ex := exitName
	if maxSteps > 0 {
		ex = "steplimit"
	}
	rs.post(th, before, ex)
	return
}

func run(c *driver.Ctx) {
	kinds := map[string]*kindInfo{}
	for _, k := range []string{"list", "dict", "set"} {
		eff, methods := discover(k)
		kinds[k] = &kindInfo{kind: k, muts: eff}
		var ms []string
		for m := range methods {
			ms = append(ms, m)
			c.Cover("mutating_methods_discovered", m)
		}
		sort.Strings(ms)
		for _, m := range eff {
			c.Cover("effective_mutators", mutKey(m.name))
		}
	}
	// sanity: discovery must have found the well-known mutators, otherwise the monitor is blind
	for _, need := range []string{"list.append", "list.clear", "list.extend", "list.insert", "list.pop", "list.remove", "dict.clear", "dict.pop", "dict.popitem", "dict.setdefault", "dict.update", "set.add", "set.clear", "set.discard", "set.pop", "set.remove"} {
		found := false
		k, _, _ := strings.Cut(need, ".")
		for _, m := range kinds[k].muts {
			if strings.HasPrefix(m.name, "method "+need+"(") {
				found = true
			}
		}
		if !found {
			c.Inconclusive("mutator discovery did not find %s", need)
		}
	}

	stepSamples := c.Pick(24, 1<<30)
	armTemplates(c, kinds, stepSamples)
	armUnpack(c, kinds, stepSamples)
	armBuiltins(c, kinds)
	armPush(c, kinds)
	armOperators(c)
}

func armTemplates(c *driver.Ctx, kinds map[string]*kindInfo, stepSamples int) {
	for _, kind := range []string{"list", "dict", "set"} {
		ki := kinds[kind]
		for _, con := range constructs {
			for _, e := range exits {
				for d := 1; d <= 3; d++ {
					src, ok := con.build(kind, e, d)
					if !ok {
						continue
					}
					total := 1
					for i := 0; i < d; i++ {
						total *= 3
					}
					var ks []int
					if c.Thorough() {
						for k := 0; k < total; k++ {
							ks = append(ks, k)
						}
					} else {
						ks = []int{0, total - 1}
						if total > 2 {
							ks = append(ks, total/2)
						}
					}
					for _, K := range ks {
						if !c.Take() {
							continue
						}
						cellName := fmt.Sprintf("%s/d%d", con.name, d)
						c.Note("key=C06 crash %s %s\n%s", cellName, e.name, src)
						rs, outcome, steps := execute(c, ki, freshColl(kind), cellName, e.name, src, K, con.mustLock, 0)
						c.Eval(1)
						c.Count("outcome_"+outcome, 1)
						c.Cover("exit_paths", e.name)
						c.Cover("constructs", con.name)
						if rs.lockObs > 0 {
							c.Distinct(fmt.Sprintf("A/%s/%s/%s/%d", kind, cellName, e.name, K))
							c.Count("probes_observed_lock", rs.lockObs)
						} else {
							c.Count("runs_without_lock_observation", 1)
						}
						if c.WantSample() {
							c.Sample(map[string]any{"arm": "template", "kind": kind, "construct": cellName, "exit": e.name, "K": K, "outcome": outcome, "steps": steps, "probes": rs.probes, "program": src})
						}
						rs.report(src, map[string]any{"exit": e.name, "outcome": outcome})

						// step-limit cancellation at step N, for the same program
						if steps < 2 {
							continue
						}
						var ns []uint64
						if uint64(stepSamples) >= steps {
							for n := uint64(1); n <= steps+1; n++ {
								ns = append(ns, n)
							}
						} else {
							r := c.Rand()
							ns = append(ns, 1, 2, steps-1, steps, steps+1)
							for len(ns) < stepSamples {
								ns = append(ns, 1+uint64(r.Int63n(int64(steps))))
							}
						}
						for _, N := range ns {
							rs2, out2, _ := execute(c, ki, freshColl(kind), cellName, e.name, src, K, con.mustLock, N)
							c.Eval(1)
							c.Count("steplimit_runs", 1)
							c.Count("steplimit_outcome_"+out2, 1)
							if out2 == "cancelled" {
								c.Distinct(fmt.Sprintf("A/%s/%s/%s/%d/N%d", kind, cellName, e.name, K, N))
							}
							rs2.report(src, map[string]any{"exit": e.name, "max_steps": N, "outcome": out2})
						}
					}
				}
			}
		}
	}
}

func armUnpack(c *driver.Ctx, kinds map[string]*kindInfo, stepSamples int) {
	for _, kind := range []string{"list", "dict", "set"} {
		ki := kinds[kind]
		for _, up := range unpackProgs {
			for n := 0; n <= 4; n++ {
				if !c.Take() {
					continue
				}
				exit := map[bool]string{true: "match", false: "mismatch"}[n == 2]
				if n < 2 {
					exit = "too-few"
				} else if n > 2 {
					exit = "too-many"
				}
				c.Note("key=C06 crash %s %s\n%s", up.name, exit, up.src)
				src := prelude + up.src
				rs, outcome, steps := execute(c, ki, collOfLen(kind, n), up.name, exit, src, -1, false, 0)
				c.Eval(1)
				c.Count("outcome_"+outcome, 1)
				c.Cover("exit_paths", exit)
				c.Cover("constructs", up.name)
				c.Distinct(fmt.Sprintf("U/%s/%s/%d", kind, up.name, n))
				if c.WantSample() {
					c.Sample(map[string]any{"arm": "unpack", "kind": kind, "construct": up.name, "len": n, "outcome": outcome, "program": up.src})
				}
				rs.report(src, map[string]any{"len": n, "outcome": outcome})
				for N := uint64(1); N <= steps+1 && N <= uint64(stepSamples); N++ {
					rs2, out2, _ := execute(c, ki, collOfLen(kind, n), up.name, exit, src, -1, false, N)
					c.Eval(1)
					c.Count("steplimit_runs", 1)
					rs2.report(src, map[string]any{"len": n, "max_steps": N, "outcome": out2})
				}
			}
		}
	}
}
