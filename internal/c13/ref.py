# Reference server for property C13 (sequence and string operations).
#
# Oracle = CPython executing the same operation natively, behind an adapter that encodes ONLY the
# deviations from Python that doc/spec.md states explicitly.  Each adapter rule below cites the
# sentence of the spec it comes from.  Anything not covered by a rule is plain Python.
#
# Protocol: one JSON line in  {"g":[[op, recv, [argset, ...]], ...]}
#           one JSON line out {"r":[[canon, ...], ...], "dev":{name:count}}
# Values:  null/true/false/int/str as JSON; {"b":s} bytes; {"l":[..]} list; {"t":[..]} tuple;
#          {"r":[a,b,c]} range; {"d":[[k,v]..]} dict; {"f":"1.5"} float; {"fn":name} function.
# Results: canonical text (see canon); "E" = the operation fails.  Error messages are not compared.
import sys, json, string

class StarErr(Exception):
    """The Starlark spec says this fails (adapter-imposed), although Python might not."""

FUNCS = {
    "len": len,
    "neg": lambda x: -x,
    "last": lambda x: x[-1],
    "zero": lambda x: 0,
    "first": lambda x: x[0],
    "mod3": lambda x: x % 3,
    "div10": lambda x: x // 10,
}

def dec(v):
    if v is None or isinstance(v, (bool, int, str)):
        return v
    if isinstance(v, dict):
        if "b" in v: return v["b"].encode("latin-1")
        if "l" in v: return [dec(x) for x in v["l"]]
        if "t" in v: return tuple(dec(x) for x in v["t"])
        if "r" in v: return range(*v["r"])
        if "f" in v: return float(v["f"])
        if "d" in v: return {dec(k): dec(x) for k, x in v["d"]}
        if "fn" in v: return FUNCS[v["fn"]]
    raise AssertionError("bad value encoding %r" % (v,))

def canon(v):
    if v is None: return "N"
    if v is True: return "T"
    if v is False: return "F"
    t = type(v)
    if t is int: return "i%d" % v
    if t is str: return "s%d:%s" % (len(v), v)
    if t is bytes: return "b%d:%s" % (len(v), v.decode("latin-1"))
    if t is list: return "[" + ",".join([canon(x) for x in v]) + "]"
    if t is tuple: return "(" + ",".join([canon(x) for x in v]) + ")"
    if t is range: return "r[" + ",".join(["i%d" % x for x in v]) + "]"
    if t is float: return "f" + repr(v)
    if t is Mut: return "M(" + canon(v.ret) + ";" + canon(v.after) + ")"
    if t is Alt: return "\x00OR\x00".join([canon(x) for x in v.alts])
    raise AssertionError("cannot canonicalise %r" % (v,))

class Mut:
    """Result of a mutating list method: return value and the list afterwards."""
    def __init__(self, ret, after): self.ret, self.after = ret, after

DEV = {}
def dev(name):
    DEV[name] = DEV.get(name, 0) + 1

# ---------------------------------------------------------------------------------------------
# Starlark str()/repr() of the small value universe used as format operands.
# spec "repr": "All strings in the result are double-quoted."  spec "str": "If x is a string, the
# result is x (without quotation). All other strings, such as elements of a list of strings, are
# double-quoted."

_ESC = {"\a": "\\a", "\b": "\\b", "\f": "\\f", "\n": "\\n", "\r": "\\r", "\t": "\\t", "\v": "\\v", '"': '\\"', "\\": "\\\\"}

def squote(s):
    out = ['"']
    for ch in s:
        e = _ESC.get(ch)
        if e is not None: out.append(e)
        elif ch < " " or ch == "\x7f": out.append("\\x%02x" % ord(ch))
        else: out.append(ch)
    out.append('"')
    return "".join(out)

def srepr(v):
    if v is None: return "None"
    if v is True: return "True"
    if v is False: return "False"
    t = type(v)
    if t is int: return str(v)
    if t is float: return repr(v)      # workload floats are short decimals whose repr coincides
    if t is str: return squote(v)
    if t is list: return "[" + ", ".join([srepr(x) for x in v]) + "]"
    if t is tuple:
        if len(v) == 1: return "(" + srepr(v[0]) + ",)"
        return "(" + ", ".join([srepr(x) for x in v]) + ")"
    if t is dict: return "{" + ", ".join([srepr(k) + ": " + srepr(x) for k, x in v.items()]) + "}"
    raise AssertionError("srepr: unsupported operand %r" % (v,))

def sstr(v):
    return v if type(v) is str else srepr(v)

# ---------------------------------------------------------------------------------------------
# Adapter helpers

def want_index(x):
    # spec Indexing / Slice expressions: operands are "optional; if present, and not None, each must be an integer".
    # Starlark bool is not an int (spec: Booleans are a separate type), Python's bool is.
    if x is not None and type(x) is not int:
        raise StarErr("index operand must be int or None")

def want_int(x):
    if type(x) is not int:
        raise StarErr("int required")

def not_string_iterable(x):
    # spec Strings: "Strings are _not_ iterable sequences".  (bytes: "not directly iterable; use bytes.elems()".)
    if type(x) in (str, bytes):
        raise StarErr("strings are not iterable")
    if type(x) not in (list, tuple, range, dict):
        raise StarErr("not iterable")

def subrange(S, start, end):
    """spec string.find: "start and end ... specify a subrange of S to which the search should be restricted.
    They are interpreted according to Starlark's indexing conventions" (add n if negative, then truncate to
    [0:n]).  Python's own slice arithmetic implements exactly that convention."""
    want_index(start); want_index(end)
    lo, hi, _ = slice(start, end).indices(len(S))
    if hi < lo: hi = lo
    return S[lo:hi], lo

def native_sub(S, name, x, start, end):
    # What Python's own method answers with (start, end) passed through: used only to *measure* where the
    # spec-sanctioned adapter departs from Python (the empty-needle-beyond-the-end family).
    try:
        return getattr(S, name)(x, start, end)
    except (ValueError, TypeError):
        return StarErr

def unpack_sub(args):
    if not 1 <= len(args) <= 3: raise StarErr("arity")
    x = args[0]
    start = args[1] if len(args) > 1 else None
    end = args[2] if len(args) > 2 else None
    return x, start, end

def classify_dev(S, x, start, end, got, nat):
    """Where native Python (start/end passed through) differs from the spec reading "search S[start:end], add the
    offset back": only for an EMPTY needle in a range that Python treats as non-existent but the spec's indexing
    conventions turn into an empty substring (start beyond the end: clamped to n; start after end: empty slice).
    The empty string occurs in the empty string, so the spec reading finds it at the clamped start."""
    if got == nat:
        return
    n = len(S)
    empty_needle = (x == "" or (type(x) is tuple and "" in x))
    lo, hi, _ = slice(start, end).indices(n)
    if empty_needle and start is not None and start > n:
        dev("native_python_differs:empty_needle_start_beyond_end")
    elif empty_needle and lo > hi:
        dev("native_python_differs:empty_needle_start_after_end")
    else:
        dev("native_python_differs:UNEXPLAINED")

def str_search(name):
    def f(S, args):
        x, start, end = unpack_sub(args)
        if type(x) is not str: raise StarErr("want string")
        sub, lo = subrange(S, start, end)
        pyname = name
        if name in ("find", "index"): r = sub.find(x)
        else: r = sub.rfind(x)
        if r < 0:
            if name in ("index", "rindex"):
                res = StarErr
            else:
                res = -1
        else:
            res = r + lo
        nat = native_sub(S, pyname, x, start, end)
        classify_dev(S, x, start, end, res, nat)
        if res is StarErr: raise StarErr("substring not found")
        return res
    return f

def str_count(S, args):
    x, start, end = unpack_sub(args)
    if type(x) is not str: raise StarErr("want string")
    sub, lo = subrange(S, start, end)
    res = sub.count(x)
    classify_dev(S, x, start, end, res, native_sub(S, "count", x, start, end))
    return res

def str_affix(name):
    def f(S, args):
        x, start, end = unpack_sub(args)
        # spec: "reports whether the string S[start:end] has the specified prefix"; "may be a tuple of strings"
        if type(x) is not str and type(x) is not tuple: raise StarErr("want string or tuple")
        sub, lo = subrange(S, start, end)
        res = getattr(sub, name)(x)
        classify_dev(S, x, start, end, res, native_sub(S, name, x, start, end))
        return res
    return f

def list_index(L, args):
    x, start, end = unpack_sub(args)
    # spec list.index: "If provided and not None, they must be list indices of type int. If an index is negative,
    # len(L) is effectively added to it, then if the index is outside the range [0:len(L)], the nearest value
    # within that range is used".  (Python's list.index rejects None; the spec allows it.)
    sub, lo = subrange(L, start, end)
    return sub.index(x) + lo

class Alt:
    """More than one result is acceptable (the spec text admits more than one reading)."""
    def __init__(self, *alts): self.alts = alts

def str_split(name):
    def f(S, args):
        if len(args) > 2: raise StarErr("arity")
        sep = args[0] if len(args) > 0 else None
        if sep is not None and type(sep) is not str: raise StarErr("sep")
        k = -1
        if len(args) > 1:
            want_int(args[1])
            k = args[1]
        nat = getattr(S, name)(sep, k)
        if name == "rsplit" and sep is not None:
            # spec string.rsplit: "splits a string into substrings like S.split, except that when a maximum number of
            # splits is specified, rsplit chooses the rightmost splits."  Read literally: the split points are those of
            # S.split(sep) and rsplit keeps the last k of them.  Python scans from the right instead; the two differ
            # only when occurrences of sep overlap (",,,".rsplit(",,")).  Without a limit the spec says "like S.split";
            # with a limit either reading of "the rightmost splits" is accepted.
            parts = S.split(sep)
            if k >= 0 and len(parts) - 1 > k:
                cut = len(parts) - k
                parts = [sep.join(parts[:cut])] + parts[cut:]
            if parts != nat:
                if k < 0:
                    dev("spec_defined:rsplit_unlimited_is_split_for_overlapping_separator")
                    return parts
                dev("ambiguous:rsplit_limit_with_overlapping_separator")
                return Alt(parts, nat)
        return nat
    return f

_PY_ONLY_LINE_BREAKS = set("\r\v\f\x1c\x1d\x1e\x85")

def str_splitlines(S, args):
    if len(args) > 1: raise StarErr("arity")
    keep = False
    if args:
        if type(args[0]) is not bool: raise StarErr("keepends: workload only passes booleans")
        keep = args[0]
    if _PY_ONLY_LINE_BREAKS.intersection(S):
        # spec: "line terminators (currently assumed to be a single newline, \n, regardless of platform)":
        # direct model for texts in which Python would see further terminators.
        dev("model:splitlines_newline_only")
        if S == "": return []
        parts = S.split("\n")
        if keep: parts = [p + "\n" for p in parts[:-1]] + [parts[-1]]
        if parts[-1] == "": parts.pop()
        return parts
    return S.splitlines(keep)

def str_partition(name):
    def f(S, args):
        if len(args) != 1 or type(args[0]) is not str: raise StarErr("arity/type")
        return getattr(S, name)(args[0])
    return f

def str_strip(name):
    def f(S, args):
        if len(args) > 1: raise StarErr("arity")
        if not args: return getattr(S, name)()
        if type(args[0]) is not str: raise StarErr("workload only passes strings")
        # An empty cutset means "white space", as when the argument is omitted: the spec only says the
        # parameter "specifies an alternative set of code points", and the repository's own corpus
        # (starlark/testdata/string.star: " \tfoo\n ".strip("") == "foo") fixes this reading.
        if args[0] == "": return getattr(S, name)()
        return getattr(S, name)(args[0])
    return f

def str_replace(S, args):
    if not 2 <= len(args) <= 3: raise StarErr("arity")
    if type(args[0]) is not str or type(args[1]) is not str: raise StarErr("type")
    if len(args) == 3:
        want_int(args[2])     # spec: "count, which must be an int"
        return S.replace(args[0], args[1], args[2])
    return S.replace(args[0], args[1])

def str_join(S, args):
    if len(args) != 1: raise StarErr("arity")
    not_string_iterable(args[0])
    return S.join(args[0])

def str_removefix(name):
    def f(S, args):
        if len(args) != 1 or type(args[0]) is not str: raise StarErr("arity/type")
        return getattr(S, name)(args[0])
    return f

def str_nullary(name):
    def f(S, args):
        if args: raise StarErr("arity")
        return getattr(S, name)()
    return f

def str_elems(name):
    # Not Python: direct model from the spec ("successive 1-byte substrings", "numeric byte values",
    # "substrings that each encode a single code point", "integer Unicode code points"); ASCII only.
    def f(S, args):
        if args: raise StarErr("arity")
        if type(S) is bytes:
            if name != "elems": raise StarErr("no such method")
            return list(S)
        if name in ("elems", "codepoints"): return list(S)
        return [ord(ch) for ch in S]
    return f

class SV:
    """Operand wrapper so that Python's own str.format engine renders values the Starlark way."""
    __slots__ = ("v",)
    def __init__(self, v): self.v = v
    def __str__(self): return sstr(self.v)
    def __repr__(self): return srepr(self.v)
    def __format__(self, spec):
        # spec string.format: "The format specifier ... Currently it must be empty"
        if spec != "": raise StarErr("format spec not supported")
        return sstr(self.v)

_FORMATTER = string.Formatter()

def str_format(S, args):
    pos, kw = args
    # Pre-scan with Python's own field parser; reject what the spec excludes:
    #  "The field name may be either a decimal number or a keyword" (no attribute/index syntax);
    #  "The conversion ... may be either !r ... or !s";  the format specifier "must be empty".
    for lit, field, spec, conv in _FORMATTER.parse(S):
        if field is None: continue
        if "." in field or "[" in field: raise StarErr("attribute/index syntax")
        if spec: raise StarErr("format spec")
        if conv not in (None, "r", "s"): raise StarErr("conversion")
    return S.format(*[SV(x) for x in pos], **{k: SV(x) for k, x in kw.items()})

_CONV = "srdioxXeEfFgGc"

def str_interp(S, args):
    (x,) = args
    # Structure from the spec ("String interpolation"); the text of each conversion from Python's own %.
    segs = []   # (literal) or (key, conv)
    i, n = 0, len(S)
    lit = []
    while i < n:
        ch = S[i]
        if ch != "%":
            lit.append(ch); i += 1; continue
        i += 1
        if i < n and S[i] == "%":
            lit.append("%"); i += 1; continue
        key = None
        if i < n and S[i] == "(":
            j = S.find(")", i)
            if j < 0: raise StarErr("incomplete format key")
            key = S[i + 1:j]; i = j + 1
        if i >= n: raise StarErr("incomplete format")
        c = S[i]; i += 1
        # spec: "Starlark does not support the flag, width, and padding specifiers supported by Python's %"
        # (the conversion table of the spec lists "%" itself: "%  none  literal percent sign", also after "(key)")
        if c not in _CONV and not (c == "%" and key is not None): raise StarErr("unknown conversion")
        segs.append("".join(lit)); lit = []
        segs.append((key, c))
    segs.append("".join(lit))
    convs = [s for s in segs if type(s) is tuple]
    is_tuple = type(x) is tuple
    is_map = type(x) is dict
    npos = sum(1 for k, c in convs if k is None)
    if any(k is not None for k, c in convs) and npos:
        raise AssertionError("workload must not mix keyed and positional conversions")
    if not convs:
        # spec: "If the format string contains no conversions, the operand must be a Mapping or an empty tuple."
        if not (is_map or (is_tuple and len(x) == 0)): raise StarErr("too many arguments")
    out = []
    index = 0
    for s in segs:
        if type(s) is str:
            out.append(s); continue
        key, c = s
        if key is not None:
            if not is_map: raise StarErr("format requires a mapping")
            if key not in x: raise StarErr("key not found")
            arg = x[key]
        else:
            # spec: "the conversion's operand is the next element of args, which must be a tuple with exactly one
            # component per conversion, unless the format string contains only a single conversion, in which case
            # args itself is its operand."
            if is_tuple:
                if index >= len(x): raise StarErr("not enough arguments")
                arg = x[index]
            else:
                if index >= 1: raise StarErr("not enough arguments")
                arg = x
            index += 1
        if c == "%": out.append("%")
        elif c == "s": out.append(sstr(arg))
        elif c == "r": out.append(srepr(arg))
        elif c in "dioxX":
            # spec: "It is an error if the argument does not have the type required ... A Boolean argument is not
            # considered a number."
            if type(arg) is int: out.append(("%" + c) % arg)
            elif type(arg) is float and c in "di": out.append(("%" + c) % arg)
            elif type(arg) is float: raise AssertionError("workload must not pass floats to %x/%o")
            else: raise StarErr("requires number")
        elif c in "eEfFgG":
            if type(arg) in (int, float): out.append(("%" + c) % arg)
            else: raise StarErr("requires number")
        elif c == "c":
            if type(arg) is int:
                if not 0 <= arg <= 0x10FFFF: raise StarErr("code point")
                if arg > 127: raise AssertionError("workload is ASCII only")
                out.append("%c" % arg)
            elif type(arg) is str:
                if len(arg) != 1: raise StarErr("single character")
                out.append("%c" % arg)
            else: raise StarErr("requires int or string")
    if not is_map:
        if is_tuple and index < len(x): raise StarErr("too many arguments")
    res = "".join(out)
    # measure agreement with fully native Python where the operand rendering coincides
    if convs and all(k is None and c in "sd" for k, c in convs):
        ops = x if is_tuple else (x,)
        if all(type(o) is int or (type(o) is str) for o in ops):
            try:
                nat = S % x
            except (TypeError, ValueError):
                nat = None
            if nat is not None and nat != res:
                dev("native_python_differs:UNEXPLAINED")
            else:
                dev("native_python_agrees:interp")
    return res

# ---- list methods: operate on a fresh copy, report (return value, list afterwards)

def list_mut(name):
    def f(L, args):
        L = list(L)
        if name == "append":
            if len(args) != 1: raise StarErr("arity")
            return Mut(L.append(args[0]), L)
        if name == "clear":
            if args: raise StarErr("arity")
            return Mut(L.clear(), L)
        if name == "extend":
            if len(args) != 1: raise StarErr("arity")
            not_string_iterable(args[0])
            return Mut(L.extend(args[0]), L)
        if name == "insert":
            if len(args) != 2: raise StarErr("arity")
            want_int(args[0])
            return Mut(L.insert(args[0], args[1]), L)
        if name == "pop":
            if len(args) > 1: raise StarErr("arity")
            if args: want_int(args[0])
            return Mut(L.pop(*args), L)
        if name == "remove":
            if len(args) != 1: raise StarErr("arity")
            return Mut(L.remove(args[0]), L)
        raise AssertionError(name)
    return f

# ---- built-in functions

def f_reversed(_, args):
    # spec: "reversed(x) returns a new list containing the elements of the iterable sequence x in reverse order"
    if len(args) != 1: raise StarErr("arity")
    not_string_iterable(args[0])
    return list(reversed(list(args[0])))

def f_zip(_, args):
    # spec: "zip() returns a new list of n-tuples"
    for a in args: not_string_iterable(a)
    return list(zip(*args))

def f_enumerate(_, args):
    # spec: "enumerate(x) returns a list of (index, value) pairs"
    if not 1 <= len(args) <= 2: raise StarErr("arity")
    not_string_iterable(args[0])
    if len(args) == 2: want_int(args[1])
    return list(enumerate(*args))

def f_sorted(_, args):
    # args: iterable, key function or None (= not given), reverse or None (= not given)
    it, key, rev = args
    not_string_iterable(it)
    kw = {}
    if key is not None: kw["key"] = key
    if rev is not None:
        if type(rev) is not bool: raise StarErr("workload only passes booleans")
        kw["reverse"] = rev
    return sorted(it, **kw)

def f_minmax(fn):
    def f(_, args):
        pos, key = args
        if len(pos) == 0: raise StarErr("arity")
        if len(pos) == 1: not_string_iterable(pos[0])
        if key is not None: return fn(*pos, key=key)
        return fn(*pos)
    return f

def f_anyall(fn):
    def f(_, args):
        if len(args) != 1: raise StarErr("arity")
        not_string_iterable(args[0])
        return fn(args[0])
    return f

# ---- operators

def op_index(S, args):
    (i,) = args
    # spec Index expressions: "The index i must be an int value in the range -n <= i < n"
    want_int(i)
    if type(S) is bytes:
        # spec (Strings): "The index expression s[i] returns the 1-byte substring s[i:i+1]"; doc/spec.md does not
        # define bytes separately, the implementation documents bytes as the binary twin of string.
        n = len(S)
        if not -n <= i < n: raise StarErr("out of range")
        j = i if i >= 0 else n + i
        return S[j:j + 1]
    return S[i]

def op_setitem(S, args):
    i, v = args
    want_int(i)
    # spec Index expressions: "It is a dynamic error to attempt to update an element of an immutable type, such as a
    # tuple or string"; the index obeys the same -n <= i < n rule.
    if type(S) is not list: raise StarErr("immutable")
    L = list(S)
    L[i] = v
    return Mut(None, L)

def op_prog(_, args):
    # A whole program (aliasing family): the Python text is the same statement sequence as the Starlark text, with
    # list(...) around the results the spec defines as new lists but Python returns as iterators/views.  What is
    # observed is every operand and the result AFTER both have been mutated: a result that shares storage with an
    # operand shows up as a difference.
    ns = {}
    exec(args[1], ns)
    return ns["res"]

def op_slice(S, args):
    a, b, c = args
    want_index(a); want_index(b); want_index(c)
    return S[a:b:c]

_SEQ = (str, bytes, list, tuple)

def op_add(x, args):
    (y,) = args
    if type(x) in _SEQ and type(x) is type(y): return x + y
    raise StarErr("unsupported operand types")

def op_mul(x, args):
    (y,) = args
    if type(x) in _SEQ and type(y) is int: return x * y
    if type(y) in _SEQ and type(x) is int: return x * y
    raise StarErr("unsupported operand types")

OPS = {
    "index": op_index, "slice": op_slice, "prog": op_prog, "setitem": op_setitem, "add": op_add, "mul": op_mul, "interp": str_interp,
    "m:find": str_search("find"), "m:rfind": str_search("rfind"), "m:index": str_search("index"), "m:rindex": str_search("rindex"),
    "m:count": str_count, "m:startswith": str_affix("startswith"), "m:endswith": str_affix("endswith"),
    "m:split": str_split("split"), "m:rsplit": str_split("rsplit"), "m:splitlines": str_splitlines,
    "m:partition": str_partition("partition"), "m:rpartition": str_partition("rpartition"),
    "m:strip": str_strip("strip"), "m:lstrip": str_strip("lstrip"), "m:rstrip": str_strip("rstrip"),
    "m:replace": str_replace, "m:join": str_join,
    "m:removeprefix": str_removefix("removeprefix"), "m:removesuffix": str_removefix("removesuffix"),
    "m:format": str_format,
    "m:elems": str_elems("elems"), "m:elem_ords": str_elems("elem_ords"),
    "m:codepoints": str_elems("codepoints"), "m:codepoint_ords": str_elems("codepoint_ords"),
    "l:index": list_index,
    "f:reversed": f_reversed, "f:zip": f_zip, "f:enumerate": f_enumerate, "f:sorted": f_sorted,
    "f:min": f_minmax(min), "f:max": f_minmax(max), "f:any": f_anyall(any), "f:all": f_anyall(all),
}
for _n in ("upper", "lower", "title", "capitalize", "isalnum", "isalpha", "isdigit", "islower", "isupper", "isspace", "istitle"):
    OPS["m:" + _n] = str_nullary(_n)
for _n in ("append", "clear", "extend", "insert", "pop", "remove"):
    OPS["l:" + _n] = list_mut(_n)

# Exceptions that mean "the operation fails" in Python.  Anything else (NameError, AssertionError, ...) is a bug
# of this script and must stop the run rather than be mistaken for an agreed error.
FAILS = (StarErr, TypeError, ValueError, IndexError, KeyError, OverflowError, MemoryError)

def main():
    out = sys.stdout
    for line in sys.stdin:
        req = json.loads(line)
        DEV.clear()
        res = []
        for op, recv, argsets in req["g"]:
            f = OPS[op]
            r = dec(recv)
            rr = []
            for a in argsets:
                try:
                    rr.append(canon(f(r, dec({"l": a}))))
                except FAILS:
                    rr.append("E")
            res.append(rr)
        out.write(json.dumps({"r": res, "dev": DEV}))
        out.write("\n")
        out.flush()

main()
