package c13

import (
	"fmt"
	"strings"

	"go.starlark.net/starlark"
	"go.starlark.net/syntax"

	"verif/internal/sl"
)

// item is one operation to be judged: op applied to recv with args.
//
//	index [i]            recv[i]
//	slice [a,b,c]        recv[a:b:c]           (None = operand omitted)
//	setitem [i,v]        recv[i] = v           (reports (None; the list afterwards))
//	prog [star,py,label] a whole program (Starlark text, Python text); its observation is the global "res"
//	add [y] mul [y]      recv + y, recv * y
//	interp [x]           recv % x
//	m:<name> args        string/bytes method; m:format takes [tuple of positionals, dict of keywords];
//	                     elems/elem_ords/codepoints/codepoint_ords are materialised with list(...)
//	l:<name> args        list method on a fresh list; mutators report (return value; list afterwards)
//	f:<name> args        built-in; f:sorted [iterable, key|None, reverse|None]; f:min/f:max [tuple of positionals, key|None]
type item struct {
	op   string
	recv val
	args []val
}

type execEnv struct {
	thread  *starlark.Thread
	funcs   map[string]starlark.Value
	helpers starlark.StringDict
}

const helperSrc = `
def _index(x, i): return x[i]
def _slice(x, a, b, c): return x[a:b:c]
def _add(x, y): return x + y
def _mul(x, y): return x * y
def _interp(x, y): return x % y
def _setitem(x, i, v):
    x[i] = v
_neg = lambda x: -x
_last = lambda x: x[-1]
_zero = lambda x: 0
_first = lambda x: x[0]
_mod3 = lambda x: x % 3
_div10 = lambda x: x // 10
`

func newExecEnv() (*execEnv, error) {
	env := &execEnv{thread: &starlark.Thread{Name: "c13"}}
	g, err := starlark.ExecFileOptions(sl.AllOptions(), env.thread, "c13helpers.star", helperSrc, nil)
	if err != nil {
		return nil, err
	}
	env.helpers = g
	env.funcs = map[string]starlark.Value{
		"len": starlark.Universe["len"], "neg": g["_neg"], "last": g["_last"], "zero": g["_zero"], "first": g["_first"], "mod3": g["_mod3"], "div10": g["_div10"],
	}
	return env, nil
}

var iterMethods = map[string]bool{"elems": true, "elem_ords": true, "codepoints": true, "codepoint_ords": true}
var listMutators = map[string]bool{"append": true, "clear": true, "extend": true, "insert": true, "pop": true, "remove": true}

// outcome of one execution path.
type outcome struct {
	canon string // canonical result, or "E"
	err   string // error text (diagnostics only; never compared)
	panic string // non-empty if the code under test panicked
}

func errOutcome(err error) outcome { return outcome{canon: "E", err: err.Error()} }

func valOutcome(v starlark.Value) outcome {
	var sb strings.Builder
	canonStar(&sb, v)
	return outcome{canon: sb.String()}
}

// direct executes it through Go API calls: method values obtained with Attr and invoked with starlark.Call,
// built-ins from starlark.Universe, and indexing/slicing/operators through precompiled one-line functions
// (so that the interpreter's INDEX/SLICE/BINARY paths are the ones exercised).
func (env *execEnv) direct(it *item) (out outcome) {
	if p := sl.Safe(func() { out = env.direct1(it) }); p != nil {
		return outcome{canon: "PANIC", panic: p.String() + " @ " + p.TopFrame()}
	}
	return out
}

func (env *execEnv) call(fn starlark.Value, args starlark.Tuple, kwargs []starlark.Tuple) (starlark.Value, error) {
	return starlark.Call(env.thread, fn, args, kwargs)
}

func (env *execEnv) starArgs(args []val) starlark.Tuple {
	t := make(starlark.Tuple, len(args))
	for i, a := range args {
		t[i] = a.star(env)
	}
	return t
}

// runProg executes a whole program and observes its global "res".
func (env *execEnv) runProg(opts *syntax.FileOptions, src string) outcome {
	g, err := starlark.ExecFileOptions(opts, env.thread, "c13prog.star", src, nil)
	if err != nil {
		return errOutcome(err)
	}
	res := g["res"]
	if res == nil {
		return outcome{canon: "E", err: "program left no res"}
	}
	return valOutcome(res)
}

func (env *execEnv) direct1(it *item) outcome {
	if it.op == "prog" {
		// (there is no Go-API form of a program: the second run uses the default dialect instead of all options)
		return env.runProg(&syntax.FileOptions{}, it.args[0].s)
	}
	recv := it.recv.star(env)
	switch {
	case it.op == "index":
		v, err := env.call(env.helpers["_index"], starlark.Tuple{recv, it.args[0].star(env)}, nil)
		if err != nil {
			return errOutcome(err)
		}
		return valOutcome(v)
	case it.op == "slice":
		v, err := env.call(env.helpers["_slice"], append(starlark.Tuple{recv}, env.starArgs(it.args)...), nil)
		if err != nil {
			return errOutcome(err)
		}
		return valOutcome(v)
	case it.op == "add" || it.op == "mul" || it.op == "interp":
		v, err := env.call(env.helpers["_"+it.op], starlark.Tuple{recv, it.args[0].star(env)}, nil)
		if err != nil {
			return errOutcome(err)
		}
		return valOutcome(v)
	case it.op == "setitem":
		v, err := env.call(env.helpers["_setitem"], starlark.Tuple{recv, it.args[0].star(env), it.args[1].star(env)}, nil)
		if err != nil {
			return errOutcome(err)
		}
		var sb strings.Builder
		sb.WriteString("M(")
		canonStar(&sb, v)
		sb.WriteByte(';')
		canonStar(&sb, recv)
		sb.WriteByte(')')
		return outcome{canon: sb.String()}
	case strings.HasPrefix(it.op, "m:") || strings.HasPrefix(it.op, "l:"):
		name := it.op[2:]
		ha, ok := recv.(starlark.HasAttrs)
		if !ok {
			return outcome{canon: "E", err: "receiver has no attributes"}
		}
		m, err := ha.Attr(name)
		if err != nil {
			return errOutcome(err)
		}
		if m == nil {
			return outcome{canon: "E", err: "no such method " + name}
		}
		var args starlark.Tuple
		var kwargs []starlark.Tuple
		if name == "format" {
			args = env.starArgs(it.args[0].elems)
			kw := it.args[1]
			for i := 0; i+1 < len(kw.elems); i += 2 {
				kwargs = append(kwargs, starlark.Tuple{kw.elems[i].star(env), kw.elems[i+1].star(env)})
			}
		} else {
			args = env.starArgs(it.args)
		}
		v, err := env.call(m, args, kwargs)
		if err != nil {
			return errOutcome(err)
		}
		if iterMethods[name] {
			v, err = env.call(starlark.Universe["list"], starlark.Tuple{v}, nil)
			if err != nil {
				return errOutcome(err)
			}
		}
		if it.op[0] == 'l' && listMutators[name] {
			var sb strings.Builder
			sb.WriteString("M(")
			canonStar(&sb, v)
			sb.WriteByte(';')
			canonStar(&sb, recv)
			sb.WriteByte(')')
			return outcome{canon: sb.String()}
		}
		return valOutcome(v)
	case strings.HasPrefix(it.op, "f:"):
		name := it.op[2:]
		fn := starlark.Universe[name]
		var args starlark.Tuple
		var kwargs []starlark.Tuple
		switch name {
		case "sorted":
			args = starlark.Tuple{it.args[0].star(env)}
			if it.args[1].k != 'N' {
				kwargs = append(kwargs, starlark.Tuple{starlark.String("key"), it.args[1].star(env)})
			}
			if it.args[2].k != 'N' {
				kwargs = append(kwargs, starlark.Tuple{starlark.String("reverse"), it.args[2].star(env)})
			}
		case "min", "max":
			args = env.starArgs(it.args[0].elems)
			if it.args[1].k != 'N' {
				kwargs = append(kwargs, starlark.Tuple{starlark.String("key"), it.args[1].star(env)})
			}
		default:
			args = env.starArgs(it.args)
		}
		v, err := env.call(fn, args, kwargs)
		if err != nil {
			return errOutcome(err)
		}
		return valOutcome(v)
	}
	panic("c13: unknown op " + it.op)
}

// source renders it as Starlark source text.  expr=false means the text is a file that leaves its
// observations in the globals r (return value) and x (the list afterwards).
func (it *item) source() (src string, expr bool) {
	var sb strings.Builder
	argList := func(args []val) {
		for i, a := range args {
			if i > 0 {
				sb.WriteString(", ")
			}
			a.src(&sb)
		}
	}
	switch {
	case it.op == "index":
		it.recv.src(&sb)
		sb.WriteByte('[')
		it.args[0].src(&sb)
		sb.WriteByte(']')
	case it.op == "slice":
		// None operands are written as omitted operands (the direct path passes None itself).
		it.recv.src(&sb)
		sb.WriteByte('[')
		if it.args[0].k != 'N' {
			it.args[0].src(&sb)
		}
		sb.WriteByte(':')
		if it.args[1].k != 'N' {
			it.args[1].src(&sb)
		}
		if it.args[2].k != 'N' {
			sb.WriteByte(':')
			it.args[2].src(&sb)
		}
		sb.WriteByte(']')
	case it.op == "add" || it.op == "mul" || it.op == "interp":
		sb.WriteByte('(')
		it.recv.src(&sb)
		sb.WriteString(map[string]string{"add": ") + (", "mul": ") * (", "interp": ") % ("}[it.op])
		it.args[0].src(&sb)
		sb.WriteByte(')')
	case it.op == "setitem":
		sb.WriteString("x = ")
		it.recv.src(&sb)
		sb.WriteString("\nx[")
		it.args[0].src(&sb)
		sb.WriteString("] = ")
		it.args[1].src(&sb)
		sb.WriteString("\nr = None\n")
		return sb.String(), false
	case strings.HasPrefix(it.op, "l:") && listMutators[it.op[2:]]:
		sb.WriteString("x = ")
		it.recv.src(&sb)
		sb.WriteString("\nr = x.")
		sb.WriteString(it.op[2:])
		sb.WriteByte('(')
		argList(it.args)
		sb.WriteString(")\n")
		return sb.String(), false
	case strings.HasPrefix(it.op, "m:") || strings.HasPrefix(it.op, "l:"):
		name := it.op[2:]
		if iterMethods[name] {
			sb.WriteString("list(")
		}
		it.recv.src(&sb)
		sb.WriteByte('.')
		sb.WriteString(name)
		sb.WriteByte('(')
		if name == "format" {
			argList(it.args[0].elems)
			kw := it.args[1]
			for i := 0; i+1 < len(kw.elems); i += 2 {
				if i > 0 || len(it.args[0].elems) > 0 {
					sb.WriteString(", ")
				}
				sb.WriteString(kw.elems[i].s)
				sb.WriteByte('=')
				kw.elems[i+1].src(&sb)
			}
		} else {
			argList(it.args)
		}
		sb.WriteByte(')')
		if iterMethods[name] {
			sb.WriteByte(')')
		}
	case strings.HasPrefix(it.op, "f:"):
		name := it.op[2:]
		sb.WriteString(name)
		sb.WriteByte('(')
		switch name {
		case "sorted":
			it.args[0].src(&sb)
			if it.args[1].k != 'N' {
				sb.WriteString(", key=")
				it.args[1].src(&sb)
			}
			if it.args[2].k != 'N' {
				sb.WriteString(", reverse=")
				it.args[2].src(&sb)
			}
		case "min", "max":
			argList(it.args[0].elems)
			if it.args[1].k != 'N' {
				if len(it.args[0].elems) > 0 {
					sb.WriteString(", ")
				}
				sb.WriteString("key=")
				it.args[1].src(&sb)
			}
		default:
			argList(it.args)
		}
		sb.WriteByte(')')
	default:
		panic("c13: unknown op " + it.op)
	}
	return sb.String(), true
}

// viaSource evaluates the rendered source text with every dialect option on.
func (env *execEnv) viaSource(it *item) (out outcome, src string) {
	if it.op == "prog" {
		src = it.args[0].s
		if p := sl.Safe(func() { out = env.runProg(sl.AllOptions(), src) }); p != nil {
			return outcome{canon: "PANIC", panic: p.String() + " @ " + p.TopFrame()}, src
		}
		return out, src
	}
	src, expr := it.source()
	p := sl.Safe(func() {
		if expr {
			v, err := starlark.EvalOptions(sl.AllOptions(), env.thread, "c13.star", src, nil)
			if err != nil {
				out = errOutcome(err)
				return
			}
			out = valOutcome(v)
			return
		}
		g, err := starlark.ExecFileOptions(sl.AllOptions(), env.thread, "c13.star", src, nil)
		if err != nil {
			out = errOutcome(err)
			return
		}
		var sb strings.Builder
		sb.WriteString("M(")
		canonStar(&sb, g["r"])
		sb.WriteByte(';')
		canonStar(&sb, g["x"])
		sb.WriteByte(')')
		out = outcome{canon: sb.String()}
	})
	if p != nil {
		return outcome{canon: "PANIC", panic: p.String() + " @ " + p.TopFrame()}, src
	}
	return out, src
}

func (it *item) String() string {
	s, _ := it.source()
	return s
}

// opGroup names the implementation unit an operation belongs to (for stable violation keys):
// methods that share one implementation in library.go share a group.
func (it *item) opGroup() string {
	if it.op == "prog" {
		return "aliasing " + it.args[2].s
	}
	typ := map[byte]string{'S': "str", 'B': "bytes", 'L': "list", 'U': "tuple", 'R': "range"}[it.recv.k]
	if typ == "" {
		typ = "value"
	}
	switch {
	case it.op == "index", it.op == "slice", it.op == "setitem":
		return typ + " " + it.op
	case it.op == "add":
		return typ + " +"
	case it.op == "mul":
		return typ + " *"
	case it.op == "interp":
		return "str %"
	case strings.HasPrefix(it.op, "f:"):
		return it.op[2:]
	}
	name := it.op[2:]
	switch name {
	case "find", "rfind", "index", "rindex":
		if it.recv.k == 'S' {
			return "str.find/rfind/index/rindex"
		}
	case "strip", "lstrip", "rstrip":
		return "str.strip/lstrip/rstrip"
	case "startswith", "endswith":
		return "str.startswith/endswith"
	case "partition", "rpartition":
		return "str.partition/rpartition"
	case "removeprefix", "removesuffix":
		return "str.removeprefix/removesuffix"
	case "elems", "elem_ords", "codepoints", "codepoint_ords":
		return typ + ".elems/codepoints"
	}
	return fmt.Sprintf("%s.%s", typ, name)
}

// argClass summarises the shape of the arguments relative to the receiver length n (for violation keys):
// it never contains the concrete operands.
func (it *item) argClass() string {
	if it.op == "prog" {
		return "(result shares storage with an operand)"
	}
	if it.op == "slice" {
		// one key per (receiver type, direction): start/stop shapes would split one root cause over hundreds of keys
		st := it.args[2]
		switch {
		case st.k == 'N':
			return "(default stride)"
		case st.k == 'I' && st.i > 0:
			return "(positive stride)"
		case st.k == 'I' && st.i < 0:
			return "(negative stride)"
		}
		return "(other stride)"
	}
	var parts []string
	var cls func(a val) string
	cls = func(a val) string {
		switch a.k {
		case 'N':
			return "None"
		case 'T':
			return "bool"
		case 'G':
			return "outside-int32"
		case 'I':
			if a.i >= 1<<31 || a.i < -(1<<31) {
				return "outside-int32"
			}
			return "int"
		case 'F':
			return "float"
		case 'S', 'B':
			if a.s == "" {
				return "empty"
			}
			return "str"
		case 'L':
			return "list"
		case 'U':
			for _, e := range a.elems {
				if (e.k == 'S') && e.s == "" {
					return "tuple-with-empty"
				}
			}
			return "tuple"
		case 'R':
			return "range"
		case 'D':
			return "dict"
		case 'C':
			return "func"
		}
		return "?"
	}
	for _, a := range it.args {
		parts = append(parts, cls(a))
	}
	return "(" + strings.Join(parts, ",") + ")"
}
