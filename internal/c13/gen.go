package c13

import (
	"fmt"
	"math/rand"
)

// group is a set of argument tuples applied to one (operation, receiver).
type group struct {
	op      string
	recv    val
	argsets [][]val
}

// caseSpec is one driver case: a cheap descriptor whose groups are only generated in the shard that takes it.
type caseSpec struct {
	family     string
	exhaustive bool // part of the completely enumerated index/slice sub-space
	gen        func(r *rand.Rand) []group
}

type params struct {
	thorough   bool
	rsplitHuge bool // rsplit(None, 2^31) is safe to run (the pre-sizing defect is absent)
	maxLen     int  // longest receiver of the exhaustive index/slice sub-space
	glob       func(name string) *rand.Rand
}

var (
	big64    = "18446744073709551616"  // 2^64
	bigNeg64 = "-18446744073709551616" // -2^64
)

func pick(q, t int, thorough bool) int {
	if thorough {
		return t
	}
	return q
}

// allStrings enumerates every string over alpha of length 0..maxLen, shortest first.
func allStrings(alpha string, maxLen int) []string {
	out := []string{""}
	prev := []string{""}
	for l := 1; l <= maxLen; l++ {
		var cur []string
		for _, p := range prev {
			for i := 0; i < len(alpha); i++ {
				cur = append(cur, p+string(alpha[i]))
			}
		}
		out = append(out, cur...)
		prev = cur
	}
	return out
}

// allSeqs enumerates every sequence over elems of length 0..maxLen, shortest first.
func allSeqs(elems []val, maxLen int) [][]val {
	out := [][]val{{}}
	prev := [][]val{{}}
	for l := 1; l <= maxLen; l++ {
		var cur [][]val
		for _, p := range prev {
			for _, e := range elems {
				s := append(append([]val{}, p...), e)
				cur = append(cur, s)
			}
		}
		out = append(out, cur...)
		prev = cur
	}
	return out
}

func randString(r *rand.Rand, alpha string, n int) string {
	b := make([]byte, n)
	for i := range b {
		b[i] = alpha[r.Intn(len(alpha))]
	}
	return string(b)
}

// sample returns k distinct strings of exactly length n over alpha (or all of them if fewer exist).
func sampleStrings(r *rand.Rand, alpha string, n, k int) []string {
	seen := map[string]bool{}
	var out []string
	total := 1
	for i := 0; i < n; i++ {
		total *= len(alpha)
		if total > 1<<20 {
			break
		}
	}
	for len(out) < k && len(out) < total {
		s := randString(r, alpha, n)
		if !seen[s] {
			seen[s] = true
			out = append(out, s)
		}
	}
	return out
}

// indexValues is [-n-3, n+3] ∪ {None}.
func indexValues(n int) []val {
	out := []val{vNone}
	for i := -n - 3; i <= n+3; i++ {
		out = append(out, vInt(int64(i)))
	}
	return out
}

func hugeInts() []val {
	return []val{vInt(1 << 31), vInt(-(1 << 31)), vInt(1 << 62), vInt(-(1 << 62))}
}

func chunk[T any](xs []T, size int) [][]T {
	var out [][]T
	for len(xs) > size {
		out = append(out, xs[:size])
		xs = xs[size:]
	}
	if len(xs) > 0 {
		out = append(out, xs)
	}
	return out
}

func strVals(ss ...string) []val {
	out := make([]val, len(ss))
	for i, s := range ss {
		out[i] = vStr(s)
	}
	return out
}

// seqReceivers returns, for length n, the receivers of the exhaustive index/slice sub-space: for each of the five
// sequence types one receiver with pairwise distinct elements (so that every selected position is visible in the
// result) and one drawn over a 3-letter alphabet.
func seqReceivers(p *params, n int) []val {
	r := p.glob(fmt.Sprintf("seqrecv-%d", n))
	distinct := "abcdefghijklmnop"[:n]
	rnd := randString(r, "ab ", n)
	ints := make([]val, n)
	mixed := make([]val, n)
	pool := []val{vInt(1), vStr("a"), vNone}
	for i := 0; i < n; i++ {
		ints[i] = vInt(int64(i))
		mixed[i] = pool[r.Intn(len(pool))]
	}
	return []val{
		vStr(distinct), vStr(rnd),
		vBytes(distinct), vBytes(rnd),
		vList(ints...), vList(mixed...),
		vTuple(ints...), vTuple(mixed...),
		vRange(0, int64(n), 1), vRange(10, 10-3*int64(n), -3),
	}
}

func buildSpecs(p *params) []caseSpec {
	var specs []caseSpec
	add := func(family string, gen func(r *rand.Rand) []group) {
		specs = append(specs, caseSpec{family: family, gen: gen})
	}
	T := p.thorough

	// ---------------------------------------------------------------- 1. index and slice, exhaustive triples
	for n := 0; n <= p.maxLen; n++ {
		n := n
		for _, recv := range seqReceivers(p, n) {
			recv := recv
			steps := []val{vNone}
			seen := map[int64]bool{}
			for _, s := range []int64{1, -1, 2, -2, 3, -3, int64(n + 1), -int64(n + 1), 0} {
				if !seen[s] {
					seen[s] = true
					steps = append(steps, vInt(s))
				}
			}
			for _, step := range steps {
				step := step
				specs = append(specs, caseSpec{family: "slice-exhaustive", exhaustive: true, gen: func(*rand.Rand) []group {
					iv := indexValues(n)
					g := group{op: "slice", recv: recv}
					for _, a := range iv {
						for _, b := range iv {
							g.argsets = append(g.argsets, []val{a, b, step})
						}
					}
					return []group{g}
				}})
			}
			specs = append(specs, caseSpec{family: "index-exhaustive", exhaustive: true, gen: func(*rand.Rand) []group {
				g := group{op: "index", recv: recv}
				for _, a := range indexValues(n)[1:] {
					g.argsets = append(g.argsets, []val{a})
				}
				for _, a := range append(hugeInts(), vBig(big64), vBig(bigNeg64), vNone, vStr("a"), vFloat("1.0"), vBool(true)) {
					g.argsets = append(g.argsets, []val{a})
				}
				return []group{g}
			}})
		}
	}
	// slices with huge operands
	for _, n := range []int{0, 3, p.maxLen} {
		n := n
		for _, recv := range seqReceivers(p, n) {
			recv := recv
			add("slice-huge", func(*rand.Rand) []group {
				ends := append([]val{vNone, vInt(0), vInt(-1), vInt(int64(n))}, hugeInts()...)
				steps := append([]val{vNone, vInt(1), vInt(-1), vInt(2), vInt(-2)}, hugeInts()...)
				g := group{op: "slice", recv: recv}
				for _, a := range ends {
					for _, b := range ends {
						for _, s := range steps {
							g.argsets = append(g.argsets, []val{a, b, s})
						}
					}
				}
				// operands beyond the int64 range (the spec's integers are unbounded)
				g2 := group{op: "slice", recv: recv}
				bigs := []val{vBig(big64), vBig(bigNeg64)}
				small := []val{vNone, vInt(1), vInt(-1)}
				for _, b := range bigs {
					for _, x := range small {
						for _, s := range []val{vNone, vInt(1), vInt(-1), vInt(2)} {
							g2.argsets = append(g2.argsets, []val{b, x, s}, []val{x, b, s})
						}
						g2.argsets = append(g2.argsets, []val{x, x, b})
					}
				}
				// operands of the wrong type must fail
				g3 := group{op: "slice", recv: recv}
				for _, w := range []val{vStr("1"), vFloat("1.0"), vList()} {
					g3.argsets = append(g3.argsets, []val{w, vNone, vNone}, []val{vNone, w, vNone}, []val{vNone, vNone, w})
				}
				return []group{g, g2, g3}
			})
		}
	}

	// ---------------------------------------------------------------- 2. searches with sub-ranges
	{
		alpha := "ab "
		exh := pick(1, 4, T)
		maxL := pick(4, 8, T)
		perLen := pick(2, 40, T)
		recvs := allStrings(alpha, exh)
		r := p.glob("subrange")
		for n := exh + 1; n <= maxL; n++ {
			recvs = append(recvs, sampleStrings(r, alpha, n, perLen)...)
		}
		needles := strVals("", "a", "b", "ab", "aa", "ba", " a", "aba")
		affixes := append(append([]val{}, needles...),
			vTuple(), vTuple(vStr("a"), vStr("b")), vTuple(vStr("")), vTuple(vStr("ab"), vStr("b ")), vTuple(vStr("b"), vInt(1)), vTuple(vInt(1), vStr("a")), vInt(1), vNone, vList(vStr("a")))
		for _, s := range recvs {
			s := s
			for _, m := range []string{"find", "rfind", "index", "rindex", "count", "startswith", "endswith"} {
				m := m
				add("subrange-search", func(*rand.Rand) []group {
					iv := indexValues(len(s))
					g := group{op: "m:" + m, recv: vStr(s)}
					xs := needles
					if m == "startswith" || m == "endswith" {
						xs = affixes
					} else {
						xs = append(append([]val{}, needles...), vInt(1), vNone)
					}
					for _, x := range xs {
						g.argsets = append(g.argsets, []val{x})
						for _, a := range iv {
							g.argsets = append(g.argsets, []val{x, a})
							for _, b := range iv {
								g.argsets = append(g.argsets, []val{x, a, b})
							}
						}
						for _, h := range append(hugeInts(), vBig(big64), vBig(bigNeg64)) {
							g.argsets = append(g.argsets, []val{x, h}, []val{x, vNone, h}, []val{x, h, h}, []val{x, vInt(1), h})
						}
						g.argsets = append(g.argsets, []val{x, vStr("0")}, []val{x, vInt(0), vFloat("1.0")})
					}
					g.argsets = append(g.argsets, []val{}, []val{vStr("a"), vInt(0), vInt(1), vInt(2)})
					return []group{g}
				})
			}
		}
		// list.index(x, start, end)
		elems := []val{vInt(1), vInt(2), vStr("a")}
		lexh := pick(2, 4, T)
		lists := allSeqs(elems, lexh)
		for n := lexh + 1; n <= pick(4, 7, T); n++ {
			for k := 0; k < pick(3, 30, T); k++ {
				l := make([]val, n)
				for i := range l {
					l[i] = elems[r.Intn(3)]
				}
				lists = append(lists, l)
			}
		}
		for _, ch := range chunk(lists, 4) {
			ch := ch
			add("subrange-list-index", func(*rand.Rand) []group {
				var gs []group
				for _, l := range ch {
					iv := indexValues(len(l))
					g := group{op: "l:index", recv: vList(l...)}
					for _, x := range []val{vInt(1), vInt(2), vStr("a"), vInt(3)} {
						g.argsets = append(g.argsets, []val{x})
						for _, a := range iv {
							g.argsets = append(g.argsets, []val{x, a})
							for _, b := range iv {
								g.argsets = append(g.argsets, []val{x, a, b})
							}
						}
						for _, h := range hugeInts() {
							g.argsets = append(g.argsets, []val{x, h}, []val{x, vNone, h}, []val{x, h, h})
						}
						g.argsets = append(g.argsets, []val{x, vStr("0")})
					}
					g.argsets = append(g.argsets, []val{})
					gs = append(gs, g)
				}
				return gs
			})
		}
	}

	// ---------------------------------------------------------------- 3. split / rsplit
	{
		maxL := pick(3, 7, T)
		for _, alpha := range []string{"a, ", "a\n ", "a\t ", "ab,"} {
			for _, ch := range chunk(allStrings(alpha, maxL), 16) {
				ch := ch
				add("split", func(*rand.Rand) []group {
					var gs []group
					for _, s := range ch {
						n := int64(len(s))
						for _, m := range []string{"split", "rsplit"} {
							g := group{op: "m:" + m, recv: vStr(s)}
							g.argsets = append(g.argsets, []val{})
							for _, sep := range []val{vNone, vStr(","), vStr(" "), vStr("a"), vStr(", "), vStr(",,"), vStr(""), vStr("a,"), vStr("\n")} {
								g.argsets = append(g.argsets, []val{sep})
								maxs := []val{vInt(-1), vInt(-2), vInt(0), vInt(1), vInt(2), vInt(3), vInt(n), vInt(n + 1), vInt(1 << 16), vInt(-(1 << 62))}
								if m == "rsplit" && sep.k == 'N' {
									// rsplit(None, k) pre-sizes its result from k: 2^31 reserves 32 GiB (§7 defect 2); it is run
									// only when the probe at start-up shows the pre-sizing is gone. 2^62 panics (recoverably).
									if p.rsplitHuge {
										maxs = append(maxs, vInt(1<<31))
									}
									maxs = append(maxs, vInt(1<<62))
								} else {
									maxs = append(maxs, vInt(1<<31), vInt(1<<62))
								}
								for _, mx := range maxs {
									g.argsets = append(g.argsets, []val{sep, mx})
								}
							}
							g.argsets = append(g.argsets, []val{vInt(1)}, []val{vStr(","), vStr("1")}, []val{vStr(","), vInt(1), vInt(1)})
							gs = append(gs, g)
						}
					}
					return gs
				})
			}
		}
	}

	// ---------------------------------------------------------------- 4. splitlines, partition, strip, replace, removeprefix
	{
		maxL := pick(5, 8, T)
		for _, alpha := range []string{"a\n ", "a\n\r", "\n\n "} {
			for _, ch := range chunk(allStrings(alpha, maxL), 256) {
				ch := ch
				add("splitlines", func(*rand.Rand) []group {
					var gs []group
					for _, s := range ch {
						gs = append(gs, group{op: "m:splitlines", recv: vStr(s), argsets: [][]val{{}, {vBool(true)}, {vBool(false)}}})
					}
					return gs
				})
			}
		}
		maxL = pick(4, 7, T)
		for _, alpha := range []string{"a, ", "ab "} {
			for _, ch := range chunk(allStrings(alpha, maxL), 64) {
				ch := ch
				add("partition", func(*rand.Rand) []group {
					var gs []group
					for _, s := range ch {
						for _, m := range []string{"partition", "rpartition"} {
							g := group{op: "m:" + m, recv: vStr(s)}
							for _, sep := range []val{vStr(","), vStr(" "), vStr("a"), vStr(", "), vStr(""), vStr(",,"), vStr("a,"), vStr("ab"), vStr(s), vStr(s + "a"), vNone, vInt(1)} {
								g.argsets = append(g.argsets, []val{sep})
							}
							g.argsets = append(g.argsets, []val{}, []val{vStr(","), vStr(",")})
							gs = append(gs, g)
						}
					}
					return gs
				})
			}
		}
		for _, alpha := range []string{"ab ", "a\n ", "ab\t"} {
			for _, ch := range chunk(allStrings(alpha, maxL), 32) {
				ch := ch
				add("strip", func(*rand.Rand) []group {
					var gs []group
					for _, s := range ch {
						for _, m := range []string{"strip", "lstrip", "rstrip"} {
							g := group{op: "m:" + m, recv: vStr(s)}
							g.argsets = append(g.argsets, []val{})
							for _, cs := range []string{"", " ", "a", "ab", "a ", "b a", "x", " \n", "\t", "ba", "aa"} {
								g.argsets = append(g.argsets, []val{vStr(cs)})
							}
							g.argsets = append(g.argsets, []val{vInt(1)}, []val{vStr("a"), vStr("b")})
							gs = append(gs, g)
						}
					}
					return gs
				})
			}
		}
		for _, alpha := range []string{"ab "} {
			for _, ch := range chunk(allStrings(alpha, maxL), 16) {
				ch := ch
				add("replace", func(*rand.Rand) []group {
					var gs []group
					pairs := [][2]string{{"a", "b"}, {"a", ""}, {"ab", "x"}, {"", "-"}, {"aa", "a"}, {" ", "  "}, {"a", "aa"}, {"b", "b"}, {"", ""}, {"ba", "ab"}}
					for _, s := range ch {
						g := group{op: "m:replace", recv: vStr(s)}
						for _, pr := range pairs {
							g.argsets = append(g.argsets, []val{vStr(pr[0]), vStr(pr[1])})
							for _, cnt := range []val{vInt(-1), vInt(0), vInt(1), vInt(2), vInt(3), vInt(int64(len(s))), vInt(int64(len(s)) + 1), vInt(1 << 31), vInt(1 << 62), vInt(-(1 << 31))} {
								g.argsets = append(g.argsets, []val{vStr(pr[0]), vStr(pr[1]), cnt})
							}
						}
						g.argsets = append(g.argsets, []val{vStr("a")}, []val{vStr("a"), vInt(1)}, []val{vStr("a"), vStr("b"), vStr("1")}, []val{vStr("a"), vStr("b"), vNone})
						gs = append(gs, g)
					}
					return gs
				})
			}
		}
		fixes := allStrings("ab ", 2)
		for _, ch := range chunk(allStrings("ab ", maxL), 32) {
			ch := ch
			add("removeprefix", func(*rand.Rand) []group {
				var gs []group
				for _, s := range ch {
					for _, m := range []string{"removeprefix", "removesuffix"} {
						g := group{op: "m:" + m, recv: vStr(s)}
						for _, f := range fixes {
							g.argsets = append(g.argsets, []val{vStr(f)})
						}
						g.argsets = append(g.argsets, []val{vStr(s)}, []val{vStr(s + "a")}, []val{vStr("a" + s)}, []val{vStr(s + s)}, []val{}, []val{vNone}, []val{vInt(1)})
						if len(s) > 2 {
							g.argsets = append(g.argsets, []val{vStr(s[:len(s)-1])}, []val{vStr(s[1:])}, []val{vStr(s[:3])}, []val{vStr(s[len(s)-3:])})
						}
						gs = append(gs, g)
					}
				}
				return gs
			})
		}
	}

	// ---------------------------------------------------------------- 5. case mapping, predicates, elems
	{
		maxL := pick(5, 8, T)
		nullary := []string{"upper", "lower", "title", "capitalize", "isalnum", "isalpha", "isdigit", "islower", "isupper", "isspace", "istitle"}
		for _, alpha := range []string{"aB ", "a1 ", "Ab-", "aB'", "A1_", "\t \n"} {
			for _, ch := range chunk(allStrings(alpha, maxL), 128) {
				ch := ch
				add("case-and-predicates", func(*rand.Rand) []group {
					var gs []group
					for _, s := range ch {
						for _, m := range nullary {
							gs = append(gs, group{op: "m:" + m, recv: vStr(s), argsets: [][]val{{}}})
						}
					}
					// arity probe
					for _, m := range nullary {
						gs = append(gs, group{op: "m:" + m, recv: vStr(ch[0]), argsets: [][]val{{vInt(1)}}})
					}
					return gs
				})
			}
		}
		for _, ch := range chunk(allStrings("ab ", pick(4, 6, T)), 128) {
			ch := ch
			add("elems", func(*rand.Rand) []group {
				var gs []group
				for _, s := range ch {
					for _, m := range []string{"elems", "elem_ords", "codepoints", "codepoint_ords"} {
						gs = append(gs, group{op: "m:" + m, recv: vStr(s), argsets: [][]val{{}}})
					}
					gs = append(gs, group{op: "m:elems", recv: vBytes(s), argsets: [][]val{{}}})
				}
				return gs
			})
		}
	}

	// ---------------------------------------------------------------- 6. join
	{
		parts := []val{vStr(""), vStr("a"), vStr("bc")}
		seqs := allSeqs(parts, pick(3, 5, T))
		for _, ch := range chunk(seqs, 64) {
			ch := ch
			add("join", func(*rand.Rand) []group {
				var gs []group
				for _, sep := range []string{"", ",", "ab", " "} {
					g := group{op: "m:join", recv: vStr(sep)}
					for _, s := range ch {
						g.argsets = append(g.argsets, []val{vList(s...)}, []val{vTuple(s...)})
					}
					g.argsets = append(g.argsets,
						[]val{vList(vStr("a"), vInt(1))}, []val{vList(vInt(1))}, []val{vStr("bc")}, []val{vBytes("bc")}, []val{vRange(0, 2, 1)},
						[]val{vRange(0, 0, 1)}, []val{vNone}, []val{vInt(1)}, []val{}, []val{vList(), vList()}, []val{vList(vStr("a"), vNone)},
						[]val{vList(vBytes("a"))}, []val{vDict(vStr("k"), vInt(1), vStr("l"), vInt(2))})
					gs = append(gs, g)
				}
				return gs
			})
		}
	}

	// ---------------------------------------------------------------- 7. format and %
	{
		posSets := [][]val{{}, {vStr("x")}, {vStr("x"), vInt(1)}, {vList(vStr("q"), vInt(2)), vNone, vBool(true)}, {vStr("a\"b\n")}, {vTuple(vStr("t")), vTuple()}}
		kwSets := []val{vDict(), vDict(vStr("a"), vStr("y")), vDict(vStr("a"), vInt(7), vStr("b"), vList(vStr("z")))}
		fmtArgs := func() [][]val {
			var out [][]val
			for _, ps := range posSets {
				for _, kw := range kwSets {
					out = append(out, []val{vTuple(ps...), kw})
				}
			}
			return out
		}
		maxL := pick(5, 7, T)
		for _, alpha := range []string{"{}0", "{}a", "{}!", "{}:", "{1r", "{!s"} {
			for _, ch := range chunk(allStrings(alpha, maxL), 64) {
				ch := ch
				add("format-exhaustive-templates", func(*rand.Rand) []group {
					var gs []group
					for _, s := range ch {
						gs = append(gs, group{op: "m:format", recv: vStr(s), argsets: fmtArgs()})
					}
					return gs
				})
			}
		}
		toks := []string{"{", "}", "{{", "}}", "{}", "{0}", "{1}", "{2}", "{a}", "{b}", "{c}", "{!r}", "{!s}", "{0!r}", "{a!r}", "{a!s}", "{:}", "{0:}", "{0:>3}", "{:d}",
			"{a.b}", "{a[0]}", "{0.x}", "{0[0]}", "x", " ", "{!x}", "{!a}", "{ }", "{00}", "{01}", "{-1}", "{1 }", "{!}", "{!rs}", "{a!r:}", "{a!r:5}", "{{}", "{}}", "{a{b}c}", "{:{}}", "{0}{}", "{}{0}", "{+1}", "{1e0}"}
		var tmpl []string
		for _, a := range toks {
			tmpl = append(tmpl, a)
			for _, b := range toks {
				tmpl = append(tmpl, a+b)
				if T {
					for _, c := range []string{"{}", "{0}", "{a}", "}", "{{", "x", "{1}"} {
						tmpl = append(tmpl, a+b+c)
					}
				}
			}
		}
		for _, ch := range chunk(tmpl, 64) {
			ch := ch
			add("format-token-templates", func(*rand.Rand) []group {
				var gs []group
				for _, s := range ch {
					gs = append(gs, group{op: "m:format", recv: vStr(s), argsets: fmtArgs()})
				}
				return gs
			})
		}

		// % interpolation.  Keyed and positional conversions are never mixed in one template (spec is silent).
		posOperands := []val{
			vTuple(), vTuple(vStr("a")), vTuple(vInt(1)), vTuple(vInt(1), vStr("b")), vTuple(vStr("a"), vInt(2), vNone), vTuple(vInt(-7)), vTuple(vInt(65)),
			vTuple(vInt(65), vInt(97)), vTuple(vStr("ab")), vTuple(vTuple(vInt(1), vInt(2))), vTuple(vBool(true)), vTuple(vNone), vTuple(vList(vStr("s"), vInt(1))),
			vTuple(vInt(1<<62), vInt(-(1 << 31))), vTuple(vBig(big64)), vTuple(vInt(-1)), vTuple(vInt(127)),
			vStr("a"), vStr("ab"), vStr(""), vInt(1), vInt(-255), vInt(65), vNone, vBool(true), vBool(false), vList(vInt(1)), vList(), vDict(), vDict(vStr("a"), vInt(1)),
		}
		posToks := []string{"%s", "%d", "%r", "%%", "%x", "%o", "%X", "%c", "%i", "%", "x", " ", "%5d", "%-s", "%.2f", "%z", "%(", "% d", "%05d", "%ld", "%S", "%*d", "%#x", "%+d"}
		var ptm []string
		ptm = append(ptm, "")
		for _, a := range posToks {
			ptm = append(ptm, a)
			for _, b := range posToks {
				ptm = append(ptm, a+b)
				if T {
					for _, c := range []string{"%s", "%d", "%%", "x", "%"} {
						ptm = append(ptm, a+b+c)
					}
				}
			}
		}
		for _, ch := range chunk(ptm, 32) {
			ch := ch
			add("interp-positional", func(*rand.Rand) []group {
				var gs []group
				for _, s := range ch {
					g := group{op: "interp", recv: vStr(s)}
					for _, x := range posOperands {
						g.argsets = append(g.argsets, []val{x})
					}
					gs = append(gs, g)
				}
				return gs
			})
		}
		floatOperands := []val{vFloat("3.5"), vFloat("-2.0"), vFloat("0.0"), vFloat("3.7"), vFloat("-3.7"), vTuple(vFloat("3.5")), vTuple(vFloat("1.5"), vInt(2)), vTuple(vInt(3), vFloat("0.25")), vInt(7), vTuple(vStr("a")), vStr("a"), vBool(true), vNone}
		// %g/%G are left out: the spec leaves them unspecified ("TODO: specify %e and %f more precisely") and Starlark's
		// %g deliberately keeps the ".0" of str(float); float formatting belongs to C10.
		floatToks := []string{"%d", "%i", "%e", "%f", "%E", "%F", "%s", "%r", "%%", "x"}
		var ftm []string
		for _, a := range floatToks {
			ftm = append(ftm, a)
			for _, b := range floatToks {
				ftm = append(ftm, a+b)
			}
		}
		for _, ch := range chunk(ftm, 32) {
			ch := ch
			add("interp-float", func(*rand.Rand) []group {
				var gs []group
				for _, s := range ch {
					g := group{op: "interp", recv: vStr(s)}
					for _, x := range floatOperands {
						g.argsets = append(g.argsets, []val{x})
					}
					gs = append(gs, g)
				}
				return gs
			})
		}
		keyOperands := []val{vDict(), vDict(vStr("a"), vInt(1)), vDict(vStr("a"), vStr("s"), vStr("b"), vInt(-3)), vDict(vStr(""), vInt(5)), vDict(vStr("a"), vNone, vStr("b"), vList(vStr("q"))),
			vTuple(), vTuple(vInt(1)), vStr("a"), vInt(1), vNone, vList()}
		keyToks := []string{"%(a)s", "%(b)d", "%(a)r", "%(b)x", "%()d", "%(c)s", "%(a", "%(a)", "%(a)5d", "%%", "x", "%(a)%", "%(a)z", "%(a)c", "%( a)s"}
		var ktm []string
		for _, a := range keyToks {
			ktm = append(ktm, a)
			for _, b := range keyToks {
				ktm = append(ktm, a+b)
			}
		}
		for _, ch := range chunk(ktm, 32) {
			ch := ch
			add("interp-keyed", func(*rand.Rand) []group {
				var gs []group
				for _, s := range ch {
					g := group{op: "interp", recv: vStr(s)}
					for _, x := range keyOperands {
						g.argsets = append(g.argsets, []val{x})
					}
					gs = append(gs, g)
				}
				return gs
			})
		}
		for _, alpha := range []string{"%sd", "%%s", "%(a", "%)s"} {
			for _, ch := range chunk(allStrings(alpha, pick(4, 6, T)), 64) {
				ch := ch
				alpha := alpha
				add("interp-exhaustive-templates", func(*rand.Rand) []group {
					var gs []group
					ops := []val{vTuple(), vTuple(vStr("p")), vTuple(vInt(1), vInt(2)), vTuple(vInt(1), vInt(2), vInt(3)), vInt(4), vStr("q")}
					if alpha == "%(a" || alpha == "%)s" {
						// templates over these alphabets cannot contain a complete keyed conversion followed by a positional one
						// unless both occur; keep to mapping-free operands plus one mapping for templates without positional use.
						ops = []val{vTuple(), vTuple(vStr("p")), vInt(4), vStr("q")}
					}
					for _, s := range ch {
						g := group{op: "interp", recv: vStr(s)}
						for _, x := range ops {
							g.argsets = append(g.argsets, []val{x})
						}
						gs = append(gs, g)
					}
					return gs
				})
			}
		}
	}

	// ---------------------------------------------------------------- 8. list methods
	{
		elems := []val{vInt(1), vInt(2), vStr("a")}
		lists := allSeqs(elems, pick(3, 6, T))
		for _, ch := range chunk(lists, 16) {
			ch := ch
			add("list-methods", func(*rand.Rand) []group {
				var gs []group
				for _, l := range ch {
					recv := vList(l...)
					n := len(l)
					var idx []val
					for i := -n - 3; i <= n+3; i++ {
						idx = append(idx, vInt(int64(i)))
					}
					idx = append(idx, hugeInts()...)
					gi := group{op: "l:insert", recv: recv}
					gp := group{op: "l:pop", recv: recv, argsets: [][]val{{}}}
					for _, i := range idx {
						gi.argsets = append(gi.argsets, []val{i, vInt(9)})
						gp.argsets = append(gp.argsets, []val{i})
					}
					gi.argsets = append(gi.argsets, []val{vNone, vInt(9)}, []val{vStr("0"), vInt(9)}, []val{vInt(0)}, []val{}, []val{vFloat("1.0"), vInt(9)}, []val{vInt(0), recv})
					gp.argsets = append(gp.argsets, []val{vNone}, []val{vStr("0")}, []val{vInt(0), vInt(0)})
					gr := group{op: "l:remove", recv: recv, argsets: [][]val{{vInt(1)}, {vInt(2)}, {vStr("a")}, {vInt(3)}, {vNone}, {}, {vInt(1), vInt(2)}}}
					ge := group{op: "l:extend", recv: recv, argsets: [][]val{{vList()}, {vList(vInt(7))}, {vTuple(vInt(7), vStr("b"))}, {vRange(0, 3, 1)}, {recv}, {vStr("ab")}, {vBytes("ab")}, {vNone}, {vInt(5)}, {}, {vList(), vList()}, {vDict(vStr("k"), vInt(1))}}}
					ga := group{op: "l:append", recv: recv, argsets: [][]val{{vInt(9)}, {vList(vInt(1))}, {vNone}, {vStr("ab")}, {}, {vInt(1), vInt(2)}}}
					gc := group{op: "l:clear", recv: recv, argsets: [][]val{{}, {vInt(1)}}}
					gset := group{op: "setitem", recv: recv}
					for _, i := range idx {
						gset.argsets = append(gset.argsets, []val{i, vInt(9)})
					}
					gset.argsets = append(gset.argsets, []val{vNone, vInt(9)}, []val{vStr("0"), vInt(9)}, []val{vFloat("0.0"), vInt(9)}, []val{vBig(big64), vInt(9)})
					gs = append(gs, gi, gp, gr, ge, ga, gc, gset)
					if n <= 2 {
						// item assignment to immutable sequences must fail
						for _, im := range []val{vTuple(l...), vStr("ab"[:n]), vBytes("ab"[:n]), vRange(0, int64(n), 1)} {
							gs = append(gs, group{op: "setitem", recv: im, argsets: [][]val{{vInt(0), vInt(9)}, {vInt(-1), vStr("a")}, {vInt(5), vInt(9)}}})
						}
					}
				}
				return gs
			})
		}
	}

	// ---------------------------------------------------------------- 9. built-ins over iterables
	{
		mk := func(kind byte, e []val) val { return val{k: kind, elems: e} }
		// reversed / enumerate
		seqs := allSeqs([]val{vInt(1), vInt(2), vStr("a")}, pick(3, 6, T))
		for _, ch := range chunk(seqs, 64) {
			ch := ch
			add("reversed-enumerate", func(*rand.Rand) []group {
				var gs []group
				for _, s := range ch {
					for _, kind := range []byte{'L', 'U'} {
						it := mk(kind, s)
						gs = append(gs, group{op: "f:reversed", recv: vNone, argsets: [][]val{{it}}})
						gs = append(gs, group{op: "f:enumerate", recv: vNone, argsets: [][]val{{it}, {it, vInt(0)}, {it, vInt(1)}, {it, vInt(-2)}, {it, vInt(1 << 31)}, {it, vStr("1")}, {it, vFloat("1.0")}}})
					}
				}
				return gs
			})
		}
		add("reversed-enumerate-misc", func(*rand.Rand) []group {
			var args [][]val
			for n := int64(0); n <= 6; n++ {
				args = append(args, []val{vRange(0, n, 1)}, []val{vRange(5, 5-2*n, -2)}, []val{vRange(n, 0, 1)})
			}
			args = append(args, []val{vStr("abc")}, []val{vBytes("abc")}, []val{vNone}, []val{vInt(3)}, []val{}, []val{vList(), vList(), vList()}, []val{vDict(vStr("k"), vInt(1), vStr("j"), vInt(2))})
			return []group{{op: "f:reversed", recv: vNone, argsets: args}, {op: "f:enumerate", recv: vNone, argsets: args}}
		})
		// any / all
		for _, pool := range [][]val{{vInt(0), vInt(1), vStr("")}, {vNone, vStr("a"), vList()}, {vBool(false), vBool(true), vTuple()}, {vList(vInt(0)), vInt(0), vTuple(vNone)}} {
			pool := pool
			for _, ch := range chunk(allSeqs(pool, pick(4, 6, T)), 128) {
				ch := ch
				add("any-all", func(*rand.Rand) []group {
					ga := group{op: "f:any", recv: vNone}
					gl := group{op: "f:all", recv: vNone}
					for _, s := range ch {
						ga.argsets = append(ga.argsets, []val{vList(s...)}, []val{vTuple(s...)})
						gl.argsets = append(gl.argsets, []val{vList(s...)}, []val{vTuple(s...)})
					}
					for _, g := range []*group{&ga, &gl} {
						g.argsets = append(g.argsets, []val{vRange(0, 3, 1)}, []val{vRange(1, 3, 1)}, []val{vRange(0, 0, 1)}, []val{vStr("ab")}, []val{vStr("")}, []val{vNone}, []val{vInt(1)}, []val{}, []val{vList(), vList()})
					}
					return []group{ga, gl}
				})
			}
		}
		// sorted / min / max
		type pool struct {
			elems []val
			keys  []val
		}
		pools := []pool{
			{[]val{vInt(1), vInt(2), vInt(3)}, []val{vNone, vFunc("neg"), vFunc("zero")}},
			{[]val{vInt(-1), vInt(0), vInt(1 << 40)}, []val{vNone, vFunc("neg")}},
			{[]val{vStr("a"), vStr("b"), vStr("ab")}, []val{vNone, vFunc("len"), vFunc("last"), vFunc("zero")}},
			{[]val{vStr(""), vStr("B"), vStr("a")}, []val{vNone, vFunc("len")}},
			{[]val{vTuple(vInt(1), vStr("x")), vTuple(vInt(1), vStr("y")), vTuple(vInt(0), vStr("z"))}, []val{vNone, vFunc("len"), vFunc("last"), vFunc("zero")}},
			{[]val{vInt(1), vStr("a"), vInt(2)}, []val{vNone, vFunc("zero")}},
			{[]val{vList(vInt(1)), vList(vInt(1), vInt(0)), vList()}, []val{vNone, vFunc("len")}},
			{[]val{vNone, vInt(1), vNone}, []val{vNone, vFunc("zero")}},
		}
		for _, pl := range pools {
			pl := pl
			for _, ch := range chunk(allSeqs(pl.elems, pick(4, 6, T)), 32) {
				ch := ch
				add("sorted-min-max", func(*rand.Rand) []group {
					gs := group{op: "f:sorted", recv: vNone}
					gmin := group{op: "f:min", recv: vNone}
					gmax := group{op: "f:max", recv: vNone}
					for _, s := range ch {
						for _, it := range []val{vList(s...), vTuple(s...)} {
							for _, key := range pl.keys {
								for _, rev := range []val{vNone, vBool(true), vBool(false)} {
									gs.argsets = append(gs.argsets, []val{it, key, rev})
								}
								gmin.argsets = append(gmin.argsets, []val{vTuple(it), key})
								gmax.argsets = append(gmax.argsets, []val{vTuple(it), key})
							}
						}
						for _, key := range pl.keys {
							// the multiple-positional-argument form
							gmin.argsets = append(gmin.argsets, []val{vTuple(s...), key})
							gmax.argsets = append(gmax.argsets, []val{vTuple(s...), key})
						}
					}
					return []group{gs, gmin, gmax}
				})
			}
		}
		add("sorted-min-max-misc", func(*rand.Rand) []group {
			var a [][]val
			for n := int64(0); n <= 5; n++ {
				a = append(a, []val{vRange(0, n, 1), vNone, vNone}, []val{vRange(5, 5-n, -1), vNone, vBool(true)}, []val{vRange(0, n, 1), vFunc("neg"), vNone})
			}
			a = append(a, []val{vStr("cba"), vNone, vNone}, []val{vNone, vNone, vNone}, []val{vInt(1), vNone, vNone}, []val{vBytes("ba"), vNone, vNone}, []val{vDict(vStr("b"), vInt(1), vStr("a"), vInt(2)), vNone, vNone})
			var m [][]val
			for n := int64(0); n <= 5; n++ {
				m = append(m, []val{vTuple(vRange(0, n, 1)), vNone}, []val{vTuple(vRange(7, 7-n, -1)), vFunc("neg")})
			}
			m = append(m, []val{vTuple(), vNone}, []val{vTuple(vInt(5)), vNone}, []val{vTuple(vStr("abc")), vNone}, []val{vTuple(vNone), vNone}, []val{vTuple(vInt(1), vStr("a")), vNone},
				[]val{vTuple(vInt(2), vInt(1)), vFunc("neg")}, []val{vTuple(vList(), vList(vInt(1))), vFunc("len")}, []val{vTuple(vDict(vStr("b"), vInt(1), vStr("a"), vInt(2))), vNone})
			return []group{{op: "f:sorted", recv: vNone, argsets: a}, {op: "f:min", recv: vNone, argsets: m}, {op: "f:max", recv: vNone, argsets: m}}
		})
		// zip
		add("zip", func(*rand.Rand) []group {
			var seqs []val
			for n := 0; n <= 3; n++ {
				l := make([]val, n)
				t := make([]val, n)
				for i := 0; i < n; i++ {
					l[i] = vInt(int64(i))
					t[i] = vStr(string(rune('a' + i)))
				}
				seqs = append(seqs, vList(l...), vTuple(t...), vRange(10, 10+int64(n), 1))
			}
			g := group{op: "f:zip", recv: vNone, argsets: [][]val{{}}}
			for _, a := range seqs {
				g.argsets = append(g.argsets, []val{a})
				for _, b := range seqs {
					g.argsets = append(g.argsets, []val{a, b})
					for _, c := range seqs {
						g.argsets = append(g.argsets, []val{a, b, c})
					}
				}
			}
			g.argsets = append(g.argsets, []val{vStr("ab")}, []val{vList(vInt(1)), vStr("ab")}, []val{vNone}, []val{vList(vInt(1)), vInt(1)}, []val{vBytes("ab"), vList()})
			return []group{g}
		})
	}

	// ---------------------------------------------------------------- 10. concatenation and repetition
	{
		add("concat-repeat", func(*rand.Rand) []group {
			pool := []val{vStr(""), vStr("a"), vStr("ab "), vBytes(""), vBytes("a"), vBytes("ab "), vList(), vList(vInt(1)), vList(vInt(1), vStr("a"), vNone),
				vTuple(), vTuple(vInt(1)), vTuple(vInt(1), vStr("a"), vNone), vRange(0, 0, 1), vRange(0, 3, 1), vInt(2), vNone}
			var gs []group
			for _, x := range pool {
				g := group{op: "add", recv: x}
				for _, y := range pool {
					if x.k == 'I' && y.k == 'I' {
						continue // integer arithmetic belongs to C10
					}
					g.argsets = append(g.argsets, []val{y})
				}
				gs = append(gs, g)
				if x.k == 'I' || x.k == 'N' {
					continue
				}
				m := group{op: "mul", recv: x}
				for k := int64(-2); k <= 4; k++ {
					m.argsets = append(m.argsets, []val{vInt(k)})
				}
				m.argsets = append(m.argsets, []val{vNone}, []val{vStr("2")}, []val{vFloat("2.0")}, []val{x}, []val{vInt(-(1 << 62))}, []val{vInt(-(1 << 31))})
				if x.seqLen() == 0 && x.k != 'R' {
					m.argsets = append(m.argsets, []val{vInt(1 << 31)}, []val{vInt(1 << 62)})
				}
				gs = append(gs, m)
				// count * sequence
				for k := int64(-2); k <= 4; k++ {
					gs = append(gs, group{op: "mul", recv: vInt(k), argsets: [][]val{{x}}})
				}
			}
			return gs
		})
		// longer receivers: every pair of strings/lists up to length 3 over a 2-letter alphabet, all counts
		strs := allStrings("a ", 3)
		add("concat-repeat-pairs", func(*rand.Rand) []group {
			var gs []group
			for _, x := range strs {
				for _, mkv := range []func(string) val{vStr, vBytes, func(s string) val { return vList(strVals(splitBytes(s)...)...) }, func(s string) val { return vTuple(strVals(splitBytes(s)...)...) }} {
					g := group{op: "add", recv: mkv(x)}
					for _, y := range strs {
						g.argsets = append(g.argsets, []val{mkv(y)})
					}
					m := group{op: "mul", recv: mkv(x)}
					for k := int64(-1); k <= 3; k++ {
						m.argsets = append(m.argsets, []val{vInt(k)})
					}
					gs = append(gs, g, m)
				}
			}
			return gs
		})
	}

	// ---------------------------------------------------------------- 10b. aliasing: results defined as NEW lists share nothing
	// A single expression cannot see that a * 1 returns a list backed by a's own array (a * 1 == a).  Each case here is
	// a program, run as source text in Starlark and in Python: r = op(a); mutate r; mutate every operand; observe all.
	{
		type aop struct{ label, star, py string }
		ops := []aop{
			{"list * int", "a * 1", ""}, {"list * int", "a * 2", ""}, {"list * int", "1 * a", ""}, {"list * int", "2 * a", ""}, {"list * int", "a * 0", ""},
			{"list * int", "a * 1 * 1", ""}, {"list * int", "(a * 1)[:]", ""},
			{"list + list", "a + []", ""}, {"list + list", "[] + a", ""}, {"list + list", "a + a", ""}, {"list + list", "a + b", ""}, {"list + list", "b + a", ""}, {"list + list", "[] + a + []", ""},
			{"list slice", "a[:]", ""}, {"list slice", "a[0:len(a)]", ""}, {"list slice", "a[::1]", ""}, {"list slice", "a[0:]", ""}, {"list slice", "a[:len(a)]", ""},
			{"list slice", "a[None:None:None]", ""}, {"list slice", "a[-len(a):]", ""}, {"list slice", "a[::-1]", ""}, {"list slice", "a[1:]", ""}, {"list slice", "a[::2]", ""}, {"list slice", "a[:99]", ""}, {"list slice", "a[:-1]", ""},
			{"list()", "list(a)", ""}, {"list()", "list(t)", ""}, {"list()", "list(list(a))", ""},
			{"sorted", "sorted(a)", ""}, {"sorted", "sorted(a, reverse=True)", ""}, {"sorted", "sorted(t)", ""}, {"sorted", "sorted(a, key=lambda x: 0)", ""},
			{"reversed", "reversed(a)", "list(reversed(a))"}, {"reversed", "reversed(t)", "list(reversed(t))"},
			{"comprehension", "[x for x in a]", ""}, {"comprehension", "[x for x in a if True]", ""}, {"comprehension", "[x for x in t]", ""},
			{"enumerate/zip", "enumerate(a)", "list(enumerate(a))"}, {"enumerate/zip", "zip(a)", "list(zip(a))"}, {"enumerate/zip", "zip(a, a)", "list(zip(a, a))"},
			{"dict views", "d.keys()", "list(d.keys())"}, {"dict views", "d.values()", "list(d.values())"}, {"dict views", "d.items()", "list(d.items())"},
			{"dict views", "list(d)", ""}, {"dict views", "sorted(d)", ""},
		}
		recvs := []val{vList(), vList(vStr("a")), vList(vStr("a"), vStr("b")), vList(vStr("c"), vStr("a"), vStr("b")), vList(vInt(3), vInt(1), vInt(2)), vList(vStr("b"), vStr("a"), vStr("c"), vStr("a"))}
		if T {
			for _, e := range allSeqs([]val{vStr("a"), vStr("b")}, 4) {
				recvs = append(recvs, vList(e...))
			}
			long := make([]val, 20)
			for i := range long {
				long[i] = vInt(int64((i * 7) % 20))
			}
			recvs = append(recvs, vList(long[:8]...), vList(long...))
		}
		prog := func(a val, grow bool, o aop, python bool) string {
			expr, items := o.star, "d.items()"
			if python {
				items = "list(d.items())"
				if o.py != "" {
					expr = o.py
				}
			}
			g := ""
			if grow {
				// a list that was appended to has spare capacity: appends to a sharing result land in the same slot
				g = "    a.append(\"q\")\n    a.pop()\n"
			}
			return "def f():\n    a = " + a.srcString() + "\n" + g +
				"    t = tuple(a)\n    d = {x: x for x in a}\n    b = [\"p\"]\n" +
				"    r = " + expr + "\n" +
				"    if len(r) > 0:\n        r[0] = \"X\"\n    r.append(\"Y\")\n" +
				"    a.append(\"Z\")\n    if len(a) > 1:\n        a[1] = \"W\"\n    b.append(\"Q\")\n    d[\"Z\"] = \"Z\"\n" +
				"    return (a, r, t, b, " + items + ")\nres = f()\n"
		}
		for _, ch := range chunk(recvs, 4) {
			ch := ch
			add("aliasing-programs", func(*rand.Rand) []group {
				g := group{op: "prog", recv: vNone}
				for _, a := range ch {
					for _, grow := range []bool{false, true} {
						for _, o := range ops {
							g.argsets = append(g.argsets, []val{vStr(prog(a, grow, o, false)), vStr(prog(a, grow, o, true)), vStr(o.label)})
						}
					}
				}
				return []group{g}
			})
		}
	}

	// ---------------------------------------------------------------- 10c. sorted/min/max over long lists with many ties
	// Go's sort falls back to (stable) insertion sort up to 12 elements: stability of sorted(), with and without
	// reverse=True, is only observable on longer lists whose tied elements are distinguishable.
	{
		nlong := pick(32, 600, T)
		for i := 0; i < nlong; i++ {
			add("sorted-long-ties", func(r *rand.Rand) []group {
				n := 13 + r.Intn(48)
				var it val
				var keys []val
				switch r.Intn(4) {
				case 0: // distinct ints, tied under x % 3 and x // 10
					perm := r.Perm(n + r.Intn(40))[:n]
					e := make([]val, n)
					for i, x := range perm {
						e[i] = vInt(int64(x))
					}
					it, keys = vList(e...), []val{vFunc("mod3"), vFunc("div10"), vFunc("zero"), vNone, vFunc("neg")}
				case 1: // strings of few distinct lengths, tied under len
					e := make([]val, n)
					for i := range e {
						e[i] = vStr(randString(r, "abc", 1+r.Intn(3)))
					}
					it, keys = vList(e...), []val{vFunc("len"), vFunc("last"), vFunc("first"), vFunc("zero"), vNone}
				case 2: // equal ints and floats are distinguishable ties even without a key
					e := make([]val, n)
					for i := range e {
						k := r.Intn(4)
						if r.Intn(2) == 0 {
							e[i] = vInt(int64(k))
						} else {
							e[i] = vFloat(fmt.Sprintf("%d.0", k))
						}
					}
					it, keys = vList(e...), []val{vNone, vFunc("neg"), vFunc("zero")}
				default: // pairs tied on their first (or last) component
					e := make([]val, n)
					for i := range e {
						e[i] = vTuple(vInt(int64(r.Intn(3))), vInt(int64(i)), vInt(int64(r.Intn(2))))
					}
					it, keys = vTuple(e...), []val{vFunc("first"), vFunc("last"), vFunc("zero"), vFunc("len")}
				}
				gs := group{op: "f:sorted", recv: vNone}
				gmin := group{op: "f:min", recv: vNone}
				gmax := group{op: "f:max", recv: vNone}
				for _, key := range keys {
					for _, rev := range []val{vNone, vBool(true), vBool(false)} {
						gs.argsets = append(gs.argsets, []val{it, key, rev})
					}
					gmin.argsets = append(gmin.argsets, []val{vTuple(it), key}, []val{vTuple(it.elems...), key})
					gmax.argsets = append(gmax.argsets, []val{vTuple(it), key}, []val{vTuple(it.elems...), key})
				}
				return []group{gs, gmin, gmax}
			})
		}
	}

	// ---------------------------------------------------------------- 11. random receivers up to length 40
	nrand := pick(240, 9000, T)
	for i := 0; i < nrand; i++ {
		add("random-long-receivers", randomCase)
	}
	return specs
}

func splitBytes(s string) []string {
	out := make([]string, len(s))
	for i := range out {
		out[i] = s[i : i+1]
	}
	return out
}

const wideAlpha = "abcxyzABCXYZ0129  ,,..--__''\n\t:/"

// randomCase: one random receiver (string and its bytes/list/tuple twins, length 0..40) and ~250 random operations.
func randomCase(r *rand.Rand) []group {
	n := r.Intn(41)
	alpha := wideAlpha
	switch r.Intn(4) {
	case 0:
		alpha = "ab "
	case 1:
		alpha = "aB, \n"
	}
	s := randString(r, alpha, n)
	elems := make([]val, n)
	ints := make([]val, n)
	for i := range elems {
		elems[i] = vStr(s[i : i+1])
		ints[i] = vInt(int64(r.Intn(7) - 3))
	}
	recvs := []val{vStr(s), vBytes(s), vList(elems...), vTuple(elems...), vList(ints...), vTuple(ints...), vRange(int64(r.Intn(5)), int64(r.Intn(5)+n), 1), vRange(int64(n), int64(r.Intn(3))-1, -int64(1+r.Intn(3)))}
	rndIndex := func(m int) val {
		switch r.Intn(12) {
		case 0:
			return vNone
		case 1:
			return hugeInts()[r.Intn(4)]
		}
		return vInt(int64(r.Intn(2*m+7) - m - 3))
	}
	rndStep := func(m int) val {
		switch r.Intn(8) {
		case 0:
			return vNone
		case 1:
			return vInt(int64(m + 1))
		case 2:
			return vInt(-int64(m + 1))
		case 3:
			return hugeInts()[r.Intn(4)]
		}
		st := int64(r.Intn(9) - 4)
		return vInt(st)
	}
	sub := func() string {
		switch r.Intn(6) {
		case 0:
			return ""
		case 1:
			return randString(r, alpha, 1+r.Intn(2))
		}
		if n == 0 {
			return "a"
		}
		i := r.Intn(n)
		j := i + 1 + r.Intn(3)
		if j > n {
			j = n
		}
		return s[i:j]
	}
	var gs []group
	for _, recv := range recvs {
		m := recv.seqLen()
		g := group{op: "slice", recv: recv}
		gi := group{op: "index", recv: recv}
		for k := 0; k < 12; k++ {
			g.argsets = append(g.argsets, []val{rndIndex(m), rndIndex(m), rndStep(m)})
			gi.argsets = append(gi.argsets, []val{vInt(int64(r.Intn(2*m+7) - m - 3))})
		}
		gs = append(gs, g, gi)
	}
	S := vStr(s)
	for _, mname := range []string{"find", "rfind", "index", "rindex", "count", "startswith", "endswith"} {
		g := group{op: "m:" + mname, recv: S}
		for k := 0; k < 8; k++ {
			x := vStr(sub())
			if (mname == "startswith" || mname == "endswith") && r.Intn(3) == 0 {
				x = vTuple(vStr(sub()), vStr(sub()))
			}
			switch r.Intn(3) {
			case 0:
				g.argsets = append(g.argsets, []val{x})
			case 1:
				g.argsets = append(g.argsets, []val{x, rndIndex(n)})
			default:
				g.argsets = append(g.argsets, []val{x, rndIndex(n), rndIndex(n)})
			}
		}
		gs = append(gs, g)
	}
	rndCount := func() val {
		switch r.Intn(8) {
		case 0:
			return vInt(-1)
		case 1:
			return vInt(1 << 62)
		}
		return vInt(int64(r.Intn(6)))
	}
	for _, mname := range []string{"split", "rsplit"} {
		g := group{op: "m:" + mname, recv: S}
		g.argsets = append(g.argsets, []val{}, []val{vNone, vInt(int64(r.Intn(5)))}, []val{vNone, vInt(int64(r.Intn(n + 2)))})
		for k := 0; k < 6; k++ {
			sep := sub()
			if r.Intn(2) == 0 {
				g.argsets = append(g.argsets, []val{vStr(sep)})
			} else if mname == "rsplit" {
				c := rndCount()
				g.argsets = append(g.argsets, []val{vStr(sep), c})
			} else {
				g.argsets = append(g.argsets, []val{vStr(sep), rndCount()})
			}
		}
		gs = append(gs, g)
	}
	for _, mname := range []string{"partition", "rpartition", "removeprefix", "removesuffix"} {
		g := group{op: "m:" + mname, recv: S}
		for k := 0; k < 4; k++ {
			g.argsets = append(g.argsets, []val{vStr(sub())})
		}
		if n > 0 {
			g.argsets = append(g.argsets, []val{vStr(s[:r.Intn(n+1)])}, []val{vStr(s[r.Intn(n+1):])})
		}
		gs = append(gs, g)
	}
	for _, mname := range []string{"strip", "lstrip", "rstrip"} {
		g := group{op: "m:" + mname, recv: S, argsets: [][]val{{}}}
		for k := 0; k < 4; k++ {
			g.argsets = append(g.argsets, []val{vStr(randString(r, alpha, r.Intn(4)))})
		}
		if n > 0 {
			g.argsets = append(g.argsets, []val{vStr(s[:1] + s[n-1:])})
		}
		gs = append(gs, g)
	}
	{
		g := group{op: "m:replace", recv: S}
		for k := 0; k < 6; k++ {
			a := []val{vStr(sub()), vStr(randString(r, alpha, r.Intn(3)))}
			if r.Intn(2) == 0 {
				a = append(a, rndCount())
			}
			g.argsets = append(g.argsets, a)
		}
		gs = append(gs, g)
	}
	for _, mname := range []string{"upper", "lower", "title", "capitalize", "isalnum", "isalpha", "isdigit", "islower", "isupper", "isspace", "istitle", "elems", "elem_ords", "codepoints", "codepoint_ords"} {
		gs = append(gs, group{op: "m:" + mname, recv: S, argsets: [][]val{{}}})
	}
	gs = append(gs, group{op: "m:splitlines", recv: S, argsets: [][]val{{}, {vBool(true)}, {vBool(false)}}})
	gs = append(gs, group{op: "m:elems", recv: vBytes(s), argsets: [][]val{{}}})
	// join back what split produced is covered by Python itself; here: join of the elements
	gs = append(gs, group{op: "m:join", recv: vStr(sub()), argsets: [][]val{{vList(elems...)}, {vTuple(elems...)}}})
	// list twins
	L := vList(ints...)
	{
		gi := group{op: "l:insert", recv: L}
		gp := group{op: "l:pop", recv: L, argsets: [][]val{{}}}
		gx := group{op: "l:index", recv: L}
		gr := group{op: "l:remove", recv: L}
		for k := 0; k < 8; k++ {
			gi.argsets = append(gi.argsets, []val{vInt(int64(r.Intn(2*n+7) - n - 3)), vInt(99)})
			gp.argsets = append(gp.argsets, []val{vInt(int64(r.Intn(2*n+7) - n - 3))})
			x := vInt(int64(r.Intn(7) - 3))
			switch r.Intn(3) {
			case 0:
				gx.argsets = append(gx.argsets, []val{x})
			case 1:
				gx.argsets = append(gx.argsets, []val{x, rndIndex(n)})
			default:
				gx.argsets = append(gx.argsets, []val{x, rndIndex(n), rndIndex(n)})
			}
			gr.argsets = append(gr.argsets, []val{x})
		}
		gs = append(gs, gi, gp, gx, gr)
		gs = append(gs, group{op: "l:extend", recv: L, argsets: [][]val{{vTuple(ints...)}, {vRange(0, int64(r.Intn(5)), 1)}}})
		for _, it := range []val{L, vTuple(ints...), vList(elems...)} {
			keyNeg := vFunc("neg")
			if it.seqLen() > 0 && it.elems[0].k == 'S' {
				keyNeg = vFunc("len")
			}
			gs = append(gs, group{op: "f:sorted", recv: vNone, argsets: [][]val{{it, vNone, vNone}, {it, vNone, vBool(true)}, {it, keyNeg, vNone}, {it, keyNeg, vBool(true)}, {it, vFunc("zero"), vBool(true)}}})
			gs = append(gs, group{op: "f:min", recv: vNone, argsets: [][]val{{vTuple(it), vNone}, {vTuple(it), keyNeg}}})
			gs = append(gs, group{op: "f:max", recv: vNone, argsets: [][]val{{vTuple(it), vNone}, {vTuple(it), keyNeg}}})
			gs = append(gs, group{op: "f:reversed", recv: vNone, argsets: [][]val{{it}}})
			gs = append(gs, group{op: "f:enumerate", recv: vNone, argsets: [][]val{{it}, {it, vInt(int64(r.Intn(9) - 4))}}})
			gs = append(gs, group{op: "f:any", recv: vNone, argsets: [][]val{{it}}})
			gs = append(gs, group{op: "f:all", recv: vNone, argsets: [][]val{{it}}})
			gs = append(gs, group{op: "f:zip", recv: vNone, argsets: [][]val{{it, vRange(0, int64(r.Intn(n+3)), 1)}, {vTuple(elems...), it, L}}})
		}
		k := int64(r.Intn(5) - 1)
		for _, x := range []val{S, vBytes(s), L, vTuple(elems...)} {
			gs = append(gs, group{op: "mul", recv: x, argsets: [][]val{{vInt(k)}}}, group{op: "add", recv: x, argsets: [][]val{{x}}})
		}
	}
	return gs
}
