// Package c13 is the runtime monitor for property C13: sequence and string operations follow the
// specification for all arguments.
//
// Every (operation, receiver, arguments) case is executed by the real starlark-go code twice — through Go API
// calls (method values, built-ins, precompiled one-line functions for x[i], x[a:b:c], +, *, %) and through
// source text evaluated with every dialect option on — and judged by CPython executing the same operation
// natively behind an adapter (ref.py) that encodes only the deviations doc/spec.md states explicitly.
// Index and slice expressions are additionally judged by a second oracle written in Go from the spec text
// alone (sliceref.go).  Results are compared as canonical text; errors compare as "fails" only.
package c13

import (
	_ "embed"
	"fmt"
	"hash/fnv"
	"runtime"
	"runtime/debug"
	"strings"

	"verif/internal/driver"
)

//go:embed ref.py
var refPy string

func init() {
	driver.Register(&driver.Engine{
		ID: "C13", Level: "exploration",
		Rule: "case = (operation, receiver, argument tuple). Enumerated: every (start, stop, step) with start/stop in [-n-3, n+3] ∪ {None} and step in {None, ±1, ±2, ±3, ±(n+1), 0} " +
			"for receivers of every length n ≤ 5 (quick) / 8 (thorough) of each type string, bytes, list, tuple, range (this sub-space is exhaustive); every index in [-n-3, n+3]; " +
			"method argument tuples (omitted optionals, None, negative, 2^31/2^62/2^64 counts and indices, empty needles/separators, tuple prefixes) over all receivers " +
			"of per-operation 3-letter alphabets up to a tier-dependent length, plus seeded random receivers up to length 40. " +
			"distinct = distinct (operation, receiver, arguments); non-trivial = the receiver (or first operand) is non-empty and the reference result is a value, not a failure.",
		Assumptions: []string{
			"CPython 3.11 (/usr/bin/python3) string/bytes/list/tuple/range semantics are the reference on the subset shared with Starlark",
			"ref.py adapter encodes only deviations stated in doc/spec.md (each rule cites its sentence); ASCII text only, so byte and code point semantics coincide",
			"doc/spec.md does not describe the bytes type; bytes indexing is judged by analogy with strings (b[i] == b[i:i+1]) and bytes slicing/concatenation/repetition by Python's bytes",
			"error messages are not compared, only failure versus value",
			"the Go slice/index oracle (sliceref.go) and the harness value codec are part of the trusted base",
		},
		Run:    run,
		Finish: finish,
	})
}

func finish(ev map[string]any) (string, bool) {
	counters, _ := ev["counters"].(map[string]int64)
	if counters == nil {
		return "", false
	}
	if n := counters["py_dev:native_python_differs:UNEXPLAINED"]; n > 0 {
		return fmt.Sprintf("the reference adapter departs from native Python outside the spec-sanctioned family in %d cases", n), true
	}
	if n := counters["oracle_disagreement"]; n > 0 {
		return fmt.Sprintf("Python and the Go spec oracle disagree on %d index/slice cases", n), true
	}
	if counters["compared_python"] == 0 || counters["compared_spec_slice_oracle"] == 0 || counters["compared_source_text"] == 0 {
		return "one of the comparison paths observed nothing", true
	}
	return "", false
}

type pyResp struct {
	R   [][]string       `json:"r"`
	Dev map[string]int64 `json:"dev"`
}

type rawJSON string

func (r rawJSON) MarshalJSON() ([]byte, error) { return []byte(r), nil }

type monitor struct {
	c   *driver.Ctx
	env *execEnv
	py  *driver.Py
	bad bool // python died: stop

	sampleFamily string // the family this shard contributes evidence samples from (spread over shards)
	nsampled     int
}

func run(c *driver.Ctx) {
	// One child per core is already running: keep the Go runtime of this child from spreading its GC workers
	// over all cores (16 children x 16 Ps thrash on futexes).  Purely a scheduling matter; verdicts do not depend on it.
	runtime.GOMAXPROCS(2)
	debug.SetGCPercent(400)
	env, err := newExecEnv()
	if err != nil {
		c.Inconclusive("cannot compile helper functions: %v", err)
		return
	}
	py, err := driver.StartPy(refPy)
	if err != nil {
		c.Inconclusive("python reference cannot start: %v", err)
		return
	}
	defer py.Close()
	m := &monitor{c: c, env: env, py: py}

	p := &params{thorough: c.Thorough(), maxLen: c.Pick(5, 8), glob: c.GlobalRand}
	// Hazard probe (depends on the tree only, so it is identical in all shards): does rsplit(None, k) pre-size its
	// result from k?  If so k = 2^31 would reserve 32 GiB and is left out (counted below); k = 2^62 is still run.
	probe := env.direct(&item{op: "m:rsplit", recv: vStr("a b"), args: []val{vNone, vInt(1 << 62)}})
	p.rsplitHuge = probe.panic == ""

	specs := buildSpecs(p)
	var families []string
	seenFam := map[string]bool{}
	for i := range specs {
		if !seenFam[specs[i].family] {
			seenFam[specs[i].family] = true
			families = append(families, specs[i].family)
		}
	}
	m.sampleFamily = families[(c.Shard*7)%len(families)]
	exhaustiveDone := true
	for i := range specs {
		sp := &specs[i]
		if !c.Take() {
			continue
		}
		c.Note("family=%s case=%d", sp.family, c.Case())
		groups := sp.gen(c.Rand())
		c.Cover("families", sp.family)
		if !m.process(sp, groups) {
			exhaustiveDone = false
			break
		}
		if !p.rsplitHuge && sp.family == "split" {
			c.Count("hazard_skipped:rsplit(None,2^31)", len(groups)/2)
		}
	}
	if exhaustiveDone && !m.bad {
		c.Count("exhaustive_subspace_completed", 1)
	}
}

const maxBatch = 6000

// altSep separates alternative acceptable results in a reference answer.
const altSep = "\x00OR\x00"

// process judges all groups of one case; large cases are sent to Python in several requests.
func (m *monitor) process(sp *caseSpec, groups []group) bool {
	var batch []group
	n := 0
	for _, g := range groups {
		if len(g.argsets) == 0 {
			continue
		}
		batch = append(batch, g)
		n += len(g.argsets)
		if n >= maxBatch {
			if !m.judge(sp, batch) {
				return false
			}
			batch, n = nil, 0
		}
	}
	if len(batch) > 0 {
		return m.judge(sp, batch)
	}
	return true
}

func typeName(v val) string {
	return map[byte]string{'S': "str", 'B': "bytes", 'L': "list", 'U': "tuple", 'R': "range", 'I': "int", 'N': "None", 'T': "bool", 'D': "dict", 'F': "float", 'G': "int"}[v.k]
}

func opName(it *item) string {
	switch {
	case it.op == "prog":
		return "aliasing: " + it.args[2].s
	case strings.HasPrefix(it.op, "f:"):
		return it.op[2:]
	case strings.HasPrefix(it.op, "m:"), strings.HasPrefix(it.op, "l:"):
		return typeName(it.recv) + "." + it.op[2:]
	}
	return typeName(it.recv) + " " + it.op
}

func (m *monitor) judge(sp *caseSpec, groups []group) bool {
	c := m.c
	// request
	var sb strings.Builder
	sb.WriteString(`{"g":[`)
	for gi, g := range groups {
		if gi > 0 {
			sb.WriteByte(',')
		}
		sb.WriteByte('[')
		jsonStr(&sb, g.op)
		sb.WriteByte(',')
		g.recv.json(&sb)
		sb.WriteString(",[")
		for ai, a := range g.argsets {
			if ai > 0 {
				sb.WriteByte(',')
			}
			sb.WriteByte('[')
			for i, x := range a {
				if i > 0 {
					sb.WriteByte(',')
				}
				x.json(&sb)
			}
			sb.WriteByte(']')
		}
		sb.WriteString("]]")
	}
	sb.WriteString("]}")

	// real code first (so that a crash is attributed to this case before Python is involved)
	type res struct {
		direct, source outcome
		src            string
	}
	results := make([][]res, len(groups))
	for gi, g := range groups {
		results[gi] = make([]res, len(g.argsets))
		for ai, a := range g.argsets {
			it := &item{op: g.op, recv: g.recv, args: a}
			var r res
			r.direct = m.env.direct(it)
			r.source, r.src = m.env.viaSource(it)
			r.src = strings.ReplaceAll(strings.TrimSpace(r.src), "\n", " ⏎ ")
			results[gi][ai] = r
		}
	}

	var resp pyResp
	if err := m.py.Call(rawJSON(sb.String()), &resp); err != nil {
		c.Inconclusive("python reference failed (family %s, case %d): %v", sp.family, c.Case(), err)
		m.bad = true
		return false
	}
	if len(resp.R) != len(groups) {
		c.Inconclusive("python reference returned %d groups for %d", len(resp.R), len(groups))
		m.bad = true
		return false
	}
	for k, v := range resp.Dev {
		c.Count("py_dev:"+k, int(v))
		if strings.HasSuffix(k, "UNEXPLAINED") {
			c.Inconclusive("reference adapter departs from native Python outside the sanctioned family (family %s, case %d)", sp.family, c.Case())
		}
	}

	h := fnv.New64a()
	for gi, g := range groups {
		want := resp.R[gi]
		if len(want) != len(g.argsets) {
			c.Inconclusive("python reference returned %d results for %d argument tuples", len(want), len(g.argsets))
			m.bad = true
			return false
		}
		recvCanon := func() string { var b strings.Builder; g.recv.canon(&b); return b.String() }()
		first := g.recv
		nonEmpty := first.seqLen() > 0
		covered := false
		for ai, a := range g.argsets {
			it := &item{op: g.op, recv: g.recv, args: a}
			r := results[gi][ai]
			w := want[ai]
			c.Eval(1)
			c.Count("evals:"+sp.family, 1)
			if !covered {
				covered = true
				c.Cover("ops", opName(it))
				if g.recv.k != 'N' {
					c.Cover("receiver_lengths", fmt.Sprintf("%s:%02d", typeName(g.recv), g.recv.seqLen()))
				}
			}
			// 1. panics
			if r.direct.panic != "" || r.source.panic != "" {
				pv := r.direct.panic
				if pv == "" {
					pv = r.source.panic
				}
				c.Count("panics", 1)
				c.Violation("C13 panic "+it.opGroup()+" "+keyClass(it), fmt.Sprintf("%s panics: %s (reference: %s)", r.src, pv, w),
					map[string]any{"expr": r.src, "panic": pv, "reference": w})
				continue
			}
			// 2. the two execution paths of the real code must agree with each other
			c.Count("compared_source_text", 1)
			if r.direct.canon != r.source.canon {
				c.Count("mismatches", 1)
				c.Violation("C13 api-vs-source "+it.opGroup(),
					fmt.Sprintf("%s: via Go API %s, via source text %s (reference %s)", r.src, show(r.direct), show(r.source), w),
					map[string]any{"expr": r.src, "api": r.direct.canon, "api_err": r.direct.err, "source": r.source.canon, "source_err": r.source.err, "reference": w})
				continue
			}
			// 3. the spec oracle for index/slice
			if g.op == "slice" || g.op == "index" {
				var sw string
				if g.op == "slice" {
					sw = specSliceCanon(g.recv, a)
				} else {
					sw = specIndexCanon(g.recv, a[0])
				}
				c.Count("compared_spec_slice_oracle", 1)
				if sw != w {
					c.Count("oracle_disagreement", 1)
					c.Inconclusive("oracles disagree on %s: python %s, spec oracle %s", r.src, w, sw)
					continue
				}
			}
			// 4. Python
			c.Count("compared_python", 1)
			got := r.direct.canon
			if strings.Contains(w, altSep) {
				// the specification admits more than one reading here (ref.py says which and why)
				c.Count("ambiguous_spec_cases", 1)
				for _, alt := range strings.Split(w, altSep) {
					if alt == got {
						w = alt
						break
					}
				}
			}
			if got != w {
				c.Count("mismatches", 1)
				key := int32Key(it, got, w)
				if key == "" && it.op == "interp" && strings.Contains(it.recv.s, "%F") && strings.Contains(got, "%F") {
					key = "C13 wrong str % conversion %F is emitted verbatim"
				}
				if key == "" {
					key = "C13 wrong " + it.opGroup() + " " + keyClass(it)
				}
				c.Violation(key,
					fmt.Sprintf("%s = %s, specification/reference: %s", r.src, show(r.direct), showCanon(w)),
					map[string]any{"expr": r.src, "got": got, "got_err": r.direct.err, "want": w, "op": g.op, "receiver": recvCanon})
				continue
			}
			if w == "E" {
				c.Count("errors_agreed", 1)
			} else {
				c.Count("values_agreed", 1)
				if nonEmpty || (g.recv.k == 'N' && len(a) > 0 && a[0].seqLen() > 0) || (g.recv.k == 'I') {
					h.Reset()
					h.Write([]byte(g.op))
					h.Write([]byte{0})
					h.Write([]byte(r.src))
					c.DistinctH(h.Sum64())
				}
			}
			if sp.exhaustive {
				c.Count("exhaustive_index_slice_cases", 1)
			}
			if sp.family == m.sampleFamily && m.nsampled < 2 && w != "E" && ai%5 == 3 && (first.seqLen() >= 3 || first.k == 'N' && len(a) > 0 && a[0].seqLen() >= 3) {
				m.nsampled++
				c.Sample(map[string]any{"expr": r.src, "got": got, "reference": w, "family": sp.family})
			}
		}
	}
	return true
}

// keyClass is the argument-shape part of a violation key.
func keyClass(it *item) string {
	return it.argClass()
}

func outsideInt32(v val) bool {
	return v.k == 'G' || v.k == 'I' && (v.i >= 1<<31 || v.i < -(1<<31))
}

// int32Key recognises the one family with its own stable keys: an integer operand outside the int32 range is
// rejected (starlark.AsInt32) where the specification clamps it.  The key names the call site, not the operands.
func int32Key(it *item, got, want string) string {
	if got != "E" || want == "E" {
		return ""
	}
	switch {
	case it.op == "slice":
		if outsideInt32(it.args[2]) {
			return "C13 wrong slice stride outside int32 is rejected"
		}
		if outsideInt32(it.args[0]) || outsideInt32(it.args[1]) {
			return "C13 wrong start/end index outside int32 is rejected instead of clamped"
		}
	case it.op == "mul":
		if outsideInt32(it.args[0]) || outsideInt32(it.recv) {
			return "C13 wrong negative repeat count outside int32 is rejected"
		}
	case strings.HasPrefix(it.op, "m:") || it.op == "l:index":
		switch it.op[2:] {
		case "find", "rfind", "index", "rindex", "count", "startswith", "endswith":
			for _, a := range it.args[1:] {
				if outsideInt32(a) {
					return "C13 wrong start/end index outside int32 is rejected instead of clamped"
				}
			}
		}
	}
	return ""
}

func show(o outcome) string {
	if o.canon == "E" {
		return "error(" + driver.Truncate(o.err, 120) + ")"
	}
	return showCanon(o.canon)
}

func showCanon(s string) string {
	if s == "E" {
		return "error"
	}
	return driver.Truncate(fmt.Sprintf("%q", s), 300)
}
