package c13

import (
	"fmt"
	"math/big"
	"strconv"
	"strings"

	"go.starlark.net/starlark"
)

// val is the harness's own value tree: the single description of an operand from which the Starlark
// value, the Starlark source text and the JSON sent to the Python reference are all derived.
type val struct {
	k     byte // 'N' none, 'T' bool, 'I' int, 'G' big int (decimal text in s), 'F' float (text in s), 'S' str, 'B' bytes, 'L' list, 'U' tuple, 'R' range, 'D' dict, 'C' function
	i     int64
	s     string
	elems []val // list/tuple elements; range: start, stop, step; dict: k0, v0, k1, v1, ...
}

var vNone = val{k: 'N'}

func vBool(b bool) val {
	if b {
		return val{k: 'T', i: 1}
	}
	return val{k: 'T'}
}
func vInt(i int64) val         { return val{k: 'I', i: i} }
func vBig(dec string) val      { return val{k: 'G', s: dec} }
func vFloat(text string) val   { return val{k: 'F', s: text} }
func vStr(s string) val        { return val{k: 'S', s: s} }
func vBytes(s string) val      { return val{k: 'B', s: s} }
func vList(e ...val) val       { return val{k: 'L', elems: e} }
func vTuple(e ...val) val      { return val{k: 'U', elems: e} }
func vRange(a, b, c int64) val { return val{k: 'R', elems: []val{vInt(a), vInt(b), vInt(c)}} }
func vDict(kv ...val) val      { return val{k: 'D', elems: kv} }
func vFunc(name string) val    { return val{k: 'C', s: name} }

// seqLen is the number of elements of a sequence value (string, bytes, list, tuple, range).
func (v val) seqLen() int {
	switch v.k {
	case 'S', 'B':
		return len(v.s)
	case 'L', 'U':
		return len(v.elems)
	case 'R':
		return len(v.rangeElems())
	}
	return 0
}

func (v val) rangeElems() []int64 {
	a, b, c := v.elems[0].i, v.elems[1].i, v.elems[2].i
	var out []int64
	if c > 0 {
		for x := a; x < b; x += c {
			out = append(out, x)
		}
	} else if c < 0 {
		for x := a; x > b; x += c {
			out = append(out, x)
		}
	}
	return out
}

// funcs are the named key functions usable as key= arguments; the same names exist in ref.py.
var funcSrc = map[string]string{
	"len":   "len",
	"neg":   "(lambda x: -x)",
	"last":  "(lambda x: x[-1])",
	"zero":  "(lambda x: 0)",
	"first": "(lambda x: x[0])",
	"mod3":  "(lambda x: x % 3)",
	"div10": "(lambda x: x // 10)",
}

// ---- Starlark value

func (v val) star(env *execEnv) starlark.Value {
	switch v.k {
	case 'N':
		return starlark.None
	case 'T':
		return starlark.Bool(v.i != 0)
	case 'I':
		return starlark.MakeInt64(v.i)
	case 'G':
		b, ok := new(big.Int).SetString(v.s, 10)
		if !ok {
			panic("c13: bad big int " + v.s)
		}
		return starlark.MakeBigInt(b)
	case 'F':
		f, err := strconv.ParseFloat(v.s, 64)
		if err != nil {
			panic("c13: bad float " + v.s)
		}
		return starlark.Float(f)
	case 'S':
		return starlark.String(v.s)
	case 'B':
		return starlark.Bytes(v.s)
	case 'L':
		e := make([]starlark.Value, len(v.elems))
		for i, x := range v.elems {
			e[i] = x.star(env)
		}
		return starlark.NewList(e)
	case 'U':
		e := make(starlark.Tuple, len(v.elems))
		for i, x := range v.elems {
			e[i] = x.star(env)
		}
		return e
	case 'R':
		r, err := starlark.Call(env.thread, starlark.Universe["range"], starlark.Tuple{v.elems[0].star(env), v.elems[1].star(env), v.elems[2].star(env)}, nil)
		if err != nil {
			panic("c13: cannot build range: " + err.Error())
		}
		return r
	case 'D':
		d := starlark.NewDict(len(v.elems) / 2)
		for i := 0; i+1 < len(v.elems); i += 2 {
			if err := d.SetKey(v.elems[i].star(env), v.elems[i+1].star(env)); err != nil {
				panic("c13: cannot build dict: " + err.Error())
			}
		}
		return d
	case 'C':
		f := env.funcs[v.s]
		if f == nil {
			panic("c13: unknown function " + v.s)
		}
		return f
	}
	panic("c13: bad val kind")
}

// ---- Starlark source text (own quoting: printable ASCII verbatim, everything else \xNN)

func quoteSrc(sb *strings.Builder, s string) {
	sb.WriteByte('"')
	for i := 0; i < len(s); i++ {
		ch := s[i]
		switch {
		case ch == '"' || ch == '\\':
			sb.WriteByte('\\')
			sb.WriteByte(ch)
		case ch == '\n':
			sb.WriteString(`\n`)
		case ch >= 0x20 && ch < 0x7f:
			sb.WriteByte(ch)
		default:
			fmt.Fprintf(sb, `\x%02x`, ch)
		}
	}
	sb.WriteByte('"')
}

func (v val) src(sb *strings.Builder) {
	switch v.k {
	case 'N':
		sb.WriteString("None")
	case 'T':
		if v.i != 0 {
			sb.WriteString("True")
		} else {
			sb.WriteString("False")
		}
	case 'I':
		if v.i < 0 {
			sb.WriteByte('(')
			sb.WriteString(strconv.FormatInt(v.i, 10))
			sb.WriteByte(')')
		} else {
			sb.WriteString(strconv.FormatInt(v.i, 10))
		}
	case 'G':
		sb.WriteByte('(')
		sb.WriteString(v.s)
		sb.WriteByte(')')
	case 'F':
		sb.WriteString("float(\"" + v.s + "\")")
	case 'S':
		quoteSrc(sb, v.s)
	case 'B':
		sb.WriteByte('b')
		quoteSrc(sb, v.s)
	case 'L':
		sb.WriteByte('[')
		for i, x := range v.elems {
			if i > 0 {
				sb.WriteString(", ")
			}
			x.src(sb)
		}
		sb.WriteByte(']')
	case 'U':
		sb.WriteByte('(')
		for i, x := range v.elems {
			if i > 0 {
				sb.WriteString(", ")
			}
			x.src(sb)
		}
		if len(v.elems) == 1 {
			sb.WriteByte(',')
		}
		sb.WriteByte(')')
	case 'R':
		fmt.Fprintf(sb, "range(%d, %d, %d)", v.elems[0].i, v.elems[1].i, v.elems[2].i)
	case 'D':
		sb.WriteByte('{')
		for i := 0; i+1 < len(v.elems); i += 2 {
			if i > 0 {
				sb.WriteString(", ")
			}
			v.elems[i].src(sb)
			sb.WriteString(": ")
			v.elems[i+1].src(sb)
		}
		sb.WriteByte('}')
	case 'C':
		sb.WriteString(funcSrc[v.s])
	}
}

func (v val) srcString() string {
	var sb strings.Builder
	v.src(&sb)
	return sb.String()
}

// ---- JSON for the Python reference

func jsonStr(sb *strings.Builder, s string) {
	sb.WriteByte('"')
	for i := 0; i < len(s); i++ {
		ch := s[i]
		switch {
		case ch == '"' || ch == '\\':
			sb.WriteByte('\\')
			sb.WriteByte(ch)
		case ch >= 0x20 && ch < 0x7f:
			sb.WriteByte(ch)
		default:
			fmt.Fprintf(sb, `\u%04x`, ch)
		}
	}
	sb.WriteByte('"')
}

func (v val) json(sb *strings.Builder) {
	switch v.k {
	case 'N':
		sb.WriteString("null")
	case 'T':
		if v.i != 0 {
			sb.WriteString("true")
		} else {
			sb.WriteString("false")
		}
	case 'I':
		sb.WriteString(strconv.FormatInt(v.i, 10))
	case 'G':
		sb.WriteString(v.s)
	case 'F':
		sb.WriteString(`{"f":`)
		jsonStr(sb, v.s)
		sb.WriteByte('}')
	case 'S':
		jsonStr(sb, v.s)
	case 'B':
		sb.WriteString(`{"b":`)
		jsonStr(sb, v.s)
		sb.WriteByte('}')
	case 'L', 'U':
		if v.k == 'L' {
			sb.WriteString(`{"l":[`)
		} else {
			sb.WriteString(`{"t":[`)
		}
		for i, x := range v.elems {
			if i > 0 {
				sb.WriteByte(',')
			}
			x.json(sb)
		}
		sb.WriteString("]}")
	case 'R':
		fmt.Fprintf(sb, `{"r":[%d,%d,%d]}`, v.elems[0].i, v.elems[1].i, v.elems[2].i)
	case 'D':
		sb.WriteString(`{"d":[`)
		for i := 0; i+1 < len(v.elems); i += 2 {
			if i > 0 {
				sb.WriteByte(',')
			}
			sb.WriteByte('[')
			v.elems[i].json(sb)
			sb.WriteByte(',')
			v.elems[i+1].json(sb)
			sb.WriteByte(']')
		}
		sb.WriteString("]}")
	case 'C':
		sb.WriteString(`{"fn":`)
		jsonStr(sb, v.s)
		sb.WriteByte('}')
	}
}

// ---- canonical text (the comparison domain; must match canon() in ref.py)

func (v val) canon(sb *strings.Builder) {
	switch v.k {
	case 'N':
		sb.WriteByte('N')
	case 'T':
		if v.i != 0 {
			sb.WriteByte('T')
		} else {
			sb.WriteByte('F')
		}
	case 'I':
		sb.WriteByte('i')
		sb.WriteString(strconv.FormatInt(v.i, 10))
	case 'G':
		sb.WriteByte('i')
		sb.WriteString(v.s)
	case 'S':
		fmt.Fprintf(sb, "s%d:%s", len(v.s), v.s)
	case 'B':
		fmt.Fprintf(sb, "b%d:%s", len(v.s), v.s)
	case 'L', 'U':
		if v.k == 'L' {
			sb.WriteByte('[')
		} else {
			sb.WriteByte('(')
		}
		for i, x := range v.elems {
			if i > 0 {
				sb.WriteByte(',')
			}
			x.canon(sb)
		}
		if v.k == 'L' {
			sb.WriteByte(']')
		} else {
			sb.WriteByte(')')
		}
	case 'R':
		sb.WriteString("r[")
		for i, x := range v.rangeElems() {
			if i > 0 {
				sb.WriteByte(',')
			}
			sb.WriteByte('i')
			sb.WriteString(strconv.FormatInt(x, 10))
		}
		sb.WriteByte(']')
	default:
		sb.WriteString("?")
	}
}

// canonStar renders a Starlark result in the canonical text.
func canonStar(sb *strings.Builder, v starlark.Value) {
	switch v := v.(type) {
	case starlark.NoneType:
		sb.WriteByte('N')
	case starlark.Bool:
		if v {
			sb.WriteByte('T')
		} else {
			sb.WriteByte('F')
		}
	case starlark.Int:
		sb.WriteByte('i')
		sb.WriteString(v.String())
	case starlark.Float:
		sb.WriteByte('f')
		sb.WriteString(v.String())
	case starlark.String:
		fmt.Fprintf(sb, "s%d:%s", len(v), string(v))
	case starlark.Bytes:
		fmt.Fprintf(sb, "b%d:%s", len(v), string(v))
	case *starlark.List:
		sb.WriteByte('[')
		for i := 0; i < v.Len(); i++ {
			if i > 0 {
				sb.WriteByte(',')
			}
			canonStar(sb, v.Index(i))
		}
		sb.WriteByte(']')
	case starlark.Tuple:
		sb.WriteByte('(')
		for i, x := range v {
			if i > 0 {
				sb.WriteByte(',')
			}
			canonStar(sb, x)
		}
		sb.WriteByte(')')
	default:
		if v.Type() == "range" {
			sb.WriteString("r[")
			it := v.(starlark.Iterable).Iterate()
			var x starlark.Value
			for i := 0; it.Next(&x); i++ {
				if i > 0 {
					sb.WriteByte(',')
				}
				canonStar(sb, x)
			}
			it.Done()
			sb.WriteByte(']')
			return
		}
		sb.WriteString("?" + v.Type() + ":" + v.String())
	}
}
