package c13

import (
	"math/big"
	"strings"
)

// Second, independent oracle for index and slice expressions, written from the text of doc/spec.md
// ("Indexing", "Index expressions", "Slice expressions") and from nothing else: it shares no code with
// starlark-go's eval.go and does not consult Python.
//
// An operand is an extended integer: a finite value, -infinity or +infinity.

type xint struct {
	inf int // -1, 0, +1
	v   *big.Int
}

func finite(i int64) xint { return xint{v: big.NewInt(i)} }

// operand converts a slice operand; ok=false means the operand is not None and not an integer (an error).
func operand(a val) (x xint, none bool, ok bool) {
	switch a.k {
	case 'N':
		return xint{}, true, true
	case 'I':
		return finite(a.i), false, true
	case 'G':
		b, good := new(big.Int).SetString(a.s, 10)
		return xint{v: b}, false, good
	}
	return xint{}, false, false
}

// clamp returns the nearest value to x in [lo, hi].
func clamp(x xint, lo, hi int64) int64 {
	if x.inf < 0 {
		return lo
	}
	if x.inf > 0 {
		return hi
	}
	if x.v.Cmp(big.NewInt(lo)) < 0 {
		return lo
	}
	if x.v.Cmp(big.NewInt(hi)) > 0 {
		return hi
	}
	return x.v.Int64()
}

// specIndex: "The index i must be an int value in the range -n <= i < n ...; any other index results in an
// error. A valid negative index i behaves like the non-negative index n+i".
func specIndex(n int, a val) (pos int, ok bool) {
	if a.k != 'I' && a.k != 'G' {
		return 0, false
	}
	x, _, good := operand(a)
	if !good {
		return 0, false
	}
	if x.v.Cmp(big.NewInt(int64(-n))) < 0 || x.v.Cmp(big.NewInt(int64(n))) >= 0 {
		return 0, false
	}
	i := int(x.v.Int64())
	if i < 0 {
		i += n
	}
	return i, true
}

// specSlice returns the positions selected by a[start:stop:stride] on a sequence of length n.
//
//	"The stride value defaults to 1. ... It is an error to specify a stride of zero."
//	"If the stride is positive: If the start operand was omitted, it defaults to -infinity. If the end operand
//	 was omitted, it defaults to +infinity. For either operand, if a negative value was supplied, n is added to
//	 it. The start and end values are then "clamped" to the nearest value in the range 0 to n, inclusive."
//	"If the stride is negative: ... start ... defaults to +infinity ... end ... defaults to -infinity. ... if a
//	 negative value was supplied, n is added to it. ... clamped to the nearest value in the range -1 to n-1"
//	"these operands specify a sequence of values i starting at start and successively adding stride until i
//	 reaches or passes stop. The result consists of the concatenation of values of a[i] for which i is valid."
func specSlice(n int, start, stop, stride val) (positions []int, ok bool) {
	st, stNone, ok1 := operand(start)
	en, enNone, ok2 := operand(stop)
	sd, sdNone, ok3 := operand(stride)
	if !ok1 || !ok2 || !ok3 {
		return nil, false
	}
	step := finite(1)
	if !sdNone {
		step = sd
	}
	sign := step.v.Sign()
	if sign == 0 {
		return nil, false
	}
	adjust := func(x xint, none bool, dflt int) xint {
		if none {
			return xint{inf: dflt}
		}
		if x.v.Sign() < 0 {
			return xint{v: new(big.Int).Add(x.v, big.NewInt(int64(n)))}
		}
		return x
	}
	var lo, hi int64
	if sign > 0 {
		st, en = adjust(st, stNone, -1), adjust(en, enNone, +1)
		lo, hi = 0, int64(n)
	} else {
		st, en = adjust(st, stNone, +1), adjust(en, enNone, -1)
		lo, hi = -1, int64(n)-1
	}
	i, end := clamp(st, lo, hi), clamp(en, lo, hi)
	// A stride whose magnitude exceeds n+1 behaves like n+1 for the clamped walk: after the first element
	// the next value of i is already at or past every possible stop.
	stepSmall := clamp(step, -int64(n)-1, int64(n)+1)
	for {
		if sign > 0 && i >= end || sign < 0 && i <= end {
			break // i has reached or passed stop
		}
		if i >= 0 && i < int64(n) { // "for which i is valid"
			positions = append(positions, int(i))
		}
		i += stepSmall
	}
	return positions, true
}

// specSliceCanon applies the selected positions to the receiver and renders the result canonically.
func specSliceCanon(recv val, args []val) string {
	n := recv.seqLen()
	pos, ok := specSlice(n, args[0], args[1], args[2])
	if !ok {
		return "E"
	}
	return selectCanon(recv, pos, true)
}

func specIndexCanon(recv val, arg val) string {
	pos, ok := specIndex(recv.seqLen(), arg)
	if !ok {
		return "E"
	}
	return selectCanon(recv, []int{pos}, false)
}

// selectCanon renders recv restricted to positions: as a sequence of the same type (slice), or as the single
// element (index; for strings "the 1-byte substring s[i:i+1]", for bytes by analogy the 1-byte bytes).
func selectCanon(recv val, pos []int, asSeq bool) string {
	var sb strings.Builder
	switch recv.k {
	case 'S', 'B':
		b := make([]byte, len(pos))
		for i, p := range pos {
			b[i] = recv.s[p]
		}
		val{k: recv.k, s: string(b)}.canon(&sb)
	case 'L', 'U':
		if !asSeq {
			recv.elems[pos[0]].canon(&sb)
			break
		}
		e := make([]val, len(pos))
		for i, p := range pos {
			e[i] = recv.elems[p]
		}
		val{k: recv.k, elems: e}.canon(&sb)
	case 'R':
		all := recv.rangeElems()
		if !asSeq {
			vInt(all[pos[0]]).canon(&sb)
			break
		}
		sb.WriteString("r[")
		for i, p := range pos {
			if i > 0 {
				sb.WriteByte(',')
			}
			vInt(all[p]).canon(&sb)
		}
		sb.WriteByte(']')
	}
	return sb.String()
}
