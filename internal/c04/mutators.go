package c04

import (
	"fmt"
	"reflect"
	"sort"
	"strings"

	"go.starlark.net/starlark"

	"verif/internal/canon"
	"verif/internal/sl"
)

// A mutator is one concrete operation that changes a fresh, unfrozen value of its kind.
// Mutators are discovered, not listed: every method in AttrNames(), every exported Go method of the
// concrete type (by reflection) and every Starlark statement form of the prelude is tried on a fresh
// sample with plausible arguments; those that change the canonical snapshot form the mutator set.
// Arguments are templates that are instantiated against the value under attack (ELEM0 = its first
// element/key, SELF = the value itself), so that the same operation is meaningful on any node.
type mutator struct {
	kind  string // list, dict, set
	group string // method, goapi, stmt
	site  string // stable call-site name used in violation keys: "list.append", "goapi List.Append", "stmt x[0]=v"
	name  string // site plus argument template
	arity string // number/shape of arguments (selection slot during discovery)
	apply func(th *starlark.Thread, x starlark.Value) error
}

func freshColl(kind string) starlark.Value {
	switch kind {
	case "list":
		return starlark.NewList([]starlark.Value{starlark.MakeInt(10), starlark.MakeInt(20), starlark.MakeInt(30)})
	case "dict":
		d := starlark.NewDict(3)
		d.SetKey(starlark.String("a"), starlark.MakeInt(1))
		d.SetKey(starlark.String("b"), starlark.MakeInt(2))
		d.SetKey(starlark.String("c"), starlark.MakeInt(3))
		return d
	case "set":
		s := starlark.NewSet(3)
		s.Insert(starlark.MakeInt(10))
		s.Insert(starlark.MakeInt(20))
		s.Insert(starlark.MakeInt(30))
		return s
	}
	panic("kind " + kind)
}

func kindOf(v starlark.Value) string {
	switch v.(type) {
	case *starlark.List:
		return "list"
	case *starlark.Dict:
		return "dict"
	case *starlark.Set:
		return "set"
	}
	return ""
}

// firstElem returns the first element (list, set) or key (dict) of x, or nil.
func firstElem(x starlark.Value) starlark.Value {
	switch x := x.(type) {
	case *starlark.List:
		if x.Len() > 0 {
			return x.Index(0)
		}
	case *starlark.Dict:
		if ks := x.Keys(); len(ks) > 0 {
			return ks[0]
		}
	case *starlark.Set:
		it := x.Iterate()
		defer it.Done()
		var e starlark.Value
		if it.Next(&e) {
			return e
		}
	}
	return nil
}

// argSpec is an argument template.
type argSpec struct {
	name string
	get  func(x starlark.Value) starlark.Value
}

func konst(name string, mk func() starlark.Value) argSpec {
	return argSpec{name, func(starlark.Value) starlark.Value { return mk() }}
}

func argPool() []argSpec {
	return []argSpec{
		konst("99", func() starlark.Value { return starlark.MakeInt(99) }),
		{"ELEM0", func(x starlark.Value) starlark.Value {
			if e := firstElem(x); e != nil {
				return e
			}
			return starlark.MakeInt(98)
		}},
		konst("0", func() starlark.Value { return starlark.MakeInt(0) }),
		konst("-1", func() starlark.Value { return starlark.MakeInt(-1) }),
		konst(`"zz"`, func() starlark.Value { return starlark.String("zz") }),
		konst("[99]", func() starlark.Value { return starlark.NewList([]starlark.Value{starlark.MakeInt(99)}) }),
		konst(`{"zz": 1}`, func() starlark.Value {
			d := starlark.NewDict(1)
			d.SetKey(starlark.String("zz"), starlark.MakeInt(1))
			return d
		}),
		konst(`(("zz", 1),)`, func() starlark.Value {
			return starlark.Tuple{starlark.Tuple{starlark.String("zz"), starlark.MakeInt(1)}}
		}),
		konst("set([99])", func() starlark.Value { s := starlark.NewSet(1); s.Insert(starlark.MakeInt(99)); return s }),
		{"SELF", func(x starlark.Value) starlark.Value { return x }},
	}
}

// ---------------------------------------------------------------------------------------------
// methods (AttrNames)

func methodCandidates(kind string) []mutator {
	x := freshColl(kind)
	names := x.(starlark.HasAttrs).AttrNames()
	sort.Strings(names)
	pool := argPool()
	type argv struct {
		specs []argSpec
		kw    bool
	}
	var tuples []argv
	tuples = append(tuples, argv{})
	for _, a := range pool {
		tuples = append(tuples, argv{specs: []argSpec{a}})
	}
	for _, a := range pool {
		for _, b := range pool {
			tuples = append(tuples, argv{specs: []argSpec{a, b}})
		}
	}
	tuples = append(tuples, argv{kw: true})
	var out []mutator
	for _, n := range names {
		for _, av := range tuples {
			n, av := n, av
			var parts []string
			for _, s := range av.specs {
				parts = append(parts, s.name)
			}
			if av.kw {
				parts = append(parts, "zz=1")
			}
			site := kind + "." + n
			ar := fmt.Sprint(len(av.specs))
			if av.kw {
				ar += "kw"
			}
			out = append(out, mutator{kind: kind, group: "method", site: site, arity: ar,
				name: fmt.Sprintf("%s(%s)", site, strings.Join(parts, ", ")),
				apply: func(th *starlark.Thread, x starlark.Value) error {
					m, err := x.(starlark.HasAttrs).Attr(n)
					if err != nil || m == nil {
						return fmt.Errorf("no attr %s", n)
					}
					args := make(starlark.Tuple, len(av.specs))
					for i, s := range av.specs {
						args[i] = s.get(x)
					}
					var kwargs []starlark.Tuple
					if av.kw {
						kwargs = []starlark.Tuple{{starlark.String("zz"), starlark.MakeInt(1)}}
					}
					_, err = starlark.Call(th, m, args, kwargs)
					return err
				}})
		}
	}
	return out
}

// ---------------------------------------------------------------------------------------------
// Go API (reflection over the exported method set of *List, *Dict, *Set)

var (
	valueType    = reflect.TypeOf((*starlark.Value)(nil)).Elem()
	iteratorType = reflect.TypeOf((*starlark.Iterator)(nil)).Elem()
	iterableType = reflect.TypeOf((*starlark.Iterable)(nil)).Elem()
	errorType    = reflect.TypeOf((*error)(nil)).Elem()
	intType      = reflect.TypeOf(int(0))
	stringType   = reflect.TypeOf("")
)

type goArg struct {
	name string
	get  func(x starlark.Value) reflect.Value
}

func goArgAlternatives(t reflect.Type) []goArg {
	val := func(name string, f func(x starlark.Value) starlark.Value) goArg {
		return goArg{name, func(x starlark.Value) reflect.Value {
			rv := reflect.New(valueType).Elem()
			rv.Set(reflect.ValueOf(f(x)))
			return rv
		}}
	}
	switch t {
	case valueType:
		return []goArg{
			val("99", func(starlark.Value) starlark.Value { return starlark.MakeInt(99) }),
			val("ELEM0", func(x starlark.Value) starlark.Value {
				if e := firstElem(x); e != nil {
					return e
				}
				return starlark.MakeInt(98)
			}),
			val(`"zz"`, func(starlark.Value) starlark.Value { return starlark.String("zz") }),
		}
	case intType:
		// 1, not 0: List.Slice(0, 0, 0) would never terminate (zero step)
		return []goArg{{"1", func(starlark.Value) reflect.Value { return reflect.ValueOf(1) }}}
	case stringType:
		return []goArg{{`"zz"`, func(starlark.Value) reflect.Value { return reflect.ValueOf("zz") }}}
	case iteratorType:
		return []goArg{{"iter((99, 98))", func(starlark.Value) reflect.Value {
			rv := reflect.New(iteratorType).Elem()
			rv.Set(reflect.ValueOf(starlark.Tuple{starlark.MakeInt(99), starlark.MakeInt(98)}.Iterate()))
			return rv
		}}}
	case iterableType:
		return []goArg{{"(99, 98)", func(starlark.Value) reflect.Value {
			rv := reflect.New(iterableType).Elem()
			rv.Set(reflect.ValueOf(starlark.Tuple{starlark.MakeInt(99), starlark.MakeInt(98)}))
			return rv
		}}}
	}
	return nil
}

func goapiCandidates(kind string) []mutator {
	x := freshColl(kind)
	t := reflect.TypeOf(x)
	tname := t.Elem().Name()
	var out []mutator
	for i := 0; i < t.NumMethod(); i++ {
		m := t.Method(i)
		if m.Name == "Freeze" || m.Name == "String" {
			// Freeze is the operation under test, not an attack; String is not cycle-safe for every graph.
			continue
		}
		mt := m.Type
		if mt.IsVariadic() {
			continue
		}
		var alts [][]goArg
		ok := true
		for p := 1; p < mt.NumIn(); p++ {
			a := goArgAlternatives(mt.In(p))
			if a == nil {
				ok = false
				break
			}
			alts = append(alts, a)
		}
		if !ok {
			continue
		}
		errIdx := -1
		for o := 0; o < mt.NumOut(); o++ {
			if mt.Out(o) == errorType {
				errIdx = o
			}
		}
		// cartesian product of the alternatives
		combos := [][]goArg{{}}
		for _, a := range alts {
			var next [][]goArg
			for _, c := range combos {
				for _, g := range a {
					next = append(next, append(append([]goArg{}, c...), g))
				}
			}
			combos = next
		}
		for _, combo := range combos {
			combo := combo
			idx := m.Index
			var parts []string
			for _, g := range combo {
				parts = append(parts, g.name)
			}
			site := "goapi " + tname + "." + m.Name
			out = append(out, mutator{kind: kind, group: "goapi", site: site, arity: fmt.Sprint(len(combo)),
				name: fmt.Sprintf("%s(%s)", site, strings.Join(parts, ", ")),
				apply: func(_ *starlark.Thread, x starlark.Value) error {
					in := make([]reflect.Value, len(combo))
					for i, g := range combo {
						in[i] = g.get(x)
					}
					res := reflect.ValueOf(x).Method(idx).Call(in)
					for _, r := range res {
						// release iterators returned by Iterate so that no lock is left behind
						if r.IsValid() && r.Type() == iteratorType && !r.IsNil() {
							r.Interface().(starlark.Iterator).Done()
						}
					}
					if errIdx >= 0 && !res[errIdx].IsNil() {
						return res[errIdx].Interface().(error)
					}
					if errIdx < 0 {
						return errNoErrorResult
					}
					return nil
				}})
		}
	}
	return out
}

// errNoErrorResult is returned for Go methods that have no error result: such a method cannot
// "fail with an error", so only the unchanged-snapshot half of the oracle applies to it.
var errNoErrorResult = fmt.Errorf("(method has no error result)")

// ---------------------------------------------------------------------------------------------
// Starlark statement forms, compiled once per process; run on the value from a second module.

const stmtSrc = `
def s_setindex0(x): x[0] = 99
def s_setindex_last(x): x[-1] = 98
def s_augindex0(x): x[0] += 1
def s_iadd_list(x): x += [99]
def s_iadd_tuple(x): x += (99,)
def s_iadd_self(x): x += x
def s_extend_self(x): x.extend(x)
def s_alias_append(x):
    y = [x]
    y[0].append(99)
def s_setkey_new(x): x["zz"] = 99
def s_setkey_first(x):
    for k in x.keys():
        x[k] = 97
        break
def s_augkey_first(x):
    for k in x.keys():
        x[k] += 1
        break
def s_ior_dict(x): x |= {"zz": 1}
def s_ior_dict_first(x):
    for k in x.keys():
        x |= {k: 96}
        break
def s_ior_set(x): x |= set([99])
def s_update_self(x): x.update(x)
def s_update_kw(x): x.update(zz = 1)
def s_update_pairs(x): x.update([("zz", 1)])
def s_setfield_a(x): x.a = 99
def s_setfield_b(x): x.b = 99
def s_setfield_items(x): x.items = 99
def s_setfield_lst(x): x.lst = 99
def s_setfield_new(x): x.zz = 99
def s_comprehension_append(x): [x.append(i) for i in (1, 2)]
def s_lambda_add(x): (lambda: x.add(99))()
`

var stmtForms = map[string]string{
	"s_setindex0": "x[0]=v", "s_setindex_last": "x[-1]=v", "s_augindex0": "x[0]+=v", "s_iadd_list": "x+=[v]", "s_iadd_tuple": "x+=(v,)",
	"s_iadd_self": "x+=x", "s_extend_self": "x.extend(x)", "s_alias_append": "[x][0].append(v)", "s_setkey_new": "x[newkey]=v",
	"s_setkey_first": "x[key0]=v", "s_augkey_first": "x[key0]+=v", "s_ior_dict": "x|={newkey:v}", "s_ior_dict_first": "x|={key0:v}", "s_ior_set": "x|=set",
	"s_update_self": "x.update(x)", "s_update_kw": "x.update(k=v)", "s_update_pairs": "x.update(pairs)",
	"s_setfield_a": "x.f=v", "s_setfield_b": "x.f=v", "s_setfield_items": "x.f=v", "s_setfield_lst": "x.f=v", "s_setfield_new": "x.newfield=v",
	"s_comprehension_append": "[x.append(i) for i in ..]", "s_lambda_add": "(lambda: x.add(v))()",
}

var stmtFuncs starlark.StringDict

func stmtNames() []string {
	if stmtFuncs == nil {
		g, err := starlark.ExecFileOptions(sl.AllOptions(), &starlark.Thread{Name: "second-module"}, "second.star", stmtSrc, nil)
		if err != nil {
			panic(err)
		}
		stmtFuncs = g
	}
	names := stmtFuncs.Keys()
	sort.Strings(names)
	return names
}

func stmtMutator(kind, n string) mutator {
	f := stmtFuncs[n]
	site := "stmt " + stmtForms[n]
	return mutator{kind: kind, group: "stmt", site: site, name: site + " (" + n + ")", arity: n,
		apply: func(th *starlark.Thread, x starlark.Value) error {
			_, err := starlark.Call(th, f, starlark.Tuple{x}, nil)
			return err
		}}
}

func stmtCandidates(kind string) []mutator {
	var out []mutator
	for _, n := range stmtNames() {
		out = append(out, stmtMutator(kind, n))
	}
	return out
}

// ---------------------------------------------------------------------------------------------

// discover returns the candidates that change a fresh collection of this kind. At most perSite
// argument templates are kept per (site, number of arguments) so that the sweep stays small while
// every discovered call site is attacked in each arity that has an effect.
func discover(kind string) (eff []mutator, tried int) {
	var cands []mutator
	cands = append(cands, methodCandidates(kind)...)
	cands = append(cands, goapiCandidates(kind)...)
	cands = append(cands, stmtCandidates(kind)...)
	th := &starlark.Thread{Name: "discover"}
	const perSite = 2
	kept := map[string]int{}
	for _, m := range cands {
		tried++
		slot := m.site + "/" + m.arity
		if kept[slot] >= perSite {
			continue
		}
		x := freshColl(kind)
		before := canon.Value(x)
		p := sl.Safe(func() { _ = m.apply(th, x) })
		if p != nil {
			continue
		}
		if canon.Value(x) != before {
			kept[slot]++
			eff = append(eff, m)
		}
	}
	return eff, tried
}

// shallowClone returns an unfrozen container with the same elements as v.
func shallowClone(v starlark.Value) starlark.Value {
	switch v := v.(type) {
	case *starlark.List:
		elems := make([]starlark.Value, v.Len())
		for i := range elems {
			elems[i] = v.Index(i)
		}
		return starlark.NewList(elems)
	case *starlark.Dict:
		d := starlark.NewDict(v.Len())
		for _, it := range v.Items() {
			if err := d.SetKey(it[0], it[1]); err != nil {
				return nil
			}
		}
		return d
	case *starlark.Set:
		s := starlark.NewSet(v.Len())
		it := v.Iterate()
		defer it.Done()
		var e starlark.Value
		for it.Next(&e) {
			if err := s.Insert(e); err != nil {
				return nil
			}
		}
		return s
	}
	return nil
}

// shallowSnap renders the direct content of a container: element identities for reference values,
// canonical text for scalars.
func shallowSnap(v starlark.Value) string {
	var b strings.Builder
	one := func(e starlark.Value) {
		if k, ok := identKey(e); ok {
			fmt.Fprintf(&b, "@%x/%d,", k.p, k.n)
		} else {
			b.WriteString(canon.Value(e))
			b.WriteString(",")
		}
	}
	switch v := v.(type) {
	case *starlark.List:
		for i := 0; i < v.Len(); i++ {
			one(v.Index(i))
		}
	case *starlark.Dict:
		for _, it := range v.Items() {
			one(it[0])
			b.WriteString(":")
			one(it[1])
		}
	case *starlark.Set:
		it := v.Iterate()
		var e starlark.Value
		for it.Next(&e) {
			one(e)
		}
		it.Done()
	}
	return b.String()
}
