// Package c04 monitors property C04: values reachable from a finished module are deeply immutable,
// unreachable values stay mutable, and execution never changes the predeclared environment or the universe.
package c04

import (
	"fmt"
	"reflect"
	"sort"
	"strings"

	sjson "go.starlark.net/lib/json"
	"go.starlark.net/starlark"
	"go.starlark.net/starlarkstruct"
	"go.starlark.net/syntax"

	"verif/internal/canon"
	"verif/internal/driver"
	"verif/internal/sl"
)

func init() {
	driver.Register(&driver.Engine{
		ID: "C04", Level: "exploration",
		Rule: "random graph-building modules as source text (shared/nested/cyclic containers, tuples holding lists, sets of tuples, structs and modules with mutable fields, closures incl. self-referencing and mutually recursive nested defs, mutable parameter defaults in every signature shape, bound methods and closures stored in globals / as dict keys / as set elements, lambdas, comprehensions, host values stored / only read / mutated / stored then rebound / kept in an unreachable local, values handed to a host sink and dropped, a loaded library module whose values are shared, modules that fail or are cancelled by a step limit half way, globals shadowing predeclared and universal names). After ExecFileOptions returns the monitor computes reachability from the returned globals through public accessors only, requires VerifState.frozen on every reachable list/dict/set, attacks every reachable node with every discovered mutator (methods from AttrNames, Go methods by reflection, Starlark statement forms run from a second module) and with the module's own mutating functions, and requires error + unchanged canonical snapshot; unreachable host-held values must be unfrozen and accept mutation; predeclared and Universe are compared by key set and value identity. distinct = distinct generated programs in which at least one reachable container was attacked",
		Assumptions: []string{
			"VerifState reads the real frozen flag of *List/*Dict/*Set (hook)",
			"canon snapshot distinguishes every observable state of the value graph (it descends into function defaults, free variables, receivers and struct fields)",
			"an operation 'would change' a frozen container iff the same operation changes an unfrozen shallow copy holding the same elements",
			"Starlark has no global/nonlocal statement, so a module's functions cannot rebind its globals or captured variables: rebinding through the module's own functions is impossible by construction and is not attacked",
			"values reachable only from dropped temporaries that the host never saw cannot be observed at all",
		},
		Run:         run,
		MinDistinct: 300,
		Finish:      finish,
	})
}

func finish(ev map[string]any) (string, bool) {
	counters, _ := ev["counters"].(map[string]int64)
	cover, _ := ev["cover"].(map[string]map[string]struct{})
	if counters == nil || cover == nil {
		return "no counters/cover", true
	}
	for _, grp := range []string{"edge_kinds_traversed", "edge_kinds_into_container", "edge_kinds_sole_path_to_container"} {
		for _, k := range edgeKinds {
			if grp == "edge_kinds_into_container" && (k == eDictKey || k == eSet) {
				continue // keys and set elements are hashable, so never a list/dict/set themselves
			}
			if _, ok := cover[grp][k]; !ok {
				return fmt.Sprintf("edge kind %s never observed in cover group %s", k, grp), true
			}
		}
	}
	need := []string{"modules_ok", "modules_failed", "modules_cancelled", "modules_with_library", "attempts", "attempts_demanded_and_rejected",
		"attempts_rejected_frozen", "immutable_kind_attempts", "module_function_calls", "module_function_rejected_frozen", "unreachable_checks", "unreachable_sink_checks",
		"unreachable_mutations_accepted", "poke_calls_rejected", "poke_calls_accepted", "host_values_reachable_and_frozen", "shadowing_modules",
		"predeclared_identity_checks", "reachable_containers_on_error_path", "frozen_flag_checks",
		"modules_deriving_from_frozen_lib", "modules_deriving_from_frozen_host-frozen",
		"modules_aliasing_frozen_lib", "modules_aliasing_frozen_host-frozen", "alias_attempts", "alias_attempts_mutation_succeeded", "frozen_input_snapshot_checks"}
	for _, k := range need {
		if counters[k] == 0 {
			return "counter " + k + " is zero: the monitor did not observe what it needs", true
		}
	}
	return "", false
}

// ---------------------------------------------------------------------------------------------
// host environment

type sunkRec struct {
	label string
	v     starlark.Value
}

type hostEnv struct {
	pre    starlark.StringDict
	labels map[string]starlark.Value // path label -> host container
	sunk   []sunkRec
	frozen []root // values the host froze itself before execution

	// frozen inputs of the main module and their canonical snapshot (see checkFrozenInputs)
	inputSnap func() string
	baseline  string
	changed   []fail
	attempts  int
	succeeded int
}

// checkFrozenInputs compares the frozen inputs (host-frozen predeclared values, globals of the
// loaded library module) with their snapshot; a difference is blamed on label.
func (h *hostEnv) checkFrozenInputs(label, what string) {
	if h.inputSnap == nil {
		return
	}
	now := h.inputSnap()
	if now != h.baseline {
		h.changed = append(h.changed, fail{"C04 frozen-input-changed " + label, fmt.Sprintf("%s changed a frozen input of the module: %s", what, firstDiff(h.baseline, now))})
		h.baseline = now
	}
}

func ints(xs ...int) []starlark.Value {
	out := make([]starlark.Value, len(xs))
	for i, x := range xs {
		out[i] = starlark.MakeInt(x)
	}
	return out
}

func newHostEnv() *hostEnv {
	h := &hostEnv{labels: map[string]starlark.Value{}}
	hostA := starlark.NewList(ints(1, 2, 3))
	b0, b1 := starlark.NewList(ints(1)), starlark.NewList(ints(2, 3))
	hostB := starlark.NewList([]starlark.Value{b0, b1})
	ck := starlark.NewList(ints(7))
	hostC := starlark.NewDict(2)
	hostC.SetKey(starlark.String("k"), ck)
	hostC.SetKey(starlark.String("n"), starlark.MakeInt(1))
	hostD := starlark.NewSet(2)
	hostD.Insert(starlark.MakeInt(1))
	hostD.Insert(starlark.MakeInt(2))
	eItems := starlark.NewList(ints(1, 2))
	hostE := starlarkstruct.FromStringDict(starlarkstruct.Default, starlark.StringDict{"items": eItems, "name": starlark.String("e")})
	f0 := starlark.NewList(ints(1))
	f1 := starlark.NewDict(1)
	f1.SetKey(starlark.String("z"), starlark.MakeInt(2))
	hostF := starlark.Tuple{f0, f1}
	mLst := starlark.NewList(ints(4, 5))
	hostM := &starlarkstruct.Module{Name: "hostmod", Members: starlark.StringDict{"lst": mLst, "n": starlark.MakeInt(3)}}
	hostG := starlark.NewList(ints(9))
	hostH := starlark.NewDict(0)
	hostR := starlark.NewList(ints(5))
	hostbm := starlark.NewBuiltin("hostmeth", func(*starlark.Thread, *starlark.Builtin, starlark.Tuple, []starlark.Tuple) (starlark.Value, error) {
		return starlark.None, nil
	}).BindReceiver(hostR)
	hostshadow := starlark.NewList(ints(0))
	h.labels = map[string]starlark.Value{
		"hostA": hostA, "hostB": hostB, "hostB[0]": b0, "hostB[1]": b1, "hostC": hostC, `hostC["k"]`: ck, "hostD": hostD,
		"hostE.items": eItems, "hostF[0]": f0, "hostF[1]": f1, "hostM.lst": mLst, "hostG": hostG, "hostH": hostH, "hostR": hostR, "hostshadow": hostshadow,
	}
	// values frozen by the host before the module runs (as if produced by an earlier module)
	frozL := starlark.NewList([]starlark.Value{starlark.NewList(ints(1)), starlark.MakeInt(2)})
	frozT := starlark.Tuple{starlark.NewList(ints(1)), starlark.String("t")}
	frozD := starlark.NewDict(2)
	frozD.SetKey(starlark.String("k"), starlark.NewList(ints(1)))
	frozD.SetKey(starlark.String("n"), starlark.MakeInt(2))
	frozS := starlark.NewSet(2)
	frozS.Insert(starlark.MakeInt(1))
	frozS.Insert(starlark.Tuple{starlark.MakeInt(2), starlark.String("x")})
	frozE := starlarkstruct.FromStringDict(starlarkstruct.Default, starlark.StringDict{"name": starlark.String("base"), "base_items": starlark.NewList(ints(1))})
	h.frozen = []root{{"frozL", frozL}, {"frozT", frozT}, {"frozD", frozD}, {"frozS", frozS}, {"frozE", frozE}}
	for _, f := range h.frozen {
		f.v.Freeze()
	}
	h.pre = starlark.StringDict{
		"frozL": frozL, "frozT": frozT, "frozD": frozD, "frozS": frozS, "frozE": frozE,
		"hostA": hostA, "hostB": hostB, "hostC": hostC, "hostD": hostD, "hostE": hostE, "hostF": hostF, "hostM": hostM,
		"hostG": hostG, "hostH": hostH, "hostbm": hostbm, "hostshadow": hostshadow,
		"struct": starlark.NewBuiltin("struct", starlarkstruct.Make),
		"module": starlark.NewBuiltin("module", starlarkstruct.MakeModule),
		"json":   sjson.Module,
		// attempt(label, f, k): call f(k), swallow its error, then check that no frozen input changed
		"attempt": starlark.NewBuiltin("attempt", func(th *starlark.Thread, _ *starlark.Builtin, args starlark.Tuple, _ []starlark.Tuple) (starlark.Value, error) {
			if len(args) != 3 {
				return starlark.None, nil
			}
			label, _ := starlark.AsString(args[0])
			res, err := starlark.Call(th, args[1], starlark.Tuple{args[2]}, nil)
			h.attempts++
			if err == nil {
				h.succeeded++
			}
			h.checkFrozenInputs(label, fmt.Sprintf("mutation #%s of the value derived by %s (err=%v)", args[2].String(), label, err))
			if err != nil || res == nil {
				return starlark.None, nil
			}
			return res, nil
		}),
		"sink": starlark.NewBuiltin("sink", func(_ *starlark.Thread, _ *starlark.Builtin, args starlark.Tuple, _ []starlark.Tuple) (starlark.Value, error) {
			if len(args) == 2 {
				if s, ok := args[0].(starlark.String); ok {
					h.sunk = append(h.sunk, sunkRec{string(s), args[1]})
				}
			}
			return starlark.None, nil
		}),
	}
	return h
}

func hostFrozenSnap(h *hostEnv) string {
	d := starlark.StringDict{}
	for _, f := range h.frozen {
		d[f.name] = f.v
	}
	return canon.Globals(d)
}

// identity of a binding's value, for before/after comparison of predeclared and Universe
func identOf(v starlark.Value) any {
	if k, ok := identKey(v); ok {
		return k
	}
	if v != nil && reflect.TypeOf(v).Comparable() {
		return v
	}
	return fmt.Sprintf("%T:%s", v, canon.Value(v))
}

func identSnap(d starlark.StringDict) map[string]any {
	m := make(map[string]any, len(d))
	for k, v := range d {
		m[k] = identOf(v)
	}
	return m
}

func diffSnap(before map[string]any, now starlark.StringDict) string {
	var diffs []string
	for k, v := range now {
		b, ok := before[k]
		if !ok {
			diffs = append(diffs, "added "+k)
		} else if b != identOf(v) {
			diffs = append(diffs, "rebound "+k)
		}
	}
	for k := range before {
		if _, ok := now[k]; !ok {
			diffs = append(diffs, "removed "+k)
		}
	}
	sort.Strings(diffs)
	return strings.Join(diffs, ", ")
}

// ---------------------------------------------------------------------------------------------

type kindMuts struct {
	list, dict, set []mutator
	stmts           []mutator // every statement form, for the immutable kinds
}

func (k *kindMuts) of(kind string) []mutator {
	switch kind {
	case "list":
		return k.list
	case "dict":
		return k.dict
	}
	return k.set
}

type fail struct{ key, what string }

type monitor struct {
	c     *driver.Ctx
	km    *kindMuts
	p     *program
	opts  *syntax.FileOptions
	fails []fail
	seen  map[string]bool
}

func (m *monitor) failf(key, format string, args ...any) {
	if m.seen[key] {
		return
	}
	m.seen[key] = true
	m.fails = append(m.fails, fail{key, fmt.Sprintf(format, args...)})
}

func isFrozenErr(err error) bool { return err != nil && strings.Contains(err.Error(), "frozen") }

func run(c *driver.Ctx) {
	km := &kindMuts{}
	for _, k := range []string{"list", "dict", "set"} {
		eff, tried := discover(k)
		if c.Shard == 0 { // identical in every shard; counted once
			c.Count("discovery_candidates_tried", tried)
			c.Count("discovery_effective_"+k, len(eff))
		}
		switch k {
		case "list":
			km.list = eff
		case "dict":
			km.dict = eff
		default:
			km.set = eff
		}
		for _, m := range eff {
			c.Cover("mutator_sites_"+k, m.site)
			c.Cover("mutator_templates", m.name)
		}
	}
	km.stmts = stmtCandidates("immutable")
	// sanity: discovery must have found the well-known mutators, otherwise the monitor is blind
	for _, need := range []string{"list.append", "list.clear", "list.extend", "list.insert", "list.pop", "list.remove",
		"dict.clear", "dict.pop", "dict.popitem", "dict.setdefault", "dict.update",
		"set.add", "set.clear", "set.discard", "set.pop", "set.remove", "set.update",
		"goapi List.Append", "goapi List.SetIndex", "goapi List.Clear", "goapi Dict.SetKey", "goapi Dict.Delete", "goapi Dict.Clear",
		"goapi Set.Insert", "goapi Set.Delete", "goapi Set.Clear",
		"stmt x[0]=v", "stmt x+=[v]", "stmt x|={newkey:v}", "stmt x[newkey]=v", "stmt x.extend(x)", "stmt x.update(k=v)"} {
		found := false
		for _, k := range []string{"list", "dict", "set"} {
			for _, m := range km.of(k) {
				if m.site == need {
					found = true
				}
			}
		}
		if !found {
			c.Inconclusive("mutator discovery did not find %s", need)
		}
	}

	probeEdgeKinds()
	n := c.Pick(500, 50000)
	for i := 0; i < n; i++ {
		if !c.Take() {
			continue
		}
		r := c.Rand()
		p := generate(r)
		c.Note("key=C04 crash module-exec-or-freeze\n%s\n--- lib.star\n%s", p.main.src, libSrc(p))
		m := &monitor{c: c, km: km, p: p, seen: map[string]bool{}}
		m.runModule()
	}
}

func libSrc(p *program) string {
	if p.lib == nil {
		return ""
	}
	return p.lib.src
}

type execUnit struct {
	u       *unit
	globals starlark.StringDict
	err     error
}

func (m *monitor) runModule() {
	c, p := m.c, m.p
	opts := sl.AllOptions()
	opts.LoadBindsGlobally = p.loadBindsGlobally
	m.opts = opts
	env := newHostEnv()
	preSnap := identSnap(env.pre)
	uniSnap := identSnap(starlark.Universe)

	var units []*execUnit
	var libUnit *execUnit
	th := &starlark.Thread{Name: "main"}
	th.Load = func(_ *starlark.Thread, module string) (starlark.StringDict, error) {
		if module != "lib.star" || p.lib == nil {
			return nil, fmt.Errorf("no such module %s", module)
		}
		if libUnit == nil {
			lt := &starlark.Thread{Name: "lib"}
			lt.SetMaxExecutionSteps(1 << 20)
			g, err := starlark.ExecFileOptions(opts, lt, "lib.star", p.lib.src, env.pre)
			libUnit = &execUnit{p.lib, g, err}
			// from now on the library's globals are frozen inputs of the main module
			env.inputSnap = func() string { return hostFrozenSnap(env) + "lib.star\n" + canon.Globals(g) }
			env.baseline = env.inputSnap()
		}
		return libUnit.globals, libUnit.err
	}
	env.inputSnap = func() string { return hostFrozenSnap(env) }
	env.baseline = env.inputSnap()
	if p.maxSteps > 0 {
		th.SetMaxExecutionSteps(p.maxSteps)
	} else {
		th.SetMaxExecutionSteps(1 << 20)
	}
	var g starlark.StringDict
	var err error
	pn := sl.Safe(func() { g, err = starlark.ExecFileOptions(opts, th, "main.star", p.main.src, env.pre) })
	detail := map[string]any{"main.star": p.main.src, "lib.star": libSrc(p), "options": sl.OptionsString(opts), "max_steps": p.maxSteps, "host_usage": p.hostUsage}
	if pn != nil {
		// a frozen input already seen changing explains the panic better than the panic itself
		for _, f := range env.changed {
			c.Violation(f.key, f.what, detail)
		}
		c.Violation("C04 panic module-exec-or-freeze", fmt.Sprintf("Go panic while executing/freezing the module: %v at %s", pn.Value, pn.TopFrame()), detail)
		c.Eval(1)
		return
	}
	outcome := "ok"
	switch {
	case err == nil:
	case strings.Contains(err.Error(), "cancelled"):
		outcome = "cancelled"
	default:
		outcome = "failed"
		if _, isEval := err.(*starlark.EvalError); !isEval {
			outcome = "rejected" // syntax / resolve error: nothing was executed
		}
	}
	detail["outcome"] = outcome
	if err != nil {
		detail["error"] = err.Error()
	}
	c.Count("modules_"+outcome, 1)
	if outcome == "rejected" {
		// a generator slip, not an execution: make it visible
		c.Cover("rejected_programs", driver.Truncate(err.Error(), 120))
	}
	if libUnit != nil {
		units = append(units, libUnit)
		c.Count("modules_with_library", 1)
		if libUnit.err != nil {
			c.Count("library_failed", 1)
		}
	}
	units = append(units, &execUnit{p.main, g, err})
	for f := range p.main.features {
		c.Cover("program_features", f)
		if strings.HasPrefix(f, "shadow-") {
			c.Count("shadowing_modules", 1)
		}
		if strings.HasPrefix(f, "alias-source:") {
			c.Count("modules_aliasing_frozen_"+strings.TrimPrefix(f, "alias-source:"), 1)
		}
		if strings.HasPrefix(f, "derive-source:") {
			c.Count("modules_deriving_from_frozen_"+strings.TrimPrefix(f, "derive-source:"), 1)
		}
	}

	// ---- frozen inputs unchanged by whatever main did to values derived from them
	env.checkFrozenInputs("unattributed", "execution of main.star ("+outcome+")")
	c.Count("frozen_input_snapshot_checks", env.attempts+1)
	c.Count("alias_attempts", env.attempts)
	c.Count("alias_attempts_mutation_succeeded", env.succeeded)
	c.Eval(env.attempts)
	for _, f := range env.changed {
		m.failf(f.key, "%s", f.what)
	}
	env.changed = nil

	// ---- predeclared / universe unchanged
	c.Count("predeclared_identity_checks", 1)
	if d := diffSnap(preSnap, env.pre); d != "" {
		m.failf("C04 predeclared-changed", "the predeclared dict changed during execution: %s", d)
	}
	if d := diffSnap(uniSnap, starlark.Universe); d != "" {
		m.failf("C04 universe-changed", "starlark.Universe changed during execution: %s", d)
	}

	// ---- reachability from the globals of every finished module
	var roots []root
	for _, eu := range units {
		names := eu.globals.Keys()
		sort.Strings(names)
		for _, n := range names {
			roots = append(roots, root{eu.u.file + ":" + n, eu.globals[n]})
		}
	}
	R := reach(roots, "")
	containers := 0
	for i, nd := range R.nodes {
		if nd.parent >= 0 {
			c.Cover("edge_kinds_traversed", nd.edge)
			if isContainer(nd.v) {
				c.Cover("edge_kinds_into_container", nd.edge)
			}
		}
		if isContainer(nd.v) {
			containers++
		}
		_ = i
	}
	// Edge kinds that demonstrably work in this module: some container whose every path from the
	// globals uses an edge of that kind is frozen. Used only to name the culprit in not-frozen keys.
	works := map[string]bool{}
	for _, ek := range edgeKinds {
		R2 := reach(roots, ek)
		if len(R2.nodes) == len(R.nodes) {
			continue
		}
		sole := false
		for _, nd := range R.nodes {
			if isContainer(nd.v) && !R2.has(nd.v) {
				sole = true
				if frozenFlag(nd.v) {
					works[ek] = true
				}
			}
		}
		if sole {
			c.Cover("edge_kinds_sole_path_to_container", ek)
		}
	}
	for _, nd := range R.nodes {
		if nd.parent < 0 && isContainer(nd.v) && frozenFlag(nd.v) {
			works[globalOf(nd.label)] = true // "global@<file>": the freeze of that module's globals happened
		}
	}
	if outcome != "ok" {
		c.Count("reachable_containers_on_error_path", containers)
	}

	snapAll := func() string {
		var b strings.Builder
		for _, eu := range units {
			b.WriteString(eu.u.file + "\n" + canon.Globals(eu.globals))
		}
		return b.String()
	}
	globalsBefore := snapAll()

	// ---- frozen flags
	unfrozen := map[int]bool{}
	type suspect struct {
		node  int
		kinds []string
	}
	var suspects []suspect
	for i, nd := range R.nodes {
		if !isContainer(nd.v) {
			continue
		}
		c.Count("frozen_flag_checks", 1)
		if frozenFlag(nd.v) {
			continue
		}
		unfrozen[i] = true
		chain, frontier := R.unfrozenChain(i)
		if !frontier {
			continue
		}
		// The culprit is one of the edge kinds between the nearest frozen container (or the global)
		// and this node. Kinds seen working in this module are set aside first, then (only to
		// break ties) kinds seen working in the probe module.
		var all []string
		rootIdx := i
		for R.nodes[rootIdx].parent >= 0 {
			rootIdx = R.nodes[rootIdx].parent
		}
		for _, k := range chain {
			if k == eGlobal {
				k = globalOf(R.nodes[rootIdx].label)
			}
			if !contains(all, k) {
				all = append(all, k)
			}
		}
		minus := func(l []string, ex map[string]bool) []string {
			var out []string
			for _, k := range l {
				if !ex[k] {
					out = append(out, k)
				}
			}
			return out
		}
		ks := minus(all, works)
		if len(ks) == 0 {
			// every kind on the path works somewhere in this module (partial breakage). The freeze of
			// a module's globals visits every global alike, so the global hop is the least suspect.
			for _, k := range all {
				if !strings.HasPrefix(k, eGlobal+"@") {
					ks = append(ks, k)
				}
			}
			if len(ks) == 0 {
				ks = all
			}
		}
		if len(ks) > 1 {
			ever := map[string]bool{}
			for _, k := range ks {
				ever[k] = worksEver[strings.SplitN(k, "@", 2)[0]]
			}
			if k2 := minus(ks, ever); len(k2) > 0 {
				ks = k2
			}
		}
		suspects = append(suspects, suspect{i, ks})
	}
	// smallest set of edge kinds that explains every unfrozen node (greedy hitting set)
	for len(suspects) > 0 {
		count := map[string]int{}
		for _, sp := range suspects {
			for _, k := range sp.kinds {
				count[k]++
			}
		}
		best := ""
		var order []string
		for k := range count {
			if strings.HasPrefix(k, eGlobal) {
				order = append(order, k)
			}
		}
		sort.Strings(order)
		for _, k := range append(order, edgeKinds...) {
			if count[k] > count[best] {
				best = k
			}
		}
		var rest []suspect
		first := -1
		for _, sp := range suspects {
			if contains(sp.kinds, best) {
				if first < 0 {
					first = sp.node
				}
			} else {
				rest = append(rest, sp)
			}
		}
		nd := R.nodes[first]
		m.failf("C04 not-frozen "+strings.SplitN(best, "@", 2)[0], "after the module returned (%s) the %s at %s is reachable from the globals but not frozen (%d such nodes explained by edge kind %s)", outcome, nd.v.Type(), R.path(first), len(suspects)-len(rest), best)
		suspects = rest
	}
	rootCauseReported := len(unfrozen) > 0

	// ---- attack every reachable node
	ath := &starlark.Thread{Name: "second-module"}
	attacked := 0
	for i, nd := range R.nodes {
		if unfrozen[i] {
			c.Count("sweeps_skipped_unfrozen_node", 1)
			continue
		}
		switch nd.v.(type) {
		case *starlark.List, *starlark.Dict, *starlark.Set:
			m.sweep(ath, R, i)
			attacked++
		case starlark.Tuple, *starlarkstruct.Struct, *starlarkstruct.Module:
			m.sweepImmutable(ath, R, i)
		}
	}
	for _, nd := range R.nodes {
		if isContainer(nd.v) {
			for lbl, hv := range env.labels {
				if hv == nd.v {
					c.Count("host_values_reachable_and_frozen", 1)
					c.Cover("host_values_reachable", lbl+" "+p.hostUsage[topOf(lbl)])
				}
			}
		}
	}

	// ---- the module's own mutating functions
	for _, eu := range units {
		for _, mf := range eu.u.mutfns {
			v, ok := eu.globals[mf.need]
			if !ok {
				c.Count("module_function_absent", 1)
				continue
			}
			if _, isC := v.(starlark.Callable); !isC && !isHolder(v) {
				c.Count("module_function_absent", 1)
				continue
			}
			before := snapAll()
			ct := &starlark.Thread{Name: "later-call"}
			ct.SetMaxExecutionSteps(100000)
			var cerr error
			pn := sl.Safe(func() { _, cerr = starlark.EvalOptions(opts, ct, "later.star", mf.expr, eu.globals) })
			c.Count("module_function_calls", 1)
			c.Eval(1)
			if pn != nil {
				m.failf("C04 panic module-function "+mf.site, "calling %s of %s after it finished panicked: %v at %s", mf.expr, eu.u.file, pn.Value, pn.TopFrame())
				continue
			}
			after := snapAll()
			switch {
			case rootCauseReported && (cerr == nil || after != before):
				// the state this function mutates was left unfrozen: already reported as not-frozen
				c.Count("secondary_effects_of_unfrozen_nodes", 1)
			case cerr == nil:
				m.failf("C04 mutation-allowed "+mf.site, "%s (a function of %s, shape %s, that applies %s to state reachable from its globals) succeeded after the module finished (%s); changed=%v", mf.expr, eu.u.file, mf.pattern, mf.site, outcome, after != before)
			case after != before:
				m.failf("C04 changed globals via module-function "+mf.site, "%s (shape %s) changed state reachable from the globals of a finished module (err=%v): %s", mf.expr, mf.pattern, cerr, firstDiff(before, after))
			}
			if isFrozenErr(cerr) {
				c.Count("module_function_rejected_frozen", 1)
				c.Cover("module_function_patterns_rejected_frozen", mf.pattern)
			} else if cerr != nil {
				c.Count("module_function_rejected_other", 1)
				if outcome == "ok" && (eu.err == nil) {
					c.Count("module_function_rejected_other_in_ok_module", 1)
					c.Cover("module_function_other_errors", mf.pattern+": "+driver.Truncate(cerr.Error(), 100))
				}
			}
		}
	}
	if after := snapAll(); after != globalsBefore && len(m.fails) == 0 {
		// catch-all net: only when no specific cause was identified above
		m.failf("C04 changed globals", "the state reachable from the globals changed while it was attacked: %s", firstDiff(globalsBefore, after))
	}

	// ---- unreachable host-held values must still be mutable
	var hroots []root
	for _, hs := range hostShapes {
		hroots = append(hroots, root{hs.name, env.pre[hs.name]})
	}
	for i, s := range env.sunk {
		hroots = append(hroots, root{fmt.Sprintf("sink#%d %s", i, s.label), s.v})
	}
	// poke functions first (they run module code against host values)
	for _, pk := range p.main.pokes {
		fn, ok := g[pk.need]
		if !ok {
			continue
		}
		if _, isC := fn.(starlark.Callable); !isC {
			continue
		}
		// the container that the call will mutate, resolved now (the module may have rearranged the host value)
		target, terr := starlark.EvalOptions(opts, &starlark.Thread{Name: "resolve-target"}, "target.star", pk.target, env.pre)
		if terr != nil || !isContainer(target) {
			c.Count("poke_target_unresolved", 1)
			continue
		}
		reachable := R.has(target)
		before := canon.Value(target)
		ct := &starlark.Thread{Name: "later-call"}
		ct.SetMaxExecutionSteps(100000)
		var cerr error
		pn := sl.Safe(func() { _, cerr = starlark.EvalOptions(opts, ct, "later.star", pk.expr, g) })
		c.Eval(1)
		if pn != nil {
			m.failf("C04 panic module-function poke", "%s panicked: %v", pk.expr, pn.Value)
			continue
		}
		if reachable && rootCauseReported && !frozenFlag(target) {
			c.Count("secondary_effects_of_unfrozen_nodes", 1)
		} else if reachable {
			c.Count("poke_calls_rejected", 1)
			if cerr == nil {
				m.failf("C04 mutation-allowed module-function host-value", "%s mutated the host value %s although it is reachable from the globals", pk.expr, pk.target)
			}
			if cerr != nil && canon.Value(target) != before {
				m.failf("C04 changed host-value via module-function", "%s changed the reachable host value %s", pk.expr, pk.target)
			}
		} else {
			if cerr != nil {
				m.failf("C04 unreachable-frozen predeclared-poked", "%s failed although the host value %s is not reachable from the globals of the finished module: %v", pk.expr, pk.target, cerr)
			} else {
				c.Count("poke_calls_accepted", 1)
			}
		}
	}
	H := reach(hroots, "")
	preFrozen := reach(env.frozen, "") // frozen by the host itself: not evidence of anything
	for i, nd := range H.nodes {
		if !isContainer(nd.v) || R.has(nd.v) {
			continue
		}
		if preFrozen.has(nd.v) {
			c.Count("host_frozen_values_skipped", 1)
			continue
		}
		j := i
		for H.nodes[j].parent >= 0 {
			j = H.nodes[j].parent
		}
		top := H.nodes[j].label
		how := "predeclared-" + p.hostUsage[top]
		if strings.HasPrefix(top, "sink#") {
			how = "sink-" + top[strings.Index(top, " ")+1:]
			c.Count("unreachable_sink_checks", 1)
		}
		c.Count("unreachable_checks", 1)
		c.Cover("unreachable_kinds_checked", how)
		c.Eval(1)
		if frozenFlag(nd.v) {
			m.failf("C04 unreachable-frozen "+how, "the %s at %s is not reachable from the globals of the finished module (%s) but is frozen", nd.v.Type(), H.path(i), outcome)
			continue
		}
		var merr error
		before := shallowSnap(nd.v)
		switch x := nd.v.(type) {
		case *starlark.List:
			merr = x.Append(starlark.MakeInt(424242))
		case *starlark.Dict:
			merr = x.SetKey(starlark.String("k424242"), starlark.MakeInt(1))
		case *starlark.Set:
			merr = x.Insert(starlark.MakeInt(424242))
		}
		if merr != nil || shallowSnap(nd.v) == before {
			m.failf("C04 unreachable-frozen "+how, "the %s at %s is not reachable from the globals of the finished module (%s) but refuses mutation: %v", nd.v.Type(), H.path(i), outcome, merr)
		} else {
			c.Count("unreachable_mutations_accepted", 1)
		}
	}
	env.checkFrozenInputs("by-later-attack", "the attacks / later calls after the module finished")
	if len(m.fails) == 0 { // catch-all net: any specific cause found above already explains it
		for _, f := range env.changed {
			m.failf(f.key, "%s", f.what)
		}
	}
	// the attacks and later calls must not have touched the environment either
	if d := diffSnap(preSnap, env.pre); d != "" {
		m.failf("C04 predeclared-changed", "the predeclared dict changed after execution: %s", d)
	}
	if d := diffSnap(uniSnap, starlark.Universe); d != "" {
		m.failf("C04 universe-changed", "starlark.Universe changed after execution: %s", d)
	}

	if attacked > 0 {
		c.Distinct(p.main.src + "\x00" + libSrc(p))
	}
	if c.WantSample() && attacked > 0 {
		c.Sample(map[string]any{"main.star": p.main.src, "lib.star": libSrc(p), "outcome": outcome, "reachable_nodes": len(R.nodes), "reachable_containers": containers,
			"host_usage": p.hostUsage, "sunk_values": len(env.sunk), "max_steps": p.maxSteps})
	}
	for _, f := range m.fails {
		c.Violation(f.key, f.what, detail)
	}
}

// Edge kinds seen working in a fixed probe module executed once per process: for each kind, a
// list that is reachable only through an edge of that kind ended up frozen. This never decides a
// verdict; it only helps to name the culprit edge kind in "not-frozen" keys.
var worksEver = map[string]bool{}

const probeSrc = `
def mk():
    s = [1]
    def f():
        return s
    return f
p_free = mk()
def p_default(a = [1]):
    return a
p_recv = [1].append
p_tuple = ([1],)
p_list = [[1]]
p_dictval = {"a": [1]}
p_dictkey = {mk(): 1}
p_dictkey2 = {[1].append: 1}
p_set = set([mk()])
p_set2 = set([[1].append])
p_struct = struct(a = [1])
p_module = module("m", a = [1])
`

func probeEdgeKinds() {
	env := newHostEnv()
	var g starlark.StringDict
	if p := sl.Safe(func() {
		g, _ = starlark.ExecFileOptions(sl.AllOptions(), &starlark.Thread{Name: "probe"}, "probe.star", probeSrc, env.pre)
	}); p != nil {
		return
	}
	var roots []root
	for _, n := range g.Keys() {
		roots = append(roots, root{n, g[n]})
	}
	R := reach(roots, "")
	for _, ek := range edgeKinds {
		R2 := reach(roots, ek)
		for _, nd := range R.nodes {
			if isContainer(nd.v) && !R2.has(nd.v) && frozenFlag(nd.v) {
				worksEver[ek] = true
			}
		}
	}
	for _, nd := range R.nodes {
		if nd.parent < 0 && isContainer(nd.v) && frozenFlag(nd.v) {
			worksEver[eGlobal] = true
		}
	}
}

// globalOf maps a root label "file:name" to the pseudo edge kind "global@file".
func globalOf(rootLabel string) string {
	return eGlobal + "@" + strings.SplitN(rootLabel, ":", 2)[0]
}

func contains(l []string, s string) bool {
	for _, x := range l {
		if x == s {
			return true
		}
	}
	return false
}

func topOf(label string) string {
	for i, ch := range label {
		if ch == '[' || ch == '.' {
			return label[:i]
		}
	}
	if label == "hostR" {
		return "hostbm"
	}
	return label
}

// isHolder reports whether v is a non-callable value through which a module function is called
// (struct of closures, tuple of closures, dict/set keyed by closures).
func isHolder(v starlark.Value) bool {
	switch v.(type) {
	case *starlarkstruct.Struct, starlark.Tuple, *starlark.Dict, *starlark.Set:
		return true
	}
	return false
}

func firstDiff(a, b string) string {
	i := 0
	for i < len(a) && i < len(b) && a[i] == b[i] {
		i++
	}
	lo := i - 60
	if lo < 0 {
		lo = 0
	}
	cut := func(s string) string {
		hi := i + 60
		if hi > len(s) {
			hi = len(s)
		}
		if lo > len(s) {
			return ""
		}
		return s[lo:hi]
	}
	return fmt.Sprintf("…%s… -> …%s…", cut(a), cut(b))
}

// sweep attacks one frozen container with every discovered mutator of its kind.
func (m *monitor) sweep(th *starlark.Thread, R *graph, i int) {
	c := m.c
	x := R.nodes[i].v
	kind := kindOf(x)
	before := canon.Value(x)
	for _, mu := range m.km.of(kind) {
		// would the operation change an unfrozen container with the same content?
		demand := false
		if cl := shallowClone(x); cl != nil {
			cb := shallowSnap(cl)
			if p := sl.Safe(func() { _ = mu.apply(th, cl) }); p == nil && shallowSnap(cl) != cb {
				demand = true
			}
		}
		var err error
		p := sl.Safe(func() { err = mu.apply(th, x) })
		c.Count("attempts", 1)
		c.Eval(1)
		if p != nil {
			m.failf("C04 panic "+mu.site, "%s on the frozen %s at %s panicked: %v at %s", mu.name, kind, R.path(i), p.Value, p.TopFrame())
			continue
		}
		after := canon.Value(x)
		if demand {
			if err == nil {
				m.failf("C04 mutation-allowed "+mu.site, "%s returned no error on the frozen %s at %s", mu.name, kind, R.path(i))
			} else {
				c.Count("attempts_demanded_and_rejected", 1)
			}
		} else {
			c.Count("attempts_noop_on_this_content", 1)
		}
		if isFrozenErr(err) {
			c.Count("attempts_rejected_frozen", 1)
			c.Cover("sites_rejected_frozen", mu.site)
		}
		if after != before {
			if !(demand && err == nil) { // otherwise already reported as mutation-allowed
				m.failf("C04 changed "+kind+" via "+mu.site, "%s changed the frozen %s at %s (err=%v): %s", mu.name, kind, R.path(i), err, firstDiff(before, after))
			}
			before = after
		}
	}
}

// sweepImmutable runs the statement forms against tuples, structs and modules: nothing may change,
// and field / element assignment must fail.
func (m *monitor) sweepImmutable(th *starlark.Thread, R *graph, i int) {
	c := m.c
	x := R.nodes[i].v
	tname := x.Type()
	before := canon.Value(x)
	if mod, ok := x.(*starlarkstruct.Module); ok {
		before += memberSnap(mod)
	}
	for _, mu := range m.km.stmts {
		mustFail := false
		switch x := x.(type) {
		case starlark.Tuple:
			mustFail = strings.HasPrefix(mu.arity, "s_setindex") && len(x) > 0
		case *starlarkstruct.Struct, *starlarkstruct.Module:
			mustFail = strings.HasPrefix(mu.arity, "s_setfield")
		}
		var err error
		p := sl.Safe(func() { err = mu.apply(th, x) })
		c.Count("immutable_kind_attempts", 1)
		c.Eval(1)
		if p != nil {
			m.failf("C04 panic "+mu.site+" "+tname, "%s on the %s at %s panicked: %v", mu.name, tname, R.path(i), p.Value)
			continue
		}
		if mustFail && err == nil {
			m.failf("C04 mutation-allowed "+tname+" "+mu.site, "%s returned no error on the %s at %s", mu.name, tname, R.path(i))
		}
		after := canon.Value(x)
		if mod, ok := x.(*starlarkstruct.Module); ok {
			after += memberSnap(mod)
		}
		if after != before {
			m.failf("C04 changed "+tname+" via "+mu.site, "%s changed the %s at %s: %s", mu.name, tname, R.path(i), firstDiff(before, after))
			before = after
		}
	}
}

// memberSnap renders the members of a module (canon prints only its name).
func memberSnap(mod *starlarkstruct.Module) string {
	var b strings.Builder
	for _, n := range mod.Members.Keys() {
		fmt.Fprintf(&b, " %s=%s", n, canon.Value(mod.Members[n]))
	}
	return b.String()
}
