package c04

import (
	"fmt"
	"reflect"
	"strings"
	"unsafe"

	"go.starlark.net/starlark"
	"go.starlark.net/starlarkstruct"
)

// Edge kinds by which the monitor computes reachability, through public accessors only.
const (
	eGlobal  = "global"
	eList    = "list-elem"
	eTuple   = "tuple-elem"
	eDictKey = "dict-key"
	eDictVal = "dict-value"
	eSet     = "set-elem"
	eField   = "struct-field"
	eMember  = "module-member"
	eDefault = "param-default"
	eFree    = "freevar"
	eRecv    = "receiver"
)

// The property names 8 kinds (list, tuple, dict, set elements; struct fields; parameter defaults;
// closure variables; bound-method receivers); dict keys and values are tracked separately and
// module members are added, giving 10 tracked kinds.
var edgeKinds = []string{eList, eTuple, eDictKey, eDictVal, eSet, eField, eMember, eDefault, eFree, eRecv}

// ident is the identity of a reference value (pointer, or data pointer + length for tuples).
type ident struct {
	p uintptr
	n int
}

// identKey returns the identity of values that can have out-edges; ok=false for scalars.
func identKey(v starlark.Value) (ident, bool) {
	switch v := v.(type) {
	case *starlark.List, *starlark.Dict, *starlark.Set, *starlark.Function, *starlark.Builtin, *starlarkstruct.Struct, *starlarkstruct.Module:
		return ident{reflect.ValueOf(v).Pointer(), -1}, true
	case starlark.Tuple:
		if len(v) == 0 {
			return ident{}, false
		}
		return ident{uintptr(unsafe.Pointer(unsafe.SliceData(v))), len(v)}, true
	}
	return ident{}, false
}

type child struct {
	edge  string
	label string
	v     starlark.Value
}

// children enumerates the out-edges of v using public accessors only.
func children(v starlark.Value) []child {
	var out []child
	switch v := v.(type) {
	case *starlark.List:
		for i := 0; i < v.Len(); i++ {
			out = append(out, child{eList, fmt.Sprintf("[%d]", i), v.Index(i)})
		}
	case starlark.Tuple:
		for i, e := range v {
			out = append(out, child{eTuple, fmt.Sprintf("[%d]", i), e})
		}
	case *starlark.Dict:
		for i, it := range v.Items() {
			out = append(out, child{eDictKey, fmt.Sprintf("key#%d", i), it[0]})
			out = append(out, child{eDictVal, fmt.Sprintf("value#%d", i), it[1]})
		}
	case *starlark.Set:
		it := v.Iterate()
		var e starlark.Value
		for i := 0; it.Next(&e); i++ {
			out = append(out, child{eSet, fmt.Sprintf("elem#%d", i), e})
		}
		it.Done()
	case *starlarkstruct.Struct:
		for _, n := range v.AttrNames() {
			if a, err := v.Attr(n); err == nil && a != nil {
				out = append(out, child{eField, "." + n, a})
			}
		}
	case *starlarkstruct.Module:
		for _, n := range v.Members.Keys() {
			out = append(out, child{eMember, "." + n, v.Members[n]})
		}
	case *starlark.Function:
		for i := 0; i < v.NumParams(); i++ {
			if d := v.ParamDefault(i); d != nil {
				name, _ := v.Param(i)
				out = append(out, child{eDefault, "default(" + name + ")", d})
			}
		}
		for i := 0; i < v.NumFreeVars(); i++ {
			b, val := v.FreeVar(i)
			if val != nil {
				out = append(out, child{eFree, "free(" + b.Name + ")", val})
			}
		}
	case *starlark.Builtin:
		if r := v.Receiver(); r != nil {
			out = append(out, child{eRecv, "receiver", r})
		}
	}
	return out
}

type node struct {
	v      starlark.Value
	parent int // -1 for values bound directly to a global
	edge   string
	label  string
}

type graph struct {
	nodes []node
	index map[ident]int
}

type root struct {
	name string
	v    starlark.Value
}

// reach computes the values reachable from roots (breadth first, so parent chains are shortest
// paths), not following edges of kind skip.
func reach(roots []root, skip string) *graph {
	g := &graph{index: map[ident]int{}}
	add := func(v starlark.Value, parent int, edge, label string) {
		k, ok := identKey(v)
		if !ok {
			return
		}
		if _, seen := g.index[k]; seen {
			return
		}
		g.index[k] = len(g.nodes)
		g.nodes = append(g.nodes, node{v, parent, edge, label})
	}
	for _, r := range roots {
		add(r.v, -1, eGlobal, r.name)
	}
	for i := 0; i < len(g.nodes); i++ {
		for _, c := range children(g.nodes[i].v) {
			if c.edge == skip {
				continue
			}
			add(c.v, i, c.edge, c.label)
		}
	}
	return g
}

func (g *graph) has(v starlark.Value) bool {
	k, ok := identKey(v)
	if !ok {
		return false
	}
	_, in := g.index[k]
	return in
}

// path renders the access path of node i from its global.
func (g *graph) path(i int) string {
	var parts []string
	for ; i >= 0; i = g.nodes[i].parent {
		n := g.nodes[i]
		if n.parent < 0 {
			parts = append(parts, n.label)
		} else {
			parts = append(parts, n.edge+" "+n.label)
		}
	}
	for l, r := 0, len(parts)-1; l < r; l, r = l+1, r-1 {
		parts[l], parts[r] = parts[r], parts[l]
	}
	return strings.Join(parts, " > ")
}

func isContainer(v starlark.Value) bool { return kindOf(v) != "" }

func frozenFlag(v starlark.Value) bool {
	f, _, _ := starlark.VerifState(v)
	return f
}

// unfrozenChain returns, for an unfrozen container node i, the edge kinds from its nearest
// container ancestor that is frozen (or from its global) down to i, and whether i is a frontier
// node (no unfrozen container strictly above it on its path).
func (g *graph) unfrozenChain(i int) (chain []string, frontier bool) {
	frontier = true
	for j := i; j >= 0; j = g.nodes[j].parent {
		n := g.nodes[j]
		chain = append(chain, n.edge)
		p := n.parent
		if p < 0 {
			break
		}
		if isContainer(g.nodes[p].v) {
			if frozenFlag(g.nodes[p].v) {
				break
			}
			frontier = false
			break
		}
	}
	for l, r := 0, len(chain)-1; l < r; l, r = l+1, r-1 {
		chain[l], chain[r] = chain[r], chain[l]
	}
	return
}
