package c04

import (
	"fmt"
	"math/rand"
	"strings"
)

// Generator of graph-building modules (source text).

type gvar struct {
	name     string
	kind     string // list, dict, set, tuple, struct, module, func, bm, atom
	frozen   bool   // loaded from the library module: already frozen while this module runs
	hashable bool
	keep     bool // never rebound (functions that the monitor calls later, names they refer to)
}

// mutfn is a call into the module's own code that, by construction, attempts to change state that
// is reachable from the module's globals; after the module has finished it must fail.
type mutfn struct {
	need    string // global that must be present (the module may have failed before defining it)
	expr    string // expression evaluated with the module's globals as environment
	pattern string // stable name of the shape
	site    string // the mutating operation it performs, in the vocabulary of the discovered mutator sites
}

// pokefn is a module function that mutates a host-supplied value; it must fail iff that value is
// reachable from the globals, and succeed otherwise.
type pokefn struct {
	need   string
	expr   string
	target string // expression (over the predeclared names) yielding the container that the call mutates
}

type unit struct {
	file     string
	src      string
	mutfns   []mutfn
	pokes    []pokefn
	exports  []gvar
	features map[string]bool
}

type program struct {
	main, lib         *unit
	loadBindsGlobally bool
	maxSteps          uint64
	hostUsage         map[string]string
}

type hostShape struct {
	name, shape string
	read        string // expression that only reads
	mutate      string // statement that mutates without storing
	target      string // label of the container that `mutate` changes
	inner       string // expression yielding an inner mutable value ("" = none)
	innerKind   string
}

var hostShapes = []hostShape{
	{"hostA", "list", "len(hostA)", "hostA.append(4)", "hostA", "", ""},
	{"hostB", "list", "len(hostB[1])", "hostB[0].append(5)", "hostB[0]", "hostB[0]", "list"},
	{"hostC", "dict", `hostC["n"]`, `hostC["x"] = 1`, "hostC", `hostC["k"]`, "list"},
	{"hostD", "set", "len(hostD)", "hostD.add(3)", "hostD", "", ""},
	{"hostE", "struct", "hostE.name", "hostE.items.append(3)", "hostE.items", "hostE.items", "list"},
	{"hostF", "tuple", "len(hostF)", `hostF[1]["y"] = 3`, "hostF[1]", "hostF[0]", "list"},
	{"hostM", "module", "hostM.n", "hostM.lst.append(6)", "hostM.lst", "hostM.lst", "list"},
	{"hostG", "list", "hostG[0]", "hostG.append(4)", "hostG", "", ""},
	{"hostH", "dict", "len(hostH)", `hostH["m"] = [1]`, "hostH", "", ""},
	{"hostbm", "bm", "hostbm(1)", "", "", "", ""},
	{"hostshadow", "list", "len(hostshadow)", "hostshadow.append(1)", "hostshadow", "", ""},
}

// universal names that generated code never uses, available for shadowing by globals
var shadowUniversal = []string{"max", "min", "any", "all", "hash", "dir", "print", "getattr", "hasattr", "bytes"}

type gen struct {
	r      *rand.Rand
	prefix string
	lib    bool
	lines  []string
	vars   []gvar
	n      int
	u      *unit
	p      *program
}

func (g *gen) emit(format string, args ...any) {
	g.lines = append(g.lines, fmt.Sprintf(format, args...))
}

func (g *gen) fresh(base string) string {
	g.n++
	return fmt.Sprintf("%s%s%d", g.prefix, base, g.n)
}

func (g *gen) feature(f string) { g.u.features[f] = true }

func (g *gen) reg(name, kind string, hashable bool) {
	g.vars = append(g.vars, gvar{name: name, kind: kind, hashable: hashable})
}

func (g *gen) regKeep(name, kind string, hashable bool) {
	g.vars = append(g.vars, gvar{name: name, kind: kind, hashable: hashable, keep: true})
}

func (g *gen) atom() string {
	switch g.r.Intn(7) {
	case 0:
		return "None"
	case 1:
		return "True"
	case 2:
		return fmt.Sprintf("%q", []string{"s", "t", "uv", ""}[g.r.Intn(4)])
	case 3:
		return fmt.Sprintf("(%d, %q)", g.r.Intn(5), "p")
	default:
		return fmt.Sprint(g.r.Intn(40))
	}
}

// op returns an operand: an atom, a fresh mutable literal, or an existing variable.
func (g *gen) op() string {
	x := g.r.Intn(10)
	switch {
	case x < 3 || len(g.vars) == 0:
		return g.atom()
	case x < 5:
		switch g.r.Intn(4) {
		case 0:
			return fmt.Sprintf("[%s]", g.atom())
		case 1:
			return fmt.Sprintf(`{"q": %s}`, g.atom())
		case 2:
			return fmt.Sprintf("([%s], %s)", g.atom(), g.atom())
		default:
			return fmt.Sprintf("set([%d])", g.r.Intn(9))
		}
	default:
		return g.vars[g.r.Intn(len(g.vars))].name
	}
}

// hop returns a hashable operand.
func (g *gen) hop() string {
	var hs []string
	for _, v := range g.vars {
		if v.hashable {
			hs = append(hs, v.name)
		}
	}
	if len(hs) > 0 && g.r.Intn(3) == 0 {
		return hs[g.r.Intn(len(hs))]
	}
	return g.atom()
}

func (g *gen) pick(frozenOK bool, kinds ...string) (gvar, bool) {
	var cs []gvar
	for _, v := range g.vars {
		if v.frozen && !frozenOK {
			continue
		}
		for _, k := range kinds {
			if v.kind == k {
				cs = append(cs, v)
			}
		}
	}
	if len(cs) == 0 {
		return gvar{}, false
	}
	return cs[g.r.Intn(len(cs))], true
}

func (g *gen) ops(min, max int) string {
	n := min + g.r.Intn(max-min+1)
	var parts []string
	for i := 0; i < n; i++ {
		parts = append(parts, g.op())
	}
	return strings.Join(parts, ", ")
}

// mutable state forms used inside closures and defaults: literal, the statement that mutates it
// (always changes it), and its kind
type stateForm struct{ lit, mut, kind, site string }

func (g *gen) stateForm(name string) stateForm {
	switch g.r.Intn(5) {
	case 0:
		return stateForm{fmt.Sprintf(`{"n": 0, "o": %s}`, g.op()), fmt.Sprintf(`%s["n"] += 1`, name), "dict", "stmt x[key0]+=v"}
	case 1:
		return stateForm{"set([1])", fmt.Sprintf(`%s.add(len(%s) + 10)`, name, name), "set", "set.add"}
	case 2:
		return stateForm{fmt.Sprintf("[0, %s]", g.op()), fmt.Sprintf(`%s[0] += 1`, name), "list", "stmt x[0]+=v"}
	case 3:
		return stateForm{fmt.Sprintf("[%s]", g.op()), fmt.Sprintf(`[%s][0] += [7]`, name), "list", "stmt x+=[v]"}
	default:
		return stateForm{fmt.Sprintf("[%s]", g.op()), fmt.Sprintf(`%s.append(7)`, name), "list", "list.append"}
	}
}

// ---------------------------------------------------------------------------------------------
// snippets

type snippet struct {
	name   string
	weight int
	f      func(g *gen)
}

var snippets []snippet

func init() {
	snippets = []snippet{
		{"list", 5, func(g *gen) { v := g.fresh("v"); g.emit("%s = [%s]", v, g.ops(0, 4)); g.reg(v, "list", false) }},
		{"dict", 4, func(g *gen) {
			v := g.fresh("v")
			switch g.r.Intn(3) {
			case 0:
				g.emit(`%s = {"a": %s, "b": %s}`, v, g.op(), g.op())
			case 1:
				g.emit(`%s = {%s: %s, "k": %s}`, v, g.hop(), g.op(), g.op())
			default:
				g.emit(`%s = dict(a = %s)`, v, g.op())
			}
			g.reg(v, "dict", false)
		}},
		{"set", 3, func(g *gen) {
			v := g.fresh("v")
			g.emit("%s = set([%s, %s])", v, g.hop(), g.hop())
			g.reg(v, "set", false)
		}},
		{"tuple", 4, func(g *gen) {
			v := g.fresh("v")
			if g.r.Intn(3) == 0 {
				g.emit("%s = ([%s], {\"t\": %s})", v, g.op(), g.op())
			} else {
				g.emit("%s = (%s,)", v, g.ops(1, 3))
			}
			g.reg(v, "tuple", false)
		}},
		{"set-of-tuples", 2, func(g *gen) {
			v := g.fresh("v")
			g.emit(`%s = set([(1, "a"), (2, (3, 4)), %s])`, v, g.hop())
			g.reg(v, "set", false)
		}},
		{"struct", 4, func(g *gen) {
			v := g.fresh("v")
			switch g.r.Intn(3) {
			case 0:
				g.emit("%s = struct(a = %s, items = [%s], b = %s)", v, g.op(), g.ops(0, 2), g.op())
			case 1:
				g.emit("%s = struct(a = %s)", v, g.op())
			default:
				g.emit("%s = struct(lst = [%s], b = {\"s\": %s})", v, g.op(), g.op())
			}
			g.reg(v, "struct", false)
		}},
		{"module", 2, func(g *gen) {
			v := g.fresh("v")
			g.emit(`%s = module("m%d", a = %s, lst = [%s])`, v, g.n, g.op(), g.op())
			g.reg(v, "module", false)
			g.feature("module-made-by-program")
		}},
		{"cycle-list", 2, func(g *gen) {
			v := g.fresh("v")
			g.emit("%s = [%s]", v, g.op())
			g.emit("%s.append(%s)", v, v)
			g.reg(v, "list", false)
			g.feature("cycle")
		}},
		{"cycle-dict", 2, func(g *gen) {
			v := g.fresh("v")
			g.emit(`%s = {"k": %s}`, v, g.op())
			g.emit(`%s["self"] = %s`, v, v)
			g.reg(v, "dict", false)
			g.feature("cycle")
		}},
		{"cycle-mutual", 2, func(g *gen) {
			a, b := g.fresh("v"), g.fresh("v")
			g.emit("%s = [%s]", a, g.op())
			switch g.r.Intn(3) {
			case 0:
				g.emit(`%s = {"a": %s}`, b, a)
				g.reg(b, "dict", false)
			case 1:
				g.emit(`%s = (%s, %s)`, b, a, g.op())
				g.reg(b, "tuple", false)
			default:
				g.emit(`%s = struct(a = %s)`, b, a)
				g.reg(b, "struct", false)
			}
			g.emit("%s.append(%s)", a, b)
			g.reg(a, "list", false)
			g.feature("cycle")
		}},
		{"closure", 5, func(g *gen) {
			mk, v := g.fresh("mk"), g.fresh("v")
			st := g.stateForm("state")
			g.emit("def %s(seed):", mk)
			g.emit("    state = %s", st.lit)
			g.emit("    def get():")
			g.emit("        return (state, seed)")
			g.emit("    def bump(k = 1):")
			g.emit("        %s", st.mut)
			g.emit("        return len(state)")
			switch g.r.Intn(4) {
			case 0:
				g.emit("    return struct(get = get, bump = bump)")
				g.emit("%s = %s(%s)", v, mk, g.op())
				g.regKeep(v, "struct", false)
				g.u.mutfns = append(g.u.mutfns, mutfn{v, v + ".bump()", "closure-" + st.kind + "-via-struct", st.site})
			case 1:
				g.emit("    return (get, bump)")
				g.emit("%s = %s(%s)", v, mk, g.op())
				g.regKeep(v, "tuple", true)
				g.u.mutfns = append(g.u.mutfns, mutfn{v, v + "[1](2)", "closure-" + st.kind + "-via-tuple", st.site})
			default:
				g.emit("    return bump")
				g.emit("%s = %s(%s)", v, mk, g.op())
				g.regKeep(v, "func", true)
				g.u.mutfns = append(g.u.mutfns, mutfn{v, v + "()", "closure-" + st.kind, st.site})
			}
			g.regKeep(mk, "func", true)
			g.feature("closure")
		}},
		{"selfref-def", 3, func(g *gen) {
			mk, v := g.fresh("mk"), g.fresh("v")
			g.emit("def %s():", mk)
			g.emit("    acc = [%s]", g.op())
			g.emit("    def f(n = 0):")
			g.emit("        acc.append(n)")
			g.emit("        if n > 0:")
			g.emit("            return f(n - 1)")
			g.emit("        return f")
			g.emit("    return f")
			g.emit("%s = %s()", v, mk)
			if g.r.Intn(2) == 0 {
				g.emit("_r%d = %s(2)", g.n, v)
			}
			g.regKeep(v, "func", true)
			g.regKeep(mk, "func", true)
			g.u.mutfns = append(g.u.mutfns, mutfn{v, v + "(1)", "selfref-closure", "list.append"})
			g.feature("selfref-def")
		}},
		{"mutual-defs", 3, func(g *gen) {
			mk, v := g.fresh("mk"), g.fresh("v")
			g.emit("def %s():", mk)
			g.emit(`    log = {"calls": 0, "o": %s}`, g.op())
			g.emit("    def even(n):")
			g.emit(`        log["calls"] += 1`)
			g.emit("        return True if n == 0 else odd(n - 1)")
			g.emit("    def odd(n):")
			g.emit(`        log["calls"] += 1`)
			g.emit("        return False if n == 0 else even(n - 1)")
			if g.r.Intn(2) == 0 {
				g.emit("    return even")
				g.emit("%s = %s()", v, mk)
				g.regKeep(v, "func", true)
				g.u.mutfns = append(g.u.mutfns, mutfn{v, v + "(3)", "mutual-closures", "stmt x[key0]+=v"})
			} else {
				g.emit("    return struct(even = even, odd = odd)")
				g.emit("%s = %s()", v, mk)
				g.regKeep(v, "struct", false)
				g.u.mutfns = append(g.u.mutfns, mutfn{v, v + ".odd(2)", "mutual-closures-via-struct", "stmt x[key0]+=v"})
			}
			g.regKeep(mk, "func", true)
			g.feature("mutual-defs")
		}},
		{"default", 5, func(g *gen) {
			f := g.fresh("f")
			st := g.stateForm("acc")
			lit := st.lit
			if lv, ok := g.pick(true, "list"); ok && g.r.Intn(4) == 0 {
				lit, st.mut, st.kind, st.site = lv.name, "acc.append(7)", "list-var", "list.append"
			}
			call := f + "(1)"
			switch g.r.Intn(5) {
			case 0:
				g.emit("def %s(x, *, acc = %s):", f, lit)
			case 1:
				g.emit("def %s(x, acc = %s, *args, **kw):", f, lit)
			case 2:
				g.emit("def %s(a, b = 1, acc = %s, *, c, d = [%s], **kw):", f, lit, g.op())
				call = f + "(1, c = 2)"
			case 3:
				g.emit("def %s(x, y = (1, [2]), acc = %s):", f, lit)
			default:
				g.emit("def %s(x, acc = %s):", f, lit)
			}
			g.emit("    %s", st.mut)
			g.emit("    return acc")
			if g.r.Intn(3) == 0 {
				g.emit("_r%d = %s", g.n, call)
			}
			g.regKeep(f, "func", true)
			g.u.mutfns = append(g.u.mutfns, mutfn{f, call, "default-" + st.kind, st.site})
			g.feature("mutable-default")
		}},
		{"bound-method", 5, func(g *gen) {
			v := g.fresh("v")
			uniq := 1000 + g.n
			switch g.r.Intn(6) {
			case 0:
				g.emit("%s = [%s].append", v, g.ops(1, 2))
				g.u.mutfns = append(g.u.mutfns, mutfn{v, v + "(5)", "bound-list.append-literal", "list.append"})
			case 1:
				if lv, ok := g.pick(true, "list"); ok {
					g.emit("%s = %s.append", v, lv.name)
					g.u.mutfns = append(g.u.mutfns, mutfn{v, v + "(5)", "bound-list.append-var", "list.append"})
				} else {
					g.emit("%s = [1].extend", v)
					g.u.mutfns = append(g.u.mutfns, mutfn{v, v + "([5])", "bound-list.extend-literal", "list.extend"})
				}
			case 2:
				g.emit(`%s = {"a": %s}.update`, v, g.op())
				g.u.mutfns = append(g.u.mutfns, mutfn{v, fmt.Sprintf(`%s({"k%d": 1})`, v, uniq), "bound-dict.update-literal", "dict.update"})
			case 3:
				if dv, ok := g.pick(true, "dict"); ok {
					g.emit("%s = %s.setdefault", v, dv.name)
					g.u.mutfns = append(g.u.mutfns, mutfn{v, fmt.Sprintf(`%s("k%d", 1)`, v, uniq), "bound-dict.setdefault-var", "dict.setdefault"})
				} else {
					g.emit(`%s = {"a": 1}.pop`, v)
					g.u.mutfns = append(g.u.mutfns, mutfn{v, v + `("a")`, "bound-dict.pop-literal", "dict.pop"})
				}
			case 4:
				g.emit("%s = set([1, 2]).add", v)
				g.u.mutfns = append(g.u.mutfns, mutfn{v, fmt.Sprintf("%s(%d)", v, uniq), "bound-set.add-literal", "set.add"})
			default:
				g.emit("%s = [1, 2, 3].pop", v)
				g.u.mutfns = append(g.u.mutfns, mutfn{v, v + "()", "bound-list.pop-literal", "list.pop"})
			}
			g.regKeep(v, "bm", true)
			g.feature("bound-method")
		}},
		{"lambda", 4, func(g *gen) {
			v := g.fresh("v")
			switch g.r.Intn(4) {
			case 0:
				g.emit("%s = lambda x, d = [%s]: d", v, g.op())
			case 1:
				g.emit("%s = (lambda s: (lambda: s))([%s])", v, g.op())
			case 2:
				g.emit("%s = (lambda s: (lambda: s.append(1)))([%s])", v, g.op())
				g.u.mutfns = append(g.u.mutfns, mutfn{v, v + "()", "lambda-closure-append", "list.append"})
			default:
				g.emit(`%s = lambda k, d = {"n": %s}: d.setdefault(k, 1)`, v, g.op())
				g.u.mutfns = append(g.u.mutfns, mutfn{v, fmt.Sprintf(`%s("k%d")`, v, 1000+g.n), "lambda-default-setdefault", "dict.setdefault"})
			}
			g.regKeep(v, "func", true)
			g.feature("lambda")
		}},
		{"comprehension", 3, func(g *gen) {
			v := g.fresh("v")
			switch g.r.Intn(4) {
			case 0:
				g.emit("%s = [[i, %s] for i in range(3)]", v, g.op())
				g.reg(v, "list", false)
			case 1:
				g.emit("%s = {i: [i] for i in range(2)}", v)
				g.reg(v, "dict", false)
			case 2:
				g.emit("%s = [(lambda: x) for x in [[1], {\"c\": 2}]]", v)
				g.reg(v, "list", false)
			default:
				g.emit("%s = [e for e in [%s] if e != None]", v, g.ops(1, 3))
				g.reg(v, "list", false)
			}
			g.feature("comprehension")
		}},
		{"wire", 8, func(g *gen) {
			frozenOK := g.r.Intn(25) == 0 // mutating a loaded (frozen) value: the module fails here
			m, ok := g.pick(frozenOK, "list", "dict", "set")
			if !ok {
				return
			}
			switch m.kind {
			case "list":
				switch g.r.Intn(3) {
				case 0:
					g.emit("%s.append(%s)", m.name, g.op())
				case 1:
					g.emit("%s.insert(0, %s)", m.name, g.op())
				default:
					g.emit("%s += [%s]", m.name, g.op())
				}
			case "dict":
				g.emit(`%s["w%d"] = %s`, m.name, g.r.Intn(3), g.op())
			default:
				g.emit("%s.add(%s)", m.name, g.hop())
			}
			g.feature("wire")
		}},
		{"rebind", 3, func(g *gen) {
			var cs []int
			for i, v := range g.vars {
				if !v.keep && !v.frozen && v.kind != "func" && v.kind != "bm" {
					cs = append(cs, i)
				}
			}
			if len(cs) == 0 {
				return
			}
			i := cs[g.r.Intn(len(cs))]
			g.emit("%s = %s", g.vars[i].name, []string{"None", "3", `"gone"`}[g.r.Intn(3)])
			g.vars = append(g.vars[:i], g.vars[i+1:]...)
			g.feature("rebind")
		}},
		{"global-counter", 4, func(g *gen) {
			c, f := g.fresh("c"), g.fresh("bump")
			site := "stmt x[key0]+=v"
			if g.r.Intn(2) == 0 {
				site = "stmt x[0]+=v"
				// not registered as an operand: nothing else may reorder it
				g.emit("%s = [0, %s]", c, g.op())
				g.emit("def %s():\n    %s[0] += 1", f, c)
			} else {
				g.emit(`%s = {"n": 0}`, c)
				g.emit("def %s():\n    %s[\"n\"] += 1", f, c)
				g.regKeep(c, "dict", false)
			}
			g.regKeep(f, "func", true)
			g.u.mutfns = append(g.u.mutfns, mutfn{f, f + "()", "global-augmented-index", site})
			g.feature("global-counter")
		}},
		{"inplace-fn", 4, func(g *gen) {
			f := g.fresh("ext")
			if g.r.Intn(2) == 0 {
				lv, ok := g.pick(true, "list")
				if !ok {
					return
				}
				g.emit("def %s():\n    g = %s\n    g += [1]", f, lv.name)
				g.markKeep(lv.name)
				g.u.mutfns = append(g.u.mutfns, mutfn{f, f + "()", "global-inplace-add", "stmt x+=[v]"})
			} else {
				dv, ok := g.pick(true, "dict")
				if !ok {
					return
				}
				g.emit("def %s():\n    g = %s\n    g |= {\"k%d\": 1}", f, dv.name, 1000+g.n)
				g.markKeep(dv.name)
				g.u.mutfns = append(g.u.mutfns, mutfn{f, f + "()", "global-inplace-pipe", "stmt x|={newkey:v}"})
			}
			g.regKeep(f, "func", true)
			g.feature("inplace-fn")
		}},
		{"struct-field-fn", 3, func(g *gen) {
			s, f := g.fresh("s"), g.fresh("sadd")
			g.emit("%s = struct(items = [%s], a = %s)", s, g.op(), g.op())
			g.emit("def %s():\n    %s.items.append(1)", f, s)
			g.regKeep(s, "struct", false)
			g.regKeep(f, "func", true)
			g.u.mutfns = append(g.u.mutfns, mutfn{f, f + "()", "struct-field-append", "list.append"})
			g.feature("struct-field-fn")
		}},
		{"key-closure", 4, func(g *gen) {
			mk, v := g.fresh("mk"), g.fresh("v")
			st := g.stateForm("s")
			g.emit("def %s():", mk)
			g.emit("    s = %s", st.lit)
			g.emit("    def f():")
			g.emit("        %s", st.mut)
			g.emit("        return 1")
			g.emit("    return f")
			switch g.r.Intn(4) {
			case 0:
				g.emit("%s = {%s(): %s}", v, mk, g.op())
				g.regKeep(v, "dict", false)
				g.u.mutfns = append(g.u.mutfns, mutfn{v, fmt.Sprintf("[k for k in %s.keys()][0]()", v), "dict-key-closure", st.site})
			case 1:
				g.emit("%s = {(1, %s()): 2}", v, mk)
				g.regKeep(v, "dict", false)
				g.u.mutfns = append(g.u.mutfns, mutfn{v, fmt.Sprintf("[k for k in %s.keys()][0][1]()", v), "dict-key-tuple-closure", st.site})
			case 2:
				g.emit("%s = set([%s()])", v, mk)
				g.regKeep(v, "set", false)
				g.u.mutfns = append(g.u.mutfns, mutfn{v, fmt.Sprintf("[k for k in %s][0]()", v), "set-elem-closure", st.site})
			default:
				g.emit("%s = {[%s].append: 1}", v, g.op())
				g.regKeep(v, "dict", false)
				g.u.mutfns = append(g.u.mutfns, mutfn{v, fmt.Sprintf("[k for k in %s.keys()][0](5)", v), "dict-key-bound-method", "list.append"})
			}
			g.regKeep(mk, "func", true)
			g.feature("key-closure")
		}},
		{"set-of-bound-method", 2, func(g *gen) {
			v := g.fresh("v")
			g.emit("%s = set([[%s].append, 3])", v, g.op())
			g.regKeep(v, "set", false)
			g.u.mutfns = append(g.u.mutfns, mutfn{v, fmt.Sprintf("[k for k in %s][0](5)", v), "set-elem-bound-method", "list.append"})
			g.feature("set-of-bound-method")
		}},
		{"derive", 9, func(g *gen) { g.derive() }},
		{"alias", 9, func(g *gen) { g.alias() }},
		{"json", 1, func(g *gen) {
			v := g.fresh("v")
			if g.r.Intn(2) == 0 {
				g.emit(`%s = json.decode('{"a": [1, {"b": []}], "c": {}}')`, v)
				g.reg(v, "dict", false)
			} else {
				g.emit(`%s = [json, json.decode("[[1], [2]]")]`, v)
				g.reg(v, "list", false)
			}
			g.feature("json")
		}},
		{"sink", 6, func(g *gen) {
			switch g.r.Intn(5) {
			case 0:
				g.emit(`sink("toplevel-temp", [%s, [1]])`, g.op())
			case 1:
				t := g.fresh("t")
				g.emit("def %s():", t)
				g.emit("    loc = [%s]", g.op())
				g.emit(`    d = {"l": loc}`)
				g.emit(`    sink("local", d)`)
				g.emit("    return len(loc)")
				g.emit("_r%d = %s()", g.n, t)
				g.regKeep(t, "func", true)
			case 2:
				v := g.fresh("v")
				g.emit("%s = [%s]", v, g.op())
				g.emit(`sink("stored", %s)`, v)
				g.reg(v, "list", false)
			case 3:
				g.emit(`_r%d = len([sink("comprehension-temp", [i]) for i in range(2)])`, g.n)
				g.n++
			default:
				mk, v := g.fresh("mk"), g.fresh("v")
				g.emit("def %s():", mk)
				g.emit("    loc = [%s]", g.op())
				g.emit(`    sink("closure-captured", loc)`)
				g.emit("    return lambda: loc")
				g.emit("%s = %s()", v, mk)
				g.regKeep(mk, "func", true)
				g.regKeep(v, "func", true)
			}
			g.feature("sink")
		}},
	}
}

// Host-supplied values that the host froze before execution (e.g. results of an earlier module).
var hostFrozen = map[string]string{"list": "frozL", "tuple": "frozT", "dict": "frozD", "set": "frozS", "struct": "frozE"}

// frozenOperand returns an already-frozen value of the given kind: a name loaded from the library
// module if there is one (two times out of three), else a host-frozen predeclared value.
func (g *gen) frozenOperand(kind string) (name, source string) {
	var cs []string
	for _, v := range g.vars {
		if v.frozen && v.kind == kind {
			cs = append(cs, v.name)
		}
	}
	if len(cs) > 0 && g.r.Intn(3) != 0 {
		return cs[g.r.Intn(len(cs))], "lib"
	}
	return hostFrozen[kind], "host-frozen"
}

// freshPart returns a fresh mutable literal that is reachable from nothing else.
func (g *gen) freshPart() string {
	switch g.r.Intn(4) {
	case 0:
		return "[]"
	case 1:
		return fmt.Sprintf(`{"f": %s}`, g.atom())
	case 2:
		return fmt.Sprintf("[%s, [%d]]", g.atom(), g.r.Intn(9))
	default:
		return fmt.Sprintf("[%s]", g.atom())
	}
}

// derive emits a binary operation / conversion whose result is a NEW container built from an
// already-frozen operand plus fresh mutable parts, stored in a global.
func (g *gen) derive() {
	v := g.fresh("v")
	kind := []string{"struct", "struct", "list", "tuple", "dict", "set"}[g.r.Intn(6)]
	// prefer a kind for which a value loaded from the library module is at hand
	var loaded []gvar
	for _, lv := range g.vars {
		if lv.frozen && hostFrozen[lv.kind] != "" {
			loaded = append(loaded, lv)
		}
	}
	if len(loaded) > 0 && g.r.Intn(3) != 0 {
		kind = loaded[g.r.Intn(len(loaded))].kind
	}
	F, src := g.frozenOperand(kind)
	fp := g.freshPart()
	form := ""
	switch kind {
	case "struct":
		switch g.r.Intn(4) {
		case 0, 1:
			form = "frozen+fresh"
			g.emit("%s = %s + struct(zitems = %s, zd = %s)", v, F, fp, g.freshPart())
		case 2:
			form = "fresh+frozen"
			g.emit("%s = struct(zitems = %s) + %s", v, fp, F)
		default:
			form = "fresh+fresh"
			src = "none"
			g.emit("%s = struct(a = %s) + struct(zitems = %s)", v, g.freshPart(), fp)
		}
		if g.r.Intn(2) == 0 {
			f := g.fresh("zadd")
			if strings.HasPrefix(fp, "{") {
				g.emit("def %s():\n    %s.zitems[\"k%d\"] = 1", f, v, 1000+g.n)
				g.u.mutfns = append(g.u.mutfns, mutfn{f, f + "()", "derived-struct-field-setkey", "stmt x[newkey]=v"})
			} else {
				g.emit("def %s():\n    %s.zitems.append(1)", f, v)
				g.u.mutfns = append(g.u.mutfns, mutfn{f, f + "()", "derived-struct-field-append", "list.append"})
			}
			g.regKeep(f, "func", true)
			g.regKeep(v, "struct", false)
		} else {
			g.reg(v, "struct", false)
		}
	case "list":
		switch g.r.Intn(9) {
		case 0:
			form = "frozen+[fresh]"
			g.emit("%s = %s + [%s]", v, F, fp)
		case 1:
			form = "[fresh]+frozen"
			g.emit("%s = [%s] + %s", v, fp, F)
		case 2:
			form = "frozen*n"
			g.emit("%s = %s * 2", v, F)
		case 3:
			form = "slice+[fresh]"
			g.emit("%s = %s[0:2] + [%s]", v, F, fp)
		case 4:
			form = "list(frozen)+[fresh]"
			g.emit("%s = list(%s)", v, F)
			g.emit("%s.append(%s)", v, fp)
		case 5:
			form = "comprehension-over-frozen"
			g.emit("%s = [[e, %s] for e in %s]", v, fp, F)
		case 6:
			form = "sorted(frozen)+[fresh]"
			g.emit("%s = sorted(%s, key = lambda e: 0) + [%s]", v, F, fp)
		case 7:
			form = "full-slice"
			g.emit("%s = %s[:]", v, F)
			g.emit("%s.insert(0, %s)", v, fp)
		default:
			form = "comprehension+[fresh]"
			g.emit("%s = [e for e in %s] + [%s]", v, F, fp)
		}
		g.reg(v, "list", false)
	case "tuple":
		switch g.r.Intn(5) {
		case 0:
			form = "frozen+(fresh,)"
			g.emit("%s = %s + (%s,)", v, F, fp)
		case 1:
			form = "(fresh,)+frozen"
			g.emit("%s = (%s,) + %s", v, fp, F)
		case 2:
			form = "frozen*n"
			g.emit("%s = (%s * 2, %s)", v, F, fp)
		case 3:
			form = "slice+(fresh,)"
			g.emit("%s = %s[0:1] + (%s,)", v, F, fp)
		default:
			form = "tuple(frozen)+(fresh,)"
			g.emit("%s = tuple(%s) + (%s,)", v, F, fp)
		}
		g.reg(v, "tuple", false)
	case "dict":
		switch g.r.Intn(6) {
		case 0:
			form = "frozen|{k:fresh}"
			g.emit(`%s = %s | {"zk": %s}`, v, F, fp)
		case 1:
			form = "{k:fresh}|frozen"
			g.emit(`%s = {"zk": %s} | %s`, v, fp, F)
		case 2:
			form = "dict(frozen,k=fresh)"
			g.emit(`%s = dict(%s, zk = %s)`, v, F, fp)
		case 3:
			form = "dict(frozen)+setkey"
			g.emit(`%s = dict(%s)`, v, F)
			g.emit(`%s["zk"] = %s`, v, fp)
		case 4:
			form = "dict-comprehension-over-frozen"
			g.emit(`%s = {k: [%s[k], %s] for k in %s}`, v, F, fp, F)
		default:
			form = "dict(frozen).update"
			g.emit(`%s = dict(%s)`, v, F)
			g.emit(`%s.update(zk = %s)`, v, fp)
		}
		g.reg(v, "dict", false)
	default:
		// fresh parts of a set must be hashable: bound methods of fresh lists carry the mutable state
		switch g.r.Intn(4) {
		case 0:
			form = "frozen|set"
			g.emit("%s = %s | set([%s.append])", v, F, fp0(fp))
		case 1:
			form = "set|frozen"
			g.emit("%s = set([%s.append]) | %s", v, fp0(fp), F)
		case 2:
			form = "frozen.union"
			g.emit("%s = %s.union([%s.append, 77])", v, F, fp0(fp))
		default:
			form = "set(frozen).add"
			g.emit("%s = set(%s)", v, F)
			g.emit("%s.add(%s.append)", v, fp0(fp))
		}
		g.reg(v, "set", false)
	}
	g.feature("derive:" + kind + " " + form)
	g.feature("derive-source:" + src)
}

// Forms that could alias their frozen operand F (return it, or share its storage) if implemented
// carelessly: expression template (%s = F) and the kind of the derived value.
type aliasForm struct{ name, expr, kind string }

var aliasForms = map[string][]aliasForm{
	"list": {
		{"F*1", "%s * 1", "list"}, {"1*F", "1 * %s", "list"}, {"F*n(n==1)", `%s * len("x")`, "list"}, {"n*F(n==1)", `(3 - 2) * %s`, "list"},
		{"F+[]", "%s + []", "list"}, {"[]+F", "[] + %s", "list"}, {"F[:]", "%s[:]", "list"}, {"F[0:len(F)]", "%[1]s[0:len(%[1]s)]", "list"},
		{"F[::1]", "%s[::1]", "list"}, {"list(F)", "list(%s)", "list"}, {"sorted(F)", "sorted(%s)", "list"},
		{"sorted(F,key)", "sorted(%s, key = lambda e: 0)", "list"}, {"reversed(F)", "reversed(%s)", "list"}, {"zip(F)", "zip(%s)", "list"},
		{"[e for e in F]", "[e for e in %s]", "list"}, {"tuple(F)", "tuple(%s)", "tuple"}, {"enumerate(F)", "enumerate(%s)", "list"},
	},
	"tuple": {
		{"F*1", "%s * 1", "tuple"}, {"1*F", "1 * %s", "tuple"}, {"F[:]", "%s[:]", "tuple"}, {"F+()", "%s + ()", "tuple"}, {"F[0:1]", "%s[0:1]", "tuple"},
		{"tuple(F)", "tuple(%s)", "tuple"}, {"list(F)", "list(%s)", "list"}, {"sorted(F,key)", "sorted(%s, key = lambda e: 0)", "list"},
		{"zip(F)", "zip(%s)", "list"}, {"reversed(F)", "reversed(%s)", "list"},
	},
	"dict": {
		{"F|{}", "%s | {}", "dict"}, {"{}|F", "{} | %s", "dict"}, {"dict(F)", "dict(%s)", "dict"}, {"F.items()", "%s.items()", "list"},
		{"F.keys()", "%s.keys()", "list"}, {"F.values()", "%s.values()", "list"}, {"dict(F.items())", "dict(%s.items())", "dict"},
		{"{k:v for k,v in F.items()}", "{k: v for k, v in %s.items()}", "dict"}, {"list(F)", "list(%s)", "list"}, {"sorted(F,key)", "sorted(%s, key = lambda e: 0)", "list"},
	},
	"set": {
		{"F|set()", "%s | set()", "set"}, {"set()|F", "set() | %s", "set"}, {"F.union()", "%s.union()", "set"}, {"F.union([])", "%s.union([])", "set"},
		{"set(F)", "set(%s)", "set"}, {"F&F", "%[1]s & %[1]s", "set"}, {"F-set()", "%s - set()", "set"}, {"F.difference([])", "%s.difference([])", "set"},
		{"list(F)", "list(%s)", "list"}, {"sorted(F,key)", "sorted(%s, key = lambda e: 0)", "list"},
	},
	"struct": {
		{"F+struct()", "%s + struct()", "struct"}, {"struct()+F", "struct() + %s", "struct"},
	},
}

// mutations tried on the derived value while it is still mutable (inside the module), by kind
var aliasMutations = map[string][]string{
	"list": {"c[0] = 99", "c[-1] = 98", "c.append(97)", "c.extend([96])", "c.insert(0, 95)", "c.pop()", "c.clear()", "c += [94]",
		"c[0].append(93)", "c.remove(c[0])", "c[0] += [92]", "c[-1].clear()", `c[0]["zz"] = 91`},
	"dict": {`c["zq"] = 1`, `c.setdefault("zr", 2)`, "c.update(zs = 3)", "c.pop(c.keys()[0])", "c.popitem()", "c.clear()", `c |= {"zt": 4}`,
		"c[c.keys()[0]] = 90", "c.values()[0].append(89)", "c.values()[-1].clear()"},
	"set":    {"c.add(99)", "c.pop()", "c.clear()", "c.discard(list(c)[0])", "c.update([98])", "c.remove(list(c)[0])"},
	"tuple":  {"c[0].append(93)", "c[0] = 99", "c[-1].clear()", `c[0]["zz"] = 1`, "c[0][0] = 88"},
	"struct": {"c.base_items.append(1)", "c.items.append(1)", "c.a = 1", "c.lst.clear()"},
}

// alias emits a function that derives a value from a frozen operand by a form that could alias it,
// then mutates the derived value; the host built-in attempt() calls it once per mutation, swallows
// any error, and compares the canonical snapshot of all frozen inputs afterwards.
func (g *gen) alias() {
	kind := []string{"list", "list", "list", "tuple", "dict", "dict", "set", "struct"}[g.r.Intn(8)]
	var loaded []gvar
	for _, lv := range g.vars {
		if lv.frozen && hostFrozen[lv.kind] != "" {
			loaded = append(loaded, lv)
		}
	}
	if len(loaded) > 0 && g.r.Intn(3) != 0 {
		kind = loaded[g.r.Intn(len(loaded))].kind
	}
	repeat := g.r.Intn(4) == 0 // repetition by exactly one: the classic "nothing to copy" shortcut
	if repeat {
		kind = "list"
	}
	F, src := g.frozenOperand(kind)
	forms := aliasForms[kind]
	if repeat {
		forms = forms[:4]
	}
	af := forms[g.r.Intn(len(forms))]
	f, v := g.fresh("za"), g.fresh("v")
	muts := aliasMutations[af.kind]
	g.emit("def %s(k):", f)
	g.emit("    c = "+af.expr, F)
	for i, mu := range muts {
		kw := "elif"
		if i == 0 {
			kw = "if"
		}
		g.emit("    %s k == %d:", kw, i)
		g.emit("        %s", mu)
	}
	g.emit("    return c")
	g.emit("%s = [attempt(%q, %s, k) for k in range(%d)]", v, kind+" "+af.name, f, len(muts)+1)
	g.regKeep(f, "func", true)
	g.reg(v, "list", false)
	g.feature("alias:" + kind + " " + af.name)
	g.feature("alias-source:" + src)
}

// fp0 turns a fresh literal into a list literal (whose bound method is hashable).
func fp0(fp string) string {
	if strings.HasPrefix(fp, "{") {
		return "[" + fp + "]"
	}
	return fp
}

func (g *gen) markKeep(name string) {
	for i := range g.vars {
		if g.vars[i].name == name {
			g.vars[i].keep = true
		}
	}
}

// hostUse emits the statements for one host-supplied name according to the chosen usage.
func (g *gen) hostUse(h hostShape, usage string) {
	switch usage {
	case "unused":
	case "read":
		g.emit("_r%d = %s", g.n, h.read)
		g.n++
	case "mutated":
		g.emit("%s", h.mutate)
	case "stored":
		g.hostStore(h.name, h.shape)
	case "inner-stored":
		v := g.fresh("v")
		g.emit("%s = %s", v, h.inner)
		g.reg(v, h.innerKind, false)
	case "stored-rebound":
		v := g.fresh("v")
		g.emit("%s = [%s]", v, h.name)
		g.emit("%s = None", v)
	case "local-only":
		t := g.fresh("t")
		g.emit("def %s():", t)
		g.emit("    loc = [%s, 1]", h.name)
		g.emit("    return len(loc)")
		g.emit("_r%d = %s()", g.n, t)
		g.regKeep(t, "func", true)
	case "poked":
		f := g.fresh("poke")
		g.emit("def %s():\n    %s\n    return 1", f, h.mutate)
		g.regKeep(f, "func", true)
		g.u.pokes = append(g.u.pokes, pokefn{f, f + "()", h.target})
	case "stored-and-poked":
		g.hostStore(h.name, h.shape)
		f := g.fresh("poke")
		g.emit("def %s():\n    %s\n    return 1", f, h.mutate)
		g.regKeep(f, "func", true)
		g.u.pokes = append(g.u.pokes, pokefn{f, f + "()", h.target})
	case "shadowed":
		g.emit("%s = [%s]", h.name, g.op())
		g.reg(h.name, "list", false)
		g.feature("shadow-predeclared")
	}
}

func (g *gen) hostStore(name, shape string) {
	v := g.fresh("v")
	n := 9
	if shape == "list" {
		n = 10
	}
	switch g.r.Intn(n) {
	case 0:
		g.emit("%s = %s", v, name)
		kind := shape
		if shape == "bm" {
			g.regKeep(v, "bm", true)
		} else {
			g.reg(v, kind, false)
		}
	case 1:
		g.emit("%s = [%s, %s]", v, name, g.op())
		g.reg(v, "list", false)
	case 2:
		g.emit(`%s = {"h": %s}`, v, name)
		g.reg(v, "dict", false)
	case 3:
		g.emit("%s = struct(a = %s)", v, name)
		g.reg(v, "struct", false)
	case 4:
		g.emit("%s = (%s, 1)", v, name)
		g.reg(v, "tuple", false)
	case 5:
		g.emit("def %s(a = %s):\n    return a", v, name)
		g.regKeep(v, "func", true)
	case 6:
		g.emit("%s = (lambda v: lambda: v)(%s)", v, name)
		g.regKeep(v, "func", true)
	case 7:
		g.emit(`%s = module("mm", lst = %s)`, v, name)
		g.reg(v, "module", false)
	case 8:
		if m, ok := g.pick(false, "list"); ok {
			g.emit("%s.append(%s)", m.name, name)
		} else {
			g.emit("%s = [%s]", v, name)
			g.reg(v, "list", false)
		}
	default: // list shape only
		g.emit("%s = %s.append", v, name)
		g.regKeep(v, "bm", true)
	}
}

var usages = []struct {
	name   string
	weight int
}{{"unused", 12}, {"read", 18}, {"mutated", 14}, {"stored", 22}, {"inner-stored", 10}, {"stored-rebound", 7}, {"local-only", 7}, {"poked", 5}, {"stored-and-poked", 5}}

func (g *gen) chooseUsage(h hostShape) string {
	if h.name == "hostshadow" && g.r.Intn(2) == 0 {
		return "shadowed"
	}
	for {
		x := g.r.Intn(100)
		u := ""
		for _, c := range usages {
			if x < c.weight {
				u = c.name
				break
			}
			x -= c.weight
		}
		if u == "" {
			continue
		}
		if u == "inner-stored" && h.inner == "" {
			u = "stored"
		}
		if (u == "mutated" || u == "poked" || u == "stored-and-poked") && h.mutate == "" {
			u = "read"
		}
		return u
	}
}

var failForms = []struct{ name, stmt string }{
	{"fail", `fail("boom")`},
	{"div-zero", "_z = 1 // 0"},
	{"index-range", "_z = [][3]"},
	{"fail-in-function-after-sink", "def _boom():\n    loc = [1, [2]]\n    sink(\"local-before-error\", loc)\n    fail(\"x\")\n_z = _boom()"},
	{"mutate-while-iterating", "_it = [1, 2]\nfor _e in _it:\n    _it.append(_e)"},
	{"missing-key", `_z = {}["nope"]`},
}

// genUnit generates one module.
func genUnit(r *rand.Rand, p *program, lib bool, loadable []gvar) *unit {
	u := &unit{file: "main.star", features: map[string]bool{}}
	g := &gen{r: r, prefix: "", lib: lib, u: u, p: p}
	if lib {
		u.file = "lib.star"
		g.prefix = "l_"
	}
	// load statement first
	if len(loadable) > 0 {
		n := 2 + r.Intn(3)
		perm := r.Perm(len(loadable))
		var parts []string
		for i := 0; i < n && i < len(perm); i++ {
			lv := loadable[perm[i]]
			lv.frozen = true
			lv.keep = true
			if r.Intn(4) == 0 {
				alias := "ld_" + lv.name
				parts = append(parts, fmt.Sprintf("%s = %q", alias, lv.name))
				lv.name = alias
			} else {
				parts = append(parts, fmt.Sprintf("%q", lv.name))
			}
			g.vars = append(g.vars, lv)
		}
		g.emit(`load("lib.star", %s)`, strings.Join(parts, ", "))
		g.feature("load")
	}
	total := 0
	for _, s := range snippets {
		total += s.weight
	}
	nsn := 6 + r.Intn(11)
	if lib {
		nsn = 3 + r.Intn(6)
	}
	// host usages are interleaved with the snippets (main module only; the library sees the same
	// predeclared names but only reads them)
	type step struct {
		sn   *snippet
		host *hostShape
		fail int
	}
	var steps []step
	for i := 0; i < nsn; i++ {
		x := r.Intn(total)
		for j := range snippets {
			if x < snippets[j].weight {
				steps = append(steps, step{sn: &snippets[j], fail: -1})
				break
			}
			x -= snippets[j].weight
		}
	}
	if lib {
		// the library always offers a struct and a list for the importing module to build on
		for j := range snippets {
			if snippets[j].name == "struct" || snippets[j].name == "list" {
				steps = append([]step{{sn: &snippets[j], fail: -1}}, steps...)
			}
		}
	}
	if !lib {
		for i := range hostShapes {
			pos := r.Intn(len(steps) + 1)
			steps = append(steps[:pos], append([]step{{host: &hostShapes[i], fail: -1}}, steps[pos:]...)...)
		}
	}
	failP := 4 // one module in four fails half way
	if lib {
		failP = 12
	}
	if r.Intn(failP) == 0 {
		pos := r.Intn(len(steps) + 1)
		steps = append(steps[:pos], append([]step{{fail: r.Intn(len(failForms))}}, steps[pos:]...)...)
	}
	for _, st := range steps {
		switch {
		case st.sn != nil:
			st.sn.f(g)
		case st.host != nil:
			us := g.chooseUsage(*st.host)
			p.hostUsage[st.host.name] = us
			g.hostUse(*st.host, us)
		default:
			ff := failForms[st.fail]
			g.emit("%s", ff.stmt)
			g.feature("fails:" + ff.name)
		}
	}
	// shadowing of universal names by globals, at the end so that nothing generated depends on them
	if !lib && r.Intn(3) == 0 {
		name := shadowUniversal[r.Intn(len(shadowUniversal))]
		g.emit("%s = [%s]", name, g.op())
		g.feature("shadow-universal")
	}
	u.src = strings.Join(g.lines, "\n") + "\n"
	u.exports = g.vars
	return u
}

func generate(r *rand.Rand) *program {
	p := &program{hostUsage: map[string]string{}}
	p.loadBindsGlobally = r.Intn(3) == 0
	var loadable []gvar
	if r.Intn(3) == 0 {
		p.lib = genUnit(r, p, true, nil)
		for _, v := range p.lib.exports {
			if !v.frozen {
				loadable = append(loadable, v)
			}
		}
		if len(loadable) == 0 {
			p.lib = nil
		}
	}
	p.main = genUnit(r, p, false, loadable)
	if r.Intn(12) == 0 {
		p.maxSteps = uint64(3 + r.Intn(300))
	}
	return p
}
