// Package c09 monitors property C09: static rules and dialect options are enforced before any code
// runs, with errors positioned at the offending construct; the recursion rule is enforced dynamically.
package c09

import (
	"errors"
	"fmt"
	"math/rand"
	"strings"

	"go.starlark.net/resolve"
	"go.starlark.net/starlark"
	"go.starlark.net/syntax"

	"verif/internal/c01"
	"verif/internal/driver"
	"verif/internal/gen"
	"verif/internal/sl"
)

func init() {
	driver.Register(&driver.Engine{
		ID: "C09", Level: "exploration",
		Rule: "static arm: a generated valid program (internal/gen) gets exactly one rule violation planted at a random syntactic position (undefined name; break/continue outside a loop incl. in a nested def inside a loop; return at top level; load inside def/loop/if; while; set; top-level if/for/while; rebinding a global, a def name or a loaded name; augmented assignment at top level; duplicate/misordered/*-related parameter errors in def and lambda; duplicate/misordered/*/** argument errors; 256 positional / 256 named arguments; augmented assignment to a tuple or list; assignment to a call, literal or operator expression). The planted and the unplanted program are then compiled (never executed) under ALL 64 FileOptions vectors; the oracle is an independent requirement analysis of the tree (which options the program needs) plus the knowledge of what was planted: expected accept/reject per vector, a reported error inside the planted construct's span, and no host event for rejected programs. dynamic arm: call graphs over <= 4 functions reaching an active definition through plain calls, lambdas, two closures of one def, and sorted/min/max callbacks, judged against the reference evaluator's rule 'definition already active => error unless Recursion'. expression-route arm: expression templates that place the universal set (gated by Set), a control name, an undefined name or an option-independent rule violation (lambda parameter / call argument rules, 256 arguments, scope leaks) at every expression position (call, lambda body/default, comprehension body/iterables/condition, dead branches, arguments, index/slice, nested lambda-in-comprehension-in-default) and lambdas re-entered directly, through sorted and through a comprehension are sent through EvalOptions, EvalExprOptions, ExprFuncOptions(+call), resolve.ExprOptions, ExecREPLChunk and ExecFileOptions under all 64 vectors: accept exactly when the needed option is on, error inside the construct, no host event before rejection or before the expression function is called, recursion refused exactly when Recursion is off. argument-limit arm: calls with p positional and n named arguments over a boundary grid of (p, n) (incl. 128+128, 200+100, 255+255, 255/256 each) with and without *args/**kwargs in 7 contexts: rejected at the call exactly when p or n exceeds 255, otherwise compiled without panic and executed, the callee receiving exactly the arguments written. callback-length arm: sorted/min/max (key=, reverse=, varargs form) over list/tuple/comprehension/dict/range sequences of every length 0..4 (0..9 thorough) whose key callback is an active definition (direct, via lambda, mutual, second closure of one def, self-referring lambda), entered from the module and by starlark.Call: with Recursion off every length >= 1 must fail with 'called recursively' before another traced body runs, length 0 and Recursion on must complete. distinct = distinct (plant kind, placement context), distinct call-graph programs, distinct (template, construct), (p, n) pairs and (builtin, path, sequence, length) tuples",
		Assumptions: []string{"the requirement analysis (needs While / Set / TopLevelControl / GlobalReassign) is written for the shapes internal/gen produces", "internal/refeval implements the recursion rule by definition identity"},
		Run:         run,
		MinDistinct: 60,
		Variants:    func(string) []driver.Variant { return []driver.Variant{{Name: "default", VLimitKB: 7 << 20}} },
	})
}

// ---- contexts collected from a tree ----

type listCtx struct {
	list    *[]syntax.Stmt
	top     bool // module level (possibly inside top-level control flow)
	inFunc  bool
	inLoop  bool // inside a loop of the current function (or of the module if !inFunc)
	inCond  bool // inside an if statement at module level
	ctxName string
}

type treeInfo struct {
	lists   []listCtx
	calls   []*syntax.CallExpr
	defs    []*syntax.DefStmt
	lambdas []*syntax.LambdaExpr
	topBindings []*syntax.Ident // names bound by simple top-level assignments/defs
	needs   struct{ while, set, topControl, globalReassign bool }
}

func analyse(stmts *[]syntax.Stmt) *treeInfo {
	ti := &treeInfo{}
	bindCount := map[string]int{}
	var walkList func(l *[]syntax.Stmt, c listCtx)
	exprs := func(n syntax.Node) {
		syntax.Walk(n, func(n syntax.Node) bool {
			switch n := n.(type) {
			case *syntax.CallExpr:
				ti.calls = append(ti.calls, n)
			case *syntax.LambdaExpr:
				ti.lambdas = append(ti.lambdas, n)
			case *syntax.Ident:
				if n.Name == "set" {
					ti.needs.set = true
				}
			case *syntax.DefStmt, *syntax.IfStmt, *syntax.ForStmt, *syntax.WhileStmt:
				return false // statements are walked by walkList
			}
			return true
		})
	}
	var bindTop func(e syntax.Expr)
	bindTop = func(e syntax.Expr) {
		switch e := e.(type) {
		case *syntax.Ident:
			bindCount[e.Name]++
			ti.topBindings = append(ti.topBindings, e)
		case *syntax.TupleExpr:
			for _, x := range e.List {
				bindTop(x)
			}
		case *syntax.ListExpr:
			for _, x := range e.List {
				bindTop(x)
			}
		case *syntax.ParenExpr:
			bindTop(e.X)
		}
	}
	walkList = func(l *[]syntax.Stmt, c listCtx) {
		c.list = l
		ti.lists = append(ti.lists, c)
		for _, s := range *l {
			switch s := s.(type) {
			case *syntax.DefStmt:
				ti.defs = append(ti.defs, s)
				if c.top {
					bindCount[s.Name.Name]++
					ti.topBindings = append(ti.topBindings, s.Name)
				}
				for _, p := range s.Params {
					exprs(p)
				}
				walkList(&s.Body, listCtx{inFunc: true, ctxName: "def"})
			case *syntax.IfStmt:
				if c.top {
					ti.needs.topControl = true
				}
				exprs(s.Cond)
				cc := c
				cc.inCond = true
				cc.ctxName = c.ctxName + "/if"
				walkList(&s.True, cc)
				if s.False != nil {
					walkList(&s.False, cc)
				}
			case *syntax.ForStmt:
				if c.top {
					ti.needs.topControl = true
					bindTop(s.Vars)
				}
				exprs(s.X)
				cc := c
				cc.inLoop = true
				cc.ctxName = c.ctxName + "/for"
				walkList(&s.Body, cc)
			case *syntax.WhileStmt:
				ti.needs.while = true
				if c.top {
					ti.needs.topControl = true
				}
				exprs(s.Cond)
				cc := c
				cc.inLoop = true
				cc.ctxName = c.ctxName + "/while"
				walkList(&s.Body, cc)
			case *syntax.AssignStmt:
				exprs(s.LHS)
				exprs(s.RHS)
				if c.top {
					bindTop(s.LHS)
					if s.Op != syntax.EQ {
						if _, ok := s.LHS.(*syntax.Ident); ok {
							ti.needs.globalReassign = true // augmented assignment re-binds a global
						}
					}
				}
			case *syntax.LoadStmt:
				if c.top {
					for _, to := range s.To {
						bindCount[to.Name]++
					}
				}
			default:
				exprs(s)
			}
		}
	}
	walkList(stmts, listCtx{top: true, ctxName: "top"})
	for _, n := range bindCount {
		if n > 1 {
			ti.needs.globalReassign = true
		}
	}
	return ti
}

// ---- plants ----

type plant struct {
	kind string
	// needs reports whether the planted program is VALID under the option vector (most plants: never)
	validUnder func(o *syntax.FileOptions) bool
	node       syntax.Node // construct whose span must contain a reported error
	judgeOnly  func(o *syntax.FileOptions) bool // nil = judge under every vector
	ctx        string
}

func never(*syntax.FileOptions) bool { return false }

func ident(n string) *syntax.Ident { return &syntax.Ident{Name: n} }
func lit(n int64) syntax.Expr      { return &syntax.Literal{Token: syntax.INT, Value: n} }

func insertAt(l *[]syntax.Stmt, i int, s syntax.Stmt) {
	*l = append((*l)[:i:i], append([]syntax.Stmt{s}, (*l)[i:]...)...)
}

// makePlant modifies the tree in place and describes what was planted (nil if this kind does not
// apply to this program).
func makePlant(r *rand.Rand, kind string, stmts *[]syntax.Stmt, ti *treeInfo) *plant {
	pickList := func(pred func(listCtx) bool) *listCtx {
		var c []int
		for i, l := range ti.lists {
			if pred(l) {
				c = append(c, i)
			}
		}
		if len(c) == 0 {
			return nil
		}
		return &ti.lists[c[r.Intn(len(c))]]
	}
	insert := func(l *listCtx, s syntax.Stmt) {
		insertAt(l.list, r.Intn(len(*l.list)+1), s)
	}
	switch kind {
	case "undefined-name":
		l := pickList(func(listCtx) bool { return true })
		id := ident("zz_undefined")
		s := &syntax.ExprStmt{X: &syntax.BinaryExpr{Op: syntax.PLUS, X: lit(1), Y: id}}
		insert(l, s)
		return &plant{kind: kind, validUnder: never, node: id, ctx: l.ctxName}
	case "undefined-in-lambda-default", "undefined-in-comprehension":
		l := pickList(func(listCtx) bool { return true })
		id := ident("zz_undefined")
		var x syntax.Expr
		if kind == "undefined-in-lambda-default" {
			x = &syntax.LambdaExpr{Params: []syntax.Expr{&syntax.BinaryExpr{Op: syntax.EQ, X: ident("q"), Y: id}}, Body: ident("q")}
		} else {
			x = &syntax.Comprehension{Body: ident("cq"), Clauses: []syntax.Node{&syntax.ForClause{Vars: ident("cq"), X: &syntax.ListExpr{List: []syntax.Expr{lit(1)}}}, &syntax.IfClause{Cond: id}}}
		}
		insert(l, &syntax.ExprStmt{X: x})
		return &plant{kind: kind, validUnder: never, node: id, ctx: l.ctxName}
	case "default-refers-to-own-param", "default-refers-to-later-param", "default-refers-to-own-varargs", "lambda-default-refers-to-own-param",
		"comprehension-var-after-comprehension", "first-iterable-refers-to-own-var", "lambda-param-after-lambda", "def-local-outside-def":
		// a name that is bound in a neighbouring scope, used where that scope does not reach: undefined
		l := pickList(func(listCtx) bool { return true })
		use := ident("zq_leak")
		pass := []syntax.Stmt{&syntax.BranchStmt{Token: syntax.PASS}}
		opt := func(name string, dflt syntax.Expr) syntax.Expr {
			return &syntax.BinaryExpr{Op: syntax.EQ, X: ident(name), Y: dflt}
		}
		var s syntax.Stmt
		switch kind {
		case "default-refers-to-own-param":
			s = &syntax.DefStmt{Name: ident("zq_f"), Params: []syntax.Expr{ident("zq_leak"), opt("zq_o", use)}, Body: pass}
		case "default-refers-to-later-param":
			s = &syntax.DefStmt{Name: ident("zq_f"), Params: []syntax.Expr{opt("zq_o", use), opt("zq_leak", lit(2))}, Body: pass}
		case "default-refers-to-own-varargs":
			s = &syntax.DefStmt{Name: ident("zq_f"), Params: []syntax.Expr{&syntax.UnaryExpr{Op: syntax.STAR, X: ident("zq_leak")}, opt("zq_k", use)}, Body: pass}
		case "lambda-default-refers-to-own-param":
			s = &syntax.ExprStmt{X: &syntax.LambdaExpr{Params: []syntax.Expr{ident("zq_leak"), opt("zq_o", use)}, Body: ident("zq_o")}}
		case "comprehension-var-after-comprehension":
			comp := &syntax.Comprehension{Body: ident("zq_leak"), Clauses: []syntax.Node{&syntax.ForClause{Vars: ident("zq_leak"), X: &syntax.ListExpr{List: []syntax.Expr{lit(1)}}}}}
			s = &syntax.ExprStmt{X: &syntax.BinaryExpr{Op: syntax.PLUS, X: comp, Y: &syntax.ListExpr{List: []syntax.Expr{use}}}}
		case "first-iterable-refers-to-own-var":
			s = &syntax.ExprStmt{X: &syntax.Comprehension{Body: lit(1), Clauses: []syntax.Node{&syntax.ForClause{Vars: ident("zq_leak"), X: use}}}}
		case "lambda-param-after-lambda":
			call := &syntax.CallExpr{Fn: &syntax.ParenExpr{X: &syntax.LambdaExpr{Params: []syntax.Expr{ident("zq_leak")}, Body: ident("zq_leak")}}, Args: []syntax.Expr{lit(1)}}
			s = &syntax.ExprStmt{X: &syntax.BinaryExpr{Op: syntax.PLUS, X: call, Y: use}}
		case "def-local-outside-def":
			// only at module level: inside a function the enclosing block would make it a free variable lookup all the same
			body := []syntax.Stmt{&syntax.AssignStmt{Op: syntax.EQ, LHS: ident("zq_leak"), RHS: lit(1)}, &syntax.ReturnStmt{Result: ident("zq_leak")}}
			d := &syntax.DefStmt{Name: ident("zq_f"), Params: nil, Body: body}
			insert(l, d)
			s = &syntax.ExprStmt{X: &syntax.BinaryExpr{Op: syntax.PLUS, X: lit(1), Y: use}}
		}
		insert(l, s)
		return &plant{kind: kind, validUnder: never, node: use, ctx: l.ctxName}
	case "break-outside-loop", "continue-outside-loop":
		l := pickList(func(c listCtx) bool { return !c.inLoop })
		if l == nil {
			return nil
		}
		tok := syntax.BREAK
		if kind[0] == 'c' {
			tok = syntax.CONTINUE
		}
		s := &syntax.BranchStmt{Token: tok}
		insert(l, s)
		return &plant{kind: kind, validUnder: never, node: s, ctx: l.ctxName}
	case "break-in-def-inside-loop":
		// a def nested in a loop: the loop does not extend into the function body
		l := pickList(func(c listCtx) bool { return c.inLoop })
		if l == nil {
			return nil
		}
		b := &syntax.BranchStmt{Token: syntax.BREAK}
		d := &syntax.DefStmt{Name: ident("zz_inner"), Body: []syntax.Stmt{b}}
		insert(l, d)
		v := never
		return &plant{kind: kind, validUnder: v, node: b, ctx: l.ctxName}
	case "return-at-top-level":
		l := pickList(func(c listCtx) bool { return c.top })
		s := &syntax.ReturnStmt{Result: lit(1)}
		insert(l, s)
		return &plant{kind: kind, validUnder: never, node: s, ctx: l.ctxName}
	case "load-in-def", "load-in-loop", "load-in-if":
		l := pickList(func(c listCtx) bool {
			switch kind {
			case "load-in-def":
				return c.inFunc
			case "load-in-loop":
				return c.top && c.inLoop
			default:
				return c.top && c.inCond && !c.inLoop
			}
		})
		if l == nil {
			return nil
		}
		s := &syntax.LoadStmt{Module: &syntax.Literal{Token: syntax.STRING, Value: "m.star"}, From: []*syntax.Ident{ident("lb")}, To: []*syntax.Ident{ident("zz_loaded")}}
		insert(l, s)
		return &plant{kind: kind, validUnder: never, node: s, ctx: l.ctxName}
	case "rebind-global":
		if len(ti.topBindings) == 0 {
			return nil
		}
		b := ti.topBindings[r.Intn(len(ti.topBindings))]
		if b.Name == "la" || b.Name == "lx" {
			return nil
		}
		s := &syntax.AssignStmt{Op: syntax.EQ, LHS: ident(b.Name), RHS: lit(0)}
		*stmts = append(*stmts, s) // after every existing binding
		return &plant{kind: kind, validUnder: func(o *syntax.FileOptions) bool { return o.GlobalReassign }, node: s, ctx: "top"}
	case "redefine-def":
		var tops []*syntax.DefStmt
		for _, s := range *stmts {
			if d, ok := s.(*syntax.DefStmt); ok {
				tops = append(tops, d)
			}
		}
		if len(tops) == 0 {
			return nil
		}
		d := tops[r.Intn(len(tops))]
		s := &syntax.DefStmt{Name: ident(d.Name.Name), Body: []syntax.Stmt{&syntax.BranchStmt{Token: syntax.PASS}}}
		*stmts = append(*stmts, s)
		return &plant{kind: kind, validUnder: func(o *syntax.FileOptions) bool { return o.GlobalReassign }, node: s, ctx: "top"}
	case "augassign-global-at-top":
		if len(ti.topBindings) == 0 {
			return nil
		}
		b := ti.topBindings[r.Intn(len(ti.topBindings))]
		if b.Name == "la" || b.Name == "lx" {
			return nil
		}
		s := &syntax.AssignStmt{Op: syntax.PLUS_EQ, LHS: ident(b.Name), RHS: lit(0)}
		*stmts = append(*stmts, s)
		return &plant{kind: kind, validUnder: func(o *syntax.FileOptions) bool { return o.GlobalReassign }, node: s, ctx: "top"}
	case "dup-param", "required-after-optional", "two-star-params", "param-after-kwargs", "bare-star-last", "two-kwargs-params",
		"lambda-dup-param", "lambda-required-after-optional":
		var params []syntax.Expr
		switch kind {
		case "dup-param", "lambda-dup-param":
			params = []syntax.Expr{ident("a"), ident("b"), ident("a")}
		case "required-after-optional", "lambda-required-after-optional":
			params = []syntax.Expr{&syntax.BinaryExpr{Op: syntax.EQ, X: ident("a"), Y: lit(1)}, ident("b")}
		case "two-star-params":
			params = []syntax.Expr{&syntax.UnaryExpr{Op: syntax.STAR, X: ident("a")}, &syntax.UnaryExpr{Op: syntax.STAR, X: ident("b")}}
		case "param-after-kwargs":
			params = []syntax.Expr{&syntax.UnaryExpr{Op: syntax.STARSTAR, X: ident("k")}, ident("a")}
		case "bare-star-last":
			params = []syntax.Expr{ident("a"), &syntax.UnaryExpr{Op: syntax.STAR}}
		case "two-kwargs-params":
			params = []syntax.Expr{&syntax.UnaryExpr{Op: syntax.STARSTAR, X: ident("k")}, &syntax.UnaryExpr{Op: syntax.STARSTAR, X: ident("j")}}
		}
		l := pickList(func(listCtx) bool { return true })
		var node syntax.Node
		if strings.HasPrefix(kind, "lambda") {
			lam := &syntax.LambdaExpr{Params: params, Body: lit(0)}
			insert(l, &syntax.ExprStmt{X: lam})
			node = lam
		} else {
			d := &syntax.DefStmt{Name: ident("zz_def"), Params: params, Body: []syntax.Stmt{&syntax.BranchStmt{Token: syntax.PASS}}}
			insert(l, d)
			node = d
		}
		return &plant{kind: kind, validUnder: never, node: node, ctx: l.ctxName}
	case "dup-kwarg", "positional-after-named", "two-star-args", "two-starstar-args", "positional-after-starstar", "named-after-starstar",
		"star-after-starstar", "named-after-star", "positional-after-star", "256-positional", "256-named":
		var args []syntax.Expr
		nm := func(n string) syntax.Expr { return &syntax.BinaryExpr{Op: syntax.EQ, X: ident(n), Y: lit(1)} }
		st := func() syntax.Expr {
			return &syntax.UnaryExpr{Op: syntax.STAR, X: &syntax.ListExpr{}}
		}
		ss := func() syntax.Expr { return &syntax.UnaryExpr{Op: syntax.STARSTAR, X: &syntax.DictExpr{}} }
		switch kind {
		case "dup-kwarg":
			args = []syntax.Expr{nm("a"), nm("b"), nm("a")}
		case "positional-after-named":
			args = []syntax.Expr{nm("a"), lit(2)}
		case "two-star-args":
			args = []syntax.Expr{st(), st()}
		case "two-starstar-args":
			args = []syntax.Expr{ss(), ss()}
		case "positional-after-starstar":
			args = []syntax.Expr{ss(), lit(1)}
		case "named-after-starstar":
			args = []syntax.Expr{ss(), nm("a")}
		case "star-after-starstar":
			args = []syntax.Expr{ss(), st()}
		case "named-after-star":
			args = []syntax.Expr{st(), nm("a")}
		case "positional-after-star":
			args = []syntax.Expr{st(), lit(1)}
		case "256-positional":
			for i := 0; i < 256; i++ {
				args = append(args, lit(int64(i)))
			}
		case "256-named":
			for i := 0; i < 256; i++ {
				args = append(args, nm(fmt.Sprintf("n%d", i)))
			}
		}
		l := pickList(func(listCtx) bool { return true })
		call := &syntax.CallExpr{Fn: ident("trace"), Args: args}
		insert(l, &syntax.ExprStmt{X: call})
		return &plant{kind: kind, validUnder: never, node: call, ctx: l.ctxName}
	case "255-positional-ok", "255-named-ok":
		// the limit itself is legal
		var args []syntax.Expr
		for i := 0; i < 255; i++ {
			if kind == "255-positional-ok" {
				args = append(args, lit(int64(i)))
			} else {
				args = append(args, &syntax.BinaryExpr{Op: syntax.EQ, X: ident(fmt.Sprintf("n%d", i)), Y: lit(1)})
			}
		}
		l := pickList(func(c listCtx) bool { return c.inFunc })
		if l == nil {
			return nil
		}
		call := &syntax.CallExpr{Fn: ident("trace"), Args: args}
		insert(l, &syntax.ExprStmt{X: call})
		return &plant{kind: kind, validUnder: func(*syntax.FileOptions) bool { return true }, node: call, ctx: l.ctxName}
	case "augassign-tuple", "augassign-list", "assign-to-call", "assign-to-literal", "assign-to-binop", "for-literal-target":
		l := pickList(func(c listCtx) bool { return c.inFunc }) // inside a function: no top-level rebinding noise
		if l == nil {
			return nil
		}
		var s syntax.Stmt
		switch kind {
		case "augassign-tuple":
			s = &syntax.AssignStmt{Op: syntax.PLUS_EQ, LHS: &syntax.TupleExpr{List: []syntax.Expr{ident("zz_a"), ident("zz_b")}}, RHS: lit(1)}
		case "augassign-list":
			s = &syntax.AssignStmt{Op: syntax.PLUS_EQ, LHS: &syntax.ListExpr{List: []syntax.Expr{ident("zz_a")}}, RHS: lit(1)}
		case "assign-to-call":
			s = &syntax.AssignStmt{Op: syntax.EQ, LHS: &syntax.CallExpr{Fn: ident("trace")}, RHS: lit(1)}
		case "assign-to-literal":
			s = &syntax.AssignStmt{Op: syntax.EQ, LHS: lit(3), RHS: lit(1)}
		case "assign-to-binop":
			s = &syntax.AssignStmt{Op: syntax.EQ, LHS: &syntax.BinaryExpr{Op: syntax.PLUS, X: lit(1), Y: lit(2)}, RHS: lit(1)}
		case "for-literal-target":
			s = &syntax.ForStmt{Vars: lit(1), X: &syntax.ListExpr{}, Body: []syntax.Stmt{&syntax.BranchStmt{Token: syntax.PASS}}}
		}
		insert(l, s)
		return &plant{kind: kind, validUnder: never, node: s, ctx: l.ctxName}
	case "while-in-def":
		l := pickList(func(c listCtx) bool { return c.inFunc })
		if l == nil {
			return nil
		}
		s := &syntax.WhileStmt{Cond: ident("False"), Body: []syntax.Stmt{&syntax.BranchStmt{Token: syntax.PASS}}}
		insert(l, s)
		return &plant{kind: kind, validUnder: func(o *syntax.FileOptions) bool { return o.While }, node: s, ctx: l.ctxName}
	case "set-use":
		if ti.needs.set {
			return nil // the resolver reports the unsupported universal only at its first use
		}
		l := pickList(func(listCtx) bool { return true })
		id := ident("set")
		s := &syntax.ExprStmt{X: &syntax.CallExpr{Fn: id}}
		insert(l, s)
		return &plant{kind: kind, validUnder: func(o *syntax.FileOptions) bool { return o.Set }, node: id, ctx: l.ctxName}
	case "top-level-if", "top-level-for", "top-level-while":
		var s syntax.Stmt
		valid := func(o *syntax.FileOptions) bool { return o.TopLevelControl }
		switch kind {
		case "top-level-if":
			s = &syntax.IfStmt{Cond: ident("True"), True: []syntax.Stmt{&syntax.BranchStmt{Token: syntax.PASS}}}
		case "top-level-for":
			s = &syntax.ForStmt{Vars: ident("zz_i"), X: &syntax.ListExpr{}, Body: []syntax.Stmt{&syntax.BranchStmt{Token: syntax.PASS}}}
		default:
			s = &syntax.WhileStmt{Cond: ident("False"), Body: []syntax.Stmt{&syntax.BranchStmt{Token: syntax.PASS}}}
			valid = func(o *syntax.FileOptions) bool { return o.TopLevelControl && o.While }
		}
		insertAt(stmts, r.Intn(len(*stmts)+1), s)
		return &plant{kind: kind, validUnder: valid, node: s, ctx: "top"}
	}
	panic("unknown plant " + kind)
}

var plantKinds = []string{
	"undefined-name", "undefined-in-lambda-default", "undefined-in-comprehension",
	"default-refers-to-own-param", "default-refers-to-later-param", "default-refers-to-own-varargs", "lambda-default-refers-to-own-param",
	"comprehension-var-after-comprehension", "first-iterable-refers-to-own-var", "lambda-param-after-lambda", "def-local-outside-def",
	"break-outside-loop", "continue-outside-loop", "break-in-def-inside-loop", "return-at-top-level",
	"load-in-def", "load-in-loop", "load-in-if",
	"rebind-global", "redefine-def", "augassign-global-at-top",
	"dup-param", "required-after-optional", "two-star-params", "param-after-kwargs", "bare-star-last", "two-kwargs-params",
	"lambda-dup-param", "lambda-required-after-optional",
	"dup-kwarg", "positional-after-named", "two-star-args", "two-starstar-args", "positional-after-starstar", "named-after-starstar",
	"star-after-starstar", "named-after-star", "positional-after-star", "256-positional", "256-named", "255-positional-ok", "255-named-ok",
	"augassign-tuple", "augassign-list", "assign-to-call", "assign-to-literal", "assign-to-binop", "for-literal-target",
	"while-in-def", "set-use", "top-level-if", "top-level-for", "top-level-while",
}

// errorPositions extracts the positions of all static errors.
func errorPositions(err error) []syntax.Position {
	var out []syntax.Position
	var el resolve.ErrorList
	var re resolve.Error
	var se syntax.Error
	switch {
	case errors.As(err, &el):
		for _, e := range el {
			out = append(out, e.Pos)
		}
	case errors.As(err, &re):
		out = append(out, re.Pos)
	case errors.As(err, &se):
		out = append(out, se.Pos)
	}
	return out
}

func within(p, s, e syntax.Position) bool {
	after := func(a, b syntax.Position) bool { return a.Line > b.Line || a.Line == b.Line && a.Col >= b.Col }
	return after(p, s) && after(e, p)
}

func isPredeclared(name string) bool {
	for _, n := range c01.HostEnvNames() {
		if n == name {
			return true
		}
	}
	return false
}

func run(c *driver.Ctx) {
	armStatic(c)
	armSequences(c)
	armRecursion(c)
	armExprRoutes(c)
	armArgLimit(c)
	armCallbackLengths(c)
}

// ---- exhaustive parameter / argument sequences ----

// validParams implements the spec's ordering rules for a parameter list over the kinds
// r (required), o (optional), S (bare *), A (*args), K (**kwargs):
//   r* o* [ (S|A) (r|o)* ] [K], a bare * being followed by at least one keyword-only parameter.
func validParams(seq string) bool {
	i := 0
	for i < len(seq) && seq[i] == 'r' {
		i++
	}
	for i < len(seq) && seq[i] == 'o' {
		i++
	}
	if i < len(seq) && (seq[i] == 'S' || seq[i] == 'A') {
		bare := seq[i] == 'S'
		i++
		n := 0
		for i < len(seq) && (seq[i] == 'r' || seq[i] == 'o') {
			i++
			n++
		}
		if bare && n == 0 {
			return false
		}
	}
	if i < len(seq) && seq[i] == 'K' {
		i++
	}
	return i == len(seq)
}

// validArgs: positional* named* [*x] [**x].
func validArgs(seq string) bool {
	i := 0
	for i < len(seq) && seq[i] == 'p' {
		i++
	}
	for i < len(seq) && seq[i] == 'n' {
		i++
	}
	if i < len(seq) && seq[i] == 's' {
		i++
	}
	if i < len(seq) && seq[i] == 'k' {
		i++
	}
	return i == len(seq)
}

func enumerate(alphabet string, maxLen int, f func(seq string)) {
	var rec func(cur string)
	rec = func(cur string) {
		f(cur)
		if len(cur) == maxLen {
			return
		}
		for _, ch := range alphabet {
			rec(cur + string(ch))
		}
	}
	rec("")
}

func armSequences(c *driver.Ctx) {
	maxLen := c.Pick(4, 6)
	opts := &syntax.FileOptions{}
	check := func(kind, seq, src string, want bool) {
		_, _, err := starlark.SourceProgramOptions(opts, "seq.star", src, func(string) bool { return false })
		c.Eval(1)
		got := err == nil
		if got != want {
			key := "C09 accepted misordered-" + kind
			if want {
				key = "C09 rejected-valid " + kind + "-sequence"
			}
			c.Violation(key, fmt.Sprintf("%s sequence %q: %q: expected accept=%v, got accept=%v (%v)", kind, seq, src, want, got, err), map[string]any{"source": src})
		}
		c.Distinct(kind + ":" + seq)
	}
	if !c.Take() {
		return
	}
	enumerate("roSAK", maxLen, func(seq string) {
		var ps []string
		for i, ch := range seq {
			switch ch {
			case 'r':
				ps = append(ps, fmt.Sprintf("a%d", i))
			case 'o':
				ps = append(ps, fmt.Sprintf("a%d=%d", i, i))
			case 'S':
				ps = append(ps, "*")
			case 'A':
				ps = append(ps, fmt.Sprintf("*a%d", i))
			case 'K':
				ps = append(ps, fmt.Sprintf("**a%d", i))
			}
		}
		want := validParams(seq)
		check("parameter", seq, "def f("+strings.Join(ps, ", ")+"):\n    pass\n", want)
		check("lambda-parameter", seq, "f = lambda "+strings.Join(ps, ", ")+": 0\n", want)
		c.Count("parameter_sequences", 1)
	})
	enumerate("pnsk", maxLen, func(seq string) {
		var as []string
		for i, ch := range seq {
			switch ch {
			case 'p':
				as = append(as, fmt.Sprint(i))
			case 'n':
				as = append(as, fmt.Sprintf("n%d=%d", i, i))
			case 's':
				as = append(as, "*[]")
			case 'k':
				as = append(as, "**{}")
			}
		}
		check("argument", seq, "def f(*a, **k):\n    pass\nx = f("+strings.Join(as, ", ")+")\n", validArgs(seq))
		c.Count("argument_sequences", 1)
	})
	c.Count("exhaustive_subspace_completed", 1)
}

func armStatic(c *driver.Ctx) {
	n := c.Pick(400, 40000)
	for i := 0; i < n; i++ {
		if !c.Take() {
			continue
		}
		r := c.Rand()
		// generate under permissive options so that every feature can occur, then judge under all 64 vectors
		bits := r.Intn(16)
		genOpts := syntax.FileOptions{Set: bits&1 != 0, While: bits&2 != 0, TopLevelControl: bits&4 != 0, GlobalReassign: bits&8 != 0, Recursion: true}
		p := gen.Generate(r, gen.Config{Opts: genOpts, Trace: true, Host: true, Loads: true, MaxStmts: 4 + r.Intn(10)})
		// make sure running the program would produce a host event immediately
		first := &syntax.ExprStmt{X: &syntax.CallExpr{Fn: ident("trace"), Args: []syntax.Expr{lit(0)}}}
		if _, isLoad := p.Stmts[0].(*syntax.LoadStmt); isLoad {
			insertAt(&p.Stmts, 1, first)
		} else {
			insertAt(&p.Stmts, 0, first)
		}
		kind := plantKinds[i%len(plantKinds)]
		var pl *plant
		if i%9 != 8 { // one program in nine stays unplanted
			ti := analyse(&p.Stmts)
			pl = makePlant(r, kind, &p.Stmts, ti)
		}
		ti := analyse(&p.Stmts) // requirements of the final tree
		lay := gen.RandomLayout(r)
		lay.RedundantPar = 0 // keeps the recorded span of the planted construct exact
		src := gen.Render(p.Stmts, r, p.Options(lay))
		plantName, ctx := "none", ""
		if pl != nil {
			plantName, ctx = pl.kind, pl.ctx
		}
		for ob := 0; ob < 64; ob++ {
			opts := sl.OptionsFromBits(ob)
			requirementsMet := (!ti.needs.while || opts.While) && (!ti.needs.set || opts.Set) && (!ti.needs.topControl || opts.TopLevelControl) && (!ti.needs.globalReassign || opts.GlobalReassign)
			plantedValid := pl == nil || pl.validUnder(opts)
			// the plant itself may be what creates a requirement (e.g. a planted rebind): fold it in
			expectAccept := requirementsMet && plantedValid
			var err error
			pn := sl.Safe(func() { _, _, err = starlark.SourceProgramOptions(opts, "prog.star", src, isPredeclared) })
			c.Eval(1)
			if pn != nil {
				c.Violation("C09 compile-panic "+plantName, fmt.Sprintf("Go panic instead of accept/reject under %s: %s at %s", sl.OptionsString(opts), pn.String(), pn.TopFrame()),
					map[string]any{"options": sl.OptionsString(opts), "plant": plantName, "context": ctx, "source": src})
				continue
			}
			accepted := err == nil
			detail := map[string]any{"options": sl.OptionsString(opts), "plant": plantName, "context": ctx, "source": src, "error": fmt.Sprint(err),
				"needs": fmt.Sprintf("while=%v set=%v toplevelcontrol=%v globalreassign=%v", ti.needs.while, ti.needs.set, ti.needs.topControl, ti.needs.globalReassign)}
			switch {
			case accepted && !expectAccept && !plantedValid:
				c.Violation("C09 accepted "+plantName, fmt.Sprintf("program with planted %s (in %s) was accepted under %s", plantName, ctx, sl.OptionsString(opts)), detail)
			case accepted && !expectAccept:
				c.Violation("C09 accepted option-off "+missing(ti, opts), fmt.Sprintf("program needing %s was accepted under %s", missing(ti, opts), sl.OptionsString(opts)), detail)
			case !accepted && expectAccept:
				c.Violation("C09 rejected-valid "+plantName, fmt.Sprintf("valid program rejected under %s: %v", sl.OptionsString(opts), err), detail)
			}
			c.Count(fmt.Sprintf("expect_accept=%v got_accept=%v", expectAccept, accepted), 1)
			if !accepted && pl != nil && !plantedValid {
				// some reported error must sit inside the planted construct
				s, e := pl.node.Span()
				ok := false
				for _, p := range errorPositions(err) {
					if within(p, s, e) {
						ok = true
					}
				}
				if !ok {
					c.Violation("C09 misplaced-error "+plantName, fmt.Sprintf("no reported error lies inside the planted %s at %d:%d-%d:%d: %v", plantName, s.Line, s.Col, e.Line, e.Col, err), detail)
				}
				c.Count("planted_error_positions_checked", 1)
			}
			if !accepted && ob%8 == i%8 {
				// rejected programs run no code: execute the full pipeline and watch the host
				env, nevents, th := c01.StaticEnv()
				_, err2 := starlark.ExecFileOptions(opts, th, "prog.star", src, env)
				if err2 == nil || nevents() != 0 {
					c.Violation("C09 code-ran-before-rejection "+plantName, fmt.Sprintf("%d host events occurred although the program is statically invalid (exec err=%v)", nevents(), err2), detail)
				}
				c.Count("rejected_programs_executed_no_events", 1)
			}
		}
		c.Distinct(plantName + "@" + ctx)
		c.Cover("plants", plantName)
		c.Cover("plant_contexts", plantName+"@"+ctx)
		if c.WantSample() && pl != nil {
			c.Sample(map[string]any{"plant": plantName, "context": ctx, "source": driver.Truncate(src, 500)})
		}
	}
}

func missing(ti *treeInfo, o *syntax.FileOptions) string {
	var m []string
	if ti.needs.while && !o.While {
		m = append(m, "while")
	}
	if ti.needs.set && !o.Set {
		m = append(m, "set")
	}
	if ti.needs.topControl && !o.TopLevelControl {
		m = append(m, "toplevelcontrol")
	}
	if ti.needs.globalReassign && !o.GlobalReassign {
		m = append(m, "globalreassign")
	}
	return strings.Join(m, "+")
}

// ---- dynamic arm: recursion through call graphs ----

// callForms: how function a invokes function b.
var callForms = []string{"plain", "lambda", "closure-twice", "sorted-key", "min-key", "max-key", "map-comp"}

func recursionProgram(r *rand.Rand, nf int, edges [][2]int, forms []string, depth int) string {
	var b strings.Builder
	// mk builds two closures of ONE def: re-entering the other copy is still recursion
	b.WriteString("def mk(tag):\n    def inner(n):\n        trace(\"inner\", tag, n)\n        if n > 0:\n            return other[0](n - 1)\n        return n\n    return inner\n")
	b.WriteString("other = [None]\nc1 = mk(1)\nc2 = mk(2)\nother[0] = c2\n")
	for f := 0; f < nf; f++ {
		fmt.Fprintf(&b, "def f%d(n):\n    trace(\"f%d\", n)\n    if n <= 0:\n        return 0\n    r = 0\n", f, f)
		for ei, e := range edges {
			if e[0] != f {
				continue
			}
			callee := fmt.Sprintf("f%d", e[1])
			switch forms[ei] {
			case "plain":
				fmt.Fprintf(&b, "    r += %s(n - 1)\n", callee)
			case "lambda":
				fmt.Fprintf(&b, "    r += (lambda k: %s(k))(n - 1)\n", callee)
			case "closure-twice":
				fmt.Fprintf(&b, "    r += c1(n - 1)\n")
			case "sorted-key":
				fmt.Fprintf(&b, "    r += len(sorted([n - 1, n - 1], key=%s))\n", callee)
			case "min-key":
				fmt.Fprintf(&b, "    r += min([n - 1, n - 1], key=%s)\n", callee)
			case "max-key":
				fmt.Fprintf(&b, "    r += max([n - 1], key=lambda k: %s(k))\n", callee)
			case "map-comp":
				fmt.Fprintf(&b, "    r += len([%s(k) for k in [n - 1]])\n", callee)
			}
		}
		b.WriteString("    return r\n")
	}
	fmt.Fprintf(&b, "result = f0(%d)\n", depth)
	return b.String()
}

func armRecursion(c *driver.Ctx) {
	// all graphs over nf <= 4 functions with up to 4 edges (edge lists of length 1..4 over nf*nf pairs),
	// sampled in quick, complete for nf <= 3 in thorough plus samples for nf = 4
	type graph struct {
		nf    int
		edges [][2]int
	}
	var graphs []graph
	for nf := 1; nf <= 4; nf++ {
		var pairs [][2]int
		for a := 0; a < nf; a++ {
			for b := 0; b < nf; b++ {
				pairs = append(pairs, [2]int{a, b})
			}
		}
		var rec func(start int, cur [][2]int)
		rec = func(start int, cur [][2]int) {
			if len(cur) > 0 {
				graphs = append(graphs, graph{nf, append([][2]int(nil), cur...)})
			}
			if len(cur) == 3 {
				return
			}
			for i := start; i < len(pairs); i++ {
				rec(i+1, append(cur, pairs[i]))
			}
		}
		rec(0, nil)
	}
	stride := 1
	if !c.Thorough() {
		stride = 11
	}
	for gi := 0; gi < len(graphs); gi += stride {
		if !c.Take() {
			continue
		}
		g := graphs[gi]
		r := c.Rand()
		for rep := 0; rep < 2; rep++ {
			forms := make([]string, len(g.edges))
			for i := range forms {
				forms[i] = callForms[r.Intn(len(callForms))]
			}
			src := recursionProgram(r, g.nf, g.edges, forms, 3)
			for _, rec := range []bool{false, true} {
				opts := &syntax.FileOptions{Recursion: rec}
				what, desc, vmOK, vmMsg, nev, discarded := c01.Pair(opts, src)
				c.Eval(1)
				if discarded {
					c.Count("recursion_discarded_budget", 1)
					continue
				}
				if what != "" {
					c.Violation("C09 recursion "+what, desc, map[string]any{"source": src, "recursion_option": rec})
				}
				switch {
				case !vmOK && strings.Contains(vmMsg, "called recursively"):
					c.Count("recursion_detected", 1)
					if rec {
						c.Violation("C09 recursion rejected-with-option-on", "a function was refused as recursive although the Recursion option is on", map[string]any{"source": src})
					}
				case vmOK:
					c.Count("recursion_programs_completed", 1)
				}
				if nev > 0 {
					c.Distinct(fmt.Sprintf("R/%d/%v/%v/%v", g.nf, g.edges, forms, rec))
				}
				for _, f := range forms {
					c.Cover("recursion_call_forms", f)
				}
				// the same graph entered by the host through starlark.Call on an empty call stack
				// (the re-entered function is then the bottom frame of the thread)
				src2 := strings.Replace(src, "result = f0(3)\n", "", 1)
				what2, desc2, ok2, msg2 := c01.PairCall(opts, src2, "f0", 3)
				c.Eval(1)
				if what2 != "" && what2 != "module-failed" {
					c.Violation("C09 recursion host-call "+what2, desc2, map[string]any{"source": src2, "recursion_option": rec, "entry": "starlark.Call(f0, 3) on a fresh thread"})
				}
				if !ok2 && strings.Contains(msg2, "called recursively") {
					c.Count("recursion_detected_host_call", 1)
				}
			}
		}
	}
}
