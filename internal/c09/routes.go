package c09

// Round-4 families:
//
//   armExprRoutes      the static rules and the option gating applied to programs that enter through the
//                      expression entry points (EvalOptions, EvalExprOptions, ExprFuncOptions, resolve.ExprOptions)
//                      and the REPL chunk entry, under all 64 option vectors, with ExecFileOptions as the
//                      reference route;
//   armArgLimit        calls with p positional and n named arguments over a boundary grid of (p, n) in several
//                      syntactic contexts: each count is limited to 255 separately, everything else compiles
//                      (without a Go panic) and delivers exactly the arguments written;
//   armCallbackLengths re-entry of an active definition through the key callback of sorted/min/max over
//                      sequences of every small length (0, 1, 2, ...), several sequence kinds and call paths.

import (
	"fmt"
	"strings"

	"go.starlark.net/resolve"
	"go.starlark.net/starlark"
	"go.starlark.net/syntax"

	"verif/internal/c01"
	"verif/internal/driver"
	"verif/internal/sl"
)

// ---------------------------------------------------------------------------------------------
// expression entry points
// ---------------------------------------------------------------------------------------------

// exprTemplate: the judged expression is "[trace(0), " + pre + construct + post + "]"; construct is either
// the hole (a name used as a callable: set / list / zz_undef) or a fixed rule-violating construct.
type exprTemplate struct {
	name      string
	pre, post string
	fixed     string // non-empty: a construct that breaks a static rule under every option vector
	recursive bool   // evaluation re-enters an active lambda: fails dynamically unless Recursion
}

func exprTemplates() []exprTemplate {
	ts := []exprTemplate{
		{name: "call", pre: "", post: "([1, 2])"},
		{name: "bare-name", pre: "", post: ""},
		{name: "paren", pre: "(", post: ")([1])"},
		{name: "lambda-body", pre: "(lambda: ", post: "([1]))()"},
		{name: "lambda-default", pre: "(lambda q=", post: "([1]): q)()"},
		{name: "lambda-uncalled", pre: "(lambda: ", post: "([1]))"},
		{name: "comp-body", pre: "[", post: "([k]) for k in [1, 2]]"},
		{name: "comp-first-iterable", pre: "[k for k in ", post: "([1, 2])]"},
		{name: "comp-second-iterable", pre: "[j for k in [1] for j in ", post: "([k])]"},
		{name: "comp-condition", pre: "[k for k in [1, 2] if k in ", post: "([1])]"},
		{name: "dict-value", pre: "{1: ", post: "([1])}"},
		{name: "dictcomp-value", pre: "{k: ", post: "([k]) for k in [1]}"},
		{name: "cond-taken", pre: "", post: "([1]) if True else 2"},
		{name: "cond-not-taken", pre: "1 if True else ", post: "([1])"},
		{name: "cond-test", pre: "1 if ", post: "([1]) else 2"},
		{name: "short-circuit-dead", pre: "True or ", post: "([1])"},
		{name: "call-arg", pre: "len(", post: "([1]))"},
		{name: "named-arg", pre: "trace(k=", post: "([1]))"},
		{name: "star-arg", pre: "trace(*[", post: "([1])])"},
		{name: "starstar-arg", pre: "trace(**{\"k\": ", post: "()})"},
		{name: "index-operand", pre: "[", post: "([1])][0]"},
		{name: "slice-bound", pre: "[1, 2][len(", post: "([1])):]"},
		{name: "unary", pre: "not ", post: "()"},
		{name: "membership", pre: "1 in ", post: "([1])"},
		{name: "comparison", pre: "", post: "([1]) == [1]"},
		{name: "tuple-element", pre: "(1, ", post: "([1]), 3)"},
		{name: "dot", pre: "type(", post: "([1])).upper()"},
		{name: "lambda-in-comp-in-lambda-default", pre: "(lambda q=[(lambda: ", post: "([k]))() for k in [1]]: q)()"},
		{name: "recursive-lambda", recursive: true,
			pre: "(lambda f, n: f(f, n))(lambda f, n: len(", post: "([n])) - 1 if n == 0 else f(f, n - 1), 2)"},
		{name: "recursive-lambda-via-sorted", recursive: true,
			pre: "(lambda f, n: f(f, n))(lambda f, n: len(", post: "([n])) - 1 if n == 0 else len(sorted([n - 1], key=lambda k: f(f, k))), 2)"},
		{name: "recursive-lambda-via-comprehension", recursive: true,
			pre: "(lambda f, n: f(f, n))(lambda f, n: len(", post: "([n])) - 1 if n == 0 else [f(f, k) for k in [n - 1]][0], 2)"},
		// static rules that do not depend on any option
		{name: "lambda-dup-param", pre: "(", fixed: "lambda a, b, a: 0", post: ")"},
		{name: "lambda-required-after-optional", pre: "(", fixed: "lambda a=1, b: 0", post: ")"},
		{name: "lambda-two-star-params", pre: "(", fixed: "lambda *a, *b: 0", post: ")"},
		{name: "lambda-param-after-kwargs", pre: "(", fixed: "lambda **k, a: 0", post: ")"},
		{name: "dup-kwarg", pre: "", fixed: "trace(a=1, b=2, a=3)", post: ""},
		{name: "positional-after-named", pre: "", fixed: "trace(a=1, 2)", post: ""},
		{name: "two-star-args", pre: "", fixed: "trace(*[], *[])", post: ""},
		{name: "positional-after-starstar", pre: "", fixed: "trace(**{}, 1)", post: ""},
		{name: "lambda-default-refers-to-own-param", pre: "(", fixed: "lambda zq, o=zq: o", post: ")"},
		{name: "comprehension-var-after-comprehension", pre: "[zq for zq in [1]] + [", fixed: "zq", post: "]"},
	}
	var many []string
	for i := 0; i < 256; i++ {
		many = append(many, fmt.Sprint(i))
	}
	ts = append(ts, exprTemplate{name: "256-positional", fixed: "trace(" + strings.Join(many, ", ") + ")"})
	return ts
}

var exprRoutes = []string{"EvalOptions", "EvalExprOptions", "ExprFuncOptions", "resolve.ExprOptions", "ExecREPLChunk", "ExecFileOptions"}

// routeOutcome is what one entry route did with one expression.
type routeOutcome struct {
	static  error // rejected before execution
	dynamic error // accepted, evaluation failed
	events  int
	ran     bool // the route evaluates (resolve.ExprOptions and an uncalled ExprFunc do not)
	panic   *sl.Panic
}

func isStaticError(err error) bool {
	if err == nil {
		return false
	}
	if _, ok := err.(*starlark.EvalError); ok {
		return false
	}
	return len(errorPositions(err)) > 0
}

// driveRoute sends the expression src through one entry route. shift receives the column offset of the
// expression within what the route parses.
func driveRoute(route string, opts *syntax.FileOptions, src string) (out routeOutcome, shift int) {
	env, nevents, th := c01.StaticEnv()
	th.SetMaxExecutionSteps(200000)
	split := func(err error) {
		if isStaticError(err) {
			out.static = err
		} else {
			out.dynamic = err
		}
	}
	out.panic = sl.Safe(func() {
		switch route {
		case "EvalOptions":
			out.ran = true
			_, err := starlark.EvalOptions(opts, th, "expr.star", src, env)
			split(err)
		case "EvalExprOptions":
			expr, err := opts.ParseExpr("expr.star", src, 0)
			if err != nil {
				out.static = err
				return
			}
			out.ran = true
			_, err = starlark.EvalExprOptions(opts, th, expr, env)
			split(err)
		case "ExprFuncOptions":
			fn, err := starlark.ExprFuncOptions(opts, "expr.star", src, env)
			if err != nil {
				out.static = err
				return
			}
			if nevents() != 0 {
				return // judged by the caller: building the function must not run it
			}
			out.ran = true
			_, err = starlark.Call(th, fn, nil, nil)
			out.dynamic = err
		case "resolve.ExprOptions":
			expr, err := opts.ParseExpr("expr.star", src, 0)
			if err != nil {
				out.static = err
				return
			}
			_, err = resolve.ExprOptions(opts, expr, env.Has, starlark.Universe.Has)
			out.static = err
		case "ExecREPLChunk":
			f, err := opts.Parse("expr.star", src+"\n", 0)
			if err != nil {
				out.static = err
				return
			}
			globals := starlark.StringDict{}
			for k, v := range env {
				globals[k] = v
			}
			out.ran = true
			split(starlark.ExecREPLChunk(f, th, globals))
		case "ExecFileOptions":
			shift = len("x = ")
			out.ran = true
			_, err := starlark.ExecFileOptions(opts, th, "expr.star", "x = "+src+"\n", env)
			split(err)
		}
	})
	out.events = nevents()
	return out, shift
}

func armExprRoutes(c *driver.Ctx) {
	const head = "[trace(0), "
	for _, t := range exprTemplates() {
		holes := []string{"set", "list", "zz_undef"}
		if t.fixed != "" {
			holes = []string{""}
		}
		for _, hole := range holes {
			if !c.Take() {
				continue
			}
			construct, class := hole, "hole-"+hole
			if t.fixed != "" {
				construct, class = t.fixed, "rule-"+t.name
			}
			src := head + t.pre + construct + t.post + "]"
			spanS := len(head) + len(t.pre) + 1 // 1-based column of the construct's first byte
			spanE := spanS + len(construct) - 1
			c.Note("expression routes: %s / %s", t.name, class)
			for ob := 0; ob < 64; ob++ {
				opts := sl.OptionsFromBits(ob)
				expectAccept := t.fixed == "" && (hole == "list" || hole == "set" && opts.Set)
				expectDynFail := t.recursive && !opts.Recursion
				for _, route := range exprRoutes {
					out, shift := driveRoute(route, opts, src)
					c.Eval(1)
					detail := map[string]any{"route": route, "options": sl.OptionsString(opts), "expression": driver.Truncate(src, 400), "template": t.name,
						"static_error": fmt.Sprint(out.static), "dynamic_error": fmt.Sprint(out.dynamic), "host_events": out.events}
					what := func(s string) string {
						return fmt.Sprintf("%s under %s: %s: %s", route, sl.OptionsString(opts), driver.Truncate(src, 160), s)
					}
					if out.panic != nil {
						c.Violation("C09 expr-route panic via "+route, what("Go panic: "+out.panic.String()+" at "+out.panic.TopFrame()), detail)
						continue
					}
					accepted := out.static == nil
					switch {
					case accepted && !expectAccept && hole == "set":
						c.Violation("C09 expr-route accepted option-off set via "+route, what("mentions the universal 'set' with the Set option off but was accepted"), detail)
					case accepted && !expectAccept:
						c.Violation("C09 expr-route accepted "+strings.TrimPrefix(class, "rule-")+" via "+route, what("breaks a static rule but was accepted"), detail)
					case !accepted && expectAccept:
						c.Violation("C09 expr-route rejected-valid "+class+" via "+route, what("breaks no rule but was rejected: "+out.static.Error()), detail)
					}
					c.Count(fmt.Sprintf("expr_routes expect_accept=%v got_accept=%v", expectAccept, accepted), 1)
					if !accepted {
						if out.events != 0 {
							c.Violation("C09 expr-route code-ran-before-rejection via "+route, what(fmt.Sprintf("%d host events although the expression was rejected statically", out.events)), detail)
						}
						if !expectAccept {
							ok := false
							for _, p := range errorPositions(out.static) {
								if p.Line == 1 && int(p.Col) >= spanS+shift && int(p.Col) <= spanE+shift {
									ok = true
								}
							}
							if !ok {
								c.Violation("C09 expr-route misplaced-error "+class, what(fmt.Sprintf("no reported error lies inside the offending construct at 1:%d-1:%d: %v", spanS+shift, spanE+shift, out.static)), detail)
							}
							c.Count("expr_routes_error_positions_checked", 1)
						}
						continue
					}
					if route == "ExprFuncOptions" && !out.ran {
						c.Violation("C09 expr-route code-ran-before-call via ExprFuncOptions", what("building the expression function already produced host events"), detail)
						continue
					}
					if !out.ran || !expectAccept {
						continue
					}
					// accepted and evaluated: the dynamic part of the property (recursion) and plain success otherwise
					recursed := out.dynamic != nil && strings.Contains(out.dynamic.Error(), "called recursively")
					switch {
					case expectDynFail && !recursed:
						c.Violation("C09 expr-route recursion not-detected via "+route, what(fmt.Sprintf("a lambda re-entered while active must fail with Recursion off; got err=%v", out.dynamic)), detail)
					case !expectDynFail && recursed:
						c.Violation("C09 expr-route recursion rejected-with-option-on via "+route, what("refused as recursive although nothing is re-entered or the Recursion option is on"), detail)
					case !expectDynFail && out.dynamic != nil:
						c.Violation("C09 expr-route evaluation-failed via "+route, what("valid expression failed: "+out.dynamic.Error()), detail)
					}
					if out.events == 0 {
						c.Violation("C09 expr-route accepted-but-not-run via "+route, what("accepted expression produced no host event when evaluated"), detail)
					}
					if recursed {
						c.Count("expr_routes_recursion_detected", 1)
					}
					c.Count("expr_routes_evaluated", 1)
				}
			}
			c.Distinct("X/" + t.name + "/" + class)
			c.Cover("expr_route_templates", t.name)
			c.Cover("expr_route_constructs", class)
			for _, route := range exprRoutes {
				c.Cover("expr_routes", route)
			}
			if c.WantSample() {
				c.Sample(map[string]any{"family": "expression-routes", "template": t.name, "expression": driver.Truncate(src, 300)})
			}
		}
	}
}

// ---------------------------------------------------------------------------------------------
// argument-count limit: positional and named arguments are limited separately
// ---------------------------------------------------------------------------------------------

var argContexts = []string{"top", "def-body", "lambda-body", "comprehension", "nested-argument", "method-style", "EvalOptions"}

// argCallText renders callee(<p positional>, <n named>[, *[7, 8]][, **{"z": 1}]).
func argCallText(fn string, p, n int, star, sstar bool) string {
	var as []string
	for i := 0; i < p; i++ {
		as = append(as, fmt.Sprint(i))
	}
	for i := 0; i < n; i++ {
		as = append(as, fmt.Sprintf("n%d=%d", i, i))
	}
	if star {
		as = append(as, "*[7, 8]")
	}
	if sstar {
		as = append(as, "**{\"z\": 1}")
	}
	return fn + "(" + strings.Join(as, ", ") + ")"
}

func armArgLimit(c *driver.Ctx) {
	grid := []int{0, 1, 2, 127, 128, 129, 200, 254, 255, 256, 257}
	if c.Thorough() {
		grid = []int{0, 1, 2, 3, 64, 100, 126, 127, 128, 129, 130, 199, 200, 201, 253, 254, 255, 256, 257, 300}
	}
	const prelude = "trace(0)\ndef callee(*a, **k):\n    return (len(a), len(k))\ndef ident(v):\n    return v\nholder = struct(m = callee)\n"
	counter := starlark.NewBuiltin("callee", func(_ *starlark.Thread, _ *starlark.Builtin, args starlark.Tuple, kwargs []starlark.Tuple) (starlark.Value, error) {
		return starlark.Tuple{starlark.MakeInt(len(args)), starlark.MakeInt(len(kwargs))}, nil
	})
	opts := &syntax.FileOptions{}
	for pi, p := range grid {
		for ni, n := range grid {
			if !c.Take() {
				continue
			}
			c.Note("argument limit: %d positional + %d named", p, n)
			expectAccept := p <= 255 && n <= 255
			class := "within-limits"
			switch {
			case !expectAccept:
				class = "over-limit"
			case p+n >= 256:
				class = "within-limits-total-over-255"
			}
			for ci, ctx := range argContexts {
				v := (pi + ni + ci) % 4
				star, sstar := v&1 != 0, v&2 != 0
				fn := "callee"
				if ctx == "method-style" {
					fn = "holder.m"
				}
				call := argCallText(fn, p, n, star, sstar)
				var src string
				var pre string // text before the call
				switch ctx {
				case "top":
					pre = prelude + "x = "
					src = pre + call + "\n"
				case "def-body":
					pre = prelude + "def g():\n    return "
					src = pre + call + "\nx = g()\n"
				case "lambda-body":
					pre = prelude + "x = (lambda: "
					src = pre + call + ")()\n"
				case "comprehension":
					pre = prelude + "x = ["
					src = pre + call + " for _ in [0]][0]\n"
				case "nested-argument":
					pre = prelude + "x = ident("
					src = pre + call + ")\n"
				case "method-style":
					pre = prelude + "x = "
					src = pre + call + "\n"
				case "EvalOptions":
					pre = "[trace(0), "
					src = pre + call + "][1]"
				}
				line := 1 + strings.Count(pre, "\n")
				colS := len(pre) - (strings.LastIndex(pre, "\n") + 1) + 1
				colE := colS + len(call) - 1

				env, nevents, th := c01.StaticEnv()
				th.SetMaxExecutionSteps(200000)
				var err error
				var result starlark.Value
				pn := sl.Safe(func() {
					if ctx == "EvalOptions" {
						env["callee"] = counter
						result, err = starlark.EvalOptions(opts, th, "args.star", src, env)
					} else {
						var g starlark.StringDict
						g, err = starlark.ExecFileOptions(opts, th, "args.star", src, env)
						result = g["x"]
					}
				})
				c.Eval(1)
				detail := map[string]any{"positional": p, "named": n, "star_args": star, "starstar_kwargs": sstar, "context": ctx,
					"call": driver.Truncate(call, 120), "error": fmt.Sprint(err)}
				what := func(s string) string {
					return fmt.Sprintf("call with %d positional + %d named arguments (star=%v, starstar=%v) in %s: %s", p, n, star, sstar, ctx, s)
				}
				c.Cover("arg_limit_classes", class)
				c.Cover("arg_limit_contexts", ctx)
				if pn != nil {
					c.Violation("C09 argument-limit panic "+class, what("Go panic instead of accept/reject: "+pn.String()+" at "+pn.TopFrame()), detail)
					continue
				}
				accepted := !isStaticError(err)
				c.Count(fmt.Sprintf("arg_limit %s got_accept=%v", class, accepted), 1)
				switch {
				case accepted && !expectAccept:
					c.Violation("C09 accepted over-limit-arguments", what("more than 255 positional or named arguments were accepted"), detail)
				case !accepted && expectAccept:
					c.Violation("C09 rejected-valid argument-count "+class, what("neither count exceeds 255 but the program was rejected: "+err.Error()), detail)
				case !accepted:
					if nevents() != 0 {
						c.Violation("C09 code-ran-before-rejection over-limit-arguments", what(fmt.Sprintf("%d host events although the program is statically invalid", nevents())), detail)
					}
					ok := false
					for _, q := range errorPositions(err) {
						if int(q.Line) == line && int(q.Col) >= colS && int(q.Col) <= colE {
							ok = true
						}
					}
					if !ok {
						c.Violation("C09 misplaced-error over-limit-arguments", what(fmt.Sprintf("no reported error lies inside the call at %d:%d-%d:%d: %v", line, colS, line, colE, err)), detail)
					}
					c.Count("arg_limit_error_positions_checked", 1)
				default:
					// accepted as expected: it must also run and deliver exactly the arguments written
					wantP, wantN := p, n
					if star {
						wantP += 2
					}
					if sstar {
						wantN++
					}
					want := fmt.Sprintf("(%d, %d)", wantP, wantN)
					got := "<nil>"
					if result != nil {
						got = result.String()
					}
					if err != nil || got != want {
						c.Violation("C09 argument-limit wrong-delivery "+class, what(fmt.Sprintf("callee saw %s, want %s (err=%v)", got, want, err)), detail)
					}
					c.Count("arg_limit_calls_executed", 1)
				}
			}
			c.Distinct(fmt.Sprintf("A/%d/%d", p, n))
		}
	}
}

// ---------------------------------------------------------------------------------------------
// re-entry through built-in callbacks over sequences of every small length
// ---------------------------------------------------------------------------------------------

var (
	callbackBuiltins = []string{"sorted", "sorted-reverse", "min", "max", "min-varargs", "max-varargs"}
	callbackPaths    = []string{"direct", "via-lambda", "mutual", "closure-copy", "lambda-self"}
	callbackSeqs     = []string{"list", "tuple", "comprehension", "dict-keys", "range"}
)

// callbackProgram builds a program in which entry(2) reaches `builtin(seq of length L, key=<active definition>)`.
// It returns "" when the combination does not exist (e.g. min of zero positional arguments).
// enteredBefore = number of traced function bodies that run before the re-entry is attempted.
func callbackProgram(builtin, path, seqKind string, L int) (src string, enteredBefore int) {
	elem := "n - 1"
	var seq string
	switch seqKind {
	case "list":
		seq = "[" + strings.TrimSuffix(strings.Repeat(elem+", ", L), ", ") + "]"
	case "tuple":
		seq = "(" + strings.Repeat(elem+", ", L) + ")"
	case "comprehension":
		seq = fmt.Sprintf("[%s for _ in range(%d)]", elem, L)
	case "dict-keys":
		// distinct keys, all < n so that the recursion terminates when it is allowed
		var ks []string
		for i := 0; i < L; i++ {
			ks = append(ks, fmt.Sprintf("n - %d: 0", i+1))
		}
		seq = "{" + strings.Join(ks, ", ") + "}"
	case "range":
		seq = fmt.Sprintf("range(n - %d, n)", L)
	}
	var use string // expression over KEY
	switch builtin {
	case "sorted":
		use = "len(sorted(" + seq + ", key=KEY))"
	case "sorted-reverse":
		use = "len(sorted(" + seq + ", key=KEY, reverse=True))"
	case "min", "max":
		if L == 0 {
			return "", 0 // an empty sequence is an error of its own
		}
		use = "ident(" + builtin + "(" + seq + ", key=KEY))"
	case "min-varargs", "max-varargs":
		if L < 2 || seqKind != "list" {
			return "", 0 // f(x, key=...) with one positional argument treats x as the sequence
		}
		use = "ident(" + strings.TrimSuffix(builtin, "-varargs") + "(" + strings.TrimSuffix(strings.Repeat(elem+", ", L), ", ") + ", key=KEY))"
	}
	var b strings.Builder
	b.WriteString("def ident(v):\n    return v\n")
	body := func(name, key string) {
		fmt.Fprintf(&b, "def %s(n):\n    trace(%q, n)\n    if n <= 0:\n        return 0\n    return %s\n", name, name, strings.Replace(use, "KEY", key, 1))
	}
	switch path {
	case "direct":
		body("f", "f")
		b.WriteString("entry = f\n")
		enteredBefore = 1
	case "via-lambda":
		body("f", "lambda k: f(k)")
		b.WriteString("entry = f\n")
		enteredBefore = 1
	case "mutual":
		b.WriteString("def f(n):\n    trace(\"f\", n)\n    if n <= 0:\n        return 0\n    return g(n)\n")
		body("g", "f")
		b.WriteString("entry = f\n")
		enteredBefore = 2
	case "closure-copy":
		// two closures of ONE def: the callback is the other copy
		fmt.Fprintf(&b, "other = [None]\ndef mk(tag):\n    def inner(n):\n        trace(\"inner\", tag, n)\n        if n <= 0:\n            return 0\n        return %s\n    return inner\n", strings.Replace(use, "KEY", "other[0]", 1))
		b.WriteString("c1 = mk(1)\nc2 = mk(2)\nother[0] = c2\nentry = c1\n")
		enteredBefore = 1
	case "lambda-self":
		// a lambda that is its own callback
		fmt.Fprintf(&b, "cell = [None]\ncell[0] = lambda n: 0 if n <= 0 else (trace(\"lam\", n), %s)[1]\nentry = cell[0]\n", strings.Replace(use, "KEY", "cell[0]", 1))
		enteredBefore = 1
	}
	return b.String(), enteredBefore
}

func armCallbackLengths(c *driver.Ctx) {
	maxLen := c.Pick(4, 9)
	for _, builtin := range callbackBuiltins {
		for _, path := range callbackPaths {
			if !c.Take() {
				continue
			}
			c.Note("callback lengths: %s / %s", builtin, path)
			for _, seqKind := range callbackSeqs {
				for L := 0; L <= maxLen; L++ {
					src, enteredBefore := callbackProgram(builtin, path, seqKind, L)
					if src == "" {
						continue
					}
					for _, rec := range []bool{false, true} {
						for _, entryRoute := range []string{"module", "host-call"} {
							opts := &syntax.FileOptions{Recursion: rec}
							env, nevents, th := c01.StaticEnv()
							th.SetMaxExecutionSteps(300000)
							var err error
							pn := sl.Safe(func() {
								if entryRoute == "module" {
									_, err = starlark.ExecFileOptions(opts, th, "cb.star", src+"result = entry(2)\n", env)
									return
								}
								var g starlark.StringDict
								g, err = starlark.ExecFileOptions(opts, th, "cb.star", src, env)
								if err != nil {
									return
								}
								_, _, th2 := c01.StaticEnv()
								th2.SetMaxExecutionSteps(300000)
								_, err = starlark.Call(th2, g["entry"], starlark.Tuple{starlark.MakeInt(2)}, nil)
							})
							c.Eval(1)
							detail := map[string]any{"builtin": builtin, "path": path, "sequence": seqKind, "length": L, "recursion_option": rec, "entry": entryRoute,
								"source": src, "error": fmt.Sprint(err), "host_events": nevents()}
							what := func(s string) string {
								return fmt.Sprintf("%s over a %s of length %d, callback path %s, Recursion=%v, entered by %s: %s", builtin, seqKind, L, path, rec, entryRoute, s)
							}
							c.Cover("callback_builtins", builtin)
							c.Cover("callback_paths", path)
							c.Cover("callback_sequences", fmt.Sprintf("%s/len=%d", seqKind, L))
							if pn != nil {
								c.Violation("C09 recursion callback panic", what("Go panic: "+pn.String()+" at "+pn.TopFrame()), detail)
								continue
							}
							if isStaticError(err) {
								c.Violation("C09 rejected-valid callback-program", what("valid program rejected: "+err.Error()), detail)
								continue
							}
							recursed := err != nil && strings.Contains(err.Error(), "called recursively")
							expectFail := !rec && L >= 1
							lenClass := "len>=2"
							if L == 1 {
								lenClass = "len=1"
							}
							switch {
							case expectFail && !recursed:
								c.Violation("C09 recursion not-detected via "+strings.TrimSuffix(strings.TrimSuffix(builtin, "-reverse"), "-varargs")+"-callback "+lenClass,
									what(fmt.Sprintf("the key callback re-enters an active definition and must fail; got err=%v", err)), detail)
							case expectFail:
								c.Count("callback_recursion_detected", 1)
								// the refused call runs nothing: only the bodies entered before the re-entry left a trace
								// (the module route's own statements produce no events)
								if entryRoute == "module" && nevents() != enteredBefore {
									c.Violation("C09 recursion callback body-ran-after-refusal", what(fmt.Sprintf("%d traced bodies ran, want %d", nevents(), enteredBefore)), detail)
								}
							case recursed:
								c.Violation("C09 recursion rejected-with-option-on callback", what("refused as recursive although the Recursion option is on or no callback can occur"), detail)
							case err != nil:
								c.Violation("C09 recursion callback-program-failed", what("program must complete: "+err.Error()), detail)
							default:
								c.Count("callback_programs_completed", 1)
							}
						}
					}
					c.Distinct(fmt.Sprintf("K/%s/%s/%s/%d", builtin, path, seqKind, L))
				}
			}
		}
	}
}
