// Package c16 monitors property C16 "Errors report the true call stack and source positions":
// programs are generated as syntax trees with one planted failing operation at the end of a chain of
// calls; gen.Render writes the position of every token into the tree, so the expected
// EvalError.CallStack (names, file, line, column of every frame) is read from the tree and compared
// with what the interpreter reports, under layouts that drive the delta-encoded line table through
// its saturation, continuation and sign-extension paths.
package c16

import (
	"bytes"
	"errors"
	"fmt"
	"math/rand"
	"os"
	"runtime"
	"runtime/debug"
	"sort"
	"strings"

	"go.starlark.net/starlark"
	"go.starlark.net/starlarkstruct"
	"go.starlark.net/syntax"

	"verif/internal/driver"
	"verif/internal/sl"
)

const (
	progFile = "c16prog.star"
	libFile  = "c16lib.star"
)

func init() {
	driver.Register(&driver.Engine{
		ID: "C16", Level: "exploration",
		Rule: "Each case is one generated program of one or two modules (PRNG from seed and case index): a chain of 1-8 Starlark frames (module code, top-level defs, nested defs/closures, lambdas, " +
			"functions fetched from containers, functions loaded from a second module, the module code of a loaded module) entered by direct calls (CALL, CALL_KW, CALL_VAR, CALL_VAR_KW), through " +
			"built-in callbacks (sorted/min/max key=, host apply, nested apply, a host callable with its own Position) or by a load statement, ending in one planted failing operation of 27 kinds; the call/failing token of every frame is placed under independently drawn extremes " +
			"(line gaps 0-100 000 before the statement, its enclosing control statement, the def and the first body statement; 0-5 000 preceding statements, also inside if/for/while bodies " +
			"so that blocks are laid out of source order; column padding 0-10 000 runes by string literals with multi-byte runes, triple-quoted multi-line strings or thousands of constants; " +
			"random layouts with continuations, bracket line breaks, comments). The expected stack is read from the position fields gen.Render wrote into the tree. Every program is judged twice: " +
			"as compiled from source and after Program.Write/CompiledProgram. A case counts as distinct by (failing kind/sub-kind, stack depth, callback forms, column class and line class of the " +
			"failing token, class of preceding statements).",
		Assumptions: []string{
			"verif/internal/gen renderer: the (line, rune column) it records for each token is the token's true position in the text it emits (validated separately against the repo corpus)",
			"the generated program fails at the planted operation and nowhere earlier (wrappers only evaluate literals, bound int variables and total built-ins before it)",
			"frame naming and the <builtin> position of built-in frames as documented in starlark/eval.go (frame.Position, CallFrame, EvalError.Backtrace)",
			"the callee frame of an arity/recursion error has run no instruction, so it reports Funcode.Position(0): the position attached to the callee's first emitted instruction, i.e. the def/lambda keyword (the compiler's initial position) unless the first emitted instruction is preceded by a setPos (identifier lookup); the generator builds such callees from templates with a known answer",
			"x[i] op= y and x.f op= y: failing read and failing write-back are demanded at '[' / '.', a failing operator at op= (DESIGN section 9); for slice, duplicate dict key and load only containment in the operation's span is demanded",
			"'not in' is identified by the position of 'in' (scanner convention adopted by gen.Render)",
			"the line-table classes in the evidence are read from Program.Write output with a decoder written from the format comment in internal/compile/serial.go; they never take part in a verdict",
		},
		Run:         run,
		MinDistinct: 300,
		Finish:      finish,
	})
}

var (
	needKinds     []string
	needCallbacks = []string{"direct", "sorted", "min", "max", "apply", "apply2", "hostpos", "load"}
	needDepths    = []string{"1", "2", "3", "4", "5", "6", "7", "8"}
)

func init() {
	for _, m := range siteMakers {
		needKinds = append(needKinds, m.kind)
	}
}

func finish(ev map[string]any) (string, bool) {
	cover, _ := ev["cover"].(map[string]map[string]struct{})
	counters, _ := ev["counters"].(map[string]int64)
	var missing []string
	need := func(group string, items ...string) {
		for _, it := range items {
			if _, ok := cover[group][it]; !ok {
				missing = append(missing, group+":"+it)
			}
		}
	}
	need("failing_kinds", needKinds...)
	need("callback_forms", needCallbacks...)
	need("stack_depth_starlark_frames", needDepths...)
	for _, dim := range []string{"dline", "dcol"} {
		// the entry a judged frame resolved to
		need("lnt_"+dim+"_of_judged_frames",
			"positive/unsaturated", "positive/saturated-once", "positive/saturated>=3", "negative/unsaturated")
		// entries whose deltas were accumulated on the way to it (blocks laid out of source order come last in a table)
		need("lnt_"+dim+"_accumulated_up_to_judged_frames",
			"positive/unsaturated", "positive/saturated-once", "positive/saturated>=3",
			"negative/unsaturated", "negative/saturated-once", "negative/saturated>=3")
	}
	need("lnt_dpc_of_judged_frames", "unsaturated", "saturated-once", "saturated>=3")
	need("lnt_boundary_deltas_before_judged_frame", "dline=15", "dline=16", "dline=-16", "dline=-17", "dcol=31", "dcol=32", "dcol=-32", "dcol=-33", "dpc=15", "dpc=16")
	need("failing_token_column", "1-32", "33-100", "101-1000", "1001-5000", "5001-10100")
	need("failing_token_line", "1-16", "17-100", "101-1000", "1001-10000", "10001-100000", ">100000")
	if counters["frames_exact_position_checked"] == 0 || counters["backtraces_checked"] == 0 || counters["programs_judged_after_serialization"] == 0 {
		missing = append(missing, "a comparison path observed nothing")
	}
	if n := counters["lnt_decode_failed"]; n > 0 {
		missing = append(missing, fmt.Sprintf("line tables unreadable in %d programs", n))
	}
	if len(missing) > 0 {
		return "monitor did not observe: " + strings.Join(missing, ", "), true
	}
	return "", false
}

// ---- host environment ----

type hostPos struct{}

func (hostPos) String() string        { return "<built-in function hostpos>" }
func (hostPos) Type() string          { return "builtin_function_or_method" }
func (hostPos) Freeze()               {}
func (hostPos) Truth() starlark.Bool  { return starlark.True }
func (hostPos) Hash() (uint32, error) { return 7, nil }
func (hostPos) Name() string          { return "hostpos" }
func (hostPos) Position() syntax.Position {
	f := hostPosFile
	return syntax.MakePosition(&f, hostPosLine, hostPosCol)
}
func (hostPos) CallInternal(th *starlark.Thread, args starlark.Tuple, kwargs []starlark.Tuple) (starlark.Value, error) {
	if len(args) == 0 {
		return nil, fmt.Errorf("hostpos: no function")
	}
	return starlark.Call(th, args[0], args[1:], kwargs)
}

const snapKey = "c16.snapshot"

var env = starlark.StringDict{
	"ok": starlark.NewBuiltin("ok", func(*starlark.Thread, *starlark.Builtin, starlark.Tuple, []starlark.Tuple) (starlark.Value, error) {
		return starlark.None, nil
	}),
	"apply": starlark.NewBuiltin("apply", func(th *starlark.Thread, _ *starlark.Builtin, args starlark.Tuple, kwargs []starlark.Tuple) (starlark.Value, error) {
		if len(args) == 0 {
			return nil, fmt.Errorf("apply: no function")
		}
		return starlark.Call(th, args[0], args[1:], kwargs)
	}),
	"hostfail": starlark.NewBuiltin("hostfail", func(th *starlark.Thread, _ *starlark.Builtin, args starlark.Tuple, kwargs []starlark.Tuple) (starlark.Value, error) {
		th.SetLocal(snapKey, th.CallStack())
		return nil, fmt.Errorf("host error")
	}),
	"hostpos": hostPos{},
	"flist":   frozenList(),
	"fdict":   frozenDict(),
	"rec":     starlarkstruct.FromStringDict(starlarkstruct.Default, starlark.StringDict{"a": starlark.MakeInt(1), "b": starlark.MakeInt(2)}),
}

func frozenList() starlark.Value {
	l := starlark.NewList([]starlark.Value{starlark.MakeInt(1), starlark.MakeInt(2)})
	l.Freeze()
	return l
}

func frozenDict() starlark.Value {
	d := starlark.NewDict(2)
	d.SetKey(starlark.String("k"), starlark.MakeInt(1))
	d.Freeze()
	return d
}

func newThread(loadMode int, lib *starlark.Program) *starlark.Thread {
	return &starlark.Thread{
		Name:  "c16",
		Print: func(*starlark.Thread, string) {},
		Load: func(th *starlark.Thread, module string) (starlark.StringDict, error) {
			if module == libFile && lib != nil {
				return lib.Init(th, env)
			}
			if loadMode == 2 {
				return starlark.StringDict{"other": starlark.None}, nil
			}
			return nil, fmt.Errorf("module %s is broken", module)
		},
	}
}

func (w *want) file() string {
	switch {
	case w.Pos != nil:
		return w.Pos.Filename()
	case w.Span != nil:
		s, _ := w.Span.Span()
		return s.Filename()
	}
	return progFile
}

// ---- the monitor ----

func run(c *driver.Ctx) {
	runtime.GOMAXPROCS(2)
	debug.SetGCPercent(400)
	n := c.Pick(2_000, 150_000)
	for i := 0; i < n; i++ {
		if !c.Take() {
			continue
		}
		oneCase(c, c.Rand())
	}
}

type obsFrame struct {
	Name      string `json:"name"`
	File      string `json:"file"`
	Line, Col int32
}

func (f obsFrame) String() string { return fmt.Sprintf("%s@%s:%d:%d", f.Name, f.File, f.Line, f.Col) }

func oneCase(c *driver.Ctx, r *rand.Rand) {
	p := build(r)
	src, libSrc := p.render(r)
	c.Note("C16 kind=%s/%s depth=%d bytes=%d+%d", p.kind, p.sub, p.depth, len(src), len(libSrc))
	if d := os.Getenv("C16_DUMP"); d != "" { // triage aid for --replay: write the program text
		os.WriteFile(d, []byte(src), 0o644)
		os.WriteFile(d+".lib", []byte(libSrc), 0o644)
	}
	j := &judge{c: c, p: p, src: src, libSrc: libSrc}
	srcDetail := map[string]any{"src": driver.Truncate(src, 4000), "lib": driver.Truncate(libSrc, 4000)}

	compile := func(name, text string) *starlark.Program {
		var prog *starlark.Program
		var err error
		if pn := sl.Safe(func() { _, prog, err = starlark.SourceProgramOptions(p.opts, name, text, env.Has) }); pn != nil {
			c.Violation("C16 panic while compiling a generated program", pn.String(), map[string]any{"src": srcDetail, "stack": pn.Stack})
			return nil
		}
		if err != nil {
			// the generator is meant to emit statically valid programs only
			c.Inconclusive("generated program rejected (%s/%s): %v", p.kind, p.sub, err)
			c.Count("generator_invalid_program", 1)
			return nil
		}
		return prog
	}
	prog := compile(progFile, src)
	if prog == nil {
		return
	}
	var lib *starlark.Program
	if p.libStmts != nil {
		if lib = compile(libFile, libSrc); lib == nil {
			return
		}
	}

	exec := func(main, lib *starlark.Program, arm string) (error, *starlark.Thread, bool) {
		th := newThread(p.loadMode, lib)
		var runErr error
		if pn := sl.Safe(func() { _, runErr = main.Init(th, env) }); pn != nil {
			c.Violation("C16 panic while running a generated program"+arm, pn.String(), map[string]any{"src": srcDetail, "stack": pn.Stack})
			return nil, nil, false
		}
		return runErr, th, true
	}
	runErr, th, ok := exec(prog, lib, "")
	if !ok {
		return
	}
	okSrc := j.check(runErr, th, "")
	c.Count("programs_judged_from_source", 1)

	// the same programs after a round trip through the serialized form
	const arm2 = " [after Program.Write/CompiledProgram]"
	roundTrip := func(pr *starlark.Program) (*starlark.Program, []byte) {
		if pr == nil {
			return nil, nil
		}
		var buf bytes.Buffer
		if werr := pr.Write(&buf); werr != nil {
			c.Violation("C16 Program.Write failed", werr.Error(), srcDetail)
			return nil, nil
		}
		data := buf.Bytes()
		var pr2 *starlark.Program
		var derr error
		if pn := sl.Safe(func() { pr2, derr = starlark.CompiledProgram(bytes.NewReader(data)) }); pn != nil || derr != nil {
			c.Violation("C16 CompiledProgram failed on Program.Write output", fmt.Sprint(pn, derr), srcDetail)
			return nil, nil
		}
		return pr2, data
	}
	prog2, data := roundTrip(prog)
	lib2, libData := roundTrip(lib)
	if prog2 == nil || lib != nil && lib2 == nil {
		return
	}
	runErr2, th2, ok := exec(prog2, lib2, arm2)
	if !ok {
		return
	}
	j.check(runErr2, th2, arm2)
	c.Count("programs_judged_after_serialization", 1)

	c.Eval(1)
	if !okSrc {
		return
	}
	j.evidence(j.evalError(runErr), data, libData)
}

type judge struct {
	c      *driver.Ctx
	p      *program
	src    string
	libSrc string
}

// evalError returns the error that carries the stack of the failure: an error raised while a loaded
// module runs is wrapped by the load statement ("cannot load ...") and is reached through Unwrap.
func (j *judge) evalError(err error) *starlark.EvalError {
	var ee *starlark.EvalError
	for e := err; e != nil; e = errors.Unwrap(e) {
		if x, ok := e.(*starlark.EvalError); ok {
			ee = x // innermost
		}
	}
	return ee
}

func (j *judge) wantText() []string {
	var out []string
	for _, w := range j.p.frames {
		switch {
		case w.Builtin:
			out = append(out, fmt.Sprintf("%s@<builtin>:0:0", w.Name))
		case w.Host:
			out = append(out, fmt.Sprintf("%s@%s:%d:%d", w.Name, hostPosFile, hostPosLine, hostPosCol))
		case w.Pos != nil:
			out = append(out, fmt.Sprintf("%s@%s:%d:%d", w.Name, w.Pos.Filename(), w.Pos.Line, w.Pos.Col))
		default:
			s, e := w.Span.Span()
			out = append(out, fmt.Sprintf("%s@%s:[%d:%d .. %d:%d]", w.Name, w.file(), s.Line, s.Col, e.Line, e.Col))
		}
	}
	return out
}

// excerpt shows the source around (line, col).
func (j *judge) excerpt(file string, line, col int32) string {
	if line <= 0 {
		return ""
	}
	// find the line without splitting the whole text
	s := j.src
	if file == libFile {
		s = j.libSrc
	}
	for i := int32(1); i < line; i++ {
		k := strings.IndexByte(s, '\n')
		if k < 0 {
			return ""
		}
		s = s[k+1:]
	}
	if k := strings.IndexByte(s, '\n'); k >= 0 {
		s = s[:k]
	}
	rs := []rune(s)
	lo, hi := int(col)-1-40, int(col)-1+40
	if lo < 0 {
		lo = 0
	}
	if hi > len(rs) {
		hi = len(rs)
	}
	if lo > hi {
		return ""
	}
	return fmt.Sprintf("…%s…", string(rs[lo:hi]))
}

func (j *judge) violation(key, what string, obs []obsFrame, msg string) {
	var o []string
	for _, f := range obs {
		o = append(o, f.String())
	}
	var ctx []string
	for _, w := range j.p.frames {
		if w.Pos != nil {
			ctx = append(ctx, fmt.Sprintf("%s:%d:%d %s", w.file(), w.Pos.Line, w.Pos.Col, j.excerpt(w.file(), w.Pos.Line, w.Pos.Col)))
		}
	}
	small := j.src
	if len(small) > 6000 {
		small = driver.Truncate(small, 6000)
	}
	j.c.Violation(key, fmt.Sprintf("%s; kind=%s/%s depth=%d; want %v; got %v; error %q", what, j.p.kind, j.p.sub, j.p.depth, j.wantText(), o, driver.Truncate(msg, 200)),
		map[string]any{"kind": j.p.kind, "sub": j.p.sub, "want": j.wantText(), "got": o, "error": msg, "context_at_expected": ctx,
			"options": sl.OptionsString(j.p.opts), "source_bytes": len(j.src), "source": small, "library_source": driver.Truncate(j.libSrc, 6000), "callbacks": j.p.callbacks})
}

func inSpan(n syntax.Node, line, col int32) (ok bool) {
	defer func() {
		if recover() != nil {
			ok = false
		}
	}()
	s, e := n.Span()
	after := line > s.Line || line == s.Line && col >= s.Col
	before := line < e.Line || line == e.Line && col <= e.Col
	return after && before
}

// check judges one failing execution against the expected frames. It reports whether the stack was as expected.
func (j *judge) check(err error, th *starlark.Thread, arm string) bool {
	c := j.c
	if err == nil {
		j.violation("C16 planted failure did not fail: "+j.p.kind+arm, "the program finished without error", nil, "")
		return false
	}
	if _, isEval := err.(*starlark.EvalError); !isEval {
		j.violation("C16 failure is not reported as *EvalError"+arm, fmt.Sprintf("error of type %T", err), nil, err.Error())
		return false
	}
	ee := j.evalError(err)
	if ee != err {
		// the failure happened while a loaded module was running: the load statement reports it too,
		// as an EvalError of its own whose stack is that of the loading frames
		c.Count("failures_inside_load_checked", 1)
		if !j.outerLoad(err.(*starlark.EvalError), ee, arm) {
			return false
		}
	}
	obs := make([]obsFrame, len(ee.CallStack))
	for i, f := range ee.CallStack {
		obs[i] = obsFrame{f.Name, f.Pos.Filename(), f.Pos.Line, f.Pos.Col}
	}
	want := j.p.frames
	good := true

	// shape: length, order, names
	shapeOK := len(obs) == len(want)
	if shapeOK {
		for i := range want {
			if obs[i].Name != want[i].Name {
				shapeOK = false
			}
		}
	}
	if !shapeOK {
		what := "call stack has the wrong frames"
		key := "C16 wrong frame list (length/order/names): " + j.p.kind
		if len(obs) == len(want) {
			// same length: reversed?
			rev := true
			for i := range want {
				if obs[len(obs)-1-i].Name != want[i].Name {
					rev = false
				}
			}
			if rev && len(want) > 1 {
				what = "call stack is innermost first"
			}
		}
		j.violation(key+arm, what, obs, ee.Msg)
		return false
	}

	last := len(want) - 1
	innermostStarlark := -1
	for i := last; i >= 0; i-- {
		if !want[i].Builtin && !want[i].Host {
			innermostStarlark = i
			break
		}
	}
	for i, w := range want {
		o := obs[i]
		switch {
		case w.Builtin:
			c.Count("builtin_frames_checked", 1)
			if o.File != "<builtin>" || o.Line != 0 || o.Col != 0 {
				j.violation("C16 built-in frame does not carry the <builtin> position"+arm, fmt.Sprintf("frame %d (%s)", i, w.Name), obs, ee.Msg)
				good = false
			}
		case w.Host:
			c.Count("host_position_frames_checked", 1)
			if o.File != hostPosFile || o.Line != hostPosLine || o.Col != hostPosCol {
				j.violation("C16 built-in with a Position method: frame does not carry it"+arm, fmt.Sprintf("frame %d (%s)", i, w.Name), obs, ee.Msg)
				good = false
			}
		case w.Pos != nil:
			c.Count("frames_exact_position_checked", 1)
			if w.Callee {
				c.Count("callee_frames_of_binding_errors_checked", 1)
			}
			if o.File != w.file() || o.Line != w.Pos.Line || o.Col != w.Pos.Col {
				role := "caller frame (" + w.Role + ")"
				if i == innermostStarlark {
					role = "innermost frame (" + w.Role + ")"
				}
				j.violation("C16 wrong position in "+role+arm,
					fmt.Sprintf("frame %d (%s): want %s:%d:%d got %s:%d:%d [%s]", i, w.Name, w.file(), w.Pos.Line, w.Pos.Col, o.File, o.Line, o.Col, j.excerpt(o.File, o.Line, o.Col)), obs, ee.Msg)
				good = false
			}
		default:
			c.Count("frames_span_checked", 1)
			if o.File != w.file() || !inSpan(w.Span, o.Line, o.Col) {
				j.violation("C16 position outside the operation's span: "+w.Role+arm, fmt.Sprintf("frame %d (%s): got %d:%d", i, w.Name, o.Line, o.Col), obs, ee.Msg)
				good = false
			}
		}
	}

	if !j.backtrace(ee, obs, arm) {
		good = false
	}

	// Thread.CallStack observed by the failing host built-in is the stack the error carries.
	if j.p.kind == "host_builtin_error" {
		if snap, ok := th.Local(snapKey).(starlark.CallStack); ok {
			c.Count("thread_callstack_snapshots_compared", 1)
			same := len(snap) == len(ee.CallStack)
			for i := 0; same && i < len(snap); i++ {
				a, b := snap[i], ee.CallStack[i]
				if a.Name != b.Name || a.Pos.Filename() != b.Pos.Filename() || a.Pos.Line != b.Pos.Line || a.Pos.Col != b.Pos.Col {
					same = false
				}
			}
			if !same {
				j.violation("C16 Thread.CallStack inside the failing built-in differs from EvalError.CallStack"+arm, fmt.Sprint(snap), obs, ee.Msg)
				good = false
			}
		}
	}

	if j.p.msg != "" && !strings.Contains(ee.Msg, j.p.msg) {
		c.Count("message_differs_from_generator_hint", 1)
		c.Cover("message_hint_mismatch", j.p.kind+"/"+j.p.sub)
	}
	return good
}

func posText(f obsFrame) string {
	// the documented rendering of a position: file:line:col, or the bare file name when there is no line
	if f.Line > 0 {
		if f.Col > 0 {
			return fmt.Sprintf("%s:%d:%d", f.File, f.Line, f.Col)
		}
		return fmt.Sprintf("%s:%d", f.File, f.Line)
	}
	return f.File
}

// backtrace demands consistency of Backtrace() with CallStack: every frame's position and name, outermost
// first, then the message; a trailing built-in frame may be folded into the "Error in <name>:" line.
func (j *judge) backtrace(ee *starlark.EvalError, obs []obsFrame, arm string) bool {
	j.c.Count("backtraces_checked", 1)
	var bt string
	if pn := sl.Safe(func() { bt = ee.Backtrace() }); pn != nil {
		j.violation("C16 Backtrace panics"+arm, pn.String(), obs, ee.Msg)
		return false
	}
	bad := func(why string) bool {
		j.violation("C16 Backtrace text inconsistent with CallStack"+arm, why+": "+driver.Truncate(bt, 1500), obs, ee.Msg)
		return false
	}
	if !strings.HasSuffix(bt, ee.Msg) {
		return bad("the message is not last")
	}
	head := bt[:len(bt)-len(ee.Msg)]
	cur := 0
	nlines := 0
	for i, f := range obs {
		line := fmt.Sprintf("%s: in %s\n", posText(f), f.Name)
		k := strings.Index(head[cur:], line)
		if k < 0 {
			if i == len(obs)-1 && f.File == "<builtin>" {
				k2 := strings.Index(head[cur:], "in "+f.Name)
				if k2 < 0 {
					return bad(fmt.Sprintf("built-in frame %s not mentioned", f.Name))
				}
				cur += k2
				continue
			}
			return bad(fmt.Sprintf("frame %d (%s) missing or out of order", i, f))
		}
		cur += k + len(line)
		nlines++
	}
	if got := strings.Count(head, ": in "); got != nlines {
		return bad(fmt.Sprintf("%d frame lines for %d frames", got, nlines))
	}
	return true
}

// ---- evidence ----

func colClass(c int32) string {
	switch {
	case c <= 32:
		return "1-32"
	case c <= 100:
		return "33-100"
	case c <= 1000:
		return "101-1000"
	case c <= 5000:
		return "1001-5000"
	default:
		return "5001-10100"
	}
}

func lineClass(l int32) string {
	switch {
	case l <= 16:
		return "1-16"
	case l <= 100:
		return "17-100"
	case l <= 1000:
		return "101-1000"
	case l <= 10000:
		return "1001-10000"
	case l <= 100000:
		return "10001-100000"
	default:
		return ">100000"
	}
}

// outerLoad judges the error reported by a load statement whose module failed while running: it must be an
// EvalError whose message embeds the module's failure and whose stack is the stack of the loading frames.
func (j *judge) outerLoad(outer, inner *starlark.EvalError, arm string) bool {
	var obs []obsFrame
	for _, f := range outer.CallStack {
		obs = append(obs, obsFrame{f.Name, f.Pos.Filename(), f.Pos.Line, f.Pos.Col})
	}
	n := 0
	for n < len(j.p.frames) && j.p.frames[n].file() == progFile && j.p.frames[n].Role != "load" {
		n++
	}
	n++ // the loading frame itself
	ok := len(outer.CallStack) == n && n <= len(inner.CallStack) && strings.HasSuffix(outer.Msg, inner.Msg) && strings.Contains(outer.Msg, libFile)
	for i := 0; ok && i < n; i++ {
		a, b := outer.CallStack[i], inner.CallStack[i]
		if a.Name != b.Name || a.Pos.Filename() != b.Pos.Filename() || a.Pos.Line != b.Pos.Line || a.Pos.Col != b.Pos.Col {
			ok = false
		}
	}
	if !ok {
		j.violation("C16 error of a load statement whose module failed does not carry the loading frames"+arm, fmt.Sprintf("outer %q", driver.Truncate(outer.Msg, 200)), obs, inner.Msg)
	}
	return ok
}

func (j *judge) evidence(ee *starlark.EvalError, data, libData []byte) {
	c, p := j.c, j.p
	c.Cover("failing_kinds", p.kind)
	c.Cover("failing_subkinds", p.kind+"/"+p.sub)
	c.Cover("stack_depth_starlark_frames", fmt.Sprint(p.depth))
	c.Cover("stack_depth_all_frames", fmt.Sprint(len(p.frames)))
	for _, cb := range p.callbacks {
		c.Cover("callback_forms", cb)
	}
	for _, k := range p.fnKinds {
		c.Cover("callee_kinds", k)
	}
	for f := range p.features {
		c.Cover("program_features", f)
	}
	c.Cover("layout", layoutName(p))
	c.Cover("preceding_statements_max", p.preClass)

	// the failing token: position expected in the innermost Starlark frame
	cc, lc := "-", "-"
	for i := len(p.frames) - 1; i >= 0; i-- {
		w := p.frames[i]
		if w.Builtin || w.Host || w.Callee {
			continue
		}
		if w.Pos != nil {
			cc, lc = colClass(w.Pos.Col), lineClass(w.Pos.Line)
			c.Cover("failing_token_column", cc)
			c.Cover("failing_token_line", lc)
		}
		break
	}
	for _, w := range p.frames {
		if w.Pos != nil && strings.HasPrefix(w.Role, "call") {
			c.Cover("caller_token_column", colClass(w.Pos.Col))
			c.Cover("caller_token_line", lineClass(w.Pos.Line))
		}
	}
	cbs := append([]string(nil), p.callbacks...)
	sort.Strings(cbs)
	c.Distinct(fmt.Sprintf("%s/%s|d%d|%s|c%s|l%s|p%s", p.kind, p.sub, p.depth, strings.Join(cbs, ","), cc, lc, p.preClass))

	// line-table classes of the entries the judged frames resolved to
	mainTabs, err := decodeTables(data)
	if err != nil {
		c.Count("lnt_decode_failed", 1)
		return
	}
	var libTabs []fnTable
	if libData != nil {
		if libTabs, err = decodeTables(libData); err != nil {
			c.Count("lnt_decode_failed", 1)
			return
		}
	}
	rows, inc := 0, 0
	for _, t := range append(append([]fnTable(nil), mainTabs...), libTabs...) {
		rows += t.nrows
		inc += t.nrows - len(t.entries)
	}
	c.Count("lnt_rows_in_programs", rows)
	c.Count("lnt_continuation_rows_in_programs", inc)
	for i, w := range p.frames {
		if w.Pos == nil && w.Span == nil {
			continue
		}
		var t *fnTable
		tabs := mainTabs
		if w.file() == libFile {
			tabs = libTabs
			c.Count("frames_in_second_file", 1)
		}
		if len(tabs) == 0 {
			c.Count("lnt_function_not_found", 1)
			continue
		}
		if w.FnPos == nil {
			t = &tabs[0]
		} else {
			for k := 1; k < len(tabs); k++ {
				if tabs[k].line == w.FnPos.Line && tabs[k].col == w.FnPos.Col {
					t = &tabs[k]
					break
				}
			}
		}
		if t == nil {
			c.Count("lnt_function_not_found", 1)
			continue
		}
		o := ee.CallStack[i].Pos
		matched := false
		pathLine, pathCol, pathPC := map[string]bool{}, map[string]bool{}, map[string]bool{}
		for k := range t.entries {
			e := &t.entries[k]
			if !matched {
				// the decoder accumulates deltas: every entry up to the one looked up contributes to the reported position
				boundary(c, e)
				pathLine[signClass(e.dline)+"/"+satClass(e.sline)] = true
				pathCol[signClass(e.dcol)+"/"+satClass(e.scol)] = true
				pathPC[satClass(e.spc)] = true
			}
			if e.line == o.Line && e.col == o.Col {
				if !matched {
					for k := range pathLine {
						c.Cover("lnt_dline_accumulated_up_to_judged_frames", k)
					}
					for k := range pathCol {
						c.Cover("lnt_dcol_accumulated_up_to_judged_frames", k)
					}
					for k := range pathPC {
						c.Cover("lnt_dpc_accumulated_up_to_judged_frames", k)
					}
				}
				matched = true
				c.Count("lnt_entries_matched_to_judged_frames", 1)
				c.Cover("lnt_dline_of_judged_frames", signClass(e.dline)+"/"+satClass(e.sline))
				c.Cover("lnt_dcol_of_judged_frames", signClass(e.dcol)+"/"+satClass(e.scol))
				c.Cover("lnt_dpc_of_judged_frames", satClass(e.spc))
				if os.Getenv("C16_DEBUG") != "" {
					c.Count("dbg dline "+signClass(e.dline)+"/"+satClass(e.sline), 1)
					c.Count("dbg dcol "+signClass(e.dcol)+"/"+satClass(e.scol), 1)
					c.Count("dbg dpc "+satClass(e.spc), 1)
					for k := range pathLine {
						c.Count("dbg path dline "+k, 1)
					}
					for k := range pathCol {
						c.Count("dbg path dcol "+k, 1)
					}
				}
				if e.rows >= 100 {
					c.Cover("lnt_rows_per_entry_of_judged_frames", ">=100")
				} else if e.rows >= 10 {
					c.Cover("lnt_rows_per_entry_of_judged_frames", "10-99")
				} else {
					c.Cover("lnt_rows_per_entry_of_judged_frames", fmt.Sprint(e.rows))
				}
			}
		}
		if !matched {
			c.Count("lnt_entry_not_found_for_frame", 1)
		}
	}

	if c.WantSample() && len(j.src) < 1500 {
		var o []string
		for _, f := range ee.CallStack {
			o = append(o, fmt.Sprintf("%s@%s", f.Name, f.Pos))
		}
		c.Sample(map[string]any{"kind": p.kind + "/" + p.sub, "source": j.src, "stack": o, "error": ee.Msg})
	}
}

func boundary(c *driver.Ctx, e *lntEntry) {
	switch e.dline {
	case 15, 16, -16, -17, 30, 31, -32, -33:
		c.Cover("lnt_boundary_deltas_before_judged_frame", fmt.Sprintf("dline=%d", e.dline))
	}
	switch e.dcol {
	case 31, 32, -32, -33, 62, 63, -64, -65:
		c.Cover("lnt_boundary_deltas_before_judged_frame", fmt.Sprintf("dcol=%d", e.dcol))
	}
	switch e.dpc {
	case 15, 16, 30, 31:
		c.Cover("lnt_boundary_deltas_before_judged_frame", fmt.Sprintf("dpc=%d", e.dpc))
	}
}

func layoutName(p *program) string {
	l := p.layout
	switch {
	case l.Minimal:
		return "plain"
	case l.Continuation > 0 && l.BracketBreaks >= 0.5:
		return "bracket-breaks+continuations+comments"
	case l.Continuation > 0:
		return "tabs+continuations+breaks+comments+semicolons"
	default:
		return "spaces+comments+semicolons"
	}
}
