package c16

import (
	"fmt"
	"math/rand"
	"testing"
	"time"

	"go.starlark.net/starlark"
)

func TestTiming(t *testing.T) {
	for seed := int64(0); seed < 1500; seed++ {
		r := rand.New(rand.NewSource(seed))
		t0 := time.Now()
		p := build(r)
		t1 := time.Now()
		src, _ := p.render(r)
		t2 := time.Now()
		_, prog, err := starlark.SourceProgramOptions(p.opts, progFile, src, env.Has)
		t3 := time.Now()
		if err != nil {
			t.Fatal(err)
		}
		th := newThread(p.loadMode, nil)
		_, rerr := prog.Init(th, env)
		t4 := time.Now()
		if ee, ok := rerr.(*starlark.EvalError); ok {
			_ = ee.Backtrace()
		}
		t5 := time.Now()
		if t5.Sub(t0) > 150*time.Millisecond {
			fmt.Printf("seed %d kind=%s depth=%d bytes=%d build=%v render=%v compile=%v run=%v bt=%v\n", seed, p.kind, p.depth, len(src), t1.Sub(t0), t2.Sub(t1), t3.Sub(t2), t4.Sub(t3), t5.Sub(t4))
		}
	}
}
