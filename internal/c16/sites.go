package c16

import (
	"math/rand"
	"strings"

	"go.starlark.net/syntax"

	"verif/internal/gen"
)

const (
	hostPosFile = "host_callbacks.go"
	hostPosLine = 12
	hostPosCol  = 3
)

func builtinFrame(name string) *want { return &want{Name: name, Builtin: true, Role: "builtin"} }

// ---- failing operations ----

type siteMaker struct {
	kind string
	ok   func(ctx *lctx, g *generator) bool
	mk   func(g *generator, ctx *lctx) site
}

func always(*lctx, *generator) bool     { return true }
func notLambda(c *lctx, _ *generator) bool { return !c.lambda }
func inDef(c *lctx, _ *generator) bool  { return !c.lambda && !c.top }

var siteMakers []siteMaker

func init() {
	siteMakers = []siteMaker{
		{"call_nonfunction", always, mkCallNonFunction},
		{"binary", always, mkBinary},
		{"binary_plus_chain", always, mkPlusChain},
		{"percent_format", always, mkPercent},
		{"unary", always, mkUnary},
		{"index", always, mkIndex},
		{"attr", always, mkAttr},
		{"fail", always, mkFail},
		{"builtin_error", always, mkBuiltinError},
		{"host_builtin_error", always, mkHostFail},
		{"undef_global", func(c *lctx, g *generator) bool { return !c.top || !g.globalReassign }, mkUndefGlobal},
		{"undef_local", inDef, mkUndefLocal},
		{"undef_free", func(c *lctx, _ *generator) bool { return c.freeUndef != "" }, mkUndefFree},
		{"unpack_comprehension", always, mkCompUnpack},
		{"iterate_comprehension", always, mkCompNonIter},
		{"unpack_assign", notLambda, mkUnpackAssign},
		{"unpack_for", notLambda, mkUnpackFor},
		{"iterate_for", notLambda, mkForNonIter},
		{"augassign_operator", func(c *lctx, g *generator) bool { return !c.lambda && (!c.top || g.globalReassign) }, mkAugOp},
		{"setindex", notLambda, mkSetIndex},
		{"setfield", notLambda, mkSetField},
		// x[i] op= y and x.f op= y: failing read and failing write-back are both at '[' / '.', the operator at op=
		{"augassign_target", notLambda, mkAugTarget},
		{"arity", always, mkArity},
		{"recursion", func(c *lctx, _ *generator) bool { return c.selfCall != nil }, mkRecursion},
		// outside the property's list: position only demanded inside the operation's span
		{"loose_slice", always, mkSlice},
		{"loose_dict_duplicate", always, mkDictDup},
		{"loose_load", func(c *lctx, _ *generator) bool { return c.top }, mkLoad},
	}
}

func pick[T any](r *rand.Rand, xs ...T) T { return xs[r.Intn(len(xs))] }

func mkCallNonFunction(g *generator, ctx *lctx) site {
	var fn syntax.Expr
	switch g.r.Intn(5) {
	case 0:
		fn = g.ivar(ctx)
	case 1:
		fn = id("None")
	case 2:
		fn = slit("s")
	case 3:
		fn = list(ilit(1))
	default:
		fn = &syntax.IndexExpr{X: list(g.iv(ctx)), Y: ilit(0)}
	}
	var args []syntax.Expr
	sub := "CALL"
	switch g.r.Intn(5) {
	case 0:
	case 1:
		args = []syntax.Expr{g.iv(ctx), slit("x")}
	case 2:
		args = []syntax.Expr{ilit(1), named("k", g.iv(ctx))}
		sub = "CALL_KW"
	case 3:
		args = []syntax.Expr{&syntax.UnaryExpr{Op: syntax.STAR, X: list(ilit(1))}}
		sub = "CALL_VAR"
	default:
		args = []syntax.Expr{ilit(1), &syntax.UnaryExpr{Op: syntax.STAR, X: list()}, &syntax.UnaryExpr{Op: syntax.STARSTAR, X: &syntax.DictExpr{}}}
		sub = "CALL_VAR_KW"
	}
	c := call(fn, args...)
	return site{expr: c, pos: &c.Lparen, sub: sub, msg: "invalid call of non-function"}
}

func mkBinary(g *generator, ctx *lctx) site {
	type t struct {
		op   syntax.Token
		x, y syntax.Expr
		msg  string
	}
	iv := func() syntax.Expr { return g.iv(ctx) }
	cases := []t{
		{syntax.PLUS, iv(), slit("a"), "unknown binary op: int + string"},
		{syntax.PLUS, slit("a"), iv(), "unknown binary op: string + int"},
		{syntax.PLUS, iv(), list(), "unknown binary op: int + list"},
		{syntax.SLASHSLASH, iv(), ilit(0), "division by zero"},
		{syntax.PERCENT, iv(), ilit(0), "modulo by zero"},
		{syntax.SLASH, iv(), ilit(0), "division by zero"},
		{syntax.SLASHSLASH, flit(1.5), ilit(0), "division by zero"},
		{syntax.STAR, slit("a"), slit("b"), "unknown binary op"},
		{syntax.MINUS, iv(), slit("a"), "unknown binary op"},
		{syntax.LT, iv(), slit("a"), "not implemented"},
		{syntax.GE, list(ilit(1)), list(slit("a")), "not implemented"},
		{syntax.IN, iv(), iv(), "unknown binary op: int in int"},
		{syntax.NOT_IN, iv(), iv(), "unknown binary op: int in int"},
		{syntax.IN, iv(), slit("abc"), "requires string as left operand"},
		{syntax.NOT_IN, g.iv(ctx), ilit(7), "unknown binary op: int in int"},
		{syntax.LTLT, iv(), ilit(-1), "negative shift count"},
		{syntax.GTGT, iv(), slit("a"), "want int"},
		{syntax.AMP, iv(), slit("a"), "unknown binary op"},
		{syntax.PIPE, iv(), id("None"), "unknown binary op"},
		{syntax.CIRCUMFLEX, list(), iv(), "unknown binary op"},
	}
	c := cases[g.r.Intn(len(cases))]
	b := bin(c.op, c.x, c.y)
	return site{expr: b, pos: &b.OpPos, sub: c.op.String(), msg: c.msg}
}

// mkPlusChain: every '+' of a chain keeps its own position although the compiler flattens the chain
// and folds adjacent literals.
func mkPlusChain(g *generator, ctx *lctx) site {
	iv := func() syntax.Expr { return g.iv(ctx) }
	switch g.r.Intn(6) {
	case 0: // "a" + "b" + 1: the literals are folded; the second '+' fails
		inner := bin(syntax.PLUS, slit("a"), slit("b"))
		outer := bin(syntax.PLUS, inner, iv())
		return site{expr: outer, pos: &outer.OpPos, sub: "folded-left-second-plus", msg: "string + int"}
	case 1: // 1 + "a" + "b": "a" and "b" are folded; by left associativity the first '+' fails
		inner := bin(syntax.PLUS, iv(), slit("a"))
		outer := bin(syntax.PLUS, inner, slit("b"))
		return site{expr: outer, pos: &inner.OpPos, sub: "folded-right-first-plus", msg: "int + string"}
	case 2: // [1] + [2] + 1
		inner := bin(syntax.PLUS, list(ilit(1)), list(ilit(2)))
		outer := bin(syntax.PLUS, inner, iv())
		return site{expr: outer, pos: &outer.OpPos, sub: "folded-lists-second-plus", msg: "list + int"}
	case 3: // 1 + 2 + "a"
		inner := bin(syntax.PLUS, iv(), iv())
		outer := bin(syntax.PLUS, inner, slit("a"))
		return site{expr: outer, pos: &outer.OpPos, sub: "second-plus", msg: "int + string"}
	case 4: // 1 + 2 + 3 + "a" + 4: third '+'
		a := bin(syntax.PLUS, iv(), iv())
		b := bin(syntax.PLUS, a, iv())
		c := bin(syntax.PLUS, b, slit("a"))
		d := bin(syntax.PLUS, c, iv())
		return site{expr: d, pos: &c.OpPos, sub: "third-plus-of-four", msg: "int + string"}
	default: // 1 + ("a" + "b") + 2: first '+'
		a := bin(syntax.PLUS, iv(), &syntax.ParenExpr{X: bin(syntax.PLUS, slit("a"), slit("b"))})
		b := bin(syntax.PLUS, a, iv())
		return site{expr: b, pos: &a.OpPos, sub: "paren-operand-first-plus", msg: "int + string"}
	}
}

func mkPercent(g *generator, ctx *lctx) site {
	var b *syntax.BinaryExpr
	var msg string
	switch g.r.Intn(4) {
	case 0:
		b, msg = bin(syntax.PERCENT, slit("%d"), slit("x")), "%d format requires integer"
	case 1:
		b, msg = bin(syntax.PERCENT, slit("%s %s"), &syntax.TupleExpr{List: []syntax.Expr{g.iv(ctx)}}), "not enough arguments"
	case 2:
		b, msg = bin(syntax.PERCENT, slit("%z"), g.iv(ctx)), "unknown conversion"
	default:
		b, msg = bin(syntax.PERCENT, slit("%s"), &syntax.TupleExpr{List: []syntax.Expr{ilit(1), g.iv(ctx)}}), "too many arguments"
	}
	return site{expr: b, pos: &b.OpPos, msg: msg}
}

func mkUnary(g *generator, ctx *lctx) site {
	op := pick(g.r, syntax.MINUS, syntax.TILDE, syntax.PLUS)
	var x syntax.Expr
	switch g.r.Intn(4) {
	case 0:
		x = slit("a")
	case 1:
		x = list()
	case 2:
		x = id("None")
	default:
		x = &syntax.DictExpr{}
	}
	u := &syntax.UnaryExpr{Op: op, X: x}
	return site{expr: u, pos: &u.OpPos, sub: op.String(), msg: "unknown unary op"}
}

func mkIndex(g *generator, ctx *lctx) site {
	var x, y syntax.Expr
	var msg, sub string
	switch g.r.Intn(9) {
	case 0:
		x, y, msg, sub = list(ilit(1), ilit(2)), ilit(5), "out of range", "list-range"
	case 1:
		x, y, msg, sub = &syntax.DictExpr{}, slit("k"), "not in dict", "dict-key"
	case 2:
		x, y, msg, sub = &syntax.DictExpr{}, list(), "unhashable", "unhashable"
	case 3:
		x, y, msg, sub = g.ivar(ctx), ilit(0), "unhandled index operation", "not-indexable"
	case 4:
		x, y, msg, sub = slit("abc"), ilit(10), "out of range", "string-range"
	case 5:
		x, y, msg, sub = &syntax.TupleExpr{List: []syntax.Expr{ilit(1)}}, ilit(3), "out of range", "tuple-range"
	case 6:
		x, y, msg, sub = list(ilit(1)), slit("a"), "want int", "index-type"
	case 7:
		x, y, msg, sub = id("None"), g.iv(ctx), "unhandled index operation", "none"
	default:
		x, y, msg, sub = list(ilit(1)), bin(syntax.PLUS, g.iv(ctx), ilit(7)), "out of range", "computed"
	}
	e := &syntax.IndexExpr{X: x, Y: y}
	return site{expr: e, pos: &e.Lbrack, sub: sub, msg: msg}
}

func mkAttr(g *generator, ctx *lctx) site {
	var x syntax.Expr
	switch g.r.Intn(7) {
	case 0:
		x = slit("s")
	case 1:
		x = g.ivar(ctx)
	case 2:
		x = id("None")
	case 3:
		x = list()
	case 4:
		x = &syntax.DictExpr{}
	case 5:
		x = id("ok")
	default:
		x = &syntax.DotExpr{X: slit("s"), Name: id("upper")}
	}
	e := &syntax.DotExpr{X: x, Name: id(pick(g.r, "nope", "x", "joinn"))}
	return site{expr: e, pos: &e.Dot, msg: "has no ."}
}

func mkFail(g *generator, ctx *lctx) site {
	var args []syntax.Expr
	switch g.r.Intn(4) {
	case 0:
		args = []syntax.Expr{slit("boom")}
	case 1:
		args = []syntax.Expr{slit("a"), g.iv(ctx)}
	case 2:
		args = nil
	default:
		args = []syntax.Expr{slit("a"), slit("b"), named("sep", slit("-"))}
	}
	c := call(id("fail"), args...)
	return site{expr: c, pos: &c.Lparen, extra: []*want{builtinFrame("fail")}, msg: "fail:"}
}

func mkBuiltinError(g *generator, ctx *lctx) site {
	type t struct {
		name string
		e    func() *syntax.CallExpr
	}
	m := func(recv syntax.Expr, name string, args ...syntax.Expr) func() *syntax.CallExpr {
		return func() *syntax.CallExpr { return call(&syntax.DotExpr{X: recv, Name: id(name)}, args...) }
	}
	f := func(name string, args ...syntax.Expr) func() *syntax.CallExpr {
		return func() *syntax.CallExpr { return call(id(name), args...) }
	}
	cases := []t{
		{"join", m(slit(""), "join", ilit(1))},
		{"len", f("len", g.iv(ctx))},
		{"len", f("len")},
		{"int", f("int", slit("x"))},
		{"pop", m(list(), "pop")},
		{"pop", m(&syntax.DictExpr{}, "pop", slit("k"))},
		{"index", m(slit("a"), "index", slit("b"))},
		{"index", m(list(), "index", ilit(1))},
		{"list", f("list", g.iv(ctx))},
		{"range", f("range", slit("a"))},
		{"getattr", f("getattr", ilit(1), slit("x"))},
		{"hash", f("hash", list())},
		{"chr", f("chr", ilit(-1))},
		{"ord", f("ord", slit("ab"))},
		{"update", m(&syntax.DictExpr{}, "update", ilit(1))},
		{"startswith", m(slit("x"), "startswith", ilit(1))},
		{"sorted", f("sorted", g.iv(ctx))},
		{"min", f("min", list())},
		{"zip", f("zip", ilit(1))},
		{"enumerate", f("enumerate", g.iv(ctx))},
		{"tuple", f("tuple", ilit(1))},
		{"any", f("any", ilit(1))},
		{"abs", f("abs", slit("a"))},
		{"sorted", f("sorted", list(ilit(1), slit("a")))},
		{"format", m(slit("{"), "format", ilit(1))},
		{"insert", m(list(), "insert", slit("a"), ilit(1))},
		{"setdefault", m(&syntax.DictExpr{}, "setdefault", list())},
	}
	c := cases[g.r.Intn(len(cases))]
	e := c.e()
	return site{expr: e, pos: &e.Lparen, extra: []*want{builtinFrame(c.name)}, sub: c.name}
}

func mkHostFail(g *generator, ctx *lctx) site {
	c := call(id("hostfail"), g.iv(ctx))
	return site{expr: c, pos: &c.Lparen, extra: []*want{builtinFrame("hostfail")}, msg: "host error"}
}

func mkUndefGlobal(g *generator, ctx *lctx) site {
	name := g.fresh("gu")
	u := id(name)
	// the binding that makes the name a global: after the failure in module order, or in a branch that never runs
	// (the only choice when the failing function lives in a library module, whose module code has finished)
	var bind syntax.Stmt = assign(id(name), ilit(1))
	if g.cutLevel > 0 || g.r.Intn(3) == 0 {
		bind = &syntax.IfStmt{Cond: id("False"), True: []syntax.Stmt{bind}}
	}
	g.tail = append(g.tail, bind)
	return site{expr: u, pos: &u.NamePos, msg: "global variable " + name + " referenced before assignment"}
}

func mkUndefLocal(g *generator, ctx *lctx) site {
	name := g.fresh("lu")
	u := id(name)
	st := site{expr: u, pos: &u.NamePos, sub: "local", msg: "local variable " + name + " referenced before assignment"}
	bind := assign(id(name), ilit(1))
	switch g.r.Intn(4) {
	case 0:
		st.post = []syntax.Stmt{bind}
	case 1: // bound only in a branch that is not taken
		st.pre = []syntax.Stmt{&syntax.IfStmt{Cond: g.falseCond(ctx), True: []syntax.Stmt{bind}}}
		st.sub = "local-branch"
	case 2: // captured by a nested function: the local lives in a cell
		st.post = []syntax.Stmt{bind, &syntax.DefStmt{Name: id(g.fresh("in")), Body: []syntax.Stmt{&syntax.ReturnStmt{Result: id(name)}}}}
		st.sub = "cell"
	default:
		st.pre = []syntax.Stmt{assign(id(g.fresh("r")), &syntax.LambdaExpr{Body: id(name)})}
		st.post = []syntax.Stmt{bind}
		st.sub = "cell-lambda"
	}
	return st
}

func mkUndefFree(g *generator, ctx *lctx) site {
	u := id(ctx.freeUndef)
	return site{expr: u, pos: &u.NamePos, sub: "free", msg: "local variable " + ctx.freeUndef + " referenced before assignment"}
}

// wideName is a fresh identifier, sometimes thousands of runes long (column padding for statement sites).
func (g *generator) wideName(prefix string) string {
	n := g.fresh(prefix)
	if !g.small && g.r.Intn(3) == 0 {
		if k := g.drawCols(); k > len(n) {
			g.padChars += k
			g.feat("pad:long-identifier")
			n += "_" + strings.Repeat("q", k-len(n)-1)
		}
	}
	return n
}

// wideList is a list literal, sometimes with a long string element first.
func (g *generator) wideList(elems ...syntax.Expr) syntax.Expr {
	if !g.small && g.r.Intn(3) == 0 {
		if k := g.drawCols(); k > 2 {
			return list(append([]syntax.Expr{g.padString(k, g.r.Intn(3) == 0)}, elems...)...)
		}
	}
	return list(elems...)
}

func (g *generator) targets2(form int) syntax.Expr {
	a, b := id(g.wideName("u")), id(g.fresh("u"))
	switch form {
	case 0:
		t := &syntax.TupleExpr{List: []syntax.Expr{a, b}}
		g.p.noParen[t] = true
		return t
	case 1:
		return &syntax.TupleExpr{List: []syntax.Expr{a, b}}
	case 2:
		return &syntax.ListExpr{List: []syntax.Expr{a, b}}
	default:
		return &syntax.ParenExpr{X: &syntax.TupleExpr{List: []syntax.Expr{a, b}}}
	}
}

// badPair is a value that does not unpack into two targets.
func (g *generator) badPair(ctx *lctx) (syntax.Expr, string, string) {
	switch g.r.Intn(6) {
	case 0:
		return g.iv(ctx), "in sequence assignment", "non-iterable"
	case 1:
		return list(ilit(1)), "too few values to unpack", "too-few"
	case 2:
		return list(ilit(1), ilit(2), ilit(3)), "too many values to unpack", "too-many"
	case 3:
		return &syntax.TupleExpr{List: []syntax.Expr{g.iv(ctx)}}, "too few values to unpack", "too-few"
	case 4:
		return slit("ab"), "in sequence assignment", "non-iterable"
	default:
		return id("None"), "in sequence assignment", "non-iterable"
	}
}

func mkUnpackAssign(g *generator, ctx *lctx) site {
	if g.r.Intn(5) == 0 {
		// a, (b, c) = 1, 2: the inner unpack fails, still at '='
		inner := &syntax.TupleExpr{List: []syntax.Expr{id(g.fresh("u")), id(g.fresh("u"))}}
		lhs := &syntax.TupleExpr{List: []syntax.Expr{id(g.fresh("u")), inner}}
		g.p.noParen[lhs] = true
		rhs := &syntax.TupleExpr{List: []syntax.Expr{ilit(1), g.iv(ctx)}}
		g.p.noParen[rhs] = true
		s := assign(lhs, rhs)
		return site{stmt: s, pos: &s.OpPos, sub: "nested", msg: "in sequence assignment"}
	}
	rhs, msg, sub := g.badPair(ctx)
	s := assign(g.targets2(g.r.Intn(4)), rhs)
	return site{stmt: s, pos: &s.OpPos, sub: sub, msg: msg}
}

func mkUnpackFor(g *generator, ctx *lctx) site {
	elem, msg, sub := g.badPair(ctx)
	x := list(elem)
	if g.r.Intn(3) == 0 {
		x = list(&syntax.TupleExpr{List: []syntax.Expr{ilit(1), ilit(2)}}, elem) // fails in the second iteration
		sub += "-second-iteration"
	}
	s := &syntax.ForStmt{Vars: g.targets2(pick(g.r, 0, 0, 1, 3)), X: x, Body: []syntax.Stmt{g.padStmt(ctx, true)}}
	return site{stmt: s, pos: &s.For, sub: sub, msg: msg}
}

func mkForNonIter(g *generator, ctx *lctx) site {
	x := pick(g.r, g.iv(ctx), syntax.Expr(id("None")), syntax.Expr(slit("abc")))
	s := &syntax.ForStmt{Vars: id(g.fresh("fv")), X: x, Body: []syntax.Stmt{pass()}}
	return site{stmt: s, pos: &s.For, msg: "not iterable"}
}

func mkCompUnpack(g *generator, ctx *lctx) site {
	elem, msg, sub := g.badPair(ctx)
	fc := &syntax.ForClause{Vars: g.targets2(pick(g.r, 0, 0, 1, 3)), X: list(elem)}
	clauses := []syntax.Node{fc}
	if g.r.Intn(3) == 0 {
		cv := g.fresh("cv")
		fc.X = list(id(cv))
		clauses = []syntax.Node{&syntax.ForClause{Vars: id(cv), X: list(elem)}, fc}
		sub += "-second-clause"
	}
	c := &syntax.Comprehension{Body: ilit(1), Clauses: clauses}
	if g.r.Intn(3) == 0 {
		c.Curly = true
		c.Body = &syntax.DictEntry{Key: ilit(1), Value: ilit(2)}
	}
	return site{expr: c, pos: &fc.For, sub: sub, msg: msg}
}

func mkCompNonIter(g *generator, ctx *lctx) site {
	fc := &syntax.ForClause{Vars: id(g.fresh("cv")), X: pick(g.r, g.iv(ctx), syntax.Expr(id("None")))}
	clauses := []syntax.Node{fc}
	if g.r.Intn(3) == 0 {
		clauses = []syntax.Node{&syntax.ForClause{Vars: id(g.fresh("cv")), X: list(ilit(1))}, &syntax.IfClause{Cond: g.trueCond(ctx)}, fc}
	}
	c := &syntax.Comprehension{Body: ilit(1), Clauses: clauses}
	return site{expr: c, pos: &fc.For, msg: "not iterable"}
}

// assignable returns an int variable of the frame that may be re-bound here, with the statement that defines it if needed.
func (g *generator) assignable(ctx *lctx) (string, []syntax.Stmt) {
	if len(ctx.assign) > 0 && g.r.Intn(2) == 0 {
		return ctx.assign[g.r.Intn(len(ctx.assign))], nil
	}
	v := g.wideName("a")
	return v, []syntax.Stmt{assign(id(v), ilit(1))}
}

func mkAugOp(g *generator, ctx *lctx) site {
	v, pre := g.assignable(ctx)
	var op syntax.Token
	var rhs syntax.Expr
	var msg string
	switch g.r.Intn(7) {
	case 0:
		op, rhs, msg = syntax.PLUS_EQ, slit("a"), "int + string"
	case 1:
		op, rhs, msg = syntax.MINUS_EQ, slit("a"), "unknown binary op"
	case 2:
		op, rhs, msg = syntax.SLASHSLASH_EQ, ilit(0), "division by zero"
	case 3:
		op, rhs, msg = syntax.PIPE_EQ, slit("a"), "unknown binary op"
	case 4:
		op, rhs, msg = syntax.PERCENT_EQ, ilit(0), "modulo by zero"
	case 5:
		op, rhs, msg = syntax.LTLT_EQ, ilit(-1), "negative shift"
	default:
		// list += non-iterable (in-place add path), dict |= int (in-place pipe path)
		v = g.fresh("a")
		if g.r.Intn(2) == 0 {
			pre = []syntax.Stmt{assign(id(v), list(ilit(1)))}
			op, rhs, msg = syntax.PLUS_EQ, g.iv(ctx), "list + int"
		} else {
			pre = []syntax.Stmt{assign(id(v), &syntax.DictExpr{})}
			op, rhs, msg = syntax.PIPE_EQ, g.iv(ctx), "dict | int"
		}
	}
	s := &syntax.AssignStmt{Op: op, LHS: id(v), RHS: rhs}
	return site{stmt: s, pre: pre, pos: &s.OpPos, sub: op.String(), msg: msg}
}

func mkSetIndex(g *generator, ctx *lctx) site {
	var x, y syntax.Expr
	var msg, sub string
	switch g.r.Intn(5) {
	case 0:
		x, y, msg, sub = g.wideList(ilit(0)), ilit(g.r.Int63n(5)+5), "out of range", "list-range"
	case 1:
		x, y, msg, sub = &syntax.DictExpr{}, list(), "unhashable", "unhashable"
	case 2:
		x, y, msg, sub = &syntax.ParenExpr{X: &syntax.TupleExpr{List: []syntax.Expr{ilit(1)}}}, ilit(0), "does not support item assignment", "tuple"
	case 3:
		x, y, msg, sub = slit("abc"), ilit(0), "does not support item assignment", "string"
	default:
		x, y, msg, sub = g.ivar(ctx), ilit(0), "does not support item assignment", "int"
	}
	lhs := &syntax.IndexExpr{X: x, Y: y}
	s := assign(lhs, g.iv(ctx))
	return site{stmt: s, pos: &lhs.Lbrack, sub: sub, msg: msg}
}

func mkSetField(g *generator, ctx *lctx) site {
	x := pick(g.r, g.ivar(ctx), syntax.Expr(slit("s")), g.wideList(), syntax.Expr(id("None")))
	lhs := &syntax.DotExpr{X: x, Name: id("f")}
	s := assign(lhs, g.iv(ctx))
	return site{stmt: s, pos: &lhs.Dot, msg: "can't assign to .f field"}
}

// calleeBody is the body of a function that is never entered (its arguments do not bind). The callee frame of
// such an error still has pc 0, so it reports Funcode.Position(0): the position attached to the first emitted
// instruction, which is the def keyword (the compiler's initial position) unless a setPos precedes the first emit.
// The templates have a known answer; all have several positioned instructions on later lines.
func (g *generator) calleeBody(defPos *syntax.Position, a string) ([]syntax.Stmt, *syntax.Position) {
	m := g.fresh("m")
	var first []syntax.Stmt
	wpos := defPos
	switch g.r.Intn(6) {
	case 0: // NONE carries no position of its own
		first = []syntax.Stmt{assign(id(m), id("None"))}
	case 1: // the identifier's position replaces the initial one before the first emit
		x := id(a)
		first = []syntax.Stmt{assign(id(m), x)}
		wpos = &x.NamePos
	case 2: // pass emits nothing (a doc string is not used here: written with redundant parentheses it is compiled)
		x := id(a)
		first = []syntax.Stmt{pass(), assign(id(m), list(x))}
		wpos = &x.NamePos
	case 3: // a constant is emitted first
		first = []syntax.Stmt{assign(id(m), bin(syntax.PLUS, ilit(1), id(a)))}
	case 4:
		h := id("hid")
		first = []syntax.Stmt{assign(id(m), call(h, id(a)))}
		wpos = &h.NamePos
	default:
		first = []syntax.Stmt{assign(id(m), slit("s"))}
	}
	w, u := g.fresh("m"), g.fresh("m")
	rest := []syntax.Stmt{
		assign(id(w), id(a)),
		assign(id(u), bin(syntax.STAR, id(w), id(a))),
		&syntax.IfStmt{Cond: bin(syntax.LT, id(u), ilit(0)), True: []syntax.Stmt{assign(id(u), &syntax.UnaryExpr{Op: syntax.MINUS, X: id(u)})}},
		&syntax.ReturnStmt{Result: call(id("hid"), id(u))},
	}
	for _, s := range rest[:1+g.r.Intn(2)] {
		if g.r.Intn(2) == 0 {
			g.p.before[s] = g.gapText(1 + g.r.Intn(20))
		}
	}
	return append(first, rest...), wpos
}

// warmUp returns e preceded by a call chain that ran and returned at the depths the failing call will use, so
// that the frame objects it gets are recycled ones.
func (g *generator) warmUp(ctx *lctx, st site) site {
	warm := call(id("hid2"), g.iv(ctx))
	if ctx.lambda || g.r.Intn(2) == 0 {
		st.expr = &syntax.TupleExpr{List: []syntax.Expr{warm, st.expr}}
	} else {
		st.pre = append(st.pre, assign(id(g.fresh("r")), warm))
	}
	return st
}

func mkArity(g *generator, ctx *lctx) site {
	if g.r.Intn(4) == 0 {
		// the callee is a lambda
		lam := &syntax.LambdaExpr{Params: []syntax.Expr{id("a"), id("b")}}
		wpos := &lam.Lambda
		switch g.r.Intn(3) {
		case 0:
			x := id("a")
			lam.Body = list(x, bin(syntax.PLUS, id("b"), id("a")), call(id("hid"), id("b")))
			wpos = &x.NamePos
		case 1:
			lam.Body = bin(syntax.PLUS, ilit(1), bin(syntax.STAR, id("a"), call(id("hid"), id("b"))))
		default:
			h := id("hid")
			lam.Body = bin(syntax.PLUS, call(h, id("a")), bin(syntax.MINUS, id("b"), id("a")))
			wpos = &h.NamePos
		}
		c := call(lam, g.iv(ctx))
		st := site{expr: c, pos: &c.Lparen, extra: []*want{{Name: "lambda", Pos: wpos, Callee: true, FnPos: &lam.Lambda, Role: "arity-callee"}}, sub: "lambda", msg: "missing"}
		return g.warmUp(ctx, st)
	}
	name := g.fresh("h")
	d := &syntax.DefStmt{Name: id(name), Params: []syntax.Expr{id("a"), id("b")}}
	body, wpos := g.calleeBody(&d.Def, "a")
	d.Body = body
	g.topDefs = append(g.topDefs, d)
	var args []syntax.Expr
	var sub, msg string
	switch g.r.Intn(4) {
	case 0:
		args, sub, msg = []syntax.Expr{g.iv(ctx)}, "missing", "missing 1 argument"
	case 1:
		args, sub, msg = []syntax.Expr{ilit(1), ilit(2), g.iv(ctx)}, "too-many", "accepts 2 positional arguments"
	case 2:
		args, sub, msg = []syntax.Expr{ilit(1), ilit(2), named("zz", g.iv(ctx))}, "unexpected-keyword", "unexpected keyword argument"
	default:
		args, sub, msg = []syntax.Expr{ilit(1), ilit(2), named("a", g.iv(ctx))}, "multiple-values", "multiple values"
	}
	c := call(id(name), args...)
	st := site{expr: c, pos: &c.Lparen, extra: []*want{{Name: name, Pos: wpos, Callee: true, FnPos: &d.Def, Role: "arity-callee"}}, sub: sub, msg: msg}
	return g.warmUp(ctx, st)
}

func mkRecursion(g *generator, ctx *lctx) site {
	g.needNoRecursion = true
	e := ctx.selfCall()
	c := e.(*syntax.CallExpr)
	// the function's own body starts with a statement whose first instruction has a known position (see calleeBody)
	wpos := ctx.fnPos
	var first syntax.Stmt
	m := g.fresh("m")
	switch g.r.Intn(3) {
	case 0:
		first = assign(id(m), id("None"))
	case 1:
		x := id(ctx.ints[0])
		first = assign(id(m), x)
		wpos = &x.NamePos
	default:
		first = assign(id(m), bin(syntax.PLUS, ilit(1), id(ctx.ints[0])))
	}
	st := site{expr: c, first: first, pos: &c.Lparen, extra: []*want{{Name: ctx.name, Pos: wpos, Callee: true, FnPos: ctx.fnPos, Role: "recursion-callee"}}, msg: "called recursively"}
	return g.warmUp(ctx, st)
}

func mkSlice(g *generator, ctx *lctx) site {
	var e *syntax.SliceExpr
	switch g.r.Intn(5) {
	case 0:
		e = &syntax.SliceExpr{X: slit("abc"), Step: ilit(0)}
	case 1:
		e = &syntax.SliceExpr{X: g.ivar(ctx), Lo: ilit(1), Hi: ilit(2)}
	case 2:
		e = &syntax.SliceExpr{X: list(ilit(1)), Lo: ilit(0), Hi: slit("a")}
	case 3:
		e = &syntax.SliceExpr{X: slit("abc"), Lo: slit("a")}
	default:
		e = &syntax.SliceExpr{X: g.ivar(ctx), Lo: g.iv(ctx), Hi: g.iv(ctx), Step: g.iv(ctx)}
	}
	return site{expr: e, span: e}
}

func mkDictDup(g *generator, ctx *lctx) site {
	k := func() syntax.Expr { return slit("a") }
	e := &syntax.DictExpr{List: []syntax.Expr{
		&syntax.DictEntry{Key: k(), Value: ilit(1)},
		&syntax.DictEntry{Key: slit("b"), Value: g.iv(ctx)},
		&syntax.DictEntry{Key: k(), Value: ilit(3)},
	}}
	return site{expr: e, span: e, msg: "duplicate key"}
}

func mkAugTarget(g *generator, ctx *lctx) site {
	op := pick(g.r, syntax.PLUS_EQ, syntax.PLUS_EQ, syntax.MINUS_EQ, syntax.STAR_EQ, syntax.PIPE_EQ)
	one := func() syntax.Expr { return ilit(1) }
	aug := func(lhs, rhs syntax.Expr) *syntax.AssignStmt { return &syntax.AssignStmt{Op: op, LHS: lhs, RHS: rhs} }
	if g.r.Intn(10) < 3 {
		// the read fails
		var lhs syntax.Expr
		var pos *syntax.Position
		var sub string
		switch g.r.Intn(3) {
		case 0:
			e := &syntax.IndexExpr{X: g.wideList(ilit(0)), Y: ilit(5)}
			lhs, pos, sub = e, &e.Lbrack, "index-read"
		case 1:
			e := &syntax.DotExpr{X: g.ivar(ctx), Name: id("f")}
			lhs, pos, sub = e, &e.Dot, "attr-read"
		default:
			e := &syntax.IndexExpr{X: &syntax.DictExpr{}, Y: slit("k")}
			lhs, pos, sub = e, &e.Lbrack, "key-read"
		}
		s := aug(lhs, g.iv(ctx))
		return site{stmt: s, pos: pos, sub: sub}
	}
	// read and operator succeed, the write-back fails
	switch g.r.Intn(7) {
	case 0:
		e := &syntax.IndexExpr{X: &syntax.TupleExpr{List: []syntax.Expr{ilit(1), ilit(2)}}, Y: ilit(g.r.Int63n(2))}
		return site{stmt: aug(e, g.iv(ctx)), pos: &e.Lbrack, sub: "write-tuple", msg: "does not support item assignment"}
	case 1:
		op = syntax.PLUS_EQ
		e := &syntax.IndexExpr{X: slit("abc"), Y: ilit(1)}
		return site{stmt: aug(e, slit("x")), pos: &e.Lbrack, sub: "write-string", msg: "does not support item assignment"}
	case 2:
		e := &syntax.IndexExpr{X: id("flist"), Y: ilit(g.r.Int63n(2))}
		return site{stmt: aug(e, g.iv(ctx)), pos: &e.Lbrack, sub: "write-frozen-list", msg: "frozen"}
	case 3:
		e := &syntax.IndexExpr{X: id("fdict"), Y: slit("k")}
		return site{stmt: aug(e, g.iv(ctx)), pos: &e.Lbrack, sub: "write-frozen-dict", msg: "frozen"}
	case 4:
		// a list being iterated over
		v := g.wideName("l")
		e := &syntax.IndexExpr{X: id(v), Y: ilit(0)}
		loop := &syntax.ForStmt{Vars: id(g.fresh("fv")), X: id(v), Body: []syntax.Stmt{g.padStmt(ctx, false), aug(e, g.iv(ctx))}}
		return site{stmt: loop, pre: []syntax.Stmt{assign(id(v), list(one(), ilit(2)))}, pos: &e.Lbrack, sub: "write-list-during-iteration", msg: "during iteration"}
	case 5:
		// a dict being iterated over (the key exists: only the store is refused)
		v := g.fresh("d")
		k := g.fresh("fv")
		e := &syntax.IndexExpr{X: id(v), Y: id(k)}
		loop := &syntax.ForStmt{Vars: id(k), X: id(v), Body: []syntax.Stmt{aug(e, g.iv(ctx))}}
		d := &syntax.DictExpr{List: []syntax.Expr{&syntax.DictEntry{Key: slit("a"), Value: one()}, &syntax.DictEntry{Key: slit("b"), Value: ilit(2)}}}
		return site{stmt: loop, pre: []syntax.Stmt{assign(id(v), d)}, pos: &e.Lbrack, sub: "write-dict-during-iteration", msg: "during iteration"}
	default:
		e := &syntax.DotExpr{X: id("rec"), Name: id("a")}
		return site{stmt: aug(e, g.iv(ctx)), pos: &e.Dot, sub: "write-attr-struct", msg: "can't assign to .a field"}
	}
}

func mkLoad(g *generator, ctx *lctx) site {
	s := &syntax.LoadStmt{Module: slit("mod.star"), From: []*syntax.Ident{id("sym")}, To: []*syntax.Ident{id(g.fresh("ld"))}}
	g.p.loadMode = 1 + g.r.Intn(2)
	sub := "loader-error"
	if g.p.loadMode == 2 {
		sub = "name-missing"
	}
	return site{stmt: s, span: s, noNest: true, sub: sub}
}

func (g *generator) failSite(ctx *lctx) site {
	if ctx.freeUndef != "" && g.r.Intn(4) == 0 {
		// the enclosing function's still-unassigned local is only available in some frames: favour it there
		st := mkUndefFree(g, ctx)
		st.kind, st.role = "undef_free", "undef_free"
		return st
	}
	for {
		m := siteMakers[g.r.Intn(len(siteMakers))]
		if !m.ok(ctx, g) {
			continue
		}
		st := m.mk(g, ctx)
		if ctx.lambda && (st.stmt != nil || len(st.pre) > 0 || len(st.post) > 0) {
			continue
		}
		st.kind = m.kind
		st.role = m.kind
		return st
	}
}

// ---- links: the call that enters the next frame ----

// link builds frame level+1 (recursively everything below it) and returns the call site in ctx.
func (g *generator) link(ctx *lctx, level int) site {
	child := &lctx{level: level + 1}
	np := 1 + g.r.Intn(3)
	var params []syntax.Expr
	for i := 0; i < np; i++ {
		n := g.fresh("p")
		child.ints = append(child.ints, n)
		params = append(params, id(n))
	}
	child.assign = append([]string(nil), child.ints...)
	child.nparams = np

	// how the callee is reached
	form := "direct"
	if g.r.Intn(3) == 0 {
		form = pick(g.r, "sorted", "min", "max", "apply", "apply2", "hostpos")
	}
	oneArg := form == "sorted" || form == "min" || form == "max"
	if oneArg {
		// parameters beyond the first get defaults
		for i := 1; i < np; i++ {
			params[i] = &syntax.BinaryExpr{Op: syntax.EQ, X: params[i], Y: ilit(int64(1 + g.r.Intn(3)))}
		}
	} else if g.r.Intn(4) == 0 {
		dn := g.fresh("p")
		params = append(params, &syntax.BinaryExpr{Op: syntax.EQ, X: id(dn), Y: ilit(2)})
		child.ints = append(child.ints, dn)
	}
	switch g.r.Intn(6) {
	case 0:
		params = append(params, &syntax.UnaryExpr{Op: syntax.STAR, X: id(g.fresh("va"))})
	case 1:
		params = append(params, &syntax.UnaryExpr{Op: syntax.STARSTAR, X: id(g.fresh("kw"))})
	}

	// what the callee is
	kinds := []string{"topdef", "topdef", "lambda-inline", "nested-def", "nested-def", "lambda-bound", "container"}
	if ctx.lambda {
		kinds = []string{"topdef", "lambda-inline"}
	}
	fk := kinds[g.r.Intn(len(kinds))]
	cut := level+1 == g.cutLevel
	if cut {
		fk = "topdef" // this function and everything below it live in the library file
	}
	remaining := g.depth - 1 - (level + 1) // frames still to be generated below the child
	_ = remaining
	lambdaChild := fk == "lambda-inline" || fk == "lambda-bound" || fk == "container" && g.r.Intn(2) == 0

	var st site
	var calleeExpr syntax.Expr
	if lambdaChild {
		lam := &syntax.LambdaExpr{Params: params}
		child.lambda = true
		child.name = "lambda"
		child.fnPos = &lam.Lambda
		if !ctx.top && !ctx.lambda && g.r.Intn(2) == 0 {
			child.freeUndef = g.fresh("fu")
			st.post = append(st.post, assign(id(child.freeUndef), ilit(1)))
		}
		if !ctx.top && g.r.Intn(3) == 0 {
			child.ints = append(child.ints, ctx.ints[g.r.Intn(len(ctx.ints))]) // closure over the caller's parameter
		}
		_, body, frames := g.level(child, level+1)
		lam.Body = body
		st.extra = frames
		switch fk {
		case "lambda-inline":
			calleeExpr = lam
		case "lambda-bound":
			v := g.fresh("lf")
			st.pre = append(st.pre, assign(id(v), lam))
			calleeExpr = id(v)
		default:
			calleeExpr, st.pre = g.container(lam, st.pre)
		}
		g.p.fnKinds = append(g.p.fnKinds, fk+"(lambda)")
	} else {
		name := g.fresh("f")
		d := &syntax.DefStmt{Name: id(name), Params: params}
		child.name = name
		child.fnPos = &d.Def
		nested := fk == "nested-def" || fk == "container" && g.r.Intn(2) == 0
		if nested && !ctx.top && !ctx.lambda {
			if g.r.Intn(2) == 0 {
				child.freeUndef = g.fresh("fu")
				st.post = append(st.post, assign(id(child.freeUndef), ilit(1)))
			}
			if g.r.Intn(3) == 0 {
				child.ints = append(child.ints, ctx.ints[g.r.Intn(len(ctx.ints))])
			}
		}
		nargs := np
		child.selfCall = func() syntax.Expr {
			var a []syntax.Expr
			for i := 0; i < nargs; i++ {
				a = append(a, ilit(1))
			}
			return call(id(name), a...)
		}
		body, _, frames := g.level(child, level+1)
		d.Body = body
		st.extra = frames
		if nested && !ctx.lambda {
			st.pre = append(st.pre, d)
			if ctx.top {
				fk += "(module)"
			}
		} else {
			g.topDefs = append(g.topDefs, d)
			if cut {
				g.cutIdx = len(g.topDefs)
				g.p.libSym = name
			}
		}
		if g.r.Intn(4) == 0 {
			g.p.before[d] = g.gapText(g.drawLines())
		}
		if fk == "container" || fk == "container(module)" {
			calleeExpr, st.pre = g.container(id(name), st.pre)
		} else {
			calleeExpr = id(name)
		}
		g.p.fnKinds = append(g.p.fnKinds, fk)
	}
	if ctx.lambda && len(st.pre)+len(st.post) > 0 {
		panic("c16 generator: statements required in a lambda frame")
	}

	// the call
	arg := func() syntax.Expr { return ilit(int64(1 + g.r.Intn(3))) }
	var c *syntax.CallExpr
	var cb []string
	switch form {
	case "direct":
		args := make([]syntax.Expr, 0, np)
		for i := 0; i < np; i++ {
			args = append(args, arg())
		}
		sub := "CALL"
		switch g.r.Intn(6) {
		case 0: // last positional passed by name
			last := params[np-1]
			if b, ok := last.(*syntax.BinaryExpr); ok {
				last = b.X
			}
			args[np-1] = named(last.(*syntax.Ident).Name, arg())
			sub = "CALL_KW"
		case 1:
			k := g.r.Intn(np + 1)
			args = append(args[:k:k], &syntax.UnaryExpr{Op: syntax.STAR, X: &syntax.ListExpr{List: append([]syntax.Expr(nil), args[k:]...)}})
			sub = "CALL_VAR"
		case 2:
			last := params[np-1]
			if b, ok := last.(*syntax.BinaryExpr); ok {
				last = b.X
			}
			args[np-1] = &syntax.UnaryExpr{Op: syntax.STARSTAR, X: &syntax.DictExpr{List: []syntax.Expr{&syntax.DictEntry{Key: slit(last.(*syntax.Ident).Name), Value: arg()}}}}
			sub = "CALL_VAR_KW"
		}
		c = call(calleeExpr, args...)
		st.sub = sub
	case "sorted":
		c = call(id("sorted"), list(arg(), arg()), named("key", calleeExpr))
		cb = []string{"sorted"}
	case "min":
		c = call(id("min"), list(arg(), arg(), arg()), named("key", calleeExpr))
		cb = []string{"min"}
	case "max":
		c = call(id("max"), arg(), arg(), named("key", calleeExpr))
		cb = []string{"max"}
	case "apply", "apply2", "hostpos":
		args := []syntax.Expr{calleeExpr}
		for i := 0; i < np; i++ {
			args = append(args, arg())
		}
		switch form {
		case "apply":
			c = call(id("apply"), args...)
			cb = []string{"apply"}
		case "apply2":
			c = call(id("apply"), append([]syntax.Expr{id("apply")}, args...)...)
			cb = []string{"apply", "apply"}
		default:
			c = call(id("hostpos"), args...)
			cb = []string{"hostpos"}
		}
	}
	var mid []*want
	for _, n := range cb {
		if n == "hostpos" {
			mid = append(mid, &want{Name: n, Host: true, Role: "builtin"})
		} else {
			mid = append(mid, builtinFrame(n))
		}
	}
	g.p.callbacks = append(g.p.callbacks, form)
	st.extra = append(mid, st.extra...)
	st.expr = c
	st.pos = &c.Lparen
	st.kind = "link"
	st.role = "call"
	if form != "direct" {
		st.role = "call via " + form
	}
	return st
}

// container stores the callee in a list or dict bound before the call and returns the expression that fetches it.
func (g *generator) container(fn syntax.Expr, pre []syntax.Stmt) (syntax.Expr, []syntax.Stmt) {
	v := g.fresh("fs")
	if g.r.Intn(2) == 0 {
		pre = append(pre, assign(id(v), list(ilit(0), fn)))
		return &syntax.IndexExpr{X: id(v), Y: ilit(1)}, pre
	}
	pre = append(pre, assign(id(v), &syntax.DictExpr{List: []syntax.Expr{&syntax.DictEntry{Key: slit("k"), Value: fn}}}))
	return &syntax.IndexExpr{X: id(v), Y: slit("k")}, pre
}

// level generates the frame at the given level; it returns the statements (or, for a lambda, the body
// expression) and the expected frames from this one inward.
func (g *generator) level(ctx *lctx, level int) ([]syntax.Stmt, syntax.Expr, []*want) {
	var st site
	if level == g.depth-1 {
		st = g.failSite(ctx)
		g.p.kind, g.p.sub, g.p.msg = st.kind, st.sub, st.msg
	} else {
		st = g.link(ctx, level)
	}
	me := &want{Name: ctx.name, Pos: st.pos, Span: st.span, FnPos: ctx.fnPos, Role: st.role}
	frames := append([]*want{me}, st.extra...)
	if ctx.lambda {
		return nil, g.wrapExpr(ctx, st.expr, g.drawCols()), frames
	}
	return g.body(ctx, st), nil, frames
}

// build generates one program.
func build(r *rand.Rand) *program {
	p := &program{
		features: map[string]bool{},
		noParen:  map[*syntax.TupleExpr]bool{},
		elif:     map[*syntax.IfStmt]bool{},
		before:   map[syntax.Stmt]string{},
	}
	g := &generator{r: r, p: p}
	g.small = r.Intn(6) == 0
	g.globalReassign = r.Intn(2) == 0
	switch x := r.Intn(20); {
	case x < 3:
		g.depth = 1
	case x < 6:
		g.depth = 2
	default:
		g.depth = 3 + r.Intn(6)
	}
	p.depth = g.depth
	if g.depth >= 2 && r.Intn(3) == 0 {
		g.cutLevel = 1 + r.Intn(g.depth-1)
	}
	top := &lctx{level: 0, top: true, name: "<toplevel>", ints: []string{"gi"}, assign: []string{"gi"}}
	var body, libBody []syntax.Stmt
	loadChain := g.depth >= 2 && r.Intn(9) == 0
	if loadChain {
		// the module code of the library is the second frame: it runs (and fails) inside main's load statement
		g.cutLevel = 0
		libTop := &lctx{level: 1, top: true, name: "<toplevel>", ints: []string{"li"}, assign: []string{"li"}}
		var libFrames []*want
		libBody, _, libFrames = g.level(libTop, 1)
		ld := &syntax.LoadStmt{Module: slit(libFile), From: []*syntax.Ident{id("li")}, To: []*syntax.Ident{id("li")}}
		st := site{stmt: ld, span: ld, noNest: true, kind: "link", role: "load"}
		p.frames = append([]*want{{Name: "<toplevel>", Span: ld, Role: "load"}}, libFrames...)
		body = g.body(top, st)
		p.callbacks = append(p.callbacks, "load")
	} else {
		body, _, p.frames = g.level(top, 0)
	}
	first := assign(id("gi"), ilit(int64(1+r.Intn(3))))
	if r.Intn(3) == 0 {
		p.before[first] = g.gapText(g.drawLines())
	}
	stmts := []syntax.Stmt{first}
	mainDefs, libDefs := g.topDefs, []syntax.Stmt(nil)
	if loadChain {
		libDefs, mainDefs = g.topDefs, nil
		libDefs = append(libDefs, helperDefs()...)
		r.Shuffle(len(libDefs), func(i, j int) { libDefs[i], libDefs[j] = libDefs[j], libDefs[i] })
		p.libStmts = append([]syntax.Stmt{assign(id("li"), ilit(int64(1+r.Intn(3))))}, libDefs...)
		p.libStmts = append(p.libStmts, libBody...)
		p.libStmts = append(p.libStmts, g.tail...)
		g.tail = nil
		if r.Intn(3) == 0 {
			p.before[p.libStmts[0]] = g.gapText(g.drawLines())
		}
	} else if g.cutIdx > 0 {
		// topDefs is filled innermost first: everything up to and including the cut function belongs to the library
		libDefs, mainDefs = g.topDefs[:g.cutIdx:g.cutIdx], g.topDefs[g.cutIdx:]
		ld := &syntax.LoadStmt{Module: slit(libFile), From: []*syntax.Ident{id(p.libSym)}, To: []*syntax.Ident{id(p.libSym)}}
		stmts = append(stmts, ld)
		libDefs = append(libDefs, helperDefs()...)
		r.Shuffle(len(libDefs), func(i, j int) { libDefs[i], libDefs[j] = libDefs[j], libDefs[i] })
		p.libStmts = append(libDefs, g.tail...)
		g.tail = nil
		if r.Intn(3) == 0 {
			p.before[p.libStmts[0]] = p.before[p.libStmts[0]] + g.gapText(g.drawLines())
		}
	}
	mainDefs = append(mainDefs, helperDefs()...)
	r.Shuffle(len(mainDefs), func(i, j int) { mainDefs[i], mainDefs[j] = mainDefs[j], mainDefs[i] })
	stmts = append(stmts, mainDefs...)
	stmts = append(stmts, body...)
	stmts = append(stmts, g.tail...)
	p.stmts = stmts

	p.opts = &syntax.FileOptions{Set: true, While: true, TopLevelControl: true, GlobalReassign: g.globalReassign, Recursion: !g.needNoRecursion && r.Intn(2) == 0}
	if r.Intn(2) == 0 {
		p.layout = gen.Plain
	} else {
		p.layout = gen.RandomLayout(r)
	}
	switch {
	case g.maxPre == 0:
		p.preClass = "0"
	case g.maxPre <= 20:
		p.preClass = "1-20"
	case g.maxPre <= 300:
		p.preClass = "21-300"
	default:
		p.preClass = "301-5000"
	}
	return p
}

// helperDefs are total functions used by padding statements, so that frames are pushed and popped
// (and their slots reused) before the failing call chain runs.
func helperDefs() []syntax.Stmt {
	return []syntax.Stmt{
		&syntax.DefStmt{Name: id("hid"), Params: []syntax.Expr{id("x")}, Body: []syntax.Stmt{&syntax.ReturnStmt{Result: id("x")}}},
		&syntax.DefStmt{Name: id("hid2"), Params: []syntax.Expr{id("x")}, Body: []syntax.Stmt{
			assign(id("y"), call(id("hid"), id("x"))),
			&syntax.ReturnStmt{Result: call(id("hid"), call(id("hid"), id("y")))}}},
	}
}

// render renders the main file and, if there is one, the library file.
func (p *program) render(r *rand.Rand) (mainSrc, libSrc string) {
	o := gen.Options{
		Layout: p.layout, Filename: progFile, NoParen: p.noParen, Elif: p.elif,
		BeforeStmt: func(s syntax.Stmt) string { return p.before[s] },
	}
	mainSrc = gen.Render(p.stmts, r, o)
	if p.libStmts != nil {
		o.Filename = libFile
		libSrc = gen.Render(p.libStmts, r, o)
	}
	return
}
