package c16

// Evidence only: reads the pc→(line,col) tables out of the serialized program (Program.Write, format
// documented at the top of internal/compile/serial.go) so that the monitor can report which
// encodings (saturated / negative deltas, continuation rows) the judged frames actually went through.
// Nothing here takes part in a verdict.

import (
	"encoding/binary"
	"errors"
	"fmt"
)

type lntEntry struct {
	pc                 uint32
	line, col          int32
	dpc, dline, dcol   int32 // totals over the rows of the entry
	spc, sline, scol   int   // rows of the entry in which the field sat at its limit with the continuation bit set
	rows               int
}

type fnTable struct {
	line, col int32 // Funcode.Pos
	codeLen   int
	nrows     int
	entries   []lntEntry
}

type rd struct {
	b   []byte
	err error
}

func (r *rd) int() int64 {
	if r.err != nil {
		return 0
	}
	v, n := binary.Varint(r.b)
	if n <= 0 {
		r.err = errors.New("bad varint")
		return 0
	}
	r.b = r.b[n:]
	return v
}

func (r *rd) uint() uint64 {
	if r.err != nil {
		return 0
	}
	v, n := binary.Uvarint(r.b)
	if n <= 0 {
		r.err = errors.New("bad uvarint")
		return 0
	}
	r.b = r.b[n:]
	return v
}

func (r *rd) count() int {
	n := r.int()
	if n < 0 || n > 1<<26 {
		if r.err == nil {
			r.err = fmt.Errorf("implausible count %d", n)
		}
		return 0
	}
	return int(n)
}

func (r *rd) binding() (line, col int32) {
	r.int() // name length
	return int32(r.int()), int32(r.int())
}

func (r *rd) bindings() {
	n := r.count()
	for i := 0; i < n && r.err == nil; i++ {
		r.binding()
	}
}

func (r *rd) function() fnTable {
	var t fnTable
	t.line, t.col = r.binding()
	r.int() // doc
	t.codeLen = int(r.int())
	n := r.count()
	t.nrows = n
	e := lntEntry{line: t.line, col: t.col}
	cur := lntEntry{}
	for i := 0; i < n && r.err == nil; i++ {
		x := uint16(r.int())
		dpc := int32(x >> 12)
		dline := int32(int16(x<<4) >> 11)
		dcol := int32(int16(x<<9) >> 10)
		inc := x&1 != 0
		e.pc += uint32(dpc)
		e.line += dline
		e.col += dcol
		cur.dpc += dpc
		cur.dline += dline
		cur.dcol += dcol
		cur.rows++
		if inc {
			if dpc == 15 {
				cur.spc++
			}
			if dline == 15 || dline == -16 {
				cur.sline++
			}
			if dcol == 31 || dcol == -32 {
				cur.scol++
			}
		} else {
			cur.pc, cur.line, cur.col = e.pc, e.line, e.col
			t.entries = append(t.entries, cur)
			cur = lntEntry{}
		}
	}
	r.bindings() // locals
	nc := r.count()
	for i := 0; i < nc && r.err == nil; i++ {
		r.int()
	}
	r.bindings() // freevars
	r.int()      // maxstack
	r.int()      // numparams
	r.int()      // numkwonly
	r.int()      // hasvarargs
	r.int()      // haskwargs
	return t
}

// decodeTables returns the tables of the toplevel (index 0) and of every function.
func decodeTables(data []byte) ([]fnTable, error) {
	if len(data) < 8 || string(data[:4]) != "!sky" {
		return nil, errors.New("no magic")
	}
	off := binary.LittleEndian.Uint32(data[4:8])
	if int(off) > len(data) || off < 8 {
		return nil, errors.New("bad string offset")
	}
	r := &rd{b: data[8:off]}
	r.int() // version
	r.int() // filename
	r.bindings()
	n := r.count()
	for i := 0; i < n && r.err == nil; i++ {
		r.int()
	}
	n = r.count()
	for i := 0; i < n && r.err == nil; i++ {
		switch t := r.int(); t {
		case 0, 1, 4:
			r.int()
		case 2:
			r.int()
		case 3:
			r.uint()
		default:
			r.err = fmt.Errorf("constant type %d", t)
		}
	}
	r.bindings() // globals
	var out []fnTable
	out = append(out, r.function())
	n = r.count()
	for i := 0; i < n && r.err == nil; i++ {
		out = append(out, r.function())
	}
	r.int() // recursion
	if r.err != nil {
		return nil, r.err
	}
	if len(r.b) != 0 {
		return nil, fmt.Errorf("%d trailing bytes", len(r.b))
	}
	return out, nil
}

func satClass(n int) string {
	switch {
	case n == 0:
		return "unsaturated"
	case n == 1:
		return "saturated-once"
	case n == 2:
		return "saturated-twice"
	default:
		return "saturated>=3"
	}
}

func signClass(d int32) string {
	switch {
	case d < 0:
		return "negative"
	case d > 0:
		return "positive"
	}
	return "zero"
}
