package c16

// Program generator: a chain of Starlark frames (module code, defs, nested defs, lambdas) linked by
// direct calls and built-in callbacks, ending in one planted failing operation.  The program is a
// tree of go.starlark.net/syntax nodes; gen.Render writes every token position into the nodes, and
// the expected call stack is read from those fields (see want).

import (
	"fmt"
	"math/rand"
	"strings"

	"go.starlark.net/syntax"

	"verif/internal/gen"
)

// want describes one expected entry of EvalError.CallStack.
type want struct {
	Name string
	// Exactly one of the following position demands applies.
	Pos     *syntax.Position // exact position: a field of a rendered node (same file as the program)
	Span    syntax.Node      // the position must lie inside this node's source span (kinds outside the property's list)
	Builtin bool             // built-in frame: file "<builtin>", line 0, col 0
	Host    bool             // built-in with a Position method: hostPosFile:hostPosLine:hostPosCol

	Callee bool            // callee frame of an arity/recursion error (no instruction has run: the position is Funcode.Position(0))
	FnPos *syntax.Position // Funcode.Pos of the frame's function (nil: module toplevel); evidence only
	Role  string           // what the frame is executing, for violation keys: "call", "call via sorted", kind of the failing op
}

// site is an operation planted in a frame: either the call that enters the next frame or the failing operation.
type site struct {
	expr      syntax.Expr // expression sites
	stmt      syntax.Stmt // statement sites
	pre, post []syntax.Stmt
	first     syntax.Stmt // must be the first statement of the frame's function body
	pos       *syntax.Position
	span      syntax.Node
	extra     []*want // frames above this one
	kind, sub string
	msg       string // substring expected in the error message (diagnostic only)
	noNest    bool   // must stay a direct child of the module (load)
	role      string
}

// lctx is the frame being generated.
type lctx struct {
	level     int
	top       bool
	lambda    bool
	name      string
	fnPos     *syntax.Position
	ints      []string // names bound to small ints here (parameters; the global gi at top level)
	assign    []string // int names that may be re-assigned in this frame (parameters; gi at top level)
	freeUndef string   // a local of the enclosing function that is still unassigned while this frame runs
	selfCall  func() syntax.Expr
	nparams   int
}

type program struct {
	stmts     []syntax.Stmt
	libStmts  []syntax.Stmt // second module (nil if the program is a single file)
	libSym    string        // the function main loads from it
	frames    []*want
	kind, sub string
	msg       string
	depth     int
	callbacks []string
	fnKinds   []string
	features  map[string]bool
	opts      *syntax.FileOptions
	layout    gen.Layout
	noParen   map[*syntax.TupleExpr]bool
	elif      map[*syntax.IfStmt]bool
	before    map[syntax.Stmt]string
	loadMode  int // 0 none, 1 loader fails, 2 name missing
	preClass  string
}

type generator struct {
	r        *rand.Rand
	p        *program
	seq      int
	depth    int
	topDefs  []syntax.Stmt
	tail     []syntax.Stmt
	lines    int // budget accounting
	nstmts   int
	padChars int
	needNoRecursion bool
	globalReassign bool
	cutLevel int // the function at this level, and everything it calls, is defined in the library file (0: single file)
	cutIdx   int
	small    bool // keep everything tiny (used for a share of programs so that plain cases stay frequent)
	maxPre   int
}

const (
	maxLines    = 260_000
	maxStmts    = 12_000
	maxPadChars = 60_000
)

func id(n string) *syntax.Ident      { return &syntax.Ident{Name: n} }
func ilit(n int64) syntax.Expr       { return &syntax.Literal{Token: syntax.INT, Value: n} }
func slit(s string) *syntax.Literal  { return &syntax.Literal{Token: syntax.STRING, Value: s} }
func flit(f float64) syntax.Expr     { return &syntax.Literal{Token: syntax.FLOAT, Value: f} }
func list(e ...syntax.Expr) syntax.Expr { return &syntax.ListExpr{List: e} }
func call(fn syntax.Expr, args ...syntax.Expr) *syntax.CallExpr {
	return &syntax.CallExpr{Fn: fn, Args: args}
}
func named(n string, v syntax.Expr) syntax.Expr {
	return &syntax.BinaryExpr{Op: syntax.EQ, X: id(n), Y: v}
}
func bin(op syntax.Token, x, y syntax.Expr) *syntax.BinaryExpr {
	return &syntax.BinaryExpr{Op: op, X: x, Y: y}
}
func assign(lhs, rhs syntax.Expr) *syntax.AssignStmt {
	return &syntax.AssignStmt{Op: syntax.EQ, LHS: lhs, RHS: rhs}
}
func pass() syntax.Stmt { return &syntax.BranchStmt{Token: syntax.PASS} }

func (g *generator) fresh(prefix string) string {
	g.seq++
	return fmt.Sprintf("%s%d", prefix, g.seq)
}

func (g *generator) chance(p float64) bool { return g.r.Float64() < p }
func (g *generator) feat(s string)         { g.p.features[s] = true }

// iv returns an expression whose value is a small int.
func (g *generator) iv(ctx *lctx) syntax.Expr {
	if len(ctx.ints) > 0 && g.chance(0.6) {
		return id(ctx.ints[g.r.Intn(len(ctx.ints))])
	}
	return ilit(int64(1 + g.r.Intn(3)))
}

// ivar returns an int variable of the frame (never a literal).
func (g *generator) ivar(ctx *lctx) syntax.Expr {
	return id(ctx.ints[g.r.Intn(len(ctx.ints))])
}

// ---- padding material ----

var mbRunes = []string{"é", "日本語", "😀", "ß", "—", "ñ", "字"}

// padString returns a string literal whose source text is exactly n runes wide (n >= 2).
func (g *generator) padString(n int, mb bool) *syntax.Literal {
	if n < 2 {
		n = 2
	}
	var sb strings.Builder
	sb.WriteByte('"')
	w := 1
	for w < n-1 {
		if mb && g.r.Intn(3) == 0 {
			s := mbRunes[g.r.Intn(len(mbRunes))]
			k := len([]rune(s))
			if w+k <= n-1 {
				sb.WriteString(s)
				w += k
				continue
			}
		}
		sb.WriteByte(byte('a' + g.r.Intn(26)))
		w++
	}
	sb.WriteByte('"')
	raw := sb.String()
	g.padChars += n
	return &syntax.Literal{Token: syntax.STRING, Value: raw[1 : len(raw)-1], Raw: raw}
}

// tripleString is a triple-quoted literal spanning k+1 lines.
func (g *generator) tripleString(k int, mb bool) *syntax.Literal {
	var sb strings.Builder
	q := `"""`
	if g.r.Intn(2) == 0 {
		q = `'''`
	}
	sb.WriteString(q)
	for i := 0; i < k; i++ {
		sb.WriteString(strings.Repeat("x", g.r.Intn(12)))
		if mb && g.r.Intn(2) == 0 {
			sb.WriteString(mbRunes[g.r.Intn(len(mbRunes))])
		}
		sb.WriteByte('\n')
	}
	sb.WriteString(strings.Repeat("y", g.r.Intn(40)))
	sb.WriteString(q)
	raw := sb.String()
	g.lines += k
	return &syntax.Literal{Token: syntax.STRING, Value: raw[3 : len(raw)-3], Raw: raw}
}

// gapText is n whole lines that are blank or comments.
func (g *generator) gapText(n int) string {
	if n <= 0 {
		return ""
	}
	g.lines += n
	if n <= 3 || g.r.Intn(3) == 0 {
		return strings.Repeat("\n", n)
	}
	// a few comment lines (some with multi-byte runes, some long) among blank ones
	var sb strings.Builder
	sb.Grow(n + 200)
	k := 1 + g.r.Intn(3)
	left := n - k
	for i := 0; i < k; i++ {
		m := 0
		if left > 0 {
			m = g.r.Intn(left + 1)
			if i == k-1 && g.r.Intn(2) == 0 {
				m = left
			}
		}
		sb.WriteString(strings.Repeat("\n", m))
		left -= m
		sb.WriteString(strings.Repeat(" ", g.r.Intn(6)))
		switch g.r.Intn(4) {
		case 0:
			sb.WriteString("# é 日本語 😀\n")
		case 1:
			sb.WriteString("#" + strings.Repeat("-", g.r.Intn(300)) + "\n")
		case 2:
			sb.WriteString("# x = (1 +\n")
		default:
			sb.WriteString("#\n")
		}
	}
	sb.WriteString(strings.Repeat("\n", left))
	return sb.String()
}

func (g *generator) drawLines() int {
	if g.small {
		if g.r.Intn(3) == 0 {
			return g.r.Intn(4)
		}
		return 0
	}
	n := 0
	switch x := g.r.Intn(100); {
	case x < 32:
		n = 0
	case x < 62:
		n = 1 + g.r.Intn(40)
	case x < 78:
		n = 41 + g.r.Intn(260)
	case x < 92:
		n = 301 + g.r.Intn(4700)
	case x < 98:
		n = 5001 + g.r.Intn(60000)
	default:
		n = 100_000
	}
	if g.lines+n > maxLines {
		n = g.r.Intn(20)
	}
	return n
}

func (g *generator) drawStmts() int {
	if g.small {
		if g.r.Intn(3) == 0 {
			return g.r.Intn(3)
		}
		return 0
	}
	n := 0
	switch x := g.r.Intn(100); {
	case x < 30:
		n = 0
	case x < 62:
		n = 1 + g.r.Intn(20)
	case x < 86:
		n = 21 + g.r.Intn(280)
	case x < 97:
		n = 301 + g.r.Intn(2200)
	default:
		n = 2500 + g.r.Intn(2501)
	}
	if g.nstmts+n > maxStmts {
		n = g.r.Intn(8)
	}
	return n
}

func (g *generator) drawCols() int {
	if g.small {
		return 0
	}
	n := 0
	switch x := g.r.Intn(100); {
	case x < 35:
		n = 0
	case x < 65:
		n = 2 + g.r.Intn(70)
	case x < 83:
		n = 72 + g.r.Intn(930)
	case x < 96:
		n = 1001 + g.r.Intn(7000)
	default:
		n = 8000 + g.r.Intn(2001)
	}
	if g.padChars+n > maxPadChars {
		n = g.r.Intn(30)
	}
	return n
}

// ---- cheap statements ----

// padStmt is a statement that cannot fail. free statements carry no source position in the line table.
func (g *generator) padStmt(ctx *lctx, mixed bool) syntax.Stmt {
	g.nstmts++
	v := id(fmt.Sprintf("w%d_%d", ctx.level, g.r.Intn(4)))
	if ctx.top && !g.globalReassign {
		v = id(g.fresh("w")) // a global may be bound only once
	}
	if mixed && g.r.Intn(3) == 0 {
		switch g.r.Intn(5) {
		case 0:
			return assign(v, g.ivar(ctx))
		case 1:
			return assign(v, bin(syntax.PLUS, g.ivar(ctx), ilit(1)))
		case 2:
			return assign(v, call(id(pick(g.r, "len", "hid", "hid2", "hid2")), slit("ab")))
		case 3:
			return assign(v, list(g.ivar(ctx)))
		default:
			return &syntax.ExprStmt{X: call(id("ok"), g.iv(ctx))}
		}
	}
	switch g.r.Intn(9) {
	case 0:
		return assign(v, id("None"))
	case 1:
		return assign(v, slit("s"))
	case 2:
		return pass()
	case 3:
		return assign(v, list(ilit(1), ilit(2)))
	case 4:
		return &syntax.ExprStmt{X: slit("doc")}
	case 5:
		return assign(v, id("True"))
	case 6:
		return &syntax.ExprStmt{X: list(ilit(7))}
	default:
		return assign(v, ilit(int64(g.r.Intn(5))))
	}
}

func (g *generator) padRun(ctx *lctx, n int) []syntax.Stmt {
	if n <= 0 {
		return nil
	}
	mixed := g.r.Intn(5) < 2
	out := make([]syntax.Stmt, 0, n)
	// a big run is sometimes folded into the body of a control statement ("huge body before the failing line")
	if n >= 6 && g.r.Intn(3) == 0 {
		k := n / 2
		inner := make([]syntax.Stmt, 0, k)
		for i := 0; i < k; i++ {
			inner = append(inner, g.padStmt(ctx, mixed))
		}
		n -= k
		switch g.r.Intn(5) {
		case 0: // body compiled but never run; its block is laid out after the rest of the function
			out = append(out, &syntax.IfStmt{Cond: g.falseCond(ctx), True: inner})
			g.feat("pad:if-false-huge")
		case 1:
			out = append(out, &syntax.IfStmt{Cond: g.trueCond(ctx), True: inner})
			g.feat("pad:if-true-huge")
		case 2:
			h := len(inner) / 2
			if h == 0 {
				h = 1
			}
			out = append(out, &syntax.IfStmt{Cond: g.trueCond(ctx), True: inner[:h], False: append([]syntax.Stmt{pass()}, inner[h:]...)})
			g.feat("pad:if-else-huge")
		case 3:
			out = append(out, &syntax.ForStmt{Vars: id(g.fresh("fv")), X: list(ilit(1), ilit(2)), Body: inner})
			g.feat("pad:for-huge")
		default:
			out = append(out, &syntax.WhileStmt{Cond: g.trueCond(ctx), Body: append(inner, &syntax.BranchStmt{Token: syntax.BREAK})})
			g.feat("pad:while-huge")
		}
	}
	for i := 0; i < n; i++ {
		out = append(out, g.padStmt(ctx, mixed))
	}
	return out
}

func (g *generator) trueCond(ctx *lctx) syntax.Expr {
	switch g.r.Intn(6) {
	case 0:
		v := ctx.ints[g.r.Intn(len(ctx.ints))]
		return bin(syntax.EQL, id(v), id(v))
	case 1:
		return ilit(1)
	case 2:
		return &syntax.UnaryExpr{Op: syntax.NOT, X: id("False")}
	case 3:
		return g.ivar(ctx)
	case 4:
		return bin(syntax.AND, g.ivar(ctx), id("True"))
	}
	return id("True")
}

func (g *generator) falseCond(ctx *lctx) syntax.Expr {
	switch g.r.Intn(5) {
	case 0:
		v := ctx.ints[g.r.Intn(len(ctx.ints))]
		return bin(syntax.NEQ, id(v), id(v))
	case 1:
		return id("None")
	case 2:
		return ilit(0)
	case 3:
		return &syntax.UnaryExpr{Op: syntax.NOT, X: g.ivar(ctx)}
	}
	return id("False")
}

// ---- expression wrappers: e is evaluated before anything in the wrapper can fail ----

func (g *generator) wrapOnce(ctx *lctx, e syntax.Expr) syntax.Expr {
	switch g.r.Intn(22) {
	case 0:
		g.feat("wrap:list")
		return list(g.iv(ctx), e, ilit(0))
	case 1:
		g.feat("wrap:tuple")
		return &syntax.TupleExpr{List: []syntax.Expr{slit("t"), e}}
	case 2:
		g.feat("wrap:dict-value")
		return &syntax.DictExpr{List: []syntax.Expr{&syntax.DictEntry{Key: slit("k"), Value: e}}}
	case 3:
		g.feat("wrap:dict-key")
		return &syntax.DictExpr{List: []syntax.Expr{&syntax.DictEntry{Key: ilit(0), Value: ilit(1)}, &syntax.DictEntry{Key: e, Value: ilit(1)}}}
	case 4:
		g.feat("wrap:universal-call")
		return call(id([]string{"str", "type", "bool", "repr"}[g.r.Intn(4)]), e)
	case 5:
		g.feat("wrap:cond-true")
		return &syntax.CondExpr{Cond: g.trueCond(ctx), True: e, False: ilit(0)}
	case 6:
		g.feat("wrap:cond-false")
		return &syntax.CondExpr{Cond: g.falseCond(ctx), True: ilit(0), False: e}
	case 7:
		g.feat("wrap:and")
		return bin(syntax.AND, g.trueCond(ctx), e)
	case 8:
		g.feat("wrap:or")
		return bin(syntax.OR, g.falseCond(ctx), e)
	case 9:
		g.feat("wrap:not")
		return &syntax.UnaryExpr{Op: syntax.NOT, X: e}
	case 10:
		g.feat("wrap:comp-body")
		return &syntax.Comprehension{Body: e, Clauses: []syntax.Node{&syntax.ForClause{Vars: id(g.fresh("cv")), X: list(ilit(1), ilit(2))}}}
	case 11:
		g.feat("wrap:comp-iterable")
		return &syntax.Comprehension{Body: ilit(1), Clauses: []syntax.Node{&syntax.ForClause{Vars: id(g.fresh("cv")), X: list(e)}}}
	case 12:
		g.feat("wrap:comp-if")
		return &syntax.Comprehension{Body: ilit(1), Clauses: []syntax.Node{&syntax.ForClause{Vars: id(g.fresh("cv")), X: list(ilit(1))}, &syntax.IfClause{Cond: e}}}
	case 13:
		g.feat("wrap:dictcomp")
		cv := g.fresh("cv")
		var de *syntax.DictEntry
		if g.r.Intn(2) == 0 {
			de = &syntax.DictEntry{Key: id(cv), Value: e}
		} else {
			de = &syntax.DictEntry{Key: e, Value: id(cv)}
		}
		return &syntax.Comprehension{Curly: true, Body: de, Clauses: []syntax.Node{&syntax.ForClause{Vars: id(cv), X: list(ilit(1))}}}
	case 14:
		g.feat("wrap:comp-nested")
		inner := &syntax.Comprehension{Body: e, Clauses: []syntax.Node{&syntax.ForClause{Vars: id(g.fresh("cv")), X: list(ilit(1))}, &syntax.IfClause{Cond: g.trueCond(ctx)}}}
		return &syntax.Comprehension{Body: inner, Clauses: []syntax.Node{&syntax.ForClause{Vars: id(g.fresh("cv")), X: list(ilit(2))}}}
	case 15:
		g.feat("wrap:binary-left")
		return bin([]syntax.Token{syntax.PLUS, syntax.MINUS, syntax.STAR, syntax.EQL, syntax.PIPE}[g.r.Intn(5)], e, g.iv(ctx))
	case 16:
		g.feat("wrap:binary-right")
		return bin([]syntax.Token{syntax.PLUS, syntax.MINUS, syntax.LT, syntax.IN}[g.r.Intn(4)], g.iv(ctx), e)
	case 17:
		g.feat("wrap:operand")
		switch g.r.Intn(4) {
		case 0:
			return &syntax.IndexExpr{X: e, Y: ilit(0)}
		case 1:
			return &syntax.IndexExpr{X: list(ilit(0)), Y: e}
		case 2:
			return &syntax.DotExpr{X: e, Name: id("real")}
		default:
			return &syntax.UnaryExpr{Op: syntax.MINUS, X: e}
		}
	case 18:
		g.feat("wrap:call-arg")
		switch g.r.Intn(5) {
		case 0:
			return call(id("ok"), g.iv(ctx), e)
		case 1:
			return call(id("ok"), named("k", e))
		case 2:
			return call(id("ok"), &syntax.UnaryExpr{Op: syntax.STAR, X: list(e)})
		case 3:
			return call(id("ok"), &syntax.UnaryExpr{Op: syntax.STARSTAR, X: &syntax.DictExpr{List: []syntax.Expr{&syntax.DictEntry{Key: slit("k"), Value: e}}}})
		default:
			return call(id("ok"), ilit(1), named("a", ilit(2)), &syntax.UnaryExpr{Op: syntax.STAR, X: e})
		}
	case 19:
		g.feat("wrap:paren")
		return &syntax.ParenExpr{X: e}
	case 20:
		g.feat("wrap:slice-operand")
		return &syntax.SliceExpr{X: list(ilit(1), ilit(2)), Lo: e}
	default:
		g.feat("wrap:callee")
		return call(e, ilit(1))
	}
}

// colPad puts material with a wide source text to the left of e inside brackets.
func (g *generator) colPad(ctx *lctx, e syntax.Expr, cols int) syntax.Expr {
	if cols <= 0 {
		return e
	}
	mb := g.r.Intn(3) == 0
	if mb {
		g.feat("pad:multibyte-before-token")
	}
	// many position-free constants: pc and column advance together
	if cols >= 30 && g.r.Intn(4) == 0 {
		n := cols / 3
		if g.nstmts+n/2 > maxStmts {
			n = 10
		}
		g.nstmts += n / 2
		g.padChars += cols
		items := make([]syntax.Expr, 0, n+1)
		for i := 0; i < n; i++ {
			items = append(items, ilit(int64(g.r.Intn(10))))
		}
		items = append(items, e)
		g.feat("pad:many-constants")
		if g.r.Intn(2) == 0 {
			return &syntax.TupleExpr{List: items}
		}
		return &syntax.ListExpr{List: items}
	}
	var pads []syntax.Expr
	if g.r.Intn(5) == 0 {
		k := 1 + g.r.Intn(4)
		if cols > 2000 && g.r.Intn(2) == 0 {
			k = 1 + g.r.Intn(40)
		}
		pads = append(pads, g.tripleString(k, mb))
		g.feat("pad:triple-quoted-before-token")
	}
	if cols >= 8 && g.r.Intn(3) == 0 {
		a := 2 + g.r.Intn(cols-3)
		pads = append(pads, g.padString(a, mb), g.padString(cols-a, mb))
	} else {
		pads = append(pads, g.padString(cols, mb))
	}
	g.feat("pad:long-string")
	switch g.r.Intn(4) {
	case 0:
		return &syntax.ListExpr{List: append(pads, e)}
	case 1:
		return &syntax.TupleExpr{List: append(pads, e)}
	case 2:
		return call(id("ok"), append(pads, e)...)
	default:
		return &syntax.DictExpr{List: []syntax.Expr{&syntax.DictEntry{Key: pads[0], Value: e}}}
	}
}

func (g *generator) wrapExpr(ctx *lctx, e syntax.Expr, cols int) syntax.Expr {
	n := 0
	switch x := g.r.Intn(10); {
	case x < 4:
		n = 0
	case x < 7:
		n = 1
	case x < 9:
		n = 2
	default:
		n = 3
	}
	padAt := g.r.Intn(n + 1)
	for i := 0; i <= n; i++ {
		if i == padAt {
			e = g.colPad(ctx, e, cols)
		}
		if i < n {
			e = g.wrapOnce(ctx, e)
		}
	}
	return e
}

// exprStmt turns an expression into a statement of the frame.
func (g *generator) exprStmt(ctx *lctx, e syntax.Expr) (pre []syntax.Stmt, s syntax.Stmt) {
	for {
		switch g.r.Intn(13) {
		case 0, 1:
			g.feat("stmt:expr")
			return nil, &syntax.ExprStmt{X: e}
		case 2, 3:
			g.feat("stmt:assign")
			return nil, assign(id(g.fresh("r")), e)
		case 4, 5:
			if ctx.top {
				continue
			}
			g.feat("stmt:return")
			return nil, &syntax.ReturnStmt{Result: e}
		case 6:
			if ctx.top && !g.globalReassign {
				continue
			}
			g.feat("stmt:augassign-rhs")
			v := g.fresh("a")
			return []syntax.Stmt{assign(id(v), ilit(0))}, &syntax.AssignStmt{Op: syntax.PLUS_EQ, LHS: id(v), RHS: e}
		case 7:
			g.feat("stmt:unpack-rhs")
			t := &syntax.TupleExpr{List: []syntax.Expr{id(g.fresh("u")), id(g.fresh("u"))}}
			g.p.noParen[t] = true
			return nil, assign(t, e)
		case 8:
			g.feat("stmt:setindex-operand")
			v := g.fresh("l")
			if g.r.Intn(2) == 0 {
				return []syntax.Stmt{assign(id(v), list(ilit(0)))}, assign(&syntax.IndexExpr{X: id(v), Y: ilit(0)}, e)
			}
			return []syntax.Stmt{assign(id(v), list(ilit(0)))}, assign(&syntax.IndexExpr{X: id(v), Y: e}, ilit(1))
		case 9:
			g.feat("stmt:if-cond")
			s := &syntax.IfStmt{Cond: e, True: []syntax.Stmt{pass()}}
			if g.r.Intn(2) == 0 {
				s.False = []syntax.Stmt{g.padStmt(ctx, false)}
			}
			return nil, s
		case 10:
			g.feat("stmt:for-iterable")
			return nil, &syntax.ForStmt{Vars: id(g.fresh("fv")), X: e, Body: []syntax.Stmt{pass()}}
		case 11:
			g.feat("stmt:while-cond")
			return nil, &syntax.WhileStmt{Cond: e, Body: []syntax.Stmt{&syntax.BranchStmt{Token: syntax.BREAK}}}
		default:
			// default value of a parameter: evaluated in THIS frame when the def/lambda is executed
			if g.r.Intn(2) == 0 {
				g.feat("stmt:def-default")
				d := &syntax.DefStmt{Name: id(g.fresh("dd")), Params: []syntax.Expr{id("a"), named("b", e)}, Body: []syntax.Stmt{&syntax.ReturnStmt{Result: id("a")}}}
				return nil, d
			}
			g.feat("stmt:lambda-default")
			return nil, assign(id(g.fresh("r")), &syntax.LambdaExpr{Params: []syntax.Expr{named("b", e)}, Body: id("b")})
		}
	}
}

// nest wraps the block in one control statement whose body runs the block.
func (g *generator) nest(ctx *lctx, block []syntax.Stmt, big bool) syntax.Stmt {
	pn := func() []syntax.Stmt {
		n := g.r.Intn(3)
		if big && g.r.Intn(2) == 0 {
			n = g.drawStmts()
		}
		var out []syntax.Stmt
		for i := 0; i < n; i++ {
			out = append(out, g.padStmt(ctx, g.r.Intn(2) == 0))
		}
		return out
	}
	atLeastOne := func(s []syntax.Stmt) []syntax.Stmt {
		if len(s) == 0 {
			return []syntax.Stmt{pass()}
		}
		return s
	}
	body := append(pn(), block...)
	if g.r.Intn(3) == 0 {
		body = append(body, pn()...)
	}
	switch g.r.Intn(7) {
	case 0, 1:
		g.feat("nest:if-true")
		s := &syntax.IfStmt{Cond: g.trueCond(ctx), True: body}
		if g.r.Intn(3) == 0 {
			s.False = atLeastOne(pn())
		}
		return s
	case 2:
		g.feat("nest:else")
		return &syntax.IfStmt{Cond: g.falseCond(ctx), True: atLeastOne(pn()), False: body}
	case 3:
		g.feat("nest:elif")
		inner := &syntax.IfStmt{Cond: g.trueCond(ctx), True: body}
		if g.r.Intn(2) == 0 {
			inner.False = atLeastOne(pn())
		}
		g.p.elif[inner] = true
		return &syntax.IfStmt{Cond: g.falseCond(ctx), True: atLeastOne(pn()), False: []syntax.Stmt{inner}}
	case 4, 5:
		g.feat("nest:for")
		var x syntax.Expr
		switch g.r.Intn(4) {
		case 0:
			x = list(ilit(1))
		case 1:
			x = list(ilit(1), ilit(2), ilit(3))
		case 2:
			x = call(id("range"), ilit(2))
		default:
			x = &syntax.TupleExpr{List: []syntax.Expr{ilit(1), ilit(2)}}
		}
		return &syntax.ForStmt{Vars: id(g.fresh("fv")), X: x, Body: body}
	default:
		g.feat("nest:while")
		return &syntax.WhileStmt{Cond: g.trueCond(ctx), Body: append(body, &syntax.BranchStmt{Token: syntax.BREAK})}
	}
}

// body assembles the statements of a non-lambda frame around the planted site.
func (g *generator) body(ctx *lctx, st site) []syntax.Stmt {
	var out []syntax.Stmt
	if st.first != nil {
		out = append(out, st.first)
	}
	npre := g.drawStmts()
	if g.maxPre < npre {
		g.maxPre = npre
	}
	out = append(out, g.padRun(ctx, npre)...)
	// gap between the def line and the first positioned instruction: deltas from Funcode.Pos saturate
	if len(out) > 0 && g.r.Intn(4) == 0 {
		g.p.before[out[0]] = g.gapText(g.drawLines())
	}

	var active syntax.Stmt
	var pre []syntax.Stmt
	if st.stmt != nil {
		active = st.stmt
	} else {
		e := g.wrapExpr(ctx, st.expr, g.drawCols())
		pre, active = g.exprStmt(ctx, e)
	}
	out = append(out, st.pre...)
	out = append(out, pre...)
	if !g.small && g.r.Intn(4) == 0 {
		// a positioned token far to the right just before: the next column delta is large and negative
		g.feat("pad:far-right-before")
		out = append(out, assign(id(g.fresh("r")), list(g.padString(g.drawCols()+40, false), g.ivar(ctx))))
	}

	block := []syntax.Stmt{active}
	target := active
	if !st.noNest {
		n := 0
		switch x := g.r.Intn(10); {
		case x < 4:
			n = 0
		case x < 7:
			n = 1
		case x < 9:
			n = 2
		default:
			n = 3
		}
		for i := 0; i < n; i++ {
			s := g.nest(ctx, block, !g.small && i == 0)
			block = []syntax.Stmt{s}
			if g.r.Intn(2) == 0 {
				target = s
			}
		}
	}
	gap := g.gapText(g.drawLines())
	g.p.before[target] = g.p.before[target] + gap
	if target != active && g.r.Intn(3) == 0 {
		g.p.before[active] = g.p.before[active] + g.gapText(g.drawLines())
	}
	out = append(out, block...)

	out = append(out, st.post...)
	npost := 0
	if g.r.Intn(2) == 0 {
		npost = g.drawStmts()
	}
	if len(block) == 1 && block[0] != active && !g.small && g.r.Intn(3) == 0 {
		// the active statement sits in a nested block that is laid out after the code that follows it:
		// a moderate amount of following code gives line deltas just beyond the negative limit
		npost = 6 + g.r.Intn(50)
	}
	posts := g.padRun(ctx, npost)
	if len(posts) > 0 && g.r.Intn(2) == 0 {
		g.p.before[posts[0]] = g.gapText(g.drawLines())
	}
	out = append(out, posts...)
	return out
}
