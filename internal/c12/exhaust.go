package c12

import (
	"fmt"
	"os"
	"strings"
	"syscall"
	"time"

	"go.starlark.net/starlark"

	"verif/internal/driver"
	"verif/internal/sl"
)

// ---------------------------------------------------------------------------------------------
// Exhaustive arm: every sequence of at most L operations from
// {insert k (5), delete k (5), popitem/pop, clear} through the Go API, from each start table.

const (
	nOps    = 12
	opPop   = 10
	opClear = 11
)

type xcfg struct {
	kind int  // kDict / kSet
	uni  int  // universe variant
	n    int  // number of pre-filled entries
	mode int  // how the filler keys hash
	zero bool // start from the zero value (table == nil) instead of NewDict(0)/NewSet(0)
	L    int  // sequences of length 0..L are enumerated
}

func (g xcfg) String() string {
	s := fmt.Sprintf("%s uni=%d start=%s", kindName[g.kind], g.uni, modeName[g.mode])
	if g.mode != modeNone {
		s += fmt.Sprintf(":%d", g.n)
	} else if g.zero {
		s += "(zero value)"
	}
	return s
}

var prefillSizes = []int{7, 8, 9, 12, 13, 26, 52, 53}

// mixed starts exist for the sizes at (or one below) which an insertion doubles the table
var mixedSizes = []int{12, 13, 26, 52}

// exhaustiveConfigs lists the start tables and the length bound of each.
//   - dict over universe 0: sequences of length <= L from every start, except L-1 from the two largest (52, 53);
//   - set over universe 1: the starts empty, zero value, chain:8 and chain:13 to length L, the others to L-1;
//   - dict over universe 1 and set over universe 0: every start to length L-1.
func exhaustiveConfigs(L int) []xcfg {
	var out []xcfg
	for kind := 0; kind < 2; kind++ {
		for uni := 0; uni < 2; uni++ {
			bound := func(mode, n int) int {
				switch {
				case kind == kDict && uni == 0 && n < 52:
					return L
				case kind == kSet && uni == 1 && (mode == modeNone || mode == modeChain && (n == 8 || n == 13)):
					return L
				}
				return L - 1
			}
			out = append(out, xcfg{kind: kind, uni: uni, L: bound(modeNone, 0)}, xcfg{kind: kind, uni: uni, zero: true, L: bound(modeNone, 0)})
			for _, mode := range []int{modeSpread, modeChain} {
				for _, n := range prefillSizes {
					out = append(out, xcfg{kind: kind, uni: uni, n: n, mode: mode, L: bound(mode, n)})
				}
			}
			for _, n := range mixedSizes {
				out = append(out, xcfg{kind: kind, uni: uni, n: n, mode: modeMixed, L: bound(modeMixed, n)})
			}
		}
	}
	return out
}

// pstep is one step of the scripted pre-fill history.
type pstep struct {
	del bool
	j   int // filler index
}

// prefillScript returns the history that builds the start table: n live fillers at the end.
// In chain mode the table is filled to n, then the filler in the middle of the order list is deleted
// and one more filler inserted: the chain holds a vacated slot (re-used or not, depending on where
// the chain's last vacant slot is) and the order list no longer follows the slot order. len never
// exceeds n, so the bucket count is that of a plain fill to n.
func prefillScript(g xcfg) (steps []pstep, nfill int) {
	if g.mode == modeNone {
		return nil, 0
	}
	for j := 0; j < g.n; j++ {
		steps = append(steps, pstep{false, j})
	}
	if g.mode == modeChain {
		steps = append(steps, pstep{true, g.n / 2}, pstep{false, g.n})
		return steps, g.n + 1
	}
	return steps, g.n
}

type xrun struct {
	c    *driver.Ctx
	g    xcfg
	ci   int
	th   *starlark.Thread
	uni  []*hkey // stored key objects
	uniQ []*hkey // equal but distinct objects used for queries and deletions
	fill []*hkey
	pre  []pstep

	tab   *gtab
	m     *model
	msave []model
	path  []uint8
	dirty bool // a violation was seen below: do not trust undo, rebuild
	stale bool // the table does not correspond to x.path; rebuild before the next use

	idbuf      []int32
	depths     [16]int // sequences judged, by length
	wantSample bool
	sampleSeq  string
	sampleEnd  string

	noUndo bool   // cross-check mode: always rebuild
	xsum   uint64 // cross-check accumulator over all visited nodes
	xcheck bool

	nodes, leaves, rebuilds, undos, grows, tablechecks int
	shapes                                             map[[2]int]struct{}
	states                                             map[uint64]struct{}
	nbad                                               map[string]int
}

func opName(op int) string {
	switch {
	case op < 5:
		return fmt.Sprintf("ins K%d", op)
	case op < 10:
		return fmt.Sprintf("del K%d", op-5)
	case op == opPop:
		return "popfirst"
	}
	return "clear"
}

func (x *xrun) pathString() string {
	var b strings.Builder
	for i, op := range x.path {
		if i > 0 {
			b.WriteString("; ")
		}
		b.WriteString(opName(int(op)))
	}
	return b.String()
}

func (x *xrun) bad(aspect, format string, args ...any) {
	x.dirty = true
	key := "C12 exhaustive " + kindName[x.g.kind] + " " + aspect
	x.nbad[key]++
	if x.nbad[key] > 3 {
		return
	}
	what := fmt.Sprintf("%s ops=[%s]: %s", x.g, x.pathString(), fmt.Sprintf(format, args...))
	x.c.Violation(key, what, map[string]any{
		"config": x.g.String(), "ops": x.pathString(), "universe_hashes": hashesOf(x.uni),
		"prefill": describePrefill(x.pre, x.fill), "model_order": append([]int32(nil), x.m.order...),
	})
}

func hashesOf(ks []*hkey) []string {
	out := make([]string, len(ks))
	for i, k := range ks {
		out[i] = fmt.Sprintf("%s:%#x", k.name, k.h)
	}
	return out
}

func describePrefill(pre []pstep, fill []*hkey) string {
	var b strings.Builder
	for i, s := range pre {
		if i > 0 {
			b.WriteString(" ")
		}
		if s.del {
			fmt.Fprintf(&b, "del(%s)", fill[s.j].name)
		} else {
			fmt.Fprintf(&b, "ins(%s:%#x)", fill[s.j].name, fill[s.j].h)
		}
	}
	return b.String()
}

func insVal(depth, i int) int32 { return int32(100*(depth+1) + i) }
func fillVal(j int) int32       { return int32(10000 + j) }

// rebuild makes a fresh table in the state reached by the pre-fill history followed by x.path.
func (x *xrun) rebuild() {
	x.rebuilds++
	t := newTab(x.g.kind, x.g.zero, x.th)
	for _, s := range x.pre {
		if s.del {
			t.del(x.fill[s.j])
		} else {
			t.insert(x.fill[s.j], fillVal(s.j))
		}
	}
	for d, op := range x.path {
		op := int(op)
		switch {
		case op < 5:
			t.insert(x.uni[op], insVal(d, op))
		case op < 10:
			t.del(x.uniQ[op-5])
		case op == opPop:
			t.popFirst()
		default:
			t.clear()
		}
	}
	x.tab = t
	x.stale = false
}

func (x *xrun) prefillModel() {
	x.m.clear()
	for _, s := range x.pre {
		id := x.fill[s.j].id
		if s.del {
			x.m.del(id)
		} else {
			x.m.set(id, x.mval(fillVal(s.j)))
		}
	}
}

func (x *xrun) mval(v int32) int32 {
	if x.g.kind == kSet {
		return 0
	}
	return v
}

const (
	undoNothing = iota
	undoValue
	undoInsert
	undoRebuild
)

// apply performs op on the table and on the model, compares the operation's result, and says how
// the table can be brought back to the previous state.
func (x *xrun) apply(op, depth int) (undo int, oldv int32) {
	t, m := x.tab, x.m
	switch {
	case op < 5:
		old, had := m.get(int32(op))
		v := insVal(depth, op)
		var b0, o0 int
		if !had {
			b0, o0 = starlark.VerifTableShape(t.value())
		}
		if err := t.insert(x.uni[op], v); err != nil {
			x.bad("return", "insert failed: %v", err)
		}
		m.set(int32(op), x.mval(v))
		if had {
			return undoValue, old
		}
		if b1, o1 := starlark.VerifTableShape(t.value()); b1 != b0 || o1 != o0 {
			if b1 != b0 {
				x.grows++
			}
			return undoRebuild, 0
		}
		return undoInsert, 0
	case op < 10:
		id := int32(op - 5)
		mv, mhad := m.del(id)
		v, found, vok, err := t.del(x.uniQ[id])
		if err != nil {
			x.bad("return", "delete failed: %v", err)
		} else if found != mhad || !vok || (found && v != mv) {
			x.bad("return", "delete(K%d) = (%d, found=%v, wellformed=%v), model (%d, %v)", id, v, found, vok, mv, mhad)
		}
		if mhad {
			return undoRebuild, 0
		}
		return undoNothing, 0
	case op == opPop:
		mid, mv, mok := m.popFirst()
		k, v, vok, err := t.popFirst()
		switch {
		case !mok:
			if err == nil {
				x.bad("return", "popfirst on empty returned %v, want error", k)
			} else if !strings.Contains(err.Error(), "empty") {
				x.bad("return", "popfirst on empty: unexpected error %v", err)
			}
			return undoNothing, 0
		case err != nil:
			x.bad("return", "popfirst failed: %v, model pops id %d", err, mid)
		case keyID(k) != mid || !vok || v != mv:
			x.bad("return", "popfirst = (%v, %d, wellformed=%v), model (id %d, %d)", k, v, vok, mid, mv)
		}
		return undoRebuild, 0
	default:
		was := m.len()
		m.clear()
		if err := t.clear(); err != nil {
			x.bad("return", "clear failed: %v", err)
		}
		if was > 0 {
			return undoRebuild, 0
		}
		return undoNothing, 0
	}
}

func mix(h, v uint64) uint64 {
	h ^= v + 0x9E3779B97F4A7C15 + (h << 6) + (h >> 2)
	return h * 0xFF51AFD7ED558CCD
}

// check compares everything observable with the model after the sequence x.path.
func (x *xrun) check(depth int) {
	t, m := x.tab, x.m
	x.nodes++
	x.depths[depth]++
	leaf := depth == x.g.L
	if leaf {
		x.leaves++
		if x.wantSample && x.sampleSeq == "" && x.leaves%977 == 0 {
			x.sampleSeq = x.pathString()
			x.sampleEnd = fmt.Sprintf("len=%d order(ids; 0-4 universe, >=5 fillers)=%v", m.len(), m.order)
		}
	}
	if n := t.length(); n != m.len() {
		x.bad("len", "Len() = %d, model %d", n, m.len())
	}
	for i, k := range x.uniQ {
		v, found, vok, err := t.get(k)
		mv, mhad := m.get(int32(i))
		if err != nil {
			x.bad("lookup", "lookup(K%d) failed: %v", i, err)
		} else if found != mhad {
			x.bad("membership", "K%d found=%v, model %v", i, found, mhad)
		} else if !vok || (found && v != mv) {
			x.bad("lookup", "lookup(K%d) = %d (wellformed=%v), model %d", i, v, vok, mv)
		}
	}
	if x.dirty {
		return // one report per divergence
	}
	// first and last live entry (fillers included) and the filler popped most recently
	if n := len(m.order); n > 0 {
		for _, id := range [2]int32{m.order[0], m.order[n-1]} {
			if int(id) >= 5 {
				v, found, vok, err := t.get(x.fill[id-5])
				if err != nil || !found || !vok || v != m.val[id] {
					x.bad("lookup", "lookup(filler id %d) = (%d, found=%v, err=%v), model %d", id, v, found, err, m.val[id])
				}
			}
		}
	}
	for j := range x.fill {
		if !m.has(int32(5 + j)) {
			if _, found, _, _ := t.get(x.fill[j]); found {
				x.bad("membership", "removed filler id %d still found", 5+j)
			}
			break
		}
	}
	if x.dirty {
		return
	}
	// iteration order
	ids, overrun := iterIDsBuf(t.iter(), len(m.order)+1, x.idbuf)
	x.idbuf = ids
	if overrun || !idsEqual(ids, m.order) {
		x.bad("order", "Iterate() yields %s, model %s", fmtIDs(ids), fmtIDs(m.order))
	} else if !leaf || x.leaves&7 == 0 {
		// the other views of the same list
		if t.kind == kDict {
			keys := t.d.Keys()
			items := t.d.Items()
			ok := len(keys) == len(m.order) && len(items) == len(m.order)
			for i := 0; ok && i < len(keys); i++ {
				id := m.order[i]
				v, isInt := intOf(items[i][1])
				ok = keyID(keys[i]) == id && keyID(items[i][0]) == id && isInt && v == m.val[id]
			}
			if !ok {
				x.bad("order", "Keys()/Items() = %v / %v, model order %s values %v", keys, items, fmtIDs(m.order), m.vals())
			}
		}
	}
	if x.dirty {
		return
	}
	if !leaf || x.leaves&3 == 0 {
		x.tablechecks++
		if err := starlark.VerifCheckTable(t.value()); err != nil {
			x.bad("table-invariant", "VerifCheckTable: %v", err)
		}
	}
	b, o := starlark.VerifTableShape(t.value())
	sh := [2]int{b, o}
	if _, ok := x.shapes[sh]; !ok {
		x.shapes[sh] = struct{}{}
	}
	// abstract state: live universe keys in order, number of surviving fillers, table shape
	st := uint64(x.ci)
	nf := 0
	for _, id := range m.order {
		if id >= 5 {
			nf++
		} else {
			st = st*7 + uint64(id) + 1
		}
	}
	st = mix(mix(mix(st, uint64(nf)), uint64(b)), uint64(o))
	x.states[st] = struct{}{}
	if x.xcheck {
		h := uint64(len(x.path))
		for _, op := range x.path {
			h = mix(h, uint64(op))
		}
		for _, id := range ids {
			h = mix(h, uint64(id))
		}
		h = mix(mix(h, uint64(b)), uint64(o))
		x.xsum += h
	}
}

// step applies op at the given depth, checks, explores all extensions, and restores the table.
func (x *xrun) step(op, depth int) {
	if x.stale {
		x.rebuild()
	}
	x.msave[depth].copyFrom(x.m)
	undo, oldv := x.apply(op, depth)
	x.path = append(x.path, uint8(op))
	if !x.dirty { // a wrong result already separates table and model: the rest would only repeat it
		x.check(depth + 1)
	}
	if depth+1 < x.g.L && !x.dirty {
		for o := 0; o < nOps; o++ {
			x.step(o, depth+1)
		}
	}
	x.path = x.path[:depth]
	x.m.copyFrom(&x.msave[depth])
	if x.dirty || x.noUndo || x.stale {
		// (a stale table would have to be rebuilt for path+op first; the undo below is exact,
		// so rebuilding for the shorter path when it is next needed is the same thing)
		undo = undoRebuild
		x.dirty = false
	}
	switch undo {
	case undoNothing:
	case undoValue:
		// the key is present: storing the old value back changes nothing else
		x.tab.insert(x.uni[op], oldv)
		x.undos++
	case undoInsert:
		// the new key took a vacant slot of an existing bucket and the tail of the order list;
		// deleting it zeroes the slot and unlinks the tail again
		x.tab.del(x.uni[op])
		x.undos++
	default:
		x.stale = true
	}
}

// runPrefix runs the case (config, first two operations): the sequences (), (o1), (o1,o2) and every
// extension of (o1,o2) up to the config's length bound.
func (x *xrun) runPrefix(o1, o2 int) {
	x.path = x.path[:0]
	x.dirty = false
	x.prefillModel()
	x.rebuild()
	x.check(0)
	if x.dirty {
		x.dirty = false
		return
	}
	x.msave[0].copyFrom(x.m)
	x.apply(o1, 0)
	x.path = append(x.path, uint8(o1))
	if !x.dirty {
		x.check(1)
	}
	if x.dirty { // table and model differ after the first operation already: nothing to extend
		x.dirty = false
		return
	}
	x.step(o2, 1)
}

func newXrun(c *driver.Ctx, g xcfg, ci int, th *starlark.Thread) *xrun {
	x := &xrun{c: c, g: g, ci: ci, th: th}
	x.uni = universe(g.uni)
	x.uniQ = universe(g.uni)
	var nfill int
	x.pre, nfill = prefillScript(g)
	for j, h := range fillerHashes(g.mode, g.uni, g.n, nfill) {
		x.fill = append(x.fill, &hkey{id: int32(5 + j), h: h, name: fmt.Sprintf("F%d", j)})
	}
	x.m = newModel(5 + nfill)
	x.msave = make([]model, g.L+1)
	x.shapes = map[[2]int]struct{}{}
	x.states = map[uint64]struct{}{}
	x.nbad = map[string]int{}
	return x
}

func cpuNow() time.Duration {
	var ru syscall.Rusage
	syscall.Getrusage(syscall.RUSAGE_SELF, &ru)
	return time.Duration(ru.Utime.Nano() + ru.Stime.Nano())
}

func runExhaustive(c *driver.Ctx) {
	L := c.Pick(5, 7)
	if v := envInt("VERIF_C12_L"); v > 0 {
		L = v
	}
	cfgs := exhaustiveConfigs(L)
	th := &starlark.Thread{Name: "c12"}
	ncases := len(cfgs) * nOps * nOps
	idx := 0
	nxs := 0 // samples taken by this shard (the other arms get the remaining slots)
	for ci, g := range cfgs {
		var x *xrun
		t0 := cpuNow()
		for o1 := 0; o1 < nOps; o1++ {
			for o2 := 0; o2 < nOps; o2++ {
				idx++
				if !c.Take() {
					continue
				}
				if x == nil {
					x = newXrun(c, g, ci, th)
				}
				c.Note("key=C12 exhaustive %s crash\n%s first ops %s; %s", kindName[g.kind], g, opName(o1), opName(o2))
				x.xcheck = c.Case()%61 == 0
				x.wantSample, x.sampleSeq = nxs < 2 && c.Shard%3 == 0 && c.WantSample() && o1 < 5 && o2 != o1 && (g.mode != modeNone || c.Shard == 0), ""
				x.noUndo = false
				x.xsum = 0
				n0 := x.nodes
				if p := sl.Safe(func() { x.runPrefix(o1, o2) }); p != nil {
					c.Violation("C12 exhaustive "+kindName[g.kind]+" panic", fmt.Sprintf("%s ops=[%s…]: panic %v at %s", g, x.pathString(), p.Value, p.TopFrame()),
						map[string]any{"config": g.String(), "ops_prefix": x.pathString(), "stack": driver.Truncate(p.Stack, 4000)})
					x = newXrun(c, g, ci, th)
					continue
				}
				judged := x.nodes - n0
				if x.xcheck {
					// harness self-test: the same case with every restore done by a rebuild from scratch
					// must observe exactly the same orders and table shapes at every node
					with := x.xsum
					saved := [6]int{x.nodes, x.leaves, x.rebuilds, x.undos, x.grows, x.tablechecks}
					x.xsum, x.noUndo = 0, true
					if p := sl.Safe(func() { x.runPrefix(o1, o2) }); p == nil {
						if x.xsum != with && len(x.nbad) == 0 {
							c.Inconclusive("C12 harness: undo-based restore and rebuild disagree in case %d (%s; %s; %s)", c.Case(), g, opName(o1), opName(o2))
						}
						c.Count("x_undo_crosschecked_cases", 1)
					}
					x.noUndo = false
					x.nodes, x.leaves, x.rebuilds, x.undos, x.grows, x.tablechecks = saved[0], saved[1], saved[2], saved[3], saved[4], saved[5]
				}
				c.Eval(judged)
				c.Distinct(fmt.Sprintf("x/%d/%d/%d", ci, o1, o2))
				if x.wantSample && x.sampleSeq != "" {
					nxs++
					c.Sample(map[string]any{"arm": "exhaustive", "start": g.String(), "first_ops": opName(o1) + "; " + opName(o2),
						"one_sequence": x.sampleSeq, "its_final_state": x.sampleEnd,
						"extensions_enumerated_to_length": g.L, "sequences_judged": judged})
				}
				if idx == ncases {
					// the case list of this tier ends here; every shard runs its share of it
					c.Count("exhaustive_subspace_completed", 1)
				}
			}
		}
		if x != nil && os.Getenv("VERIF_C12_PROF") != "" { // dev only
			fmt.Fprintf(os.Stderr, "%-40s nodes=%d rebuilds=%d  %.2f us/node\n", g, x.nodes, x.rebuilds, float64((cpuNow()-t0).Microseconds())/float64(x.nodes))
		}
		if x != nil {
			c.Count("x_sequences_judged", x.nodes)
			c.Count("x_sequences_of_max_length", x.leaves)
			c.Count("x_table_rebuilds", x.rebuilds)
			c.Count("x_inplace_undos", x.undos)
			c.Count("x_grow_events_in_enumerated_ops", x.grows)
			c.Count("x_table_invariant_checks", x.tablechecks)
			for sh := range x.shapes {
				c.Cover("x_table_shape", fmt.Sprintf("buckets=%d overflow=%d", sh[0], sh[1]))
			}
			for st := range x.states {
				c.DistinctH(st)
			}
			c.Cover("x_start", g.String())
			for d, n := range x.depths {
				if n > 0 {
					c.Cover("x_sequence_lengths_judged", fmt.Sprintf("%s/%s len=%d", kindName[g.kind], []string{"universe0", "universe1"}[g.uni], d))
				}
			}
		}
	}
}
