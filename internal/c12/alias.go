package c12

import (
	"fmt"

	"go.starlark.net/starlark"

	"verif/internal/driver"
	"verif/internal/sl"
)

// ---------------------------------------------------------------------------------------------
// Aliasing oracle, Go API: Dict.Union and Set.Union/Intersection/Difference/SymmetricDifference
// return new collections. For every pair of operand shapes (never-allocated zero value, constructor,
// emptied by Delete / pop-first / Clear, 1, 3, 5 keys, a 9-entry chain with an overflow bucket, and
// the identical operand) the result must be a different object, and result and operands must not
// influence each other under insert / delete / clear / freeze.

const aKX = 5 // id of the fresh key; fillers follow

type goShape struct {
	name  string
	build func(a *arun) (*gtab, *model)
}

type arun struct {
	c    *driver.Ctx
	kind int
	uni  int
	keys []*hkey // index = id: 0..4 universe, 5 kx, 6.. chain fillers
	th   *starlark.Thread
	what string
	nbad int
}

func (a *arun) newModel() *model { return newModel(len(a.keys)) }

func (a *arun) ins(t *gtab, m *model, id int32, v int32) error {
	if a.kind == kSet {
		v = 0
	}
	err := t.insert(a.keys[id], v)
	if err == nil {
		m.set(id, v)
	}
	return err
}

func (a *arun) filled(zero bool, ids ...int32) (*gtab, *model) {
	t, m := newTab(a.kind, zero, a.th), a.newModel()
	for i, id := range ids {
		a.ins(t, m, id, int32(10+i))
	}
	return t, m
}

func goShapes() []goShape {
	return []goShape{
		{"zero-value", func(a *arun) (*gtab, *model) { return a.filled(true) }},
		{"constructor-empty", func(a *arun) (*gtab, *model) { return a.filled(false) }},
		{"emptied-by-delete", func(a *arun) (*gtab, *model) {
			t, m := a.filled(true, 0)
			t.del(a.keys[0])
			m.del(0)
			return t, m
		}},
		{"emptied-by-popfirst", func(a *arun) (*gtab, *model) {
			t, m := a.filled(false, 3, 1)
			for m.len() > 0 {
				t.popFirst()
				m.popFirst()
			}
			return t, m
		}},
		{"emptied-by-clear", func(a *arun) (*gtab, *model) {
			t, m := a.filled(false, 2, 0, 4)
			t.clear()
			m.clear()
			return t, m
		}},
		{"grown-then-cleared", func(a *arun) (*gtab, *model) {
			ids := []int32{}
			for id := int32(6); id < int32(6+14); id++ {
				ids = append(ids, id)
			}
			t, m := a.filled(false, ids...)
			t.clear()
			m.clear()
			return t, m
		}},
		{"one", func(a *arun) (*gtab, *model) { return a.filled(true, 1) }},
		{"three", func(a *arun) (*gtab, *model) { return a.filled(false, 2, 0, 3) }},
		{"five", func(a *arun) (*gtab, *model) { return a.filled(true, 4, 3, 2, 1, 0) }},
		{"chain-9", func(a *arun) (*gtab, *model) { return a.filled(false, 6, 7, 8, 9, 10, 11, 12, 13, 14) }},
	}
}

type goOp struct {
	name string
	key  string
	// asList: the right operand is handed over as a list iterator instead of the set's own
	run func(a *arun, x, y *gtab, my *model) (starlark.Value, error)
	res func(mx, my *model) *model
}

func (a *arun) iterOf(y *gtab, my *model, asList bool) starlark.Iterator {
	if !asList {
		return y.iter()
	}
	var elems []starlark.Value
	for _, id := range my.order {
		elems = append(elems, a.keys[id])
	}
	return starlark.NewList(elems).Iterate()
}

func goOps(kind int) []goOp {
	ord := func(m *model) []int32 { return append([]int32(nil), m.order...) }
	if kind == kDict {
		return []goOp{{"Dict.Union", "dict-union",
			func(a *arun, x, y *gtab, my *model) (starlark.Value, error) { return x.d.Union(y.d), nil },
			func(mx, my *model) *model { o, v := snap(my); return mx.union(o, v) }}}
	}
	var out []goOp
	for _, asList := range []bool{false, true} {
		asList := asList
		sfx := ""
		if asList {
			sfx = "(list iterator)"
		}
		with := func(f func(s *starlark.Set, it starlark.Iterator) (starlark.Value, error)) func(a *arun, x, y *gtab, my *model) (starlark.Value, error) {
			return func(a *arun, x, y *gtab, my *model) (starlark.Value, error) {
				it := a.iterOf(y, my, asList)
				defer it.Done()
				return f(x.s, it)
			}
		}
		out = append(out,
			goOp{"Set.Union" + sfx, "set-union", with(func(s *starlark.Set, it starlark.Iterator) (starlark.Value, error) { return s.Union(it) }),
				func(mx, my *model) *model { return mx.union(ord(my), nil) }},
			goOp{"Set.Intersection" + sfx, "set-intersection", with(func(s *starlark.Set, it starlark.Iterator) (starlark.Value, error) { return s.Intersection(it) }),
				func(mx, my *model) *model { return mx.intersection(ord(my)) }},
			goOp{"Set.Difference" + sfx, "set-difference", with(func(s *starlark.Set, it starlark.Iterator) (starlark.Value, error) { return s.Difference(it) }),
				func(mx, my *model) *model { return mx.difference(ord(my)) }},
			goOp{"Set.SymmetricDifference" + sfx, "set-symmetric_difference", with(func(s *starlark.Set, it starlark.Iterator) (starlark.Value, error) {
				return s.SymmetricDifference(it)
			}), func(mx, my *model) *model { return mx.symmetricDifference(ord(my)) }},
		)
	}
	return out
}

// diff compares a table with its model: "" when equal.
func (a *arun) diff(t *gtab, m *model) string {
	if n := t.length(); n != m.len() {
		return fmt.Sprintf("len %d, model %d", n, m.len())
	}
	ids, overrun := iterIDs(t.iter(), m.len()+1)
	if overrun || !idsEqual(ids, m.order) {
		return fmt.Sprintf("order %s, model %s", fmtIDs(ids), fmtIDs(m.order))
	}
	for id, k := range a.keys {
		v, found, vok, err := t.get(k)
		mv, mhad := m.get(int32(id))
		if err != nil || found != mhad || !vok || (found && v != mv) {
			return fmt.Sprintf("key id %d: (%d, found=%v, err=%v), model (%d, %v)", id, v, found, err, mv, mhad)
		}
	}
	if err := starlark.VerifCheckTable(t.value()); err != nil {
		return "VerifCheckTable: " + err.Error()
	}
	return ""
}

func (a *arun) bad(key, format string, args ...any) {
	a.nbad++
	a.c.Violation("C12 alias "+key, fmt.Sprintf("%s (Go API): %s", a.what, fmt.Sprintf(format, args...)),
		map[string]any{"scenario": a.what, "universe_hashes": hashesOf(a.keys[:5])})
}

// scenario runs one (x shape, y shape | identical, operation).
func (a *arun) scenario(sx, sy goShape, same bool, op goOp) {
	a.what = fmt.Sprintf("%s uni=%d z = %s(x=%s, y=%s)", kindName[a.kind], a.uni, op.name, sx.name, sy.name)
	if same {
		a.what = fmt.Sprintf("%s uni=%d z = %s(x=%s, y=x)", kindName[a.kind], a.uni, op.name, sx.name)
	}
	var x, y *gtab
	var mx, my *model
	build := func() {
		x, mx = sx.build(a)
		y, my = x, mx
		if !same {
			y, my = sy.build(a)
		}
	}
	derive := func() (*gtab, *model, bool) {
		v, err := op.run(a, x, y, my)
		if err != nil {
			a.bad(op.key, "operation failed: %v", err)
			return nil, nil, false
		}
		zm := op.res(mx, my)
		z := &gtab{kind: a.kind, th: a.th}
		switch c := v.(type) {
		case *starlark.Dict:
			z.d = c
		case *starlark.Set:
			z.s = c
		}
		if kindOf(v) != a.kind {
			a.bad(op.key, "result is a %s", v.Type())
			return nil, nil, false
		}
		if d := a.diff(z, zm); d != "" {
			e := sexp{opkey: op.key}
			a.c.Violation(derivedKey(&e, false), fmt.Sprintf("%s (Go API): result: %s", a.what, d), nil)
			return nil, nil, false
		}
		// (1) a new object
		if v == x.value() || v == y.value() {
			a.bad(op.key, "the result is the very object of an operand, not a new collection")
			return nil, nil, false
		}
		return z, zm, true
	}
	operands := func(step string) bool {
		if d := a.diff(x, mx); d != "" {
			a.bad(op.key, "after %s the LEFT operand differs from its model: %s", step, d)
			return false
		}
		if d := a.diff(y, my); d != "" {
			a.bad(op.key, "after %s the RIGHT operand differs from its model: %s", step, d)
			return false
		}
		return true
	}
	result := func(z *gtab, zm *model, step string) bool {
		if d := a.diff(z, zm); d != "" {
			a.bad(op.key, "after %s the RESULT differs from its model: %s", step, d)
			return false
		}
		return true
	}

	// (2) mutate the result
	build()
	z, zm, ok := derive()
	if !ok {
		return
	}
	if err := a.ins(z, zm, aKX, 77); err != nil {
		a.bad(op.key, "insert into the result failed: %v", err)
		return
	}
	if !result(z, zm, "inserting a fresh key into the result") || !operands("inserting a fresh key into the result") {
		return
	}
	if zm.len() > 1 {
		first := zm.order[0]
		z.del(a.keys[first])
		zm.del(first)
		if !result(z, zm, "deleting the result's first key") || !operands("deleting the result's first key") {
			return
		}
	}
	z.clear()
	zm.clear()
	if !result(z, zm, "clearing the result") || !operands("clearing the result") {
		return
	}

	// (3) mutate the operands
	build()
	if z, zm, ok = derive(); !ok {
		return
	}
	a.ins(x, mx, aKX, 78)
	if !result(z, zm, "inserting a fresh key into the left operand") {
		return
	}
	x.del(a.keys[aKX])
	mx.del(aKX)
	if !same {
		a.ins(y, my, aKX, 79)
		if !result(z, zm, "inserting a fresh key into the right operand") {
			return
		}
		y.del(a.keys[aKX])
		my.del(aKX)
	}
	if mx.len() > 0 {
		last := mx.order[mx.len()-1]
		x.del(a.keys[last])
		mx.del(last)
		if !result(z, zm, "deleting the left operand's last key") {
			return
		}
	}
	x.clear()
	mx.clear()
	if !result(z, zm, "clearing the left operand") {
		return
	}
	if !same {
		y.clear()
		my.clear()
		if !result(z, zm, "clearing the right operand") {
			return
		}
	}

	// (4) freeze the operands
	build()
	if z, zm, ok = derive(); !ok {
		return
	}
	x.value().Freeze()
	y.value().Freeze()
	if err := a.ins(z, zm, aKX, 80); err != nil {
		a.bad(op.key, "the result cannot be mutated after its operands were frozen: %v", err)
		return
	}
	if result(z, zm, "freezing the operands and inserting into the result") {
		operands("freezing the operands and inserting into the result")
	}
}

func runAliasGo(c *driver.Ctx) {
	shapes := goShapes()
	th := &starlark.Thread{Name: "c12a"}
	for kind := 0; kind < 2; kind++ {
		for uni := 0; uni < 2; uni++ {
			for xi, sx := range shapes {
				if !c.Take() {
					continue
				}
				a := &arun{c: c, kind: kind, uni: uni, th: th}
				for _, k := range universe(uni) {
					a.keys = append(a.keys, k)
				}
				a.keys = append(a.keys, &hkey{id: aKX, h: a.keys[0].h, name: "KX"})
				for j := 0; j < 14; j++ {
					a.keys = append(a.keys, &hkey{id: int32(6 + j), h: chainHash(uni, j), name: fmt.Sprintf("F%d", j)})
				}
				c.Note("key=C12 alias %s crash\n%s uni=%d x=%s", kindName[kind], kindName[kind], uni, sx.name)
				n := 0
				if p := sl.Safe(func() {
					for yi := -1; yi < len(shapes); yi++ {
						for _, op := range goOps(kind) {
							if yi < 0 {
								a.scenario(sx, sx, true, op)
							} else {
								a.scenario(sx, shapes[yi], false, op)
							}
							n++
						}
					}
				}); p != nil {
					c.Violation("C12 alias "+kindName[kind]+" panic", fmt.Sprintf("%s: panic %v at %s", a.what, p.Value, p.TopFrame()), map[string]any{"stack": driver.Truncate(p.Stack, 3000)})
				}
				c.Eval(n)
				c.Count("a_goapi_alias_scenarios", n)
				c.Distinct(fmt.Sprintf("a/%d/%d/%d", kind, uni, xi))
				c.Cover("a_operand_shapes", sx.name)
				if c.Shard%3 == 0 && c.WantSample() && xi == 3 {
					c.Sample(map[string]any{"arm": "alias-go-api", "last_scenario": a.what, "scenarios": n,
						"steps": "result != operands; insert/delete/clear on result -> operands unchanged; insert/delete/clear on operands -> result unchanged; freeze operands -> result mutable"})
				}
			}
		}
	}
}
