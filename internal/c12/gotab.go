package c12

import (
	"fmt"

	"go.starlark.net/starlark"
)

const (
	kDict = 0
	kSet  = 1
)

var kindName = [2]string{"dict", "set"}

// gtab drives a *Dict or a *Set through the Go API with one vocabulary.
// Dict values are small ints; a Set reports value 0 for every element.
type gtab struct {
	kind int
	d    *starlark.Dict
	s    *starlark.Set
	pop  starlark.Value // bound popitem / pop method (fetched lazily)
	th   *starlark.Thread
}

// newTab makes an empty table. zero selects the zero value (table allocated by the first
// insert) instead of the constructor.
func newTab(kind int, zero bool, th *starlark.Thread) *gtab {
	t := &gtab{kind: kind, th: th}
	if kind == kDict {
		if zero {
			t.d = new(starlark.Dict)
		} else {
			t.d = starlark.NewDict(0)
		}
	} else {
		if zero {
			t.s = new(starlark.Set)
		} else {
			t.s = starlark.NewSet(0)
		}
	}
	return t
}

func (t *gtab) value() starlark.Value {
	if t.kind == kDict {
		return t.d
	}
	return t.s
}

func (t *gtab) insert(k starlark.Value, v int32) error {
	if t.kind == kDict {
		return t.d.SetKey(k, starlark.MakeInt(int(v)))
	}
	return t.s.Insert(k)
}

func intOf(v starlark.Value) (int32, bool) {
	i, ok := v.(starlark.Int)
	if !ok {
		return 0, false
	}
	n, ok := i.Int64()
	if !ok || n != int64(int32(n)) {
		return 0, false
	}
	return int32(n), true
}

// del removes k. For a dict, vOK is false when the reported value is not what the Go API
// documents for the found/not-found case (an int value, or None when not found).
func (t *gtab) del(k starlark.Value) (v int32, found bool, vOK bool, err error) {
	if t.kind == kDict {
		val, f, e := t.d.Delete(k)
		if e != nil {
			return 0, f, true, e
		}
		if !f {
			return 0, false, val == starlark.None, nil
		}
		n, ok := intOf(val)
		return n, true, ok, nil
	}
	f, e := t.s.Delete(k)
	return 0, f, true, e
}

func (t *gtab) get(k starlark.Value) (v int32, found bool, vOK bool, err error) {
	if t.kind == kDict {
		val, f, e := t.d.Get(k)
		if e != nil {
			return 0, f, true, e
		}
		if !f {
			return 0, false, val == starlark.None, nil
		}
		n, ok := intOf(val)
		return n, true, ok, nil
	}
	f, e := t.s.Has(k)
	return 0, f, true, e
}

func (t *gtab) length() int {
	if t.kind == kDict {
		return t.d.Len()
	}
	return t.s.Len()
}

func (t *gtab) clear() error {
	if t.kind == kDict {
		return t.d.Clear()
	}
	return t.s.Clear()
}

func (t *gtab) iter() starlark.Iterator {
	if t.kind == kDict {
		return t.d.Iterate()
	}
	return t.s.Iterate()
}

// popFirst calls the bound method value dict.popitem / set.pop.
func (t *gtab) popFirst() (k starlark.Value, v int32, vOK bool, err error) {
	if t.pop == nil {
		name := "popitem"
		if t.kind == kSet {
			name = "pop"
		}
		var aerr error
		t.pop, aerr = t.value().(starlark.HasAttrs).Attr(name)
		if aerr != nil || t.pop == nil {
			return nil, 0, false, fmt.Errorf("no method %s: %v", name, aerr)
		}
	}
	r, err := starlark.Call(t.th, t.pop, nil, nil)
	if err != nil {
		return nil, 0, true, err
	}
	if t.kind == kSet {
		return r, 0, true, nil
	}
	tup, ok := r.(starlark.Tuple)
	if !ok || len(tup) != 2 {
		return r, 0, false, nil
	}
	n, ok := intOf(tup[1])
	return tup[0], n, ok, nil
}

// call invokes a method of the collection by name.
func (t *gtab) call(name string, args ...starlark.Value) (starlark.Value, error) {
	m, err := t.value().(starlark.HasAttrs).Attr(name)
	if err != nil || m == nil {
		return nil, fmt.Errorf("no method %s: %v", name, err)
	}
	return starlark.Call(t.th, m, starlark.Tuple(args), nil)
}

func keyID(v starlark.Value) int32 {
	if k, ok := v.(*hkey); ok {
		return k.id
	}
	return -1
}

// iterIDs walks the collection with Iterate/Next, giving up after limit elements
// (a corrupted order list may be cyclic).
func iterIDs(it starlark.Iterator, limit int) (ids []int32, overrun bool) {
	return iterIDsBuf(it, limit, nil)
}

// iterIDsBuf is iterIDs appending to buf[:0].
func iterIDsBuf(it starlark.Iterator, limit int, buf []int32) (ids []int32, overrun bool) {
	defer it.Done()
	ids = buf[:0]
	var kv starlark.Value
	for it.Next(&kv) {
		if len(ids) >= limit {
			return ids, true
		}
		ids = append(ids, keyID(kv))
	}
	return ids, false
}

func idsEqual(a, b []int32) bool {
	if len(a) != len(b) {
		return false
	}
	for i := range a {
		if a[i] != b[i] {
			return false
		}
	}
	return true
}

func sameElems(a, b []int32) bool {
	if len(a) != len(b) {
		return false
	}
	cnt := map[int32]int{}
	for _, x := range a {
		cnt[x]++
	}
	for _, x := range b {
		cnt[x]--
		if cnt[x] < 0 {
			return false
		}
	}
	return true
}

func fmtIDs(ids []int32) string {
	if len(ids) > 40 {
		return fmt.Sprintf("%v…(%d ids)", ids[:40], len(ids))
	}
	return fmt.Sprint(ids)
}
