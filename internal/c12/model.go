package c12

import "math"

// model is the oracle: a plain ordered association list over integer key ids.
// A new key is appended; updating keeps the position; deleting removes the entry.
// val is indexed by key id (ids are small dense integers) and duplicates the
// association for O(1) membership; order is the list itself.
type model struct {
	order []int32
	val   []int32
}

const absent = math.MinInt32

func newModel(nkeys int) *model {
	m := &model{val: make([]int32, nkeys)}
	for i := range m.val {
		m.val[i] = absent
	}
	return m
}

func (m *model) len() int          { return len(m.order) }
func (m *model) has(id int32) bool { return m.val[id] != absent }

func (m *model) get(id int32) (int32, bool) {
	v := m.val[id]
	return v, v != absent
}

// set inserts or updates; it reports whether the key was new.
func (m *model) set(id, v int32) bool {
	isNew := m.val[id] == absent
	if isNew {
		m.order = append(m.order, id)
	}
	m.val[id] = v
	return isNew
}

func (m *model) del(id int32) (int32, bool) {
	v := m.val[id]
	if v == absent {
		return 0, false
	}
	m.val[id] = absent
	for i := len(m.order) - 1; i >= 0; i-- {
		if m.order[i] == id {
			copy(m.order[i:], m.order[i+1:])
			m.order = m.order[:len(m.order)-1]
			break
		}
	}
	return v, true
}

// popFirst removes the first entry (spec: dict.popitem "returns the first key/value pair",
// set.pop "removes the first inserted item").
func (m *model) popFirst() (id, v int32, ok bool) {
	if len(m.order) == 0 {
		return 0, 0, false
	}
	id = m.order[0]
	v = m.val[id]
	m.val[id] = absent
	m.order = m.order[1:]
	return id, v, true
}

func (m *model) clear() {
	for _, id := range m.order {
		m.val[id] = absent
	}
	m.order = m.order[:0]
}

func (m *model) clone() *model {
	return &model{order: append([]int32(nil), m.order...), val: append([]int32(nil), m.val...)}
}

// copyFrom makes m a copy of o, reusing m's storage.
func (m *model) copyFrom(o *model) {
	m.order = append(m.order[:0], o.order...)
	m.val = append(m.val[:0], o.val...)
}

func (m *model) vals() []int32 {
	out := make([]int32, len(m.order))
	for i, id := range m.order {
		out[i] = m.val[id]
	}
	return out
}

// ---- derived collections, in the order the specification states ----

// updateFrom inserts the pairs (ids[i], vals[i]) in sequence (dict.update, dict |=, set.update).
func (m *model) updateFrom(ids, vals []int32) {
	for i, id := range ids {
		v := int32(0)
		if vals != nil {
			v = vals[i]
		}
		m.set(id, v)
	}
}

// union: all keys of the left operand in insertion order, then the keys of the right operand not
// present in the left, again in order; the right value wins (spec, dict `|`; set `|`: "left before right").
func (m *model) union(ids, vals []int32) *model {
	r := m.clone()
	r.updateFrom(ids, vals)
	return r
}

// member returns the characteristic vector of ids.
func (m *model) member(ids []int32) []bool {
	in := make([]bool, len(m.val))
	for _, id := range ids {
		in[id] = true
	}
	return in
}

// intersection: the elements of the left operand that are also in y, "preserving the element
// order of the left operand" (spec, `&`; set·intersection: "all the elements of set S which are also in y").
func (m *model) intersection(ids []int32) *model {
	r := newModel(len(m.val))
	in := m.member(ids)
	for _, id := range m.order {
		if in[id] {
			r.set(id, 0)
		}
	}
	return r
}

// difference: "all the elements of set S which are not in y".
func (m *model) difference(ids []int32) *model {
	r := newModel(len(m.val))
	in := m.member(ids)
	for _, id := range m.order {
		if !in[id] {
			r.set(id, 0)
		}
	}
	return r
}

// symmetricDifference: "all of the items which are in S but not y, followed by all of the items
// which are in y but not S".
func (m *model) symmetricDifference(ids []int32) *model {
	r := m.difference(ids)
	for _, id := range ids {
		if !m.has(id) {
			r.set(id, 0)
		}
	}
	return r
}

// isSubset: "all items in S are also in y".
func (m *model) isSubset(ids []int32) bool {
	in := m.member(ids)
	for _, id := range m.order {
		if !in[id] {
			return false
		}
	}
	return true
}

// isSuperset: "all items in y are also in S".
func (m *model) isSuperset(ids []int32) bool {
	for _, id := range ids {
		if !m.has(id) {
			return false
		}
	}
	return true
}
