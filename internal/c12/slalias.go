package c12

import (
	"fmt"

	"verif/internal/driver"
)

// ---------------------------------------------------------------------------------------------
// Starlark-level arm, part D: aliasing oracle. Every operation that the specification says returns
// a NEW collection (dict |, set | & - ^, set.union/intersection/difference/symmetric_difference,
// dict(), set(), comprehensions, keys/values/items/list) must return an object that shares nothing
// with its operands: mutating the result leaves the operands as their models say, mutating an
// operand leaves the result as its model says, and freezing the operands leaves the result mutable.
// Operand shapes include literal-empty, never-allocated, emptied by pop/popitem/clear, small,
// pre-filled with an overflow bucket, and the identical operand (x OP x).

type ashape struct {
	name  string
	build func(g *sgen, x string) *model
}

func ksrc(id int32) string {
	switch {
	case id == idKX:
		return "kx"
	case id >= idFill0:
		return fmt.Sprintf("PREK[%d]", id-idFill0)
	}
	return keySrc[id]
}

func (g *sgen) rawInsert(x string, m *model, id int32) {
	if g.kind == kDict {
		v := g.val()
		g.stmt("%s[%s] = %d", x, ksrc(id), v)
		m.set(id, v)
	} else {
		g.stmt("%s.add(%s)", x, ksrc(id))
		m.set(id, 0)
	}
}

func (g *sgen) rawDelete(x string, m *model, id int32) {
	if g.kind == kDict {
		g.stmt("%s.pop(%s)", x, ksrc(id))
	} else {
		g.stmt("%s.remove(%s)", x, ksrc(id))
	}
	m.del(id)
}

func (g *sgen) emptyLit() string {
	if g.kind == kDict {
		return "{}"
	}
	return "set()"
}

const aliasPrefill = 9 // one bucket chain of 9: an overflow bucket

func aliasShapes() []ashape {
	filled := func(ids ...int32) func(g *sgen, x string) *model {
		return func(g *sgen, x string) *model {
			m := g.newModel()
			g.stmt("%s = %s", x, g.emptyLit())
			for _, id := range ids {
				g.rawInsert(x, m, id)
			}
			return m
		}
	}
	return []ashape{
		{"empty-literal", filled()},
		{"empty-constructor", func(g *sgen, x string) *model {
			if g.kind == kDict {
				g.stmt("%s = dict()", x)
			} else {
				g.stmt("%s = set([])", x)
			}
			return g.newModel()
		}},
		{"emptied-by-delete", func(g *sgen, x string) *model {
			m := filled(0)(g, x)
			g.rawDelete(x, m, 0)
			return m
		}},
		{"emptied-by-popfirst", func(g *sgen, x string) *model {
			m := filled(3, 1)(g, x)
			for m.len() > 0 {
				if g.kind == kDict {
					g.stmt("%s.popitem()", x)
				} else {
					g.stmt("%s.pop()", x)
				}
				m.popFirst()
			}
			return m
		}},
		{"emptied-by-clear", func(g *sgen, x string) *model {
			m := filled(2, 0, 4)(g, x)
			g.stmt("%s.clear()", x)
			m.clear()
			return m
		}},
		{"one", filled(1)},
		{"three", filled(2, 0, 3)},
		{"five", filled(4, 3, 2, 1, 0)},
		{"prefilled-chain-9", func(g *sgen, x string) *model {
			pre := "PRE"
			if g.kind == kSet {
				pre = "PREK"
			}
			return g.startStmt(x, pre, aliasPrefill)
		}},
	}
}

// aop is one operation that must return a new collection.
type aop struct {
	expr  string // in terms of x and y
	key   string
	usesY bool
	res   func(g *sgen, mx, my *model) *model
}

func aliasOps(kind int) []aop {
	ord := func(m *model) []int32 { return append([]int32(nil), m.order...) }
	if kind == kDict {
		return []aop{
			{"x | y", "dict-union", true, func(g *sgen, mx, my *model) *model { o, v := snap(my); return mx.union(o, v) }},
			{"dict(x)", "dict-constructor", false, func(g *sgen, mx, my *model) *model { return mx.clone() }},
			{"dict(x, zz=-1)", "dict-constructor", false, func(g *sgen, mx, my *model) *model { r := mx.clone(); r.set(idZZ, -1); return r }},
			{"dict(x.items())", "dict-constructor", false, func(g *sgen, mx, my *model) *model { return mx.clone() }},
			{"dict(x, **{})", "dict-constructor", false, func(g *sgen, mx, my *model) *model { return mx.clone() }},
			{"{k_: v_ for k_, v_ in x.items()}", "dict-comprehension", false, func(g *sgen, mx, my *model) *model { return mx.clone() }},
		}
	}
	un := func(g *sgen, mx, my *model) *model { return mx.union(ord(my), nil) }
	in := func(g *sgen, mx, my *model) *model { return mx.intersection(ord(my)) }
	df := func(g *sgen, mx, my *model) *model { return mx.difference(ord(my)) }
	sd := func(g *sgen, mx, my *model) *model { return mx.symmetricDifference(ord(my)) }
	cp := func(g *sgen, mx, my *model) *model { return mx.clone() }
	return []aop{
		{"x | y", "set-union", true, un},
		{"x & y", "set-intersection", true, in},
		{"x - y", "set-difference", true, df},
		{"x ^ y", "set-symmetric_difference", true, sd},
		{"x.union(y)", "set-union", true, un},
		{"x.union(list(y))", "set-union", true, un},
		{"x.intersection(y)", "set-intersection", true, in},
		{"x.difference(y)", "set-difference", true, df},
		{"x.difference(list(y))", "set-difference", true, df},
		{"x.symmetric_difference(y)", "set-symmetric_difference", true, sd},
		{"x.union()", "set-union", false, cp},
		{"x.union([])", "set-union", false, cp},
		{"x.difference([])", "set-difference", false, cp},
		{"x.symmetric_difference([])", "set-symmetric_difference", false, cp},
		{"x.intersection(list(x))", "set-intersection", false, cp},
		{"set(x)", "set-constructor", false, cp},
	}
}

// aliasSequence emits one sequence for (shape of x, shape of y or y = x, operation, variant).
// variant 0: mutate the result, then the operands; variant 1: freeze the operands.
func aliasSequence(g *sgen, sx, sy ashape, same bool, op aop, variant int) {
	g.begin()
	g.alias = ""
	mx := sx.build(g, "x")
	my := mx
	if same {
		g.stmt("y = x")
	} else {
		my = sy.build(g, "y")
	}
	derive := func() *model {
		g.alias = ""
		g.stmt("z = %s", op.expr)
		zm := op.res(g, mx, my)
		g.checkValue("z", g.rColl(zm), op.key, false)
		g.alias = op.key
		g.exps = append(g.exps, sexp{seq: g.seq, line: "z = " + op.expr, alias: op.key})
		g.stmt("distinct(%d, z, x, y)", len(g.exps)-1)
		return zm
	}
	others := func(line string) {
		g.checkState("x", mx, "None", rNone(), line)
		if !same {
			g.checkState("y", my, "None", rNone(), line)
		}
	}
	zm := derive()
	if variant == 0 {
		// (2) mutate the result: the operands keep their state
		g.rawInsert("z", zm, idKX)
		line := "z = " + op.expr + "; insert kx into z"
		g.checkState("z", zm, "None", rNone(), line)
		others(line)
		if zm.len() > 1 {
			first := zm.order[0]
			g.rawDelete("z", zm, first)
			line = "z = " + op.expr + "; delete z's first key"
			g.checkState("z", zm, "None", rNone(), line)
			others(line)
		}
		g.stmt("z.clear()")
		zm.clear()
		line = "z = " + op.expr + "; z.clear()"
		g.checkState("z", zm, "None", rNone(), line)
		others(line)
		// (3) mutate the operands: a fresh result keeps its state
		zm = derive()
		g.rawInsert("x", mx, idKX)
		g.checkState("z", zm, "None", rNone(), "z = "+op.expr+"; insert kx into x")
		g.rawDelete("x", mx, idKX)
		g.checkState("z", zm, "None", rNone(), "z = "+op.expr+"; insert kx into x and delete it")
		if !same {
			g.rawInsert("y", my, idKX)
			g.checkState("z", zm, "None", rNone(), "z = "+op.expr+"; insert kx into y")
			g.rawDelete("y", my, idKX)
		}
		if mx.len() > 0 {
			g.rawDelete("x", mx, mx.order[mx.len()-1])
			g.checkState("z", zm, "None", rNone(), "z = "+op.expr+"; delete x's last key")
		}
		g.stmt("x.clear()")
		mx.clear()
		g.checkState("z", zm, "None", rNone(), "z = "+op.expr+"; x.clear()")
		if !same {
			g.stmt("y.clear()")
			my.clear()
			g.checkState("z", zm, "None", rNone(), "z = "+op.expr+"; y.clear()")
		}
	} else {
		// (4) frozen operands do not freeze the result
		g.stmt("freeze(x, y)")
		g.exps = append(g.exps, sexp{seq: g.seq, line: "z = " + op.expr + "; freeze(x, y); insert kx into z", alias: op.key})
		if g.kind == kDict {
			g.stmt("succeeds(%d, lambda: z.update([(kx, -5)]))", len(g.exps)-1)
			zm.set(idKX, -5)
		} else {
			g.stmt("succeeds(%d, lambda: z.add(kx))", len(g.exps)-1)
			zm.set(idKX, 0)
		}
		g.checkState("z", zm, "None", rNone(), "z = "+op.expr+"; freeze(x, y); insert kx into z")
		others("z = " + op.expr + "; freeze(x, y); insert kx into z")
	}
	g.alias = ""
	g.end()
}

// aliasListSequence: keys/values/items/list return new lists.
func aliasListSequence(g *sgen, sx ashape) {
	g.begin()
	g.alias = ""
	mx := sx.build(g, "x")
	forms := []struct {
		expr string
		res  func() rexp
	}{{"list(x)", func() rexp { return rKeys(mx) }}}
	if g.kind == kDict {
		forms = append(forms, struct {
			expr string
			res  func() rexp
		}{"x.keys()", func() rexp { return rKeys(mx) }}, struct {
			expr string
			res  func() rexp
		}{"x.values()", func() rexp { return rVals(mx) }}, struct {
			expr string
			res  func() rexp
		}{"x.items()", func() rexp { return rPairs(mx) }})
	}
	for _, f := range forms {
		g.alias = "list-view"
		g.stmt("l = %s", f.expr)
		before := f.res()
		g.stmt("l2 = %s", f.expr)
		g.stmt("l.append(kx)")
		line := "l = " + f.expr + "; l.append(kx)"
		g.checkState("x", mx, "None", rNone(), line)
		g.checkValue("l2", before, "", false)
		g.rawInsert("x", mx, idKX)
		g.checkValue("l2", before, "", false)
		g.rawDelete("x", mx, idKX)
	}
	g.alias = ""
	g.end()
}

func runStarlarkD(c *driver.Ctx) {
	shapes := aliasShapes()
	for kind := 0; kind < 2; kind++ {
		ops := aliasOps(kind)
		for xi, sx := range shapes {
			if !c.Take() {
				continue
			}
			r := c.Rand()
			uni := r.Intn(2)
			label := fmt.Sprintf("starlark %s uni=%d alias x=%s", kindName[kind], uni, sx.name)
			c.Note("key=C12 starlark %s crash\n%s", kindName[kind], label)
			g := newSgen(kind, r)
			nseq := 0
			for yi := -1; yi < len(shapes); yi++ {
				same := yi < 0
				sy := sx
				if !same {
					sy = shapes[yi]
				}
				for _, op := range ops {
					if !op.usesY && yi != 0 {
						continue
					}
					for variant := 0; variant < 2; variant++ {
						aliasSequence(g, sx, sy, same, op, variant)
						nseq++
					}
				}
			}
			aliasListSequence(g, sx)
			p := newSlrun(c, g, uni, aliasPrefill, modeChain, label)
			p.exec()
			c.Count("s_alias_sequences", nseq+1)
			c.Distinct(fmt.Sprintf("sD/%d/%d", kind, xi))
			c.Cover("s_alias_left_shapes", kindName[kind]+" "+sx.name)
			if c.Shard%3 == 1 && c.WantSample() && xi == 2 {
				c.Sample(map[string]any{"arm": "starlark-alias", "config": label, "one_sequence": g.seqSource(0)})
			}
		}
	}
}
