package c12

import (
	"fmt"
	"iter"
	"math/rand"
	"strings"

	"go.starlark.net/starlark"

	"verif/internal/driver"
	"verif/internal/sl"
)

// ---------------------------------------------------------------------------------------------
// Arm (g): the READ routes of the Go API interleaved with mutations.
//
// The other arms read a table only through Iterate/Next/Done run to completion, Keys and Items.
// Go clients also read a dict or set with the go1.23 push iterators ((*Dict).Entries,
// (*Set).Elements, starlark.Entries, starlark.Elements - each with a specialised and a generic
// fallback path), with iter.Pull over them, and with loops that stop early (break inside a
// range-over-func body, Done before the iterator is exhausted, stop() of a pull iterator). A read,
// finished or abandoned, is not an operation of the ordered-map model: once the loop statement has
// ended (the range-over-func statement was left, Done was called, stop() was called) the table
// must accept every mutation again and go on following the model.
//
//	G1 (complete over the listed shapes): start shape x read route x stop point x
//	   {nothing, a second read after it, a second read nested in its body, a mutation attempted in its body}
//	   x mutation route; every yielded key/value is compared with the model when it is yielded, the
//	   mutation's result when it is made, and the whole table (len, order, lookups of the id space,
//	   Keys/Items, VerifCheckTable) after the mutation and after a following delete + re-insert.
//	G2: random histories of reads (random route, random stop, nested to depth 3, mutations and lookups
//	   attempted inside the bodies) and mutations (Go API, bound methods, Starlark statements) over
//	   tables that grow and empty repeatedly.
//
// A mutation attempted while a streaming read of the same table is still open is not judged by this
// property (either outcome is accepted: rejected = the model is unchanged, accepted = the model
// follows and the open reads are no longer compared); the table must agree with the model in
// both cases.

const (
	rtMethodPush   = iota // (*Dict).Entries / (*Set).Elements
	rtGenericPush         // starlark.Entries(dict) / starlark.Elements(set)
	rtFallbackPush        // starlark.Entries(wrapped mapping) / starlark.Elements(wrapped iterable): Iterate + Done inside the library
	rtKeysPush            // starlark.Elements(dict): the keys, through the generic path (dict only)
	rtPull                // iter.Pull2((*Dict).Entries) / iter.Pull((*Set).Elements)
	rtIterate             // x.Iterate(); Next ...; Done
	rtIterateFn           // starlark.Iterate(x); Next ...; Done
	rtSnapKeys            // (*Dict).Keys (dict only)
	rtSnapItems           // (*Dict).Items (dict only)
	rtSnapMethods         // keys()/values()/items() through the bound methods (dict); list(set) (set)
	nRoutes
)

const (
	stopComplete = -1 // run to completion
	stopBefore   = -2 // pull-style routes: close the iterator without asking for an element
)

func routeName(kind, rt int) string {
	d := kind == kDict
	switch rt {
	case rtMethodPush:
		if d {
			return "range Dict.Entries()"
		}
		return "range Set.Elements()"
	case rtGenericPush:
		if d {
			return "range starlark.Entries(dict)"
		}
		return "range starlark.Elements(set)"
	case rtFallbackPush:
		if d {
			return "range starlark.Entries(wrapped mapping)"
		}
		return "range starlark.Elements(wrapped iterable)"
	case rtKeysPush:
		if d {
			return "range starlark.Elements(dict)"
		}
	case rtPull:
		if d {
			return "iter.Pull2(Dict.Entries())"
		}
		return "iter.Pull(Set.Elements())"
	case rtIterate:
		if d {
			return "Dict.Iterate/Next/Done"
		}
		return "Set.Iterate/Next/Done"
	case rtIterateFn:
		return "starlark.Iterate/Next/Done"
	case rtSnapKeys:
		if d {
			return "Dict.Keys()"
		}
	case rtSnapItems:
		if d {
			return "Dict.Items()"
		}
	case rtSnapMethods:
		if d {
			return "keys()/values()/items() methods"
		}
		return "list(set)"
	}
	return ""
}

func routeStreams(rt int) bool   { return rt <= rtIterateFn }
func routePullStyle(rt int) bool { return rt == rtPull || rt == rtIterate || rt == rtIterateFn }

func routesOf(kind int) []int {
	var out []int
	for rt := 0; rt < nRoutes; rt++ {
		if routeName(kind, rt) != "" {
			out = append(out, rt)
		}
	}
	return out
}

// stopsFor lists the stop points of a read of n elements: break at the first, second, middle and
// last element, completion, and (pull style) closing before the first element.
func stopsFor(rt, n int) []int {
	if !routeStreams(rt) {
		return []int{stopComplete}
	}
	var out []int
	if routePullStyle(rt) {
		out = append(out, stopBefore)
	}
	out = append(out, stopComplete)
	seen := map[int]bool{}
	for _, s := range []int{0, 1, n / 2, n - 1} {
		if s >= 0 && s < n && !seen[s] {
			seen[s] = true
			out = append(out, s)
		}
	}
	return out
}

func stopClass(stop, n int) string {
	switch {
	case stop == stopBefore:
		return "closed-before-first-element"
	case stop < 0 || stop >= n:
		return "complete"
	case stop == n-1:
		return "stopped-at-last-element"
	case stop == 0:
		return "stopped-at-first-element"
	}
	return "stopped-inside"
}

// wrapMap / wrapIter hide the concrete type so that starlark.Entries / starlark.Elements take
// their generic path (Iterate, deferred Done, Get per key).
type wrapMap struct{ d *starlark.Dict }

func (w wrapMap) String() string        { return "wrapMap" }
func (w wrapMap) Type() string          { return "wrapMap" }
func (w wrapMap) Freeze()               {}
func (w wrapMap) Truth() starlark.Bool  { return true }
func (w wrapMap) Hash() (uint32, error) { return 0, fmt.Errorf("unhashable") }
func (w wrapMap) Get(k starlark.Value) (starlark.Value, bool, error) {
	return w.d.Get(k)
}
func (w wrapMap) Iterate() starlark.Iterator { return w.d.Iterate() }
func (w wrapMap) Items() []starlark.Tuple    { return w.d.Items() }

type wrapIter struct{ s *starlark.Set }

func (w wrapIter) String() string             { return "wrapIter" }
func (w wrapIter) Type() string               { return "wrapIter" }
func (w wrapIter) Freeze()                    {}
func (w wrapIter) Truth() starlark.Bool       { return true }
func (w wrapIter) Hash() (uint32, error)      { return 0, fmt.Errorf("unhashable") }
func (w wrapIter) Iterate() starlark.Iterator { return w.s.Iterate() }

var (
	_ starlark.IterableMapping = wrapMap{}
	_ starlark.Iterable        = wrapIter{}
)

// Key ids of this arm: 0..4 universe, 5 KX (fresh, universe hash), 6..19 chain fillers,
// 20..33 spread fillers, 34 KY (fresh, unrelated hash).
const (
	gSpread0 = 20
	gKY      = 34
	gNKeys   = 35
)

const gSrc = `
def setitem(c, k, v):
    c[k] = v

def ior(c, k, v):
    c |= {k: v}

def add(c, k):
    c.add(k)
`

type gop struct {
	code  byte
	depth int8
	route int8
	a, b  int32
}

type grun struct {
	c     *driver.Ctx
	kind  int
	uni   int
	a     *arun // key space and shape builders shared with the aliasing arm
	qkeys []*hkey
	th    *starlark.Thread
	fns   starlark.StringDict
	t     *gtab
	m     *model

	open     int  // streaming reads of the table that have not ended yet
	unjudged bool // a mutation was accepted while a read was open: the open reads are not compared any more
	failed   bool // a violation was reported: the scenario / history ends
	kq       int
	label    string
	ops      []gop
	nbad     map[string]int

	hReads, hEarly int // reads of the current scenario / history

	reads, early, yields, mutAfter, inBody, inBodyRejected, compares, lookups int
}

func newGrun(c *driver.Ctx, kind, uni int, th *starlark.Thread, fns starlark.StringDict) *grun {
	g := &grun{c: c, kind: kind, uni: uni, th: th, fns: fns, nbad: map[string]int{}}
	a := &arun{c: c, kind: kind, uni: uni, th: th}
	a.keys = append(a.keys, universe(uni)...)
	a.keys = append(a.keys, &hkey{id: aKX, h: a.keys[0].h, name: "KX"})
	for j := 0; j < 14; j++ {
		a.keys = append(a.keys, &hkey{id: int32(6 + j), h: chainHash(uni, j), name: fmt.Sprintf("F%d", j)})
	}
	for j := 0; j < 14; j++ {
		a.keys = append(a.keys, &hkey{id: int32(gSpread0 + j), h: spreadHash(j), name: fmt.Sprintf("S%d", j)})
	}
	a.keys = append(a.keys, &hkey{id: gKY, h: 0x5BD1E995, name: "KY"})
	for _, k := range a.keys {
		g.qkeys = append(g.qkeys, &hkey{id: k.id, h: k.h, name: k.name})
	}
	g.a = a
	return g
}

// key returns the stored object or an equal, distinct one, alternately.
func (g *grun) key(id int32) starlark.Value {
	g.kq++
	if g.kq&1 == 0 {
		return g.qkeys[id]
	}
	return g.a.keys[id]
}

func gShapes() []goShape {
	sh := goShapes()
	sh = append(sh,
		goShape{"spread-13", func(a *arun) (*gtab, *model) {
			var ids []int32
			for j := 0; j < 13; j++ {
				ids = append(ids, int32(gSpread0+j))
			}
			return a.filled(false, ids...)
		}},
		goShape{"chain-9-with-vacated-slot", func(a *arun) (*gtab, *model) {
			t, m := a.filled(true, 6, 7, 8, 9, 10, 11, 12, 13, 14)
			t.del(a.keys[10])
			m.del(10)
			a.ins(t, m, 15, 33)
			return t, m
		}},
		goShape{"mixed-8", func(a *arun) (*gtab, *model) { return a.filled(false, 2, 20, 0, 6, 21, 1, 7, 22) }},
	)
	return sh
}

func (g *grun) reset() {
	g.open, g.unjudged, g.failed = 0, false, false
	g.hReads, g.hEarly = 0, 0
	g.ops = g.ops[:0]
}

func (g *grun) logOp(code byte, route int, a, b int32) {
	if len(g.ops) >= 96 {
		copy(g.ops, g.ops[48:])
		g.ops = g.ops[:48]
	}
	g.ops = append(g.ops, gop{code: code, depth: int8(g.open), route: int8(route), a: a, b: b})
}

var insRouteName = [2][5]string{
	{"SetKey", "setdefault", "update([(k,v)])", "c[k]=v", "c |= {k:v}"},
	{"Insert", "add", "update([k])", "c.add(k) in a def", "Insert"},
}
var delRouteName = [2][3]string{{"Delete", "pop(k,default)", "pop(k)"}, {"Delete", "discard", "remove"}}

func (g *grun) history() string {
	var b strings.Builder
	for i, o := range g.ops {
		if i > 0 {
			b.WriteString("; ")
		}
		if o.depth > 0 && o.code != 'E' {
			fmt.Fprintf(&b, "[in body, %d open] ", o.depth)
		}
		switch o.code {
		case 'R':
			fmt.Fprintf(&b, "read %s stop=%d {", routeName(g.kind, int(o.route)), o.a)
		case 'E':
			fmt.Fprintf(&b, "} read ended after %d elements", o.a)
		case 'I':
			fmt.Fprintf(&b, "%s id=%d v=%d", insRouteName[g.kind][o.route], o.a, o.b)
		case 'D':
			fmt.Fprintf(&b, "%s id=%d", delRouteName[g.kind][o.route], o.a)
		case 'P':
			b.WriteString("popfirst")
		case 'C':
			b.WriteString([]string{"Clear", "clear()"}[o.route])
		}
	}
	return b.String()
}

func (g *grun) bad(aspect, format string, args ...any) {
	g.failed = true
	key := "C12 go-read " + kindName[g.kind] + " " + aspect
	g.nbad[key]++
	if g.nbad[key] > 4 {
		return
	}
	detail := map[string]any{"scenario": g.label, "history": g.history(), "model_order": append([]int32(nil), g.m.order...),
		"universe_hashes": hashesOf(g.a.keys[:5])}
	if _, ic, ok := starlark.VerifState(g.t.value()); ok {
		detail["table_iterator_count_(diagnostic)"] = ic
		detail["reads_still_open_in_the_harness"] = g.open
	}
	g.c.Violation(key, fmt.Sprintf("%s: %s; history: %s", g.label, fmt.Sprintf(format, args...), g.history()), detail)
}

// ---- reads ----

func (g *grun) judgeYield(rt, i int, k, v starlark.Value, hasV bool) {
	if g.unjudged || g.failed {
		return
	}
	if i >= len(g.m.order) {
		g.bad("yield", "%s yields element #%d (%v), the model has %d", routeName(g.kind, rt), i, k, len(g.m.order))
		return
	}
	id := g.m.order[i]
	if keyID(k) != id {
		g.bad("yield", "%s yields %v at position %d, model id %d (order %s)", routeName(g.kind, rt), k, i, id, fmtIDs(g.m.order))
		return
	}
	if hasV {
		if n, ok := intOf(v); !ok || n != g.m.val[id] {
			g.bad("yield", "%s yields value %v for id %d, model %d", routeName(g.kind, rt), v, id, g.m.val[id])
			return
		}
	}
	g.yields++
}

// read reads the table through route rt, stopping after the element with index stop (see
// stopComplete, stopBefore); body, if not nil, runs after each element was received and judged.
func (g *grun) read(rt, stop int, body func(i int)) {
	if g.failed {
		return
	}
	g.reads++
	g.hReads++
	g.logOp('R', rt, int32(stop), 0)
	cnt := 0
	visit := func(k, v starlark.Value, hasV bool) bool {
		i := cnt
		cnt++
		g.judgeYield(rt, i, k, v, hasV)
		if body != nil && !g.failed {
			body(i)
		}
		return i != stop && !g.failed
	}
	stream := routeStreams(rt)
	if stream {
		g.open++
	}
	t := g.t
	switch rt {
	case rtMethodPush:
		if g.kind == kDict {
			for k, v := range t.d.Entries() {
				if !visit(k, v, true) {
					break
				}
			}
		} else {
			for k := range t.s.Elements() {
				if !visit(k, nil, false) {
					break
				}
			}
		}
	case rtGenericPush:
		if g.kind == kDict {
			for k, v := range starlark.Entries(t.d) {
				if !visit(k, v, true) {
					break
				}
			}
		} else {
			for k := range starlark.Elements(t.s) {
				if !visit(k, nil, false) {
					break
				}
			}
		}
	case rtFallbackPush:
		if g.kind == kDict {
			for k, v := range starlark.Entries(wrapMap{t.d}) {
				if !visit(k, v, true) {
					break
				}
			}
		} else {
			for k := range starlark.Elements(wrapIter{t.s}) {
				if !visit(k, nil, false) {
					break
				}
			}
		}
	case rtKeysPush:
		for k := range starlark.Elements(t.d) {
			if !visit(k, nil, false) {
				break
			}
		}
	case rtPull:
		if g.kind == kDict {
			next, stopf := iter.Pull2(t.d.Entries())
			if stop != stopBefore {
				for {
					k, v, ok := next()
					if !ok || !visit(k, v, true) {
						break
					}
				}
			}
			stopf()
		} else {
			next, stopf := iter.Pull(t.s.Elements())
			if stop != stopBefore {
				for {
					k, ok := next()
					if !ok || !visit(k, nil, false) {
						break
					}
				}
			}
			stopf()
		}
	case rtIterate, rtIterateFn:
		var it starlark.Iterator
		if rt == rtIterate {
			it = t.iter()
		} else {
			it = starlark.Iterate(t.value())
		}
		if it == nil {
			g.bad("yield", "starlark.Iterate returned nil")
		} else {
			if stop != stopBefore {
				var k starlark.Value
				for it.Next(&k) {
					if !visit(k, nil, false) {
						break
					}
				}
			}
			it.Done()
		}
	case rtSnapKeys:
		keys := t.d.Keys()
		g.snapshot(rt, len(keys), func(i int) (starlark.Value, starlark.Value, bool) { return keys[i], nil, false })
		for i := range keys {
			if !visit2(g, body, i, stop) {
				break
			}
		}
		cnt = len(keys)
	case rtSnapItems:
		items := t.d.Items()
		g.snapshot(rt, len(items), func(i int) (starlark.Value, starlark.Value, bool) {
			if len(items[i]) != 2 {
				return nil, nil, false
			}
			return items[i][0], items[i][1], true
		})
		for i := range items {
			if !visit2(g, body, i, stop) {
				break
			}
		}
		cnt = len(items)
	case rtSnapMethods:
		cnt = g.snapMethods(rt, body, stop)
	}
	dirty := g.unjudged
	if stream {
		g.open--
		if g.open == 0 {
			g.unjudged = false
		}
	}
	g.logOp('E', rt, int32(cnt), 0)
	if g.failed {
		return
	}
	n := len(g.m.order)
	want := n
	if stream {
		switch {
		case stop == stopBefore:
			want = 0
		case stop >= 0 && stop < n:
			want = stop + 1
			g.early++
			g.hEarly++
		}
	}
	if stream && !dirty && cnt != want {
		g.bad("yield", "%s (stop=%d) delivered %d elements, the model %d of %d", routeName(g.kind, rt), stop, cnt, want, n)
	}
}

// visit2 runs the body over element i of a snapshot (a Go slice or a new list: the table is not being read).
func visit2(g *grun, body func(i int), i, stop int) bool {
	if body != nil && !g.failed {
		body(i)
	}
	return i != stop && !g.failed
}

// snapshot judges a complete copy of the table's contents.
func (g *grun) snapshot(rt, n int, at func(i int) (k, v starlark.Value, hasV bool)) {
	if g.unjudged || g.failed {
		return
	}
	if n != len(g.m.order) {
		g.bad("yield", "%s has %d elements, the model %d", routeName(g.kind, rt), n, len(g.m.order))
		return
	}
	for i := 0; i < n && !g.failed; i++ {
		k, v, hasV := at(i)
		if k == nil {
			g.bad("yield", "%s: element %d is malformed", routeName(g.kind, rt), i)
			return
		}
		g.judgeYield(rt, i, k, v, hasV)
	}
}

func (g *grun) snapMethods(rt int, body func(i int), stop int) int {
	listOf := func(name string) []starlark.Value {
		var v starlark.Value
		var err error
		if g.kind == kSet {
			v, err = starlark.Call(g.th, starlark.Universe["list"], starlark.Tuple{g.t.s}, nil)
		} else {
			v, err = g.t.call(name)
		}
		l, ok := v.(*starlark.List)
		if err != nil || !ok {
			g.bad("yield", "%s: %s() = %v, %v", routeName(g.kind, rt), name, v, err)
			return nil
		}
		out := make([]starlark.Value, l.Len())
		for i := range out {
			out[i] = l.Index(i)
		}
		return out
	}
	var first []starlark.Value
	if g.kind == kSet {
		first = listOf("list")
		g.snapshot(rt, len(first), func(i int) (starlark.Value, starlark.Value, bool) { return first[i], nil, false })
	} else {
		first = listOf("keys")
		g.snapshot(rt, len(first), func(i int) (starlark.Value, starlark.Value, bool) { return first[i], nil, false })
		if !g.failed {
			items := listOf("items")
			g.snapshot(rt, len(items), func(i int) (starlark.Value, starlark.Value, bool) {
				tup, ok := items[i].(starlark.Tuple)
				if !ok || len(tup) != 2 {
					return nil, nil, false
				}
				return tup[0], tup[1], true
			})
		}
		if !g.failed && !g.unjudged {
			vals := listOf("values")
			if !g.failed {
				ok := len(vals) == len(g.m.order)
				for i := 0; ok && i < len(vals); i++ {
					n, isInt := intOf(vals[i])
					ok = isInt && n == g.m.val[g.m.order[i]]
				}
				if !ok {
					g.bad("yield", "values() = %v, model %v", vals, g.m.vals())
				}
			}
		}
	}
	for i := range first {
		if !visit2(g, body, i, stop) {
			break
		}
	}
	return len(first)
}

// ---- mutations ----

// outcome classifies the error of a mutation; it reports whether the mutation took effect and
// is to be applied to the model. wantErr: the model expects an error whatever the table's state
// (pop-first of an empty collection).
func (g *grun) outcome(what string, err error, wantErr bool) bool {
	if wantErr {
		if err == nil {
			g.bad("return", "%s succeeded, the model is empty", what)
		}
		return false
	}
	if g.open > 0 {
		// not judged by this property: the table is still being read
		g.inBody++
		if err != nil {
			g.inBodyRejected++
			return false
		}
		g.unjudged = true
		return true
	}
	g.mutAfter++
	if err != nil {
		if g.hReads > 0 {
			g.bad("mutation-rejected-after-read", "%s failed although each of the %d reads of the table has ended (%d of them before the last element): %v", what, g.hReads, g.hEarly, err)
		} else {
			g.bad("return", "%s failed: %v", what, err)
		}
		return false
	}
	return true
}

func (g *grun) insert(route int, id, v int32) {
	if g.failed {
		return
	}
	if g.kind == kSet {
		v = 0
		if route == 4 {
			route = 0
		}
	}
	g.logOp('I', route, id, v)
	k := g.key(id)
	iv := starlark.MakeInt(int(v))
	old, had := g.m.get(id)
	var res starlark.Value = starlark.None
	var err error
	switch route {
	case 0:
		err = g.t.insert(k, v)
	case 1:
		if g.kind == kDict {
			res, err = g.t.call("setdefault", k, iv)
		} else {
			res, err = g.t.call("add", k)
		}
	case 2:
		if g.kind == kDict {
			res, err = g.t.call("update", starlark.NewList([]starlark.Value{starlark.Tuple{k, iv}}))
		} else {
			res, err = g.t.call("update", starlark.NewList([]starlark.Value{k}))
		}
	case 3:
		if g.kind == kDict {
			res, err = starlark.Call(g.th, g.fns["setitem"], starlark.Tuple{g.t.d, k, iv}, nil)
		} else {
			res, err = starlark.Call(g.th, g.fns["add"], starlark.Tuple{g.t.s, k}, nil)
		}
	default:
		res, err = starlark.Call(g.th, g.fns["ior"], starlark.Tuple{g.t.d, k, iv}, nil)
	}
	what := insRouteName[g.kind][route]
	if !g.outcome(what, err, false) {
		return
	}
	if route == 1 && g.kind == kDict {
		want := v
		if had {
			want = old
		} else {
			g.m.set(id, v)
		}
		if got, ok := intOf(res); !ok || got != want {
			g.bad("return", "setdefault(id %d, %d) = %v, model %d", id, v, res, want)
		}
		return
	}
	if res != starlark.None {
		g.bad("return", "%s(id %d) returned %v", what, id, res)
		return
	}
	g.m.set(id, v)
}

func (g *grun) remove(route int, id int32) {
	if g.failed {
		return
	}
	mv, mhad := g.m.get(id)
	if route == 2 && !mhad {
		route = 1 // pop(k) / remove(k) of an absent key is an error by specification: not a mutation
	}
	g.logOp('D', route, id, 0)
	k := g.key(id)
	what := delRouteName[g.kind][route]
	if route == 0 {
		v, found, vok, err := g.t.del(k)
		if !g.outcome(what, err, false) {
			return
		}
		g.m.del(id)
		if found != mhad || !vok || (found && v != mv) {
			g.bad("return", "Delete(id %d) = (%d, found=%v, wellformed=%v), model (%d, %v)", id, v, found, vok, mv, mhad)
		}
		return
	}
	var res starlark.Value
	var err error
	if g.kind == kSet {
		res, err = g.t.call([]string{"", "discard", "remove"}[route], k)
	} else if route == 1 {
		res, err = g.t.call("pop", k, starlark.MakeInt(-7))
	} else {
		res, err = g.t.call("pop", k)
	}
	if !g.outcome(what, err, false) {
		return
	}
	g.m.del(id)
	if g.kind == kSet {
		if res != starlark.None {
			g.bad("return", "%s(id %d) returned %v", what, id, res)
		}
		return
	}
	want := int32(-7)
	if mhad {
		want = mv
	}
	if got, ok := intOf(res); !ok || got != want {
		g.bad("return", "%s(id %d) = %v, model %d", what, id, res, want)
	}
}

func (g *grun) popFirst() {
	if g.failed {
		return
	}
	g.logOp('P', 0, 0, 0)
	k, v, vok, err := g.t.popFirst()
	if len(g.m.order) == 0 {
		g.outcome("popfirst", err, true)
		return
	}
	if !g.outcome("popfirst", err, false) {
		return
	}
	mid, mv, _ := g.m.popFirst()
	if keyID(k) != mid || !vok || v != mv {
		g.bad("return", "popfirst = (%v, %d, wellformed=%v), model (id %d, %d)", k, v, vok, mid, mv)
	}
}

func (g *grun) clear(route int) {
	if g.failed {
		return
	}
	g.logOp('C', route, 0, 0)
	var err error
	if route == 0 {
		err = g.t.clear()
	} else {
		var res starlark.Value
		res, err = g.t.call("clear")
		if err == nil && res != starlark.None {
			g.bad("return", "clear() returned %v", res)
			return
		}
	}
	if g.outcome([]string{"Clear", "clear()"}[route], err, false) {
		g.m.clear()
	}
}

func (g *grun) lookup(id int32) {
	if g.failed {
		return
	}
	g.lookups++
	v, found, vok, err := g.t.get(g.key(id))
	mv, mhad := g.m.get(id)
	if err != nil || found != mhad {
		g.bad("membership", "id %d found=%v err=%v, model %v", id, found, err, mhad)
	} else if !vok || (found && v != mv) {
		g.bad("lookup", "lookup(id %d) = %d (wellformed=%v), model %d", id, v, vok, mv)
	}
}

// compare checks everything observable against the model.
func (g *grun) compare(when string) {
	if g.failed {
		return
	}
	g.compares++
	t, m := g.t, g.m
	if n := t.length(); n != m.len() {
		g.bad("len", "%s: Len() = %d, model %d", when, n, m.len())
		return
	}
	ids, overrun := iterIDs(t.iter(), m.len()+1)
	if overrun || !idsEqual(ids, m.order) {
		g.bad("order", "%s: Iterate yields %s, model %s", when, fmtIDs(ids), fmtIDs(m.order))
		return
	}
	for id, k := range g.qkeys {
		v, found, vok, err := t.get(k)
		mv, mhad := m.get(int32(id))
		if err != nil || found != mhad {
			g.bad("membership", "%s: id %d found=%v err=%v, model %v", when, id, found, err, mhad)
			return
		}
		if !vok || (found && v != mv) {
			g.bad("lookup", "%s: lookup(id %d) = %d (wellformed=%v), model %d", when, id, v, vok, mv)
			return
		}
	}
	if t.kind == kDict {
		keys, items := t.d.Keys(), t.d.Items()
		ok := len(keys) == len(m.order) && len(items) == len(m.order)
		for i := 0; ok && i < len(keys); i++ {
			id := m.order[i]
			v, isInt := intOf(items[i][1])
			ok = keyID(keys[i]) == id && keyID(items[i][0]) == id && isInt && v == m.val[id]
		}
		if !ok {
			g.bad("order", "%s: Keys()/Items() = %v / %v, model order %s values %v", when, keys, items, fmtIDs(m.order), m.vals())
			return
		}
	}
	if err := starlark.VerifCheckTable(t.value()); err != nil {
		g.bad("table-invariant", "%s: VerifCheckTable: %v", when, err)
	}
}

// ---- G1: complete enumeration over the listed shapes ----

type g1mut struct {
	name string
	sets bool // applies to sets too
	run  func(g *grun)
}

func firstOr(m *model, dflt int32) int32 {
	if len(m.order) > 0 {
		return m.order[0]
	}
	return dflt
}

func lastOr(m *model, dflt int32) int32 {
	if n := len(m.order); n > 0 {
		return m.order[n-1]
	}
	return dflt
}

func g1Mutations() []g1mut {
	return []g1mut{
		{"insert fresh key (SetKey/Insert)", true, func(g *grun) { g.insert(0, aKX, 71) }},
		{"insert fresh key (setdefault/add)", true, func(g *grun) { g.insert(1, aKX, 72) }},
		{"insert fresh key (update)", true, func(g *grun) { g.insert(2, aKX, 73) }},
		{"insert fresh key (Starlark statement)", true, func(g *grun) { g.insert(3, aKX, 74) }},
		{"insert fresh key (dict |=)", false, func(g *grun) { g.insert(4, aKX, 75) }},
		{"store first key again (SetKey/Insert)", true, func(g *grun) { g.insert(0, firstOr(g.m, aKX), 76) }},
		{"delete first key (Delete)", true, func(g *grun) { g.remove(0, firstOr(g.m, aKX)) }},
		{"delete last key (Delete)", true, func(g *grun) { g.remove(0, lastOr(g.m, aKX)) }},
		{"delete absent key (Delete)", true, func(g *grun) { g.remove(0, aKX) }},
		{"delete first key (pop with default/discard)", true, func(g *grun) { g.remove(1, firstOr(g.m, aKX)) }},
		{"delete last key (pop/remove)", true, func(g *grun) { g.remove(2, lastOr(g.m, aKX)) }},
		{"pop first (popitem/pop)", true, func(g *grun) { g.popFirst() }},
		{"Clear", true, func(g *grun) { g.clear(0) }},
		{"clear()", true, func(g *grun) { g.clear(1) }},
		{"move first key to the end (Delete, SetKey/Insert)", true, func(g *grun) {
			id := firstOr(g.m, aKX)
			g.remove(0, id)
			g.insert(0, id, 77)
		}},
	}
}

const (
	v2None       = iota
	v2InBodyMut  // a mutation is attempted in the body of the first read
	v2Sequential // a second read after the first
	v2Nested     // a second read in the body of the first
)

type g1second struct {
	mode     int
	rt, stop int
	atLast   bool // the body acts at the last element visited instead of the first
}

func (s g1second) String(kind int) string {
	at := "first"
	if s.atLast {
		at = "last"
	}
	switch s.mode {
	case v2InBodyMut:
		return "mutation attempted in the body at the " + at + " element"
	case v2Sequential:
		return fmt.Sprintf("then read %s stop=%d", routeName(kind, s.rt), s.stop)
	case v2Nested:
		return fmt.Sprintf("nested at the %s element: read %s stop=%d", at, routeName(kind, s.rt), s.stop)
	}
	return "single read"
}

// g1Seconds lists what accompanies the first read of a table of n elements.
func g1Seconds(c *driver.Ctx, kind, n int) []g1second {
	out := []g1second{{mode: v2None}}
	if n > 0 {
		out = append(out, g1second{mode: v2InBodyMut}, g1second{mode: v2InBodyMut, atLast: true})
	}
	for _, rt := range routesOf(kind) {
		if !routeStreams(rt) {
			continue
		}
		stops := stopsFor(rt, n)
		if !c.Thorough() {
			// quick: abandon at the first element, or complete
			stops = stops[:0]
			if n > 0 {
				stops = append(stops, 0)
			}
			stops = append(stops, stopComplete)
		}
		for _, st := range stops {
			out = append(out, g1second{mode: v2Sequential, rt: rt, stop: st})
			if n > 0 {
				out = append(out, g1second{mode: v2Nested, rt: rt, stop: st})
				if c.Thorough() {
					out = append(out, g1second{mode: v2Nested, rt: rt, stop: st, atLast: true})
				}
			}
		}
	}
	return out
}

func (g *grun) scenario(sh goShape, rt1, stop1 int, sec g1second, mu g1mut) {
	g.reset()
	g.t, g.m = sh.build(g.a)
	n := g.m.len()
	at := 0
	if sec.atLast {
		at = n - 1
		if stop1 >= 0 && stop1 < n {
			at = stop1
		}
	}
	var body func(i int)
	switch sec.mode {
	case v2InBodyMut:
		body = func(i int) {
			if i == at {
				g.insert(0, gKY, 55)
				g.compare("after the mutation attempted in the body")
			}
		}
	case v2Nested:
		body = func(i int) {
			if i == at {
				g.read(sec.rt, sec.stop, nil)
			}
		}
	}
	g.read(rt1, stop1, body)
	if sec.mode == v2Sequential {
		g.read(sec.rt, sec.stop, nil)
	}
	mu.run(g)
	g.compare("after the mutation that follows the read")
	if len(g.m.order) > 0 && !g.failed {
		id := g.m.order[0]
		g.remove(0, id)
		g.insert(0, id, 91)
		g.compare("after deleting and re-inserting the first key")
	}
}

func (g *grun) flushCounts() {
	c := g.c
	c.Count("g_reads", g.reads)
	c.Count("g_reads_ended_early", g.early)
	c.Count("g_yielded_elements_judged", g.yields)
	c.Count("g_mutations_with_no_read_open", g.mutAfter)
	c.Count("g_mutation_attempts_inside_open_read", g.inBody)
	c.Count("g_mutation_attempts_inside_open_read_rejected", g.inBodyRejected)
	c.Count("g_full_comparisons", g.compares)
	c.Count("g_lookups", g.lookups)
	g.reads, g.early, g.yields, g.mutAfter, g.inBody, g.inBodyRejected, g.compares, g.lookups = 0, 0, 0, 0, 0, 0, 0, 0
}

func goReadFns(th *starlark.Thread) (starlark.StringDict, error) {
	return starlark.ExecFileOptions(slOpts, th, "c12_goread.star", gSrc, nil)
}

func runGoReads(c *driver.Ctx) {
	th := &starlark.Thread{Name: "c12g"}
	fns, err := goReadFns(th)
	if err != nil {
		c.Inconclusive("C12 go-read arm: helper program does not load: %v", err)
		return
	}
	shapes := gShapes()
	muts := g1Mutations()
	for kind := 0; kind < 2; kind++ {
		routes := routesOf(kind)
		for uni := 0; uni < 2; uni++ {
			for si, sh := range shapes {
				for _, rt1 := range routes {
					if !c.Take() {
						continue
					}
					g := newGrun(c, kind, uni, th, fns)
					c.Note("key=C12 go-read %s crash\n%s uni=%d shape=%s first read %s", kindName[kind], kindName[kind], uni, sh.name, routeName(kind, rt1))
					_, m0 := sh.build(g.a)
					n := m0.len()
					nsc := 0
					var last string
					if p := sl.Safe(func() {
						for _, stop1 := range stopsFor(rt1, n) {
							for seci, sec := range g1Seconds(c, kind, n) {
								for mi, mu := range muts {
									if kind == kSet && !mu.sets {
										continue
									}
									if !c.Thorough() && sec.mode >= v2Sequential && (mi+seci)%3 != 0 {
										continue // quick: two reads are followed by every third mutation, rotating
									}
									g.label = fmt.Sprintf("%s uni=%d shape=%s: read %s stop=%d (%s); %s; then %s", kindName[kind], uni, sh.name,
										routeName(kind, rt1), stop1, stopClass(stop1, n), sec.String(kind), mu.name)
									g.scenario(sh, rt1, stop1, sec, mu)
									nsc++
								}
							}
							c.Cover("g_read_routes", routeName(kind, rt1)+" "+stopClass(stop1, n))
						}
						last = g.label
					}); p != nil {
						c.Violation("C12 go-read "+kindName[kind]+" panic", fmt.Sprintf("%s: panic %v at %s; history: %s", g.label, p.Value, p.TopFrame(), g.history()),
							map[string]any{"scenario": g.label, "stack": driver.Truncate(p.Stack, 3000)})
					}
					c.Eval(nsc)
					c.Count("g_read_then_mutate_scenarios", nsc)
					g.flushCounts()
					c.Distinct(fmt.Sprintf("g1/%d/%d/%d/%d", kind, uni, si, rt1))
					c.Cover("g_start_shapes", sh.name)
					if c.Shard%3 == 1 && c.WantSample() && si == 8 && rt1 == rtMethodPush {
						c.Sample(map[string]any{"arm": "go-read", "last_scenario": last, "scenarios_of_this_case": nsc,
							"judged": "every element when it is yielded; the mutation's result; len, order, lookups, Keys/Items, table invariants after the mutation and after delete + re-insert"})
					}
				}
			}
		}
	}
	for _, mu := range muts {
		c.Cover("g_mutations_after_read", mu.name)
	}
	runGoReadsRandom(c, th, fns, shapes)
}

// ---- G2: random histories ----

type g2run struct {
	*grun
	r       *rand.Rand
	filling bool
	hi, lo  int
}

func (x *g2run) pickID(live bool) int32 {
	if n := x.m.len(); live && n > 0 {
		switch x.r.Intn(6) {
		case 0:
			return x.m.order[0]
		case 1:
			return x.m.order[n-1]
		}
		return x.m.order[x.r.Intn(n)]
	}
	return int32(x.r.Intn(gNKeys))
}

func (x *g2run) mutation() {
	r := x.r
	n := x.m.len()
	if x.open == 0 {
		if x.filling && n >= x.hi {
			x.filling = false
			x.lo = r.Intn(3)
		} else if !x.filling && n <= x.lo {
			x.filling = true
			x.hi = 12 + r.Intn(gNKeys-12)
		}
	}
	p := r.Intn(100)
	pIns := 25
	if x.filling {
		pIns = 72
	}
	switch {
	case p < pIns:
		x.insert(r.Intn(5), x.pickID(r.Intn(5) == 0), int32(r.Intn(1000)))
	case p < 92:
		x.remove(r.Intn(3), x.pickID(r.Intn(6) != 0))
	case p < 98:
		x.popFirst()
	default:
		x.clear(r.Intn(2))
	}
}

func (x *g2run) step(depth int) {
	if x.failed {
		return
	}
	p := x.r.Intn(100)
	switch {
	case p < 42:
		x.mutation()
	case p < 52 || depth >= 3:
		x.lookup(x.pickID(x.r.Intn(2) == 0))
	default:
		x.randRead(depth)
	}
}

func (x *g2run) randRead(depth int) {
	r := x.r
	routes := routesOf(x.kind)
	rt := routes[r.Intn(len(routes))]
	n := x.m.len()
	stop := stopComplete
	switch r.Intn(5) {
	case 0:
		stop = 0
	case 1:
		stop = n - 1
	case 2, 3:
		stop = r.Intn(n + 1)
	}
	if stop < 0 {
		stop = stopComplete
	}
	if routePullStyle(rt) && r.Intn(8) == 0 {
		stop = stopBefore
	}
	prob := []int{22, 10, 5}[depth]
	x.c.Cover("g_random_reads", fmt.Sprintf("depth %d %s", depth, stopClass(stop, n)))
	x.read(rt, stop, func(i int) {
		if r.Intn(100) < prob {
			x.step(depth + 1)
		}
	})
}

func runGoReadsRandom(c *driver.Ctx, th *starlark.Thread, fns starlark.StringDict, shapes []goShape) {
	nh := c.Pick(96, 3000)
	const steps = 300
	for i := 0; i < nh; i++ {
		if !c.Take() {
			continue
		}
		r := c.Rand()
		kind, uni := i%2, (i/2)%2
		x := &g2run{grun: newGrun(c, kind, uni, th, fns), r: r, filling: true}
		x.hi = 12 + r.Intn(gNKeys-12)
		sh := shapes[r.Intn(len(shapes))]
		x.reset()
		x.t, x.m = sh.build(x.a)
		x.label = fmt.Sprintf("random %s uni=%d start=%s", kindName[kind], uni, sh.name)
		c.Note("key=C12 go-read %s crash\n%s", kindName[kind], x.label)
		done := 0
		maxLive := 0
		if p := sl.Safe(func() {
			for s := 0; s < steps && !x.failed; s++ {
				x.step(0)
				done++
				if x.m.len() > maxLive {
					maxLive = x.m.len()
				}
				if x.failed {
					break
				}
				if s%4 == 3 || s == steps-1 {
					x.compare("after a top-level step")
				} else if got := x.t.length(); got != x.m.len() {
					x.bad("len", "Len() = %d, model %d", got, x.m.len())
				}
			}
		}); p != nil {
			c.Violation("C12 go-read "+kindName[kind]+" panic", fmt.Sprintf("%s: panic %v at %s; history: %s", x.label, p.Value, p.TopFrame(), x.history()),
				map[string]any{"scenario": x.label, "stack": driver.Truncate(p.Stack, 3000)})
		}
		c.Eval(done)
		c.Count("g_random_top_level_steps", done)
		x.flushCounts()
		c.Distinct(fmt.Sprintf("g2/%d", i))
		if maxLive > 20 {
			c.Cover("g_random_max_live", ">20")
		} else {
			c.Cover("g_random_max_live", "<=20")
		}
		if c.Shard%3 == 1 && c.WantSample() && i%7 == 0 {
			c.Sample(map[string]any{"arm": "go-read-random", "history": x.label, "top_level_steps": done, "live_at_end": x.m.len(), "last_operations": x.history()})
		}
	}
}
