package c12

import (
	"fmt"
	"math"
	"math/rand"
	"strings"

	"go.starlark.net/starlark"
)

// ---------------------------------------------------------------------------------------------
// Starlark-level arm, part 1: program generator. The generator writes source text and, side by
// side, runs the association-list model; every statement is followed by a call of the host
// builtin check(i, coll, result, views...) whose expectation number i was computed by the model.

// Key ids in this arm: 0..4 host keys k0..k4, 5 and 6 the strings "zz" and "yy" (reachable as
// keyword arguments of update/dict), 7.. filler keys of the pre-filled start collections.
const (
	idZZ      = 5
	idYY      = 6
	idFill0   = 7
	valNone   = math.MinInt32 + 1 // model value standing for None
	maxFiller = 16
	idKX      = idFill0 + maxFiller // the host key kx: never part of an operand, inserted to tell aliases apart
)

var keySrc = [7]string{"k0", "k1", "k2", "k3", "k4", `"zz"`, `"yy"`}

// rexp is an expected result.
type rexp struct {
	t    byte // '-' unchecked, 'n' None, 'i' value, 'b' bool, 'k' key, 'p' (key, value), 'K' list of keys, 'V' list of values, 'P' list of pairs, 'D' dict, 'S' set
	i    int32
	b    bool
	ids  []int32
	vals []int32
}

type sexp struct {
	seq    int
	coll   bool // compare the collection argument with order/vals
	order  []int32
	vals   []int32
	res    rexp
	errSub string // for fails(): the call must fail with a message containing this
	opkey  string // names the derived operation for the violation key ("" = plain history step)
	dup    bool   // the operand was a non-set iterable with repeated elements
	binds  bool   // the derived value was bound to a variable the rest of the sequence uses
	alias  string // non-empty: this check belongs to the aliasing oracle of the named derived operation
	line   string
}

type sgen struct {
	kind  int
	r     *rand.Rand
	b     strings.Builder
	exps  []sexp
	seqAt []int // offset in b where each sequence starts
	seq   int
	nkeys int
	nv    int32
	nfill int
	alias string // copied into every expectation emitted while set
}

func newSgen(kind int, r *rand.Rand) *sgen {
	return &sgen{kind: kind, r: r, nkeys: idKX + 1, seq: -1}
}

func (g *sgen) newModel() *model { return newModel(g.nkeys) }

func (g *sgen) val() int32 { g.nv++; return g.nv }

func vsrc(v int32) string {
	if v == valNone {
		return "None"
	}
	return fmt.Sprint(v)
}

// begin starts a new sequence: a function whose body the following statements form.
func (g *sgen) begin() {
	g.seq++
	g.seqAt = append(g.seqAt, g.b.Len())
	fmt.Fprintf(&g.b, "def s%d():\n", g.seq)
}

func (g *sgen) end() {
	fmt.Fprintf(&g.b, "run(%d, s%d)\n", g.seq, g.seq)
}

func (g *sgen) stmt(format string, args ...any) string {
	s := fmt.Sprintf(format, args...)
	g.b.WriteString("    ")
	g.b.WriteString(s)
	g.b.WriteByte('\n')
	return s
}

func (g *sgen) seqSource(seq int) string {
	s := g.b.String()
	end := len(s)
	if seq+1 < len(g.seqAt) {
		end = g.seqAt[seq+1]
	}
	return s[g.seqAt[seq]:end]
}

func snap(m *model) (order, vals []int32) {
	return append([]int32(nil), m.order...), m.vals()
}

// views returns the extra arguments showing the collection through Starlark-level iteration.
func (g *sgen) views(x string) string {
	if g.kind == kDict {
		switch g.r.Intn(3) {
		case 0:
			return fmt.Sprintf("list(%s), %s.items()", x, x)
		case 1:
			return fmt.Sprintf("[k_ for k_ in %s], [(k_, v_) for k_, v_ in %s.items()]", x, x)
		}
		return fmt.Sprintf("%s.keys(), list(zip(%s.keys(), %s.values()))", x, x, x)
	}
	if g.r.Intn(2) == 0 {
		return fmt.Sprintf("list(%s)", x)
	}
	return fmt.Sprintf("[e_ for e_ in %s]", x)
}

// checkState emits check(i, x, r, views) expecting collection x to equal m and r to equal res.
func (g *sgen) checkState(x string, m *model, rsrc string, res rexp, line string) {
	o, v := snap(m)
	g.exps = append(g.exps, sexp{seq: g.seq, coll: true, order: o, vals: v, res: res, line: line, alias: g.alias})
	// two calls: the collection is first walked by the host with a bound (a corrupted order list may be
	// cyclic); only then is it iterated by Starlark code
	g.stmt("check(%d, %s, %s)", len(g.exps)-1, x, rsrc)
	g.stmt("views(%d, %s)", len(g.exps)-1, g.views(x))
}

// checkValue emits check(i, None, expr) for a derived value.
func (g *sgen) checkValue(expr string, res rexp, opkey string, dup bool) {
	g.exps = append(g.exps, sexp{seq: g.seq, res: res, opkey: opkey, dup: dup, line: expr, alias: g.alias})
	g.stmt("check(%d, None, %s)", len(g.exps)-1, expr)
}

// checkFails emits fails(i, x, lambda: expr).
func (g *sgen) checkFails(x string, m *model, expr, errSub string) {
	o, v := snap(m)
	g.exps = append(g.exps, sexp{seq: g.seq, coll: true, order: o, vals: v, errSub: errSub, line: expr, alias: g.alias})
	g.stmt("fails(%d, %s, lambda: %s)", len(g.exps)-1, x, expr)
}

func rNone() rexp          { return rexp{t: 'n'} }
func rVal(v int32) rexp    { return rexp{t: 'i', i: v} }
func rBool(b bool) rexp    { return rexp{t: 'b', b: b} }
func rKey(id int32) rexp   { return rexp{t: 'k', i: id} }
func rKeys(m *model) rexp  { return rexp{t: 'K', ids: append([]int32(nil), m.order...)} }
func rVals(m *model) rexp  { return rexp{t: 'V', vals: m.vals()} }
func rPairs(m *model) rexp { o, v := snap(m); return rexp{t: 'P', ids: o, vals: v} }
func rDict(m *model) rexp  { o, v := snap(m); return rexp{t: 'D', ids: o, vals: v} }
func rSet(m *model) rexp   { return rexp{t: 'S', ids: append([]int32(nil), m.order...)} }
func (g *sgen) rColl(m *model) rexp {
	if g.kind == kDict {
		return rDict(m)
	}
	return rSet(m)
}

// ---- literals -------------------------------------------------------------------------------

func keyList(ids []int32) string {
	p := make([]string, len(ids))
	for i, id := range ids {
		p[i] = keySrc[id]
	}
	return strings.Join(p, ", ")
}

func listLit(ids []int32) string { return "[" + keyList(ids) + "]" }
func tupleLit(ids []int32) string {
	if len(ids) == 1 {
		return "(" + keyList(ids) + ",)"
	}
	return "(" + keyList(ids) + ")"
}
func setLit(ids []int32) string { return "set([" + keyList(ids) + "])" }

func pairList(ids, vals []int32) string {
	p := make([]string, len(ids))
	for i, id := range ids {
		p[i] = fmt.Sprintf("(%s, %s)", keySrc[id], vsrc(vals[i]))
	}
	return "[" + strings.Join(p, ", ") + "]"
}

func dictLit(ids, vals []int32) string {
	p := make([]string, len(ids))
	for i, id := range ids {
		p[i] = fmt.Sprintf("%s: %s", keySrc[id], vsrc(vals[i]))
	}
	return "{" + strings.Join(p, ", ") + "}"
}

// distinctIDs picks n distinct host-key ids in random order.
func (g *sgen) distinctIDs(n int) []int32 {
	p := g.r.Perm(5)
	out := make([]int32, n)
	for i := range out {
		out[i] = int32(p[i])
	}
	return out
}

func hasDup(ids []int32) bool {
	for i := range ids {
		for j := 0; j < i; j++ {
			if ids[i] == ids[j] {
				return true
			}
		}
	}
	return false
}

// randIDs picks n host-key ids, possibly repeated.
func (g *sgen) randIDs(n int) []int32 {
	out := make([]int32, n)
	for i := range out {
		out[i] = int32(g.r.Intn(5))
	}
	return out
}

func (g *sgen) vals(n int) []int32 {
	out := make([]int32, n)
	for i := range out {
		out[i] = g.val()
	}
	return out
}

// ---- history steps on variable x (model m) ---------------------------------------------------

// insertStep emits one of the spellings that insert key id (or update it).
func (g *sgen) insertStep(x string, m *model, id int32) {
	if g.kind == kSet {
		var line string
		switch g.r.Intn(6) {
		case 0, 1:
			line = g.stmt("r = %s.add(%s)", x, keySrc[id])
			m.set(id, 0)
			g.checkState(x, m, "r", rNone(), line)
			return
		case 2:
			line = g.stmt("r = %s.update([%s])", x, keySrc[id])
			m.set(id, 0)
			g.checkState(x, m, "r", rNone(), line)
			return
		case 3:
			line = g.stmt("%s |= set([%s])", x, keySrc[id])
		case 4:
			line = g.stmt("%s = %s | set([%s])", x, x, keySrc[id])
		default:
			line = g.stmt("%s = %s.union([%s])", x, x, keySrc[id])
		}
		m.set(id, 0)
		g.checkState(x, m, "None", rNone(), line)
		return
	}
	v := g.val()
	switch g.r.Intn(7) {
	case 0, 1:
		line := g.stmt("%s[%s] = %d", x, keySrc[id], v)
		m.set(id, v)
		g.checkState(x, m, "None", rNone(), line)
	case 2:
		line := g.stmt("r = %s.setdefault(%s, %d)", x, keySrc[id], v)
		want := v
		if old, ok := m.get(id); ok {
			want = old // present: value and position stay
		} else {
			m.set(id, v)
		}
		g.checkState(x, m, "r", rVal(want), line)
	case 3:
		line := g.stmt("r = %s.update([(%s, %d)])", x, keySrc[id], v)
		m.set(id, v)
		g.checkState(x, m, "r", rNone(), line)
	case 4:
		line := g.stmt("r = %s.update({%s: %d})", x, keySrc[id], v)
		m.set(id, v)
		g.checkState(x, m, "r", rNone(), line)
	case 5:
		line := g.stmt("%s |= {%s: %d}", x, keySrc[id], v)
		m.set(id, v)
		g.checkState(x, m, "None", rNone(), line)
	default:
		line := g.stmt("r = %s.setdefault(%s)", x, keySrc[id])
		want := int32(valNone)
		if old, ok := m.get(id); ok {
			want = old
		} else {
			m.set(id, valNone)
		}
		g.checkState(x, m, "r", rVal(want), line)
	}
}

// deleteStep emits one of the spellings that remove key id.
func (g *sgen) deleteStep(x string, m *model, id int32) {
	k := keySrc[id]
	if g.kind == kSet {
		switch g.r.Intn(5) {
		case 0, 1:
			line := g.stmt("r = %s.discard(%s)", x, k)
			m.del(id)
			g.checkState(x, m, "r", rNone(), line)
		case 2:
			if !m.has(id) {
				g.checkFails(x, m, fmt.Sprintf("%s.remove(%s)", x, k), "missing key")
				return
			}
			line := g.stmt("r = %s.remove(%s)", x, k)
			m.del(id)
			g.checkState(x, m, "r", rNone(), line)
		case 3:
			line := g.stmt("%s -= set([%s])", x, k)
			m.del(id)
			g.checkState(x, m, "None", rNone(), line)
		default:
			line := g.stmt("%s = %s.difference([%s])", x, x, k)
			m.del(id)
			g.checkState(x, m, "None", rNone(), line)
		}
		return
	}
	switch g.r.Intn(4) {
	case 0, 1:
		line := g.stmt("r = %s.pop(%s, None)", x, k)
		want := int32(valNone)
		if v, ok := m.del(id); ok {
			want = v
		}
		g.checkState(x, m, "r", rVal(want), line)
	case 2:
		line := g.stmt("r = %s.pop(%s, -7)", x, k)
		want := int32(-7)
		if v, ok := m.del(id); ok {
			want = v
		}
		g.checkState(x, m, "r", rVal(want), line)
	default:
		if !m.has(id) {
			g.checkFails(x, m, fmt.Sprintf("%s.pop(%s)", x, k), "missing key")
			return
		}
		line := g.stmt("r = %s.pop(%s)", x, k)
		v, _ := m.del(id)
		g.checkState(x, m, "r", rVal(v), line)
	}
}

func (g *sgen) popStep(x string, m *model) {
	if g.kind == kSet {
		if m.len() == 0 {
			g.checkFails(x, m, x+".pop()", "empty set")
			return
		}
		line := g.stmt("r = %s.pop()", x)
		id, _, _ := m.popFirst()
		g.checkState(x, m, "r", rKey(id), line)
		return
	}
	if m.len() == 0 {
		g.checkFails(x, m, x+".popitem()", "empty dict")
		return
	}
	line := g.stmt("r = %s.popitem()", x)
	id, v, _ := m.popFirst()
	g.checkState(x, m, "r", rexp{t: 'p', i: id, vals: []int32{v}}, line)
}

func (g *sgen) clearStep(x string, m *model) {
	line := g.stmt("r = %s.clear()", x)
	m.clear()
	g.checkState(x, m, "r", rNone(), line)
}

// readStep emits a read-only observation of x.
func (g *sgen) readStep(x string, m *model) {
	id := int32(g.r.Intn(5))
	k := keySrc[id]
	if g.kind == kSet {
		switch g.r.Intn(4) {
		case 0:
			g.checkValue(fmt.Sprintf("%s in %s", k, x), rBool(m.has(id)), "", false)
		case 1:
			g.checkValue(fmt.Sprintf("%s not in %s", k, x), rBool(!m.has(id)), "", false)
		case 2:
			g.checkValue(fmt.Sprintf("len(%s)", x), rVal(int32(m.len())), "", false)
		default:
			g.checkValue(fmt.Sprintf("bool(%s)", x), rBool(m.len() > 0), "", false)
		}
		return
	}
	v, ok := m.get(id)
	switch g.r.Intn(9) {
	case 0:
		want := int32(valNone)
		if ok {
			want = v
		}
		g.checkValue(fmt.Sprintf("%s.get(%s)", x, k), rVal(want), "", false)
	case 1:
		want := int32(-7)
		if ok {
			want = v
		}
		g.checkValue(fmt.Sprintf("%s.get(%s, -7)", x, k), rVal(want), "", false)
	case 2:
		if !ok {
			g.checkFails(x, m, fmt.Sprintf("%s[%s]", x, k), "not in dict")
			return
		}
		g.checkValue(fmt.Sprintf("%s[%s]", x, k), rVal(v), "", false)
	case 3:
		g.checkValue(fmt.Sprintf("%s in %s", k, x), rBool(ok), "", false)
	case 4:
		g.checkValue(fmt.Sprintf("len(%s)", x), rVal(int32(m.len())), "", false)
	case 5:
		g.checkValue(x+".keys()", rKeys(m), "", false)
	case 6:
		g.checkValue(x+".values()", rVals(m), "", false)
	case 7:
		g.checkValue(x+".items()", rPairs(m), "", false)
	default:
		g.checkValue(fmt.Sprintf("%s not in %s", k, x), rBool(!ok), "", false)
	}
}

// operand describes the right operand of a derived operation.
type operand struct {
	src   string
	ids   []int32
	vals  []int32 // dict operands only
	isSet bool    // a set (or dict for dict operations): usable with the binary operators
	dup   bool
}

// setOperand renders a right operand for a set operation from ids (in that order).
func (g *sgen) setOperand(y string, my *model, allowVar bool) operand {
	if allowVar && y != "" && g.r.Intn(2) == 0 {
		switch g.r.Intn(4) {
		case 0:
			return operand{src: "list(" + y + ")", ids: append([]int32(nil), my.order...)}
		default:
			return operand{src: y, ids: append([]int32(nil), my.order...), isSet: true}
		}
	}
	n := g.r.Intn(5)
	switch g.r.Intn(6) {
	case 0:
		ids := g.distinctIDs(n)
		return operand{src: setLit(ids), ids: ids, isSet: true}
	case 1:
		ids := g.distinctIDs(n)
		return operand{src: listLit(ids), ids: ids}
	case 2:
		ids := g.distinctIDs(n)
		return operand{src: tupleLit(ids), ids: ids}
	case 3:
		ids := g.distinctIDs(n)
		vals := make([]int32, n)
		return operand{src: dictLit(ids, vals), ids: ids} // iterating a dict yields its keys
	default:
		ids := g.randIDs(n + 1)
		return operand{src: listLit(ids), ids: ids, dup: hasDup(ids)}
	}
}

// derivedSetStep emits one derived set operation of x with a right operand and checks its value.
// Operators need a set operand; methods accept any iterable.
func (g *sgen) derivedSetStep(x string, m *model, y string, my *model) {
	op := g.setOperand(y, my, true)
	type form struct {
		expr  string
		res   rexp
		key   string
		needs bool // needs a set operand
	}
	o := op.src
	forms := []form{
		{x + " | " + o, rSet(m.union(op.ids, nil)), "set-union", true},
		{x + ".union(" + o + ")", rSet(m.union(op.ids, nil)), "set-union", false},
		{x + " & " + o, rSet(m.intersection(op.ids)), "set-intersection", true},
		{x + ".intersection(" + o + ")", rSet(m.intersection(op.ids)), "set-intersection", false},
		{x + " - " + o, rSet(m.difference(op.ids)), "set-difference", true},
		{x + ".difference(" + o + ")", rSet(m.difference(op.ids)), "set-difference", false},
		{x + " ^ " + o, rSet(m.symmetricDifference(op.ids)), "set-symmetric_difference", true},
		{x + ".symmetric_difference(" + o + ")", rSet(m.symmetricDifference(op.ids)), "set-symmetric_difference", false},
		{x + ".issubset(" + o + ")", rBool(m.isSubset(op.ids)), "set-issubset", false},
		{x + ".issuperset(" + o + ")", rBool(m.isSuperset(op.ids)), "set-issuperset", false},
		{x + " <= " + o, rBool(m.isSubset(op.ids)), "set-compare", true},
		{x + " < " + o, rBool(m.isSubset(op.ids) && m.len() < len(op.ids)), "set-compare", true},
		{x + " >= " + o, rBool(m.isSuperset(op.ids)), "set-compare", true},
		{x + " > " + o, rBool(m.isSuperset(op.ids) && m.len() > len(op.ids)), "set-compare", true},
		{x + " == " + o, rBool(m.isSubset(op.ids) && m.len() == len(op.ids)), "set-compare", true},
		{x + " != " + o, rBool(!(m.isSubset(op.ids) && m.len() == len(op.ids))), "set-compare", true},
		{"set(" + o + ")", rSet(g.newModel().union(op.ids, nil)), "set-constructor", false},
	}
	for {
		f := forms[g.r.Intn(len(forms))]
		if f.needs && !op.isSet {
			continue
		}
		g.checkValue(f.expr, f.res, f.key, op.dup)
		return
	}
}

// allDerivedSet emits every derived set form of x with operand b (a set variable) and with
// list/tuple renderings of it.
func (g *sgen) allDerivedSet(x string, m *model, y string, my *model) {
	ids := append([]int32(nil), my.order...)
	eq := m.isSubset(ids) && m.len() == len(ids)
	u, in, df, sd := rSet(m.union(ids, nil)), rSet(m.intersection(ids)), rSet(m.difference(ids)), rSet(m.symmetricDifference(ids))
	l := listLit(ids)
	g.checkValue(x+" | "+y, u, "set-union", false)
	g.checkValue(x+".union("+l+")", u, "set-union", false)
	g.checkValue(x+" & "+y, in, "set-intersection", false)
	g.checkValue(x+".intersection("+tupleLit(ids)+")", in, "set-intersection", false)
	g.checkValue(x+" - "+y, df, "set-difference", false)
	g.checkValue(x+".difference("+l+")", df, "set-difference", false)
	g.checkValue(x+" ^ "+y, sd, "set-symmetric_difference", false)
	g.checkValue(x+".symmetric_difference("+l+")", sd, "set-symmetric_difference", false)
	g.checkValue(x+".issubset("+y+")", rBool(m.isSubset(ids)), "set-issubset", false)
	g.checkValue(x+".issuperset("+l+")", rBool(m.isSuperset(ids)), "set-issuperset", false)
	g.checkValue(x+" <= "+y, rBool(m.isSubset(ids)), "set-compare", false)
	g.checkValue(x+" < "+y, rBool(m.isSubset(ids) && m.len() < len(ids)), "set-compare", false)
	g.checkValue(x+" >= "+y, rBool(m.isSuperset(ids)), "set-compare", false)
	g.checkValue(x+" > "+y, rBool(m.isSuperset(ids) && m.len() > len(ids)), "set-compare", false)
	g.checkValue(x+" == "+y, rBool(eq), "set-compare", false)
	// operands with repeated elements (non-set iterables)
	if len(ids) > 0 {
		d := append(append([]int32{ids[len(ids)-1]}, ids...), ids[0])
		dl := listLit(d)
		g.checkValue(x+".union("+dl+")", rSet(m.union(d, nil)), "set-union", true)
		g.checkValue(x+".intersection("+dl+")", in, "set-intersection", true)
		g.checkValue(x+".difference("+dl+")", df, "set-difference", true)
		g.checkValue(x+".symmetric_difference("+dl+")", rSet(m.symmetricDifference(d)), "set-symmetric_difference", true)
		g.checkValue(x+".issubset("+dl+")", rBool(m.isSubset(ids)), "set-issubset", true)
		g.checkValue(x+".issuperset("+dl+")", rBool(m.isSuperset(ids)), "set-issuperset", true)
	}
	// in-place and rebinding forms on a copy
	t := m.clone()
	g.stmt("t = set(%s)", x)
	line := g.stmt("t |= %s", y)
	t.updateFrom(ids, nil)
	g.checkValue("t", rSet(t), "set-union", false)
	_ = line
	g.stmt("t = set(%s)", x)
	g.stmt("t &= %s", y)
	g.checkValue("t", in, "set-intersection", false)
	g.stmt("t = set(%s)", x)
	g.stmt("t -= %s", y)
	g.checkValue("t", df, "set-difference", false)
	g.stmt("t = set(%s)", x)
	g.stmt("t ^= %s", y)
	g.checkValue("t", sd, "set-symmetric_difference", false)
	g.stmt("t = set(%s)", x)
	g.stmt("t.update(%s, %s)", l, y)
	g.checkValue("t", u, "set-update", false)
}

// dictOperand renders a right operand for dict operations.
func (g *sgen) dictOperand(y string, my *model) operand {
	if y != "" && g.r.Intn(2) == 0 {
		o, v := snap(my)
		return operand{src: y, ids: o, vals: v, isSet: true}
	}
	n := g.r.Intn(4)
	switch g.r.Intn(3) {
	case 0:
		ids := g.distinctIDs(n)
		vals := g.vals(n)
		return operand{src: dictLit(ids, vals), ids: ids, vals: vals, isSet: true}
	case 1:
		ids := g.randIDs(n + 1)
		vals := g.vals(n + 1)
		return operand{src: pairList(ids, vals), ids: ids, vals: vals, dup: hasDup(ids)}
	default:
		ids := g.distinctIDs(n)
		vals := g.vals(n)
		p := make([]string, n)
		for i := range ids {
			p[i] = fmt.Sprintf("[%s, %s]", keySrc[ids[i]], vsrc(vals[i]))
		}
		src := "()"
		if n > 0 {
			src = "(" + strings.Join(p, ", ") + ",)"
		}
		return operand{src: src, ids: ids, vals: vals}
	}
}

// kwargs picks keyword arguments zz=/yy= (inserted after the positional pairs, in call order).
func (g *sgen) kwargs() (src string, ids, vals []int32) {
	switch g.r.Intn(4) {
	case 0:
		v := g.val()
		return fmt.Sprintf("zz=%d", v), []int32{idZZ}, []int32{v}
	case 1:
		v, w := g.val(), g.val()
		return fmt.Sprintf("yy=%d, zz=%d", v, w), []int32{idYY, idZZ}, []int32{v, w}
	}
	return "", nil, nil
}

func joinArgs(a, b string) string {
	if a == "" {
		return b
	}
	if b == "" {
		return a
	}
	return a + ", " + b
}

// derivedDictStep emits a derived dict value computed from x and checks it.
func (g *sgen) derivedDictStep(x string, m *model, y string, my *model) {
	op := g.dictOperand(y, my)
	switch g.r.Intn(7) {
	case 0, 1:
		if !op.isSet {
			op = operand{src: "dict(" + op.src + ")", ids: op.ids, vals: op.vals, isSet: true, dup: op.dup}
		}
		g.checkValue(x+" | "+op.src, rDict(m.union(op.ids, op.vals)), "dict-union", false)
	case 2:
		ks, kids, kvals := g.kwargs()
		r := m.clone()
		r.updateFrom(kids, kvals)
		g.checkValue("dict("+joinArgs(x, ks)+")", rDict(r), "dict-constructor", false)
	case 3:
		ks, kids, kvals := g.kwargs()
		r := g.newModel()
		r.updateFrom(op.ids, op.vals)
		r.updateFrom(kids, kvals)
		g.checkValue("dict("+joinArgs(op.src, ks)+")", rDict(r), "dict-constructor", op.dup)
	case 4:
		g.checkValue(fmt.Sprintf("{k_: v_ for k_, v_ in %s.items()}", x), rDict(m), "dict-comprehension", false)
	case 5:
		eq := false
		if op.isSet {
			r := g.newModel()
			r.updateFrom(op.ids, op.vals)
			eq = r.len() == m.len()
			for _, id := range r.order {
				v, ok := m.get(id)
				eq = eq && ok && v == r.val[id]
			}
			g.checkValue(x+" == "+op.src, rBool(eq), "dict-compare", false)
		} else {
			g.checkValue(x+" == dict("+x+".items())", rBool(true), "dict-compare", false)
		}
	default:
		g.checkValue("dict("+x+".items())", rDict(m), "dict-constructor", false)
	}
}

// bulkDictStep emits an in-place bulk update of x.
func (g *sgen) bulkDictStep(x string, m *model, y string, my *model) {
	op := g.dictOperand(y, my)
	if g.r.Intn(3) == 0 {
		if !op.isSet {
			op.src = "dict(" + op.src + ")"
		}
		line := g.stmt("%s |= %s", x, op.src)
		m.updateFrom(op.ids, op.vals)
		g.checkState(x, m, "None", rNone(), line)
		return
	}
	ks, kids, kvals := g.kwargs()
	line := g.stmt("r = %s.update(%s)", x, joinArgs(op.src, ks))
	m.updateFrom(op.ids, op.vals)
	m.updateFrom(kids, kvals)
	g.checkState(x, m, "r", rNone(), line)
}

// bulkSetStep emits an in-place or rebinding bulk operation on set x.
func (g *sgen) bulkSetStep(x string, m *model, y string, my *model) {
	if y == x {
		y = "" // s.update(s) fails by design: the set has an active iterator
	}
	switch g.r.Intn(6) {
	case 0:
		a, b := g.setOperand("", nil, false), g.setOperand(y, my, y != "")
		line := g.stmt("r = %s.update(%s, %s)", x, a.src, b.src)
		m.updateFrom(a.ids, nil)
		m.updateFrom(b.ids, nil)
		g.checkState(x, m, "r", rNone(), line)
	case 1:
		a, b := g.setOperand(y, my, y != ""), g.setOperand("", nil, false)
		line := g.stmt("%s = %s.union(%s, %s)", x, x, a.src, b.src)
		m.updateFrom(a.ids, nil)
		m.updateFrom(b.ids, nil)
		g.checkState(x, m, "None", rNone(), line)
	default:
		// augmented assignment with a set operand: x OP= y rebinds x to x OP y
		var o operand
		for {
			o = g.setOperand(y, my, y != "")
			if o.isSet {
				break
			}
		}
		var r *model
		var sym, key string
		switch g.r.Intn(4) {
		case 0:
			r, sym, key = m.union(o.ids, nil), "|=", "set-union"
		case 1:
			r, sym, key = m.intersection(o.ids), "&=", "set-intersection"
		case 2:
			r, sym, key = m.difference(o.ids), "-=", "set-difference"
		default:
			r, sym, key = m.symmetricDifference(o.ids), "^=", "set-symmetric_difference"
		}
		line := g.stmt("%s %s %s", x, sym, o.src)
		m.copyFrom(r)
		// judged as the derived value it is, so that an order defect of the operator keeps its own key
		g.checkValue(x, rSet(m), key, false)
		g.exps[len(g.exps)-1].line = line
		g.exps[len(g.exps)-1].binds = true
	}
}

// ---- start collections -----------------------------------------------------------------------

// startStmt emits "x = <start collection>" and returns its model. pre names a predeclared list
// of filler pairs/keys with n entries (n = 0: empty).
func (g *sgen) startStmt(x string, pre string, n int) *model {
	m := g.newModel()
	if n == 0 {
		if g.kind == kDict {
			g.stmt("%s = %s", x, []string{"{}", "dict()"}[g.r.Intn(2)])
		} else {
			g.stmt("%s = set()", x)
		}
		return m
	}
	if g.kind == kDict {
		g.stmt("%s = dict(%s)", x, pre)
	} else {
		g.stmt("%s = set(%s)", x, pre)
	}
	for j := 0; j < n; j++ {
		m.set(int32(idFill0+j), g.fillVal(j))
	}
	return m
}

func (g *sgen) fillVal(j int) int32 {
	if g.kind == kSet {
		return 0
	}
	return int32(9000 + j)
}

// buildOrdered emits a history that leaves x holding exactly the host keys ids, in that order,
// after detours (other keys inserted and deleted again, a key deleted and re-inserted).
func (g *sgen) buildOrdered(x string, ids []int32) *model {
	m := g.startStmt(x, "", 0)
	in := map[int32]bool{}
	for _, id := range ids {
		in[id] = true
	}
	var extra []int32
	for id := int32(0); id < 5; id++ {
		if !in[id] && g.r.Intn(2) == 0 {
			extra = append(extra, id)
		}
	}
	// early copies of wanted keys that are deleted again before their final insertion
	var early []int32
	for _, id := range ids {
		if g.r.Intn(4) == 0 {
			early = append(early, id)
		}
	}
	for _, id := range append(extra, early...) {
		g.insertStep(x, m, id)
	}
	for _, id := range early {
		g.deleteStep(x, m, id)
	}
	for i, id := range ids {
		if m.has(id) { // a failing delete spelling left it in: remove it for real
			g.stmt("%s.%s", x, map[int]string{kDict: "pop(" + keySrc[id] + ")", kSet: "remove(" + keySrc[id] + ")"}[g.kind])
			m.del(id)
		}
		g.insertStep(x, m, id)
		if i < len(extra) && g.r.Intn(2) == 0 {
			g.deleteStep(x, m, extra[i])
		}
	}
	for _, id := range extra {
		if m.has(id) {
			g.stmt("%s.%s", x, map[int]string{kDict: "pop(" + keySrc[id] + ")", kSet: "remove(" + keySrc[id] + ")"}[g.kind])
			m.del(id)
		}
	}
	return m
}

var _ = starlark.None
