// Package c12 monitors property C12: dict and set behave as insertion-ordered maps
// under every operation history.
package c12

import (
	"fmt"
	"os"
	"runtime"
	"runtime/debug"
	"runtime/pprof"
	"strconv"
	"time"

	"verif/internal/driver"
)

func init() {
	driver.Register(&driver.Engine{
		ID: "C12", Level: "exploration",
		Rule: "Three arms, each judged against an ordered association list (new key appended, update keeps the position, delete removes; " +
			"popitem/pop take the FIRST entry, derived collections ordered as doc/spec.md states) plus starlark.VerifCheckTable. " +
			"(x) EXHAUSTIVE, Go API (SetKey/Insert, Delete, Get/Has, Len, Iterate/Keys/Items, Clear, popitem/pop through the bound method value): every sequence of " +
			"length 0..L over the 12 operations {insert k, delete k (5 host keys, 3 with one full 32-bit hash; universe 0: +1 key equal in the low 16 bits, +1 unrelated; " +
			"universe 1: + keys with hash 0 and hash 1), pop-first, clear}, from 22 start tables (NewDict(0), zero value, and tables pre-filled to 7,8,9,12,13,26,52,53 fillers " +
			"either spread over the buckets or all in the universe's bucket chain with one delete+insert detour, plus, for 12,13,26,52, a mix that leaves the universe's chain exactly full after the next doubling). Bound: L=5 quick / L=7 thorough for dict over universe 0 from every start with at most 26 fillers and for set over " +
			"universe 1 from {empty, zero value, chain:8, chain:13}; L-1 for the starts with 52 and 53 fillers, for the remaining starts of set/universe 1 and for dict/universe 1 and set/universe 0. A case is (start, first two operations) with all " +
			"its extensions; each operation's result is compared when it is made, and len, membership+lookup of all 5 keys and of the first/last/last-removed entry, and the full Iterate order are compared at the end of EVERY " +
			"sequence (Keys/Items and VerifCheckTable after every sequence shorter than the bound and after every 8th/4th of maximal length). The flag exhaustive refers to this arm and these bounds only. " +
			"(s) STARLARK source: A) every sequence of length <= 4 quick / 5 thorough over the same 12 abstract operations, each rendered in a randomly chosen spelling (d[k]=v, setdefault, update, |=, pop, popitem, clear; add, update, |=, union, discard, remove, -=, difference, pop, clear) " +
			"from empty, chain:8, chain:13, spread:12 starts, dict and set; B) every derived operation (| & - ^ and augmented forms, union/intersection/difference/symmetric_difference/issubset/issuperset with set, list, tuple and repeated-element operands, <= < >= > ==, dict |, |=, update, dict(), comprehension) " +
			"for pairs (A,B) of ordered subsets of the 5 keys built through histories with detours (thorough: all 326x326 pairs per kind; quick: every 16th B per A); C) random mixed histories over two variables, aliasing included. Host builtins check(i, coll, result) and views(i, list(coll), coll.items()) compare with the model after every statement (length, iteration order, membership and value of every key of the id space, VerifCheckTable, then the Starlark-level iteration). " +
			"(r) RANDOM: histories of 10^4 operations over pools of 1200-5000 keys with hashes all equal / equal in the low 16 bits / sequential / random / 16 distinct / {0,1}, alternating fill and drain phases, through the Go API or through method calls; result of every operation and Len compared at once, " +
			"full order every 500 operations, VerifCheckTable every 1000 (2500 for single-chain distributions), derived Go-API operations (Union, Intersection, Difference, SymmetricDifference, IsSubset, IsSuperset, Dict.Union) at 3 random points. " +
			"(a) ALIASING of derived collections (both tiers, complete over the listed shapes): for every operation the spec says returns a NEW collection (Go API Dict.Union, Set.Union/Intersection/Difference/SymmetricDifference with set and list iterators; Starlark dict |, dict(x), dict(x, kw), dict(x.items()), comprehension, set | & - ^, " +
			"set.union/intersection/difference/symmetric_difference with set/list/no argument, set(x), keys/values/items/list) and every pair of operand shapes {never-allocated zero value / literal, constructor-empty, emptied by delete, by pop-first, by clear, grown then cleared, 1, 3, 5 keys, 9-entry chain with an overflow bucket} plus the identical operand (x OP x): " +
			"the result is a different object; inserting a fresh key into, deleting from and clearing the result leaves both operands equal to their models; the same mutations of either operand leave a fresh result equal to its model; freezing the operands leaves the result mutable (violations: key 'C12 alias <operation>'). The random arm also clears every derived result and re-checks the receiver. " +
			"(g) GO-API READ ROUTES interleaved with mutations: a read, finished or abandoned, is not an operation of the model, so after it the table must accept every mutation and go on following the ordered-map model. Complete over {13 start shapes (zero value, emptied tables, 1-13 keys, full chains with an overflow bucket and a vacated slot) x 2 universes x dict/set} x " +
			"{range over Dict.Entries / Set.Elements, starlark.Entries / starlark.Elements on the collection and on a wrapped mapping/iterable (generic path), starlark.Elements(dict), iter.Pull/Pull2 over them, Iterate/Next/Done, starlark.Iterate, Keys, Items, keys()/values()/items(), list(set)} x {stop at the first, second, middle, last element, run to completion, close before the first element} x " +
			"{alone, followed by a second read, with a second read nested in the loop body, with a mutation attempted in the loop body (not judged while the read is open: either outcome, the table must agree with the model)} x 15 mutations (SetKey/Insert, setdefault/add, update, c[k]=v and dict |= in a Starlark function, Delete of first/last/absent key, pop/discard/remove, popitem/pop, Clear, clear(), delete + re-insert): every element is compared with the model when it is yielded, the mutation's result when it is made, " +
			"and len, order, lookups of the whole id space, Keys/Items and VerifCheckTable after the mutation and after a following delete + re-insert of the first key (violations: key 'C12 go-read <dict|set> <aspect>', aspect mutation-rejected-after-read when a mutation fails although every read has ended); plus random histories of 300 top-level steps of such reads (nested to depth 3, mutations and lookups inside the bodies) and mutations over tables that fill and drain repeatedly. " +
			"distinct_nontrivial counts distinct (start, live universe keys in order, surviving fillers, bucket count, overflow-bucket count) states reached in arm x plus one per case of the other arms.",
		Assumptions: []string{
			"the oracle is a plain ordered association list; derived-collection orders are those of doc/spec.md (`&` keeps the left operand's order; symmetric_difference lists S-minus-y then y-minus-S; dict | and |= keep left keys in place; popitem/pop remove the first entry)",
			"host keys are compared by id and report a scripted Hash(); equal keys always report equal hashes",
			"starlark.VerifCheckTable (build tag verif) correctly states the structural invariants of the hash table",
			"in arm x a table is restored after an operation either by the exact inverse (delete of a just-inserted key that took an existing vacant slot; re-storing the old value) or by rebuilding it from scratch; one case in 61 is re-run with rebuilds only and must observe identical orders and table shapes",
		},
		Run:         run,
		MinDistinct: 100,
		Finish:      finish,
	})
}

func finish(ev map[string]any) (string, bool) {
	if os.Getenv("VERIF_C12_ARMS") != "" {
		return "", false
	}
	cnt, _ := ev["counters"].(map[string]int64)
	for _, k := range []string{"x_sequences_judged", "x_table_invariant_checks", "x_undo_crosschecked_cases", "x_grow_events_in_enumerated_ops", "s_checks_executed", "s_operand_pairs", "r_operations", "r_table_invariant_checks", "r_derived_operations", "s_alias_sequences", "a_goapi_alias_scenarios", "g_read_then_mutate_scenarios", "g_reads_ended_early", "g_mutations_with_no_read_open", "g_random_top_level_steps"} {
		if cnt[k] <= 0 {
			return "monitor observed nothing for " + k, true
		}
	}
	return "", false
}

func envInt(name string) int {
	n, _ := strconv.Atoi(os.Getenv(name))
	return n
}

func run(c *driver.Ctx) {
	// The workload is single-threaded and allocates many short-lived tables while the live heap
	// stays tiny: fewer, larger GC cycles and no fan-out to idle Ps (one child runs per core).
	runtime.GOMAXPROCS(2)
	if g := envInt("VERIF_C12_GOGC"); g > 0 { // dev only
		debug.SetGCPercent(g)
	} else {
		debug.SetGCPercent(400)
	}
	if p := os.Getenv("VERIF_C12_PROF"); p != "" { // dev only
		if f, err := os.Create(p); err == nil {
			pprof.StartCPUProfile(f)
			defer pprof.StopCPUProfile()
		}
	}
	go memoryGuard(c)
	arms := os.Getenv("VERIF_C12_ARMS") // dev only: subset of "xsrag"
	on := func(a string) bool { return arms == "" || containsByte(arms, a[0]) }
	if on("x") {
		runExhaustive(c)
	}
	if on("s") || on("A") {
		runStarlarkA(c)
	}
	if on("s") || on("B") {
		runStarlarkB(c)
	}
	if on("s") || on("C") {
		runStarlarkC(c)
	}
	if on("s") || on("D") {
		runStarlarkD(c)
	}
	if on("a") {
		runAliasGo(c)
	}
	if on("r") {
		runRandom(c)
	}
	if on("g") {
		runGoReads(c)
	}
}

// memoryGuard ends the process when the heap explodes. On a correct tree the live heap of this
// engine stays far below 100 MB; a corrupted order list (a cycle) makes grow/keys/items allocate
// without end, which must become a verdict rather than an exhausted machine. The parent attributes
// the death to the case in flight (its Note names the arm) and restarts the shard after it.
func memoryGuard(c *driver.Ctx) {
	var ms runtime.MemStats
	for {
		time.Sleep(100 * time.Millisecond)
		runtime.ReadMemStats(&ms)
		if ms.HeapAlloc > 900<<20 {
			c.Violation("C12 runaway allocation", fmt.Sprintf("heap grew to %d MB inside a dict/set operation (case %d): a corrupted table is being walked or rehashed without end", ms.HeapAlloc>>20, c.Case()), nil)
			fmt.Fprintln(os.Stderr, "panic: C12 runaway allocation (heap limit of the monitor exceeded)")
			os.Exit(2)
		}
	}
}

func containsByte(s string, b byte) bool {
	for i := 0; i < len(s); i++ {
		if s[i] == b {
			return true
		}
	}
	return false
}
