// Package c12 monitors property C12: dict and set behave as insertion-ordered maps
// under every operation history.
package c12

import (
	"os"
	"runtime"
	"runtime/debug"
	"runtime/pprof"
	"strconv"

	"verif/internal/driver"
)

func init() {
	driver.Register(&driver.Engine{
		ID: "C12", Level: "exploration",
		Rule:        "TODO",
		Assumptions: []string{},
		Run:         run,
	})
}

func envInt(name string) int {
	n, _ := strconv.Atoi(os.Getenv(name))
	return n
}

func run(c *driver.Ctx) {
	// The workload is single-threaded and allocates many short-lived tables while the live heap
	// stays tiny: fewer, larger GC cycles and no fan-out to idle Ps (one child runs per core).
	runtime.GOMAXPROCS(2)
	if g := envInt("VERIF_C12_GOGC"); g > 0 { // dev only
		debug.SetGCPercent(g)
	} else {
		debug.SetGCPercent(1600)
	}
	if p := os.Getenv("VERIF_C12_PROF"); p != "" { // dev only
		if f, err := os.Create(p); err == nil {
			pprof.StartCPUProfile(f)
			defer pprof.StopCPUProfile()
		}
	}
	arms := os.Getenv("VERIF_C12_ARMS") // dev only: subset of "xsr"
	on := func(a string) bool { return arms == "" || containsByte(arms, a[0]) }
	if on("x") {
		runExhaustive(c)
	}
}

func containsByte(s string, b byte) bool {
	for i := 0; i < len(s); i++ {
		if s[i] == b {
			return true
		}
	}
	return false
}
