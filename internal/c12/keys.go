package c12

import (
	"fmt"

	"go.starlark.net/starlark"
	"go.starlark.net/syntax"
)

// hkey is a host-defined hashable value whose hash is scripted.
// Two hkeys are equal iff their ids are equal (equal ids always carry equal hashes),
// so a lookup may be made with a key object different from the one stored.
type hkey struct {
	id   int32
	h    uint32
	name string
}

var (
	_ starlark.Value      = (*hkey)(nil)
	_ starlark.Comparable = (*hkey)(nil)
)

func (k *hkey) String() string        { return k.name }
func (k *hkey) Type() string          { return "hkey" }
func (k *hkey) Freeze()               {}
func (k *hkey) Truth() starlark.Bool  { return true }
func (k *hkey) Hash() (uint32, error) { return k.h, nil }
func (k *hkey) CompareSameType(op syntax.Token, y starlark.Value, depth int) (bool, error) {
	o := y.(*hkey)
	switch op {
	case syntax.EQL:
		return k.id == o.id, nil
	case syntax.NEQ:
		return k.id != o.id, nil
	}
	return false, fmt.Errorf("hkey %s hkey not implemented", op)
}

func newKey(id int, h uint32) *hkey {
	return &hkey{id: int32(id), h: h, name: fmt.Sprintf("K%d", id)}
}

// Universe variants: five keys, three of which share one full 32-bit hash.
//
//	variant 0: H,H,H, a key equal to H in the low 16 bits only, a key with an unrelated hash
//	variant 1: H,H,H (H = 1 mod 2^16), hash 0 (stored as 1 by the table) and hash 1
const (
	uniH0 = 0x2A2A2A2A
	uniH1 = 0x00030001
)

func universe(variant int) []*hkey {
	var hs [5]uint32
	switch variant {
	case 0:
		hs = [5]uint32{uniH0, uniH0, uniH0, uniH0 ^ 0x00010000, 0x9E3779B9}
	default:
		hs = [5]uint32{uniH1, uniH1, uniH1, 0, 1}
	}
	ks := make([]*hkey, 5)
	for i := range ks {
		ks[i] = newKey(i, hs[i])
	}
	return ks
}

// chainHash returns the hash of the i'th filler key of a "chain" prefill: all fillers land in the
// bucket chain of the colliding universe keys for every table size up to 2^16 buckets; every
// fourth filler has exactly the universe's shared full hash, the others differ in the high bits.
func chainHash(variant, i int) uint32 {
	base := uint32(uniH0)
	if variant != 0 {
		base = uniH1
	}
	if i%4 == 3 {
		return base
	}
	return base&0xFFFF | uint32(i+5)<<16
}

// spreadHash spreads the fillers over the buckets.
func spreadHash(i int) uint32 { return uint32(i+1) * 0x9E3779B1 }

// Pre-fill modes.
const (
	modeNone   = 0
	modeSpread = 1
	modeChain  = 2
	modeMixed  = 3
)

var modeName = [4]string{"empty", "spread", "chain", "mixed"}

// fillerHashes returns the hashes of the nfill filler keys of a start table meant to hold n entries.
//
//	spread: spread over the buckets;
//	chain:  all in the bucket chain of the colliding universe keys, for every table size;
//	mixed:  8 fillers (7 for n = 12) in that chain for every table size, the others in the same chain
//	        only until the table doubles next (they differ from the universe hash in bit log2(buckets)):
//	        the doubling that an insertion into the full start table triggers leaves the universe's new
//	        chain exactly full (8 entries, no vacant slot), while the old chain had vacant slots.
func fillerHashes(mode, uni, n, nfill int) []uint32 {
	out := make([]uint32, nfill)
	base := uint32(uniH0)
	if uni != 0 {
		base = uniH1
	}
	switch mode {
	case modeSpread:
		for j := range out {
			out[j] = spreadHash(j)
		}
	case modeChain:
		for j := range out {
			out[j] = chainHash(uni, j)
		}
	case modeMixed:
		same := 8
		if n == 12 {
			same = 7
		}
		if same > nfill {
			same = nfill
		}
		split := nfill - same
		bit := uint32(1) // n <= 13: two buckets before the doubling
		switch {
		case n > 26:
			bit = 3
		case n > 13:
			bit = 2
		}
		s, t := 0, 0
		for j := range out {
			if (j%2 == 0 && s < same) || t >= split {
				out[j] = base&0xFFFF | uint32(j+5)<<16
				s++
			} else {
				out[j] = (base&0xFFFF ^ 1<<bit) | uint32(j+5)<<16
				t++
			}
		}
	}
	return out
}
