package c12

import (
	"fmt"
	"math/rand"

	"go.starlark.net/starlark"

	"verif/internal/driver"
	"verif/internal/sl"
)

// ---------------------------------------------------------------------------------------------
// Random arm: long histories over thousands of keys with adversarial hash distributions.

var distName = []string{"all-equal", "equal-low-16-bits", "sequential", "random", "16-distinct-hashes", "zero-and-one"}

func distHash(dist int, i int, r *rand.Rand) uint32 {
	switch dist {
	case 0:
		return 0xC0FFEE11
	case 1:
		return uint32(i+1)<<16 | 0xBEEF
	case 2:
		return uint32(i)
	case 3:
		return r.Uint32()
	case 4:
		return uint32(i%16) * 0x01000193
	default:
		return uint32(i % 2) // 0 is stored as 1: two hash values, one stored hash
	}
}

func poolSize(dist int) int {
	switch dist {
	case 0, 5:
		return 1200 // every probe compares with the whole chain
	case 4:
		return 3000
	default:
		return 5000
	}
}

type rrun struct {
	c      *driver.Ctx
	r      *rand.Rand
	kind   int
	dist   int
	viaMth bool // drive the collection through its methods instead of the Go API
	pool   []*hkey
	qpool  []*hkey // equal keys, different objects
	t      *gtab
	m      *model
	nbad   int
	label  string

	nderivedBad int
	opsLog      []string // the last operations, for the witness
	step        int
}

func (x *rrun) key(id int32) starlark.Value {
	if x.r.Intn(2) == 0 {
		return x.qpool[id]
	}
	return x.pool[id]
}

func (x *rrun) bad(aspect, format string, args ...any) {
	x.nbad++
	if x.nbad > 3 {
		return
	}
	tail := x.opsLog
	if len(tail) > 30 {
		tail = tail[len(tail)-30:]
	}
	x.c.Violation("C12 random "+kindName[x.kind]+" "+aspect,
		fmt.Sprintf("%s step %d: %s", x.label, x.step, fmt.Sprintf(format, args...)),
		map[string]any{"history": x.label, "step": x.step, "last_ops": tail, "live": x.m.len()})
}

func (x *rrun) log(format string, args ...any) {
	if len(x.opsLog) >= 64 {
		copy(x.opsLog, x.opsLog[32:])
		x.opsLog = x.opsLog[:32]
	}
	x.opsLog = append(x.opsLog, fmt.Sprintf(format, args...))
}

// pickID chooses a key id: a live one (biased to the ends of the order list) or any.
func (x *rrun) pickID(live bool) int32 {
	if n := x.m.len(); live && n > 0 {
		switch x.r.Intn(8) {
		case 0:
			return x.m.order[0]
		case 1:
			return x.m.order[n-1]
		}
		return x.m.order[x.r.Intn(n)]
	}
	return int32(x.r.Intn(len(x.pool)))
}

func (x *rrun) mv(v int32) int32 {
	if x.kind == kSet {
		return 0
	}
	return v
}

func (x *rrun) opInsert() {
	id := x.pickID(x.r.Intn(6) == 0)
	v := int32(x.r.Intn(1 << 20))
	k := x.key(id)
	x.log("insert id=%d v=%d", id, v)
	if !x.viaMth {
		if err := x.t.insert(k, v); err != nil {
			x.bad("return", "insert(id %d) failed: %v", id, err)
		}
		x.m.set(id, x.mv(v))
		return
	}
	if x.kind == kSet {
		var err error
		var res starlark.Value
		if x.r.Intn(4) == 0 {
			res, err = x.t.call("update", starlark.Tuple{k})
		} else {
			res, err = x.t.call("add", k)
		}
		if err != nil || res != starlark.None {
			x.bad("return", "add/update(id %d) = %v, %v", id, res, err)
		}
		x.m.set(id, 0)
		return
	}
	switch x.r.Intn(3) {
	case 0:
		res, err := x.t.call("setdefault", k, starlark.MakeInt(int(v)))
		want := v
		if old, ok := x.m.get(id); ok {
			want = old
		} else {
			x.m.set(id, v)
		}
		if got, ok := intOfErr(res, err); !ok || got != want {
			x.bad("return", "setdefault(id %d, %d) = %v, %v; model %d", id, v, res, err, want)
		}
	case 1:
		res, err := x.t.call("update", starlark.NewList([]starlark.Value{starlark.Tuple{k, starlark.MakeInt(int(v))}}))
		if err != nil || res != starlark.None {
			x.bad("return", "update([(id %d, %d)]) = %v, %v", id, v, res, err)
		}
		x.m.set(id, v)
	default:
		if err := x.t.insert(k, v); err != nil {
			x.bad("return", "SetKey(id %d) failed: %v", id, err)
		}
		x.m.set(id, v)
	}
}

func intOfErr(v starlark.Value, err error) (int32, bool) {
	if err != nil || v == nil {
		return 0, false
	}
	return intOf(v)
}

func (x *rrun) opDelete() {
	id := x.pickID(x.r.Intn(5) != 0)
	k := x.key(id)
	mv, mhad := x.m.del(id)
	x.log("delete id=%d", id)
	if !x.viaMth {
		v, found, vok, err := x.t.del(k)
		if err != nil || found != mhad || !vok || (found && v != mv) {
			x.bad("return", "delete(id %d) = (%d, found=%v, wellformed=%v, err=%v), model (%d, %v)", id, v, found, vok, err, mv, mhad)
		}
		return
	}
	if x.kind == kSet {
		if x.r.Intn(2) == 0 {
			res, err := x.t.call("discard", k)
			if err != nil || res != starlark.None {
				x.bad("return", "discard(id %d) = %v, %v", id, res, err)
			}
			return
		}
		res, err := x.t.call("remove", k)
		if mhad && (err != nil || res != starlark.None) || !mhad && err == nil {
			x.bad("return", "remove(id %d) = %v, %v; model had=%v", id, res, err, mhad)
		}
		return
	}
	if x.r.Intn(2) == 0 {
		res, err := x.t.call("pop", k, starlark.MakeInt(-7))
		want := int32(-7)
		if mhad {
			want = mv
		}
		if got, ok := intOfErr(res, err); !ok || got != want {
			x.bad("return", "pop(id %d, -7) = %v, %v; model %d", id, res, err, want)
		}
		return
	}
	res, err := x.t.call("pop", k)
	if mhad {
		if got, ok := intOfErr(res, err); !ok || got != mv {
			x.bad("return", "pop(id %d) = %v, %v; model %d", id, res, err, mv)
		}
	} else if err == nil {
		x.bad("return", "pop(id %d) of an absent key returned %v", id, res)
	}
}

func (x *rrun) opPop() {
	mid, mv, mok := x.m.popFirst()
	x.log("popfirst")
	k, v, vok, err := x.t.popFirst()
	switch {
	case !mok:
		if err == nil {
			x.bad("return", "popfirst on empty returned %v", k)
		}
	case err != nil || keyID(k) != mid || !vok || v != mv:
		x.bad("return", "popfirst = (%v, %d, wellformed=%v, err=%v), model (id %d, %d)", k, v, vok, err, mid, mv)
	}
}

func (x *rrun) opLookup() {
	id := x.pickID(x.r.Intn(2) == 0)
	k := x.key(id)
	mv, mhad := x.m.get(id)
	if x.viaMth && x.kind == kDict && x.r.Intn(2) == 0 {
		res, err := x.t.call("get", k, starlark.MakeInt(-7))
		want := int32(-7)
		if mhad {
			want = mv
		}
		if got, ok := intOfErr(res, err); !ok || got != want {
			x.bad("lookup", "get(id %d, -7) = %v, %v; model %d", id, res, err, want)
		}
		return
	}
	v, found, vok, err := x.t.get(k)
	if err != nil || found != mhad {
		x.bad("membership", "id %d found=%v err=%v, model %v", id, found, err, mhad)
	} else if !vok || (found && v != mv) {
		x.bad("lookup", "lookup(id %d) = %d (wellformed=%v), model %d", id, v, vok, mv)
	}
}

// orderCheck walks the whole collection (at most len+1 steps) and compares the order with the model.
func (x *rrun) orderCheck() {
	it := x.t.iter()
	defer it.Done()
	ord := x.m.order
	var kv starlark.Value
	i := 0
	for it.Next(&kv) {
		if i >= len(ord) || keyID(kv) != ord[i] {
			x.bad("order", "iteration differs from the model at position %d of %d (got %v)", i, len(ord), kv)
			return
		}
		i++
	}
	if i != len(ord) {
		x.bad("order", "iteration ends after %d of %d entries", i, len(ord))
	}
}

// full compares length, complete iteration order, values and the table invariants.
func (x *rrun) full(tableCheck bool) {
	t, m := x.t, x.m
	if n := t.length(); n != m.len() {
		x.bad("len", "Len() = %d, model %d", n, m.len())
	}
	ids, overrun := iterIDs(t.iter(), m.len()+1)
	if overrun || !idsEqual(ids, m.order) {
		at := 0
		for at < len(ids) && at < len(m.order) && ids[at] == m.order[at] {
			at++
		}
		x.bad("order", "iteration differs from the model at position %d (lengths %d / %d)", at, len(ids), len(m.order))
	} else if t.kind == kDict {
		items := t.d.Items()
		keys := t.d.Keys()
		ok := len(items) == len(m.order) && len(keys) == len(m.order)
		for i := 0; ok && i < len(items); i++ {
			id := m.order[i]
			v, isInt := intOf(items[i][1])
			ok = keyID(items[i][0]) == id && keyID(keys[i]) == id && isInt && v == m.val[id]
		}
		if !ok {
			x.bad("order", "Keys()/Items() differ from the model")
		}
	}
	if tableCheck {
		if err := starlark.VerifCheckTable(t.value()); err != nil {
			x.bad("table-invariant", "VerifCheckTable: %v", err)
		}
		x.c.Count("r_table_invariant_checks", 1)
		b, o := starlark.VerifTableShape(t.value())
		x.c.Cover("r_buckets", fmt.Sprint(b))
		switch {
		case o == 0:
			x.c.Cover("r_overflow", "0")
		case o < 8:
			x.c.Cover("r_overflow", "1-7")
		case o < 64:
			x.c.Cover("r_overflow", "8-63")
		default:
			x.c.Cover("r_overflow", ">=64")
		}
	}
	x.c.Count("r_full_comparisons", 1)
}

// derived compares the derived-collection operations of the Go API on the current table.
func (x *rrun) derived() {
	m := x.m
	r := x.r
	// operand: a shuffled mix of live and other keys
	var ids []int32
	switch r.Intn(5) {
	case 4: // empty operand
	case 0: // superset of the live keys
		ids = append(ids, m.order...)
		for i := 0; i < r.Intn(5); i++ {
			ids = append(ids, int32(r.Intn(len(x.pool))))
		}
	case 1: // the live keys but one
		ids = append(ids, m.order...)
		if len(ids) > 0 {
			ids = ids[:len(ids)-1]
		}
	default:
		n := r.Intn(400)
		for i := 0; i < n; i++ {
			ids = append(ids, x.pickID(r.Intn(2) == 0))
		}
	}
	r.Shuffle(len(ids), func(i, j int) { ids[i], ids[j] = ids[j], ids[i] })
	dedup := newModel(len(x.pool))
	dedup.updateFrom(ids, nil)
	asSet := r.Intn(2) == 0
	dup := false
	if asSet {
		ids = append([]int32(nil), dedup.order...)
	} else {
		dup = len(ids) != dedup.len()
	}
	vals := make([]int32, len(ids))
	elems := make([]starlark.Value, len(ids))
	for i, id := range ids {
		vals[i] = int32(r.Intn(1000))
		elems[i] = x.key(id)
	}
	x.log("derived ops, operand of %d elements (set=%v)", len(ids), asSet)
	if x.kind == kDict {
		other := starlark.NewDict(0)
		om := newModel(len(x.pool))
		for i, id := range ids {
			other.SetKey(elems[i], starlark.MakeInt(int(vals[i])))
			om.set(id, vals[i])
		}
		oo, ov := snap(om)
		x.judgeColl(x.t.d.Union(other), m.union(oo, ov), "dict-union", false)
		// in place, through the method
		if x.viaMth {
			if _, err := x.t.call("update", other); err != nil {
				x.bad("return", "update(dict) failed: %v", err)
			}
			m.updateFrom(oo, ov)
		}
		return
	}
	operand := func() starlark.Iterator {
		if asSet {
			s := starlark.NewSet(0)
			for _, e := range elems {
				s.Insert(e)
			}
			return s.Iterate()
		}
		return starlark.NewList(append([]starlark.Value(nil), elems...)).Iterate()
	}
	with := func(f func(it starlark.Iterator)) {
		it := operand()
		defer it.Done()
		f(it)
	}
	s := x.t.s
	with(func(it starlark.Iterator) {
		v, err := s.Union(it)
		x.judgeErr(v, err, m.union(ids, nil), "set-union", dup)
	})
	with(func(it starlark.Iterator) {
		v, err := s.Intersection(it)
		x.judgeErr(v, err, m.intersection(ids), "set-intersection", dup)
	})
	with(func(it starlark.Iterator) {
		v, err := s.Difference(it)
		x.judgeErr(v, err, m.difference(ids), "set-difference", dup)
	})
	with(func(it starlark.Iterator) {
		v, err := s.SymmetricDifference(it)
		x.judgeErr(v, err, m.symmetricDifference(ids), "set-symmetric_difference", dup)
	})
	with(func(it starlark.Iterator) {
		b, err := s.IsSubset(it)
		if want := m.isSubset(ids); err != nil || b != want {
			x.derivedBad("set-issubset", dup, false, "IsSubset = %v, %v; model %v (live %d, operand %d)", b, err, want, m.len(), len(ids))
		}
	})
	with(func(it starlark.Iterator) {
		b, err := s.IsSuperset(it)
		if want := m.isSuperset(ids); err != nil || b != want {
			x.derivedBad("set-issuperset", dup, false, "IsSuperset = %v, %v; model %v", b, err, want)
		}
	})
	if x.viaMth {
		if _, err := x.t.call("update", starlark.NewList(elems)); err != nil {
			x.bad("return", "update(list) failed: %v", err)
		}
		m.updateFrom(ids, nil)
	}
	x.c.Count("r_derived_operations", 6)
}

func (x *rrun) derivedBad(opkey string, dup, orderOnly bool, format string, args ...any) {
	e := sexp{opkey: opkey, dup: dup}
	x.nderivedBad++ // the table itself still agrees with the model: the history goes on
	if x.nderivedBad > 6 {
		return
	}
	x.c.Violation(derivedKey(&e, orderOnly), fmt.Sprintf("%s step %d (Go API): %s", x.label, x.step, fmt.Sprintf(format, args...)),
		map[string]any{"history": x.label, "step": x.step})
}

func (x *rrun) judgeErr(v starlark.Value, err error, want *model, opkey string, dup bool) {
	if err != nil {
		x.derivedBad(opkey, dup, false, "failed: %v", err)
		return
	}
	x.judgeColl(v, want, opkey, dup)
}

func (x *rrun) judgeColl(v starlark.Value, want *model, opkey string, dup bool) {
	if kindOf(v) != x.kind {
		x.derivedBad(opkey, dup, false, "result is %s", v.Type())
		return
	}
	it := starlark.Iterate(v)
	ids, overrun := iterIDs(it, want.len()+1)
	if overrun || !idsEqual(ids, want.order) {
		at := 0
		for at < len(ids) && at < len(want.order) && ids[at] == want.order[at] {
			at++
		}
		x.derivedBad(opkey, dup, sameElems(ids, want.order), "result differs from the model at position %d (lengths %d / %d)", at, len(ids), len(want.order))
		return
	}
	if d, ok := v.(*starlark.Dict); ok {
		for i, item := range d.Items() {
			if n, isInt := intOf(item[1]); !isInt || n != want.val[want.order[i]] {
				x.derivedBad(opkey, dup, false, "value of entry %d is %v, model %d", i, item[1], want.val[want.order[i]])
				return
			}
		}
	}
	if err := starlark.VerifCheckTable(v); err != nil {
		x.derivedBad(opkey, dup, false, "VerifCheckTable(result): %v", err)
	}
	// aliasing: the result is a new collection; emptying it must not touch the receiver
	alias := v == x.t.value()
	switch c := v.(type) {
	case *starlark.Dict:
		c.Clear()
	case *starlark.Set:
		c.Clear()
	}
	if alias || x.t.length() != x.m.len() {
		x.nderivedBad++
		if x.nderivedBad <= 6 {
			x.c.Violation("C12 alias "+opkey, fmt.Sprintf("%s step %d (Go API): the result shares its table with the receiver (same object: %v; receiver len %d after clearing the result, model %d)", x.label, x.step, alias, x.t.length(), x.m.len()), nil)
		}
		x.nbad++ // the receiver is gone: end the history
	}
}

func (x *rrun) history(nops int) {
	n := len(x.pool)
	hi := n * (30 + x.r.Intn(45)) / 100
	lo := n * x.r.Intn(8) / 100
	filling := true
	fullEvery := 500
	tableEvery := 1000
	if x.dist == 0 || x.dist == 5 {
		tableEvery = 2500 // the duplicate-key check is quadratic in the chain length
	}
	derivedAt := map[int]bool{}
	for i := 0; i < 3; i++ {
		derivedAt[x.r.Intn(nops)] = true
	}
	maxLive := 0
	for x.step = 0; x.step < nops; x.step++ {
		live := x.m.len()
		if live > maxLive {
			maxLive = live
		}
		if filling && live >= hi {
			filling = false
			x.c.Count("r_phase_switches", 1)
		} else if !filling && live <= lo {
			filling = true
			hi = n * (25 + x.r.Intn(50)) / 100
			x.c.Count("r_phase_switches", 1)
			if x.r.Intn(3) == 0 {
				x.log("clear")
				x.m.clear()
				if err := x.t.clear(); err != nil {
					x.bad("return", "clear failed: %v", err)
				}
			}
		}
		p := x.r.Intn(100)
		switch {
		case p < 8:
			x.opLookup()
		case filling && p < 90, !filling && p < 16:
			x.opInsert()
		case filling && p < 97, !filling && p < 80:
			x.opDelete()
		default:
			x.opPop()
		}
		if got := x.t.length(); got != x.m.len() {
			x.bad("len", "Len() = %d, model %d", got, x.m.len())
		} else {
			x.orderCheck()
		}
		if x.nbad > 0 {
			return // the table and the model have diverged: later reports would only repeat it
		}
		if derivedAt[x.step] {
			x.derived()
		}
		if (x.step+1)%fullEvery == 0 || x.step == nops-1 {
			x.full((x.step+1)%tableEvery == 0 || x.step == nops-1)
		}
		if x.nbad > 0 {
			return // the table and the model have diverged: later reports would only repeat it
		}
	}
	x.c.Count("r_operations", nops)
	switch {
	case maxLive >= 3000:
		x.c.Cover("r_max_live_keys", ">=3000")
	case maxLive >= 1000:
		x.c.Cover("r_max_live_keys", "1000-2999")
	default:
		x.c.Cover("r_max_live_keys", "<1000")
	}
}

func runRandom(c *driver.Ctx) {
	nh := c.Pick(48, 1200)
	const nops = 10000
	th := &starlark.Thread{Name: "c12r"}
	for i := 0; i < nh; i++ {
		if !c.Take() {
			continue
		}
		r := c.Rand()
		x := &rrun{c: c, r: r, kind: i % 2, dist: (i / 2) % len(distName), viaMth: (i/12)%2 == 1}
		n := poolSize(x.dist)
		hr := rand.New(rand.NewSource(r.Int63()))
		for id := 0; id < n; id++ {
			h := distHash(x.dist, id, hr)
			x.pool = append(x.pool, &hkey{id: int32(id), h: h, name: fmt.Sprintf("R%d", id)})
			x.qpool = append(x.qpool, &hkey{id: int32(id), h: h, name: fmt.Sprintf("R%d", id)})
		}
		x.t = newTab(x.kind, r.Intn(2) == 0, th)
		x.m = newModel(n)
		api := "go-api"
		if x.viaMth {
			api = "methods"
		}
		x.label = fmt.Sprintf("random %s hashes=%s via=%s pool=%d", kindName[x.kind], distName[x.dist], api, n)
		c.Note("key=C12 random %s crash\n%s", kindName[x.kind], x.label)
		if p := sl.Safe(func() { x.history(nops) }); p != nil {
			c.Violation("C12 random "+kindName[x.kind]+" panic", fmt.Sprintf("%s step %d: panic %v at %s", x.label, x.step, p.Value, p.TopFrame()),
				map[string]any{"history": x.label, "step": x.step, "last_ops": x.opsLog, "stack": driver.Truncate(p.Stack, 4000)})
		}
		c.Eval(x.step)
		c.Distinct(fmt.Sprintf("r/%d", i))
		c.Cover("r_history_kinds", fmt.Sprintf("%s %s %s", kindName[x.kind], distName[x.dist], api))
		if c.Shard%3 == 2 && c.WantSample() && i%3 == 0 {
			tail := x.opsLog
			if len(tail) > 8 {
				tail = tail[len(tail)-8:]
			}
			c.Sample(map[string]any{"arm": "random", "history": x.label, "operations": x.step, "live_at_end": x.m.len(), "last_operations": tail})
		}
	}
}
