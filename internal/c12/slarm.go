package c12

import (
	"fmt"
	"strings"

	"go.starlark.net/starlark"
	"go.starlark.net/syntax"

	"verif/internal/driver"
	"verif/internal/sl"
)

// ---------------------------------------------------------------------------------------------
// Starlark-level arm, part 2: execution and judging.

var slOpts = &syntax.FileOptions{Set: true, TopLevelControl: true, GlobalReassign: true}

type slrun struct {
	c        *driver.Ctx
	g        *sgen
	uni      []*hkey
	fill     []*hkey
	probes   []starlark.Value // every key of the id space, for membership / lookup checks
	probeIDs []int32
	poisoned map[int]bool
	executed int
	nviews   int
	label    string
	nviol    int
}

func kindOf(v starlark.Value) int {
	switch v.(type) {
	case *starlark.Dict:
		return kDict
	case *starlark.Set:
		return kSet
	}
	return -1
}

func (p *slrun) id(v starlark.Value) int32 {
	switch v := v.(type) {
	case *hkey:
		return v.id
	case starlark.String:
		switch string(v) {
		case "zz":
			return idZZ
		case "yy":
			return idYY
		}
	}
	return -1
}

func valMatch(v starlark.Value, want int32) bool {
	if want == valNone {
		return v == starlark.None
	}
	n, ok := intOf(v)
	return ok && n == want
}

func (p *slrun) violate(e *sexp, key, format string, args ...any) {
	if e.coll || e.binds || e.opkey == "" || e.alias != "" {
		// the collection itself differs from the model: what follows in this sequence would only repeat it
		p.poisoned[e.seq] = true
	}
	p.nviol++
	witnessed[key]++
	if witnessed[key] > 3 {
		p.c.Violation(key, "", nil) // counted by the driver, no further witness
		return
	}
	msg := fmt.Sprintf(format, args...)
	src := p.g.seqSource(e.seq)
	p.c.Violation(key, fmt.Sprintf("%s: after `%s`: %s", p.label, e.line, msg),
		map[string]any{"program": src, "statement": e.line, "message": msg, "universe_hashes": hashesOf(p.uni), "filler_hashes": hashesOf(p.fill)})
}

// seqIDs lists the ids yielded by an iterable value (bounded).
func (p *slrun) seqIDs(v starlark.Value, limit int) ([]int32, bool) {
	it := starlark.Iterate(v)
	if it == nil {
		return nil, false
	}
	defer it.Done()
	var out []int32
	var x starlark.Value
	for it.Next(&x) {
		if len(out) > limit {
			return out, false
		}
		out = append(out, p.id(x))
	}
	return out, true
}

// matchColl compares a *Dict/*Set with an expected ordered content. It returns "" when equal,
// else the aspect that differs and a description.
func (p *slrun) matchColl(v starlark.Value, order, vals []int32, wantKind int) (aspect, msg string) {
	if kindOf(v) != wantKind {
		return "type", fmt.Sprintf("got %s, want %s", v.Type(), kindName[wantKind])
	}
	if n := starlark.Len(v); n != len(order) {
		ids, _ := p.seqIDs(v, len(order)+8)
		return "len", fmt.Sprintf("len = %d (iteration %s), model %d %s", n, fmtIDs(ids), len(order), fmtIDs(order))
	}
	ids, ok := p.seqIDs(v, len(order)+1)
	if !ok || !idsEqual(ids, order) {
		return "order", fmt.Sprintf("iteration order %s, model %s", fmtIDs(ids), fmtIDs(order))
	}
	want := map[int32]int32{}
	for i, id := range order {
		want[id] = vals[i]
	}
	for pi, k := range p.probes {
		id := p.probeIDs[pi]
		wv, whas := want[id]
		switch c := v.(type) {
		case *starlark.Dict:
			got, found, err := c.Get(k)
			if err != nil || found != whas {
				return "membership", fmt.Sprintf("key id %d: found=%v err=%v, model %v", id, found, err, whas)
			}
			if found && !valMatch(got, wv) {
				return "lookup", fmt.Sprintf("key id %d: value %v, model %s", id, got, vsrc(wv))
			}
		case *starlark.Set:
			found, err := c.Has(k)
			if err != nil || found != whas {
				return "membership", fmt.Sprintf("element id %d: found=%v err=%v, model %v", id, found, err, whas)
			}
		}
	}
	if d, ok := v.(*starlark.Dict); ok {
		for i, it := range d.Items() {
			if p.id(it[0]) != order[i] || !valMatch(it[1], vals[i]) {
				return "order", fmt.Sprintf("Items()[%d] = %v, model (id %d, %s)", i, it, order[i], vsrc(vals[i]))
			}
		}
	}
	if err := starlark.VerifCheckTable(v); err != nil {
		return "table-invariant", "VerifCheckTable: " + err.Error()
	}
	return "", ""
}

// matchRes compares a result value. sameElems reports, for collection results, that only the
// order differs.
func (p *slrun) matchRes(v starlark.Value, e *rexp) (ok bool, sameEl bool, msg string) {
	switch e.t {
	case '-':
		return true, false, ""
	case 'n':
		return v == starlark.None, false, fmt.Sprintf("got %v, want None", v)
	case 'i':
		return valMatch(v, e.i), false, fmt.Sprintf("got %v, want %s", v, vsrc(e.i))
	case 'b':
		b, isb := v.(starlark.Bool)
		return isb && bool(b) == e.b, false, fmt.Sprintf("got %v, want %v", v, e.b)
	case 'k':
		return p.id(v) == e.i, false, fmt.Sprintf("got %v, want key id %d", v, e.i)
	case 'p':
		t, ist := v.(starlark.Tuple)
		return ist && len(t) == 2 && p.id(t[0]) == e.i && valMatch(t[1], e.vals[0]), false,
			fmt.Sprintf("got %v, want (key id %d, %s)", v, e.i, vsrc(e.vals[0]))
	case 'K':
		if _, isl := v.(*starlark.List); !isl {
			return false, false, fmt.Sprintf("got %s, want list", v.Type())
		}
		ids, _ := p.seqIDs(v, len(e.ids)+8)
		return idsEqual(ids, e.ids), sameElems(ids, e.ids), fmt.Sprintf("got keys %s, want %s", fmtIDs(ids), fmtIDs(e.ids))
	case 'V':
		l, isl := v.(*starlark.List)
		if !isl || l.Len() != len(e.vals) {
			return false, false, fmt.Sprintf("got %v, want %d values", v, len(e.vals))
		}
		for i := 0; i < l.Len(); i++ {
			if !valMatch(l.Index(i), e.vals[i]) {
				return false, false, fmt.Sprintf("got values %v, want %v", v, e.vals)
			}
		}
		return true, false, ""
	case 'P':
		l, isl := v.(*starlark.List)
		if !isl || l.Len() != len(e.ids) {
			return false, false, fmt.Sprintf("got %v, want %d pairs %s", v, len(e.ids), fmtIDs(e.ids))
		}
		for i := 0; i < l.Len(); i++ {
			t, ist := l.Index(i).(starlark.Tuple)
			if !ist || len(t) != 2 || p.id(t[0]) != e.ids[i] || !valMatch(t[1], e.vals[i]) {
				return false, false, fmt.Sprintf("got pairs %v, want ids %s values %v", v, fmtIDs(e.ids), e.vals)
			}
		}
		return true, false, ""
	case 'D', 'S':
		k := kDict
		if e.t == 'S' {
			k = kSet
		}
		vals := e.vals
		if vals == nil {
			vals = make([]int32, len(e.ids))
		}
		aspect, m := p.matchColl(v, e.ids, vals, k)
		if aspect == "" {
			return true, false, ""
		}
		same := false
		if aspect == "order" {
			ids, _ := p.seqIDs(v, len(e.ids)+8)
			same = sameElems(ids, e.ids)
		}
		return false, same, aspect + ": " + m
	}
	return false, false, "harness: unknown expectation"
}

func (p *slrun) expectation(args starlark.Tuple) *sexp {
	if len(args) < 2 {
		return nil
	}
	i, ok := intOf(args[0])
	if !ok || int(i) < 0 || int(i) >= len(p.g.exps) {
		return nil
	}
	p.executed++
	return &p.g.exps[i]
}

// derivedKey names a wrong derived collection: "order" when the elements are right but their order
// is not, "wrong" otherwise. symmetric_difference with an operand that repeats elements gets its own
// key whatever the symptom (the repeated element toggles membership: one root cause).
func derivedKey(e *sexp, orderOnly bool) string {
	if e.opkey == "set-symmetric_difference" && e.dup {
		return "C12 wrong set-symmetric_difference dup-iterable"
	}
	if orderOnly {
		return "C12 order " + e.opkey
	}
	return "C12 wrong " + e.opkey
}

// witnessed counts the reports per key in this process: the driver keeps three witnesses per key
// and shard, so later ones are only counted.
var witnessed = map[string]int{}

// errAbandon ends a sequence whose collection no longer agrees with the model: running the
// remaining statements on a possibly corrupted table proves nothing and may never return.
var errAbandon = fmt.Errorf("c12: sequence abandoned after a violation")

// check(i, coll, result, keyview[, itemview])
func (p *slrun) check(th *starlark.Thread, b *starlark.Builtin, args starlark.Tuple, kwargs []starlark.Tuple) (starlark.Value, error) {
	e := p.expectation(args)
	if e == nil {
		return nil, fmt.Errorf("check: bad call")
	}
	if p.poisoned[e.seq] {
		return nil, errAbandon
	}
	kname := kindName[p.g.kind]
	if len(args) > 2 {
		if ok, same, msg := p.matchRes(args[2], &e.res); !ok {
			if e.alias != "" {
				p.violate(e, "C12 alias "+e.alias, "%s", msg)
			} else if e.opkey != "" {
				p.violate(e, derivedKey(e, same), "%s", msg)
			} else {
				p.violate(e, "C12 starlark "+kname+" return", "%s", msg)
			}
			return p.after(e)
		}
	}
	if e.coll {
		if aspect, msg := p.matchColl(args[1], e.order, e.vals, p.g.kind); aspect != "" {
			if e.alias != "" {
				p.violate(e, "C12 alias "+e.alias, "a collection changed through another name (or did not change through its own): %s: %s", aspect, msg)
			} else {
				p.violate(e, "C12 starlark "+kname+" "+aspect, "%s", msg)
			}
			return p.after(e)
		}
	}
	return p.after(e)
}

// distinct(i, z, x, y): a derived collection must be a new object, not one of its operands.
func (p *slrun) distinct(th *starlark.Thread, b *starlark.Builtin, args starlark.Tuple, kwargs []starlark.Tuple) (starlark.Value, error) {
	e := p.expectation(args)
	if e == nil {
		return nil, fmt.Errorf("distinct: bad call")
	}
	if p.poisoned[e.seq] {
		return nil, errAbandon
	}
	for _, o := range args[2:] {
		if args[1] == o {
			p.violate(e, "C12 alias "+e.alias, "the result is the very object of an operand, not a new collection")
			p.poisoned[e.seq] = true
			return nil, errAbandon
		}
	}
	return starlark.None, nil
}

func (p *slrun) freeze(th *starlark.Thread, b *starlark.Builtin, args starlark.Tuple, kwargs []starlark.Tuple) (starlark.Value, error) {
	for _, a := range args {
		a.Freeze()
	}
	return starlark.None, nil
}

// succeeds(i, fn): fn() must not fail (a derived collection stays mutable when its operands are frozen).
func (p *slrun) succeeds(th *starlark.Thread, b *starlark.Builtin, args starlark.Tuple, kwargs []starlark.Tuple) (starlark.Value, error) {
	e := p.expectation(args)
	if e == nil {
		return nil, fmt.Errorf("succeeds: bad call")
	}
	if p.poisoned[e.seq] {
		return nil, errAbandon
	}
	if _, err := starlark.Call(th, args[1], nil, nil); err != nil {
		p.violate(e, "C12 alias "+e.alias, "mutation of the derived collection failed after its operands were frozen: %v", err)
		p.poisoned[e.seq] = true
		return nil, errAbandon
	}
	return starlark.None, nil
}

// views(i, keyview[, itemview]): the collection as seen by Starlark-level iteration.
func (p *slrun) views(th *starlark.Thread, b *starlark.Builtin, args starlark.Tuple, kwargs []starlark.Tuple) (starlark.Value, error) {
	if len(args) < 2 {
		return nil, fmt.Errorf("views: bad call")
	}
	i, ok := intOf(args[0])
	if !ok || int(i) < 0 || int(i) >= len(p.g.exps) {
		return nil, fmt.Errorf("views: bad call")
	}
	e := &p.g.exps[i]
	p.nviews++
	if p.poisoned[e.seq] {
		return nil, errAbandon
	}
	kname := kindName[p.g.kind]
	ids, _ := p.seqIDs(args[1], len(e.order)+8)
	if !idsEqual(ids, e.order) {
		key := "C12 starlark " + kname + " order"
		if e.alias != "" {
			key = "C12 alias " + e.alias
		}
		p.violate(e, key, "Starlark-level iteration %s, model %s", fmtIDs(ids), fmtIDs(e.order))
		return p.after(e)
	}
	if len(args) > 2 { // Starlark-level view of the items
		pe := rexp{t: 'P', ids: e.order, vals: e.vals}
		if ok, _, msg := p.matchRes(args[2], &pe); !ok {
			p.violate(e, "C12 starlark "+kname+" order", "Starlark-level items: %s", msg)
		}
	}
	return p.after(e)
}

// fails(i, coll, fn): fn() must fail with the expected message and leave coll unchanged.
func (p *slrun) fails(th *starlark.Thread, b *starlark.Builtin, args starlark.Tuple, kwargs []starlark.Tuple) (starlark.Value, error) {
	e := p.expectation(args)
	if e == nil || len(args) != 3 {
		return nil, fmt.Errorf("fails: bad call")
	}
	if p.poisoned[e.seq] {
		return nil, errAbandon
	}
	kname := kindName[p.g.kind]
	v, err := starlark.Call(th, args[2], nil, nil)
	if err == nil {
		p.violate(e, "C12 starlark "+kname+" return", "expected failure (%s), got %v", e.errSub, v)
		return p.after(e)
	}
	if !strings.Contains(err.Error(), e.errSub) {
		p.violate(e, "C12 starlark "+kname+" return", "expected failure containing %q, got %v", e.errSub, err)
		return p.after(e)
	}
	if aspect, msg := p.matchColl(args[1], e.order, e.vals, p.g.kind); aspect != "" {
		p.violate(e, "C12 starlark "+kname+" "+aspect, "after failed call: %s: %s", aspect, msg)
	}
	return p.after(e)
}

// after ends a check: the sequence goes on unless it has just been abandoned.
func (p *slrun) after(e *sexp) (starlark.Value, error) {
	if p.poisoned[e.seq] {
		return nil, errAbandon
	}
	return starlark.None, nil
}

// run(seq, fn) calls a sequence function and turns an unexpected failure into a violation.
func (p *slrun) run(th *starlark.Thread, b *starlark.Builtin, args starlark.Tuple, kwargs []starlark.Tuple) (starlark.Value, error) {
	if len(args) != 2 {
		return nil, fmt.Errorf("run: bad call")
	}
	seq, _ := intOf(args[0])
	var err error
	var pn *sl.Panic
	pn = sl.Safe(func() { _, err = starlark.Call(th, args[1], nil, nil) })
	e := &sexp{seq: int(seq), line: "(sequence)"}
	if pn != nil {
		p.violate(e, "C12 starlark "+kindName[p.g.kind]+" panic", "panic %v at %s", pn.Value, pn.TopFrame())
	} else if err != nil && !p.poisoned[int(seq)] {
		p.violate(e, "C12 starlark "+kindName[p.g.kind]+" unexpected-error", "%s", driver.Truncate(sl.ErrText(err), 600))
	}
	return starlark.None, nil
}

// exec runs the generated file.
func (p *slrun) exec() {
	p.poisoned = map[int]bool{}
	env := starlark.StringDict{
		"check": starlark.NewBuiltin("check", p.check),
		"fails": starlark.NewBuiltin("fails", p.fails),
		"views": starlark.NewBuiltin("views", p.views),
		"run":   starlark.NewBuiltin("run", p.run),
	}
	for i, k := range p.uni {
		env[fmt.Sprintf("k%d", i)] = k
	}
	p.probes = p.probes[:0]
	for _, k := range p.uni {
		p.probes = append(p.probes, k)
	}
	p.probes = append(p.probes, starlark.String("zz"), starlark.String("yy"))
	kx := &hkey{id: idKX, h: p.uni[0].h, name: "KX"}
	env["kx"] = kx
	env["distinct"] = starlark.NewBuiltin("distinct", p.distinct)
	env["freeze"] = starlark.NewBuiltin("freeze", p.freeze)
	env["succeeds"] = starlark.NewBuiltin("succeeds", p.succeeds)
	var pairs, keys []starlark.Value
	for j, k := range p.fill {
		p.probes = append(p.probes, k)
		pairs = append(pairs, starlark.Tuple{k, starlark.MakeInt(9000 + j)})
		keys = append(keys, k)
	}
	p.probes = append(p.probes, kx)
	p.probeIDs = p.probeIDs[:0]
	for _, k := range p.probes {
		p.probeIDs = append(p.probeIDs, p.id(k))
	}
	env["PRE"] = starlark.NewList(pairs)
	env["PREK"] = starlark.NewList(keys)
	th := &starlark.Thread{Name: "c12s"}
	src := p.g.b.String()
	_, err, pn := sl.Exec(slOpts, th, "c12.star", src, env, 0)
	e := &sexp{seq: 0, line: "(file)"}
	switch {
	case pn != nil:
		p.violate(e, "C12 starlark "+kindName[p.g.kind]+" panic", "panic %v at %s", pn.Value, pn.TopFrame())
	case err != nil:
		// every sequence runs under run(): an error here is a defect of the generator
		p.c.Inconclusive("C12 harness: generated program failed: %s", driver.Truncate(sl.ErrText(err), 300))
	case p.executed != len(p.g.exps) && p.nviol == 0:
		p.c.Inconclusive("C12 harness: %d of %d checks executed in %s", p.executed, len(p.g.exps), p.label)
	}
	p.c.Eval(p.executed)
	p.c.Count("s_checks_executed", p.executed)
	p.c.Count("s_starlark_level_views_compared", p.nviews)
	p.c.Count("s_sequences_run", p.g.seq+1)
	if len(p.poisoned) > 0 {
		p.c.Count("s_sequences_abandoned_after_violation", len(p.poisoned))
	}
}

func newSlrun(c *driver.Ctx, g *sgen, uniVariant int, nfill int, mode int, label string) *slrun {
	p := &slrun{c: c, g: g, uni: universe(uniVariant), label: label}
	for j, h := range fillerHashes(mode, uniVariant, nfill, nfill) {
		p.fill = append(p.fill, &hkey{id: int32(idFill0 + j), h: h, name: fmt.Sprintf("F%d", j)})
	}
	return p
}

// ---- part A: every sequence over the 12-operation alphabet, in Starlark spellings -------------

type sstart struct {
	n    int
	mode int
}

var sstarts = []sstart{{0, modeNone}, {8, modeChain}, {13, modeChain}, {12, modeSpread}, {13, modeMixed}}

func (s sstart) String() string {
	if s.n == 0 {
		return "empty"
	}
	return fmt.Sprintf("%s:%d", modeName[s.mode], s.n)
}

func abstractStep(g *sgen, m *model, op int) {
	switch {
	case op < 5:
		g.insertStep("x", m, int32(op))
	case op < 10:
		g.deleteStep("x", m, int32(op-5))
	case op == opPop:
		g.popStep("x", m)
	default:
		g.clearStep("x", m)
	}
}

func runStarlarkA(c *driver.Ctx) {
	L := c.Pick(4, 5)
	ext := 1
	for i := 2; i < L; i++ {
		ext *= nOps
	}
	for kind := 0; kind < 2; kind++ {
		for si, st := range sstarts {
			for o1 := 0; o1 < nOps; o1++ {
				for o2 := 0; o2 < nOps; o2++ {
					if !c.Take() {
						continue
					}
					uni := (kind + si + o1) % 2
					label := fmt.Sprintf("starlark %s uni=%d start=%s", kindName[kind], uni, st)
					c.Note("key=C12 starlark %s crash\n%s first ops %s; %s", kindName[kind], label, opName(o1), opName(o2))
					g := newSgen(kind, c.Rand())
					for e := 0; e < ext; e++ {
						g.begin()
						pre := "PRE"
						if kind == kSet {
							pre = "PREK"
						}
						m := g.startStmt("x", pre, st.n)
						abstractStep(g, m, o1)
						abstractStep(g, m, o2)
						for i, d := 2, e; i < L; i, d = i+1, d/nOps {
							abstractStep(g, m, d%nOps)
						}
						g.end()
					}
					p := newSlrun(c, g, uni, st.n, st.mode, label)
					p.exec()
					c.Count("s_exhaustive_sequences", ext)
					c.Distinct(fmt.Sprintf("sA/%d/%d/%d/%d", kind, si, o1, o2))
					c.Cover("s_start", kindName[kind]+" "+st.String())
					if c.Shard%3 == 1 && c.WantSample() && kind+si == int(c.Case()%5) && o1 < 5 {
						c.Sample(map[string]any{"arm": "starlark-exhaustive", "config": label, "one_sequence": g.seqSource(ext / 2)})
					}
				}
			}
		}
	}
}

// ---- part B: derived operations over all pairs of ordered subsets ------------------------------

// orderedSubsets lists every ordered subset (arrangement without repetition) of {0..n-1}.
func orderedSubsets(n int) [][]int32 {
	var out [][]int32
	var rec func(cur []int32, used int)
	rec = func(cur []int32, used int) {
		out = append(out, append([]int32(nil), cur...))
		for i := 0; i < n; i++ {
			if used&(1<<i) == 0 {
				rec(append(cur, int32(i)), used|1<<i)
			}
		}
	}
	rec(nil, 0)
	return out
}

func runStarlarkB(c *driver.Ctx) {
	subs := orderedSubsets(5) // 326
	stride := c.Pick(16, 1)
	for kind := 0; kind < 2; kind++ {
		for ai, A := range subs {
			if !c.Take() {
				continue
			}
			r := c.Rand()
			uni := r.Intn(2)
			label := fmt.Sprintf("starlark %s uni=%d derived", kindName[kind], uni)
			c.Note("key=C12 starlark %s crash\n%s left operand order %v", kindName[kind], label, A)
			g := newSgen(kind, r)
			npairs := 0
			for bi := r.Intn(stride); bi < len(subs); bi += stride {
				B := subs[bi]
				g.begin()
				ma := g.buildOrdered("a", A)
				mb := g.buildOrdered("b", B)
				if !idsEqual(ma.order, A) || !idsEqual(mb.order, B) {
					c.Inconclusive("C12 harness: buildOrdered produced %v/%v for %v/%v", ma.order, mb.order, A, B)
				}
				if kind == kSet {
					g.allDerivedSet("a", ma, "b", mb)
				} else {
					allDerivedDict(g, ma, mb)
				}
				g.end()
				npairs++
			}
			p := newSlrun(c, g, uni, 0, modeNone, label)
			p.exec()
			c.Count("s_operand_pairs", npairs)
			c.Distinct(fmt.Sprintf("sB/%d/%d", kind, ai))
			if c.Shard%3 == 1 && c.WantSample() && len(A) == 3 && ai%9 == 0 {
				c.Sample(map[string]any{"arm": "starlark-derived", "config": label, "one_sequence": g.seqSource(g.seq / 2)})
			}
		}
	}
	if stride == 1 {
		c.Cover("s_derived_pairs", "all 326x326 ordered-subset pairs per kind")
	} else {
		c.Cover("s_derived_pairs", fmt.Sprintf("every %dth right operand per left operand", stride))
	}
}

// allDerivedDict emits every derived dict form of a with operand b.
func allDerivedDict(g *sgen, ma, mb *model) {
	bo, bv := snap(mb)
	u := rDict(ma.union(bo, bv))
	g.checkValue("a | b", u, "dict-union", false)
	g.checkValue("a | dict(b.items())", u, "dict-union", false)
	g.checkValue("dict(a)", rDict(ma), "dict-constructor", false)
	g.checkValue("dict(a.items())", rDict(ma), "dict-constructor", false)
	g.checkValue("{k_: a[k_] for k_ in a}", rDict(ma), "dict-comprehension", false)
	eq := ma.len() == mb.len()
	for _, id := range mb.order {
		v, ok := ma.get(id)
		eq = eq && ok && v == mb.val[id]
	}
	g.checkValue("a == b", rBool(eq), "dict-compare", false)
	g.checkValue("a != b", rBool(!eq), "dict-compare", false)
	for i, form := range []string{"t |= b", "t.update(b)", "t.update(b.items())", "t.update(b, zz=-3)", "t = dict(t.items() + b.items())"} {
		g.stmt("t = dict(a)")
		g.stmt("%s", form)
		t := ma.clone()
		t.updateFrom(bo, bv)
		key := "dict-update"
		if i == 0 {
			key = "dict-union-inplace"
		}
		if i == 3 {
			t.set(idZZ, -3)
		}
		if i == 4 {
			key = "dict-constructor"
		}
		g.checkValue("t", rDict(t), key, false)
	}
	// keyword arguments go after the positional pairs, in call order
	g.stmt("t = dict(a, yy=-1, zz=-2)")
	t := ma.clone()
	t.set(idYY, -1)
	t.set(idZZ, -2)
	g.checkValue("t", rDict(t), "dict-constructor", false)
	// in-place union leaves the left operand's own keys where they are
	g.stmt("t = dict(b)")
	g.stmt("t |= a")
	t = mb.clone()
	ao, av := snap(ma)
	t.updateFrom(ao, av)
	g.checkValue("t", rDict(t), "dict-union-inplace", false)
}

// ---- part C: random mixed histories over two variables -----------------------------------------

func runStarlarkC(c *driver.Ctx) {
	ncases := c.Pick(160, 1600)
	perCase := 40
	for i := 0; i < ncases; i++ {
		if !c.Take() {
			continue
		}
		r := c.Rand()
		kind := i % 2
		uni := r.Intn(2)
		st := sstarts[r.Intn(len(sstarts))]
		label := fmt.Sprintf("starlark %s uni=%d start=%s mixed", kindName[kind], uni, st)
		c.Note("key=C12 starlark %s crash\n%s", kindName[kind], label)
		g := newSgen(kind, r)
		for s := 0; s < perCase; s++ {
			g.begin()
			pre := "PRE"
			if kind == kSet {
				pre = "PREK"
			}
			vars := [2]string{"a", "b"}
			ms := [2]*model{}
			ms[0] = g.startStmt("a", pre, []int{0, st.n}[r.Intn(2)])
			ms[1] = g.startStmt("b", pre, []int{0, 0, st.n}[r.Intn(3)])
			n := 3 + r.Intn(10)
			for j := 0; j < n; j++ {
				xi := r.Intn(2)
				yi := r.Intn(2) // may alias x
				x, m := vars[xi], ms[xi]
				y, my := vars[yi], ms[yi]
				switch k := r.Intn(20); {
				case k < 5:
					g.insertStep(x, m, int32(r.Intn(5)))
				case k < 8:
					g.deleteStep(x, m, int32(r.Intn(5)))
				case k < 10:
					g.popStep(x, m)
				case k == 10:
					if r.Intn(3) == 0 {
						g.clearStep(x, m)
					} else {
						g.readStep(x, m)
					}
				case k < 13:
					g.readStep(x, m)
				case k < 17:
					if kind == kSet {
						g.derivedSetStep(x, m, y, my)
					} else {
						g.derivedDictStep(x, m, y, my)
					}
				default:
					if kind == kSet {
						g.bulkSetStep(x, m, y, my)
					} else {
						g.bulkDictStep(x, m, y, my)
					}
				}
			}
			g.end()
		}
		p := newSlrun(c, g, uni, st.n, st.mode, label)
		p.exec()
		c.Distinct(fmt.Sprintf("sC/%d", i))
		if c.Shard%3 == 1 && c.WantSample() && i%5 == 0 {
			c.Sample(map[string]any{"arm": "starlark-mixed", "config": label, "one_sequence": g.seqSource(1)})
		}
	}
}
