package c10

import (
	"math"
	"math/big"
	"math/rand"
	"strconv"
)

// boundary bases: 0, ±2^31, ±2^32, ±2^53, ±2^63, ±2^64
var boundaryBits = []uint{31, 32, 53, 63, 64}

type intOp struct {
	v     *big.Int
	class string
}

func randMag(r *rand.Rand, bits int) *big.Int {
	if bits <= 0 {
		return new(big.Int)
	}
	z := new(big.Int)
	for z.BitLen() < bits {
		z.Lsh(z, 32)
		z.Or(z, big.NewInt(int64(r.Uint32())))
	}
	z.Rsh(z, uint(z.BitLen()-bits))
	// force exact bit length
	z.SetBit(z, bits-1, 1)
	return z
}

func randSign(r *rand.Rand, z *big.Int) *big.Int {
	if r.Intn(2) == 0 {
		return z.Neg(z)
	}
	return z
}

// genInt draws an integer operand.
func genInt(r *rand.Rand) intOp {
	p := r.Intn(100)
	switch {
	case p < 45:
		d := int64(r.Intn(7) - 3)
		k := r.Intn(len(boundaryBits)*2 + 1)
		if k == 0 {
			return intOp{bi(d), "near-0"}
		}
		bits := boundaryBits[(k-1)/2]
		b := pow2(bits)
		sign := "+"
		if (k-1)%2 == 1 {
			b.Neg(b)
			sign = "-"
		}
		return intOp{b.Add(b, bi(d)), "near" + sign + "2^" + strconv.Itoa(int(bits))}
	case p < 55:
		return intOp{bi(int64(r.Intn(2001) - 1000)), "small"}
	case p < 63:
		return intOp{bi(int64(int32(r.Uint32()))), "int32"}
	case p < 73:
		return intOp{randSign(r, randMag(r, 1+r.Intn(65))), "rand<=2^65"}
	case p < 93:
		return intOp{randSign(r, randMag(r, 1+r.Intn(200))), "rand<=2^200"}
	case p < 98:
		z := pow2(uint(1 + r.Intn(200)))
		z.Add(z, bi(int64(r.Intn(3)-1)))
		return intOp{randSign(r, z), "2^k±1"}
	default:
		// neighbourhood of the largest finite float: 2^1024 - 2^970 (max), 2^1024 - 2^969 (tie), 2^1024, 2^1023
		var z *big.Int
		switch r.Intn(4) {
		case 0:
			z = new(big.Int).Sub(pow2(1024), pow2(970))
		case 1:
			z = new(big.Int).Sub(pow2(1024), pow2(969))
		case 2:
			z = pow2(1024)
		default:
			z = pow2(1023)
		}
		z.Add(z, bi(int64(r.Intn(3)-1)))
		return intOp{randSign(r, z), "near-maxfloat"}
	}
}

// genInt64ish draws an integer biased to the int64/int32 boundaries (range/enumerate parameters).
func genParam(r *rand.Rand) *big.Int {
	p := r.Intn(100)
	switch {
	case p < 40:
		return bi(int64(r.Intn(41) - 20))
	case p < 50:
		return bi(int64(r.Intn(2001) - 1000))
	case p < 85:
		d := int64(r.Intn(9) - 4)
		bits := []uint{31, 32, 40, 53, 62, 63, 64}[r.Intn(7)]
		b := pow2(bits)
		if r.Intn(2) == 0 {
			b.Neg(b)
		}
		return b.Add(b, bi(d))
	case p < 95:
		return randSign(r, randMag(r, 1+r.Intn(63)))
	default:
		return randSign(r, randMag(r, 1+r.Intn(80)))
	}
}

type floatOp struct {
	v     float64
	class string
}

var specialFloats = []float64{
	0, math.Copysign(0, -1), math.Inf(1), math.Inf(-1), math.NaN(),
	math.SmallestNonzeroFloat64, -math.SmallestNonzeroFloat64,
	math.Float64frombits(0x000fffffffffffff), -math.Float64frombits(0x000fffffffffffff), // largest subnormal
	math.Float64frombits(0x0010000000000000), -math.Float64frombits(0x0010000000000000), // smallest normal
	math.MaxFloat64, -math.MaxFloat64, 1e308, -1e308,
	1 << 53, 1<<53 + 2, 1<<53 - 1, -(1 << 53), -(1<<53 + 2), -(1<<53 - 1),
	0.5, -0.5, 1.5, -1.5, 2.5, -2.5, 0.1, -0.1, 1e-300, -1e-300,
}

func genFloat(r *rand.Rand) floatOp {
	p := r.Intn(100)
	switch {
	case p < 18:
		f := specialFloats[r.Intn(len(specialFloats))]
		switch {
		case f == 0:
			return floatOp{f, "zero"}
		case math.IsNaN(f):
			return floatOp{f, "nan"}
		case math.IsInf(f, 0):
			return floatOp{f, "inf"}
		case math.Abs(f) < 2.3e-308:
			return floatOp{f, "subnormal"}
		}
		return floatOp{f, "special"}
	case p < 30:
		// k + 0.5
		var k float64
		switch r.Intn(3) {
		case 0:
			k = float64(r.Intn(41) - 20)
		case 1:
			k = float64(int64(r.Intn(1<<31))) * float64(r.Intn(3)-1)
		default:
			k = math.Ldexp(1, 10+r.Intn(42)) * float64(r.Intn(2)*2-1)
		}
		return floatOp{k + 0.5, "k+0.5"}
	case p < 55:
		// nextafter neighbours of integers near the boundaries, up to 2^64
		bits := []uint{0, 31, 32, 52, 53, 62, 63, 64}[r.Intn(8)]
		var b float64
		if bits > 0 {
			b = math.Ldexp(1, int(bits))
		}
		b += float64(r.Intn(7) - 3)
		if r.Intn(2) == 0 {
			b = -b
		}
		switch r.Intn(3) {
		case 0:
			return floatOp{b, "int-valued-boundary"}
		case 1:
			return floatOp{math.Nextafter(b, math.Inf(1)), "nextafter-up"}
		default:
			return floatOp{math.Nextafter(b, math.Inf(-1)), "nextafter-down"}
		}
	case p < 70:
		// exactly the float nearest a generated integer
		f, ok := intToFloat(genInt(r).v)
		if !ok {
			f = math.MaxFloat64
		}
		return floatOp{f, "nearest-of-int"}
	case p < 82:
		return floatOp{(r.Float64()*2 - 1) * math.Ldexp(1, r.Intn(70)-6), "rand-fraction"}
	default:
		f := math.Float64frombits(r.Uint64())
		switch {
		case math.IsNaN(f):
			return floatOp{f, "nan"}
		case math.IsInf(f, 0):
			return floatOp{f, "inf"}
		}
		return floatOp{f, "rand-bits"}
	}
}

// ---- rendering of operands as Starlark source ----

// intLiteral renders a non-negative magnitude as a literal in a random base/prefix case,
// possibly with leading zeros after the prefix. bigOctBinOK=false avoids octal/binary
// literals of 64 or more bits (the scanner rejects them: that is a C14 matter).
func intLiteral(r *rand.Rand, mag *big.Int, allowBigOctBin bool) (lit string, base int) {
	k := r.Intn(10)
	small := mag.BitLen() <= 63
	switch {
	case k < 4:
		return fmtBase(mag, 10, false), 10
	case k < 7:
		p := "0x"
		if r.Intn(3) == 0 {
			p = "0X"
		}
		z := ""
		if r.Intn(4) == 0 {
			z = "000"[:r.Intn(3)+1]
		}
		return p + z + fmtBase(mag, 16, r.Intn(2) == 0), 16
	case k < 9 && (small || allowBigOctBin):
		p := "0o"
		if r.Intn(3) == 0 {
			p = "0O"
		}
		z := ""
		if r.Intn(4) == 0 {
			z = "0"
		}
		return p + z + fmtBase(mag, 8, false), 8
	case small || allowBigOctBin:
		p := "0b"
		if r.Intn(3) == 0 {
			p = "0B"
		}
		z := ""
		if r.Intn(4) == 0 {
			z = "00"
		}
		return p + z + fmtBase(mag, 2, false), 2
	}
	return fmtBase(mag, 10, false), 10
}

// intSrc renders a (possibly negative) integer as a source expression.
func intSrc(r *rand.Rand, x *big.Int) string {
	lit, _ := intLiteral(r, new(big.Int).Abs(x), false)
	if x.Sign() < 0 {
		return "(-" + lit + ")"
	}
	return lit
}

// floatSrc renders a float as a source expression (always a float literal for finite values).
func floatSrc(f float64) string {
	switch {
	case math.IsNaN(f):
		return `float("nan")`
	case math.IsInf(f, 1):
		return `float("+inf")`
	case math.IsInf(f, -1):
		return `float("-inf")`
	}
	s := strconv.FormatFloat(math.Abs(f), 'e', -1, 64)
	if math.Signbit(f) {
		return "(-" + s + ")"
	}
	return s
}
