package c10

import (
	"fmt"
	"math/big"
	"math/rand"
	"strings"

	"go.starlark.net/starlark"
	"go.starlark.net/syntax"
)

// genSeq builds a small sequence value and its elements rendered as strings.
func genSeq(r *rand.Rand, th *starlark.Thread) (v starlark.Value, elems []string, kind string) {
	n := r.Intn(5)
	switch r.Intn(6) {
	case 5:
		// an iterable that has no Len method at all: string.codepoints() (string.elems() has one)
		s := "wxyz"[:n]
		m, _ := starlark.String(s).Attr("codepoints")
		it, _ := starlark.Call(th, m, nil, nil)
		for i := 0; i < len(s); i++ {
			elems = append(elems, fmt.Sprintf("%q", s[i:i+1]))
		}
		return it, elems, "string.codepoints"
	case 0:
		var l []starlark.Value
		for i := 0; i < n; i++ {
			l = append(l, starlark.MakeInt(i*7))
			elems = append(elems, fmt.Sprint(i*7))
		}
		return starlark.NewList(l), elems, "list"
	case 1:
		var l starlark.Tuple
		for i := 0; i < n; i++ {
			s := string(rune('a' + i))
			l = append(l, starlark.String(s))
			elems = append(elems, fmt.Sprintf("%q", s))
		}
		return l, elems, "tuple"
	case 2:
		// range as the iterable
		rv, _ := starlark.Call(th, starlark.Universe["range"], starlark.Tuple{starlark.MakeInt(10), starlark.MakeInt(10 + n)}, nil)
		for i := 0; i < n; i++ {
			elems = append(elems, fmt.Sprint(10+i))
		}
		return rv, elems, "range"
	case 3:
		d := starlark.NewDict(n)
		for i := 0; i < n; i++ {
			d.SetKey(starlark.MakeInt(100+i), starlark.None)
			elems = append(elems, fmt.Sprint(100+i))
		}
		return d, elems, "dict"
	default:
		// an iterable of unknown length: string.elems()
		s := "wxyz"[:n%5]
		if n > 4 {
			s = "wxyz"
		}
		m, _ := starlark.String(s).Attr("elems")
		it, _ := starlark.Call(th, m, nil, nil)
		for i := 0; i < len(s); i++ {
			elems = append(elems, fmt.Sprintf("%q", s[i:i+1]))
		}
		return it, elems, "string.elems"
	}
}

func genStart(r *rand.Rand) *big.Int {
	switch p := r.Intn(100); {
	case p < 25:
		return bi(int64(r.Intn(21) - 10))
	case p < 60:
		// around the int64 limits
		b := new(big.Int).Set(maxI64)
		if r.Intn(2) == 0 {
			b.Set(minI64)
		}
		return b.Add(b, bi(int64(r.Intn(9)-4)))
	case p < 85:
		return genParam(r)
	}
	return genInt(r).v
}

func famSeq(e *env, r *rand.Rand) {
	enumB := e.builtin("enumerate")
	for n := 0; n < 30; n++ {
		// ---- enumerate(x, start)
		seq, elems, kind := genSeq(r, e.th)
		start := genStart(r)
		judgeEnum := func(seq starlark.Value, elems []string, kind string, start *big.Int) {
			e.distinctTuple("enumerate", start, starlark.String(kind), starlark.MakeInt(len(elems)))
			e.c.Cover("enumerate_iterables", kind)
			S := mkInt(r, start)
			args := starlark.Tuple{seq, S}
			if start.Sign() == 0 && r.Intn(2) == 0 {
				args = args[:1]
			}
			o := do(func() (starlark.Value, error) { return starlark.Call(e.th, enumB, args, nil) })
			desc := func() string { return fmt.Sprintf("enumerate(<%s of %d>, %s)", kind, len(elems), start) }
			e.judged++
			cls := "int"
			last := new(big.Int).Set(start) // largest index produced
			if len(elems) > 0 {
				last.Add(start, bi(int64(len(elems)-1)))
			}
			if !fitsI64(start) || !fitsI64(last) {
				cls = "start-near-int64-limit"
			}
			if !e.checkPanic("enumerate", cls, o, desc) {
				if o.err != nil {
					e.mix(0xE)
					if fitsI64(start) && fitsI64(last) {
						e.violation("C10 fails enumerate "+cls, desc()+" failed: "+errStr(o.err), map[string]any{"expr": desc(), "error": errStr(o.err), "variant": e.c.Variant})
					} else {
						e.c.Count("failed_as_allowed", 1)
					}
				} else {
					var parts []string
					for i, el := range elems {
						parts = append(parts, fmt.Sprintf("(%s, %s)", new(big.Int).Add(start, bi(int64(i))), el))
					}
					want := "[" + strings.Join(parts, ", ") + "]"
					got := valStr(o.v)
					e.mix(uint64(len(got)))
					if got != want {
						e.violation("C10 wrong enumerate "+cls, fmt.Sprintf("%s = %s, exact result is %s", desc(), got, want),
							map[string]any{"expr": desc(), "got": got, "want": want, "variant": e.c.Variant})
					} else {
						e.sample(desc, got, want)
					}
				}
			}
			e.c.Cover("ops", "enumerate")
		}
		judgeEnum(seq, elems, kind, start)
		if n == 0 {
			// constant grid (round-5 extension): every iterable kind x every length 0-4 x starts whose last index
			// crosses the int64 limits, so that the known-length and the unknown-length paths both carry past 2^63
			for _, k := range []string{"list", "tuple", "range", "dict", "string.elems", "string.codepoints"} {
				for tries := 0; tries < 40; tries++ {
					sq, el, kd := genSeq(r, e.th)
					if kd != k || len(el) == 0 {
						continue
					}
					for d := int64(0); d < int64(len(el))+1; d++ {
						judgeEnum(sq, el, kd, new(big.Int).Sub(maxI64, bi(d)))
						judgeEnum(sq, el, kd, new(big.Int).Add(minI64, bi(d)))
					}
					e.c.Cover("enumerate_grid", fmt.Sprintf("%s/%d", kd, len(el)))
				}
			}
		}

		// ---- len
		{
			k := r.Intn(300)
			var v starlark.Value
			what := ""
			switch r.Intn(4) {
			case 0:
				v, what = starlark.String(strings.Repeat("ab", k)), "string"
				k *= 2
			case 1:
				v, what = starlark.Bytes(strings.Repeat("z", k)), "bytes"
			case 2:
				v, what = make(starlark.Tuple, k), "tuple"
				for i := range v.(starlark.Tuple) {
					v.(starlark.Tuple)[i] = starlark.None
				}
			default:
				l := make([]starlark.Value, k)
				for i := range l {
					l[i] = starlark.MakeInt(i)
				}
				v, what = starlark.NewList(l), "list"
			}
			e.wantInt("len", what, e.callB("len", v), bi(int64(k)), mustSucceed, func() string { return fmt.Sprintf("len(<%s of %d>)", what, k) })
			e.c.Cover("ops", "len")
		}

		// ---- repetition: sequence * n and n * sequence; negative n behaves like zero
		{
			unit := r.Intn(4)
			var cnt *big.Int
			switch p := r.Intn(10); {
			case p < 5:
				cnt = bi(int64(r.Intn(70) - 4))
			case p < 6:
				cnt = bi(int64(1000 + r.Intn(3000)))
			default:
				cnt = genInt(r).v
				// avoid allocations between 2^20 and the implementation's 2^30 element limit
				if cnt.IsInt64() && cnt.Int64() > 1<<18 && cnt.Int64() < 1<<31-8 {
					cnt = bi(int64(r.Intn(100)))
				}
			}
			e.distinctTuple("repeat", cnt, starlark.MakeInt(unit))
			N := mkInt(r, cnt)
			ustr := "xyz"[:unit]
			kinds := []string{"string", "bytes", "list", "tuple"}
			kind := kinds[r.Intn(4)]
			var v starlark.Value
			switch kind {
			case "string":
				v = starlark.String(ustr)
			case "bytes":
				v = starlark.Bytes(ustr)
			case "list":
				l := make([]starlark.Value, unit)
				for i := range l {
					l[i] = starlark.String(ustr[i : i+1])
				}
				v = starlark.NewList(l)
			default:
				l := make(starlark.Tuple, unit)
				for i := range l {
					l[i] = starlark.String(ustr[i : i+1])
				}
				v = l
			}
			left := r.Intn(2) == 0
			o := do(func() (starlark.Value, error) {
				if left {
					return starlark.Binary(syntax.STAR, N, v)
				}
				return starlark.Binary(syntax.STAR, v, N)
			})
			desc := func() string {
				if left {
					return fmt.Sprintf("%s * <%s %q>", cnt, kind, ustr)
				}
				return fmt.Sprintf("<%s %q> * %s", kind, ustr, cnt)
			}
			e.judged++
			e.c.Cover("ops", "repeat "+kind)
			rcls := kind
			if !e.checkPanic("repeat", rcls, o, desc) {
				// exact length
				wantLen := new(big.Int)
				if cnt.Sign() > 0 {
					wantLen.Mul(cnt, bi(int64(unit)))
				}
				if o.err != nil {
					e.mix(0xE)
					// allowed only when the count is outside int32 or the result would be huge
					if wantLen.Cmp(bi(1<<20)) <= 0 && fitsI32(cnt) {
						e.violation("C10 fails repeat "+rcls, desc()+" failed: "+errStr(o.err), map[string]any{"expr": desc(), "error": errStr(o.err), "variant": e.c.Variant})
					} else {
						e.c.Count("failed_as_allowed", 1)
					}
				} else {
					gl := starlark.Len(o.v)
					e.mix(uint64(gl))
					bad := ""
					if !wantLen.IsInt64() || int64(gl) != wantLen.Int64() {
						bad = fmt.Sprintf("length %d, exact length is %s", gl, wantLen)
					} else if o.v.Type() != kind {
						bad = "result type " + o.v.Type()
					} else if gl > 0 && gl <= 1<<20 {
						// content: periodic repetition of the unit
						var flat string
						switch x := o.v.(type) {
						case starlark.String:
							flat = string(x)
						case starlark.Bytes:
							flat = string(x)
						case *starlark.List:
							var sb strings.Builder
							for i := 0; i < x.Len(); i++ {
								s, _ := starlark.AsString(x.Index(i))
								sb.WriteString(s)
							}
							flat = sb.String()
						case starlark.Tuple:
							var sb strings.Builder
							for _, el := range x {
								s, _ := starlark.AsString(el)
								sb.WriteString(s)
							}
							flat = sb.String()
						}
						if flat != strings.Repeat(ustr, gl/unit) {
							bad = "content is not the repeated unit"
						}
					}
					if bad != "" {
						e.violation("C10 wrong repeat "+rcls, desc()+": "+bad, map[string]any{"expr": desc(), "problem": bad, "variant": e.c.Variant})
					}
				}
			}
		}
	}
	// through source
	for j := 0; j < 6; j++ {
		start := genStart(r)
		if !fitsI64(start) || !fitsI64(new(big.Int).Add(start, bi(3))) {
			continue
		}
		src := fmt.Sprintf(`enumerate(["a", "b", "c"], %s)`, intSrc(r, start))
		want := fmt.Sprintf(`[(%s, "a"), (%s, "b"), (%s, "c")]`, start, new(big.Int).Add(start, bi(1)), new(big.Int).Add(start, bi(2)))
		o := e.eval("str(" + src + ")")
		e.wantStr("enumerate", "int", o, want, mustSucceed, func() string { return src })
		k := r.Intn(60) - 5
		kk := k
		if kk < 0 {
			kk = 0
		}
		src2 := fmt.Sprintf(`len(%s * "ab") + len([1, 2, 3] * %s)`, intSrc(r, bi(int64(k))), intSrc(r, bi(int64(k))))
		e.wantInt("repeat", "source", e.eval(src2), bi(int64(5*kk)), mustSucceed, func() string { return src2 })
		e.c.Cover("ops_source", "enumerate/repeat")
	}
}
