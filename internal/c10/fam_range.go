package c10

import (
	"fmt"
	"math"
	"math/big"
	"math/rand"
	"regexp"
	"strings"

	"go.starlark.net/starlark"
	"go.starlark.net/syntax"
)

func (e *env) evalEnv(src string, env starlark.StringDict) outcome {
	return do(func() (starlark.Value, error) {
		return starlark.EvalOptions(e.opts, e.th, "c10.star", src, env)
	})
}

// genRangeParams draws (start, stop, step) with step != 0.
func genRangeParams(r *rand.Rand) (start, stop, step *big.Int, shape string) {
	switch p := r.Intn(100); {
	case p < 30:
		shape = "small"
		start = bi(int64(r.Intn(41) - 20))
		step = bi(int64(r.Intn(5) + 1))
		if r.Intn(2) == 0 {
			step.Neg(step)
		}
		n := int64(r.Intn(30))
		stop = new(big.Int).Add(start, new(big.Int).Mul(step, bi(n)))
		stop.Add(stop, bi(int64(r.Intn(3)-1)))
	case p < 50:
		shape = "long-from-small-start"
		start = bi(int64(r.Intn(7) - 3))
		stop = pow2(uint([]int{31, 32, 33, 40, 41, 53, 62, 63}[r.Intn(8)]))
		stop.Add(stop, bi(int64(r.Intn(5)-2)))
		step = bi(int64(r.Intn(4) + 1))
		if r.Intn(3) == 0 {
			step = pow2(uint(1 + r.Intn(40)))
		}
		if r.Intn(3) == 0 {
			start, stop = stop, start
			step.Neg(step)
		}
	case p < 70:
		shape = "boundary-start-short"
		start = genParam(r)
		step = bi(int64(r.Intn(5) + 1))
		if r.Intn(4) == 0 {
			step = pow2(uint(1 + r.Intn(62)))
		}
		if r.Intn(2) == 0 {
			step.Neg(step)
		}
		n := int64(r.Intn(12))
		stop = new(big.Int).Add(start, new(big.Int).Mul(step, bi(n)))
		stop.Add(stop, bi(int64(r.Intn(3)-1)))
	case p < 90:
		shape = "all-boundary"
		start, stop, step = genParam(r), genParam(r), genParam(r)
		if r.Intn(2) == 0 {
			step = bi(int64(r.Intn(9) - 4))
		}
	default:
		shape = "int64-extremes"
		ext := func() *big.Int {
			var b *big.Int
			if r.Intn(2) == 0 {
				b = new(big.Int).Set(maxI64)
				b.Sub(b, bi(int64(r.Intn(4))))
			} else {
				b = new(big.Int).Set(minI64)
				b.Add(b, bi(int64(r.Intn(4))))
			}
			return b
		}
		start, stop = ext(), ext()
		if r.Intn(3) == 0 {
			start = bi(int64(r.Intn(5) - 2))
		}
		step = []*big.Int{bi(1), bi(-1), bi(2), bi(3), bi(-3), pow2(62), new(big.Int).Neg(pow2(62)), pow2(31), new(big.Int).Set(maxI64), new(big.Int).Set(minI64)}[r.Intn(10)]
	}
	if step.Sign() == 0 {
		step = bi(1)
	}
	return
}

// convBoundaryFloats are integral floats around the edges of int64 and uint64.
var convBoundaryFloats = []float64{
	9223372036854775808.0, -9223372036854775808.0, 9223372036854777856.0, -9223372036854777856.0,
	9223372036854774784.0, -9223372036854774784.0, 18446744073709551616.0, -18446744073709551616.0,
	1e19, -1e19, 1e300, -1e300, math.MaxFloat64, -math.MaxFloat64,
}

var reRange = regexp.MustCompile(`^range\((-?\d+)(?:, (-?\d+))?(?:, (-?\d+))?\)$`)

// rangeKeyClass separates ranges whose span stop-start (±1) is not a machine integer: every wrong
// answer about such a range has one root cause (the length computation overflows).
func rangeKeyClass(start, stop, step *big.Int) string {
	span := new(big.Int).Sub(stop, start)
	if !fitsI64(new(big.Int).Add(span, bigOne)) || !fitsI64(new(big.Int).Sub(span, bigOne)) {
		return "span-exceeds-int64"
	}
	return "int"
}

func famRange(e *env, r *rand.Rand) {
	rangeB := e.builtin("range")
	for n := 0; n < 8; n++ {
		start, stop, step, shape := genRangeParams(r)
		e.c.Cover("range_shapes", shape)
		e.distinctTuple("range", start, stop, step)
		ex := newExactRange(start, stop, step)
		L := ex.n
		kcls := rangeKeyClass(start, stop, step)
		// All symptoms of machine-integer overflow inside one range share one key (one root cause).
		S := func(site string) string {
			if kcls != "int" {
				return "range"
			}
			return site
		}
		C := func(cls string) string {
			if kcls != "int" {
				return kcls
			}
			return cls
		}
		desc := fmt.Sprintf("range(%s, %s, %s)", start, stop, step)
		e.keyOverride, e.relaxFail = "", false
		if kcls != "int" {
			e.keyOverride, e.relaxFail = "C10 wrong range span-exceeds-int64", true
		}
		args := starlark.Tuple{mkInt(r, start), mkInt(r, stop), mkInt(r, step)}
		if step.Cmp(bigOne) == 0 && r.Intn(2) == 0 {
			args = args[:2]
			if start.Sign() == 0 && r.Intn(2) == 0 {
				args = args[1:]
			}
		}
		paramsFit := fitsI64(start) && fitsI64(stop) && fitsI64(step)
		o := do(func() (starlark.Value, error) { return starlark.Call(e.th, rangeB, args, nil) })
		e.judged++
		if e.checkPanic(S("range"), C(kcls), o, func() string { return desc }) {
			continue
		}
		if o.err != nil {
			e.mix(0xE)
			if paramsFit && fitsI64(L) && kcls == "int" {
				e.violation("C10 fails range "+kcls, fmt.Sprintf("%s failed: %s", desc, errStr(o.err)), map[string]any{"expr": desc, "error": errStr(o.err), "variant": e.c.Variant})
			} else {
				e.c.Count("range_rejected_out_of_int64", 1)
			}
			continue
		}
		rv := o.v
		envR := starlark.StringDict{"r": rv, "range": rangeB, "len": e.builtin("len"), "list": e.builtin("list")}
		e.c.Cover("ops", "range()")
		if fitsI64(L) && paramsFit {
			e.pyAdd("range.len", L.String(), "rangelen", start.String(), stop.String(), step.String())
		}

		// ---- len / truth
		fm := mustSucceed
		if !fitsI64(L) {
			fm = mayFail
		}
		e.wantInt(S("range.len"), C(kcls), e.callB("len", rv), L, fm, func() string { return "len(" + desc + ")" })
		e.wantBool(S("range.truth"), C(kcls), e.callB("bool", rv), L.Sign() > 0, mustSucceed, func() string { return "bool(" + desc + ")" })

		// ---- str: must denote the same sequence
		{
			e.judged++
			s := ""
			if p := slSafe(func() { s = rv.String() }); p {
				e.violation("C10 panic range.str "+kcls, "String() of "+desc+" panicked", map[string]any{"expr": desc})
			} else if m := reRange.FindStringSubmatch(s); m == nil {
				e.violation("C10 wrong range.str form", fmt.Sprintf("str(%s) = %q is not of the form range(...)", desc, s), map[string]any{"expr": desc, "got": s})
			} else {
				var a, b, c *big.Int
				switch {
				case m[2] == "":
					a = bi(0)
					b, _ = new(big.Int).SetString(m[1], 10)
					c = bi(1)
				case m[3] == "":
					a, _ = new(big.Int).SetString(m[1], 10)
					b, _ = new(big.Int).SetString(m[2], 10)
					c = bi(1)
				default:
					a, _ = new(big.Int).SetString(m[1], 10)
					b, _ = new(big.Int).SetString(m[2], 10)
					c, _ = new(big.Int).SetString(m[3], 10)
				}
				if c.Sign() == 0 || !newExactRange(a, b, c).equal(ex) {
					e.violation("C10 wrong "+S("range.str")+" "+kcls, fmt.Sprintf("str(%s) = %q denotes a different sequence", desc, s), map[string]any{"expr": desc, "got": s, "variant": e.c.Variant})
				}
			}
		}

		// ---- indexing
		idx := []*big.Int{bi(0), bi(1), bi(-1), new(big.Int).Sub(L, bigOne), new(big.Int).Set(L), new(big.Int).Neg(L),
			new(big.Int).Sub(new(big.Int).Neg(L), bigOne), new(big.Int).Rsh(L, 1), bi(int64(r.Intn(50))), pow2(31), pow2(40)}
		if L.Sign() > 0 {
			idx = append(idx, new(big.Int).Rand(r, L))
		}
		for _, i := range idx {
			i := i
			envR["i"] = mkInt(r, i)
			k := new(big.Int).Set(i)
			if k.Sign() < 0 {
				k.Add(k, L)
			}
			exs := func() string { return fmt.Sprintf("%s[%s]", desc, i) }
			if k.Sign() >= 0 && k.Cmp(L) < 0 {
				fm := mustSucceed
				if !fitsI32(i) || !fitsI64(L) {
					fm = mayFail // index beyond the int32 index domain / length not representable
				}
				e.wantInt(S("range.index"), C(kcls), e.evalEnv("r[i]", envR), ex.at(k), fm, exs)
			} else {
				e.wantInt(S("range.index"), C(kcls+"-out-of-range"), e.evalEnv("r[i]", envR), nil, mustFail, exs)
			}
		}
		e.c.Cover("ops", "range[i]")

		// ---- membership
		type cand struct {
			v    starlark.Value
			want bool
			fm   failMode
			cls  string
			s    string
		}
		var cands []cand
		addInt := func(x *big.Int) {
			cls := "int"
			if !fitsI32(x) {
				cls = "big-int"
			}
			cands = append(cands, cand{mkInt(r, x), ex.containsInt(x), mustSucceed, cls, x.String()})
		}
		addFloat := func(f float64) {
			c := cand{v: starlark.Float(f), s: fstr(f)}
			switch {
			case !isFinite(f):
				c.want, c.fm, c.cls = false, mayFail, "float-non-finite"
			default:
				if iv, ok := floatIsInt(f); ok {
					c.want, c.fm, c.cls = ex.containsInt(iv), mustSucceed, "float-integral"
					if !fitsI32(iv) {
						c.cls = "big-int" // same path as an integer operand beyond int32
					}
				} else {
					c.want, c.fm, c.cls = false, mustSucceed, "float-fraction"
				}
			}
			cands = append(cands, c)
		}
		var elems []*big.Int
		if L.Sign() > 0 {
			elems = append(elems, ex.at(bi(0)), ex.at(new(big.Int).Sub(L, bigOne)), ex.at(new(big.Int).Rand(r, L)), ex.at(new(big.Int).Rsh(L, 1)))
		}
		for _, el := range elems {
			addInt(el)
			addInt(new(big.Int).Add(el, bigOne))
			addInt(new(big.Int).Sub(el, bigOne))
		}
		addInt(new(big.Int).Sub(start, step))
		addInt(ex.at(L)) // one past the end
		addInt(stop)
		addInt(genParam(r))
		addInt(bi(int64(r.Intn(41) - 20)))
		for _, el := range elems {
			if f, fin := intToFloat(el); fin {
				addFloat(f)
				addFloat(f + 0.5)
				addFloat(math.Nextafter(f, math.Inf(1)))
			}
		}
		addFloat(1.5)
		addFloat(float64(r.Intn(9)-4) + 0.25)
		addFloat(specialFloats[r.Intn(len(specialFloats))])
		addFloat(genFloat(r).v)
		// integral floats at and beyond the int64 conversion boundary: membership must not go through a
		// wrapping or saturating float->int64 conversion (2^63 is not an element of any int64 range)
		nearExtreme := func(x *big.Int) bool {
			return new(big.Int).Sub(x, minI64).CmpAbs(bi(8)) <= 0 || new(big.Int).Sub(maxI64, x).CmpAbs(bi(8)) <= 0
		}
		if L.Sign() > 0 && (nearExtreme(ex.at(bi(0))) || nearExtreme(ex.at(new(big.Int).Sub(L, bigOne)))) {
			for _, f := range convBoundaryFloats {
				addFloat(f)
			}
		} else {
			addFloat(convBoundaryFloats[r.Intn(len(convBoundaryFloats))])
		}
		for _, c := range cands {
			c := c
			neg := r.Intn(4) == 0
			tok, word, want := syntax.IN, "in", c.want
			if neg {
				tok, word, want = syntax.NOT_IN, "not in", !c.want
			}
			o := do(func() (starlark.Value, error) { return starlark.Binary(tok, c.v, rv) })
			e.wantBool(S("range.contains"), C(c.cls), o, want, c.fm, func() string { return fmt.Sprintf("%s %s %s", c.s, word, desc) })
		}
		e.c.Cover("ops", "x in range")
		if paramsFit && len(elems) > 0 {
			x := new(big.Int).Add(elems[2], bi(int64(r.Intn(2))))
			want := "0"
			if ex.containsInt(x) {
				want = "1"
			}
			e.pyAdd("range.contains", want, "rangein", start.String(), stop.String(), step.String(), x.String())
		}

		// ---- iteration
		{
			e.judged++
			var got []starlark.Value
			limit := 6
			if L.IsInt64() && L.Int64() <= 60 {
				limit = 70
			}
			p := slSafe(func() {
				it := starlark.Iterate(rv)
				if it == nil {
					return
				}
				defer it.Done()
				var x starlark.Value
				for len(got) < limit && it.Next(&x) {
					got = append(got, x)
				}
			})
			wantN := int64(limit)
			if L.IsInt64() && L.Int64() < wantN {
				wantN = L.Int64()
			}
			bad := ""
			if p {
				bad = "iteration panicked"
			} else if int64(len(got)) != wantN {
				bad = fmt.Sprintf("iteration yields %d elements, want %d (of %s)", len(got), wantN, L)
			} else {
				for k, g := range got {
					gi, ok := g.(starlark.Int)
					if !ok || gi.BigInt().Cmp(ex.at(bi(int64(k)))) != 0 {
						bad = fmt.Sprintf("element %d of the iteration is %s, want %s", k, valStr(g), ex.at(bi(int64(k))))
						break
					}
				}
			}
			if bad != "" {
				e.violation("C10 wrong "+S("range.iterate")+" "+kcls, desc+": "+bad, map[string]any{"expr": desc, "problem": bad, "variant": e.c.Variant})
			}
			e.mix(uint64(len(got)))
		}

		// ---- slicing (only when the exact length is a machine integer)
		if fitsI64(L) {
			for j := 0; j < 5; j++ {
				pick := func() *int64 {
					switch r.Intn(7) {
					case 0:
						return nil
					case 1:
						v := int64(r.Intn(7) - 3)
						return &v
					case 2:
						v := int64(math.MaxInt32 - r.Intn(2))
						return &v
					case 3:
						v := int64(math.MinInt32 + r.Intn(2))
						return &v
					case 4:
						if L.Sign() > 0 && L.Cmp(maxI32) < 0 {
							v := new(big.Int).Rand(r, L).Int64()
							if r.Intn(2) == 0 {
								v = -v
							}
							return &v
						}
						v := int64(r.Intn(100))
						return &v
					}
					v := int64(r.Intn(41) - 20)
					return &v
				}
				lo, hi := pick(), pick()
				var st int64 = 1
				hasStep := r.Intn(2) == 0
				if hasStep {
					st = []int64{1, 2, 3, -1, -2, -3, 7, math.MaxInt32, math.MinInt32, 1 << 20, -(1 << 20)}[r.Intn(11)]
				}
				render := func(p *int64) string {
					if p == nil {
						return ""
					}
					return fmt.Sprint(*p)
				}
				src := "r[" + render(lo) + ":" + render(hi)
				if hasStep {
					src += ":" + fmt.Sprint(st)
				}
				src += "]"
				first, count := sliceIdx(L.Int64(), lo, hi, st)
				var sub exactRange
				if count > 0 {
					sub = exactRange{ex.at(bi(first)), new(big.Int).Mul(ex.step, bi(st)), bi(count)}
				} else {
					sub = exactRange{bi(0), bi(1), bi(0)}
				}
				sdesc := strings.Replace(src, "r", desc, 1)
				// Slices whose derived parameters (start-step, start+step*len, step*slicestep) are not
				// machine integers share one root cause (unchecked arithmetic in the slice operation).
				saved, savedRelax := e.keyOverride, e.relaxFail
				extent := new(big.Int).Mul(new(big.Int).Abs(step), new(big.Int).Add(L, bigOne)) // |step|*(len+1)+2: total extent plus one step
				extent.Add(extent, bi(2))
				if kcls != "int" || (!fitsI64(new(big.Int).Sub(start, step)) || !fitsI64(ex.at(L)) || !fitsI64(new(big.Int).Mul(step, bi(st))) || !fitsI64(extent)) {
					e.keyOverride, e.relaxFail = "C10 wrong range.slice int64-overflow", true
				}
				restore := func() { e.keyOverride, e.relaxFail = saved, savedRelax }
				so := e.evalEnv(src, envR)
				e.judged++
				if e.checkPanic(S("range.slice"), C(kcls), so, func() string { return sdesc }) {
					restore()
					continue
				}
				if so.err != nil && e.relaxFail {
					e.mix(0xE)
					e.c.Count("failed_as_allowed", 1)
					restore()
					continue
				}
				if so.err != nil {
					e.mix(0xE)
					e.violation("C10 fails range.slice "+kcls, fmt.Sprintf("%s failed: %s", sdesc, errStr(so.err)), map[string]any{"expr": sdesc, "error": errStr(so.err), "variant": e.c.Variant})
					restore()
					continue
				}
				envS := starlark.StringDict{"s": so.v}
				scls := kcls
				e.wantInt(S("range.slice"), C(scls), e.callB("len", so.v), sub.n, mustSucceed, func() string { return "len(" + sdesc + ")" })
				if count > 0 {
					e.wantInt(S("range.slice"), C(scls), e.evalEnv("s[0]", envS), sub.at(bi(0)), mustSucceed, func() string { return sdesc + "[0]" })
					e.wantInt(S("range.slice"), C(scls), e.evalEnv("s[-1]", envS), sub.at(bi(count-1)), mustSucceed, func() string { return sdesc + "[-1]" })
					// membership of the last selected element in the slice
					last := sub.at(bi(count - 1))
					if !fitsI32(last) {
						restore()
						continue // membership of integers beyond int32 is judged on directly constructed ranges
					}
					mo := do(func() (starlark.Value, error) { return starlark.Binary(syntax.IN, starlark.MakeBigInt(last), so.v) })
					mcls := "int"
					if !fitsI32(last) {
						mcls = "big-int"
					}
					e.wantBool(S("range.contains"), C(mcls), mo, true, mustSucceed, func() string { return fmt.Sprintf("%s in %s", last, sdesc) })
				}
				// equality with the directly constructed range of the same sequence
				if count > 0 && fitsI64(sub.start) && fitsI64(sub.step) {
					end := sub.at(sub.n)
					if fitsI64(end) && rangeKeyClass(sub.start, end, sub.step) == "int" {
						eo := do(func() (starlark.Value, error) {
							d, err := starlark.Call(e.th, rangeB, starlark.Tuple{starlark.MakeBigInt(sub.start), starlark.MakeBigInt(end), starlark.MakeBigInt(sub.step)}, nil)
							if err != nil {
								return nil, err
							}
							ok, err := starlark.Equal(so.v, d)
							return starlark.Bool(ok), err
						})
						e.wantBool(S("range.slice"), C(scls), eo, true, mustSucceed, func() string { return fmt.Sprintf("%s == range(%s, %s, %s)", sdesc, sub.start, end, sub.step) })
					}
				}
				restore()
			}
			e.c.Cover("ops", "range[a:b:c]")
		}

		// ---- equality between ranges
		for j := 0; j < 3; j++ {
			var s2, e2, t2 *big.Int
			switch r.Intn(5) {
			case 0:
				s2, e2, t2 = start, stop, step
			case 1:
				// same sequence, different stop
				s2, t2 = start, step
				e2 = new(big.Int).Add(stop, bi(int64(r.Intn(3)-1)))
			case 2:
				// same start, different step (equal only for length <= 1)
				s2, e2 = start, stop
				t2 = new(big.Int).Add(step, bi(int64(r.Intn(3)-1)))
			case 3:
				s2, e2, t2 = genParam(r), genParam(r), bi(int64(r.Intn(7)-3))
			default:
				// exactly the denoted sequence with a canonical stop
				s2, t2 = start, step
				e2 = ex.at(L)
			}
			if t2.Sign() == 0 {
				t2 = bi(1)
			}
			if !fitsI64(s2) || !fitsI64(e2) || !fitsI64(t2) {
				continue
			}
			ex2 := newExactRange(s2, e2, t2)
			if !fitsI64(ex2.n) {
				continue
			}
			d2 := fmt.Sprintf("range(%s, %s, %s)", s2, e2, t2)
			want := ex.equal(ex2)
			tok, sym := syntax.EQL, "=="
			if r.Intn(3) == 0 {
				tok, sym, want = syntax.NEQ, "!=", !want
			}
			eo := do(func() (starlark.Value, error) {
				d, err := starlark.Call(e.th, rangeB, starlark.Tuple{starlark.MakeBigInt(s2), starlark.MakeBigInt(e2), starlark.MakeBigInt(t2)}, nil)
				if err != nil {
					return nil, err
				}
				ok, err := starlark.Compare(tok, rv, d)
				return starlark.Bool(ok), err
			})
			cls := kcls
			if c2 := rangeKeyClass(s2, e2, t2); c2 != "int" {
				cls = c2
			}
			site := S("range.eq")
			savedK, savedR := e.keyOverride, e.relaxFail
			if cls != "int" {
				site = "range"
				e.keyOverride, e.relaxFail = "C10 wrong range span-exceeds-int64", true
			}
			e.wantBool(site, cls, eo, want, mustSucceed, func() string { return desc + " " + sym + " " + d2 })
			e.keyOverride, e.relaxFail = savedK, savedR
		}
		e.c.Cover("ops", "range == range")

		// ---- through source text, with literal parameters
		if paramsFit && r.Intn(2) == 0 {
			rs := fmt.Sprintf("range(%s, %s, %s)", intSrc(r, start), intSrc(r, stop), intSrc(r, step))
			if fitsI64(L) {
				src := "len(" + rs + ")"
				e.wantInt(S("range.len"), C(kcls), e.eval(src), L, mustSucceed, func() string { return src })
			}
			if len(elems) > 0 {
				x := elems[r.Intn(len(elems))]
				src := intSrc(r, x) + " in " + rs
				cls := "int"
				if !fitsI32(x) {
					cls = "big-int"
				}
				e.wantBool(S("range.contains"), C(cls), e.eval(src), true, mustSucceed, func() string { return src })
			}
			e.c.Cover("ops_source", "range")
		}
	}
}
