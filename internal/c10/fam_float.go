package c10

import (
	"fmt"
	"math"
	"math/big"
	"math/rand"

	"go.starlark.net/starlark"
	"go.starlark.net/syntax"
)

type fstringer float64

func (f fstringer) String() string { return fbitsRes(float64(f)) }

func ieee(sym string, a, b float64) float64 {
	switch sym {
	case "+":
		return a + b
	case "-":
		return a - b
	case "*":
		return a * b
	case "/":
		return a / b
	}
	panic(sym)
}

var floatArith = []binop{
	{syntax.PLUS, "add", "+"}, {syntax.MINUS, "sub", "-"}, {syntax.STAR, "mul", "*"}, {syntax.SLASH, "truediv", "/"},
}

// cmpIF is the exact three-way comparison of integer x and non-NaN float f.
func cmpIF(x *big.Int, f float64) int {
	switch {
	case math.IsInf(f, 1):
		return -1
	case math.IsInf(f, -1):
		return +1
	}
	return cmpIntFloat(x, f)
}

// weakFloorMod checks the laws of the DESIGN scope note for float // and %:
// only |r| <= |y|, the sign of a non-zero remainder, integrality of the quotient,
// NaN propagation and division by zero.
func (e *env) weakFloorMod(site string, sym string, o outcome, a, b float64, expr func() string) {
	e.judged++
	if e.checkPanic(site, "float", o, expr) {
		return
	}
	if b == 0 {
		if o.err == nil {
			e.violation("C10 wrong "+site+" zero-divisor", fmt.Sprintf("%s returned %s, division by zero must fail", expr(), valStr(o.v)),
				map[string]any{"expr": expr(), "got": valStr(o.v), "variant": e.c.Variant})
		}
		e.mix(0xE)
		return
	}
	if o.err != nil {
		e.mix(0xE)
		e.violation("C10 fails "+site+" float", fmt.Sprintf("%s failed: %s", expr(), errStr(o.err)),
			map[string]any{"expr": expr(), "error": errStr(o.err), "variant": e.c.Variant})
		return
	}
	gf, ok := o.v.(starlark.Float)
	if !ok {
		e.violation("C10 wrong "+site+" float", fmt.Sprintf("%s returned %s (%s), want a float", expr(), valStr(o.v), o.v.Type()),
			map[string]any{"expr": expr(), "got": valStr(o.v), "variant": e.c.Variant})
		return
	}
	g := float64(gf)
	if math.IsNaN(g) {
		e.mix(0x7ff8)
	} else {
		e.mix(math.Float64bits(g))
	}
	bad := ""
	switch {
	case math.IsNaN(a) || math.IsNaN(b):
		if !math.IsNaN(g) {
			bad = "NaN operand must give NaN"
		}
	case !isFinite(a) || !isFinite(b):
		e.c.Count("float_floormod_infinite_operand_unjudged", 1)
	case sym == "%":
		if math.IsNaN(g) || math.Abs(g) > math.Abs(b) {
			bad = "|x % y| exceeds |y|"
		} else if g != 0 && math.Signbit(g) != math.Signbit(b) {
			bad = "non-zero remainder does not take the sign of the divisor"
		}
	case sym == "//":
		q := a / b
		if isFinite(g) {
			if g != math.Floor(g) {
				bad = "floored quotient is not integral"
			} else if isFinite(q) && math.Abs(q) < 1<<52 && math.Abs(g-q) > 1 {
				bad = "floored quotient is more than 1 away from x/y"
			}
		} else if isFinite(q) {
			bad = "non-finite quotient of finite operands with finite x/y"
		}
	}
	if bad != "" {
		e.violation("C10 wrong "+site+" float-weak-law", fmt.Sprintf("%s = %s: %s", expr(), fstr(g), bad),
			map[string]any{"expr": expr(), "got": fstr(g), "law": bad, "variant": e.c.Variant})
		return
	}
	e.sample(expr, fstr(g), "weak law: "+sym)
}

func famIntFloat(e *env, r *rand.Rand) {
	for n := 0; n < 22; n++ {
		xo, fo := genInt(r), genFloat(r)
		x, f := xo.v, fo.v
		if r.Intn(4) == 0 && isFinite(f) {
			// an integer adjacent to the float's value, so that comparisons are tight
			x = truncFloat(f)
			x.Add(x, bi(int64(r.Intn(3)-1)))
			xo.class = "adjacent-to-float"
		}
		e.c.Cover("int_class", xo.class)
		e.c.Cover("float_class", fo.class)
		e.distinctTuple("intfloat", x, fstringer(f))
		X, F := mkInt(r, x), starlark.Float(f)
		xcls := intClass(x)

		// ---- comparisons, both orders
		if math.IsNaN(f) {
			// The property speaks about numbers; NaN ordering is a deliberate implementation choice
			// (testdata/float.star) that differs from doc/spec.md. Only antisymmetry is checked.
			for _, pr := range [][2]syntax.Token{{syntax.LT, syntax.GT}, {syntax.LE, syntax.GE}, {syntax.EQL, syntax.EQL}, {syntax.NEQ, syntax.NEQ}} {
				var a, b bool
				var ea, eb error
				p := slSafe(func() {
					a, ea = starlark.Compare(pr[0], X, F)
					b, eb = starlark.Compare(pr[1], F, X)
				})
				e.judged++
				if p || ea != nil || eb != nil || a != b {
					e.violation("C10 wrong int-float.cmp nan-antisymmetry", fmt.Sprintf("%s %v NaN = %v but NaN %v %s = %v (errors %v %v)", x, pr[0], a, pr[1], x, b, ea, eb),
						map[string]any{"x": x.String(), "variant": e.c.Variant})
				}
			}
			e.c.Count("nan_comparisons_not_judged_for_value", 1)
		} else {
			c := cmpIF(x, f)
			for _, op := range cmpOps {
				op := op
				o := do(func() (starlark.Value, error) {
					b, err := starlark.Compare(op.tok, X, F)
					return starlark.Bool(b), err
				})
				e.wantBool("int-float.cmp", xcls, o, cmpWant(op.tok, c), mustSucceed, func() string { return fmt.Sprintf("%s %s %s", x, op.sym, fstr(f)) })
				o = do(func() (starlark.Value, error) {
					b, err := starlark.Compare(op.tok, F, X)
					return starlark.Bool(b), err
				})
				e.wantBool("int-float.cmp", xcls, o, cmpWant(op.tok, -c), mustSucceed, func() string { return fmt.Sprintf("%s %s %s", fstr(f), op.sym, x) })
			}
			e.c.Cover("ops", "int<>float compare")
			e.pyAdd("int-float.cmp", fmt.Sprint(c), "cmpif", x.String(), fbits(f))
			if r.Intn(3) == 0 {
				op := cmpOps[r.Intn(len(cmpOps))]
				src := intSrc(r, x) + " " + op.sym + " " + floatSrc(f)
				e.wantBool("int-float.cmp", xcls, e.eval(src), cmpWant(op.tok, c), mustSucceed, func() string { return src })
				e.c.Cover("ops_source", "int<>float compare")
			}
		}

		// ---- float(x): nearest float, ties to even; too large: error (or infinity) accepted
		xf, finite := intToFloat(x)
		fm := mustSucceed
		if !finite {
			fm = mayFail
		}
		e.wantFloat("float(int)", xcls, e.callB("float", X), xf, fm, func() string { return fmt.Sprintf("float(%s)", x) })
		e.c.Cover("ops", "float(int)")
		if finite {
			e.pyAdd("float(int)", fbitsRes(xf), "float", x.String())
		}
		// Int.Float() Go accessor: nearest, infinity when too large
		e.judged++
		if g := float64(X.Float()); !sameFloat(g, xf) {
			e.violation("C10 wrong Int.Float "+xcls, fmt.Sprintf("Int(%s).Float() = %s, nearest is %s", x, fstr(g), fstr(xf)), map[string]any{"x": x.String(), "variant": e.c.Variant})
		}

		// ---- int(f): truncation; NaN/Inf must fail
		if isFinite(f) {
			t := truncFloat(f)
			e.wantInt("int(float)", "finite", e.callB("int", F), t, mustSucceed, func() string { return fmt.Sprintf("int(%s)", fstr(f)) })
			e.pyAdd("int(float)", t.String(), "trunc", fbits(f))
			if r.Intn(3) == 0 {
				src := "int(" + floatSrc(f) + ")"
				e.wantInt("int(float)", "finite", e.eval(src), t, mustSucceed, func() string { return src })
			}
			for _, c := range []string{"d", "x", "o", "X", "i"} {
				c := c
				base, upper := 10, false
				switch c {
				case "x":
					base = 16
				case "X":
					base, upper = 16, true
				case "o":
					base = 8
				}
				o := do(func() (starlark.Value, error) { return starlark.Binary(syntax.PERCENT, starlark.String("%"+c), F) })
				e.wantStr("format%"+c, "float-operand", o, fmtBase(t, base, upper), mustSucceed, func() string { return fmt.Sprintf("%q %% %s", "%"+c, fstr(f)) })
			}
			e.pyAdd("format%d", fmtBase(t, 10, false), "fmtf", "d", fbits(f))
			e.c.Cover("ops", "%d of float")
		} else {
			e.wantInt("int(float)", "non-finite", e.callB("int", F), nil, mustFail, func() string { return fmt.Sprintf("int(%s)", fstr(f)) })
			o := do(func() (starlark.Value, error) { return starlark.Binary(syntax.PERCENT, starlark.String("%d"), F) })
			e.wantStr("format%d", "non-finite", o, "", mustFail, func() string { return fmt.Sprintf(`"%%d" %% %s`, fstr(f)) })
		}
		e.c.Cover("ops", "int(float)")

		// ---- math.floor / ceil / round
		if isFinite(f) {
			e.wantInt("math.floor", "float", e.callMath("floor", F), floorFloat(f), mustSucceed, func() string { return fmt.Sprintf("math.floor(%s)", fstr(f)) })
			e.wantInt("math.ceil", "float", e.callMath("ceil", F), ceilFloat(f), mustSucceed, func() string { return fmt.Sprintf("math.ceil(%s)", fstr(f)) })
			e.pyAdd("math.floor", floorFloat(f).String(), "floor", fbits(f))
			e.pyAdd("math.ceil", ceilFloat(f).String(), "ceil", fbits(f))
			// round returns a float holding the exact integer (always representable for a float argument)
			rw := roundHalfAway(f)
			o := e.callMath("round", F)
			e.judged++
			if !e.checkPanic("math.round", "float", o, func() string { return fmt.Sprintf("math.round(%s)", fstr(f)) }) {
				ok := false
				switch g := o.v.(type) {
				case starlark.Float:
					ok = o.err == nil && isFinite(float64(g)) && cmpIntFloat(rw, float64(g)) == 0
				case starlark.Int:
					ok = o.err == nil && g.BigInt().Cmp(rw) == 0
				}
				if !ok {
					e.violation("C10 wrong math.round float", fmt.Sprintf("math.round(%s) = %s, nearest integer (half away from zero) is %s", fstr(f), o, rw),
						map[string]any{"f": fstr(f), "got": o.String(), "want": rw.String(), "variant": e.c.Variant})
				}
			}
		} else {
			e.wantInt("math.floor", "non-finite", e.callMath("floor", F), nil, mustFail, func() string { return fmt.Sprintf("math.floor(%s)", fstr(f)) })
			e.wantInt("math.ceil", "non-finite", e.callMath("ceil", F), nil, mustFail, func() string { return fmt.Sprintf("math.ceil(%s)", fstr(f)) })
		}
		e.wantInt("math.floor", "int", e.callMath("floor", X), x, mustSucceed, func() string { return fmt.Sprintf("math.floor(%s)", x) })
		e.wantInt("math.ceil", "int", e.callMath("ceil", X), x, mustSucceed, func() string { return fmt.Sprintf("math.ceil(%s)", x) })
		{
			// math.round(int): exact value is x itself; a float result must be exactly x, else it must fail.
			o := e.callMath("round", X)
			e.judged++
			if !e.checkPanic("math.round", "int", o, func() string { return fmt.Sprintf("math.round(%s)", x) }) && o.err == nil {
				ok := false
				switch g := o.v.(type) {
				case starlark.Float:
					ok = isFinite(float64(g)) && cmpIntFloat(x, float64(g)) == 0
				case starlark.Int:
					ok = g.BigInt().Cmp(x) == 0
				}
				if !ok {
					e.violation("C10 wrong math.round int-not-float-representable", fmt.Sprintf("math.round(%s) = %s: rounded silently, the nearest integer is %s itself", x, o, x),
						map[string]any{"x": x.String(), "got": o.String(), "variant": e.c.Variant})
				}
			}
		}
		e.c.Cover("ops", "math.floor/ceil/round")

		// ---- mixed arithmetic + - * / : as if the int were first converted to float
		xinf := xf // ±Inf when not finite
		for _, op := range floatArith {
			op := op
			for _, intLeft := range []bool{true, false} {
				intLeft := intLeft
				var want float64
				var L, R starlark.Value
				divisorZero := false
				if intLeft {
					want, L, R = ieee(op.sym, xinf, f), X, F
					divisorZero = op.sym == "/" && f == 0
				} else {
					want, L, R = ieee(op.sym, f, xinf), F, X
					divisorZero = op.sym == "/" && x.Sign() == 0
				}
				fm := mustSucceed
				switch {
				case divisorZero:
					fm = mustFail
				case !finite:
					fm = mayFail
				}
				o := do(func() (starlark.Value, error) { return starlark.Binary(op.tok, L, R) })
				e.wantFloat("int-float."+op.name, xcls, o, want, fm, func() string {
					if intLeft {
						return fmt.Sprintf("%s %s %s", x, op.sym, fstr(f))
					}
					return fmt.Sprintf("%s %s %s", fstr(f), op.sym, x)
				})
			}
		}
		e.c.Cover("ops", "int<>float + - * /")
		if finite && isFinite(f) {
			e.pyAdd("int-float.mul", fbitsRes(xf*f), "fmul", fbits(xf), fbits(f))
			e.pyAdd("int-float.add", fbitsRes(xf+f), "fadd", fbits(xf), fbits(f))
		}
		if r.Intn(3) == 0 && finite {
			op := floatArith[r.Intn(3)]
			src := intSrc(r, x) + " " + op.sym + " " + floatSrc(f)
			e.wantFloat("int-float."+op.name, xcls, e.eval(src), ieee(op.sym, xf, f), mustSucceed, func() string { return src })
			e.c.Cover("ops_source", "int<>float arithmetic")
		}

		// ---- int / int
		yo := genInt(r)
		y := yo.v
		Y := mkInt(r, y)
		yf, yfin := intToFloat(y)
		{
			fm := mustSucceed
			switch {
			case y.Sign() == 0:
				fm = mustFail
			case !finite || !yfin:
				fm = mayFail
			}
			o := do(func() (starlark.Value, error) { return starlark.Binary(syntax.SLASH, X, Y) })
			e.wantFloat("int.truediv", pairClass(x, y), o, xf/yf, fm, func() string { return fmt.Sprintf("%s / %s", x, y) })
			e.c.Cover("ops", "int / int")
			lim := pow2(53)
			if fm == mustSucceed && new(big.Int).Abs(x).Cmp(lim) <= 0 && new(big.Int).Abs(y).Cmp(lim) <= 0 {
				e.pyAdd("int.truediv", fbitsRes(xf/yf), "fdiv", fbits(xf), fbits(yf))
			}
		}

		// ---- float // and % : weak laws only (DESIGN scope note)
		go2 := genFloat(r)
		g := go2.v
		G := starlark.Float(g)
		e.c.Cover("float_class", go2.class)
		for _, op := range []binop{{syntax.SLASHSLASH, "floordiv", "//"}, {syntax.PERCENT, "mod", "%"}} {
			op := op
			o := do(func() (starlark.Value, error) { return starlark.Binary(op.tok, F, G) })
			e.weakFloorMod("float."+op.name, op.sym, o, f, g, func() string { return fmt.Sprintf("%s %s %s", fstr(f), op.sym, fstr(g)) })
			if finite {
				o = do(func() (starlark.Value, error) { return starlark.Binary(op.tok, X, G) })
				e.weakFloorMod("float."+op.name, op.sym, o, xf, g, func() string { return fmt.Sprintf("%s %s %s", x, op.sym, fstr(g)) })
				o = do(func() (starlark.Value, error) { return starlark.Binary(op.tok, G, X) })
				e.weakFloorMod("float."+op.name, op.sym, o, g, xf, func() string { return fmt.Sprintf("%s %s %s", fstr(g), op.sym, x) })
			}
		}
		e.c.Cover("ops", "float // % (weak laws)")
		// float + - * / float: IEEE
		for _, op := range floatArith {
			op := op
			fm := mustSucceed
			if op.sym == "/" && g == 0 {
				fm = mustFail
			}
			o := do(func() (starlark.Value, error) { return starlark.Binary(op.tok, F, G) })
			e.wantFloat("float."+op.name, "float", o, ieee(op.sym, f, g), fm, func() string { return fmt.Sprintf("%s %s %s", fstr(f), op.sym, fstr(g)) })
		}
	}
}
