package c10

import (
	"fmt"
	"math"
	"strconv"

	"verif/internal/driver"
)

// pyReq is one operation re-computed by CPython; got is what starlark-go returned,
// rendered in the same textual form the reference script produces.
type pyReq struct {
	site string
	q    []string
	got  string
}

func fbits(f float64) string {
	return strconv.FormatUint(math.Float64bits(f), 10)
}

func fbitsRes(f float64) string {
	if math.IsNaN(f) {
		return "nan"
	}
	return fbits(f)
}

// pyAdd queues an operation for the sampled second oracle (only in sampled cases).
func (e *env) pyAdd(site, got string, q ...string) {
	if !e.pyOn || e.pyDead {
		return
	}
	e.pyq = append(e.pyq, pyReq{site, q, got})
}

func (e *env) flushPy() {
	if len(e.pyq) == 0 || e.pyDead {
		e.pyq = e.pyq[:0]
		return
	}
	if e.py == nil {
		py, err := driver.StartPy(refPy)
		if err != nil {
			e.pyDead = true
			e.c.Inconclusive("python reference cannot start: %v", err)
			return
		}
		e.py = py
	}
	for len(e.pyq) > 0 {
		n := len(e.pyq)
		if n > 400 {
			n = 400
		}
		batch := e.pyq[:n]
		e.pyq = e.pyq[n:]
		req := map[string]any{}
		qs := make([][]string, len(batch))
		for i, b := range batch {
			qs[i] = b.q
		}
		req["q"] = qs
		var resp struct {
			R []string `json:"r"`
		}
		if err := e.py.Call(req, &resp); err != nil || len(resp.R) != len(batch) {
			e.pyDead = true
			e.c.Inconclusive("python reference failed: %v (got %d answers for %d requests)", err, len(resp.R), len(batch))
			return
		}
		for i, b := range batch {
			e.c.Count("python_compared", 1)
			e.c.Cover("python_ops", b.q[0])
			if resp.R[i] != b.got {
				e.c.Violation("C10 python-disagrees "+b.site,
					fmt.Sprintf("%v: starlark-go (and the math/big oracle) give %s, CPython gives %s", b.q, driver.Truncate(b.got, 200), driver.Truncate(resp.R[i], 200)),
					map[string]any{"request": b.q, "starlark": b.got, "python": resp.R[i], "variant": e.c.Variant})
			}
		}
	}
	e.pyq = e.pyq[:0]
}
